"""Thin @wp.kernel wrappers around the REAL mujoco_warp wp.funcs checked by C04 / C19 / C20.

Each kernel only forwards its arguments to the real function (imported from mujoco_warp at run time, so a modified tree is
what gets interpreted and what gets compiled for the replay) and stores the returned values in output arrays.  The wrappers
exist so that the K-mode harness (checks/lib.kernel_thread) and the kernel replay machinery (wsym/replay) can be used for
wp.funcs: the symbolic interpreter inlines the real callee source, the replay compiles and launches the real callee.
"""

import warp as wp

from mujoco_warp._src.collision_core import contact_params
from mujoco_warp._src.collision_core import write_contact
from mujoco_warp._src.collision_primitive_core import capsule_capsule
from mujoco_warp._src.collision_primitive_core import plane_box
from mujoco_warp._src.collision_primitive_core import plane_capsule
from mujoco_warp._src.collision_primitive_core import plane_cylinder
from mujoco_warp._src.collision_primitive_core import plane_ellipsoid
from mujoco_warp._src.collision_primitive_core import plane_sphere
from mujoco_warp._src.collision_primitive_core import sphere_box
from mujoco_warp._src.collision_primitive_core import sphere_capsule
from mujoco_warp._src.collision_primitive_core import sphere_cylinder
from mujoco_warp._src.collision_primitive_core import sphere_sphere
from mujoco_warp._src.math import closest_segment_point
from mujoco_warp._src.math import make_frame
from mujoco_warp._src.math import normalize_with_norm
from mujoco_warp._src.types import vec5

wp.set_module_options({"enable_backward": False})


@wp.kernel
def k_contact_params(
  # Model:
  geom_condim: wp.array[int],
  geom_priority: wp.array[int],
  geom_solmix: wp.array2d[float],
  geom_solref: wp.array2d[wp.vec2],
  geom_solimp: wp.array2d[vec5],
  geom_friction: wp.array2d[wp.vec3],
  geom_margin: wp.array2d[float],
  geom_gap: wp.array2d[float],
  geom_adhesion: wp.array2d[float],
  pair_dim: wp.array[int],
  pair_solref: wp.array2d[wp.vec2],
  pair_solreffriction: wp.array2d[wp.vec2],
  pair_solimp: wp.array2d[vec5],
  pair_margin: wp.array2d[float],
  pair_gap: wp.array2d[float],
  pair_adhesion: wp.array2d[float],
  pair_friction: wp.array2d[vec5],
  # In:
  collision_pair_in: wp.array[wp.vec2i],
  collision_pairid_in: wp.array[wp.vec2i],
  cid: int,
  worldid: int,
  # Out:
  geoms_out: wp.array[wp.vec2i],
  margin_out: wp.array[float],
  gap_out: wp.array[float],
  condim_out: wp.array[int],
  friction_out: wp.array[vec5],
  solref_out: wp.array[wp.vec2],
  solreffriction_out: wp.array[wp.vec2],
  solimp_out: wp.array[vec5],
  adhesion_out: wp.array[float],
):
  geoms, margin, gap, condim, friction, solref, solreffriction, solimp, adhesion = contact_params(
    geom_condim,
    geom_priority,
    geom_solmix,
    geom_solref,
    geom_solimp,
    geom_friction,
    geom_margin,
    geom_gap,
    geom_adhesion,
    pair_dim,
    pair_solref,
    pair_solreffriction,
    pair_solimp,
    pair_margin,
    pair_gap,
    pair_adhesion,
    pair_friction,
    collision_pair_in,
    collision_pairid_in,
    cid,
    worldid,
  )
  geoms_out[0] = geoms
  margin_out[0] = margin
  gap_out[0] = gap
  condim_out[0] = condim
  friction_out[0] = friction
  solref_out[0] = solref
  solreffriction_out[0] = solreffriction
  solimp_out[0] = solimp
  adhesion_out[0] = adhesion


@wp.kernel
def k_write_contact(
  # Data in:
  naconmax_in: int,
  # In:
  id_: int,
  dist_in: float,
  pos_in: wp.vec3,
  frame_in: wp.mat33,
  margin_in: float,
  gap_in: float,
  condim_in: int,
  friction_in: vec5,
  solref_in: wp.vec2,
  solreffriction_in: wp.vec2,
  solimp_in: vec5,
  adhesion_in: float,
  geoms_in: wp.vec2i,
  pairid_in: wp.vec2i,
  worldid_in: int,
  # Data out:
  contact_dist_out: wp.array[float],
  contact_pos_out: wp.array[wp.vec3],
  contact_frame_out: wp.array[wp.mat33],
  contact_includemargin_out: wp.array[float],
  contact_friction_out: wp.array[vec5],
  contact_solref_out: wp.array[wp.vec2],
  contact_solreffriction_out: wp.array[wp.vec2],
  contact_solimp_out: wp.array[vec5],
  contact_dim_out: wp.array[int],
  contact_geom_out: wp.array[wp.vec2i],
  contact_efc_address_out: wp.array2d[int],
  contact_worldid_out: wp.array[int],
  contact_type_out: wp.array[int],
  contact_geomcollisionid_out: wp.array[int],
  contact_adhesion_out: wp.array[float],
  nacon_out: wp.array[int],
  # Out:
  ret_out: wp.array[int],
):
  ret_out[0] = write_contact(
    naconmax_in,
    id_,
    dist_in,
    pos_in,
    frame_in,
    margin_in,
    gap_in,
    condim_in,
    friction_in,
    solref_in,
    solreffriction_in,
    solimp_in,
    adhesion_in,
    geoms_in,
    pairid_in,
    worldid_in,
    contact_dist_out,
    contact_pos_out,
    contact_frame_out,
    contact_includemargin_out,
    contact_friction_out,
    contact_solref_out,
    contact_solreffriction_out,
    contact_solimp_out,
    contact_dim_out,
    contact_geom_out,
    contact_efc_address_out,
    contact_worldid_out,
    contact_type_out,
    contact_geomcollisionid_out,
    contact_adhesion_out,
    nacon_out,
  )


# ------------------------------------------------------------------------------------------------ geometry (C20 / C04)


@wp.kernel
def k_make_frame(a: wp.vec3, frame_out: wp.array[wp.mat33]):
  frame_out[0] = make_frame(a)


@wp.kernel
def k_plane_sphere(plane_normal: wp.vec3, plane_pos: wp.vec3, sphere_pos: wp.vec3, sphere_radius: float, dist_out: wp.array[float], pos_out: wp.array[wp.vec3]):
  dist, pos = plane_sphere(plane_normal, plane_pos, sphere_pos, sphere_radius)
  dist_out[0] = dist
  pos_out[0] = pos


@wp.kernel
def k_sphere_sphere(pos1: wp.vec3, radius1: float, pos2: wp.vec3, radius2: float, dist_out: wp.array[float], pos_out: wp.array[wp.vec3], normal_out: wp.array[wp.vec3]):
  dist, pos, n = sphere_sphere(pos1, radius1, pos2, radius2)
  dist_out[0] = dist
  pos_out[0] = pos
  normal_out[0] = n


@wp.kernel
def k_closest_segment_point(a: wp.vec3, b: wp.vec3, pt: wp.vec3, out: wp.array[wp.vec3]):
  out[0] = closest_segment_point(a, b, pt)


@wp.kernel
def k_sphere_capsule(
  sphere_pos: wp.vec3,
  sphere_radius: float,
  capsule_pos: wp.vec3,
  capsule_axis: wp.vec3,
  capsule_radius: float,
  capsule_half_length: float,
  dist_out: wp.array[float],
  pos_out: wp.array[wp.vec3],
  normal_out: wp.array[wp.vec3],
):
  dist, pos, n = sphere_capsule(sphere_pos, sphere_radius, capsule_pos, capsule_axis, capsule_radius, capsule_half_length)
  dist_out[0] = dist
  pos_out[0] = pos
  normal_out[0] = n


@wp.kernel
def k_plane_capsule(
  plane_normal: wp.vec3,
  plane_pos: wp.vec3,
  capsule_pos: wp.vec3,
  capsule_axis: wp.vec3,
  capsule_radius: float,
  capsule_half_length: float,
  dist_out: wp.array[wp.vec2],
  pos_out: wp.array[wp.vec3],
  frame_out: wp.array[wp.mat33],
):
  dist, pos, frame = plane_capsule(plane_normal, plane_pos, capsule_pos, capsule_axis, capsule_radius, capsule_half_length)
  dist_out[0] = dist
  pos_out[0] = pos[0]
  pos_out[1] = pos[1]
  frame_out[0] = frame


@wp.kernel
def k_normalize_with_norm(x: wp.vec3, n_out: wp.array[wp.vec3], norm_out: wp.array[float]):
  n, norm = normalize_with_norm(x)
  n_out[0] = n
  norm_out[0] = norm


@wp.kernel
def k_capsule_capsule(
  cap1_pos: wp.vec3,
  cap1_axis: wp.vec3,
  cap1_radius: float,
  cap1_half_length: float,
  cap2_pos: wp.vec3,
  cap2_axis: wp.vec3,
  cap2_radius: float,
  cap2_half_length: float,
  margin: float,
  dist_out: wp.array[wp.vec2],
  pos_out: wp.array[wp.vec3],
  normal_out: wp.array[wp.vec3],
):
  dist, pos, normal = capsule_capsule(cap1_pos, cap1_axis, cap1_radius, cap1_half_length, cap2_pos, cap2_axis, cap2_radius, cap2_half_length, margin)
  dist_out[0] = dist
  pos_out[0] = pos[0]
  pos_out[1] = pos[1]
  normal_out[0] = normal[0]
  normal_out[1] = normal[1]


@wp.kernel
def k_plane_box(plane_normal: wp.vec3, plane_pos: wp.vec3, box_pos: wp.vec3, box_rot: wp.mat33, box_size: wp.vec3, dist_out: wp.array[float], pos_out: wp.array[wp.vec3], normal_out: wp.array[wp.vec3]):
  dist, pos, n = plane_box(plane_normal, plane_pos, box_pos, box_rot, box_size)
  for i in range(8):
    dist_out[i] = dist[i]
    pos_out[i] = pos[i]
  normal_out[0] = n


@wp.kernel
def k_sphere_cylinder(
  sphere_pos: wp.vec3,
  sphere_radius: float,
  cylinder_pos: wp.vec3,
  cylinder_axis: wp.vec3,
  cylinder_radius: float,
  cylinder_half_height: float,
  dist_out: wp.array[float],
  pos_out: wp.array[wp.vec3],
  normal_out: wp.array[wp.vec3],
):
  dist, pos, n = sphere_cylinder(sphere_pos, sphere_radius, cylinder_pos, cylinder_axis, cylinder_radius, cylinder_half_height)
  dist_out[0] = dist
  pos_out[0] = pos
  normal_out[0] = n


@wp.kernel
def k_sphere_box(sphere_pos: wp.vec3, sphere_radius: float, box_pos: wp.vec3, box_rot: wp.mat33, box_size: wp.vec3, dist_out: wp.array[float], pos_out: wp.array[wp.vec3], normal_out: wp.array[wp.vec3]):
  dist, pos, n = sphere_box(sphere_pos, sphere_radius, box_pos, box_rot, box_size)
  dist_out[0] = dist
  pos_out[0] = pos
  normal_out[0] = n


@wp.kernel
def k_plane_ellipsoid(plane_normal: wp.vec3, plane_pos: wp.vec3, ellipsoid_pos: wp.vec3, ellipsoid_rot: wp.mat33, ellipsoid_size: wp.vec3, dist_out: wp.array[float], pos_out: wp.array[wp.vec3], normal_out: wp.array[wp.vec3]):
  dist, pos, n = plane_ellipsoid(plane_normal, plane_pos, ellipsoid_pos, ellipsoid_rot, ellipsoid_size)
  dist_out[0] = dist
  pos_out[0] = pos
  normal_out[0] = n


@wp.kernel
def k_plane_cylinder(
  plane_normal: wp.vec3,
  plane_pos: wp.vec3,
  cylinder_center: wp.vec3,
  cylinder_axis: wp.vec3,
  cylinder_xaxis: wp.vec3,
  cylinder_radius: float,
  cylinder_half_height: float,
  dist_out: wp.array[float],
  pos_out: wp.array[wp.vec3],
  normal_out: wp.array[wp.vec3],
):
  dist, pos, n = plane_cylinder(plane_normal, plane_pos, cylinder_center, cylinder_axis, cylinder_xaxis, cylinder_radius, cylinder_half_height)
  for i in range(4):
    dist_out[i] = dist[i]
    pos_out[i] = pos[i]
  normal_out[0] = n
