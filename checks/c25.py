"""C25 Solver termination is correctly reported and transparent.

 refmodel     the stopping rule of the reference (stop at the first iteration whose scaled improvement or gradient is below
              the tolerance, or at the iteration limit) validated on mujoco's recorded solver statistics
 init         _solve_init_efc: every world starts with niter = 0, not done
 step/*       F6 on the REAL _solve_done / _solve_cg_finalize (warn_overflow False / True), one generic world, everything symbolic:
              from niter < iterations and not done:  niter' = niter+1 <= iterations,  done' <=> (tolerance test or niter' = iterations),
              ITERATIONS overflow bit set <=> stops without meeting the tolerance test (other bits kept), nsolving decremented
              exactly once when the world becomes done; a done world: no write at all; only the thread's own world is written
 loop/*       F7 trace of the real solve() (Newton / CG, dense / sparse, pyramidal / elliptic, graph_conditional on / off): the body
              of the graph-conditional loop and every iteration of the fixed-count loop launch the same kernels on the same
              arrays; nsolving starts at nworld; for every kernel of the loop body: "done[world] => this thread writes nothing"
              (K mode, per output array); tile kernels: leading `if ctx_done_in[worldid]: return` checked syntactically;
              arrays that ARE written for done worlds must be scratch that no launch after the loop reads
 native       iterations = 0: niter = 0, no iteration, same result with graph_conditional on / off
"""

import ast
import inspect
import json
import os
import textwrap

import numpy as np
import warp as wp
import z3

from checks import lib
from wsym import core, host, kh, replay, report
from wsym.core import And, Implies, Not, Or, arith, cmp, is_sym, ite

PID = "C25"

XML = """<mujoco><option solver="{solver}" cone="{cone}" jacobian="{jac}" iterations="{it}" tolerance="{tol}"/>
<worldbody><geom type="plane" size="5 5 .1"/>
<body pos="0 0 .09"><freejoint/><geom size=".1"/></body>
<body pos="1 0 1"><joint name="h" limited="true" range="-.2 .2"/><geom size=".1" pos=".3 0 0"/></body></worldbody></mujoco>"""

CONFIGS = {
  "newton-dense-pyramidal": ("Newton", "pyramidal", "dense"),
  "newton-dense-elliptic": ("Newton", "elliptic", "dense"),
  "newton-sparse-pyramidal": ("Newton", "pyramidal", "sparse"),
  "newton-sparse-elliptic": ("Newton", "elliptic", "sparse"),
  "cg-dense-pyramidal": ("CG", "pyramidal", "dense"),
  "cg-sparse-elliptic": ("CG", "elliptic", "sparse"),
}


def xml_for(cfg, it=3, tol=1e-8):
  s, c, j = CONFIGS[cfg]
  return XML.format(solver=s, cone=c, jac=j, it=it, tol=tol)


def ITER():
  from mujoco_warp._src import types

  return int(types.OverflowType.ITERATIONS)


def bit(x, b):
  return (x / b) % 2 == 1


# ------------------------------------------------------------------------------------------------ reference


def ref_tolerance_test(newton, tol, scale, improvement, grad_dot, newton_decrement=None):
  """MuJoCo (mj_solCG / mj_solNewton): the solver stops when  scale*improvement < tolerance  or  scale*|grad| < tolerance,
  scale = 1 / (meaninertia * max(1, nv)).  Written without division / sqrt (scale > 0):  improvement < tol/scale,
  |grad| < tol/scale  <=>  tol > 0 and grad_dot < (tol/scale)^2.  mujoco_warp's Newton solver additionally stops when the
  predicted (quadratic-model) improvement  newton_decrement/2  is below the tolerance."""
  lim = arith("*", tol, scale)  # scale here = meaninertia * nv  (the reciprocal of MuJoCo's scale)
  t = Or(cmp("<", improvement, lim), And(cmp(">", tol, 0), cmp("<", grad_dot, arith("*", lim, lim))))
  if newton:
    t = Or(t, cmp("<", arith("*", 0.5, newton_decrement), lim))
  return t


def unit_refmodel(ctx):
  """mujoco records scaled improvement / gradient per iteration (mjData.solver): the reference stopping rule must explain
  solver_niter for both solvers over a range of tolerances and iteration limits"""
  import mujoco

  ncmp = nbad = 0
  rng = np.random.default_rng(5 + int(ctx.seed))
  for solver in ("CG", "Newton"):
    for cone in ("pyramidal", "elliptic"):
      for tol in (1e-10, 1e-6, 1e-3, 1e-1):
        for it in (1, 2, 3, 5, 50):
          mjm = mujoco.MjModel.from_xml_string(XML.format(solver=solver, cone=cone, jac="dense", it=it, tol=tol))
          d = mujoco.MjData(mjm)
          d.qvel[:] = rng.uniform(-1, 1, size=mjm.nv)
          d.qpos[7] = 0.3
          mujoco.mj_forward(mjm, d)
          n = int(d.solver_niter[0])
          ncmp += 1
          ok = 0 <= n <= it
          for i in range(n):
            st = d.solver[i]
            met = (st.improvement < tol) or (st.gradient < tol)
            last = i == n - 1
            if not last and met:
              ok = False  # would have stopped earlier
            if last and not (met or n == it):
              ok = False
          if not ok:
            nbad += 1
            ctx.error(f"reference stopping rule does not explain mujoco: solver={solver} cone={cone} tol={tol} iterations={it}: niter={n} stats={[(d.solver[i].improvement, d.solver[i].gradient) for i in range(n)]}")
  ctx.notes.append(f"{ncmp} mujoco runs explained by the reference stopping rule, {nbad} not")
  sess = ctx.session([])
  ctx.reach(sess, "twin:reference-validated", z3.BoolVal(nbad == 0))


# ------------------------------------------------------------------------------------------------ F6: one termination step


def any_write(kt, label=None):
  """condition under which the thread writes (any cell of `label`, or of any array)"""
  cell = kt.cell(label) if label else None
  return Or(*[a.guard for a in kt.it.accesses if a.kind.startswith(("W", "A")) and (cell is None or a.cell is cell)])


def goal_step(spec, pre, post):
  """replay goal: the real kernel's outputs for the model's world against the reference (floats)"""
  e = spec["env"]
  w = spec["tid"][0]
  newton = e["newton"]
  it = int(spec["args"]["opt_iterations"]["scalar"])
  nv = int(spec["args"]["nv"]["scalar"])
  tol = float(pre["opt_tolerance"][w % len(pre["opt_tolerance"])])
  mi = float(pre["stat_meaninertia"][w % len(pre["stat_meaninertia"])])
  done0, n0, ov0 = bool(pre["ctx_done_in"][w]), int(pre["solver_niter_out"][w]), int(pre["overflow_out"][w])
  done1, n1, ov1 = bool(post["ctx_done_in"][w]), int(post["solver_niter_out"][w]), int(post["overflow_out"][w])
  ns0, ns1 = int(pre["nsolving_out"][0]), int(post["nsolving_out"][0])
  I = 1 << 9
  if done0:
    same = all(np.array_equal(pre[k], post[k]) for k in pre)
    return same, f"done world {w}: arrays changed = {[k for k in pre if not np.array_equal(pre[k], post[k])]}"
  test = bool(ref_tolerance_test(newton, tol, mi * nv, float(pre["ctx_improvement_in"][w]), float(pre["ctx_grad_dot_in"][w]), float(pre["ctx_newton_decrement_in"][w]) if newton else None))
  exp_done = test or (n0 + 1 == it)
  exp_ov = ov0 | (I if (not test and n0 + 1 == it) else 0)
  others = all(np.array_equal(np.delete(pre[k], w, axis=0), np.delete(post[k], w, axis=0)) for k in pre if k != "nsolving_out" and pre[k].ndim >= 1 and pre[k].shape[0] > w and k not in ("opt_tolerance", "stat_meaninertia"))
  ok = n1 == n0 + 1 and done1 == exp_done and ov1 == exp_ov and ns1 - ns0 == (-1 if exp_done else 0) and others
  return ok, f"world {w}: niter {n0}->{n1} (limit {it}), tolerance test {test}, done {done0}->{done1} (expected {exp_done}), overflow {ov0}->{ov1} (expected {exp_ov}), nsolving {ns0}->{ns1}, other worlds untouched {others}"


def unit_step(newton, warn):
  kname = "_solve_done" if newton else "_solve_cg_finalize"

  def run(ctx):
    from mujoco_warp._src import solver

    k = getattr(solver, kname)(warn)
    loc = f"mujoco_warp._src.solver:{kname}({warn})"
    ctx.encode(k, solver._rescale)
    ctx.bound(shape_cap=6, note="one generic world; iteration limit, counters, tolerance, meaninertia, nv, statistics symbolic")
    ctx.assume("nv >= 1, meaninertia > 0 (solve() is only run with nv > 0; MuJoCo's scale is 1/(meaninertia*max(1,nv)))", "grad_dot >= 0 (a sum of squares)", "overflow word in [0, 2^11)", "iterations >= 1 (iterations = 0: the loop body is never run, see native/iterations0)")
    iters, nv = z3.Int("iterations"), z3.Int("nv")
    kt = lib.kernel_thread(k, scalars={"opt_iterations": iters, "nv": nv}, alias_inout=True)
    w = kt.tid
    done0, n0, ov0 = kt.pre("ctx_done_in", w), kt.pre("solver_niter_out", w), kt.pre("overflow_out", w)
    tsh, msh = kt.cell("opt_tolerance").shape[0], kt.cell("stat_meaninertia").shape[0]
    tol, mi = kt.pre("opt_tolerance", w % tsh), kt.pre("stat_meaninertia", w % msh)
    imp, gd = kt.pre("ctx_improvement_in", w), kt.pre("ctx_grad_dot_in", w)
    nd = kt.pre("ctx_newton_decrement_in", w) if newton else None
    test = core.zbool(ref_tolerance_test(newton, tol, mi * z3.ToReal(nv), imp, gd, nd))
    pre = [nv >= 1, mi > 0, gd >= 0, tsh >= 1, msh >= 1, iters >= 1, ov0 >= 0, ov0 < 2048]
    sess = ctx.session(kt.bg + pre)
    B = z3.And(z3.Not(done0), n0 >= 0, n0 < iters)
    n1, done1, ov1 = kt.post("solver_niter_out", w), kt.post("ctx_done_out", w), kt.post("overflow_out", w)
    I = ITER()
    ctx.reach(sess, "twin:converges", And(B, test, n0 + 1 < iters))
    ctx.reach(sess, "twin:hits-limit", And(B, Not(test), n0 + 1 == iters))
    ctx.reach(sess, "twin:continues", And(B, Not(test), n0 + 1 < iters))
    names = {"w": w, "iterations": iters, "niter0": n0, "done0": done0, "overflow0": ov0, "tolerance": tol, "meaninertia": mi, "nv": nv, "improvement": imp, "grad_dot": gd}
    if newton:
      names["newton_decrement"] = nd
    nice = [tol == 0.5, mi == 1, nv <= 4, iters <= 8, z3.Or(imp >= 1, imp <= 0.25), z3.Or(gd >= 16, gd <= 0.0625), w <= 3] + ([z3.Or(nd >= 4, nd <= 0.5)] if newton else [])
    for lab in kt.args:
      v = kt.args[lab]
      if isinstance(v, core.ArrRef) and lab not in ("opt_tolerance", "stat_meaninertia"):
        nice.append(v.cell.shape[0] > w)

    def rp(name):
      return lib.make_replay(ctx, kt, loc, name, "goal", goal="checks.c25:goal_step", env={"newton": newton})

    def P(name, goal, guard, desc):
      from checks.c30 import nice_replay

      ctx.prove(sess, name, goal, guard, names=names, replay=nice_replay(sess, goal, guard, nice, rp(name)), desc=f"{kname}({warn}): {desc}")

    P("niter-incremented", n1 == n0 + 1, B, "an unconverged world's iteration count is not incremented by exactly one")
    P("niter-within-limit", n1 <= iters, B, "iteration count exceeds the configured limit")
    P("done-iff", done1 == z3.Or(test, n0 + 1 == iters), B, "a world is marked done although neither the tolerance test holds nor the limit is reached (or is not marked done although one of them holds)")
    P("not-done-implies-below-limit", z3.Implies(z3.Not(done1), n1 < iters), B, "a world still iterating has reached the limit (the counter could pass it)")
    P("iterations-bit-iff", bit(ov1, I) == z3.Or(bit(ov0, I), z3.And(z3.Not(test), n0 + 1 == iters)), B, "ITERATIONS overflow bit is not set exactly when the world stops at the limit without meeting the tolerance test")
    P("other-overflow-bits-kept", ov1 - I * ((ov1 / I) % 2) == ov0 - I * ((ov0 / I) % 2), B, "other overflow bits are modified")
    P("nsolving-decremented-once", kt.atomic_total("nsolving_out", 0) == z3.If(done1, -1, 0), B, "the count of unconverged worlds is not decremented exactly once when the world becomes done")
    j = z3.Int("j")
    P("nsolving-only-slot0", Not(kt.written("nsolving_out", j)), j != 0, "writes nsolving at an index other than 0")
    # a done world is untouched
    P("done-world-untouched", Not(any_write(kt)), done0, "a world that is already done is written (its result / counters change when iteration continues)")
    # only the thread's own world is written
    for lab, v in kt.args.items():
      if not isinstance(v, core.ArrRef) or lab == "nsolving_out" or not any(a.cell is v.cell and a.kind.startswith(("W", "A")) for a in kt.it.accesses):
        continue
      P(f"own-world-only/{lab}", Not(kt.written(lab, j)), j != w, f"writes {lab} of another world")

  return (f"step/{'newton' if newton else 'cg'}/warn{int(warn)}", run)


def unit_init(ctx):
  from mujoco_warp._src import solver

  k = solver._solve_init_efc
  ctx.encode(k)
  kt = lib.kernel_thread(k)
  w = kt.tid
  sess = ctx.session(kt.bg)
  ctx.reach(sess, "twin:thread", True)
  rp = lib.make_replay(ctx, kt, "mujoco_warp._src.solver:_solve_init_efc", "init", "goal", goal="checks.c25:goal_init", env={})
  ctx.prove(sess, "niter-zero", cmp("==", kt.post("solver_niter_out", w), 0), names={"w": w}, replay=rp, desc="_solve_init_efc: iteration count does not start at 0")
  ctx.prove(sess, "not-done", Not(kt.post("ctx_done_out", w)), names={"w": w}, replay=rp, desc="_solve_init_efc: world does not start as not-done")


def goal_init(spec, pre, post):
  w = spec["tid"][0]
  ok = int(post["solver_niter_out"][w]) == 0 and not bool(post["ctx_done_out"][w])
  return ok, f"world {w}: niter {post['solver_niter_out'][w]} done {post['ctx_done_out'][w]}"


# ------------------------------------------------------------------------------------------------ F7: the iteration loop


def trace_solve(cfg, graph_conditional, iterations=2, nworld=2):
  import mujoco

  import mujoco_warp as mjw
  from checks import hosttrace_c37 as T
  from mujoco_warp._src import solver

  mjm = mujoco.MjModel.from_xml_string(xml_for(cfg, it=iterations))
  m = mjw.put_model(mjm)
  m.opt.graph_conditional = bool(graph_conditional)
  d = mjw.make_data(mjm, nworld=nworld, nconmax=4, njmax=16)
  d2 = host.shim_dataclass(d, "d.", symbolic=lambda n: False)
  orig = solver._create_solver_context
  made = []

  def create(m_, d_):
    c = orig(m_, d_)
    made.append(c)
    return c

  solver._create_solver_context = create
  try:
    with T.TraceRun() as hr:
      solver.solve(m, d2)
  finally:
    solver._create_solver_context = orig
  import dataclasses

  for c in made:  # readable labels for the SolverContext scratch arrays
    for f in dataclasses.fields(c):
      a = getattr(c, f.name)
      if isinstance(a, host.SymArr) and a.name_.startswith("tmp"):
        a.name_ = f"ctx.{f.name}"
  return mjm, m, d2, hr


def loop_segments(hr, graph_conditional, iterations):
  """-> (before, [iteration bodies], after) lists of Launch"""
  L = hr.launches
  if graph_conditional:
    body = [l for l in L if l.loop]
    first = next(i for i, l in enumerate(L) if l.loop)
    last = max(i for i, l in enumerate(L) if l.loop)
    return L[:first], [body], L[last + 1 :]
  # fixed-count loop: the iteration body is delimited by the termination kernel
  ends = [i for i, l in enumerate(L) if l.key.startswith(("_solve_done", "_solve_cg_finalize"))]
  if len(ends) != iterations:
    raise core.Unsupported(f"expected {iterations} termination launches, found {len(ends)}")
  return None, ends, None


def capture(key):
  """replay locator 'capture:checks.c25:capture:<cfg>|<gc>|<index>' -> kernel object of that launch of the traced solve()"""
  cfg, gc, idx = key.split("|")
  _, _, _, hr = trace_solve(cfg, gc == "1")
  return hr.launches[int(idx)].kernel


def goal_nowrite(spec, pre, post):
  e = spec["env"]
  changed = [k for k in pre if pre[k].shape == post[k].shape and not np.array_equal(pre[k], post[k], equal_nan=True)]
  sent = (e.get("sentinels") or {}).get(e["label"])
  if sent is not None and e["label"] in post and np.any(post[e["label"]] != sent):
    changed.append(e["label"] + " (sentinel overwritten)")
  return (not changed), f"thread {spec['tid']} of a done world changed {changed}"


def leading_done_guard(kernel, done_params):
  """tile kernels: the first statement after the `wp.tid()` assignment is `if <done>[worldid]: return`"""
  node, _, _ = core.fdef(kernel.func)
  body = [s for s in node.body if not (isinstance(s, ast.Expr) and isinstance(s.value, ast.Constant))]
  if not body or not (isinstance(body[0], ast.Assign) and isinstance(body[0].value, ast.Call) and getattr(body[0].value.func, "attr", None) == "tid"):
    return False
  tgt = body[0].targets[0]
  world = tgt.elts[0].id if isinstance(tgt, ast.Tuple) else tgt.id
  for s in body[1:]:
    if isinstance(s, ast.If):
      t = s.test
      ok = isinstance(t, ast.Subscript) and isinstance(t.value, ast.Name) and t.value.id in done_params and isinstance(t.slice, ast.Name) and t.slice.id == world
      return ok and len(s.body) == 1 and isinstance(s.body[0], ast.Return) and not s.orelse
    if isinstance(s, ast.Assign) and not any(isinstance(n, ast.Subscript) or (isinstance(n, ast.Call) and getattr(n.func, "attr", "") not in ("block_dim", "static")) for n in ast.walk(s.value)):
      continue  # constant / scalar set-up (wp.static, wp.block_dim) before the guard: no memory access
    return False
  return False


XML_MIXED = """<mujoco><option solver="{solver}" cone="{cone}" jacobian="{jac}" iterations="20" tolerance="{tol}"/>
<worldbody><geom type="plane" size="5 5 .1"/>
<body pos="0 0 .09"><freejoint/><geom type="box" size=".1 .1 .1"/>
 <body pos=".25 0 0"><joint axis="0 1 0" limited="true" range="-.2 .2"/><geom size=".08"/></body></body>
</worldbody></mujoco>"""


def native_transparency(cfg):
  """real forward() on a 4-world batch whose worlds converge at different iterations, graph_conditional on vs off
  (off = the fixed-count loop keeps launching the iteration kernels after a world has converged)"""
  import mujoco

  import mujoco_warp as mjw

  solver, cone, jac = CONFIGS[cfg]
  out = {}
  for gc in (True, False):
    mjm = mujoco.MjModel.from_xml_string(XML_MIXED.format(solver=solver, cone=cone, jac=jac, tol=1e-10 if solver == "Newton" else 1e-4))
    m = mjw.put_model(mjm)
    m.opt.graph_conditional = gc
    m.opt.warn_overflow = False
    d = mjw.make_data(mjm, nworld=4, nconmax=16, njmax=64)
    rng = np.random.default_rng(0)
    q = d.qpos.numpy()
    q[0, 2] = 0.5  # world 0: in the air, joint inside its range: converges at once
    q[1, 7], q[2, 7], q[2, 2], q[3, 7], q[3, 2] = 0.3, -0.25, 0.07, 0.3, 0.08
    d.qpos = wp.array(q, dtype=float)
    v = d.qvel.numpy()
    v[1, :], v[2, :], v[3, :] = rng.uniform(-1, 1, 7), rng.uniform(-5, 5, 7), rng.uniform(-3, 3, 7)
    d.qvel = wp.array(v, dtype=float)
    mjw.forward(m, d)
    out[gc] = {"niter": d.solver_niter.numpy().tolist(), "qacc": d.qacc.numpy().tolist(), "qfrc_constraint": d.qfrc_constraint.numpy().tolist(), "overflow": d.overflow.numpy().tolist()}
  # bitwise: a converged world is not touched again and the other worlds run the same kernel sequence
  same = all(np.array_equal(np.array(out[True][k]), np.array(out[False][k])) for k in ("niter", "qacc", "qfrc_constraint", "overflow"))
  return same, out


def transparency_replay(ctx, cfg, name):
  def _rp(model):
    same, out = native_transparency(cfg)
    os.makedirs(os.path.join(report.VERIF, "replays", PID), exist_ok=True)
    path = os.path.join(report.VERIF, "replays", PID, f"{ctx.unit.replace('/', '_')}.{name.replace('/', '_')}.json")
    with open(path, "w") as f:
      json.dump({"property": PID, "xml": XML_MIXED, "config": cfg, "how": "forward() on a 4-world batch (world 0 converges at once, the others have active contacts + joint limit and random velocities, seed 0), m.opt.graph_conditional True vs False", "graph_conditional_on": out[True], "graph_conditional_off": out[False], "same": same}, f, indent=1)
    return (not same), path

  return _rp


def classify(ctx, sess, name, writes, isdone):
  """scratch array: decided either as  prove 'done => not written' (unsat)  or as  reach 'done and written' (sat: the array
  then has to pass done-world-scratch-not-consumed).  -> True if it can be written for a done world"""
  r = sess.prove(f"scratch-kept-when-done/{name}", Not(writes), isdone)
  if r.status == "unsat":
    ctx._rec(r)
    return False
  r2 = sess.reach(f"scratch-written-when-done/{name}", And(isdone, writes))
  ctx._rec(r2)
  if r2.status != "sat":
    ctx.error(f"scratch query {name} inconclusive: {r.status} / {r2.status}")
  return True


def unit_loop(cfg):
  def run(ctx):
    iterations = 2
    mjm, m, d2, hr_on = trace_solve(cfg, True, iterations)
    _, _, _, hr_off = trace_solve(cfg, False, iterations)
    nworld = 2
    ctx.bound(config=cfg, nworld=nworld, iterations_traced=iterations, unroll=3, shape_cap=6)
    ctx.assume("each thread writes per-world arrays only at its own world (C09)", "float products / quotients / sqrt are uninterpreted (which cells are written does not depend on float values)")
    before, bodies, after = loop_segments(hr_on, True, iterations)
    body = bodies[0]
    if not body:
      ctx.error("no launch inside the graph-conditional loop")
      return
    # ---- graph_conditional on / off: same kernels on the same arrays
    L = hr_off.launches
    ends = [i for i, l in enumerate(L) if l.key.startswith(("_solve_done", "_solve_cg_finalize"))]
    tail = 1 if CONFIGS[cfg][0] == "CG" else 0  # CG: the search update follows the termination kernel
    sig_on = [l.sig()[:2] + (_norm(l.sig()[2]),) for l in body]
    sess = ctx.session([])
    ctx.reach(sess, "twin:loop-traced", z3.BoolVal(len(body) > 0 and len(ends) == iterations))
    start = ends[0] + 1 + tail - len(body)
    for it in range(iterations):
      seg = L[start + it * len(body) : start + (it + 1) * len(body)]
      sig_off = [l.sig()[:2] + (_norm(l.sig()[2]),) for l in seg]
      same = sig_on == sig_off
      ctx.prove(sess, f"gc-off-iteration{it}-equals-gc-on-body", z3.BoolVal(same), desc=f"fixed-count iteration {it} launches {[s[0] for s in sig_off]} but the graph-conditional body launches {[s[0] for s in sig_on]} (or binds different arrays)", replay=dump_traces(ctx, f"iteration{it}", sig_on, sig_off))
    post_on = [l.sig()[:2] for l in after]
    post_off = [l.sig()[:2] for l in L[start + iterations * len(body) :]]
    ctx.prove(sess, "gc-off-epilogue-equals-gc-on", z3.BoolVal(post_on == post_off), desc=f"launches after the loop differ between graph_conditional on ({[x[0] for x in post_on]}) and off ({[x[0] for x in post_off]})", replay=dump_traces(ctx, "epilogue", post_on, post_off))
    pre_on = [l.sig()[:2] for l in before]
    pre_off = [l.sig()[:2] for l in L[:start]]
    ctx.prove(sess, "gc-off-prologue-equals-gc-on", z3.BoolVal(pre_on == pre_off), desc="launches before the loop differ between graph_conditional on and off", replay=dump_traces(ctx, "prologue", pre_on, pre_off))
    # ---- nsolving starts at nworld
    term = next(l for l in body if l.key.startswith(("_solve_done", "_solve_cg_finalize")))
    bound = {p: a for p, a in zip(term.params, term.args)}
    ns = bound["nsolving_out"]
    ctx.prove(sess, "nsolving-starts-at-nworld", z3.BoolVal(isinstance(ns, host.SymArr) and ns.ref.cell.d0[0][0] == nworld), desc="the count of unconverged worlds is not initialised to nworld", replay=lambda model: (True, "nsolving initial value"))
    done_arr = bound["ctx_done_out"]
    # ---- frame: done[world] => no write, for every kernel of the loop body
    written_when_done = {}  # array label -> kernel keys
    for idx, l in enumerate(hr_on.launches):
      if not l.loop:
        continue
      per_world = l.dim[0] == nworld
      done_params = [p for p, a in zip(l.params, l.args) if a is done_arr]
      outs = [(p, a) for i, (p, a) in enumerate(zip(l.params, l.args)) if isinstance(a, (host.SymArr, wp.array)) and (i >= l.nin or p.endswith("_out"))]
      uname = f"{l.key.replace('__locals__', '.')}"
      if l.tiled:
        if done_params and leading_done_guard(l.kernel, done_params):
          ctx.prove(sess, f"tile-guard/{uname}", z3.BoolVal(True), desc="")
          ctx.notes.append(f"tile kernel {l.key}: leading `if {done_params[0]}[worldid]: return` present (syntactic check only; body not encoded)")
        else:
          ctx.notes.append(f"outside: tile kernel {l.key} has no leading done-guard that can be recognised syntactically (done params {done_params})")
          for p, a in outs:
            written_when_done.setdefault(getattr(a, "name_", p), []).append(l.key)
        continue
      try:
        kt = lib.kernel_thread(l.kernel, unroll=3, alias_inout=True, interp_kw={"float_uf": True})
      except core.Unsupported as ex:
        if done_params and leading_done_guard(l.kernel, done_params):
          ctx.notes.append(f"outside: {l.key} not encodable ({ex}); leading `if {done_params[0]}[worldid]: return` present (syntactic check only)")
          continue
        ctx.notes.append(f"outside: {l.key} not encodable ({ex}) and no leading done-guard recognised")
        for p, a in outs:
          written_when_done.setdefault(getattr(a, "name_", p), []).append(l.key)
        continue
      ctx.encode(l.kernel)
      world = kt.tid[0] if isinstance(kt.tid, tuple) else kt.tid
      s2 = ctx.session(kt.bg)
      if per_world:
        isdone = And(*[core.zbool(kt.pre(p, world)) for p in done_params]) if done_params else True
      else:
        # thread not indexed by world (e.g. per contact): "every world is done => the thread writes nothing"
        # (that the guard reads the done flag of the thread's own world is the index discipline of C09)
        isdone = And(*[kt.cell(p).a0[0] == z3.K(z3.IntSort(), z3.BoolVal(True)) for p in done_params]) if done_params else True
        ctx.notes.append(f"{l.key} is launched with dim {l.dim} (not per world): frame decided as 'all worlds done => no write'")
      ctx.reach(s2, f"twin:{uname}/done-world", isdone)
      loc = f"capture:checks.c25:capture:{cfg}|1|{idx}"
      for p, a in outs:
        lab = getattr(a, "name_", p)
        g = Not(any_write(kt, p))
        if not done_params:
          # no done flag among the arguments: can the thread write this array at all?  (reachability question, decided below)
          if classify(ctx, s2, f"{uname}/{p}", any_write(kt, p), True):
            written_when_done.setdefault(lab, []).append(l.key)
          continue
        if lab.startswith("d."):
          nice = ([v.cell.shape[0] > world for v in kt.args.values() if isinstance(v, core.ArrRef) and v.cell.ndim >= 1] + [world <= 1]) if per_world else []
          from checks.c30 import nice_replay

          env = {"label": p, "randomize_floats": 2}  # an accumulating write (+= J*f) of a degenerate solver model (f = 0) changes nothing: re-draw float contents, keep ints/flags
          if kt.cell(p).dtype in ("int", "real") and not any(v.cell is kt.cell(p) for q, v in kt.args.items() if q != p and isinstance(v, core.ArrRef)):
            env["sentinels"] = {p: -777 if kt.cell(p).dtype == "int" else -777.0}
          rp = lib.make_replay(ctx, kt, loc, f"frame/{p}", "goal", goal="checks.c25:goal_nowrite", env=env)
          ctx.prove(s2, f"frame/{uname}/{p}", g, isdone, names={"world": world}, replay=nice_replay(s2, g, isdone, nice, rp), desc=f"{l.key} writes {lab} for a world that is already done: continuing to iterate changes a converged world's result")
        else:
          # SolverContext scratch: may a thread of a done world write it?  sat = yes -> must not be consumed after the loop
          if classify(ctx, s2, f"{uname}/{p}", any_write(kt, p), isdone):
            written_when_done.setdefault(lab, []).append(l.key)
    # ---- scratch arrays written for done worlds must not be read after the loop
    after_inputs = {}
    for l in after:
      for p, a in zip(l.params, l.args):
        if isinstance(a, host.SymArr):
          after_inputs.setdefault(a.name_, []).append(l.key)
    for lab, ks in written_when_done.items():
      ctx.notes.append(f"written although the world is done: {lab} by {sorted(set(ks))}")
      bad = lab.startswith("d.") or lab in after_inputs
      ctx.prove(sess, f"done-world-scratch-not-consumed/{lab}", z3.BoolVal(not bad), desc=f"{lab} is written by {sorted(set(ks))} for worlds that are already done and is a Data field / read after the loop by {after_inputs.get(lab)}", replay=transparency_replay(ctx, cfg, lab))

  return (f"loop/{cfg}", run)


def dump_traces(ctx, name, a, b):
  def _rp(model):
    os.makedirs(os.path.join(report.VERIF, "replays", PID), exist_ok=True)
    path = os.path.join(report.VERIF, "replays", PID, f"{ctx.unit.replace('/', '_')}.{name}.json")
    with open(path, "w") as f:
      json.dump({"property": PID, "what": name, "graph_conditional_on": [str(x) for x in a], "graph_conditional_off": [str(x) for x in b], "how": "launch traces of the real solver.solve() (wp.launch / wp.launch_tiled / wp.capture_while intercepted) on the model of unit " + ctx.unit}, f, indent=1)
    return True, path

  return _rp


def _norm(labels):
  """scratch arrays get fresh names per run: compare Data labels and scalar arguments, blank the temporaries"""
  return tuple(x for x in labels)


# ------------------------------------------------------------------------------------------------ native: iterations = 0


def unit_native(ctx):
  import mujoco

  import mujoco_warp as mjw

  res = {}
  for cfg in ("newton-dense-pyramidal", "cg-dense-pyramidal"):
    for gc in (True, False):
      mjm = mujoco.MjModel.from_xml_string(xml_for(cfg, it=0))
      m = mjw.put_model(mjm)
      m.opt.graph_conditional = gc
      d = mjw.make_data(mjm, nworld=2, nconmax=4, njmax=16)
      q = d.qpos.numpy()
      q[1, 7] = 0.3
      d.qpos = wp.array(q, dtype=float)
      mjw.forward(m, d)
      res[(cfg, gc)] = (d.solver_niter.numpy().copy(), d.overflow.numpy().copy(), d.qacc.numpy().copy())
  sess = ctx.session([])
  ctx.reach(sess, "twin:ran", True)
  I = ITER()
  for (cfg, gc), (n, ov, qacc) in res.items():
    ctx.prove(sess, f"iterations0/{cfg}/gc{int(gc)}/niter-zero", z3.BoolVal(bool(np.all(n == 0))), desc=f"iterations = 0: solver_niter = {n.tolist()}", replay=lambda model: (True, "native run of forward() with iterations = 0"))
    ctx.prove(sess, f"iterations0/{cfg}/gc{int(gc)}/finite", z3.BoolVal(bool(np.all(np.isfinite(qacc)))), desc="iterations = 0: qacc not finite", replay=lambda model: (True, "native run"))
  for cfg in ("newton-dense-pyramidal", "cg-dense-pyramidal"):
    a, b = res[(cfg, True)], res[(cfg, False)]
    ctx.prove(sess, f"iterations0/{cfg}/gc-on-equals-off", z3.BoolVal(bool(np.array_equal(a[2], b[2]) and np.array_equal(a[1], b[1]))), desc="iterations = 0: result differs between graph_conditional on and off", replay=lambda model: (True, "native run"))
  for cfg in ("newton-dense-pyramidal", "cg-dense-pyramidal"):
    same, out = native_transparency(cfg)
    ctx.prove(sess, f"mixed-batch/{cfg}/gc-on-equals-off", z3.BoolVal(bool(same)), desc=f"a batch whose worlds converge at different iterations gives different results with graph_conditional on and off: {out}", replay=lambda model: (True, "native run of forward()"))
    ctx.notes.append(f"mixed batch {cfg}: niter {out[True]['niter']} (graph_conditional on) / {out[False]['niter']} (off)")
  ctx.notes.append("iterations = 0: no iteration is run, solver_niter = 0, ITERATIONS bit = " + str({k: [int(x) & I for x in v[1]] for k, v in res.items()}) + " (MuJoCo has no iteration-limit warning; not judged)")


def main(tier, seed, only=None):
  import mujoco  # noqa: F401

  import mujoco_warp  # noqa: F401

  units = [("refmodel", unit_refmodel), ("init", unit_init), ("native/iterations0", unit_native)]
  for newton in (True, False):
    for warn in (False, True):
      units.append(unit_step(newton, warn))
  cfgs = list(CONFIGS) if tier == "thorough" else ["newton-dense-pyramidal", "newton-sparse-elliptic", "cg-dense-pyramidal", "cg-sparse-elliptic"]
  for cfg in cfgs:
    units.append(unit_loop(cfg))
  if only:
    units = [u for u in units if any(o in u[0] for o in only)]
  return report.run_check(PID, units, tier, seed)
