"""Helpers of C21 (and C26): column-slice views of shim arrays for H mode, tiny dof-tree models, MuJoCo's CSR layout of the
inertia matrix, and a lemma chain that replaces proved-equal terms by their closed form before the next query."""

import itertools
import os

import numpy as np
import warp as wp
import z3

from wsym import core, host, kh
from wsym.core import ArrRef, Cell

wp.config.quiet = True

# ------------------------------------------------------------------------------------------------ shim array views


class ColView(Cell):
  """cell view base[:, off:] of a dense 2-D cell: shares the storage of the base cell (host code slices d.qLD this way)"""

  def __init__(self, base, off):
    self.base, self.off = base, int(off)
    self.name = f"{base.name}[:,{off}:]"
    self.shape = [base.shape[0], base.shape[1] - self.off]
    self.dtype, self.ncomp, self.vshape, self.vdt = base.dtype, base.ncomp, base.vshape, base.vdt
    self.ndim, self.mode, self.wptype, self.sort = 2, "dense", base.wptype, base.sort
    self.uid = next(core._cellctr)
    self.size = self.shape[0] * self.shape[1]

  d = property(lambda self: self.base.d)
  d0 = property(lambda self: self.base.d0)

  def flat(self, idx):
    return idx[0] * self.base.shape[1] + idx[1] + self.off

  def fill(self, val):
    raise core.Unsupported("fill of a column view")


_orig_getitem = host.SymArr.__getitem__


def _getitem(self, key):
  if isinstance(key, tuple) and len(key) == 2 and all(isinstance(k, slice) for k in key):
    a, b = key
    if (a.start, a.stop, a.step) == (None, None, None) and b.stop is None and b.step is None and not self.ref.prefix and len(self._shape) == 2:
      off = int(b.start or 0)
      if off == 0:
        return self
      cell = self.ref.cell
      if isinstance(cell, ColView):
        cell, off = cell.base, off + cell.off
      v = ColView(cell, off)
      return host.SymArr(v.name, v.shape, self._dtype, ArrRef(v))
  return _orig_getitem(self, key)


_names = itertools.count()


class Interp1(core.Interp):
  """wp.block_dim() of a launch with block_dim = 1 (the CPU configuration of _solve_LD_sparse: one thread per world walks every
  level in order, the block barrier is a no-op)"""

  def __init__(self, *a, **kw):
    kw["track_access"] = True
    super().__init__(*a, **kw)
    if HostRun.current is not None:
      HostRun.current.interps.append(self)

  def store(self, ref, idx, val, g, where):
    """every symbolic float a thread stores gets a name  t!N == value  (hr.defs): later reads see the name, so lemma chains
    can replace intermediate results by closed forms reliably (the engine flattens products, which defeats matching on
    structural sub-terms) and solver queries only pull in the definitions they need"""
    hr = HostRun.current
    if hr is not None and hr.naming and core.is_sym(val) and not isinstance(val, core.Vec) and z3.is_real(val) and val.num_args() > 0:
      v = z3.Real(f"t!{next(_names)}")
      hr.defs.append((v, val))
      val = v
    return super().store(ref, idx, val, g, where)

  def builtin(self, fr, key, args, e):
    if key == "block_dim":
      bd = HostRun.current.cur_block_dim if HostRun.current is not None else None
      if bd != 1:
        raise core.Unsupported(f"wp.block_dim() in a launch with block_dim={bd}")
      return 1
    return super().builtin(fr, key, args, e)


class HostRun(host.HostRun):
  """HostRun whose shim arrays can be sliced `a[:, off:]` and copied into such views"""

  cur_block_dim = None

  def __init__(self, *a, naming=True, **kw):
    super().__init__(*a, **kw)
    self.naming, self.defs, self.interps = naming, [], []

  def writes(self, cell):
    """plain stores into `cell` in execution order: [(index tuple, stored value)] (all threads of all launches)"""
    out = []
    for it in self.interps:
      for a in it.accesses:
        if a.cell is cell and a.kind == "W" and a.guard is True:
          out.append((tuple(int(i) for i in a.idx), a.val))
    return out

  def launch(self, kernel, dim, inputs=(), outputs=(), **kw):
    self.cur_block_dim = kw.get("block_dim")
    return super().launch(kernel, dim, inputs, outputs, **kw)

  def __enter__(self):
    host.SymArr.__getitem__ = _getitem
    self._interp = host.Interp
    host.Interp = Interp1
    super().__enter__()
    inner = wp.copy

    def copy(dest, src, dest_offset=0, src_offset=0, count=0, **kw):
      dv = isinstance(dest, host.SymArr) and isinstance(dest.ref.cell, ColView)
      sv = isinstance(src, host.SymArr) and isinstance(src.ref.cell, ColView)
      if not (dv or sv):
        return inner(dest, src, dest_offset, src_offset, count, **kw)
      if dest_offset or src_offset or count or tuple(dest.shape) != tuple(src.shape) or dest.ref.prefix:
        raise core.Unsupported("partial copy of a column view")
      sref = src.ref if isinstance(src, host.SymArr) else self.to_arg(src, None)
      dc, sc = dest.ref.cell, sref.cell
      for i in range(dest.shape[0]):
        for j in range(dest.shape[1]):
          dc.set((i, j), [sc.get((i, j), k) for k in range(sc.ncomp)])
      self.events.append(host.Event("copy", info=(dest.name_, getattr(src, "name_", sc.name))))

    wp.copy = copy
    return self

  def __exit__(self, *exc):
    host.SymArr.__getitem__ = _orig_getitem
    host.Interp = self._interp
    return super().__exit__(*exc)


# ------------------------------------------------------------------------------------------------ models

_AX = ["1 0 0", "0 1 0", "0 0 1"]


def _hinge(i, typ="hinge"):
  return f"<joint type='{typ}' axis='{_AX[i % 3]}' damping='{0.3 + 0.1 * i}' armature='{0.05 * (i + 1)}'/><geom size='.1' pos='.1 .2 .3' mass='{1 + 0.5 * i}'/>"


def chain(n, k0=0):
  s = ""
  for i in range(n):
    s += f"<body pos='.1 .2 .3'>{_hinge(k0 + i)}"
  return s + "</body>" * n


def fork(k0=0):
  """root dof with two child dofs (M row of the second child skips the first child)"""
  return f"<body pos='.1 0 .3'>{_hinge(k0)}<body pos='0 .3 0'>{_hinge(k0 + 1)}</body><body pos='.2 0 .3'>{_hinge(k0 + 2)}</body></body>"


def ytree(k0=0):
  """dof 0 - dof 1 - {dof 2, dof 3}"""
  return f"<body pos='.1 0 .3'>{_hinge(k0)}<body pos='0 .2 .1'>{_hinge(k0 + 1)}<body pos='0 .3 0'>{_hinge(k0 + 2)}</body><body pos='.2 0 .3'>{_hinge(k0 + 3)}</body></body></body>"


def slide1(k0=0):
  return f"<body>{_hinge(k0, 'slide')}</body>"


def slides(n):
  """n orthogonal slide joints on one body with centred mass: a compact (diagonal-only) block of size n"""
  return "<body>" + "".join(f"<joint type='slide' axis='{_AX[i]}' damping='0.2'/>" for i in range(n)) + "<geom size='.1'/></body>"


def xml(*trees, opt=""):
  return f"<mujoco>{opt}<worldbody>{''.join(trees)}</worldbody></mujoco>"


def build(x, nworld=1, thresholds=None, **kw):
  """-> mjm, m, d.  thresholds=(scalar_max, dense_max) lowers io.m_block_layout's size limits IN THIS PROCESS so that tiny
  trees take the layouts that real models only reach beyond 6 / 64 dofs (the table building code is the real put_model)."""
  import mujoco

  import mujoco_warp as mjw
  from mujoco_warp._src import types

  saved = (types.M_BLOCK_SCALAR_MAX, types.M_BLOCK_DENSE_MAX)
  try:
    if thresholds is not None:
      types.M_BLOCK_SCALAR_MAX, types.M_BLOCK_DENSE_MAX = thresholds
    mjm = mujoco.MjModel.from_xml_string(x)
    m = mjw.put_model(mjm)
    d = mjw.make_data(mjm, nworld=nworld, **kw)
  finally:
    types.M_BLOCK_SCALAR_MAX, types.M_BLOCK_DENSE_MAX = saved
  return mjm, m, d


# ------------------------------------------------------------------------------------------------ CSR layout (MuJoCo semantics)


def csr_entries(mjm):
  """[(i, j, adr)]: M(i, j), j = i or a dof ancestor of i, is stored at adr (mjModel.M_rowadr / M_rownnz / M_colind)"""
  out = []
  for i in range(mjm.nv):
    for k in range(int(mjm.M_rownnz[i])):
      a = int(mjm.M_rowadr[i]) + k
      out.append((i, int(mjm.M_colind[a]), a))
  return out


def dense_of(mjm, vals):
  """symmetric dense matrix (list of lists) from CSR values (floats or terms); structurally absent entries are 0"""
  nv = mjm.nv
  D = [[0.0] * nv for _ in range(nv)]
  for i, j, a in csr_entries(mjm):
    D[i][j] = vals[a]
    D[j][i] = vals[a]
  return D


def ancestors(mjm, i):
  out = []
  j = int(mjm.dof_parentid[i])
  while j >= 0:
    out.append(j)
    j = int(mjm.dof_parentid[j])
  return out


def validate_layout(mjm, seed=0):
  """the CSR reference against mujoco: dense_of(qM) == mj_fullM, the stored pattern is 'i with a subset of its dof ancestors',
  and mj_solveM's x satisfies dense_of(qM) x = b.  -> error text or None"""
  import mujoco

  rng = np.random.default_rng(seed)
  mjd = mujoco.MjData(mjm)
  mjd.qpos[:] = rng.uniform(-1, 1, mjm.nq)
  mujoco.mj_forward(mjm, mjd)
  full = np.zeros((mjm.nv, mjm.nv))
  mujoco.mj_fullM(mjm, mjd, full)
  ref = np.array(dense_of(mjm, list(mjd.M)), dtype=float)
  if not np.allclose(ref, full, atol=1e-10):
    return "CSR reference layout disagrees with mujoco.mj_fullM"
  for i, j, a in csr_entries(mjm):
    if j != i and j not in ancestors(mjm, i):
      return f"stored entry ({i},{j}) is not an ancestor pair"
  b = rng.uniform(-1, 1, (1, mjm.nv))
  x = np.zeros((1, mjm.nv))
  mujoco.mj_solveM(mjm, mjd, x, b)
  if not np.allclose(ref @ x[0], b[0], atol=1e-8):
    return "mj_solveM does not solve the reference dense system"
  return None


# ------------------------------------------------------------------------------------------------ lemma chain


def consts_of(e, acc=None):
  acc = set() if acc is None else acc
  seen = set()
  todo = [e]
  while todo:
    t = todo.pop()
    if t.get_id() in seen:
      continue
    seen.add(t.get_id())
    if z3.is_const(t) and t.decl().kind() == z3.Z3_OP_UNINTERPRETED:
      acc.add(t.decl().name())
    todo.extend(t.children())
  return acc


class OneShot(kh.Session):
  """every query in a FRESH non-incremental solver (z3's incremental mode gives up on nonlinear real queries that the one-shot
  solver decides at once)"""

  def __init__(self, background=(), timeout_ms=20000, tactic=None):
    self.bgs = [core.zbool(b) for b in background if b is not True]
    self.timeout_ms, self.tactic = timeout_ms, tactic
    self.results, self.log = [], None

  def add(self, *bs):
    self.bgs += [core.zbool(b) for b in bs if b is not True]

  def _check(self, extra):
    import time

    s = z3.Solver() if self.tactic is None else z3.Tactic(self.tactic).solver()
    s.set("timeout", self.timeout_ms)
    for b in self.bgs:
      s.add(b)
    for e in extra:
      if e is not True:
        s.add(core.zbool(e))
    t0 = time.time()
    r = str(s.check())
    m = s.model() if r == "sat" else None
    return r, time.time() - t0, m


class Chain:
  """Side axioms (sqrt definitions), definitions  name == value  of stored intermediates, preconditions over the parameters,
  and an ordered list of proved equalities  name == closed form  applied as a simultaneous substitution to every formula.
  Sound: every pair was proved from the same background, so a formula and its substituted version are equivalent under it;
  leaving out axioms / definitions (cone of influence, `opaque` names) only weakens the background of an unsat proof."""

  def __init__(self, axioms, defs, facts):
    self.axioms = [core.zbool(a) for a in axioms if a is not True]
    self.defs = list(defs)
    self.facts = [core.zbool(f) for f in facts]
    self.subs = []
    self.opaque = set()

  def sb(self, f):
    f = z3.BoolVal(f) if isinstance(f, bool) else f
    return z3.substitute(f, *self.subs) if self.subs else f

  def add(self, term, closed):
    if core.is_sym(term) and not (core.is_sym(closed) and term.eq(closed)):
      closed = closed if core.is_sym(closed) else z3.RealVal(closed)
      # keep the substitution idempotent: earlier right-hand sides may mention the new term
      self.subs = [(t, z3.substitute(c, (term, closed))) for t, c in self.subs] + [(term, closed)]

  def background(self, goal):
    eng = lambda cs: {c for c in cs if "!" in c and not c.startswith("uninit!")} - self.opaque
    replaced = {t.decl().name() for t, _ in self.subs if z3.is_const(t)}
    need = eng(consts_of(goal))
    defs = [(v, self.sb(t)) for v, t in self.defs if v.decl().name() not in replaced]
    defc = [eng(consts_of(t)) for v, t in defs]
    ax = [self.sb(a) for a in self.axioms]
    axc = [eng(consts_of(a)) for a in ax]
    axd = [{c for c in cs if c.startswith("sqrt!")} or cs for cs in axc]
    out = []
    used_d, used_a = [False] * len(defs), [False] * len(ax)
    changed = True
    while changed:
      changed = False
      for k, (v, t) in enumerate(defs):
        if not used_d[k] and v.decl().name() in need:
          used_d[k] = changed = True
          need |= defc[k]
          out.append(v == t)
      for k in range(len(ax)):
        if not used_a[k] and axd[k] & need:
          used_a[k] = changed = True
          need |= axc[k]
          out.append(ax[k])
    return self.facts + out

  def session(self, ctx, goal, guard=True, tactic=None):
    g = self.sb(core.zbool(goal))
    gd = self.sb(core.zbool(guard))
    return OneShot(self.background(z3.And(g, gd)), ctx.timeout_ms, tactic=tactic), g, gd

  def prove(self, ctx, name, goal, guard=True, tactic=None, **kw):
    sess, g, gd = self.session(ctx, goal, guard, tactic)
    return ctx.prove(sess, name, g, gd, **kw)


def rnd_spd_factor(rng, n, lo=0.6, hi=1.4):
  """well-conditioned lower-triangular factor"""
  L = np.tril(rng.uniform(-0.5, 0.5, (n, n)), -1)
  L[np.arange(n), np.arange(n)] = rng.uniform(lo, hi, n)
  return L


def save(pid, name, obj):
  import json

  from wsym import report

  p = os.path.join(report.VERIF, "replays", pid)
  os.makedirs(p, exist_ok=True)
  path = os.path.join(p, name.replace("/", "_") + ".json")
  with open(path, "w") as f:
    json.dump(obj, f, default=lambda o: o.tolist() if hasattr(o, "tolist") else str(o))
  return path
