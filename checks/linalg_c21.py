"""Helpers of C21 (and C26): column-slice views of shim arrays for H mode, tiny dof-tree models, MuJoCo's CSR layout of the
inertia matrix, and a lemma chain that replaces proved-equal terms by their closed form before the next query."""

import itertools
import math
import os
from fractions import Fraction

import numpy as np
import warp as wp
import z3

from wsym import core, host, kh
from wsym.core import ArrRef, Cell

wp.config.quiet = True

# ------------------------------------------------------------------------------------------------ shim array views


class ColView(Cell):
  """cell view base[:, off:] of a dense 2-D cell: shares the storage of the base cell (host code slices d.qLD this way)"""

  def __init__(self, base, off):
    self.base, self.off = base, int(off)
    self.name = f"{base.name}[:,{off}:]"
    self.shape = [base.shape[0], base.shape[1] - self.off]
    self.dtype, self.ncomp, self.vshape, self.vdt = base.dtype, base.ncomp, base.vshape, base.vdt
    self.ndim, self.mode, self.wptype, self.sort = 2, "dense", base.wptype, base.sort
    self.uid = next(core._cellctr)
    self.size = self.shape[0] * self.shape[1]

  d = property(lambda self: self.base.d)
  d0 = property(lambda self: self.base.d0)

  def flat(self, idx):
    return idx[0] * self.base.shape[1] + idx[1] + self.off

  def fill(self, val):
    raise core.Unsupported("fill of a column view")


_orig_getitem = host.SymArr.__getitem__


def _getitem(self, key):
  if isinstance(key, tuple) and len(key) == 2 and all(isinstance(k, slice) for k in key):
    a, b = key
    if (a.start, a.stop, a.step) == (None, None, None) and b.stop is None and b.step is None and not self.ref.prefix and len(self._shape) == 2:
      off = int(b.start or 0)
      if off == 0:
        return self
      cell = self.ref.cell
      if isinstance(cell, ColView):
        cell, off = cell.base, off + cell.off
      v = ColView(cell, off)
      return host.SymArr(v.name, v.shape, self._dtype, ArrRef(v))
  return _orig_getitem(self, key)


_names = itertools.count()


class _RunMixin:
  """shared by the thread interpreter and the tile-block interpreter of a HostRun: registers itself (store log) and names
  every symbolic float a thread stores"""

  def __init__(self, *a, **kw):
    kw["track_access"] = True
    super().__init__(*a, **kw)
    if HostRun.current is not None:
      HostRun.current.interps.append(self)

  def store(self, ref, idx, val, g, where):
    """every symbolic float a thread stores gets a name  t!N == value  (hr.defs): later reads see the name, so lemma chains
    can replace intermediate results by closed forms reliably (the engine flattens products, which defeats matching on
    structural sub-terms) and solver queries only pull in the definitions they need"""
    hr = HostRun.current
    if hr is not None and hr.naming and core.is_sym(val) and not isinstance(val, core.Vec) and z3.is_real(val) and val.num_args() > 0:
      v = z3.Real(f"t!{next(_names)}")
      hr.defs.append((v, val))
      hr.defmap[v.decl().name()] = val
      val = v
    return super().store(ref, idx, val, g, where)


class Interp1(_RunMixin, core.Interp):
  """wp.block_dim() of a launch with block_dim = 1 (the CPU configuration of _solve_LD_sparse: one thread per world walks every
  level in order, the block barrier is a no-op)"""

  def builtin(self, fr, key, args, e):
    if key == "block_dim":
      bd = HostRun.current.cur_block_dim if HostRun.current is not None else None
      if bd != 1:
        raise core.Unsupported(f"wp.block_dim() in a launch with block_dim={bd}")
      return 1
    return super().builtin(fr, key, args, e)


def _R(n):
  return [z3.RealSort()] * n


def upper(t):
  """row-major upper triangle (incl. diagonal) of a square tile / nested list"""
  n = t.shape[0]
  return [core.to_z3(t.at(i, j), "real") for i in range(n) for j in range(i, n)]


def chol_app(n, i, j, ups):
  """CHOL_ij: entry (i, j), i <= j, of the upper factor U (U^T U = A) as an uninterpreted function of A's upper triangle"""
  return z3.Function(f"chol{n}_{i}_{j}", *_R(len(ups) + 1))(*ups)


def cholsolve_app(n, r, ups, rhs):
  """CHOLSOLVE_r: component r of the solution computed from the factor's upper triangle and the right-hand side"""
  return z3.Function(f"cholsolve{n}_{r}", *_R(len(ups) + len(rhs) + 1))(*ups, *rhs)


def make_tile_interp():
  from wsym import tiles

  class TileInterp(_RunMixin, tiles.BlockInterp):
    """tile kernels of the inertia factorisation at the DATAFLOW level: tile_load_indexed is modelled exactly; the dense
    Cholesky built-ins are contracts over uninterpreted functions (validated numerically against the real Warp built-ins in
    c21.unit_tile_contracts):
      tile_cholesky_inplace(A, "upper"): upper triangle := CHOL_ij(upper triangle of A), lower triangle := 0
      tile_cholesky_solve(U, y, "upper"): x_r := CHOLSOLVE_r(upper triangle of U, y); when U is recognisably CHOL(A)
        (directly, or through the names of stored values) the defining equation  A x = y  (A symmetric from its upper
        triangle) is added as a side axiom."""

    def tile_op(self, fr, key, a, kw, e):
      T = tiles.Tile
      g = self.active(fr)
      where = self.where(fr, e) if e is not None else fr.name
      if key == "tile_load_indexed":
        arr, ind = self._view(a[0]), kw.get("indices", a[1] if len(a) > 1 else None)
        shape = tiles._shape(kw.get("shape", a[2] if len(a) > 2 else None))
        off, axis = kw.get("offset", None), kw.get("axis", 0)
        if arr.ndim != 1 or len(shape) != 1 or axis != 0 or off is not None or not isinstance(ind, T) or len(ind.c) != shape[0]:
          raise core.Unsupported("tile_load_indexed: only the 1-d gather form is modelled")
        dim = arr.shape[0]
        out = []
        for p in range(shape[0]):
          i = core.norm_scalar(ind.c[p])
          inb = core.And(core.cmp(">=", i, 0), core.cmp("<", i, dim))
          if inb is False:
            out.append(0.0)  # an index outside the array reads as zero (validated against the real built-in)
            continue
          v = self.load(arr, (i,), core.And(g, inb), where)
          out.append(v if inb is True else tiles._orig_ite(inb, v, 0.0))
        return T(out, shape, "f")
      if key in ("tile_cholesky_inplace", "tile_cholesky"):
        A = a[0]
        fm = kw.get("fill_mode", a[1] if len(a) > 1 else "lower")
        if not isinstance(A, T) or len(A.shape) != 2 or A.shape[0] != A.shape[1] or fm != "upper":
          raise core.Unsupported(f"{key}: only square tiles with fill_mode='upper' are modelled")
        n = A.shape[0]
        ups = upper(A)
        out = [chol_app(n, i, j, ups) if i <= j else 0.0 for i in range(n) for j in range(n)]
        if key == "tile_cholesky":
          return T(out, A.shape, "f")
        A.c = out if g is True else [tiles._orig_ite(g, x, y) for x, y in zip(out, A.c)]
        return None
      if key == "tile_cholesky_solve":
        U, y = a[0], a[1]
        fm = kw.get("fill_mode", a[2] if len(a) > 2 else "lower")
        if not isinstance(U, T) or not isinstance(y, T) or len(U.shape) != 2 or U.shape[0] != U.shape[1] or y.shape != (U.shape[0],) or fm != "upper":
          raise core.Unsupported("tile_cholesky_solve: only (n, n) x (n,) with fill_mode='upper' is modelled")
        n = U.shape[0]
        ups = upper(U)
        rhs = [core.to_z3(v, "real") for v in y.c]
        sol = [cholsolve_app(n, r, ups, rhs) for r in range(n)]
        A = self._recognise(n, ups)
        if A is not None:
          for i in range(n):
            self.assumes.append(z3.Sum([A[min(i, j)][max(i, j)] * sol[j] for j in range(n)]) == rhs[i])
        return T(sol, (n,), "f")
      return super().tile_op(fr, key, a, kw, e)

    def _recognise(self, n, ups):
      """-> upper-triangular nested dict A[i][j] (i <= j) if ups is CHOL(A) entry by entry, else None"""
      hr = HostRun.current
      common, k = None, 0
      for i in range(n):
        for j in range(i, n):
          t = ups[k]
          k += 1
          if z3.is_const(t) and hr is not None and t.decl().name() in hr.defmap:
            t = hr.defmap[t.decl().name()]
          if not z3.is_app(t) or t.decl().name() != f"chol{n}_{i}_{j}" or t.num_args() != len(ups):
            return None
          args = t.children()
          if common is None:
            common = args
          elif any(not x.eq(y) for x, y in zip(common, args)):
            return None
      A, k = {}, 0
      for i in range(n):
        A[i] = {}
        for j in range(i, n):
          A[i][j] = common[k]
          k += 1
      return A

  return TileInterp


class HostRun(host.HostRun):
  """HostRun whose shim arrays can be sliced `a[:, off:]` and copied into such views"""

  cur_block_dim = None

  def __init__(self, *a, naming=True, skip_tiled=False, skip_fills=False, exec_tiles=False, **kw):
    super().__init__(*a, **kw)
    self.naming, self.defs, self.interps, self.skip_tiled, self.skip_fills = naming, [], [], skip_tiled, skip_fills
    self.defmap, self.exec_tiles = {}, exec_tiles

  def run_tiled(self, kernel, dim, inputs=(), outputs=(), **kw):
    """wp.launch_tiled: every block is interpreted by the tile-block interpreter (one lane, as the Warp CPU backend runs it)"""
    inputs, outputs = list(inputs or ()), list(outputs or ())
    args = inputs + outputs
    d = (int(dim),) if isinstance(dim, (int, np.integer)) else tuple(int(x) for x in dim)
    specs = [(a.label, a.type) for a in kernel.adj.args]
    if len(specs) != len(args):
      raise core.Unsupported(f"launch_tiled of {kernel.key}: {len(args)} args for {len(specs)} params")
    self.events.append(host.Event("launch", kernel, d, None, [a.name_ if isinstance(a, host.SymArr) else None for a in args]))
    if self.on_launch is not None and self.on_launch(self, kernel, d, args) == "skip":
      return
    vals = [self.to_arg(a, t) for a, (l, t) in zip(args, specs)]
    TI = make_tile_interp()
    self.cur_block_dim = 1
    for tid in itertools.product(*[range(n) for n in d]):
      self.nthreads += 1
      it = TI(unroll=self.unroll, tid=tid[0] if len(tid) == 1 else tid, **self.interp_kw)
      it.call_pyfunc(kernel.func, vals, name=kernel.key)
      self.assumes.extend(it.assumes)
      for o in it.obl:
        if o.kind == "unwind" or (o.kind == "bounds" and not (o.cond is True)):
          self.obl.append((kernel.key, tid, o))

  def writes(self, cell):
    """plain stores into `cell` in execution order: [(index tuple, stored value)] (all threads of all launches)"""
    out = []
    for it in self.interps:
      for a in it.accesses:
        if a.cell is cell and a.kind == "W" and a.guard is True:
          out.append((tuple(int(i) for i in a.idx), a.val))
    return out

  def launch(self, kernel, dim, inputs=(), outputs=(), **kw):
    self.cur_block_dim = kw.get("block_dim")
    return super().launch(kernel, dim, inputs, outputs, **kw)

  def __enter__(self):
    host.SymArr.__getitem__ = _getitem
    self._interp = host.Interp
    host.Interp = Interp1
    super().__enter__()
    inner = wp.copy

    def copy(dest, src, dest_offset=0, src_offset=0, count=0, **kw):
      dv = isinstance(dest, host.SymArr) and isinstance(dest.ref.cell, ColView)
      sv = isinstance(src, host.SymArr) and isinstance(src.ref.cell, ColView)
      if not (dv or sv):
        return inner(dest, src, dest_offset, src_offset, count, **kw)
      if dest_offset or src_offset or count or tuple(dest.shape) != tuple(src.shape) or dest.ref.prefix:
        raise core.Unsupported("partial copy of a column view")
      sref = src.ref if isinstance(src, host.SymArr) else self.to_arg(src, None)
      dc, sc = dest.ref.cell, sref.cell
      for i in range(dest.shape[0]):
        for j in range(dest.shape[1]):
          dc.set((i, j), [sc.get((i, j), k) for k in range(sc.ncomp)])
      self.events.append(host.Event("copy", info=(dest.name_, getattr(src, "name_", sc.name))))

    wp.copy = copy
    if self.exec_tiles and hasattr(wp, "launch_tiled"):
      wp.launch_tiled = self.run_tiled
    elif self.skip_tiled and hasattr(wp, "launch_tiled"):
      # tile kernels are only recorded (their outputs stay arbitrary): for runs whose claims do not depend on them

      def launch_tiled(*a, **kw):
        kernel = a[0] if a else kw.get("kernel")
        self.events.append(host.Event("launch_tiled", kernel, kw.get("dim")))

      wp.launch_tiled = launch_tiled
    if self.skip_fills:
      # host-level zero_ / fill_ belong to stages whose launches are skipped: the stage output stays arbitrary
      self._fills = (host.SymArr.zero_, host.SymArr.fill_)

      def zero_(a):
        self.events.append(host.Event("zero_", info=a.name_))
        return a

      def fill_(a, v):
        self.events.append(host.Event("fill_", info=a.name_))
        return a

      host.SymArr.zero_, host.SymArr.fill_ = zero_, fill_
    return self

  def __exit__(self, *exc):
    host.SymArr.__getitem__ = _orig_getitem
    host.Interp = self._interp
    if self.skip_fills:
      host.SymArr.zero_, host.SymArr.fill_ = self._fills
    return super().__exit__(*exc)


# ------------------------------------------------------------------------------------------------ models

_AX = ["1 0 0", "0 1 0", "0 0 1"]


def _hinge(i, typ="hinge"):
  return f"<joint type='{typ}' axis='{_AX[i % 3]}' damping='{0.3 + 0.1 * i}' stiffness='{1.5 + 0.5 * i}' springref='0.3' armature='{0.05 * (i + 1)}'/><geom size='.1' pos='.1 .2 .3' mass='{1 + 0.5 * i}'/>"


def chain(n, k0=0):
  s = ""
  for i in range(n):
    s += f"<body pos='.1 .2 .3'>{_hinge(k0 + i)}"
  return s + "</body>" * n


def fork(k0=0):
  """root dof with two child dofs (M row of the second child skips the first child)"""
  return f"<body pos='.1 0 .3'>{_hinge(k0)}<body pos='0 .3 0'>{_hinge(k0 + 1)}</body><body pos='.2 0 .3'>{_hinge(k0 + 2)}</body></body>"


def ytree(k0=0):
  """dof 0 - dof 1 - {dof 2, dof 3}"""
  return f"<body pos='.1 0 .3'>{_hinge(k0)}<body pos='0 .2 .1'>{_hinge(k0 + 1)}<body pos='0 .3 0'>{_hinge(k0 + 2)}</body><body pos='.2 0 .3'>{_hinge(k0 + 3)}</body></body></body>"


def slide1(k0=0):
  return f"<body>{_hinge(k0, 'slide')}</body>"


def slides(n):
  """n orthogonal slide joints on one body with centred mass: a compact (diagonal-only) block of size n"""
  return "<body>" + "".join(f"<joint type='slide' axis='{_AX[i]}' damping='0.2'/>" for i in range(n)) + "<geom size='.1'/></body>"


def xml(*trees, opt=""):
  return f"<mujoco>{opt}<worldbody>{''.join(trees)}</worldbody></mujoco>"


def build(x, nworld=1, thresholds=None, **kw):
  """-> mjm, m, d.  thresholds=(scalar_max, dense_max) lowers io.m_block_layout's size limits IN THIS PROCESS so that tiny
  trees take the layouts that real models only reach beyond 6 / 64 dofs (the table building code is the real put_model)."""
  import mujoco

  import mujoco_warp as mjw
  from mujoco_warp._src import types

  saved = (types.M_BLOCK_SCALAR_MAX, types.M_BLOCK_DENSE_MAX)
  try:
    if thresholds is not None:
      types.M_BLOCK_SCALAR_MAX, types.M_BLOCK_DENSE_MAX = thresholds
    mjm = mujoco.MjModel.from_xml_string(x)
    m = mjw.put_model(mjm)
    d = mjw.make_data(mjm, nworld=nworld, **kw)
  finally:
    types.M_BLOCK_SCALAR_MAX, types.M_BLOCK_DENSE_MAX = saved
  return mjm, m, d


# ------------------------------------------------------------------------------------------------ CSR layout (MuJoCo semantics)


def csr_entries(mjm):
  """[(i, j, adr)]: M(i, j), j = i or a dof ancestor of i, is stored at adr (mjModel.M_rowadr / M_rownnz / M_colind)"""
  out = []
  for i in range(mjm.nv):
    for k in range(int(mjm.M_rownnz[i])):
      a = int(mjm.M_rowadr[i]) + k
      out.append((i, int(mjm.M_colind[a]), a))
  return out


def dense_of(mjm, vals):
  """symmetric dense matrix (list of lists) from CSR values (floats or terms); structurally absent entries are 0"""
  nv = mjm.nv
  D = [[0.0] * nv for _ in range(nv)]
  for i, j, a in csr_entries(mjm):
    D[i][j] = vals[a]
    D[j][i] = vals[a]
  return D


def ancestors(mjm, i):
  out = []
  j = int(mjm.dof_parentid[i])
  while j >= 0:
    out.append(j)
    j = int(mjm.dof_parentid[j])
  return out


def validate_layout(mjm, seed=0):
  """the CSR reference against mujoco: dense_of(qM) == mj_fullM, the stored pattern is 'i with a subset of its dof ancestors',
  and mj_solveM's x satisfies dense_of(qM) x = b.  -> error text or None"""
  import mujoco

  rng = np.random.default_rng(seed)
  mjd = mujoco.MjData(mjm)
  mjd.qpos[:] = rng.uniform(-1, 1, mjm.nq)
  mujoco.mj_forward(mjm, mjd)
  full = np.zeros((mjm.nv, mjm.nv))
  mujoco.mj_fullM(mjm, mjd, full)
  ref = np.array(dense_of(mjm, list(mjd.M)), dtype=float)
  if not np.allclose(ref, full, atol=1e-10):
    return "CSR reference layout disagrees with mujoco.mj_fullM"
  for i, j, a in csr_entries(mjm):
    if j != i and j not in ancestors(mjm, i):
      return f"stored entry ({i},{j}) is not an ancestor pair"
  b = rng.uniform(-1, 1, (1, mjm.nv))
  x = np.zeros((1, mjm.nv))
  mujoco.mj_solveM(mjm, mjd, x, b)
  if not np.allclose(ref @ x[0], b[0], atol=1e-8):
    return "mj_solveM does not solve the reference dense system"
  return None


# ------------------------------------------------------------------------------------------------ lemma chain


def consts_of(e, acc=None):
  acc = set() if acc is None else acc
  seen = set()
  todo = [e]
  while todo:
    t = todo.pop()
    if t.get_id() in seen:
      continue
    seen.add(t.get_id())
    if z3.is_const(t) and t.decl().kind() == z3.Z3_OP_UNINTERPRETED:
      acc.add(t.decl().name())
    todo.extend(t.children())
  return acc


def has_uf(e):
  seen, todo = set(), [e]
  while todo:
    t = todo.pop()
    if t.get_id() in seen:
      continue
    seen.add(t.get_id())
    if z3.is_app(t) and t.num_args() > 0 and t.decl().kind() == z3.Z3_OP_UNINTERPRETED:
      return True
    todo.extend(t.children())
  return False


class OneShot(kh.Session):
  """every query in a FRESH non-incremental solver (z3's incremental mode gives up on nonlinear real queries that the one-shot
  solver decides at once)"""

  def __init__(self, background=(), timeout_ms=20000, tactic=None):
    self.bgs = [core.zbool(b) for b in background if b is not True]
    self.timeout_ms, self.tactic = timeout_ms, tactic
    self.results, self.log = [], None

  def add(self, *bs):
    self.bgs += [core.zbool(b) for b in bs if b is not True]

  def _check(self, extra):
    import time

    s = z3.Solver() if self.tactic is None else z3.Tactic(self.tactic).solver()
    s.set("timeout", self.timeout_ms)
    for b in self.bgs:
      s.add(b)
    for e in extra:
      if e is not True:
        s.add(core.zbool(e))
    t0 = time.time()
    r = str(s.check())
    m = s.model() if r == "sat" else None
    return r, time.time() - t0, m


class Chain:
  """Side axioms (sqrt definitions), definitions  name == value  of stored intermediates, preconditions over the parameters,
  and an ordered list of proved equalities  name == closed form  applied as a simultaneous substitution to every formula.
  Sound: every pair was proved from the same background, so a formula and its substituted version are equivalent under it;
  leaving out axioms / definitions (cone of influence, `opaque` names) only weakens the background of an unsat proof."""

  def __init__(self, axioms, defs, facts):
    self.axioms = [core.zbool(a) for a in axioms if a is not True]
    self.defs = list(defs)
    self.facts = [core.zbool(f) for f in facts]
    self.subs = []
    self.opaque = set()

  def sb(self, f):
    f = z3.BoolVal(f) if isinstance(f, bool) else f
    return z3.substitute(f, *self.subs) if self.subs else f

  def add(self, term, closed):
    if core.is_sym(term) and not (core.is_sym(closed) and term.eq(closed)):
      closed = closed if core.is_sym(closed) else z3.RealVal(closed)
      # keep the substitution idempotent: earlier right-hand sides may mention the new term
      self.subs = [(t, z3.substitute(c, (term, closed))) for t, c in self.subs] + [(term, closed)]

  def _prepared(self):
    """substituted definitions / axioms and their engine symbols; recomputed only when the substitution changed"""
    key = (len(self.subs), len(self.defs), len(self.axioms), len(self.opaque))
    if getattr(self, "_prep", (None,))[0] != key:
      eng = lambda cs: {c for c in cs if "!" in c and not c.startswith("uninit!")} - self.opaque
      replaced = {t.decl().name() for t, _ in self.subs if z3.is_const(t)}
      defs = [(v, self.sb(t)) for v, t in self.defs if v.decl().name() not in replaced]
      defc = [eng(consts_of(t)) for v, t in defs]
      ax = [self.sb(a) for a in self.axioms]
      axc = [eng(consts_of(a)) for a in ax]
      self._prep = (key, defs, defc, ax, axc, [not c and has_uf(a) for a, c in zip(ax, axc)])
    return self._prep[1:]

  def background(self, goal):
    eng = lambda cs: {c for c in cs if "!" in c and not c.startswith("uninit!")} - self.opaque
    need = eng(consts_of(goal))
    defs, defc, ax, axc, axuf = self._prepared()
    axd = [{c for c in cs if c.startswith("sqrt!")} or cs for cs in axc]
    out = []
    used_d, used_a = [False] * len(defs), [False] * len(ax)
    # contract axioms over uninterpreted functions whose arguments are parameters only (no engine symbol to link them to the
    # goal) are always part of the background
    for k in range(len(ax)):
      if axuf[k]:
        used_a[k] = True
        out.append(ax[k])
    changed = True
    while changed:
      changed = False
      for k, (v, t) in enumerate(defs):
        if not used_d[k] and v.decl().name() in need:
          used_d[k] = changed = True
          need |= defc[k]
          out.append(v == t)
      for k in range(len(ax)):
        if not used_a[k] and axd[k] & need:
          used_a[k] = changed = True
          need |= axc[k]
          out.append(ax[k])
    return self.facts + out

  def session(self, ctx, goal, guard=True, tactic=None):
    g = self.sb(core.zbool(goal))
    gd = self.sb(core.zbool(guard))
    return OneShot(self.background(z3.And(g, gd)), ctx.timeout_ms, tactic=tactic), g, gd

  def prove(self, ctx, name, goal, guard=True, tactic=None, **kw):
    sess, g, gd = self.session(ctx, goal, guard, tactic)
    return ctx.prove(sess, name, g, gd, **kw)


# ------------------------------------------------------------------------------------------------ solver-checked normal forms


class Laurent:
  """Laurent polynomial with rational coefficients: {monomial: Fraction}, monomial = sorted tuple of (symbol name, exponent != 0).
  Used ONLY to propose closed forms (hints); every proposed equality is then proved by the solver before it is used."""

  __slots__ = ("t",)

  def __init__(self, t=None):
    self.t = t or {}

  @staticmethod
  def const(c):
    c = Fraction(c)
    return Laurent({(): c} if c else {})

  @staticmethod
  def sym(name):
    return Laurent({((name, 1),): Fraction(1)})

  def __add__(self, o):
    r = dict(self.t)
    for m, c in o.t.items():
      v = r.get(m, 0) + c
      if v:
        r[m] = v
      else:
        r.pop(m, None)
    return Laurent(r)

  def __neg__(self):
    return Laurent({m: -c for m, c in self.t.items()})

  def __sub__(self, o):
    return self + (-o)

  @staticmethod
  def _mm(a, b):
    e = dict(a)
    for n, k in b:
      v = e.get(n, 0) + k
      if v:
        e[n] = v
      else:
        e.pop(n, None)
    return tuple(sorted(e.items()))

  def __mul__(self, o):
    r = {}
    for m1, c1 in self.t.items():
      for m2, c2 in o.t.items():
        m = Laurent._mm(m1, m2)
        v = r.get(m, 0) + c1 * c2
        if v:
          r[m] = v
        else:
          r.pop(m, None)
    return Laurent(r)

  def inverse(self, positive):
    """1 / self if self is a single term whose symbols are all known to be positive"""
    if len(self.t) != 1:
      return None
    ((m, c),) = self.t.items()
    if any(n not in positive for n, _ in m):
      return None
    return Laurent({tuple((n, -k) for n, k in m): 1 / c})

  def sqrt(self, positive):
    if len(self.t) != 1:
      return None
    ((m, c),) = self.t.items()
    if c <= 0 or any(n not in positive or k % 2 for n, k in m):
      return None
    rn, rd = math.isqrt(c.numerator), math.isqrt(c.denominator)
    if rn * rn != c.numerator or rd * rd != c.denominator:
      return None
    return Laurent({tuple((n, k // 2) for n, k in m): Fraction(rn, rd)})


def _frac(t):
  return Fraction(t.numerator_as_long(), t.denominator_as_long())


def laurent_of(term, closed, positive, memo=None):
  """Laurent form of a z3 real term whose engine symbols (names with '!') all have closed forms in `closed`; None if the
  term leaves the fragment (division by a non-monomial, if-then-else, ...)"""
  memo = {} if memo is None else memo

  def go(t):
    k = t.get_id()
    if k in memo:
      return memo[k]
    r = go1(t)
    memo[k] = r
    return r

  def go1(t):
    if z3.is_rational_value(t) or z3.is_int_value(t):
      return Laurent.const(_frac(t) if z3.is_rational_value(t) else t.as_long())
    kind = t.decl().kind()
    ch = t.children()
    if z3.is_const(t) and kind == z3.Z3_OP_UNINTERPRETED:
      n = t.decl().name()
      if "!" in n and not n.startswith("uninit!"):
        return closed.get(n)
      return Laurent.sym(n)
    if kind == z3.Z3_OP_TO_REAL:
      return go(ch[0])
    xs = [go(c) for c in ch]
    if any(x is None for x in xs):
      return None
    if kind == z3.Z3_OP_ADD:
      r = xs[0]
      for x in xs[1:]:
        r = r + x
      return r
    if kind == z3.Z3_OP_MUL:
      r = xs[0]
      for x in xs[1:]:
        r = r * x
      return r
    if kind == z3.Z3_OP_SUB:
      r = xs[0]
      for x in xs[1:]:
        r = r - x
      return r
    if kind == z3.Z3_OP_UMINUS:
      return -xs[0]
    if kind == z3.Z3_OP_DIV:
      inv = xs[1].inverse(positive)
      return None if inv is None else xs[0] * inv
    return None

  return go(term)


class Renderer:
  def __init__(self):
    self.rec = {}

  def __call__(self, lp):
    terms = []
    for m in sorted(lp.t):
      c = lp.t[m]
      fs = []
      for n, k in m:
        v = z3.Real(n)
        if k < 0:
          if n not in self.rec:
            self.rec[n] = z3.RealVal(1) / v
          v = self.rec[n]
        fs += [v] * abs(k)
      coef = z3.RealVal(str(c))
      terms.append(z3.Product([coef] + fs) if fs and c != 1 else (z3.Product(fs) if fs else coef))
    if not terms:
      return z3.RealVal(0)
    return z3.Sum(terms) if len(terms) > 1 else terms[0]


class Closer(Chain):
  """Chain that closes every named intermediate of a run in execution order: the Laurent arithmetic proposes a closed form
  over the parameters, the SOLVER proves  definition[closed inputs] == proposal  (one small query per store; for a sqrt
  symbol: s >= 0, s^2 = v, positivity facts |- s == proposal), and only then the name is replaced."""

  def __init__(self, axioms, defs, facts, positive):
    super().__init__(axioms, defs, facts)
    self.positive = set(positive)
    self.lp = {}  # name -> Laurent
    self.render = Renderer()
    self.sq = {}
    for a in self.axioms:
      for n in consts_of(a):
        if n.startswith("sqrt!"):
          self.sq[n] = a
    self.failed = []

  def close_all(self, ctx, prefix, replay, desc):
    memo = {}
    for v, t in self.defs:
      self._close(ctx, prefix, v, t, replay, desc, memo)

  def _close_sqrt(self, ctx, prefix, n, replay, desc, memo):
    ax = self.sq.get(n)
    if ax is None or n in self.lp or n in self.failed:
      return
    # Implies(x >= 0, And(s >= 0, s*s == x))
    try:
      x = ax.arg(0).arg(0)
    except Exception:
      self.failed.append(n)
      return
    self._need(ctx, prefix, x, replay, desc, memo)
    lx = laurent_of(x, self.lp, self.positive, memo)
    h = lx.sqrt(self.positive) if lx is not None else None
    if h is None:
      self.failed.append(n)
      return
    s = z3.Real(n)
    ht = self.render(h)
    sess = OneShot(self.facts + [self.sb(ax)], ctx.timeout_ms)
    res = ctx.prove(sess, f"{prefix}/closed:{n}", s == ht, replay=replay(f"{prefix}.{n}"), desc=desc(n))
    if res.status == "unsat":
      self.lp[n] = h
      self.add(s, ht)
    else:
      self.failed.append(n)

  def _need(self, ctx, prefix, term, replay, desc, memo):
    for n in consts_of(term):
      if n.startswith("sqrt!") and n not in self.lp:
        self._close_sqrt(ctx, prefix, n, replay, desc, memo)

  def _close(self, ctx, prefix, v, t, replay, desc, memo):
    n = v.decl().name()
    self._need(ctx, prefix, t, replay, desc, memo)
    h = laurent_of(t, self.lp, self.positive, memo)
    if h is None:
      self.failed.append(n)
      return
    ht = self.normal(ctx, f"{prefix}/closed:{n}", t, replay(f"{prefix}.{n}"), desc(n))
    if ht is not None:
      self.lp[n] = h
      self.add(v, ht)
    else:
      self.failed.append(n)


  def normal(self, ctx, name, term, replay, desc):
    """solver-checked normal form of a term over closed intermediates, built bottom-up: operands first, products folded
    pairwise, one small query per node (each needs only a few cancellations L * (1/L) = 1).  -> rendered term or None"""
    ts = self.sb(term)
    if any("!" in n and not n.startswith("uninit!") for n in consts_of(ts)):
      return None
    memo, lmemo = {}, {}
    ctr = itertools.count()

    def check(a, b):
      if a.eq(b):
        return True
      sess = OneShot(self.facts, ctx.timeout_ms)
      return ctx.prove(sess, f"{name}#{next(ctr)}", a == b, replay=replay, desc=desc).status == "unsat"

    def go(t):
      k = t.get_id()
      if k not in memo:
        memo[k] = go1(t)
      return memo[k]

    def go1(t):
      if t.num_args() == 0:
        return t
      h = laurent_of(t, self.lp, self.positive, lmemo)
      if h is None:
        return None
      ht = self.render(h)
      if t.eq(ht):
        return ht
      # whole node at once with a short budget; operand-by-operand only when that is not decided quickly
      quick = OneShot(self.facts, 1500).prove(f"{name}#{next(ctr)}", t == ht)
      if quick.status == "unsat":
        ctx._rec(quick)
        return ht
      kids = [go(c) for c in t.children()]
      if any(c is None for c in kids):
        return None
      kind = t.decl().kind()
      if kind == z3.Z3_OP_MUL and len(kids) > 2:
        acc = kids[0]
        for c in kids[1:-1]:
          step = acc * c
          hs = laurent_of(step, self.lp, self.positive)
          nt = self.render(hs)
          if not check(step, nt):
            return None
          acc = nt
        node = acc * kids[-1]
      else:
        node = t.decl()(*kids)
      return ht if check(node, ht) else None

    return go(ts)

  def prove_sum(self, ctx, name, products, rhs, replay, desc):
    """sum_j a_j * b_j == rhs, accumulated one product at a time: every partial sum is replaced by its solver-checked normal
    form, so each query needs only a few cancellations; the last query compares the final normal form with rhs.  Falls back
    to the direct query when an operand has no closed form."""
    acc = z3.RealVal(0)
    direct = 0.0
    for j, (a, b) in enumerate(products):
      direct = core.arith("+", direct, core.arith("*", a, b))
    for j, (a, b) in enumerate(products):
      t = acc + core.to_z3(a, "real") * core.to_z3(b, "real")
      acc = self.normal(ctx, f"{name}:partial{j}", t, replay, desc)
      if acc is None:
        return self.prove(ctx, name, core.cmp("==", direct, rhs), replay=replay, desc=desc)
    sess = OneShot(self.facts, ctx.timeout_ms)
    return ctx.prove(sess, name, acc == self.sb(core.to_z3(rhs, "real")), replay=replay, desc=desc)


def rnd_spd_factor(rng, n, lo=0.6, hi=1.4):
  """well-conditioned lower-triangular factor"""
  L = np.tril(rng.uniform(-0.5, 0.5, (n, n)), -1)
  L[np.arange(n), np.arange(n)] = rng.uniform(lo, hi, n)
  return L


def save(pid, name, obj):
  import json

  from wsym import report

  p = os.path.join(report.VERIF, "replays", pid)
  os.makedirs(p, exist_ok=True)
  path = os.path.join(p, name.replace("/", "_") + ".json")
  with open(path, "w") as f:
    json.dump(obj, f, default=lambda o: o.tolist() if hasattr(o, "tolist") else str(o))
  return path
