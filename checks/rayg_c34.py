"""Geometry units of C34: exact (nonlinear real) correctness of the closed-form ray / primitive intersections of ray.py.

Every unit executes the REAL wp.func through a thin wrapper kernel (checks/wrap_c34.py) with all inputs symbolic and proves
a characterisation written from geometry, not from the code:

  the returned distance x is -1 or >= 0;  x >= 0  =>  the point pnt + x vec lies on the geom's surface and no surface point
  has a parameter in [0, x);  x = -1  =>  no surface point has a parameter >= 0;  the normal is the unit outward normal at
  the hit point (zero vector for a miss).

MuJoCo's mjMINVAL guards are part of the reference (mju_rayGeom has the same ones): a quadratic whose reduced discriminant
is below 1e-15 (grazing ray) is a miss, a plane is hit only when the ray points towards its front by more than 1e-15, face
tests are skipped for direction components of magnitude <= 1e-15.  The completeness statements (nothing nearer / justified
miss) are therefore made for NON-DEGENERATE rays: every guarded quantity is either exactly degenerate or clear of the guard.

Modular proofs: _ray_map and _ray_quad are proved against contracts first; the other functions are then interpreted with
those two (and ray_sphere for the bounding-sphere pre-test) replaced by the proved contracts.  Proof scripts use the
lemma / goal machinery of checks/geom_c20.py (lemmas are solver-proved before use; `unknown` is never success).
The characterisations are validated numerically against mujoco.mju_rayGeom in unit geometry/validate.
"""

import numpy as np
import z3

from checks import lib
from checks import geom_c20
from checks.geom_c20 import GInterp, Q, R, add, dot, out_vec, pin_vec, scl, sub, vec_arg, veq
from wsym import core, kh
from wsym.core import Vec

LOC = "checks.wrap_c34:"
MINVAL = Q("1/1000000000000000")
GEOM = {"plane": 0, "sphere": 2, "capsule": 3, "ellipsoid": 4, "cylinder": 5, "box": 6}


class Proof(geom_c20.Proof):
  """geom_c20.Proof whose lemmas from listed facts try nlsat first (polynomial identities / small nonlinear steps)"""

  def lemma(self, name, goal, using=None, nl_first=True):
    if using is None or any(isinstance(u, str) and u not in self.facts for u in using):
      return super().lemma(name, goal, using)
    full = self.prefix + "lemma/" + name
    for tactic in ("qfnra-nlsat", "smt") if nl_first else ("smt", "qfnra-nlsat"):
      small = kh.Session(self._using(using), timeout_ms=min(self.timeout_ms, 5000), tactic=tactic)
      res = small.prove(full, goal)
      self.ctx.log(f"lemma {full} ({tactic or 'default'}): {res.status} {res.secs:.2f}s")
      if res.status == "unsat":
        self.ctx._rec(res)
        self.full.add(goal)
        self.facts[name] = goal
        return True
    return super().lemma(name, goal, using)


def _follows(conj, c):
  """syntactic: c follows from the set of conjunct ids `conj` (And: all parts; Or / Not(And(Not ..)): some part)"""
  if c.get_id() in conj:
    return True
  if z3.is_and(c):
    return all(_follows(conj, k) for k in c.children())
  if z3.is_or(c):
    return any(_follows(conj, k) for k in c.children())
  if z3.is_not(c) and z3.is_and(c.arg(0)):
    return any(_follows(conj, k.arg(0)) if z3.is_not(k) else False for k in c.arg(0).children())
  return False


def _under(v, active):
  """v simplified under the path condition `active`: If(c, a, b) -> a when c follows syntactically from active"""
  if isinstance(v, Vec):
    return Vec([_under(c, active) for c in v.c], v.shape, v.dt)
  if not core.is_sym(v) or not z3.is_app_of(v, z3.Z3_OP_ITE) or active is True or active is False:
    return v
  conj = core._conjuncts(active)
  while core.is_sym(v) and z3.is_app_of(v, z3.Z3_OP_ITE) and _follows(conj, v.arg(0)):
    v = v.arg(1)
  return v


class CInterp(GInterp):
  """GInterp that reads locals simplified under the current path condition.  A local assigned inside `if g:` is merged as
  If(g, new, old); a read under a path condition that contains g sees `new` directly (same value on that path).  Keeps
  loop temporaries (sol, id0, id1 of ray_box / ray_cylinder) concrete or small instead of nests of If / undef symbols."""

  _raw = 0

  def lookup(self, fr, name):
    v = super().lookup(fr, name)
    if self._raw == 0 and (core.is_sym(v) or isinstance(v, Vec)):
      return _under(v, self.active(fr))  # a simplified copy: component stores go through assign / augassign below
    return v

  def assign(self, fr, t, val, g):
    import ast

    if isinstance(t, (ast.Subscript, ast.Attribute)):
      self._raw += 1  # in-place component / attribute stores must hit the environment's own object
      try:
        return super().assign(fr, t, val, g)
      finally:
        self._raw -= 1
    return super().assign(fr, t, val, g)

  def augassign(self, fr, s, g):
    import ast

    if isinstance(s.target, (ast.Subscript, ast.Attribute)):
      self._raw += 1
      try:
        return super().augassign(fr, s, g)
      finally:
        self._raw -= 1
    return super().augassign(fr, s, g)


def run_wrapper(name, shapes, interp=None, divmode="poly", summaries=None, name_matvec=True):
  """interpret the wrapper kernel; symbolic matrix @ vector products are given names (fresh result vector + defining
  equations, recorded in gi.matvecs as (matrix rows, vector, result)) so that rotated normals stay small terms"""
  from checks import wrap_c34

  core.DIVMODE[0] = divmode
  orig = core.matmul
  gi = interp or CInterp(summaries=summaries)
  gi.matvecs = []

  def named_matmul(a, b, interp=None):
    res = orig(a, b, interp)
    if name_matvec and interp is gi and len(a.shape) == 2 and len(b.shape) == 1 and any(core.is_sym(c) for c in res.c):
      k = len(gi.matvecs)
      out = [z3.Real(f"mv!{k}_{i}") for i in range(len(res.c))]
      gi.assumes += [o == R(c) for o, c in zip(out, res.c)]
      n = b.shape[0]
      gi.matvecs.append(([[R(a.c[i * n + j]) for j in range(n)] for i in range(a.shape[0])], [R(c) for c in b.c], out))
      return Vec(out, res.shape, res.dt)
    return res

  core.matmul = named_matmul
  try:
    kt = lib.kernel_thread(getattr(wrap_c34, name), shapes=shapes, interp_kw={"interp": gi})
  finally:
    core.DIVMODE[0] = "native"
    core.matmul = orig
  return kt, gi


def fresh_syms(kt, prefix):
  """the interpreter's fresh symbols (div!k quotients, sqrt!k roots) occurring in the side axioms, in creation order"""
  from checks.geom_c20 import free_vars

  names = set()
  for a in kt.it.assumes:
    if core.is_sym(a):
      names |= {n for n in free_vars(core.zbool(a)) if n.startswith(prefix)}
  return [z3.Real(n) for n in sorted(names, key=lambda n: int(n.split("!")[1].split("_")[0]))]


def side_facts(kt, sym):
  """side axioms mentioning the fresh symbol"""
  from checks.geom_c20 import free_vars

  return [core.zbool(a) for a in kt.it.assumes if core.is_sym(a) and str(sym) in free_vars(core.zbool(a))]


def mat_arg(kt, label):
  c = [R(x) for x in kt.args[label].c]
  return [c[0:3], c[3:6], c[6:9]]


def col(M, j):
  return [M[0][j], M[1][j], M[2][j]]


def mT(M, v):
  """M^T v"""
  return [dot(col(M, j), v) for j in range(3)]


def mv(M, v):
  return [dot(M[i], v) for i in range(3)]


def rotation(M):
  """M is orthogonal: M M^T = I and M^T M = I (each implies the other; both stated to spare the solver the derivation)"""
  out = []
  for i in range(3):
    for j in range(i, 3):
      out.append(dot(M[i], M[j]) == (1 if i == j else 0))
      out.append(dot(col(M, i), col(M, j)) == (1 if i == j else 0))
  return out


ROT_PINS = [
  (1, 0, 0, 0, 1, 0, 0, 0, 1),
  (0, -1, 0, 1, 0, 0, 0, 0, 1),
  ("3/5", "-4/5", 0, "4/5", "3/5", 0, 0, 0, 1),
  ("2/3", "-1/3", "2/3", "2/3", "2/3", "-1/3", "-1/3", "2/3", "2/3"),
  (1, 0, 0, 0, 0, -1, 0, 1, 0),
]


def pin_mat(M, vals):
  return pin_vec([M[i][j] for i in range(3) for j in range(3)], vals)


# ------------------------------------------------------------------------------------------------ replay goal: vs MuJoCo


def _argv(spec, label):
  a = spec["args"][label]
  return np.array(a["vec"], dtype=np.float32).astype(np.float64) if "vec" in a else float(np.float32(a["scalar"]))


def goal_vs_mujoco(spec, pre, post):
  """the real compiled function vs mujoco.mju_rayGeom on the same (float32-rounded) inputs"""
  import mujoco

  gt = int(spec["env"]["geomtype"])
  pos, pnt, vec = _argv(spec, "pos"), _argv(spec, "pnt"), _argv(spec, "vec")
  if gt == GEOM["sphere"] and "dist_sqr" in spec["args"]:
    mat, size = np.eye(3).flatten(), np.array([np.sqrt(max(_argv(spec, "dist_sqr"), 0.0)), 0, 0])
  else:
    mat, size = _argv(spec, "mat"), _argv(spec, "size")
  nm = np.zeros(3)
  dm = float(mujoco.mju_rayGeom(pos, mat, size, pnt, vec, gt, nm))
  dw, nw = float(post["dist_out"][0]), post["normal_out"][0].astype(np.float64)
  if dm < 0 or dw < 0:
    ok = dm < 0 and dw < 0
  else:
    ok = abs(dm - dw) <= 2e-3 * (1 + abs(dm)) and np.abs(nm - nw).max() <= 2e-2
  return ok, f"mujoco_warp returns (dist {dw}, normal {nw.tolist()}), mujoco.mju_rayGeom returns (dist {dm}, normal {nm.tolist()}) for geom type {gt}, pos {pos.tolist()}, mat {np.round(mat, 4).tolist()}, size {size.tolist()}, pnt {pnt.tolist()}, vec {vec.tolist()}"


def goal_quad(spec, pre, post):
  a, b, c = _argv(spec, "a"), _argv(spec, "b"), _argv(spec, "c")
  det = b * b - a * c
  sol, x = float(post["sol_out"][0]), post["x_out"][0].astype(np.float64)
  if det < 1e-15:
    want, wx = -1.0, np.array([-1.0, -1.0])
  else:
    s = np.sqrt(det)
    wx = np.array([(-b - s) / a, (-b + s) / a])
    want = wx[0] if wx[0] >= 0 else wx[1] if wx[1] >= 0 else -1.0
  tol = 2e-3 * (1 + np.abs(wx).max())
  ok = abs(sol - want) <= tol and np.abs(x - wx).max() <= tol
  return ok, f"_ray_quad({a}, {b}, {c}) = ({sol}, {x.tolist()}); roots of a x^2 + 2 b x + c are {wx.tolist()}, smallest non-negative one {want}"


def goal_map(spec, pre, post):
  pos, pnt, vec, M = _argv(spec, "pos"), _argv(spec, "pnt"), _argv(spec, "vec"), _argv(spec, "mat").reshape(3, 3)
  lp, lv = post["lpnt_out"][0].astype(np.float64), post["lvec_out"][0].astype(np.float64)
  wp_, wv = M.T @ (pnt - pos), M.T @ vec
  tol = 2e-3 * (1 + np.abs(wp_).max() + np.abs(wv).max())
  ok = np.abs(lp - wp_).max() <= tol and np.abs(lv - wv).max() <= tol
  return ok, f"_ray_map gives ({lp.tolist()}, {lv.tolist()}), mat^T (pnt - pos) = {wp_.tolist()}, mat^T vec = {wv.tolist()}"


# ------------------------------------------------------------------------------------------------ contracts


class Contracts:
  """summaries (interp, frame, args) -> value for _ray_map / _ray_quad / ray_sphere + the recorded calls"""

  def __init__(self):
    self.maps, self.quads, self.spheres = [], [], []

  def ray_map(self, it, fr, args):
    """fresh local point / direction with the facts proved in unit geometry/map for a rotation matrix"""
    pos, M, pnt, vec = [R(c) for c in args[0].c], [[R(c) for c in args[1].c[3 * i : 3 * i + 3]] for i in range(3)], [R(c) for c in args[2].c], [R(c) for c in args[3].c]
    k = len(self.maps)
    lp = [z3.Real(f"lp!{k}_{i}") for i in range(3)]
    lv = [z3.Real(f"lv!{k}_{i}") for i in range(3)]
    dif = sub(pnt, pos)
    facts = [dot(lv, lv) == dot(vec, vec), dot(lv, lp) == dot(vec, dif), dot(lp, lp) == dot(dif, dif)]
    it.assumes += facts
    self.maps.append({"pos": pos, "M": M, "pnt": pnt, "vec": vec, "lp": lp, "lv": lv, "facts": facts})
    return (Vec(lp, (3,), "f"), Vec(lv, (3,), "f"))

  @staticmethod
  def quad_facts(a, b, c, sol, x0, x1):
    det = b * b - a * c
    return [
      z3.Implies(det < MINVAL, z3.And(sol == -1, x0 == -1, x1 == -1)),
      z3.Implies(
        z3.And(det >= MINVAL, a > 0),
        z3.And(a * x0 * x0 + 2 * b * x0 + c == 0, a * x1 * x1 + 2 * b * x1 + c == 0, x0 < x1, a * (x0 + x1) == -2 * b, a * x0 * x1 == c, sol == z3.If(x0 >= 0, x0, z3.If(x1 >= 0, x1, -1))),
      ),
    ]

  def ray_quad(self, it, fr, args):
    a, b, c = [R(x) for x in args]
    k = len(self.quads)
    A, B, C = z3.Real(f"qa!{k}"), z3.Real(f"qb!{k}"), z3.Real(f"qc!{k}")  # names for the coefficients (definitions)
    sol, x0, x1 = z3.Real(f"qsol!{k}"), z3.Real(f"qx0!{k}"), z3.Real(f"qx1!{k}")
    defs = [A == a, B == b, C == c]
    facts = self.quad_facts(A, B, C, sol, x0, x1)
    it.assumes += defs + facts
    self.quads.append({"a": a, "b": b, "c": c, "A": A, "B": B, "C": C, "defs": defs, "sol": sol, "x0": x0, "x1": x1, "facts": facts, "guard": it.active(fr)})
    return (sol, Vec([x0, x1], (2,), "f"))

  def ray_sphere(self, it, fr, args):
    """what unit geometry/sphere proves about the distance (the callers only use it as a bounding-sphere pre-test)"""
    pos, dsq, pnt, vec = [R(c) for c in args[0].c], R(args[1]), [R(c) for c in args[2].c], [R(c) for c in args[3].c]
    dif = sub(pnt, pos)
    a, b, c = dot(vec, vec), dot(vec, dif), dot(dif, dif) - dsq
    k = len(self.spheres)
    A, B, C = z3.Real(f"sa!{k}"), z3.Real(f"sb!{k}"), z3.Real(f"sc!{k}")
    sol, x0, x1 = z3.Real(f"ssol!{k}"), z3.Real(f"sx0!{k}"), z3.Real(f"sx1!{k}")
    nrm = [z3.Real(f"snrm!{k}_{i}") for i in range(3)]
    defs = [A == a, B == b, C == c]
    facts = self.quad_facts(A, B, C, sol, x0, x1)
    it.assumes += defs + facts
    self.spheres.append({"a": a, "b": b, "c": c, "A": A, "B": B, "C": C, "defs": defs, "sol": sol, "x0": x0, "x1": x1, "pos": pos, "dsq": dsq, "pnt": pnt, "vec": vec, "facts": facts})
    return (sol, Vec(nrm, (3,), "f"))


# ------------------------------------------------------------------------------------------------ _ray_map


def unit_map(ctx):
  from mujoco_warp._src import ray

  ctx.encode(ray._ray_map)
  ctx.bound(note="no loops; all inputs symbolic")
  ctx.assume("geom orientation is a rotation matrix (mat mat^T = mat^T mat = I) for the inner-product facts", "floats are reals")
  kt, gi = run_wrapper("k_ray_map", {"lpnt_out": [1], "lvec_out": [1]}, name_matvec=False)
  pos, pnt, vec, M = vec_arg(kt, "pos"), vec_arg(kt, "pnt"), vec_arg(kt, "vec"), mat_arg(kt, "mat")
  lp, lv = out_vec(kt, "lpnt_out", 0, 3), out_vec(kt, "lvec_out", 0, 3)
  dif = sub(pnt, pos)
  rp = lib.make_replay(ctx, kt, LOC + "k_ray_map", "ray_map", "goal", goal="checks.rayg_c34:goal_map")
  pins = [z3.And(pin_mat(M, m), pin_vec(pos, (1, 2, 3)), pin_vec(pnt, (0, 1, -1)), pin_vec(vec, (1, 2, 2))) for m in ROT_PINS]
  P = Proof(ctx, kt.bg, {}, rp, pins=pins)
  ctx.reach(P.full, "twin:reachable", pins[3])
  P.goal("local-point", veq(lp, mT(M, dif)), desc="_ray_map: local point is not mat^T (pnt - pos)")
  P.goal("local-direction", veq(lv, mT(M, vec)), desc="_ray_map: local direction is not mat^T vec")
  # inner products are preserved by a rotation: (M^T u).(M^T w) = u^T (M M^T) w = u.w
  G = [[z3.Real(f"G{i}{j}") for j in range(3)] for i in range(3)]
  gdef = [G[i][j] == dot(M[i], M[j]) for i in range(3) for j in range(3)]
  rot = rotation(M)
  P2 = Proof(ctx, kt.bg + rot + gdef, {}, rp, prefix="rotation/", pins=pins)
  ctx.reach(P2.full, "twin:rotation", pins[3])
  P2.lemma("G=I", z3.And(*[G[i][j] == (1 if i == j else 0) for i in range(3) for j in range(3)]), using=rot + gdef)
  for nm, u, w_, lu, lw in (("vec.vec", vec, vec, lv, lv), ("vec.dif", vec, dif, lv, lp), ("dif.dif", dif, dif, lp, lp)):
    bil = sum(u[i] * w_[j] * G[i][j] for i in range(3) for j in range(3))
    P2.lemma(f"{nm}/bilinear", dot(mT(M, u), mT(M, w_)) == bil, using=gdef)
    P2.lemma(f"{nm}/reference", dot(mT(M, u), mT(M, w_)) == dot(u, w_), using=[f"{nm}/bilinear", "G=I"])
    P2.lemma(f"{nm}/outputs", dot(lu, lw) == dot(mT(M, u), mT(M, w_)))
    P2.goal(f"preserves/{nm}", dot(lu, lw) == dot(u, w_), using=[f"{nm}/reference", f"{nm}/outputs"], desc=f"_ray_map with a rotation matrix does not preserve the inner product {nm} (local frame is not an isometric image)")


# ------------------------------------------------------------------------------------------------ _ray_quad


def unit_quad(ctx):
  from mujoco_warp._src import math as mjmath
  from mujoco_warp._src import ray

  ctx.encode(ray._ray_quad, mjmath.safe_div)
  ctx.bound(note="no loops; a, b, c symbolic")
  ctx.assume("leading coefficient a > 0 (a is |direction|^2 of a non-zero direction in every caller; a = 0 implies b = 0, i.e. a miss)", "floats are reals; sqrt / division by their defining equations")
  kt, gi = run_wrapper("k_ray_quad", {"sol_out": [1], "x_out": [1]})
  a, b, c = R(kt.args["a"]), R(kt.args["b"]), R(kt.args["c"])
  sol, x0, x1 = R(kt.post("sol_out", 0)), R(kt.post("x_out", 0, k=0)), R(kt.post("x_out", 0, k=1))
  det = b * b - a * c
  rp = lib.make_replay(ctx, kt, LOC + "k_ray_quad", "ray_quad", "goal", goal="checks.rayg_c34:goal_quad")
  pins = [z3.And(a == Q(x), b == Q(y), c == Q(z)) for x, y, z in [("1", "-3", "5"), ("2", "1", "-4"), ("1", "3", "5"), ("1", "1", "2"), ("4", "0", "-1"), ("1", "-2", "4"), ("1", "2", "0")]]
  names = {"a": a, "b": b, "c": c, "det": det}
  # miss branch
  P0 = Proof(ctx, kt.bg + [a > 0, det < MINVAL], names, rp, prefix="no-root/", pins=pins)
  ctx.reach(P0.full, "twin:negative-discriminant", pins[3])
  P0.goal("miss", z3.And(sol == -1, x0 == -1, x1 == -1), desc="_ray_quad: discriminant below mjMINVAL does not return (-1, (-1, -1))")
  # two roots
  P = Proof(ctx, kt.bg + [a > 0, det >= MINVAL], names, rp, prefix="roots/", pins=pins)
  ctx.reach(P.full, "twin:two-roots", pins[0])
  s = z3.Real("s_ref")
  P.assume(s >= 0, s * s == det)
  P.lemma("s>0", s > 0, using=[s >= 0, s * s == det, det >= MINVAL])
  P.lemma("a*x0", a * x0 == -b - s)
  P.lemma("a*x1", a * x1 == -b + s)
  q = lambda t: a * t * t + 2 * b * t + c
  P.lemma("a*q(x0)", a * q(x0) == (a * x0) * (a * x0) + 2 * b * (a * x0) + a * c, using=[])
  P.lemma("a*q(x1)", a * q(x1) == (a * x1) * (a * x1) + 2 * b * (a * x1) + a * c, using=[])
  P.lemma("a*q(x0)=0", a * q(x0) == 0, using=["a*q(x0)", "a*x0", s * s == det])
  P.lemma("a*q(x1)=0", a * q(x1) == 0, using=["a*q(x1)", "a*x1", s * s == det])
  P.goal("x0-is-root", q(x0) == 0, using=["a*q(x0)=0", a > 0], desc="_ray_quad: x[0] is not a root of a x^2 + 2 b x + c")
  P.goal("x1-is-root", q(x1) == 0, using=["a*q(x1)=0", a > 0], desc="_ray_quad: x[1] is not a root of a x^2 + 2 b x + c")
  P.lemma("a*(x1-x0)", a * (x1 - x0) == 2 * s, using=["a*x0", "a*x1"])
  P.goal("ordered", x0 < x1, using=["a*(x1-x0)", "s>0", a > 0], desc="_ray_quad: roots are not returned in increasing order")
  P.goal("vieta-sum", a * (x0 + x1) == -2 * b, using=["a*x0", "a*x1"], desc="_ray_quad: x[0] + x[1] is not -2 b / a")
  P.lemma("a*a*x0*x1", (a * x0) * (a * x1) == a * c, using=["a*x0", "a*x1", s * s == det])
  P.goal("vieta-product", a * x0 * x1 == c, using=["a*a*x0*x1", a > 0], desc="_ray_quad: x[0] x[1] is not c / a")
  P.goal("selection", sol == z3.If(x0 >= 0, x0, z3.If(x1 >= 0, x1, -1)), desc="_ray_quad: returned solution is not the smallest non-negative root (-1 if both are negative)")


# ------------------------------------------------------------------------------------------------ ray_plane


def unit_plane(ctx):
  from mujoco_warp._src import ray

  ctx.encode(ray.ray_plane)
  ctx.bound(note="no loops; pose (any 3x3 matrix), sizes, ray symbolic; _ray_map used through its contract (local point lp = mat^T (pnt - pos), local direction lv = mat^T vec: unit geometry/map)")
  ctx.assume("floats are reals; division by its defining equation", "plane half-sizes <= 0 mean infinite (MuJoCo renders such planes infinite)")
  C = Contracts()
  kt, gi = run_wrapper("k_ray_plane", {"dist_out": [1], "normal_out": [1]}, summaries={ray._ray_map.key: C.ray_map})
  size, M = vec_arg(kt, "size"), mat_arg(kt, "mat")
  x, nrm = R(kt.post("dist_out", 0)), out_vec(kt, "normal_out", 0, 3)
  if len(C.maps) != 1:
    ctx.error(f"ray_plane calls _ray_map {len(C.maps)} times (expected once)")
    return
  mp = C.maps[0]
  lp, lv = mp["lp"], mp["lv"]
  n = col(M, 2)
  rp = lib.make_replay(ctx, kt, LOC + "k_ray_plane", "ray_plane", "goal", goal="checks.rayg_c34:goal_vs_mujoco", env={"geomtype": GEOM["plane"]})
  t = z3.Real("t_ref")
  hx, hy = lp[0] + t * lv[0], lp[1] + t * lv[1]  # hit point in the plane's frame
  inrect = z3.And(z3.Or(size[0] <= 0, z3.And(hx <= size[0], hx >= -size[0])), z3.Or(size[1] <= 0, z3.And(hy <= size[1], hy >= -size[1])))
  facing = lv[2] <= -MINVAL
  onplane = t * lv[2] == -lp[2]
  isect = z3.And(facing, onplane, t >= 0, inrect)
  pins = []
  for sz, p_, v_, tt in [((0, 0, 1), (0, 0, 2), (0, 0, -1), "2"), ((1, 1, 1), ("1/2", "1/2", 2), (0, 0, -4), "1/2"), ((1, 1, 1), (3, 0, 2), (0, 0, -1), "2"), ((2, 0, 1), (0, 0, 1), (1, 1, -1), "1"), ((0, 0, 1), (1, 1, 1), (1, 0, 0), "-1"), ((0, 0, 1), (0, 0, -2), (0, 0, -1), "-2"), ((1, 1, 1), (1, -1, 2), (0, 0, -2), "1")]:
    pins.append(z3.And(pin_vec(size, sz), t == Q(tt), world_pins({"M": M, "pos": mp["pos"], "pnt": mp["pnt"], "vec": mp["vec"], "lp": lp, "lv": lv}, mp, p_, v_, rot=len(pins) % len(ROT_PINS))))
  pins += ray_pins({"M": M, "pos": mp["pos"], "pnt": mp["pnt"], "vec": mp["vec"], "lp": lp, "lv": lv, "size": size}, mp, [(1, 2, 1), (0, 0, 1), (2, 0, 1)])
  names = {"t": t, "lvec_z": lv[2], "lpnt_z": lp[2], "dist": x}
  P = Proof(ctx, kt.bg, names, rp, pins=pins)
  ctx.reach(P.full, "twin:hit", z3.And(isect, pins[1]))
  ctx.reach(P.full, "twin:hit-on-rectangle-edge", z3.And(isect, pins[6]))
  ctx.reach(P.full, "twin:outside-rectangle", z3.And(z3.Not(inrect), pins[2]))
  P.goal("map/arguments", z3.And(veq(mp["pos"], vec_arg(kt, "pos")), veq(mp["pnt"], vec_arg(kt, "pnt")), veq(mp["vec"], vec_arg(kt, "vec")), *[veq(mp["M"][i], M[i]) for i in range(3)]), using=[], desc="ray_plane: _ray_map is not called with (pos, mat, pnt, vec)")
  divs = fresh_syms(kt, "div!")
  if len(divs) != 1:
    ctx.error(f"ray_plane performs {len(divs)} divisions (expected one)")
    return
  P.lemma("quotient*lv_z", z3.Implies(facing, (divs[0] - t) * lv[2] == lv[2] * divs[0] + lp[2] - (t * lv[2] + lp[2])), using=[])
  P.lemma("quotient=t", z3.Implies(z3.And(facing, onplane), divs[0] == t), using=side_facts(kt, divs[0]) + ["quotient*lv_z"])
  P.lemma("hit-iff", z3.Implies(z3.And(facing, onplane), (x >= 0) == z3.And(t >= 0, inrect)))
  P.lemma("x=t", z3.Implies(z3.And(facing, onplane, x >= 0), x == t))
  P.goal("hit/distance", x == t, isect, using=["x=t", "hit-iff"], desc="ray_plane: a ray pointing to the front face and meeting the plane inside its rectangle at parameter t >= 0 does not return t")
  P.goal("hit/normal", veq(nrm, n), x >= 0, desc="ray_plane: normal of a hit is not the plane's z axis (third column of mat)")
  P.goal("miss/back-or-parallel", z3.And(x == -1, veq(nrm, [0, 0, 0])), z3.Not(facing), desc="ray_plane: a ray that does not point towards the front face (local direction z > -mjMINVAL) is not a miss")
  P.goal("miss/behind-origin", z3.And(x == -1, veq(nrm, [0, 0, 0])), z3.And(facing, onplane, t < 0), desc="ray_plane: intersection behind the ray origin is not a miss")
  P.goal("miss/outside-rectangle", z3.And(x == -1, veq(nrm, [0, 0, 0])), z3.And(facing, onplane, t >= 0, z3.Not(inrect)), using=["hit-iff", z3.Or(x == -1, x >= 0)] if False else None, desc="ray_plane: intersection outside the finite rectangle is not a miss")
  P.goal("range", z3.Or(x == -1, x >= 0), desc="ray_plane: returns a negative distance other than -1")


# ------------------------------------------------------------------------------------------------ ray_sphere


def quad_instances(P, tag, q, t):
  """facts about q(t) = A t^2 + 2 B t + C at the (universally quantified) parameter t, derived from the _ray_quad contract;
  A, B, C are the contract's names of the coefficients"""
  A, B, C, x0, x1 = q["A"], q["B"], q["C"], q["x0"], q["x1"]
  det = B * B - A * C
  qt = A * t * t + 2 * B * t + C
  P.lemma(f"{tag}/complete-square", A * qt == (A * t + B) * (A * t + B) - det, using=[])
  P.lemma(f"{tag}/no-root-if-det<0", z3.Implies(z3.And(A > 0, det < 0), qt > 0), using=[f"{tag}/complete-square"])
  P.lemma(f"{tag}/factor", z3.Implies(z3.And(A > 0, det >= MINVAL), qt == A * (t - x0) * (t - x1)), using=list(q["facts"]))
  return [f"{tag}/no-root-if-det<0", f"{tag}/factor"] + list(q["facts"])


def unit_sphere(ctx):
  from mujoco_warp._src import ray

  ctx.encode(ray.ray_sphere)
  ctx.bound(note="no loops; centre, squared radius, ray symbolic; _ray_quad used through the contract proved in unit geometry/quad")
  ctx.assume("ray direction is not the zero vector", "squared radius > 0", "floats are reals; wp.normalize by its contract")
  C = Contracts()
  from mujoco_warp._src import ray as _r

  kt, gi = run_wrapper("k_ray_sphere", {"dist_out": [1], "normal_out": [1]}, summaries={_r._ray_quad.key: C.ray_quad})
  pos, pnt, vec, dsq = vec_arg(kt, "pos"), vec_arg(kt, "pnt"), vec_arg(kt, "vec"), R(kt.args["dist_sqr"])
  x, nrm = R(kt.post("dist_out", 0)), out_vec(kt, "normal_out", 0, 3)
  dif = sub(pnt, pos)
  rp = lib.make_replay(ctx, kt, LOC + "k_ray_sphere", "ray_sphere", "goal", goal="checks.rayg_c34:goal_vs_mujoco", env={"geomtype": GEOM["sphere"]})
  t = z3.Real("t_ref")
  at = lambda s: add(dif, scl(vec, s))  # ray point relative to the centre
  F = lambda s: dot(at(s), at(s)) - dsq  # surface function
  pins = []
  for p_, v_, d_, tt in [((-3, 0, 0), (1, 0, 0), "1", "1"), ((0, 0, 0), (0, 2, 0), "4", "1/2"), ((-3, 2, 0), (1, 0, 0), "1", "1"), ((3, 0, 0), (1, 0, 0), "1", "0"), ((-3, "3/5", 0), (2, 0, 0), "1", "1"), ((-3, 1, 0), (1, 0, 0), "1", "3")]:
    pins.append(z3.And(pin_vec(pos, (0, 0, 0)), pin_vec(pnt, p_), pin_vec(vec, v_), dsq == Q(d_), t == Q(tt)))
  pins += [z3.And(pin_vec(pos, (1, -2, "1/2")), pin_vec(pnt, [_fr(a_) + _fr(b_) for a_, b_ in zip(o, (1, -2, "1/2"))]), pin_vec(vec, d), dsq == Q(dd)) for i, o in enumerate(PIN_ORIGINS) for j, d in enumerate(PIN_DIRS) if (i + j) % 3 == 0 for dd in ("1", "4")]
  if len(C.quads) != 1:
    ctx.error(f"ray_sphere calls _ray_quad {len(C.quads)} times (expected once): harness does not apply")
    return
  q = C.quads[0]
  a, b, c = dot(vec, vec), dot(vec, dif), dot(dif, dif) - dsq
  det = q["B"] * q["B"] - q["A"] * q["C"]  # reduced discriminant (coefficients proved equal to the reference ones below)
  names = {"t": t, "dist": x, "det": det, "dist_sqr": dsq}
  pre = [z3.Or(*[v != 0 for v in vec]), dsq > 0]
  P = Proof(ctx, kt.bg + pre, names, rp, pins=pins)
  ctx.reach(P.full, "twin:outside-hit", z3.And(pins[0], x == 2))
  ctx.reach(P.full, "twin:inside-hit", z3.And(pins[1], x == 1))
  ctx.reach(P.full, "twin:miss", z3.And(pins[2], x == -1))
  A, B, Cc = q["A"], q["B"], q["C"]
  P.goal("quadratic/coefficients", z3.And(q["a"] == a, q["b"] == b, q["c"] == c), using=[], desc="ray_sphere: the quadratic solved is not |pnt + x vec - pos|^2 = dist_sqr")
  P.lemma("coef", z3.And(A == a, B == b, Cc == c), using=q["defs"])
  P.lemma("a>0", A > 0, using=pre + ["coef"])
  P.lemma("F=q", F(t) == A * t * t + 2 * B * t + Cc, using=["coef"])
  P.lemma("F(x)=q(x)", F(x) == A * x * x + 2 * B * x + Cc, using=["coef"])
  core_facts = ["a>0", "F=q"] + quad_instances(P, "q", q, t)
  P.lemma("dist-is-sol", x == q["sol"])
  P.goal("range", z3.Or(x == -1, x >= 0), using=["dist-is-sol", "a>0"] + q["facts"], desc="ray_sphere: returns a negative distance other than -1")
  P.lemma("F(x)=0", z3.Implies(x >= 0, F(x) == 0), using=["dist-is-sol", "a>0", "F(x)=q(x)"] + q["facts"])
  P.goal("hit/on-surface", F(x) == 0, x >= 0, using=["F(x)=0"], desc="ray_sphere: returned point pnt + x vec is not on the sphere")
  P.goal("hit/nearest", F(t) != 0, z3.And(x >= 0, t >= 0, t < x), using=core_facts + ["dist-is-sol"], desc="ray_sphere: a surface point with a smaller non-negative parameter exists (not the nearest hit)")
  P.goal("miss/no-surface-point-ahead", F(t) != 0, z3.And(x == -1, t >= 0, z3.Or(det < 0, det >= MINVAL)), using=core_facts + ["dist-is-sol"], desc="ray_sphere: reports a miss although pnt + t vec with t >= 0 is on the sphere (non-grazing ray)")
  P.goal("miss/grazing", x == -1, det < MINVAL, using=["dist-is-sol"] + q["facts"], desc="ray_sphere: discriminant below mjMINVAL (grazing or no intersection) is not a miss")
  # normal
  if len(gi.norms) != 1:
    ctx.error(f"ray_sphere normalises {len(gi.norms)} vectors (expected one)")
    return
  xv, l, nn = gi.norms[0]
  s = at(x)
  P.lemma("normalize-arg", z3.Implies(x >= 0, veq(xv, s)))
  P.lemma("l^2", z3.Implies(x >= 0, l * l == dsq), using=["normalize-arg", "F(x)=0", l * l == dot(xv, xv), z3.Implies(x >= 0, F(x) == dot(s, s) - dsq)])
  P.lemma("l>0", z3.Implies(x >= 0, l > 0), using=["l^2", l >= 0, dsq > 0])
  P.lemma("normal-is-nn", z3.Implies(x >= 0, veq(nrm, nn)))
  P.lemma("nn*l=s", z3.Implies(x >= 0, veq(scl(nn, l), s)), using=["l>0", "normalize-arg", z3.Implies(l > 0, z3.And(veq(scl(nn, l), xv), dot(nn, nn) == 1))])
  P.goal("normal/unit", dot(nrm, nrm) == 1, x >= 0, using=["normal-is-nn", "l>0", z3.Implies(l > 0, z3.And(veq(scl(nn, l), xv), dot(nn, nn) == 1))], desc="ray_sphere: normal of a hit is not a unit vector")
  P.goal("normal/radial-outward", veq(scl(nrm, l), s), x >= 0, using=["normal-is-nn", "nn*l=s"], desc="ray_sphere: normal is not (hit point - centre) / radius")
  P.goal("normal/radius", z3.And(l > 0, l * l == dsq), x >= 0, using=["l^2", "l>0"], desc="ray_sphere: the normalising length is not the radius")
  P.goal("normal/zero-on-miss", veq(nrm, [0, 0, 0]), x == -1, desc="ray_sphere: a miss does not return the zero normal")


# ------------------------------------------------------------------------------------------------ shared steps


def rot_norm_lemmas(P, M, u, Mu, tag, rot):
  """|M u|^2 = |u|^2 for a rotation (uses M^T M = I); Mu = the code's M @ u"""
  H = [[z3.Real(f"H{tag}{i}{j}") for j in range(3)] for i in range(3)]
  hdef = [H[i][j] == dot(col(M, i), col(M, j)) for i in range(3) for j in range(3)]
  P.assume(*hdef)
  P.lemma(f"{tag}/H=I", z3.And(*[H[i][j] == (1 if i == j else 0) for i in range(3) for j in range(3)]), using=rot + hdef)
  P.lemma(f"{tag}/bilinear", dot(mv(M, u), mv(M, u)) == sum(u[i] * u[j] * H[i][j] for i in range(3) for j in range(3)), using=hdef)
  P.lemma(f"{tag}/norm", dot(mv(M, u), mv(M, u)) == dot(u, u), using=[f"{tag}/bilinear", f"{tag}/H=I"])
  return f"{tag}/norm"


def local_setup(ctx, kname, fkey_summ, geomname):
  """run wrapper `kname` with the contracts; -> (kt, gi, C, dict of common terms) or None"""
  C = Contracts()
  kt, gi = run_wrapper(kname, {"dist_out": [1], "normal_out": [1]} if kname != "k_ray_box" else {"dist_out": [1], "all_out": [1], "normal_out": [1]}, summaries=fkey_summ(C))
  if len(C.maps) != 1:
    ctx.error(f"{geomname} calls _ray_map {len(C.maps)} times (expected once)")
    return None
  T = {"size": vec_arg(kt, "size"), "M": mat_arg(kt, "mat"), "pos": vec_arg(kt, "pos"), "pnt": vec_arg(kt, "pnt"), "vec": vec_arg(kt, "vec")}
  T["x"], T["nrm"] = R(kt.post("dist_out", 0)), out_vec(kt, "normal_out", 0, 3)
  T["lp"], T["lv"] = C.maps[0]["lp"], C.maps[0]["lv"]
  return kt, gi, C, T


def world_pins(T, mp, lp_, lv_, rot=0, pos_=(0, 0, 0)):
  """pin the local ray (lp_, lv_) together with a pose (rotation ROT_PINS[rot], position pos_) and the world ray that maps to
  it: pnt = pos + M lp, vec = M lv  (exact rationals; consistent with the _ray_map contract, so the model is replayable)"""
  from fractions import Fraction as Fr

  Mv = [[Fr(str(ROT_PINS[rot][3 * i + j])) for j in range(3)] for i in range(3)]
  lpf, lvf, pf = [Fr(str(v)) for v in lp_], [Fr(str(v)) for v in lv_], [Fr(str(v)) for v in pos_]
  pnt_ = [pf[i] + sum(Mv[i][j] * lpf[j] for j in range(3)) for i in range(3)]
  vec_ = [sum(Mv[i][j] * lvf[j] for j in range(3)) for i in range(3)]
  return z3.And(pin_mat(T["M"], ROT_PINS[rot]), pin_vec(T["pos"], pf), pin_vec(T["pnt"], pnt_), pin_vec(T["vec"], vec_), pin_vec(T["lp"], lpf), pin_vec(T["lv"], lvf))


def _fr(v):
  from fractions import Fraction

  return Fraction(str(v))


PIN_ORIGINS = [(-3, 0, 0), (0, 0, 0), (-3, 3, 0), (0, 0, 3), ("1/2", "1/4", -3), (-2, -2, -2), ("3/2", 0, "1/4"), (0, -3, "1/2"), ("1/4", "1/4", "1/4"), (0, "5/2", "3/2"), (-3, 0, "3/2"), ("1/2", 0, 3)]
PIN_DIRS = [(1, 0, 0), (0, 1, 0), (0, 0, -1), (0, 0, 1), (1, 1, 0), (1, 0, -1), (2, 1, 0), (1, 1, 1), (-1, -1, -1), (0, -1, -1), (1, 0, "-1/2"), (0, 2, -1), (-1, 0, -2), (3, -3, 0)]


def ray_pins(T, mp, sizes, extra=()):
  """deterministic family of fully pinned inputs (sizes x local rays x poses) for the counterexample search"""
  out = []
  k = 0
  for sz in sizes:
    for i, o in enumerate(PIN_ORIGINS):
      for j, d in enumerate(PIN_DIRS):
        if (i + j + k) % 2:
          continue
        out.append(z3.And(pin_vec(T["size"], sz), world_pins(T, mp, o, d, rot=(i + j) % len(ROT_PINS), pos_=(0, 0, 0) if (i + j) % 2 else (1, -2, "1/2"))))
    k += 1
  return list(extra) + out


def rotated_normal(P, ctx, kt, gi, T, name):
  """the returned normal of a hit is mat @ (local normal); -> the local normal vector (the code's value) or None"""
  if len(gi.matvecs) != 1:
    ctx.error(f"{name}: {len(gi.matvecs)} matrix-vector products (expected one: mat @ normal)")
    return None
  Mm, nl, mres = gi.matvecs[0]
  defs = []
  for o in mres:
    defs += side_facts(kt, o)
  P.lemma("normal/product", veq(mres, mv(T["M"], nl)), using=defs, nl_first=False)
  P.lemma("normal/is-product", z3.Implies(T["x"] >= 0, veq(T["nrm"], mres)))
  P.goal("normal/rotated-local-normal", veq(T["nrm"], mv(T["M"], nl)), T["x"] >= 0, using=["normal/product", "normal/is-product"], desc=f"{name}: normal of a hit is not mat @ (local normal)")
  return nl


def goal_map_args(P, T, mp, name):
  P.goal("map/arguments", z3.And(veq(mp["pos"], T["pos"]), veq(mp["pnt"], T["pnt"]), veq(mp["vec"], T["vec"]), *[veq(mp["M"][i], T["M"][i]) for i in range(3)]), using=[], desc=f"{name}: _ray_map is not called with (pos, mat, pnt, vec)")


# ------------------------------------------------------------------------------------------------ ray_ellipsoid


def unit_ellipsoid(ctx):
  from mujoco_warp._src import math as mjmath
  from mujoco_warp._src import ray

  ctx.encode(ray.ray_ellipsoid, mjmath.safe_div)
  ctx.bound(note="no loops; pose, radii, ray symbolic; _ray_map / _ray_quad used through their proved contracts")
  ctx.assume("radii > 0", "ray direction is not the zero vector", "mat is a rotation matrix", "floats are reals; division / normalize by their defining equations")
  r_ = local_setup(ctx, "k_ray_ellipsoid", lambda C: {ray._ray_map.key: C.ray_map, ray._ray_quad.key: C.ray_quad}, "ray_ellipsoid")
  if r_ is None:
    return
  kt, gi, C, T = r_
  size, M, lp, lv, x, nrm, vec = T["size"], T["M"], T["lp"], T["lv"], T["x"], T["nrm"], T["vec"]
  rp = lib.make_replay(ctx, kt, LOC + "k_ray_ellipsoid", "ray_ellipsoid", "goal", goal="checks.rayg_c34:goal_vs_mujoco", env={"geomtype": GEOM["ellipsoid"]})
  divs = fresh_syms(kt, "div!")
  if len(divs) != 3 or len(C.quads) != 1 or len(gi.norms) != 1:
    ctx.error(f"ray_ellipsoid: {len(divs)} divisions, {len(C.quads)} quadratics, {len(gi.norms)} normalisations (expected 3, 1, 1)")
    return
  S = divs  # inverse squared radii
  q = C.quads[0]
  t = z3.Real("t_ref")
  at = lambda s_: add(lp, scl(lv, s_))
  E = lambda s_: sum(S[i] * at(s_)[i] * at(s_)[i] for i in range(3)) - 1  # surface function sum (l_i / size_i)^2 - 1
  a = sum(S[i] * lv[i] * lv[i] for i in range(3))
  b = sum(S[i] * lv[i] * lp[i] for i in range(3))
  c = sum(S[i] * lp[i] * lp[i] for i in range(3)) - 1
  det = q["B"] * q["B"] - q["A"] * q["C"]  # reduced discriminant (coefficients proved equal to the reference ones below)
  rot = rotation(M)
  pre = [z3.Or(*[v != 0 for v in vec])] + [sz > 0 for sz in size] + rot
  pins = []
  for sz, p_, v_, tt, ss in [((1, 2, 1), (-3, 0, 0), (1, 0, 0), "1", (1, "1/4", 1)), ((1, 2, 1), (0, 0, 0), (0, 1, 0), "1", (1, "1/4", 1)), ((1, 2, 1), (-3, 3, 0), (1, 0, 0), "1", (1, "1/4", 1)), (("1/2", 1, 2), (0, 0, 5), (0, 0, -1), "2", (4, 1, "1/4"))]:
    pins.append(z3.And(pin_vec(size, sz), world_pins(T, C.maps[0], p_, v_), t == Q(tt), pin_vec(S, ss)))
  pins += [z3.And(pn, pin_vec(S, ss)) for szs, ss in (((1, 2, 1), (1, "1/4", 1)), (("1/2", 1, 2), (4, 1, "1/4"))) for pn in ray_pins(T, C.maps[0], [szs])]
  names = {"t": t, "dist": x, "det": det}
  P = Proof(ctx, kt.bg + pre, names, rp, pins=pins)
  ctx.reach(P.full, "twin:outside-hit", z3.And(pins[0], x == 2))
  ctx.reach(P.full, "twin:inside-hit", z3.And(pins[1], x == 2))
  ctx.reach(P.full, "twin:miss", z3.And(pins[2], x == -1))
  goal_map_args(P, T, C.maps[0], "ray_ellipsoid")
  for i in range(3):
    P.lemma(f"S{i}", z3.And(S[i] * size[i] * size[i] == 1, S[i] > 0), using=side_facts(kt, S[i]) + [size[i] > 0])
  P.goal("inverse-radii", z3.And(*[S[i] * size[i] * size[i] == 1 for i in range(3)]), using=["S0", "S1", "S2"], desc="ray_ellipsoid: scale factors are not 1 / size^2")
  P.lemma("lv.lv>0", dot(lv, lv) > 0, using=[C.maps[0]["facts"][0], pre[0]])
  A, B, Cc = q["A"], q["B"], q["C"]
  P.goal("quadratic/coefficients", z3.And(q["a"] == a, q["b"] == b, q["c"] == c), using=[], desc="ray_ellipsoid: the quadratic solved is not sum ((lpnt_i + x lvec_i) / size_i)^2 = 1")
  P.lemma("coef", z3.And(A == a, B == b, Cc == c), using=q["defs"])
  P.lemma("a>0", A > 0, using=["lv.lv>0", "S0", "S1", "S2", "coef"])
  P.lemma("E=q", E(t) == A * t * t + 2 * B * t + Cc, using=["coef"])
  P.lemma("E(x)=q(x)", E(x) == A * x * x + 2 * B * x + Cc, using=["coef"])
  core_facts = ["a>0", "E=q"] + quad_instances(P, "q", q, t)
  P.lemma("dist-is-sol", x == q["sol"])
  P.goal("range", z3.Or(x == -1, x >= 0), using=["dist-is-sol", "a>0"] + q["facts"], desc="ray_ellipsoid: returns a negative distance other than -1")
  P.lemma("E(x)=0", z3.Implies(x >= 0, E(x) == 0), using=["dist-is-sol", "a>0", "E(x)=q(x)"] + q["facts"])
  P.goal("hit/on-surface", E(x) == 0, x >= 0, using=["E(x)=0"], desc="ray_ellipsoid: returned point is not on the ellipsoid")
  P.goal("hit/nearest", E(t) != 0, z3.And(x >= 0, t >= 0, t < x), using=core_facts + ["dist-is-sol"], desc="ray_ellipsoid: a surface point with a smaller non-negative parameter exists")
  P.goal("miss/no-surface-point-ahead", E(t) != 0, z3.And(x == -1, t >= 0, z3.Or(det < 0, det >= MINVAL)), using=core_facts + ["dist-is-sol"], desc="ray_ellipsoid: reports a miss although a point pnt + t vec, t >= 0, is on the ellipsoid (non-grazing ray)")
  P.goal("miss/grazing", x == -1, det < MINVAL, using=["dist-is-sol"] + q["facts"], desc="ray_ellipsoid: discriminant below mjMINVAL is not a miss")
  # normal = mat @ normalize(gradient)
  xv, l, nn = gi.norms[0]
  hp = at(x)
  grad = [S[i] * hp[i] for i in range(3)]  # half the gradient of the ellipsoid function: outward
  P.lemma("normalize-arg", z3.Implies(x >= 0, veq(xv, grad)))
  g_ = [z3.Real(f"grad_{i}") for i in range(3)]
  h_ = [z3.Real(f"hit_{i}") for i in range(3)]
  P.assume(veq(g_, grad), veq(h_, hp))
  small = [veq(g_, [S[i] * h_[i] for i in range(3)]), z3.Implies(x >= 0, sum(S[i] * h_[i] * h_[i] for i in range(3)) == 1), "S0", "S1", "S2"]
  P.lemma("grad-def", small[0], using=[veq(g_, grad), veq(h_, hp)])
  P.lemma("hit-on-surface", small[1], using=["E(x)=0", veq(h_, hp)])
  P.lemma("grad!=0", z3.Implies(x >= 0, dot(g_, g_) > 0), using=["grad-def", "hit-on-surface", "S0", "S1", "S2"])
  P.lemma("l^2", z3.Implies(x >= 0, l * l == dot(g_, g_)), using=["normalize-arg", l * l == dot(xv, xv), veq(g_, grad)])
  P.lemma("l>0", z3.Implies(x >= 0, l > 0), using=["l^2", "grad!=0", l >= 0])
  ncon = z3.Implies(l > 0, z3.And(veq(scl(nn, l), xv), dot(nn, nn) == 1))
  P.lemma("nn-unit", z3.Implies(x >= 0, dot(nn, nn) == 1), using=["l>0", ncon])
  P.lemma("nn*l=grad", z3.Implies(x >= 0, veq(scl(nn, l), grad)), using=["l>0", ncon, "normalize-arg"])
  nl = rotated_normal(P, ctx, kt, gi, T, "ray_ellipsoid")
  if nl is None:
    return
  P.goal("normal/local-is-normalised-gradient", veq(nl, nn), x >= 0, desc="ray_ellipsoid: local normal is not the normalised local gradient")
  P.goal("normal/local-along-gradient", z3.And(l > 0, veq(scl(nn, l), grad)), x >= 0, using=["l>0", "nn*l=grad"], desc="ray_ellipsoid: local normal is not the outward gradient direction (l_i / size_i^2) at the hit point")
  P.lemma("nl=nn", z3.Implies(x >= 0, veq(nl, nn)))
  P.lemma("nrm=M nn", z3.Implies(x >= 0, veq(nrm, mv(M, nn))), using=["nl=nn", "normal/product", "normal/is-product"])
  nk = rot_norm_lemmas(P, M, nn, nrm, "rn", rot)
  P.goal("normal/unit", dot(nrm, nrm) == 1, x >= 0, using=["nrm=M nn", nk, "nn-unit"], desc="ray_ellipsoid: normal of a hit is not a unit vector")
  P.goal("normal/zero-on-miss", veq(nrm, [0, 0, 0]), x == -1, desc="ray_ellipsoid: a miss does not return the zero normal")


# ------------------------------------------------------------------------------------------------ bounding-sphere pre-test


def zabs_le(v, bound):
  return z3.And(v <= bound, v >= -bound)


def bounding_sphere_lemmas(P, sp, mp, T, t, R2, name):
  """the pre-test `ray_sphere(pos, R2, pnt, vec) < 0 => miss` never rejects a non-grazing ray that reaches, at t >= 0, a point
  l(t) = lp + t lv with |l(t)|^2 <= R2.   -> (lemma name, QT, nongrazing) where QT names |l(t)|^2 - R2"""
  lp, lv = T["lp"], T["lv"]
  lt = add(lp, scl(lv, t))
  A, B, C, x0, x1 = sp["A"], sp["B"], sp["C"], sp["x0"], sp["x1"]
  det = B * B - A * C
  args_ok = z3.And(veq(sp["pos"], T["pos"]), veq(sp["pnt"], T["pnt"]), veq(sp["vec"], T["vec"]), sp["dsq"] == R2)
  P.goal("bounding-sphere/arguments", args_ok, using=[], desc=f"{name}: bounding-sphere pre-test is not ray_sphere(pos, (bounding radius)^2, pnt, vec)")
  P.lemma("bs/args", args_ok, using=[])
  P.lemma("map/args", z3.And(veq(mp["pos"], T["pos"]), veq(mp["pnt"], T["pnt"]), veq(mp["vec"], T["vec"])), using=[])
  # world coefficients = local ones (rotation facts of the _ray_map contract)
  P.lemma("bs/coef", z3.And(A == dot(lv, lv), B == dot(lv, lp), C == dot(lp, lp) - R2), using=sp["defs"] + mp["facts"] + ["bs/args", "map/args"], nl_first=False)
  QT = z3.Real("QT")
  P.assume(QT == dot(lt, lt) - R2)
  P.lemma("bs/q(t)", QT == A * t * t + 2 * B * t + C, using=["bs/coef", QT == dot(lt, lt) - R2])
  P.lemma("bs/a>0", A > 0, using=["bs/coef", "lv.lv>0"])
  P.lemma("bs/complete-square", A * QT == (A * t + B) * (A * t + B) - det, using=["bs/q(t)"])
  P.lemma("bs/det<0", z3.Implies(z3.And(det < 0, QT <= 0), False), using=["bs/complete-square", "bs/a>0"])
  P.lemma("bs/factor", z3.Implies(det >= MINVAL, QT == A * (t - x0) * (t - x1)), using=["bs/q(t)", "bs/a>0"] + sp["facts"])
  P.lemma("bs/between", z3.Implies(z3.And(det >= MINVAL, QT <= 0), (t - x0) * (t - x1) <= 0), using=["bs/factor", "bs/a>0"])
  P.lemma("bs/x1>=t", z3.Implies(z3.And(det >= MINVAL, QT <= 0), x1 >= t), using=["bs/between", "bs/a>0"] + sp["facts"])
  nongrazing = z3.Or(det < 0, det >= MINVAL)
  P.lemma("bs/passes", z3.Implies(z3.And(QT <= 0, t >= 0, nongrazing), sp["sol"] >= 0), using=["bs/det<0", "bs/x1>=t", "bs/a>0"] + sp["facts"])
  return "bs/passes", QT, nongrazing


# ------------------------------------------------------------------------------------------------ ray_box


def unit_box(ctx):
  from mujoco_warp._src import ray

  ctx.encode(ray.ray_box)
  ctx.bound(note="3 axes x 2 sides (concrete loops); pose, half sizes, ray symbolic; _ray_map / ray_sphere used through their proved contracts")
  ctx.assume(
    "half sizes > 0",
    "ray direction is not the zero vector",
    "mat is a rotation matrix (through the _ray_map contract)",
    "completeness statements for non-degenerate rays: every local direction component is 0 or exceeds mjMINVAL in magnitude, the ray does not slide inside a face plane, the bounding-sphere discriminant is not in [0, mjMINVAL)",
    "floats are reals; division by its defining equation",
  )
  r_ = local_setup(ctx, "k_ray_box", lambda C: {ray._ray_map.key: C.ray_map, ray.ray_sphere.key: C.ray_sphere}, "ray_box")
  if r_ is None:
    return
  kt, gi, C, T = r_
  size, M, lp, lv, x, nrm, vec = T["size"], T["M"], T["lp"], T["lv"], T["x"], T["nrm"], T["vec"]
  rp = lib.make_replay(ctx, kt, LOC + "k_ray_box", "ray_box", "goal", goal="checks.rayg_c34:goal_vs_mujoco", env={"geomtype": GEOM["box"]})
  divs = fresh_syms(kt, "div!")
  if len(divs) != 6 or len(C.spheres) != 1:
    ctx.error(f"ray_box: {len(divs)} divisions, {len(C.spheres)} bounding-sphere tests (expected 6, 1)")
    return
  mp, sp = C.maps[0], C.spheres[0]
  t = z3.Real("t_ref")
  at = lambda s_: add(lp, scl(lv, s_))
  inside = lambda l: z3.And(*[zabs_le(l[i], size[i]) for i in range(3)])
  onface = lambda l: z3.Or(*[z3.Or(l[i] == size[i], l[i] == -size[i]) for i in range(3)])
  surf = lambda s_: z3.And(inside(at(s_)), onface(at(s_)))
  R2 = dot(size, size)
  pre = [z3.Or(*[v != 0 for v in vec])] + [sz > 0 for sz in size]
  generic = z3.And(*[z3.Or(lv[i] > MINVAL, lv[i] < -MINVAL, z3.And(lv[i] == 0, lp[i] != size[i], lp[i] != -size[i])) for i in range(3)])
  pins = []
  for sz, p_, v_, tt in [((1, 2, 1), (-3, 0, 0), (1, 0, 0), "1"), ((1, 2, 1), (0, 0, 0), (0, 1, 0), "1"), ((1, 2, 1), (-3, 3, 0), (1, 0, 0), "1"), ((1, 1, 1), (-3, -2, 0), (2, 1, 0), "1"), ((1, 2, "1/2"), (0, 0, 3), (0, "1/2", -1), "1"), ((1, 1, 1), (0, 0, 3), (0, 0, 1), "1")]:
    pins.append(z3.And(pin_vec(size, sz), world_pins(T, mp, p_, v_), t == Q(tt)))
  pins += ray_pins(T, mp, [(1, 2, 1), (1, 1, '1/2')])
  names = {"t": t, "dist": x}
  P = Proof(ctx, kt.bg + pre, names, rp, pins=pins)
  ctx.reach(P.full, "twin:outside-hit", z3.And(pins[0], x == 2))
  ctx.reach(P.full, "twin:inside-hit", z3.And(pins[1], x == 2))
  ctx.reach(P.full, "twin:miss", z3.And(pins[2], x == -1))
  ctx.reach(P.full, "twin:oblique-hit", z3.And(pins[3], x == 1))
  goal_map_args(P, T, mp, "ray_box")
  P.lemma("lv.lv>0", dot(lv, lv) > 0, using=[mp["facts"][0], pre[0]])
  # candidate k = (axis i, side): parameter d_k (the code's quotient), acceptance acc_k as the code tests it
  faces = []
  for i in range(3):
    for j, side in enumerate((-1, 1)):
      d = divs[2 * i + j]
      i0, i1 = (1 if i == 0 else 0), (1 if i == 2 else 2)
      tag = f"face{i}{'+' if side > 0 else '-'}"
      steep = z3.Or(lv[i] > MINVAL, lv[i] < -MINVAL)
      acc = z3.And(steep, d >= 0, zabs_le(lp[i0] + d * lv[i0], size[i0]), zabs_le(lp[i1] + d * lv[i1], size[i1]))
      faces.append({"i": i, "side": side, "d": d, "i0": i0, "i1": i1, "tag": tag, "acc": acc, "steep": steep})
      P.lemma(f"{tag}/def", z3.Implies(lv[i] != 0, d * lv[i] == side * size[i] - lp[i]), using=side_facts(kt, d))
      P.lemma(f"{tag}/unique", z3.Implies(z3.And(lv[i] != 0, lp[i] + t * lv[i] == side * size[i]), t == d), using=[f"{tag}/def"])
  # the code's result in terms of the candidates (pure case analysis of the real expression)
  passes = sp["sol"] >= 0
  spec = z3.And(
    z3.Implies(z3.Not(passes), x == -1),
    z3.Implies(passes, z3.Or(z3.And(x == -1, *[z3.Not(f["acc"]) for f in faces]), z3.And(x >= 0, z3.Or(*[z3.And(f["acc"], x == f["d"]) for f in faces]), *[z3.Implies(f["acc"], x <= f["d"]) for f in faces]))),
  )
  P.lemma("x-is-min-accepted-candidate", spec, using=[], nl_first=False)
  P.goal("range", z3.Or(x == -1, x >= 0), using=["x-is-min-accepted-candidate"], desc="ray_box: returns a negative distance other than -1")
  # (A) accepted candidate => surface point
  for f in faces:
    i, side, d = f["i"], f["side"], f["d"]
    P.lemma(f"{f['tag']}/accepted-on-surface", z3.Implies(z3.And(f["acc"], x == d), surf(x)), using=[f"{f['tag']}/def"] + pre[1:])
  P.goal("hit/on-surface", surf(x), x >= 0, using=["x-is-min-accepted-candidate"] + [f"{f['tag']}/accepted-on-surface" for f in faces], desc="ray_box: returned point is not on the box surface")
  # (B, C) surface point at t >= 0 => it is an accepted candidate
  for f in faces:
    i, side, d = f["i"], f["side"], f["d"]
    onk = z3.And(at(t)[i] == side * size[i], inside(at(t)), t >= 0, generic)
    P.lemma(f"{f['tag']}/surface-point-is-candidate", z3.Implies(onk, z3.And(f["acc"], d == t)), using=[f"{f['tag']}/unique"])
  cand = [f"{f['tag']}/surface-point-is-candidate" for f in faces]
  P.lemma("surface-point-is-some-candidate", z3.Implies(z3.And(surf(t), t >= 0, generic), z3.Or(*[z3.And(f["acc"], f["d"] == t) for f in faces])), using=cand)
  P.lemma("nearest", z3.Implies(z3.And(x >= 0, t >= 0, t < x, generic), z3.Not(surf(t))), using=["surface-point-is-some-candidate", "x-is-min-accepted-candidate"], nl_first=False)
  P.goal("hit/nearest", z3.Not(surf(t)), z3.And(x >= 0, t >= 0, t < x, generic), using=["nearest"], desc="ray_box: a surface point with a smaller non-negative parameter exists (non-degenerate ray)")
  # bounding sphere
  lt = [z3.Real(f"lt_{i}") for i in range(3)]
  P.assume(veq(lt, at(t)))
  P.lemma("in-ball/components", z3.Implies(inside(lt), z3.And(*[lt[i] * lt[i] <= size[i] * size[i] for i in range(3)])), using=pre[1:])
  bs, QT, nongrazing = bounding_sphere_lemmas(P, sp, mp, T, t, R2, "ray_box")
  P.lemma("in-ball", z3.Implies(inside(at(t)), QT <= 0), using=["in-ball/components", veq(lt, at(t)), QT == dot(at(t), at(t)) - R2])
  P.lemma("pretest-passes", z3.Implies(z3.And(surf(t), t >= 0, nongrazing), passes), using=[bs, "in-ball"])
  P.goal("miss/no-surface-point-ahead", z3.Not(surf(t)), z3.And(x == -1, t >= 0, generic, nongrazing), using=["pretest-passes", "surface-point-is-some-candidate", "x-is-min-accepted-candidate"], desc="ray_box: reports a miss although a point pnt + t vec, t >= 0, is on the box surface (non-degenerate ray)")
  # normal = mat @ (local face normal)
  hp = at(x)
  nl = rotated_normal(P, ctx, kt, gi, T, "ray_box")
  if nl is None:
    return
  unit = lambda i, side: [side if k == i else 0 for k in range(3)]
  sel = z3.Or(*[z3.And(f["acc"], x == f["d"], veq(nl, unit(f["i"], f["side"]))) for f in faces])
  P.lemma("local-normal-of-selected-candidate", z3.Implies(x >= 0, sel), using=[], nl_first=False)
  for f in faces:
    i, side, d = f["i"], f["side"], f["d"]
    P.lemma(f"{f['tag']}/normal", z3.Implies(z3.And(f["acc"], x == d), hp[i] == side * size[i]), using=[f"{f['tag']}/def"])
  cases = [z3.And(veq(nl, unit(i, side)), hp[i] == side * size[i]) for i in range(3) for side in (-1, 1)]
  P.goal("normal/outward-face-normal", z3.Or(*cases), x >= 0, using=["local-normal-of-selected-candidate"] + [f"{f['tag']}/normal" for f in faces], desc="ray_box: local normal is not +/- the unit axis of a face that contains the hit point, pointing outward")
  P.goal("normal/zero-on-miss", veq(nrm, [0, 0, 0]), x == -1, desc="ray_box: a miss does not return the zero normal")


# ------------------------------------------------------------------------------------------------ ray_cylinder


def min_accepted(x, passes, cands):
  """x = -1 if the pre-test fails or no candidate is accepted, else the smallest accepted candidate parameter"""
  return z3.And(
    z3.Implies(z3.Not(passes), x == -1),
    z3.Implies(passes, z3.Or(z3.And(x == -1, *[z3.Not(a) for a, d in cands]), z3.And(x >= 0, z3.Or(*[z3.And(a, x == d) for a, d in cands]), *[z3.Implies(a, x <= d) for a, d in cands]))),
  )


def unit_cylinder(ctx):
  from mujoco_warp._src import ray

  ctx.encode(ray.ray_cylinder)
  ctx.bound(note="2 flat sides (concrete loop) + round side; pose, radius, half height, ray symbolic; _ray_map / _ray_quad / ray_sphere used through their proved contracts")
  ctx.assume(
    "radius > 0, half height > 0",
    "ray direction is not the zero vector",
    "mat is a rotation matrix (through the _ray_map contract)",
    "completeness statements for non-degenerate rays: axial direction component 0 (and then not inside a cap plane) or beyond mjMINVAL; radial quadratic not grazing (discriminant not in [0, mjMINVAL)) or the ray is parallel to the axis and not on the round surface; bounding-sphere discriminant not in [0, mjMINVAL)",
    "floats are reals; division / normalize by their defining equations",
  )
  r_ = local_setup(ctx, "k_ray_cylinder", lambda C: {ray._ray_map.key: C.ray_map, ray.ray_sphere.key: C.ray_sphere, ray._ray_quad.key: C.ray_quad}, "ray_cylinder")
  if r_ is None:
    return
  kt, gi, C, T = r_
  size, M, lp, lv, x, nrm, vec = T["size"], T["M"], T["lp"], T["lv"], T["x"], T["nrm"], T["vec"]
  rp = lib.make_replay(ctx, kt, LOC + "k_ray_cylinder", "ray_cylinder", "goal", goal="checks.rayg_c34:goal_vs_mujoco", env={"geomtype": GEOM["cylinder"]})
  divs = fresh_syms(kt, "div!")
  if len(divs) != 2 or len(C.spheres) != 1 or len(C.quads) != 1 or len(gi.norms) != 1:
    ctx.error(f"ray_cylinder: {len(divs)} divisions, {len(C.spheres)} bounding-sphere tests, {len(C.quads)} quadratics, {len(gi.norms)} normalisations (expected 2, 1, 1, 1)")
    return
  mp, sp, q = C.maps[0], C.spheres[0], C.quads[0]
  r, h = size[0], size[1]
  t = z3.Real("t_ref")
  at = lambda s_: add(lp, scl(lv, s_))
  rad = lambda s_: at(s_)[0] * at(s_)[0] + at(s_)[1] * at(s_)[1] - r * r  # radial function: 0 on the round side
  zc = lambda s_: at(s_)[2]
  surf = lambda s_: z3.Or(z3.And(rad(s_) == 0, zabs_le(zc(s_), h)), z3.And(z3.Or(zc(s_) == h, zc(s_) == -h), rad(s_) <= 0))
  R2 = r * r + h * h
  A, B, Cc, x0, x1, qsol = q["A"], q["B"], q["C"], q["x0"], q["x1"], q["sol"]
  det = B * B - A * Cc
  a_ref, b_ref, c_ref = lv[0] * lv[0] + lv[1] * lv[1], lv[0] * lp[0] + lv[1] * lp[1], lp[0] * lp[0] + lp[1] * lp[1] - r * r
  pre = [z3.Or(*[v != 0 for v in vec]), r > 0, h > 0]
  steep = z3.Or(lv[2] > MINVAL, lv[2] < -MINVAL)
  generic = z3.And(z3.Or(steep, z3.And(lv[2] == 0, lp[2] != h, lp[2] != -h)), z3.Or(z3.And(A == 0, Cc != 0), z3.And(A > 0, z3.Or(det < 0, det >= MINVAL))))
  pins = []
  for sz, p_, v_, tt in [((1, 2, 0), (-3, 0, 0), (1, 0, 0), "1"), ((1, 2, 0), (0, 0, 0), (0, 0, 1), "1"), ((1, 2, 0), (-3, 3, 0), (1, 0, 0), "1"), ((1, 1, 0), (0, 0, 3), (0, 0, -1), "1"), ((1, 1, 0), (-2, 0, 2), (1, 0, -1), "1"), ((1, 1, 0), ("-1/2", 0, 3), (1, 0, -2), "1")]:
    pins.append(z3.And(pin_vec(size, sz), world_pins(T, mp, p_, v_), t == Q(tt)))
  pins += ray_pins(T, mp, [(1, 2, 0), (1, '1/2', 0)])
  names = {"t": t, "dist": x, "radial_det": det}
  P = Proof(ctx, kt.bg + pre, names, rp, pins=pins)
  ctx.reach(P.full, "twin:round-hit", z3.And(pins[0], x == 2))
  ctx.reach(P.full, "twin:inside-hit-cap", z3.And(pins[1], x == 2))
  ctx.reach(P.full, "twin:miss", z3.And(pins[2], x == -1))
  ctx.reach(P.full, "twin:cap-hit", z3.And(pins[3], x == 2))
  ctx.reach(P.full, "twin:enters-above-leaves-through-round-side", z3.And(pins[5], x == 1))
  goal_map_args(P, T, mp, "ray_cylinder")
  P.lemma("lv.lv>0", dot(lv, lv) > 0, using=[mp["facts"][0], pre[0]])
  P.goal("quadratic/coefficients", z3.And(q["a"] == a_ref, q["b"] == b_ref, q["c"] == c_ref), using=[], desc="ray_cylinder: the quadratic solved is not (lpnt_x + x lvec_x)^2 + (lpnt_y + x lvec_y)^2 = radius^2")
  P.lemma("coef", z3.And(A == a_ref, B == b_ref, Cc == c_ref), using=q["defs"])
  P.lemma("rad=q", rad(t) == A * t * t + 2 * B * t + Cc, using=["coef"])
  P.lemma("A>=0", A >= 0, using=["coef"])
  P.lemma("A=0=>no-roots-reported", z3.Implies(A == 0, det < MINVAL), using=["coef"])
  qfacts = quad_instances(P, "q", q, t)
  # candidates
  cands = []
  for j, side in enumerate((-1, 1)):
    d = divs[j]
    tag = f"flat{'+' if side > 0 else '-'}"
    pr = (lp[0] + d * lv[0]) * (lp[0] + d * lv[0]) + (lp[1] + d * lv[1]) * (lp[1] + d * lv[1])
    accdef = z3.And(steep, d >= 0, pr <= r * r)
    acc = z3.Bool(f"accepted_{tag}")
    P.assume(acc == accdef)
    cands.append({"tag": tag, "side": side, "d": d, "acc": acc, "def": acc == accdef})
    P.lemma(f"{tag}/def", z3.Implies(lv[2] != 0, d * lv[2] == side * h - lp[2]), using=side_facts(kt, d))
    P.lemma(f"{tag}/unique", z3.Implies(z3.And(lv[2] != 0, zc(t) == side * h), t == d), using=[f"{tag}/def"])
    P.lemma(f"{tag}/rad", rad(d) == A * d * d + 2 * B * d + Cc, using=["coef"])
  acc_r = z3.Bool("accepted_round")
  accr_def = acc_r == z3.And(qsol >= 0, zabs_le(lp[2] + qsol * lv[2], h))
  P.assume(accr_def)
  passes = sp["sol"] >= 0
  allc = [(c["acc"], c["d"]) for c in cands] + [(acc_r, qsol)]
  alldefs = [c["def"] for c in cands] + [accr_def]
  P.lemma("x-is-min-accepted-candidate", min_accepted(x, passes, allc), using=alldefs, nl_first=False)
  P.goal("range", z3.Or(x == -1, x >= 0), using=["x-is-min-accepted-candidate"], desc="ray_cylinder: returns a negative distance other than -1")
  # (A) accepted => on the surface
  for c in cands:
    P.lemma(f"{c['tag']}/accepted-on-surface", z3.Implies(z3.And(c["acc"], x == c["d"]), surf(x)), using=[f"{c['tag']}/def", c["def"]], nl_first=False)
  P.lemma("round/root", z3.Implies(qsol >= 0, A * qsol * qsol + 2 * B * qsol + Cc == 0), using=["A>=0", "A=0=>no-roots-reported"] + q["facts"])
  P.lemma("round/rad", rad(x) == A * x * x + 2 * B * x + Cc, using=["coef"])
  P.lemma("round/accepted-on-surface", z3.Implies(z3.And(acc_r, x == qsol), surf(x)), using=["round/root", "round/rad", accr_def])
  P.goal("hit/on-surface", surf(x), x >= 0, using=["x-is-min-accepted-candidate", "round/accepted-on-surface"] + [f"{c['tag']}/accepted-on-surface" for c in cands], desc="ray_cylinder: returned point is not on the cylinder surface")
  # (B, C) a surface point at t >= 0 => some accepted candidate has a parameter <= t
  some = z3.Or(*[z3.And(a, d <= t) for a, d in allc])
  for c in cands:
    onk = z3.And(zc(t) == c["side"] * h, rad(t) <= 0, t >= 0, generic)
    P.lemma(f"{c['tag']}/surface-point-is-candidate", z3.Implies(onk, z3.And(c["acc"], c["d"] == t)), using=[f"{c['tag']}/unique", c["def"]], nl_first=False)
  onr = z3.And(rad(t) == 0, zabs_le(zc(t), h), t >= 0, generic)
  P.lemma("round/A>0", z3.Implies(onr, z3.And(A > 0, det >= MINVAL)), using=["rad=q", "A>=0", "q/no-root-if-det<0", "coef"])
  P.lemma("round/t-is-root", z3.Implies(onr, z3.Or(t == x0, t == x1)), using=["round/A>0", "rad=q", "q/factor"])
  ordered = z3.Implies(z3.And(A > 0, det >= MINVAL), z3.And(x0 < x1, qsol == z3.If(x0 >= 0, x0, z3.If(x1 >= 0, x1, -1))))
  P.lemma("round/ordered", ordered, using=q["facts"])
  z0 = lp[2] + x0 * lv[2]
  P.lemma("round/first-root", z3.Implies(z3.And(onr, z3.Or(t == x0, x0 < 0)), z3.And(acc_r, qsol == t)), using=["round/A>0", "round/t-is-root", "round/ordered", accr_def])
  P.lemma("round/second-root/first-in-slab", z3.Implies(z3.And(onr, t == x1, x0 >= 0, zabs_le(z0, h)), z3.And(acc_r, qsol <= t)), using=["round/A>0", "round/ordered", accr_def])
  for c in cands:
    side, d = c["side"], c["d"]
    above = (z0 > h) if side > 0 else (z0 < -h)
    caseg = z3.And(onr, t == x1, x0 >= 0, above)
    P.lemma(f"round/second-root/{c['tag']}/slope", z3.Implies(caseg, (lv[2] < 0) if side > 0 else (lv[2] > 0)), using=["round/A>0", "round/ordered", (x1 - x0) * lv[2] == (lp[2] + x1 * lv[2]) - z0])
    P.lemma(f"round/second-root/{c['tag']}/between", z3.Implies(caseg, z3.And(d > x0, d <= x1, steep)), using=[f"round/second-root/{c['tag']}/slope", f"{c['tag']}/def", (d - x0) * lv[2] == (d * lv[2] + lp[2]) - z0, (d - x1) * lv[2] == (d * lv[2] + lp[2]) - (lp[2] + x1 * lv[2]), "round/A>0", "round/ordered"])
    P.lemma(f"round/second-root/{c['tag']}/factor", z3.Implies(z3.And(A > 0, det >= MINVAL), A * d * d + 2 * B * d + Cc == A * (d - x0) * (d - x1)), using=q["facts"])
    P.lemma(f"round/second-root/{c['tag']}/inside", z3.Implies(z3.And(A > 0, det >= MINVAL, d >= x0, d <= x1), rad(d) <= 0), using=[f"{c['tag']}/rad", f"round/second-root/{c['tag']}/factor"])
    P.lemma(f"round/second-root/{c['tag']}", z3.Implies(caseg, z3.And(c["acc"], d <= t)), using=[f"round/second-root/{c['tag']}/between", f"round/second-root/{c['tag']}/inside", "round/A>0", c["def"], f"{c['tag']}/rad"])
  P.lemma("round/surface-point-has-candidate", z3.Implies(onr, some), using=["round/t-is-root", "round/first-root", "round/second-root/first-in-slab"] + [f"round/second-root/{c['tag']}" for c in cands], nl_first=False)
  SURF, GEN = z3.Bool("on_surface_at_t"), z3.Bool("non_degenerate")
  sdef, gdef = SURF == surf(t), GEN == generic
  P.assume(sdef, gdef)
  P.lemma("surface-point-has-candidate", z3.Implies(z3.And(SURF, t >= 0, GEN), some), using=["round/surface-point-has-candidate", sdef, gdef] + [f"{c['tag']}/surface-point-is-candidate" for c in cands], nl_first=False)
  P.lemma("nearest", z3.Implies(z3.And(x >= 0, t >= 0, t < x, GEN), z3.Not(SURF)), using=["surface-point-has-candidate", "x-is-min-accepted-candidate"], nl_first=False)
  P.goal("hit/nearest", z3.Not(surf(t)), z3.And(x >= 0, t >= 0, t < x, generic), using=["nearest", sdef, gdef], desc="ray_cylinder: a surface point with a smaller non-negative parameter exists (non-degenerate ray)")
  # bounding sphere
  bs, QT, nongrazing = bounding_sphere_lemmas(P, sp, mp, T, t, R2, "ray_cylinder")
  P.lemma("in-ball", z3.Implies(z3.And(rad(t) <= 0, zabs_le(zc(t), h)), QT <= 0), using=[QT == dot(at(t), at(t)) - R2, pre[2]])
  P.lemma("surface-in-ball", z3.Implies(surf(t), z3.And(rad(t) <= 0, zabs_le(zc(t), h))), using=[pre[2]])
  P.lemma("pretest-passes", z3.Implies(z3.And(SURF, t >= 0, nongrazing), passes), using=[bs, "in-ball", "surface-in-ball", sdef], nl_first=False)
  P.lemma("justified-miss", z3.Implies(z3.And(x == -1, t >= 0, GEN, nongrazing), z3.Not(SURF)), using=["pretest-passes", "surface-point-has-candidate", "x-is-min-accepted-candidate"], nl_first=False)
  P.goal("miss/no-surface-point-ahead", z3.Not(surf(t)), z3.And(x == -1, t >= 0, generic, nongrazing), using=["justified-miss", sdef, gdef], desc="ray_cylinder: reports a miss although a point pnt + t vec, t >= 0, is on the cylinder surface (non-degenerate ray)")
  # normal = mat @ (local normal)
  xv, l, nn = gi.norms[0]
  hp = at(x)
  nl = rotated_normal(P, ctx, kt, gi, T, "ray_cylinder")
  if nl is None:
    return
  flatn = [z3.And(c["acc"], x == c["d"], veq(nl, [0, 0, c["side"]])) for c in cands]
  roundsel = z3.And(acc_r, x == qsol, veq(nl, nn), veq(xv, [hp[0], hp[1], 0]))
  P.lemma("local-normal-of-selected-candidate", z3.Implies(x >= 0, z3.Or(roundsel, *flatn)), using=alldefs, nl_first=False)
  P.lemma("round/l^2", z3.Implies(z3.And(acc_r, x == qsol, veq(xv, [hp[0], hp[1], 0])), l * l == r * r), using=["round/root", "round/rad", l * l == dot(xv, xv), accr_def])
  P.lemma("round/l=r", z3.Implies(z3.And(acc_r, x == qsol, veq(xv, [hp[0], hp[1], 0])), l == r), using=["round/l^2", l >= 0, pre[1]])
  ncon = z3.Implies(l > 0, z3.And(veq(scl(nn, l), xv), dot(nn, nn) == 1))
  P.lemma("round/nn", z3.Implies(z3.And(acc_r, x == qsol, veq(xv, [hp[0], hp[1], 0])), z3.And(veq(scl(nn, r), [hp[0], hp[1], 0]), dot(nn, nn) == 1)), using=["round/l=r", ncon, pre[1]])
  geo_round = z3.And(veq(scl(nl, r), [hp[0], hp[1], 0]), dot(nl, nl) == 1, rad(x) == 0, zabs_le(zc(x), h))
  geo_flat = [z3.And(veq(nl, [0, 0, side]), zc(x) == side * h, rad(x) <= 0) for side in (-1, 1)]
  P.lemma("round/normal", z3.Implies(roundsel, geo_round), using=["round/nn", "round/root", "round/rad", accr_def])
  for c, gf in zip(cands, geo_flat):
    P.lemma(f"{c['tag']}/normal", z3.Implies(z3.And(c["acc"], x == c["d"], veq(nl, [0, 0, c["side"]])), gf), using=[f"{c['tag']}/def", c["def"]], nl_first=False)
  P.goal("normal/outward-surface-normal", z3.Or(geo_round, *geo_flat), x >= 0, using=["local-normal-of-selected-candidate", "round/normal"] + [f"{c['tag']}/normal" for c in cands], desc="ray_cylinder: local normal is neither the radial unit vector at the hit point on the round side nor +/- the axis on the cap that contains the hit point")
  P.goal("normal/zero-on-miss", veq(nrm, [0, 0, 0]), x == -1, desc="ray_cylinder: a miss does not return the zero normal")


# ------------------------------------------------------------------------------------------------ ray_capsule


def unit_capsule(ctx):
  from mujoco_warp._src import ray

  ctx.encode(ray.ray_capsule)
  ctx.bound(note="round side + 2 roots of each end-cap sphere (concrete loops); pose, radius, half length, ray symbolic; _ray_map / _ray_quad / ray_sphere used through their proved contracts")
  ctx.assume(
    "radius > 0, half length > 0",
    "ray direction is not the zero vector",
    "mat is a rotation matrix (through the _ray_map contract)",
    "completeness statements for non-degenerate rays: none of the three quadratics (round side, two cap spheres) grazes (discriminant not in [0, mjMINVAL)), or the ray is parallel to the axis and not on the round surface; bounding-sphere discriminant not in [0, mjMINVAL)",
    "floats are reals; normalize by its defining equations",
  )
  r_ = local_setup(ctx, "k_ray_capsule", lambda C: {ray._ray_map.key: C.ray_map, ray.ray_sphere.key: C.ray_sphere, ray._ray_quad.key: C.ray_quad}, "ray_capsule")
  if r_ is None:
    return
  kt, gi, C, T = r_
  size, M, lp, lv, x, nrm, vec = T["size"], T["M"], T["lp"], T["lv"], T["x"], T["nrm"], T["vec"]
  rp = lib.make_replay(ctx, kt, LOC + "k_ray_capsule", "ray_capsule", "goal", goal="checks.rayg_c34:goal_vs_mujoco", env={"geomtype": GEOM["capsule"]})
  if len(C.spheres) != 1 or len(C.quads) != 3 or len(gi.norms) != 1:
    ctx.error(f"ray_capsule: {len(C.spheres)} bounding-sphere tests, {len(C.quads)} quadratics, {len(gi.norms)} normalisations (expected 1, 3, 1)")
    return
  mp, sp = C.maps[0], C.spheres[0]
  q, qt_, qb_ = C.quads
  r, h = size[0], size[1]
  t = z3.Real("t_ref")
  at = lambda s_: add(lp, scl(lv, s_))
  rad = lambda s_: at(s_)[0] * at(s_)[0] + at(s_)[1] * at(s_)[1] - r * r
  zc = lambda s_: at(s_)[2]
  capf = lambda s_, cz: at(s_)[0] * at(s_)[0] + at(s_)[1] * at(s_)[1] + (at(s_)[2] - cz) * (at(s_)[2] - cz) - r * r
  surf = lambda s_: z3.Or(z3.And(rad(s_) == 0, zabs_le(zc(s_), h)), z3.And(capf(s_, h) == 0, zc(s_) >= h), z3.And(capf(s_, -h) == 0, zc(s_) <= -h))
  R2 = (r + h) * (r + h)
  A, B, Cc, x0, x1, qsol = q["A"], q["B"], q["C"], q["x0"], q["x1"], q["sol"]
  det = B * B - A * Cc
  a_ref, b_ref, c_ref = lv[0] * lv[0] + lv[1] * lv[1], lv[0] * lp[0] + lv[1] * lp[1], lp[0] * lp[0] + lp[1] * lp[1] - r * r
  pre = [z3.Or(*[v != 0 for v in vec]), r > 0, h > 0]
  caps = []
  for nm_, qq, cz, sgn in (("top", qt_, h, 1), ("bottom", qb_, -h, -1)):
    ctr = [0, 0, cz]
    caps.append({"name": nm_, "q": qq, "cz": cz, "sgn": sgn, "det": qq["B"] * qq["B"] - qq["A"] * qq["C"], "ref": (dot(lv, lv), dot(lv, sub(lp, ctr)), dot(sub(lp, ctr), sub(lp, ctr)) - r * r)})
  generic = z3.And(z3.Or(z3.And(A == 0, Cc != 0), z3.And(A > 0, z3.Or(det < 0, det >= MINVAL))), *[z3.Or(c["det"] < 0, c["det"] >= MINVAL) for c in caps])
  pins = []
  for sz, p_, v_, tt in [((1, 2, 0), (-3, 0, 0), (1, 0, 0), "1"), ((1, 2, 0), (0, 0, 0), (0, 0, 1), "1"), ((1, 2, 0), (-3, 3, 0), (1, 0, 0), "1"), ((1, 1, 0), (0, 0, 4), (0, 0, -1), "1"), ((1, 1, 0), (-3, 0, "8/5"), (1, 0, 0), "1"), ((1, 1, 0), ("-1/2", 0, 3), (1, 0, -2), "1")]:
    pins.append(z3.And(pin_vec(size, sz), world_pins(T, mp, p_, v_), t == Q(tt)))
  pins += ray_pins(T, mp, [(1, 2, 0), (1, '1/2', 0)])
  names = {"t": t, "dist": x, "radial_det": det}
  P = Proof(ctx, kt.bg + pre, names, rp, pins=pins)
  ctx.reach(P.full, "twin:round-hit", z3.And(pins[0], x == 2))
  ctx.reach(P.full, "twin:inside-hit-cap", z3.And(pins[1], x == 3))
  ctx.reach(P.full, "twin:miss", z3.And(pins[2], x == -1))
  ctx.reach(P.full, "twin:cap-hit", z3.And(pins[3], x == 2))
  ctx.reach(P.full, "twin:cap-hit-off-axis", z3.And(pins[4], x > 2, x < 3))
  goal_map_args(P, T, mp, "ray_capsule")
  P.lemma("lv.lv>0", dot(lv, lv) > 0, using=[mp["facts"][0], pre[0]])
  P.goal("quadratic/round/coefficients", z3.And(q["a"] == a_ref, q["b"] == b_ref, q["c"] == c_ref), using=[], desc="ray_capsule: the round-side quadratic is not (lpnt_x + x lvec_x)^2 + (lpnt_y + x lvec_y)^2 = radius^2")
  P.lemma("coef", z3.And(A == a_ref, B == b_ref, Cc == c_ref), using=q["defs"])
  P.lemma("rad=q", rad(t) == A * t * t + 2 * B * t + Cc, using=["coef"])
  P.lemma("A>=0", A >= 0, using=["coef"])
  P.lemma("A=0=>no-roots-reported", z3.Implies(A == 0, det < MINVAL), using=["coef"])
  quad_instances(P, "q", q, t)
  for c in caps:
    nm_, qq = c["name"], c["q"]
    ar, br, cr = c["ref"]
    P.goal(f"quadratic/{nm_}/coefficients", z3.And(qq["a"] == ar, qq["b"] == br, qq["c"] == cr), using=[], desc=f"ray_capsule: the {nm_}-cap quadratic is not |lpnt + x lvec - (0, 0, +/- half length)|^2 = radius^2")
    P.lemma(f"{nm_}/coef", z3.And(qq["A"] == ar, qq["B"] == br, qq["C"] == cr), using=qq["defs"])
    P.lemma(f"{nm_}/cap=q", capf(t, c["cz"]) == qq["A"] * t * t + 2 * qq["B"] * t + qq["C"], using=[f"{nm_}/coef"])
    P.lemma(f"{nm_}/A>0", qq["A"] > 0, using=[f"{nm_}/coef", "lv.lv>0"])
    quad_instances(P, nm_, qq, t)
  # candidates
  cands = []
  accr = z3.Bool("accepted_round")
  accr_def = accr == z3.And(qsol >= 0, zabs_le(lp[2] + qsol * lv[2], h))
  P.assume(accr_def)
  cands.append({"tag": "round", "acc": accr, "d": qsol, "def": accr_def, "part": 0})
  for c in caps:
    for i, u in enumerate((c["q"]["x0"], c["q"]["x1"])):
      acc = z3.Bool(f"accepted_{c['name']}{i}")
      zz = lp[2] + u * lv[2]
      adef = acc == z3.And(u >= 0, (zz >= h) if c["sgn"] > 0 else (zz <= -h))
      P.assume(adef)
      cands.append({"tag": f"{c['name']}{i}", "acc": acc, "d": u, "def": adef, "part": c["sgn"], "cap": c})
  passes = sp["sol"] >= 0
  allc = [(c["acc"], c["d"]) for c in cands]
  alldefs = [c["def"] for c in cands]
  P.lemma("x-is-min-accepted-candidate", min_accepted(x, passes, allc), using=alldefs, nl_first=False)
  P.goal("range", z3.Or(x == -1, x >= 0), using=["x-is-min-accepted-candidate"], desc="ray_capsule: returns a negative distance other than -1")
  # (A) accepted => on the surface
  P.lemma("round/root", z3.Implies(qsol >= 0, A * qsol * qsol + 2 * B * qsol + Cc == 0), using=["A>=0", "A=0=>no-roots-reported"] + q["facts"])
  P.lemma("round/rad", rad(x) == A * x * x + 2 * B * x + Cc, using=["coef"])
  P.lemma("round/accepted-on-surface", z3.Implies(z3.And(accr, x == qsol), surf(x)), using=["round/root", "round/rad", accr_def])
  for c in cands[1:]:
    cp, qq, u = c["cap"], c["cap"]["q"], c["d"]
    nm_ = cp["name"]
    P.lemma(f"{c['tag']}/root", z3.Implies(u >= 0, qq["A"] * u * u + 2 * qq["B"] * u + qq["C"] == 0), using=[f"{nm_}/A>0"] + qq["facts"])
    P.lemma(f"{c['tag']}/cap(x)", capf(x, cp["cz"]) == qq["A"] * x * x + 2 * qq["B"] * x + qq["C"], using=[f"{nm_}/coef"])
    P.lemma(f"{c['tag']}/accepted-on-surface", z3.Implies(z3.And(c["acc"], x == u), surf(x)), using=[f"{c['tag']}/root", f"{c['tag']}/cap(x)", c["def"]])
  P.goal("hit/on-surface", surf(x), x >= 0, using=["x-is-min-accepted-candidate"] + [f"{c['tag']}/accepted-on-surface" for c in cands], desc="ray_capsule: returned point is not on the capsule surface")
  # (B, C) a surface point at t >= 0 => some accepted candidate has a parameter <= t
  some = z3.Or(*[z3.And(a, d <= t) for a, d in allc])
  for cp in caps:
    nm_, qq = cp["name"], cp["q"]
    onc = z3.And(capf(t, cp["cz"]) == 0, (zc(t) >= h) if cp["sgn"] > 0 else (zc(t) <= -h), t >= 0, generic)
    P.lemma(f"{nm_}/det", z3.Implies(onc, cp["det"] >= MINVAL), using=[f"{nm_}/cap=q", f"{nm_}/A>0", f"{nm_}/no-root-if-det<0"])
    P.lemma(f"{nm_}/t-is-root", z3.Implies(onc, z3.Or(t == qq["x0"], t == qq["x1"])), using=[f"{nm_}/det", f"{nm_}/cap=q", f"{nm_}/A>0", f"{nm_}/factor"])
    mine = [c for c in cands[1:] if c["cap"] is cp]
    P.lemma(f"{nm_}/surface-point-is-candidate", z3.Implies(onc, z3.Or(*[z3.And(c["acc"], c["d"] == t) for c in mine])), using=[f"{nm_}/t-is-root"] + [c["def"] for c in mine], nl_first=False)
  onr = z3.And(rad(t) == 0, zabs_le(zc(t), h), t >= 0, generic)
  P.lemma("round/A>0", z3.Implies(onr, z3.And(A > 0, det >= MINVAL)), using=["rad=q", "A>=0", "q/no-root-if-det<0", "coef"])
  P.lemma("round/t-is-root", z3.Implies(onr, z3.Or(t == x0, t == x1)), using=["round/A>0", "rad=q", "q/factor"])
  P.lemma("round/ordered", z3.Implies(z3.And(A > 0, det >= MINVAL), z3.And(x0 < x1, qsol == z3.If(x0 >= 0, x0, z3.If(x1 >= 0, x1, -1)))), using=q["facts"])
  z0 = lp[2] + x0 * lv[2]
  P.lemma("round/first-root", z3.Implies(z3.And(onr, z3.Or(t == x0, x0 < 0)), z3.And(accr, qsol == t)), using=["round/A>0", "round/t-is-root", "round/ordered", accr_def])
  P.lemma("round/second-root/first-in-slab", z3.Implies(z3.And(onr, t == x1, x0 >= 0, zabs_le(z0, h)), z3.And(accr, qsol <= t)), using=["round/A>0", "round/ordered", accr_def])
  # second root on the round side while the first root is beyond a cap plane: the ray enters through that cap sphere
  for cp in caps:
    nm_, qq, sgn, cz = cp["name"], cp["q"], cp["sgn"], cp["cz"]
    u0, u1 = qq["x0"], qq["x1"]
    first = [c for c in cands[1:] if c["cap"] is cp][0]
    sx = z3.Real(f"s_{nm_}")  # parameter at which the ray crosses the cap plane z = cz (definition; exists when lv_z != 0)
    sdef = z3.Implies(lv[2] != 0, sx * lv[2] == cz - lp[2])
    P.assume(sdef)
    above = (z0 > h) if sgn > 0 else (z0 < -h)
    caseg = z3.And(onr, t == x1, x0 >= 0, above)
    tg = f"round/second-root/{nm_}"
    P.lemma(f"{tg}/slope", z3.Implies(caseg, (lv[2] < 0) if sgn > 0 else (lv[2] > 0)), using=["round/A>0", "round/ordered", (x1 - x0) * lv[2] == (lp[2] + x1 * lv[2]) - z0])
    P.lemma(f"{tg}/crossing-between-roots", z3.Implies(caseg, z3.And(sx > x0, sx <= x1)), using=[f"{tg}/slope", sdef, (sx - x0) * lv[2] == (sx * lv[2] + lp[2]) - z0, (sx - x1) * lv[2] == (sx * lv[2] + lp[2]) - (lp[2] + x1 * lv[2]), "round/A>0", "round/ordered"])
    P.lemma(f"{tg}/rad-factor", z3.Implies(z3.And(A > 0, det >= MINVAL), A * sx * sx + 2 * B * sx + Cc == A * (sx - x0) * (sx - x1)), using=q["facts"])
    RS, RX0 = z3.Real(f"rad_at_crossing_{nm_}"), z3.Real(f"cap_at_first_root_{nm_}")
    P.assume(RS == A * sx * sx + 2 * B * sx + Cc, RX0 == qq["A"] * x0 * x0 + 2 * qq["B"] * x0 + qq["C"])
    P.lemma(f"{tg}/inside-at-crossing", z3.Implies(caseg, RS <= 0), using=[f"{tg}/crossing-between-roots", f"{tg}/rad-factor", "round/A>0", RS == A * sx * sx + 2 * B * sx + Cc])
    # cap function = radial function + (z - cz)^2
    P.lemma(f"{tg}/cap-vs-rad", z3.And(qq["A"] * sx * sx + 2 * qq["B"] * sx + qq["C"] == RS + (lp[2] + sx * lv[2] - cz) * (lp[2] + sx * lv[2] - cz), RX0 == (A * x0 * x0 + 2 * B * x0 + Cc) + (z0 - cz) * (z0 - cz)), using=["coef", f"{nm_}/coef", RS == A * sx * sx + 2 * B * sx + Cc, RX0 == qq["A"] * x0 * x0 + 2 * qq["B"] * x0 + qq["C"]])
    CS = z3.Real(f"cap_at_crossing_{nm_}")
    P.assume(CS == qq["A"] * sx * sx + 2 * qq["B"] * sx + qq["C"])
    P.lemma(f"{tg}/cap-at-crossing", z3.Implies(caseg, CS <= 0), using=[f"{tg}/cap-vs-rad", f"{tg}/inside-at-crossing", f"{tg}/slope", sdef, CS == qq["A"] * sx * sx + 2 * qq["B"] * sx + qq["C"]])
    P.lemma(f"{tg}/cap-at-first-root", z3.Implies(caseg, RX0 > 0), using=[f"{tg}/cap-vs-rad", "round/A>0"] + q["facts"] + [h > 0])
    P.lemma(f"{tg}/complete-square", qq["A"] * CS == (qq["A"] * sx + qq["B"]) * (qq["A"] * sx + qq["B"]) - cp["det"], using=[CS == qq["A"] * sx * sx + 2 * qq["B"] * sx + qq["C"]])
    P.lemma(f"{tg}/cap-det", z3.Implies(caseg, cp["det"] >= MINVAL), using=[f"{tg}/complete-square", f"{tg}/cap-at-crossing", f"{nm_}/A>0", z3.Implies(caseg, z3.Or(cp["det"] < 0, cp["det"] >= MINVAL))])
    P.lemma(f"{tg}/factors", z3.Implies(cp["det"] >= MINVAL, z3.And(CS == qq["A"] * (sx - u0) * (sx - u1), RX0 == qq["A"] * (x0 - u0) * (x0 - u1), u0 < u1)), using=[f"{nm_}/A>0", CS == qq["A"] * sx * sx + 2 * qq["B"] * sx + qq["C"], RX0 == qq["A"] * x0 * x0 + 2 * qq["B"] * x0 + qq["C"]] + qq["facts"])
    P.lemma(f"{tg}/root-order", z3.Implies(caseg, z3.And(u0 <= sx, sx <= u1, x0 < u0)), using=[f"{tg}/factors", f"{tg}/cap-det", f"{tg}/cap-at-crossing", f"{tg}/cap-at-first-root", f"{tg}/crossing-between-roots", f"{nm_}/A>0"])
    P.lemma(f"{tg}/entry-beyond-plane", z3.Implies(caseg, (lp[2] + u0 * lv[2] >= h) if sgn > 0 else (lp[2] + u0 * lv[2] <= -h)), using=[f"{tg}/root-order", f"{tg}/slope", sdef, (u0 - sx) * lv[2] == (lp[2] + u0 * lv[2]) - (sx * lv[2] + lp[2])])
    P.lemma(tg, z3.Implies(caseg, z3.And(first["acc"], first["d"] <= t)), using=[f"{tg}/root-order", f"{tg}/entry-beyond-plane", f"{tg}/crossing-between-roots", first["def"]], nl_first=False)
  SURF, GEN = z3.Bool("on_surface_at_t"), z3.Bool("non_degenerate")
  sdef_, gdef_ = SURF == surf(t), GEN == generic
  P.assume(sdef_, gdef_)
  P.lemma("round/surface-point-has-candidate", z3.Implies(onr, some), using=["round/t-is-root", "round/first-root", "round/second-root/first-in-slab"] + [f"round/second-root/{cp['name']}" for cp in caps], nl_first=False)
  P.lemma("surface-point-has-candidate", z3.Implies(z3.And(SURF, t >= 0, GEN), some), using=["round/surface-point-has-candidate", sdef_, gdef_] + [f"{cp['name']}/surface-point-is-candidate" for cp in caps], nl_first=False)
  P.lemma("nearest", z3.Implies(z3.And(x >= 0, t >= 0, t < x, GEN), z3.Not(SURF)), using=["surface-point-has-candidate", "x-is-min-accepted-candidate"], nl_first=False)
  P.goal("hit/nearest", z3.Not(surf(t)), z3.And(x >= 0, t >= 0, t < x, generic), using=["nearest", sdef_, gdef_], desc="ray_capsule: a surface point with a smaller non-negative parameter exists (non-degenerate ray)")
  # bounding sphere of radius r + h
  bs, QT, nongrazing = bounding_sphere_lemmas(P, sp, mp, T, t, R2, "ray_capsule")
  lt = [z3.Real(f"lt_{i}") for i in range(3)]
  P.assume(veq(lt, at(t)))
  NRM2 = dot(lt, lt)
  P.lemma("in-ball/round", z3.Implies(z3.And(lt[0] * lt[0] + lt[1] * lt[1] - r * r == 0, zabs_le(lt[2], h)), NRM2 <= R2), using=pre[1:])
  for cp in caps:
    cz = cp["cz"]
    capl = lt[0] * lt[0] + lt[1] * lt[1] + (lt[2] - cz) * (lt[2] - cz) - r * r
    beyond = (lt[2] >= h) if cp["sgn"] > 0 else (lt[2] <= -h)
    P.lemma(f"in-ball/{cp['name']}/height", z3.Implies(z3.And(capl == 0, beyond), zabs_le(lt[2], h + r)), using=pre[1:])
    P.lemma(f"in-ball/{cp['name']}/norm", z3.Implies(capl == 0, NRM2 == r * r + 2 * cz * lt[2] - h * h), using=[])
    P.lemma(f"in-ball/{cp['name']}", z3.Implies(z3.And(capl == 0, beyond), NRM2 <= R2), using=[f"in-ball/{cp['name']}/height", f"in-ball/{cp['name']}/norm"] + pre[1:])
  P.lemma("in-ball", z3.Implies(SURF, QT <= 0), using=["in-ball/round", "in-ball/top", "in-ball/bottom", veq(lt, at(t)), QT == dot(at(t), at(t)) - R2, sdef_])
  P.lemma("pretest-passes", z3.Implies(z3.And(SURF, t >= 0, nongrazing), passes), using=[bs, "in-ball"], nl_first=False)
  P.lemma("justified-miss", z3.Implies(z3.And(x == -1, t >= 0, GEN, nongrazing), z3.Not(SURF)), using=["pretest-passes", "surface-point-has-candidate", "x-is-min-accepted-candidate"], nl_first=False)
  P.goal("miss/no-surface-point-ahead", z3.Not(surf(t)), z3.And(x == -1, t >= 0, generic, nongrazing), using=["justified-miss", sdef_, gdef_], desc="ray_capsule: reports a miss although a point pnt + t vec, t >= 0, is on the capsule surface (non-degenerate ray)")
  # normal = mat @ normalize(hit point - nearest point of the axis segment)
  xv, l, nn = gi.norms[0]
  hp = at(x)
  nl = rotated_normal(P, ctx, kt, gi, T, "ray_capsule")
  if nl is None:
    return
  offs = {0: [hp[0], hp[1], 0], 1: [hp[0], hp[1], hp[2] - h], -1: [hp[0], hp[1], hp[2] + h]}
  sels = [z3.And(c["acc"], x == c["d"], veq(nl, nn), veq(xv, offs[c["part"]])) for c in cands]
  P.lemma("local-normal-of-selected-candidate", z3.Implies(x >= 0, z3.Or(*sels)), using=alldefs, nl_first=False)
  ncon = z3.Implies(l > 0, z3.And(veq(scl(nn, l), xv), dot(nn, nn) == 1))
  geos = {
    0: z3.And(veq(scl(nl, r), offs[0]), dot(nl, nl) == 1, rad(x) == 0, zabs_le(zc(x), h)),
    1: z3.And(veq(scl(nl, r), offs[1]), dot(nl, nl) == 1, capf(x, h) == 0, zc(x) >= h),
    -1: z3.And(veq(scl(nl, r), offs[-1]), dot(nl, nl) == 1, capf(x, -h) == 0, zc(x) <= -h),
  }
  for c, sel in zip(cands, sels):
    tg = c["tag"]
    onpart = rad(x) == 0 if c["part"] == 0 else capf(x, c["part"] * h) == 0
    rootf = ["round/root", "round/rad"] if c["part"] == 0 else [f"{tg}/root", f"{tg}/cap(x)"]
    P.lemma(f"{tg}/normal/on-part", z3.Implies(z3.And(c["acc"], x == c["d"]), onpart), using=rootf + [c["def"]])
    P.lemma(f"{tg}/normal/l^2", z3.Implies(sel, l * l == r * r), using=[f"{tg}/normal/on-part", l * l == dot(xv, xv)])
    P.lemma(f"{tg}/normal/l=r", z3.Implies(sel, l == r), using=[f"{tg}/normal/l^2", l >= 0, pre[1]])
    P.lemma(f"{tg}/normal", z3.Implies(sel, geos[c["part"]]), using=[f"{tg}/normal/l=r", f"{tg}/normal/on-part", ncon, pre[1], c["def"]])
  P.goal("normal/outward-surface-normal", z3.Or(*geos.values()), x >= 0, using=["local-normal-of-selected-candidate"] + [f"{c['tag']}/normal" for c in cands], desc="ray_capsule: local normal is not the unit vector from the axis segment to the hit point on the part (round side / top cap / bottom cap) that contains the hit point")
  P.goal("normal/zero-on-miss", veq(nrm, [0, 0, 0]), x == -1, desc="ray_capsule: a miss does not return the zero normal")


# ------------------------------------------------------------------------------------------------ validation on MuJoCo


def implicit_np(gt, l, size):
  """signed implicit function of the solid in its local frame: < 0 inside, 0 on the surface, > 0 outside"""
  x, y, z = l
  if gt == GEOM["sphere"]:
    return float(np.sqrt(x * x + y * y + z * z) - size[0])
  if gt == GEOM["ellipsoid"]:
    return float(np.sqrt((x / size[0]) ** 2 + (y / size[1]) ** 2 + (z / size[2]) ** 2) - 1)
  if gt == GEOM["box"]:
    return float(max(abs(x) - size[0], abs(y) - size[1], abs(z) - size[2]))
  rho = float(np.sqrt(x * x + y * y))
  if gt == GEOM["cylinder"]:
    return max(rho - size[0], abs(z) - size[1])
  if gt == GEOM["capsule"]:
    dz = max(abs(z) - size[1], 0.0)
    return float(np.sqrt(rho * rho + dz * dz) - size[0])
  raise ValueError(gt)


def normal_np(gt, l, size):
  """outward unit surface normal (local frame) at a surface point, None near edges where it is not unique"""
  x, y, z = l
  if gt == GEOM["sphere"]:
    n = np.array([x, y, z])
  elif gt == GEOM["ellipsoid"]:
    n = np.array([x / size[0] ** 2, y / size[1] ** 2, z / size[2] ** 2])
  elif gt == GEOM["box"]:
    e = np.array([abs(x) - size[0], abs(y) - size[1], abs(z) - size[2]])
    i = int(np.argmax(e))
    if np.sort(e)[-2] > -1e-4:
      return None
    n = np.zeros(3)
    n[i] = np.sign(l[i])
  elif gt == GEOM["cylinder"]:
    rho = np.sqrt(x * x + y * y)
    if abs(rho - size[0]) < 1e-4 and abs(abs(z) - size[1]) < 1e-4:
      return None
    n = np.array([x, y, 0.0]) if abs(rho - size[0]) < abs(abs(z) - size[1]) else np.array([0, 0, np.sign(z)])
  elif gt == GEOM["capsule"]:
    n = np.array([x, y, 0.0]) if abs(z) <= size[1] else np.array([x, y, z - np.sign(z) * size[1]])
  else:
    raise ValueError(gt)
  return n / np.linalg.norm(n)


def validate_characterisation(seed, n):
  """what the units prove (nearest surface point, outward normal, justified miss) holds for mujoco.mju_rayGeom itself"""
  import mujoco

  rng = np.random.default_rng(seed + 3400)
  bad = []
  stats = {"hit": 0, "miss": 0, "inside": 0}
  kinds = ["sphere", "ellipsoid", "box", "cylinder", "capsule", "plane"]
  for it in range(n):
    gt = GEOM[kinds[it % len(kinds)]]
    q = rng.normal(size=4)
    q /= np.linalg.norm(q)
    Rm = np.zeros(9)
    mujoco.mju_quat2Mat(Rm, q)
    Rm = Rm.reshape(3, 3)
    pos, size = rng.uniform(-1, 1, 3), rng.uniform(0.2, 1.0, 3)
    mode = int(rng.integers(4))
    lp = rng.uniform(-0.15, 0.15, 3) if mode == 0 else rng.uniform(-2.5, 2.5, 3)
    if mode == 2:
      lv = -lp + rng.normal(size=3) * 0.4
    elif mode == 3:  # axis-parallel ray in the local frame (zero direction components)
      lv = np.zeros(3)
      lv[int(rng.integers(3))] = rng.choice([-1.0, 1.0]) * rng.uniform(0.5, 2)
      lp = np.round(lp * 2) / 2 + 0.013
    else:
      lv = rng.normal(size=3)
    pnt, vec = pos + Rm @ lp, Rm @ lv
    nm = np.zeros(3)
    x = float(mujoco.mju_rayGeom(pos, Rm.flatten(), size, pnt, vec, gt, nm))
    if gt == GEOM["plane"]:
      if rng.random() < 0.5:
        size[:2] = 0
        x = float(mujoco.mju_rayGeom(pos, Rm.flatten(), size, pnt, vec, gt, nm))
      want = -1.0
      if lv[2] <= -1e-15:
        tt = -lp[2] / lv[2]
        h = lp + tt * lv
        if tt >= 0 and (size[0] <= 0 or abs(h[0]) <= size[0]) and (size[1] <= 0 or abs(h[1]) <= size[1]):
          want = tt
      if abs(want - x) > 1e-9 * (1 + abs(x)) or (x >= 0 and np.abs(nm - Rm[:, 2]).max() > 1e-12) or (x < 0 and np.any(nm)):
        bad.append(f"plane reference (front face, inside rectangle, t = -z/vz) gives {want}, mju_rayGeom gives {x} normal {nm.tolist()}")
      continue
    f = lambda s_: implicit_np(gt, lp + s_ * lv, size)
    if not (x == -1.0 or x >= 0):
      bad.append(f"mju_rayGeom returns {x} (neither -1 nor >= 0)")
      continue
    smax = x if x >= 0 else 12.0 / np.linalg.norm(lv)
    ss = np.linspace(0, smax, 1500)[1:-1]
    vals = np.array([f(s_) for s_ in ss])
    if np.abs(vals).min() < 2e-3 and x < 0:
      continue  # grazing: excluded from the completeness statements
    if x >= 0:
      stats["hit"] += 1
      stats["inside"] += f(0.0) < 0
      if abs(f(x)) > 1e-7:
        bad.append(f"type {gt}: mju_rayGeom's hit point is not on the surface (implicit function {f(x)})")
      core_ = vals[(ss > 1e-6) & (ss < x - 1e-6 * (1 + x))]
      if len(core_) and np.sign(core_.max()) != np.sign(core_.min()) and np.abs(core_).min() > 1e-6:
        bad.append(f"type {gt}: the ray crosses the surface before mju_rayGeom's distance {x}")
      nl = normal_np(gt, lp + x * lv, size)
      if nl is not None and np.abs(Rm @ nl - nm).max() > 1e-6:
        bad.append(f"type {gt}: mju_rayGeom's normal {nm.tolist()} is not mat @ outward surface normal {(Rm @ nl).tolist()}")
    else:
      stats["miss"] += 1
      if vals.min() < -1e-6 or f(0.0) < 0:
        bad.append(f"type {gt}: mju_rayGeom reports a miss although the ray enters the solid (implicit function {vals.min()})")
      if np.any(nm):
        bad.append(f"type {gt}: mju_rayGeom's normal of a miss is {nm.tolist()}")
  if n >= 300 and min(stats.values()) < 10:
    bad.append(f"characterisation validation is one-sided: {stats}")
  return bad


def unit_validate(ctx):
  n = 1200 if ctx.tier == "quick" else 6000
  for b_ in validate_characterisation(ctx.seed, n)[:6]:
    ctx.error("geometric characterisation does not hold for mujoco.mju_rayGeom (statement over-demands): " + b_)
  ctx.reach(ctx.session([]), "twin:validation-ran", True)
  ctx.notes.append("nearest-surface-point / outward-normal / justified-miss characterisation checked on mujoco.mju_rayGeom for random spheres, ellipsoids, boxes, cylinders, capsules, planes (rays from inside, outside, aimed, axis-parallel)")


def units(tier):
  return [
    ("geometry/validate-characterisation-on-mujoco", unit_validate),
    ("geometry/map", unit_map),
    ("geometry/quad", unit_quad),
    ("geometry/plane", unit_plane),
    ("geometry/sphere", unit_sphere),
    ("geometry/ellipsoid", unit_ellipsoid),
    ("geometry/box", unit_box),
    ("geometry/cylinder", unit_cylinder),
    ("geometry/capsule", unit_capsule),
  ]
