"""C36 Results do not depend on what else ran in the process.

The process-global state of mujoco_warp is (inventory unit) the kernel specialisation cache `warp_util._KERNEL_CACHE`
and the narrowphase dispatch lists `collision_primitive._PRIMITIVE_COLLISION_TYPES/_FUNC`.

 key/<module>      the REAL source of cache_kernel (its `_hash_arg` and `key = ...`) is executed over symbolic Python values
                   with CPython's hash modelled per kind; solver query per @cache_kernel builder: two argument tuples the
                   host can pass that give semantically different kernels never share a cache key
 key/cross         two different builders never share a key (symbolic builder index; name table from the real sources)
 key/observed      runtime argument types harvested from the real host code on a corpus are inside the modelled kinds
 hashmodel         the hash model / key evaluator agree with CPython and with the real wrapper on concrete values
 dispatch/<hist>   the REAL narrowphase host code is run (trace mode) after a history of other models and in a fresh state;
                   every kernel it launches is interpreted for one generic collision with symbolic geom types; query:
                   each collider (primitive function / CCD kernel) is invoked equally often in both
 inventory         no other module-level container of mujoco_warp._src changes while models are stepped
"""

import importlib
import inspect
import itertools
import json
import os
import subprocess
import sys

import z3

from checks import pysym_c36 as ps
from wsym import core, kh, report

PID = "C36"
INT_HI = (1 << 31) - 1
SRC_PKG = "mujoco_warp._src"


def src_dir():
  import mujoco_warp._src as s

  return os.path.dirname(s.__file__)


# ------------------------------------------------------------------------------------------------------------- kinds


def kinds_from_annotation(b):
  """parameter -> list of element constructors; from the builder's annotations (bool / int / enum -> num, TileSet -> sized)"""
  out = []
  for p, a in zip(b["params"], b["ann"]):
    if a is None:
      out.append("list")  # the only unannotated builder parameters are the dispatch lists (checked in key/observed)
    elif a in ("bool", "int") or a.split(".")[-1] in ("ConeType", "BroadphaseType", "BroadphaseFilter", "GeomType", "IntegratorType", "SolverType"):
      out.append("num")
    elif a.split(".")[-1] == "TileSet":
      out.append("sized")
    else:
      out.append("?" + a)
  return out


def sem_mode(b, p, kind):
  """how the builder reads a sized parameter: only attributes -> equality on those; bare -> identity"""
  r = b["reads"].get(p, [])
  if kind != "sized":
    return None
  if r and all(x == "size" for x in r):
    return "size"
  return "identity"


class ArgSet:
  """one symbolic argument tuple for a builder"""

  def __init__(self, b, kinds, tag, nlist=0, nargs=None, kwnames=()):
    self.b, self.kinds, self.tag = b, kinds, tag
    self.pvs, self.dom = [], []
    self.kw = {}  # keyword arguments of the call: name -> PV (call order)
    n = len(kinds) if nargs is None else nargs
    todo = [(i, p, k, False) for i, (p, k) in enumerate(zip(b["params"][:n], kinds[:n]))]
    for nm_ in kwnames:
      i = b["params"].index(nm_)
      if i < n:
        raise ps.PyUnsupported(f"{b['name']}: parameter {nm_} given both positionally and by keyword")
      todo.append((i, nm_, kinds[i], True))
    for i, p, k, is_kw in todo:
      nm = f"{tag}.{p}"
      if k == "num":
        v = ps.pv_num(nm)
        self.dom += [z3.Implies(v.isbool, z3.And(v.v >= 0, v.v <= 1)), v.v >= 0, v.v <= INT_HI]
      elif k == "sized":
        v = ps.pv_sized(nm)
        self.dom += [v.size >= 0, v.size <= INT_HI, v.ident >= 0]
      elif k == "npscalar":
        v = ps.pv_sized(nm)
        self.dom += [v.size == 1, v.ident >= 0]  # ident stands for the scalar's value
      elif k == "list":
        if i == 0:
          # list of (GeomType, GeomType) tuples
          els = []
          for j in range(nlist):
            a, c = ps.pv_num(f"{nm}[{j}][0]"), ps.pv_num(f"{nm}[{j}][1]")
            self.dom += [z3.Not(a.isbool), z3.Not(c.isbool), a.v >= 0, a.v <= 16, c.v >= 0, c.v <= 16]
            els.append(ps.pv_tuple([a, c]))
          v = ps.pv_list(els)
        else:
          els = []
          for j in range(nlist):
            o = ps.pv_obj(f"{nm}[{j}]")
            self.dom.append(o.ident >= 0)
            els.append(o)
          v = ps.pv_list(els)
      else:
        raise ps.PyUnsupported(f"{b['name']}: parameter {p} of unmodelled kind {k}")
      if is_kw:
        self.kw[p] = v
      else:
        self.pvs.append(v)

  def named(self):
    """(parameter name, PV) of everything passed, positional first"""
    return list(zip(self.b["params"], self.pvs)) + list(self.kw.items())

  def filled(self, forward_kwargs=True):
    """value per parameter as the builder receives it: positional, then keywords (if the wrapper forwards them), then defaults.
    None = the call would raise TypeError (missing argument)"""
    vals = list(self.pvs)
    nd = len(self.b["defaults"])
    for i in range(len(vals), len(self.b["params"])):
      p = self.b["params"][i]
      if forward_kwargs and p in self.kw:
        vals.append(self.kw[p])
        continue
      di = i - (len(self.b["params"]) - nd)
      if di < 0:
        return None
      d = self.b["defaults"][di]
      vals.append(ps.PV("num", isbool=z3.BoolVal(isinstance(d, bool)), v=z3.IntVal(int(d))))
    return vals


def sem_equal(b, kinds, A, B, forward_kwargs=True):
  """the two calls specialise the builder identically (Python == per parameter as far as it reaches the builder; objects by
  what the builder reads)"""
  out = []
  fa, fb = A.filled(forward_kwargs), B.filled(forward_kwargs)
  if fa is None or fb is None:
    raise ps.PyUnsupported(f"{b['name']}: call shape leaves a parameter without value")
  for p, k, x, y in zip(b["params"], kinds, fa, fb):
    out.append(pv_equal(b, p, k, x, y))
  return z3.And(*out) if out else z3.BoolVal(True)


def pv_equal(b, p, k, x, y):
  if x.kind == "num" and y.kind == "num":
    return x.v == y.v  # True == 1, False == 0: identical under ==, arithmetic and truth tests
  if x.kind == "sized" and y.kind == "sized":
    return x.size == y.size if sem_mode(b, p, "sized") == "size" and k == "sized" else x.ident == y.ident
  if x.kind == "obj" and y.kind == "obj":
    return x.ident == y.ident
  if x.kind in ("list", "tuple") and y.kind == x.kind:
    if len(x.elems) != len(y.elems):
      return z3.BoolVal(False)
    return z3.And(*[pv_equal(b, p, k, a, c) for a, c in zip(x.elems, y.elems)]) if x.elems else z3.BoolVal(True)
  return z3.BoolVal(False)


def concretize(model, pv, b=None, p=None):
  """PV -> real python object for the replay"""
  import numpy as np
  import warp as wp

  if pv.kind == "num":
    v = kh.mval(model, pv.v)
    return bool(v) if kh.mval(model, pv.isbool) else int(v)
  if pv.kind == "sized":
    from mujoco_warp._src import types

    size, ident = kh.mval(model, pv.size), kh.mval(model, pv.ident)
    ann = dict(zip(b["params"], b["ann"])).get(p) if b else None
    if ann and ann.split(".")[-1] == "TileSet":
      return types.TileSet(adr=wp.array(np.arange(int(ident) % 7 + 1), dtype=int), size=int(size))
    return np.float64(ident) if size == 1 else np.zeros(int(size))
  if pv.kind == "obj":
    from mujoco_warp._src import collision_primitive as cp

    fs = list(cp._PRIMITIVE_COLLISIONS.values())
    return fs[int(kh.mval(model, pv.ident)) % len(fs)]
  if pv.kind == "tuple":
    return tuple(concretize(model, e) for e in pv.elems)
  if pv.kind == "list":
    return [concretize(model, e) for e in pv.elems]
  raise ValueError(pv.kind)


def get_builder(b):
  mod = importlib.import_module(f"{SRC_PKG}.{b['module']}")
  return getattr(mod, b["name"])


def replay_same(ctx, b, A, B, other=None, Bb=None):
  """call the REAL decorated builder(s) with the model's two argument tuples: reproduced iff the cache hands back the same
  kernel object although the arguments specialise differently / the builders differ."""

  def _rp(model):
    a1 = [concretize(model, v, b, p) for v, p in zip(A.pvs, b["params"])]
    b2 = Bb or b
    a2 = [concretize(model, v, b2, p) for v, p in zip(B.pvs, b2["params"])]
    kw1 = {p: concretize(model, v, b, p) for p, v in A.kw.items()}
    kw2 = {p: concretize(model, v, b2, p) for p, v in B.kw.items()}
    f1, f2 = get_builder(b), get_builder(b2)
    k1 = f1(*a1, **kw1)
    k2 = f2(*a2, **kw2)
    same = k1 is k2
    detail = ""
    try:
      fresh = f2.__wrapped__(*a2, **kw2)
      c1 = {k: repr(v)[:60] for k, v in inspect.getclosurevars(k1.func).nonlocals.items()}
      c2 = {k: repr(v)[:60] for k, v in inspect.getclosurevars(fresh.func).nonlocals.items()}
      detail = f"; closure of cached kernel {c1} vs closure a fresh build would have {c2}; cached source line {k1.func.__code__.co_firstlineno} vs fresh {fresh.func.__code__.co_firstlineno}"
    except Exception as ex:
      detail = f"; (closure comparison failed: {ex})"
    os.makedirs(os.path.join(report.VERIF, "replays", PID), exist_ok=True)
    path = os.path.join(report.VERIF, "replays", PID, f"key.{b['module']}.{b['name']}.{b2['module']}.{b2['name']}.json")
    with open(path, "w") as f:
      json.dump({"property": PID, "builder1": f"{b['module']}.{b['name']}", "args1": repr(a1), "kwargs1": repr(kw1), "builder2": f"{b2['module']}.{b2['name']}", "args2": repr(a2), "kwargs2": repr(kw2), "same_kernel_object": same, "detail": detail, "how": "import the two builders from mujoco_warp._src.<module>, call builder1(*args1, **kwargs1) then builder2(*args2, **kwargs2) in one process: the second call returns the first call's kernel from _KERNEL_CACHE although a fresh build would differ"}, f)
    return same, path

  return _rp


# ----------------------------------------------------------------------------------------------------- key units


def call_shapes(b, ke, callsites):
  """the ways the host can call the builder: (number of positional args, keyword names).  Positional arities within the
  defaults; keyword shapes = those at the real call sites (AST scan), possible only if the wrapper accepts **kwargs"""
  nd, np_ = len(b["defaults"]), len(b["params"])
  shapes = [(n, ()) for n in range(np_ - nd, np_ + 1)]
  notes = []
  for npos, kws in sorted(callsites.get(b["name"], ())):
    if not kws:
      if (npos, ()) not in shapes:
        notes.append(f"{b['name']}: a call site passes {npos} positional arguments (signature takes {np_ - nd}..{np_}): TypeError at run time")
      continue
    if ke.kwarg is None:
      notes.append(f"{b['name']}: a call site passes keywords {list(kws)} but the cache_kernel wrapper takes none: TypeError at run time")
      continue
    if any(k not in b["params"][npos:] for k in kws):
      notes.append(f"{b['name']}: call site keywords {list(kws)} do not name parameters after the {npos} positional ones")
      continue
    if (npos, kws) not in shapes:
      shapes.append((npos, kws))
  return shapes, notes


def arg_names(names, S):
  for p, v in S.named():
    if v.kind == "num":
      names[f"{S.tag}.{p}"] = v.v
      names[f"{S.tag}.{p}.isbool"] = v.isbool
    elif v.kind == "sized":
      names[f"{S.tag}.{p}.size"] = v.size
      names[f"{S.tag}.{p}.id"] = v.ident


def builder_queries(ctx, b, kinds, tag="", callsites=None, shapes=None):
  from mujoco_warp._src import warp_util

  hm = ps.HashModel()
  ke = ps.KeyEval(warp_util.cache_kernel, hm)
  name_pv = ps.pv_str(0)
  if shapes is None:
    shapes, notes = call_shapes(b, ke, callsites or {})
    ctx.notes.extend(notes)
  listlens = [0]
  if "list" in kinds:
    listlens = list(range(0, 4 if ctx.tier == "quick" else 6))
  for s1, s2 in itertools.combinations_with_replacement(shapes, 2):
    for l1, l2 in itertools.product(listlens, repeat=2) if "list" in kinds else [(0, 0)]:
      if l1 > l2:
        continue
      hm.axioms.clear(), hm.tuple_apps.clear(), hm.str_apps.clear()
      A, B = ArgSet(b, kinds, "a", l1, s1[0], s1[1]), ArgSet(b, kinds, "b", l2, s2[0], s2[1])
      if A.filled(True) is None or B.filled(True) is None:
        continue  # such a call raises TypeError
      k1, k2 = ke.key_for(name_pv, A.pvs, A.kw), ke.key_for(name_pv, B.pvs, B.kw)
      fwd = ke.forwards_kwargs
      if (A.kw or B.kw) and not fwd:
        ctx.notes.append(f"{b['name']}: the wrapper accepts keyword arguments but does not hand them to the builder (they are ignored)")
      sess = ctx.session(A.dom + B.dom + hm.axioms)

      def shp(sh):
        return str(sh[0]) + ("+" + "+".join(sh[1]) if sh[1] else "")

      q = f"{b['name']}{tag}" + (f"/nargs{shp(s1)},{shp(s2)}" if len(shapes) > 1 else "") + (f"/len{l1},{l2}" if "list" in kinds else "")
      eq = ps.keys_equal(k1, k2)
      if s1 == s2 and l1 == l2:
        ctx.reach(sess, f"twin:{q}", eq)
      names = {}
      arg_names(names, A), arg_names(names, B)
      ctx.prove(sess, f"distinct-args-distinct-keys/{q}", z3.Implies(eq, sem_equal(b, kinds, A, B, fwd)), names=names, replay=replay_same(ctx, b, A, B), desc=f"{b['module']}.{b['name']}: two calls whose (positional, keyword) arguments specialise the kernel differently get the same _KERNEL_CACHE key, the second model/configuration silently runs the first one's kernel")
  return ke


def unit_key_module(name, modules):
  def run(ctx):
    from mujoco_warp._src import warp_util

    allb = ps.scan_builders(src_dir())
    builders = [b for b in allb if b["module"] in modules]
    callsites = ps.scan_callsites(src_dir(), {b["name"] for b in allb})
    ctx.encode(warp_util.cache_kernel)
    ctx.bound(int_args=f"0 <= x <= {INT_HI}", list_len="<= 3 (quick) / 5 (thorough) entries per dispatch list")
    ctx.assume(
      "integer specialisation arguments are sizes, counts, iteration limits, enum values or bit masks: 0 <= x < 2^31 (the harvested call sites pass nothing else; CPython hashes -1 and -2, and x and x + 2^61-1, alike)",
      "CPython tuple hashing (xxHash-style mixing) and str hashing (SipHash) are modelled as collision-free functions of the element hashes / the string",
      "two argument tuples specialise a builder identically iff they are equal under Python == per parameter (True == 1); a TileSet parameter counts by the attributes the builder reads (AST: only .size)",
      "call shapes: every positional arity the defaults allow, plus the keyword shapes found at the real call sites (AST scan of mujoco_warp/_src); positional and keyword arguments count as far as the wrapper hands them to the builder",
    )
    for b in builders:
      kinds = kinds_from_annotation(b)
      bad = [k for k in kinds if k.startswith("?")]
      if bad:
        ctx.error(f"{b['module']}.{b['name']}: parameter annotation(s) {bad} have no modelled kind")
        continue
      for p, k in zip(b["params"], kinds):
        if k == "sized" and sem_mode(b, p, k) == "identity":
          ctx.notes.append(f"{b['name']}: parameter {p} reaches the kernel as an object (reads {b['reads'][p]}), compared by identity")
      builder_queries(ctx, b, kinds, callsites=callsites)
    # the model really contains the CPython quirk the precondition excludes
    ints = [(b, i) for b in builders for i, a in enumerate(b["ann"]) if a == "int"]
    if ints:
      b, i = ints[0]
      hm = ps.HashModel()
      ke = ps.KeyEval(warp_util.cache_kernel, hm)
      kinds = kinds_from_annotation(b)
      A, B = ArgSet(b, kinds, "a"), ArgSet(b, kinds, "b")
      k1, k2 = ke.key_for(ps.pv_str(0), A.pvs), ke.key_for(ps.pv_str(0), B.pvs)
      sess = ctx.session(hm.axioms + [z3.Not(A.pvs[i].isbool), z3.Not(B.pvs[i].isbool)])
      ctx.reach(sess, f"twin:model-has-hash(-1)==hash(-2)/{b['name']}", z3.And(ps.keys_equal(k1, k2), A.pvs[i].v == -1, B.pvs[i].v == -2))

  return (f"key/{name}", run)


def unit_key_cross(ctx):
  """two different builder definitions never produce the same key"""
  from mujoco_warp._src import warp_util

  builders = ps.scan_builders(src_dir())
  ctx.encode(warp_util.cache_kernel)
  ctx.bound(builders=len(builders))
  ctx.assume("str hashing (SipHash, salted per process) is collision-free on the builder names", f"integer arguments 0 <= x <= {INT_HI}")
  names = sorted({b["name"] for b in builders})
  sid = {n: i for i, n in enumerate(names)}
  # groups: (number of positional args, their kinds, keyword names, their kinds) -> builder indices
  groups = {}
  callsites = ps.scan_callsites(src_dir(), set(names))
  ke0 = ps.KeyEval(warp_util.cache_kernel, ps.HashModel())
  for bi, b in enumerate(builders):
    kinds = kinds_from_annotation(b)
    if any(k.startswith("?") for k in kinds):
      ctx.error(f"{b['module']}.{b['name']}: unmodelled parameter kind {kinds}")
      continue
    shapes, notes = call_shapes(b, ke0, callsites)
    for npos, kws in shapes:
      if ArgSet(b, kinds, "t", 0, npos, kws).filled(True) is None:
        continue
      groups.setdefault((npos, tuple(kinds[:npos]), tuple(kws), tuple(kinds[b["params"].index(k)] for k in kws)), []).append(bi)
  ctx.notes.append(f"{len(builders)} @cache_kernel builders, {len(names)} distinct names, {len(groups)} (arity, kinds) groups")
  keys = sorted(groups)
  nameid = z3.Function("nameid", z3.IntSort(), z3.IntSort())
  table = [nameid(i) == sid[b["name"]] for i, b in enumerate(builders)]
  for g1, g2 in itertools.combinations_with_replacement(keys, 2):
    if g1[0] != g2[0]:
      # keys of different length: evaluated too (a mutated key construction may drop components)
      pass
    m1, m2 = groups[g1], groups[g2]
    if g1 == g2 and len(m1) < 2:
      continue
    hm = ps.HashModel()
    ke = ps.KeyEval(warp_util.cache_kernel, hm)
    i, j = z3.Int("builder_i"), z3.Int("builder_j")
    b1, b2 = builders[m1[0]], builders[m2[0]]
    # generic parameter names: the members of a group share arity and kinds
    G1 = {"name": "B1", "module": "", "params": [f"p{k}" for k in range(g1[0])] + list(g1[2]), "ann": [], "defaults": [], "reads": {}}
    G2 = {"name": "B2", "module": "", "params": [f"p{k}" for k in range(g2[0])] + list(g2[2]), "ann": [], "defaults": [], "reads": {}}
    for l1, l2 in [(0, 0), (1, 1), (2, 2), (0, 1), (1, 2)] if ("list" in g1[1] or "list" in g2[1]) else [(0, 0)]:
      hm.axioms.clear(), hm.tuple_apps.clear(), hm.str_apps.clear()
      A, B = ArgSet(G1, list(g1[1]) + list(g1[3]), "a", l1, g1[0], g1[2]), ArgSet(G2, list(g2[1]) + list(g2[3]), "b", l2, g2[0], g2[2])
      k1 = ke.key_for(ps.pv_str(nameid(i)), A.pvs, A.kw)
      k2 = ke.key_for(ps.pv_str(nameid(j)), B.pvs, B.kw)
      sess = ctx.session(table + A.dom + B.dom + hm.axioms + [z3.Or(*[i == x for x in m1]), z3.Or(*[j == x for x in m2]), i != j])
      gs = lambda g: f"n{g[0]}:{''.join(k[0] for k in g[1])}" + ("+" + "+".join(g[2]) if g[2] else "")
      q = f"{gs(g1)}~{gs(g2)}" + (f"/len{l1},{l2}" if l1 or l2 else "")
      ctx.reach(sess, f"twin:{q}", True)

      def rp(model, A=A, B=B):
        bi, bj = builders[kh.mval(model, i)], builders[kh.mval(model, j)]
        return replay_same(ctx, bi, A, B, Bb=bj)(model)

      ctx.prove(sess, f"distinct-builders-distinct-keys/{q}", z3.Not(ps.keys_equal(k1, k2)), names={"builder_i": i, "builder_j": j}, replay=rp, desc="two different @cache_kernel builders produce the same _KERNEL_CACHE key: whichever ran first in the process determines the kernel the other one gets")


# runtime types seen at the real call sites


def harvest_types(steps=1):
  """run the real step() on the corpus in trace mode with the builders wrapped by recorders"""
  import collections
  import pkgutil

  import mujoco
  import warp as wp

  import mujoco_warp as mjw
  import mujoco_warp._src as src
  from checks import trace_c32
  from mujoco_warp._src import warp_util
  from wsym import harvest

  seen = collections.defaultdict(set)
  patched = []
  wrapcode = warp_util.cache_kernel(lambda: 0).__code__
  for n in pkgutil.iter_modules(src.__path__):
    if n.name.endswith("_test"):
      continue
    try:
      mod = importlib.import_module(f"{SRC_PKG}.{n.name}")
    except Exception:
      continue
    for k, v in list(vars(mod).items()):
      if callable(v) and getattr(v, "__code__", None) is wrapcode and getattr(v, "__module__", None) == mod.__name__:

        def mk(v=v, key=(n.name, k)):
          def proxy(*a, **kw):
            seen[key].add((tuple((type(x), (x if isinstance(x, (int, float, bool)) else None)) for x in a), tuple((k, type(x), (x if isinstance(x, (int, float, bool)) else None)) for k, x in kw.items())))
            return v(*a, **kw)

          return proxy

        patched.append((mod, k, v))
        setattr(mod, k, mk())
  try:
    extra = {
      "sap": ('<mujoco><option {opt}><flag {flag}/></option><worldbody><geom type="plane" size="5 5 .1"/><body pos="0 0 .09"><freejoint/><geom size=".1"/></body><body pos="0 0 .3"><freejoint/><geom type="box" size=".1 .1 .1"/></body></worldbody></mujoco>'),
    }
    corpus = dict(harvest.CORPUS)
    corpus.update(extra)
    for mname, xml in corpus.items():
      for vname, opt, flag in harvest.VARIANTS:
        mjm = mujoco.MjModel.from_xml_string(xml.format(opt=opt, flag=flag))
        m = mjw.put_model(mjm)
        if mname == "sap":
          m.opt.broadphase = {0: 1, 1: 2}.get(len(vname) % 2, 1)
        d = mjw.make_data(mjm, nworld=2)
        with trace_c32.TraceRun(m, d):
          mjw.step(m, d)
  finally:
    for mod, k, v in patched:
      setattr(mod, k, v)
  return seen


def kind_of_type(t):
  import enum

  import numpy as np

  from mujoco_warp._src import types

  if t is bool or t is int or (isinstance(t, type) and issubclass(t, (enum.IntEnum, enum.IntFlag, int))):
    return "num"
  if t is list:
    return "list"
  if t is types.TileSet:
    return "sized"
  if isinstance(t, type) and issubclass(t, np.generic):
    return "npscalar"
  if hasattr(t, "size"):
    return "sized"
  return f"?{t.__name__}"


def unit_key_observed(ctx):
  from mujoco_warp._src import warp_util

  ctx.encode(warp_util.cache_kernel)
  builders = {(b["module"], b["name"]): b for b in ps.scan_builders(src_dir())}
  callsites = ps.scan_callsites(src_dir(), {k[1] for k in builders})
  seen = harvest_types()
  ctx.notes.append(f"side condition (enumeration): {sum(len(v) for v in seen.values())} distinct runtime argument tuples of {len(seen)} builders harvested from step() on the corpus")
  nq = 0
  for key, tuples in sorted(seen.items()):
    b = builders.get(key)
    if b is None:
      ctx.error(f"harvested builder {key} was not found by the source scan")
      continue
    ann = kinds_from_annotation(b)
    for tup, kwt in sorted(tuples, key=repr):
      kinds = [kind_of_type(t) for t, _ in tup]
      for (t, v), p in list(zip(tup, b["params"])) + [((t, v), k) for k, t, v in kwt]:
        if isinstance(v, int) and not isinstance(v, bool) and not (0 <= v <= INT_HI):
          ctx.error(f"{key}: call site passed {p}={v}, outside the assumed integer range")
      full = kinds + ann[len(kinds) :]
      bad_kw = [k for k, t, v in kwt if k not in b["params"][len(tup) :]]
      if bad_kw:
        ctx.error(f"{key}: observed keyword argument(s) {bad_kw} do not name trailing parameters of the builder")
        continue
      for k, t, v in kwt:
        full[b["params"].index(k)] = kind_of_type(t)
      shape = (len(tup), tuple(k for k, t, v in kwt))
      known = shape in callsites.get(b["name"], set()) or not kwt
      if full != ann or not known:
        # a kind the annotation does not announce / a keyword shape the source scan did not see: decide the key property
        # for what the host really passes
        nq += 1
        if any(k.startswith("?") for k in full):
          ctx.error(f"{key}: runtime argument types {[t.__name__ for t, _ in tup]} {[(k, t.__name__) for k, t, v in kwt]} have no modelled kind")
          continue
        nd, np_ = len(b["defaults"]), len(b["params"])
        shapes = [(n, ()) for n in range(np_ - nd, np_ + 1)] + ([shape] if kwt else [])
        builder_queries(ctx, b, full, tag=f"@observed[{','.join(t.__name__ for t, _ in tup)}{''.join(',' + k + '=' + t.__name__ for k, t, v in kwt)}]", shapes=shapes)
  # at least one solver query: the observed kinds of the list-taking builder
  sess = ctx.session([])
  ctx.reach(sess, "twin:harvest-nonempty", z3.BoolVal(len(seen) > 10))


def unit_hashmodel(ctx):
  """reference validation: hash model == CPython hash; key evaluator == key stored by the real wrapper"""
  import random

  from mujoco_warp._src import types, warp_util

  rnd = random.Random(ctx.seed)
  vals = [0, 1, -1, -2, 2, 7, ps.M61 - 1, ps.M61, ps.M61 + 1, -ps.M61, 2 * ps.M61 + 5, -(2 * ps.M61) - 1, 1 << 62, -(1 << 63), (1 << 64) + 3]
  vals += [rnd.randrange(-(1 << 70), 1 << 70) for _ in range(200)]
  bad = 0
  for v in vals:
    h = z3.simplify(ps.hash_int(z3.IntVal(v))).as_long()
    if h != hash(v):
      bad += 1
      ctx.error(f"hash model mismatch: hash({v}) = {hash(v)}, model {h}")
  for e in list(types.ConeType) + list(types.GeomType) + [types.BroadphaseFilter.PLANE | types.BroadphaseFilter.OBB, True, False]:
    if hash(e) != z3.simplify(ps.hash_int(z3.IntVal(int(e)))).as_long():
      ctx.error(f"hash({e!r}) is not the int hash of its value")
  # evaluator vs real wrapper: decorate a dummy, call it, read the key back from the real cache
  hm = ps.HashModel()
  ke = ps.KeyEval(warp_util.cache_kernel, hm)

  class Sized:
    def __init__(self, size):
      self.size = size

  def dummy_builder(*a, **kw):
    return object()

  wrapped = warp_util.cache_kernel(dummy_builder)
  cases = [(True, 3), (1, False), (-1,), (-2,), (ps.M61,), (0, 1, 2, 3, 4), (Sized(16),), (Sized(5), True), (types.ConeType.ELLIPTIC, 64)]
  b = {"name": "dummy_builder", "module": "", "params": [f"p{k}" for k in range(8)], "ann": [], "defaults": [], "reads": {}}
  cases = [(c, {}) for c in cases]
  if ke.kwarg is not None:
    cases += [((True,), {"warmstart": False}), ((3,), {"b": 1, "a": True}), ((), {"x": 7})]
  for case, ckw in cases:
    before = set(warp_util._KERNEL_CACHE)
    wrapped(*case, **ckw)
    new = set(warp_util._KERNEL_CACHE) - before
    if len(new) != 1:
      ctx.error(f"real wrapper did not add exactly one cache entry for {case}")
      continue
    real_key = next(iter(new))
    kinds = ["sized" if isinstance(x, Sized) else "num" for x in case]
    A = ArgSet(b, kinds, "a")
    hm.axioms.clear(), hm.str_apps.clear()
    KW = {k: ps.pv_num(f"kw.{k}") for k in ckw}
    key = ke.key_for(ps.pv_str(0), A.pvs, KW)
    s = z3.Solver()
    for pv, x in zip(A.pvs, case):
      if pv.kind == "num":
        s.add(pv.isbool == isinstance(x, bool), pv.v == int(x))
      else:
        s.add(pv.size == x.size)
    for k, x in ckw.items():
      s.add(KW[k].isbool == isinstance(x, bool), KW[k].v == int(x))
    for text, sid_ in ke.strids.items():
      s.add(hm.HS(z3.IntVal(sid_)) == hash(text))
    s.add(hm.HS(z3.IntVal(0)) == hash("dummy_builder"))
    if s.check() != z3.sat:
      ctx.error("key evaluator: concrete evaluation unsat")
      continue
    warp_util._KERNEL_CACHE.pop(real_key, None)  # (-1,) and (-2,) really share a key
    mk = ps.key_concrete(s.model(), key, kh.mval)
    if mk != tuple(real_key):
      ctx.error(f"key evaluator disagrees with the real cache_kernel wrapper on {case} {ckw}: model {mk}, real {real_key}")
  sess = ctx.session([])
  ctx.reach(sess, "twin:validated", z3.BoolVal(bad == 0))
  ctx.notes.append(f"hash model validated against CPython on {len(vals)} integers and all enum members; key evaluator validated against the real wrapper on {len(cases)} argument tuples")


# ----------------------------------------------------------------------------------------------------- dispatch

MESH = '<asset><mesh name="tet" vertex="0 0 0 .2 0 0 0 .2 0 0 0 .2"/></asset>'
SIZES = {"sphere": ".1", "capsule": ".1 .1", "ellipsoid": ".1 .12 .14", "cylinder": ".1 .1", "box": ".1 .1 .1"}
ALL = ["plane", "sphere", "capsule", "ellipsoid", "cylinder", "box", "mesh", "sphere", "capsule", "ellipsoid", "cylinder", "box", "mesh"]
GT = {"plane": 0, "hfield": 1, "sphere": 2, "capsule": 3, "ellipsoid": 4, "cylinder": 5, "box": 6, "mesh": 7}
OFF = '<flag nativeccd="disable"/>'


def model_xml(geoms, flag=""):
  gs = []
  for i, t in enumerate(geoms):
    if t == "plane":
      gs.append('<geom type="plane" size="5 5 .1"/>')
      continue
    g = '<geom type="mesh" mesh="tet"/>' if t == "mesh" else f'<geom type="{t}" size="{SIZES[t]}"/>'
    gs.append(f'<body pos="{0.07 * i:.2f} {0.03 * (i % 3):.2f} {0.08 + 0.01 * i:.2f}"><freejoint/>{g}</body>')
  return f"<mujoco><option>{flag}</option>{MESH}<worldbody>{''.join(gs)}</worldbody></mujoco>"


HISTORIES = {
  # name: ([earlier (geoms, flag) ...], current (geoms, flag))
  "nativeccd-off-then-on": ([(["box", "box"], OFF)], (["box", "box"], "")),
  "nativeccd-on-then-off": ([(["box", "box"], "")], (["box", "box"], OFF)),
  "reordered-registration": ([(["capsule", "box"], ""), (["plane", "sphere", "capsule"], "")], (["plane", "sphere", "capsule", "box"], "")),
  "same-model-twice": ([(ALL, "")], (ALL, "")),
  "superset-of-other-types": ([(["sphere", "capsule", "cylinder"], "")], (["plane", "box", "mesh"], "")),
}
HISTORIES_THOROUGH = {
  "all-off-then-all-on": ([(ALL, OFF)], (ALL, "")),
  "all-on-then-all-off": ([(ALL, "")], (ALL, OFF)),
  "singles-reversed-then-all": ([([a, b], "") for a, b in [("box", "box"), ("capsule", "box"), ("capsule", "capsule"), ("sphere", "box"), ("sphere", "cylinder"), ("sphere", "capsule"), ("sphere", "sphere"), ("plane", "mesh"), ("plane", "box"), ("plane", "cylinder"), ("plane", "ellipsoid"), ("plane", "capsule"), ("plane", "sphere")]], (ALL, "")),
  "off-on-off": ([(["box", "box", "sphere"], OFF), (["box", "box", "sphere"], "")], (["box", "box", "sphere"], OFF)),
}


def reset_process_state():
  """what a fresh process starts with (the dispatch lists and the kernel cache are empty)"""
  from mujoco_warp._src import collision_primitive as cp
  from mujoco_warp._src import warp_util

  for n, v in vars(cp).items():
    if n.startswith("_PRIMITIVE_COLLISION_") and isinstance(v, list):
      v.clear()
  warp_util._KERNEL_CACHE.clear()


def trace_narrowphase(cfg):
  import mujoco

  import mujoco_warp as mjw
  from checks import trace_c32
  from mujoco_warp._src import collision_driver as cd

  geoms, flag = cfg
  mjm = mujoco.MjModel.from_xml_string(model_xml(geoms, flag))
  m = mjw.put_model(mjm)
  d = mjw.make_data(mjm, nworld=1, nconmax=8, njmax=8)
  cctx = cd.create_collision_context(d.naconmax)
  with trace_c32.TraceRun(m, d) as tr:
    cd._narrowphase(m, d, cctx)
  return m, tr.launches()


def collider_counts(ctx, launches):
  """interpret every narrowphase kernel for one generic collision slot -> {collider label: z3 count}, background"""
  from checks import lib
  from mujoco_warp._src import collision_convex as cc
  from mujoco_warp._src import collision_primitive as cp

  counts, bg = {}, []
  for ev in launches:
    k = ev.kernel
    cl = inspect.getclosurevars(k.func)
    calls = []

    def rec(label):
      def f(it, fr, args):
        calls.append((label, it.active(fr)))
        return None

      return f

    summ = {}
    if "primitive_collisions_func" in cl.nonlocals:
      summ[cp.contact_params.key] = lambda it, fr, args: (0, 0.0, 0.0, 0, 0.0, 0.0, 0.0, 0.0, 0.0)
      summ[cp.geom_collision_pair.key] = lambda it, fr, args: (0, 0)
      for f in cl.nonlocals["primitive_collisions_func"]:
        summ[f.key] = rec(f"primitive:{f.key}")
      scal = {}
    elif "eval_ccd_write_contact" in cl.nonlocals:
      summ[cc.contact_margin_gap.key] = lambda it, fr, args: (0.0, 0.0)
      summ[cc.geom_collision_pair_from_types.key] = lambda it, fr, args: (0, 0)
      summ[cl.nonlocals["eval_ccd_write_contact"].key] = rec(f"ccd({cl.nonlocals['geomtype1']},{cl.nonlocals['geomtype2']})")
      scal = {"grid_stride_in": 4096}
    else:
      raise core.Unsupported(f"narrowphase kernel {k.key} has no dispatch model (hfield / sdf)")
    ctx.encode(k)
    kt = lib.kernel_thread(k, unroll=1, scalars=scal, interp_kw={"summaries": summ, "float_uf": True})
    bg += kt.bg
    for label, g in calls:
      counts[label] = core.arith("+", counts.get(label, 0), core.ite(g, 1, 0))
    last = kt
  return counts, bg, last


def unit_dispatch(hname, hist):
  def run(ctx):
    from mujoco_warp._src import collision_primitive as cp

    earlier, current = hist
    ctx.encode(cp.primitive_narrowphase)
    ctx.bound(history=f"{len(earlier)} earlier model(s): " + "; ".join(f"{'+'.join(g)}{' nativeccd=off' if f else ''}" for g, f in earlier), current=f"{'+'.join(current[0])}{' nativeccd=off' if current[1] else ''}", unroll="one generic collision slot per kernel")
    ctx.assume("the collision slot is live (index < ncollision, < naconmax) and holds a pair of geoms of the current model (pair type with geom_pair_type_count > 0)", "contact_params / geom_collision_pair / the colliders themselves are summarised (only WHICH collider runs is decided here)")
    # fresh process: only the current model
    reset_process_state()
    m0, L0 = trace_narrowphase(current)
    c0, bg0, kt0 = collider_counts(ctx, L0)
    # after the history
    reset_process_state()
    for cfg in earlier:
      trace_narrowphase(cfg)
    m1, L1 = trace_narrowphase(current)
    c1, bg1, kt1 = collider_counts(ctx, L1)
    reset_process_state()
    ctx.notes.append(f"fresh: {len(L0)} narrowphase launches, {len(c0)} colliders; after history: {len(L1)} launches, {len(c1)} colliders")
    tid = kt1.tid
    t1 = kt1.pre("geom_type", kt1.pre("collision_pair_in", tid, k=0))
    t2 = kt1.pre("geom_type", kt1.pre("collision_pair_in", tid, k=1))
    ncoll, nmax = kt1.pre("ncollision_in", 0), kt1.args["naconmax_in"]
    # pair types present in the current model
    from mujoco_warp._src.collision_primitive import upper_trid_index
    from mujoco_warp._src.types import GeomType

    present = []
    n = len(GeomType)
    for a in range(n):
      for b in range(a, n):
        if m1.geom_pair_type_count[upper_trid_index(n, a, b)]:
          present.append(z3.And(t1 == a, t2 == b))
    pre = [tid < ncoll, tid < nmax, z3.Or(*present)]
    sess = ctx.session(bg0 + bg1 + pre)
    ctx.reach(sess, "twin:live-slot", True)
    names = {"type1": t1, "type2": t2}
    for label in sorted(set(c0) | set(c1)):
      a, b = c0.get(label, 0), c1.get(label, 0)
      if ctx.tier == "thorough" and label in c0:
        ctx.reach(sess, f"twin:collider-runs/{label}", core.cmp(">", a, 0))
      ctx.prove(
        sess,
        f"same-dispatch/{label}",
        core.cmp("==", a, b),
        names=names,
        replay=replay_dispatch(ctx, hname, earlier, current, t1, t2),
        desc=f"after the history [{hname}] a collision of this geom-type pair invokes collider {label} a different number of times than in a fresh process: contacts of the model depend on what ran before",
      )

  return (f"dispatch/{hname}", run)


REPLAY_SCRIPT = r"""
import sys, json
import numpy as np, mujoco, warp as wp
wp.config.quiet = True
import mujoco_warp as mjw
from checks import c36, trace_c32
spec = json.load(open(sys.argv[1]))
mode = sys.argv[2]
if mode == "history":
  for geoms, flag in spec["earlier"]:
    mjm = mujoco.MjModel.from_xml_string(c36.model_xml(geoms, flag))
    m = mjw.put_model(mjm); d = mjw.make_data(mjm, nworld=1, nconmax=64, njmax=256)
    with trace_c32.TraceRun(m, d):   # host side only: registration / caches; nothing of an earlier model survives on the device
      mjw.collision(m, d)
geoms, flag = spec["current"]
mjm = mujoco.MjModel.from_xml_string(c36.model_xml(geoms, flag))
mjd = mujoco.MjData(mjm); mujoco.mj_forward(mjm, mjd)
m = mjw.put_model(mjm); d = mjw.put_data(mjm, mjd, nconmax=64, njmax=256)
mjw.kinematics(m, d); mjw.collision(m, d)
n = int(d.nacon.numpy()[0])
g = d.contact.geom.numpy()[:n]; dist = d.contact.dist.numpy()[:n]
rows = sorted((int(a), int(b), round(float(x), 4)) for (a, b), x in zip(g, dist))
print("RESULT " + json.dumps({"nacon": n, "contacts": rows, "mujoco_ncon": int(mjd.ncon)}))
"""


def replay_dispatch(ctx, hname, earlier, current, t1, t2):
  def _rp(model):
    a, b = kh.mval(model, t1), kh.mval(model, t2)
    inv = {v: k for k, v in GT.items()}
    # the current model reduced to the two geom types of the counterexample (keeps compile time of the replay small)
    geoms = list(current[0]) if len(current[0]) <= 4 else [inv[a], inv[b]]
    os.makedirs(os.path.join(report.VERIF, "replays", PID), exist_ok=True)
    path = os.path.join(report.VERIF, "replays", PID, f"dispatch.{hname}.json")
    spec = {"property": PID, "earlier": [[g, f] for g, f in earlier], "current": [geoms, current[1]], "type1": a, "type2": b}
    with open(path, "w") as f:
      json.dump(spec, f)
    spath = os.path.join(report.VERIF, "replays", PID, "dispatch_replay.py")
    with open(spath, "w") as f:
      f.write(REPLAY_SCRIPT)
    res = {}
    for mode in ("alone", "history"):
      p = subprocess.run([sys.executable, spath, path, mode], capture_output=True, text=True, timeout=1500, env=dict(os.environ))
      line = [l for l in p.stdout.splitlines() if l.startswith("RESULT ")]
      if not line:
        raise RuntimeError(f"dispatch replay ({mode}) failed: {p.stderr[-800:]}")
      res[mode] = json.loads(line[-1][7:])
    spec.update(result=res, how=f"python {spath} {path} alone   vs   python {spath} {path} history  (PYTHONPATH as set by ./vcheck)")
    with open(path, "w") as f:
      json.dump(spec, f)
    return res["alone"] != res["history"], path

  return _rp


# ----------------------------------------------------------------------------------------------------- inventory

EXPECTED_GLOBAL_STATE = {"warp_util._KERNEL_CACHE", "collision_primitive._PRIMITIVE_COLLISION_TYPES", "collision_primitive._PRIMITIVE_COLLISION_FUNC"}


def unit_inventory(ctx):
  """side condition (enumeration): which module-level containers of mujoco_warp._src change while models are stepped"""
  import pkgutil

  import mujoco

  import mujoco_warp as mjw
  import mujoco_warp._src as src
  from checks import trace_c32
  from wsym import harvest

  mods = []
  for n in pkgutil.iter_modules(src.__path__):
    if n.name.endswith("_test"):
      continue
    try:
      mods.append((n.name, importlib.import_module(f"{SRC_PKG}.{n.name}")))
    except Exception:
      pass

  def snap():
    out = {}
    for mn, mod in mods:
      for k, v in vars(mod).items():
        if isinstance(v, (list, dict, set)) and not k.startswith("__"):
          try:
            out[f"{mn}.{k}"] = (id(v), len(v), hash(repr(sorted(map(repr, v)))[:100000]))
          except Exception:
            out[f"{mn}.{k}"] = (id(v), len(v), 0)
    return out

  s0 = snap()
  for mname, xml in harvest.CORPUS.items():
    for vname, opt, flag in harvest.VARIANTS[:3]:
      mjm = mujoco.MjModel.from_xml_string(xml.format(opt=opt, flag=flag))
      m = mjw.put_model(mjm)
      d = mjw.make_data(mjm, nworld=2)
      with trace_c32.TraceRun(m, d):
        mjw.step(m, d)
        mjw.reset_data(m, d)
  s1 = snap()
  changed = {k for k in s1 if s0.get(k) != s1[k]}
  ctx.notes.append(f"module-level containers scanned: {len(s1)}; changed while stepping: {sorted(changed)}")
  extra = changed - EXPECTED_GLOBAL_STATE
  if extra:
    ctx.error(f"unmodelled process-global state changes while models are stepped: {sorted(extra)} (the C36 claim does not cover it)")
  sess = ctx.session([])
  ctx.reach(sess, "twin:known-state-is-exercised", z3.BoolVal(EXPECTED_GLOBAL_STATE <= changed))


def main(tier, seed, only=None):
  mods = sorted({b["module"] for b in ps.scan_builders(src_dir())})
  big = [mn for mn in mods if mn in ("constraint", "solver")]
  units = [unit_key_module(mn, [mn]) for mn in big] + [unit_key_module("other", [mn for mn in mods if mn not in big])]
  units.append(("key/cross", unit_key_cross))
  units.append(("key/observed", unit_key_observed))
  units.append(("hashmodel", unit_hashmodel))
  hs = dict(HISTORIES)
  if tier == "thorough":
    hs.update(HISTORIES_THOROUGH)
  units += [unit_dispatch(n, h) for n, h in hs.items()]
  units.append(("inventory", unit_inventory))
  if only:
    units = [u for u in units if any(o in u[0] for o in only)]
  return report.run_check(PID, units, tier, seed, unit_timeout=900 if tier == "quick" else 1800)
