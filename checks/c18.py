"""C18 Broadphase choice does not change contacts (partial).

K-mode solver queries over the real broadphase kernels (one generic thread, array contents symbolic, ngeom <= 4, nworld <= 2;
Warp's sort and scan are replaced by their contracts: sorted lower projections, inclusive prefix sums):
 sap_range      every later element whose projection interval overlaps lies inside the computed sweep range, range in bounds
 sap_decode     _sap_broadphase: work package p decodes to the unique (world, sorted position, offset) of the prefix sums;
                the emitted record is that pair in that world with the pair's own nxn_pairid; excluded pairs are skipped
 sap_order      the emitted pair is in the canonical order the all-pairs broadphase (and MuJoCo) uses
 nxn            _nxn_broadphase emits exactly the listed pair / world / pairid when the filter passes or a collision sensor asks
 same_decision  for the same pair and world both kernels take the same emit decision (same filter, same pair-id rule), all masks
 filters        _sphere_filter / _plane_filter pass whenever the bounding spheres really are within margin (nonlinear reals);
                both are symmetric in their arguments (needed because SAP may present the pair swapped)
 project        _sap_project writes centre -/+ (rbound + margin + gap) along the axis
Outside: AABB / OBB filter geometry, Warp sort / scan / tile sort, NaN poses, the narrowphase.
"""

import z3

from checks import lib
from wsym import core, kh, report
from wsym.core import And, Implies, Not, Or, arith, cmp, ite

PID = "C18"
MAXVAL = 1.0e10


def parts(kt, cap):
  """background without the unwinding assumptions (they are proved, not assumed) + the unwinding obligations"""
  base = []
  for t in kt.tid if isinstance(kt.tid, tuple) else (kt.tid,):
    if core.is_sym(t):
      base.append(z3.And(t >= 0, t <= cap))
  base += kt.shapes_bg
  base += [core.zbool(a) for a in kt.it.assumes]
  unw = []
  for o in kt.it.obl:
    if o.kind == "unwind":
      unw.append(core.zbool(Implies(o.guard, o.cond)))
    elif o.kind == "bounds":
      base.append(core.zbool(Implies(o.guard, o.strict)))
  return base, unw


# ------------------------------------------------------------------------------------------------------------ sap_range


def goal_range(spec, pre, post):
  e = spec["env"]
  w, s, p, n = e["w"], e["s"], e["p"], e["n"]
  lower, upper, si = pre["lower_in"], pre["upper_in"], pre["sort_index_in"]
  r = int(post["range_out"][w, s])
  overlap = s < p < n and float(lower[w, p]) <= float(upper[w, si[w, s]])
  ok = (not overlap or p <= s + r) and 0 <= r <= n - 1 - s
  return ok, f"sorted lower {lower[w, :n].tolist()}, element {s} (geom {si[w, s]}, upper {upper[w, si[w, s]]}) got range {r}; position {p} overlaps={overlap}"


def unit_sap_range(NG):
  def run(ctx):
    from mujoco_warp._src import collision_core as ccore

    k = ccore.sap_range
    ctx.encode(k, ccore.sap_binary_search)
    ctx.bound(ngeom=f"<= {NG}", unroll=4)
    ctx.assume("lower_in[world, 0:n] is sorted ascending (contract of the segmented / tile sort)", "sort_index_in holds geom ids in [0, n)", "finite projections (no NaN)")
    n = z3.Int("n")
    kt = lib.kernel_thread(k, scalars={"n": n}, unroll=4, cap=NG)
    base, unw = parts(kt, NG)
    w, s = kt.tid
    pre = [n >= 1, n <= NG, s < n]
    for a in range(NG):
      for b in range(a + 1, NG):
        pre.append(z3.Implies(b < n, kt.pre("lower_in", w, a) <= kt.pre("lower_in", w, b)))
    idx = kt.pre("sort_index_in", w, s)
    pre += [idx >= 0, idx < n]
    sess = ctx.session(base + pre)
    ctx.reach(sess, "twin:reachable", True)
    p = z3.Int("p")
    r = kt.post("range_out", w, s)
    names = {"w": w, "s": s, "p": p, "n": n, "range": r}
    loc = "mujoco_warp._src.collision_core:sap_range"
    rp = lib.make_replay(ctx, kt, loc, "range", "goal", goal="checks.c18:goal_range", env={"w": w, "s": s, "p": p, "n": n})
    for i, u in enumerate(unw):
      ctx.prove(sess, f"unwind/{i}", u, names=names, replay=rp, desc="binary search needs more iterations than the unrolling bound (harness bound too small)")
    sess2 = ctx.session(base + pre + unw)
    overlap = z3.And(p > s, p < n, kt.pre("lower_in", w, p) <= kt.pre("upper_in", w, idx))
    ctx.reach(sess2, "twin:overlap", overlap)
    ctx.prove(sess2, "overlapping-element-inside-range", p <= s + r, overlap, names=names, replay=rp, desc="sap_range: a later element whose lower projection is <= this element's upper projection lies outside the sweep range: the pair is never tested")
    ctx.prove(sess2, "range-in-bounds", z3.And(r >= 0, r <= n - 1 - s), names=names, replay=rp, desc="sap_range: range negative or reaching past the last sorted element")

  return (f"sap_range/n{NG}", run)


# -------------------------------------------------------------------------------------------------------- broadphases


def tri(n, a, b):
  """index of pair (a < b) in the strict upper triangle, row-major (MuJoCo / put_model pair enumeration)"""
  return arith("-", arith("+", arith("//", arith("*", a, arith("-", arith("-", 2 * n, a), 3)), 2), b), 1)


def tri_py(n, a, b):
  return (a * (2 * n - a - 3)) // 2 + b - 1


def pair_lookup(kt, label, NG, lo, hi):
  """nxn_pairid[upper_tri_index(lo, hi)] as a case split over the concrete pairs (keeps the reference side linear)"""
  p0, p1 = z3.IntVal(-7), z3.IntVal(-7)
  for a in range(NG):
    for b in range(a + 1, NG):
      c = z3.And(lo == a, hi == b)
      i = tri_py(NG, a, b)
      p0 = z3.If(c, kt.pre(label, i, k=0), p0)
      p1 = z3.If(c, kt.pre(label, i, k=1), p1)
  return p0, p1


def included(p0, p1):
  """put_model: nxn_include = (nxn_pairid_contact > -2) | (nxn_pairid_collision >= 0)"""
  return z3.Or(p0 > -2, p1 >= 0)


def filter_summaries(mask, always=False):
  """masks with AABB / OBB bits: the four filter funcs become uninterpreted predicates of their (flattened) arguments; both
  kernels call the same module-level funcs, so 'same decision' only needs them to be functions of identical inputs"""
  from mujoco_warp._src import collision_driver as cd

  if not (mask & 12) and not always:
    return {}

  def mk(f):
    def summ(it, fr, args):
      flat = []
      for a in args:
        flat += list(a.c) if isinstance(a, core.Vec) else [a]
      zs = [core.to_z3(x, "real") for x in flat]
      F = z3.Function(f"verdict_{f.key}", *([z3.RealSort()] * len(zs)), z3.BoolSort())
      return F(*zs)

    return summ

  return {f.key: mk(f) for f in (cd._plane_filter, cd._sphere_filter, cd._aabb_filter, cd._obb_filter)}


def sap_thread(ctx, mask, NW, NG, float_uf=True, summ_all=False):
  from mujoco_warp._src import collision_driver as cd

  k = cd._sap_broadphase(mask, 1, 1, 1, 1)
  nmax = z3.Int("naconmax_in")
  npair = NG * (NG - 1) // 2
  shapes = {"cumulative_sum_in": [NW * NG], "sort_index_in": [2 * NW, NG], "nxn_pairid": [npair], "geom_type": [NG], "ncollision_out": [1]}
  kt = lib.kernel_thread(k, shapes=shapes, scalars={"ngeom": NG, "nworld_in": NW, "nsweep_in": 5 * NW * NG, "naconmax_in": nmax}, unroll=4, cap=64, interp_kw={"float_uf": float_uf, "summaries": filter_summaries(mask, summ_all)})
  return k, kt


def sap_pre(kt, NW, NG):
  """contracts of the stages before the sweep kernel"""
  p = kt.tid
  cs = [kt.pre("cumulative_sum_in", i) for i in range(NW * NG)]
  pre = []
  prev = 0
  for i in range(NW * NG):
    r = cs[i] - prev
    pre += [r >= 0, r <= NG - 1 - (i % NG)]
    prev = cs[i]
  for w in range(NW):
    vals = [kt.pre("sort_index_in", w, s) for s in range(NG)]
    pre += [z3.And(v >= 0, v < NG) for v in vals]
    pre.append(z3.Distinct(*vals))
  nc0 = kt.pre("ncollision_out", 0)
  pre += [p >= 0, p < cs[-1], nc0 >= 0, nc0 < kt.args["naconmax_in"]]
  return pre, cs, nc0


def sap_decode_terms(kt, cs, NW, NG):
  """reference decoding of package p from the prefix sums: flat element I, offset k (symbolic I fixed by its contract)"""
  p = kt.tid
  I = z3.Int("I")
  csI = z3.IntVal(0)
  csIm1 = z3.IntVal(0)
  for i in range(NW * NG):
    csI = z3.If(I == i, cs[i], csI)
    if i > 0:
      csIm1 = z3.If(I == i, cs[i - 1], csIm1)
  fix = [I >= 0, I < NW * NG, csIm1 <= p, p < csI]
  kk = p - csIm1
  w, s = I / NG, I % NG
  return I, fix, w, s, kk


def goal_sap(spec, pre, post):
  """replay goal for the sweep kernel: recompute the reference decoding in numpy and compare with the emitted record"""
  import numpy as np

  e = spec["env"]
  NW, NG, what = e["NW"], e["NG"], e["what"]
  p = spec["tid"][0]
  cs = pre["cumulative_sum_in"]
  I = int(np.searchsorted(cs, p, side="right"))
  k = p - (int(cs[I - 1]) if I > 0 else 0)
  w, s = I // NG, I % NG
  si = pre["sort_index_in"]
  g1, g2 = int(si[w, s]), int(si[w, (s + k + 1) % NG])
  a, b = min(g1, g2), max(g1, g2)
  idx = tri_py(NG, a, b)
  pid = pre["nxn_pairid"][idx]
  nc0, nc1 = int(pre["ncollision_out"][0]), int(post["ncollision_out"][0])
  emitted = nc1 - nc0
  gt = pre["geom_type"]
  canon = [b, a] if gt[a] > gt[b] else [a, b]
  rec = None
  if emitted == 1:
    rec = {"pair": post["collision_pair_out"][nc0].tolist(), "world": int(post["collision_worldid_out"][nc0]), "pairid": post["collision_pairid_out"][nc0].tolist()}
  text = f"package {p}: element {I} (world {w}, sorted pos {s}) offset {k} -> geoms ({g1},{g2}) types ({gt[g1]},{gt[g2]}) nxn_pairid[{idx}]={pid.tolist()}; emitted {emitted} record {rec}; canonical pair {canon}"
  incl = pid[0] > -2 or pid[1] >= 0
  if what == "excluded":
    return (incl or emitted == 0), text
  if what == "emit-nofilter":
    return (not incl or emitted == 1), text
  if emitted != 1:
    return True, text + " (nothing emitted)"
  if what == "record":
    ok = sorted(rec["pair"]) == [a, b] and rec["world"] == w and rec["pairid"] == pid.tolist()
    return ok, text
  if what == "order":
    return rec["pair"] == canon, text
  return True, text


def unit_sap(NW, NG, mask):
  def run(ctx):
    from mujoco_warp._src import collision_driver as cd

    k, kt = sap_thread(ctx, mask, NW, NG, summ_all=True)
    ctx.encode(k, cd._add_geom_pair, cd.sap_binary_search if hasattr(cd, "sap_binary_search") else k)
    ctx.bound(nworld=NW, ngeom=NG, filter_mask=mask, unroll=4, nsweep="5*nworld*ngeom (host value)")
    ctx.assume(
      "cumulative_sum_in is the inclusive prefix sum of ranges with 0 <= range[w, s] <= ngeom-1-s (sap_range unit + contract of wp.utils.array_scan)",
      "sort_index_in[w] is a permutation of the geom ids (contract of the sort)",
      "no broadphase overflow: ncollision < naconmax before the thread",
      "float products are uninterpreted (which record is emitted does not depend on float arithmetic; the filter verdict is an arbitrary function of its inputs)",
    )
    base, unw = parts(kt, 10**6)
    pre, cs, nc0 = sap_pre(kt, NW, NG)
    I, fix, w, s, kk = sap_decode_terms(kt, cs, NW, NG)
    sess0 = ctx.session(base + pre)
    ctx.reach(sess0, "twin:package-exists", True)
    loc = f"mujoco_warp._src.collision_driver:_sap_broadphase({mask}, 1, 1, 1, 1)"

    def rp(name, what):
      return lib.make_replay(ctx, kt, loc, name, "goal", goal="checks.c18:goal_sap", env={"NW": NW, "NG": NG, "what": what, "randomize_floats": 2})

    names = {"p": kt.tid, "ncollision0": nc0}
    for i, u in enumerate(unw):
      ctx.prove(sess0, f"unwind/{i}", u, names=names, replay=rp(f"unwind{i}", "record"), desc="a loop of _sap_broadphase needs more iterations than the unrolling bound (harness bound too small)")
    sess = ctx.session(base + pre + unw + fix)
    ctx.reach(sess, "twin:decoding-exists", True)
    # emitted record
    emitted = kt.atomic_total("ncollision_out", 0)
    pair = kt.postv("collision_pair_out", nc0)
    wid = kt.post("collision_worldid_out", nc0)
    pid = kt.postv("collision_pairid_out", nc0)

    def sidx(ww, ss):
      out = z3.IntVal(0)
      for a in range(NW):
        for b in range(NG):
          out = z3.If(z3.And(ww == a, ss == b), kt.pre("sort_index_in", a, b), out)
      return out

    g1, g2 = sidx(w, s), sidx(w, s + kk + 1)
    lo, hi = z3.If(g1 < g2, g1, g2), z3.If(g1 < g2, g2, g1)
    p0, p1 = pair_lookup(kt, "nxn_pairid", NG, lo, hi)
    names.update({"I": I, "world": w, "pos": s, "offset": kk, "geom1": g1, "geom2": g2, "pairid0": p0, "pairid1": p1, "emitted": emitted, "type1": kt.pre("geom_type", g1), "type2": kt.pre("geom_type", g2)})
    ctx.reach(sess, "twin:emits", emitted == 1)
    ctx.prove(sess, "decode/offset-in-row", s + kk + 1 < NG, names=names, replay=rp("offset", "record"), desc="_sap_broadphase: decoded partner position leaves the world's row")
    ctx.prove(sess, "decode/at-most-once", z3.Or(emitted == 0, emitted == 1), names=names, replay=rp("once", "record"), desc="_sap_broadphase: one work package emits more than one record")
    rec_ok = z3.And(z3.Or(z3.And(pair.c[0] == g1, pair.c[1] == g2), z3.And(pair.c[0] == g2, pair.c[1] == g1)), wid == w, pid.c[0] == p0, pid.c[1] == p1)
    ctx.prove(sess, "decode/record", rec_ok, emitted == 1, names=names, replay=rp("record", "record"), desc="_sap_broadphase: the record emitted for work package p is not (the pair at sorted positions (s, s+k+1) of the prefix-sum decoding, its world, its nxn_pairid)")
    ctx.prove(sess, "skip/excluded-pair-never-emitted", emitted == 0, z3.Not(included(p0, p1)), names=names, replay=rp("excluded", "excluded"), desc="_sap_broadphase emits a pair that put_model excluded (nxn_pairid = (-2, -1)); the all-pairs broadphase never sees it")
    if mask == 0:
      ctx.prove(sess, "emit/no-filter-emits-every-included-package", emitted == 1, included(p0, p1), names=names, replay=rp("emit", "emit-nofilter"), desc="_sap_broadphase (no filter): an included pair inside the sweep range is not emitted")
    # canonical order (what _nxn_broadphase / MuJoCo produce): lower type first, ties by geom id
    ta, tb = kt.pre("geom_type", lo), kt.pre("geom_type", hi)
    canon0, canon1 = z3.If(ta > tb, hi, lo), z3.If(ta > tb, lo, hi)
    ctx.prove(sess, "order/canonical-pair-order", z3.And(pair.c[0] == canon0, pair.c[1] == canon1), emitted == 1, names=names, replay=rp("order", "order"), desc="_sap_broadphase emits a same-type pair as (higher id, lower id): contact.geom is swapped and the contact frame flipped relative to the all-pairs broadphase and MuJoCo")

  return (f"sap/w{NW}g{NG}/mask{mask}", run)


def goal_nxn(spec, pre, post):
  e = spec["env"]
  w, el = spec["tid"][0], spec["tid"][1]
  a, b = [int(x) for x in pre["nxn_geom_pair"][el]]
  pid = pre["nxn_pairid"][el].tolist()
  nc0, nc1 = int(pre["ncollision_out"][0]), int(post["ncollision_out"][0])
  gt = pre["geom_type"]
  canon = [b, a] if gt[a] > gt[b] else [a, b]
  rec = None
  if nc1 - nc0 == 1:
    rec = {"pair": post["collision_pair_out"][nc0].tolist(), "world": int(post["collision_worldid_out"][nc0]), "pairid": post["collision_pairid_out"][nc0].tolist()}
  text = f"thread ({w},{el}) pair ({a},{b}) pairid {pid}: emitted {nc1 - nc0}, record {rec}, expected pair {canon}"
  if e["what"] == "sensor":
    return (pid[1] < 0 or nc1 - nc0 == 1), text
  if rec is None:
    return nc1 - nc0 == 0, text
  return rec == {"pair": canon, "world": w, "pairid": pid}, text


def nxn_thread(mask, NG, float_uf=True, rename=True):
  from mujoco_warp._src import collision_driver as cd

  k = cd._nxn_broadphase(mask, 1, 1, 1, 1)
  nmax = z3.Int("naconmax_in")
  kt = lib.kernel_thread(k, shapes={"geom_type": [NG], "ncollision_out": [1]}, scalars={"naconmax_in": nmax}, unroll=2, cap=64, interp_kw={"float_uf": float_uf, "summaries": filter_summaries(mask)})
  return k, kt


def unit_nxn(NG, mask):
  def run(ctx):
    from mujoco_warp._src import collision_driver as cd

    k, kt = nxn_thread(mask, NG)
    ctx.encode(k, cd._add_geom_pair)
    ctx.bound(ngeom=NG, filter_mask=mask)
    ctx.assume("nxn_geom_pair_filtered[e] = (a, b) with 0 <= a < b < ngeom (put_model enumerates the strict upper triangle)", "no broadphase overflow")
    base, unw = parts(kt, 64)
    w, el = kt.tid
    pr = kt.prev("nxn_geom_pair", el)
    a, b = pr.c[0], pr.c[1]
    nc0 = kt.pre("ncollision_out", 0)
    pre = [a >= 0, a < b, b < NG, nc0 >= 0, nc0 < kt.args["naconmax_in"]]
    sess = ctx.session(base + pre + unw)
    ctx.reach(sess, "twin:reachable", True)
    emitted = kt.atomic_total("ncollision_out", 0)
    pair = kt.postv("collision_pair_out", nc0)
    wid = kt.post("collision_worldid_out", nc0)
    pid = kt.postv("collision_pairid_out", nc0)
    p0, p1 = kt.pre("nxn_pairid", el, k=0), kt.pre("nxn_pairid", el, k=1)
    ta, tb = kt.pre("geom_type", a), kt.pre("geom_type", b)
    names = {"world": w, "element": el, "geom1": a, "geom2": b, "pairid0": p0, "pairid1": p1, "type1": ta, "type2": tb, "emitted": emitted}
    loc = f"mujoco_warp._src.collision_driver:_nxn_broadphase({mask}, 1, 1, 1, 1)"

    def rp(name, what):
      return lib.make_replay(ctx, kt, loc, name, "goal", goal="checks.c18:goal_nxn", env={"what": what, "randomize_floats": 2})

    ctx.reach(sess, "twin:emits", emitted == 1)
    canon0, canon1 = z3.If(ta > tb, b, a), z3.If(ta > tb, a, b)
    ctx.prove(sess, "record", z3.And(pair.c[0] == canon0, pair.c[1] == canon1, wid == w, pid.c[0] == p0, pid.c[1] == p1), emitted == 1, names=names, replay=rp("record", "record"), desc="_nxn_broadphase: emitted record is not (the listed pair, lower geom type first; the thread's world; the pair's nxn_pairid)")
    ctx.prove(sess, "at-most-once", z3.Or(emitted == 0, emitted == 1), names=names, replay=rp("once", "record"), desc="_nxn_broadphase emits a pair more than once")
    ctx.prove(sess, "collision-sensor-pair-always-emitted", emitted == 1, p1 >= 0, names=names, replay=rp("sensor", "sensor"), desc="_nxn_broadphase: a pair requested by a collision sensor (nxn_pairid[1] >= 0) is dropped by the filter")
    if mask == 0:
      ctx.prove(sess, "no-filter-emits-all", emitted == 1, names=names, replay=rp("nofilter", "sensor"), desc="_nxn_broadphase without filters drops a listed pair")

  return (f"nxn/g{NG}/mask{mask}", run)


def unit_same_decision(NW, NG, mask):
  """both kernels, same pair presented in the same order, same world: same emit decision"""

  def run(ctx):
    from mujoco_warp._src import collision_driver as cd

    ks, kts = sap_thread(ctx, mask, NW, NG)
    kn, ktn = nxn_thread(mask, NG)
    ctx.encode(ks, kn, cd._plane_filter, cd._sphere_filter, cd._aabb_filter, cd._obb_filter)
    ctx.bound(nworld=NW, ngeom=NG, filter_mask=mask)
    ctx.assume(
      "both kernels read the same Model / Data arrays (identical argument labels are identified); nxn_pairid of the all-pairs kernel is the filtered table: nxn_pairid_filtered[e] == nxn_pairid[upper_tri_index(a, b)] for nxn_geom_pair_filtered[e] == (a, b) (io.put_model; decided by C19)",
      "float products / quotients / sqrt are uninterpreted functions: the filters are compared as functions of identical inputs",
    )
    # the all-pairs kernel's pair table is a different host array than the sweep kernel's: rename its symbols
    cn = ktn.cell("nxn_pairid")
    ren = [(a, z3.Array("nxnf_" + str(a), *[a.sort().domain(i) for i in range(a.sort().arity())], a.sort().range()) if False else z3.Const("nxnf_" + str(a), a.sort())) for a in cn.a0]
    tidn = ktn.tid
    ren += [(tidn[0], z3.Int("nxn_world")), (tidn[1], z3.Int("nxn_element"))]

    def R(t):
      if isinstance(t, bool):
        return z3.BoolVal(t)
      if not z3.is_expr(t):
        return t
      return z3.substitute(t, *ren)

    bs, us = parts(kts, 10**6)
    bn, un = parts(ktn, 64)
    pre, cs, nc0 = sap_pre(kts, NW, NG)
    I, fix, w, s, kk = sap_decode_terms(kts, cs, NW, NG)
    el = tidn[1]
    prn = ktn.prev("nxn_geom_pair", el)
    a, b = R(prn.c[0]), R(prn.c[1])
    e_s = core.to_z3(kts.atomic_total("ncollision_out", 0), "int")
    e_n = core.to_z3(R(ktn.atomic_total("ncollision_out", 0)), "int")
    pair_s = kts.postv("collision_pair_out", nc0)

    def sidx(ww, ss):
      out = z3.IntVal(0)
      for x in range(NW):
        for y in range(NG):
          out = z3.If(z3.And(ww == x, ss == y), kts.pre("sort_index_in", x, y), out)
      return out

    g1, g2 = sidx(w, s), sidx(w, s + kk + 1)
    p0s, p1s = pair_lookup(kts, "nxn_pairid", NG, a, b)
    p0n, p1n = R(ktn.pre("nxn_pairid", el, k=0)), R(ktn.pre("nxn_pairid", el, k=1))
    link = [a >= 0, a < b, b < NG, g1 == a, g2 == b, z3.Int("nxn_world") == w, p0s == p0n, p1s == p1n, included(p0n, p1n)]
    bgn = [R(x) for x in bn + un]
    # the engine orders the operands of the uninterpreted product syntactically; across two kernels equal operands may be
    # syntactically different terms, so commutativity is stated explicitly
    fx, fy = z3.Reals("fx fy")
    fmul = z3.Function("fmul", z3.RealSort(), z3.RealSort(), z3.RealSort())
    comm = [z3.ForAll([fx, fy], fmul(fx, fy) == fmul(fy, fx))]
    sess = ctx.session(bs + us + pre + fix + bgn + link + comm)
    ctx.reach(sess, "twin:same-ordered-pair", True)
    ctx.reach(sess, "twin:both-emit", z3.And(e_s == 1, e_n == 1))
    ctx.reach(sess, "twin:none-emits", z3.And(e_s == 0, e_n == 0)) if mask else None
    names = {"p": kts.tid, "world": w, "geom1": a, "geom2": b, "pairid0": p0n, "pairid1": p1n, "emit_sap": e_s, "emit_nxn": e_n}
    ctx.prove(
      sess,
      "same-emit-decision",
      e_s == e_n,
      names=names,
      replay=replay_same_decision(ctx, mask, NW, NG, kts, ktn, R),
      desc=f"for the same ordered geom pair, world and pair ids, _sap_broadphase and _nxn_broadphase (filter mask {mask}) take different emit decisions: the broadphase choice changes the candidate pairs",
    )

  return (f"same_decision/w{NW}g{NG}/mask{mask}", run)


def replay_same_decision(ctx, mask, NW, NG, kts, ktn, R):
  """replay both real kernels (single thread each) on the model's arrays; reproduced iff their emit counts differ"""
  from wsym import replay as rpl

  def _rp(model):
    import json

    locs = f"mujoco_warp._src.collision_driver:_sap_broadphase({mask}, 1, 1, 1, 1)"
    locn = f"mujoco_warp._src.collision_driver:_nxn_broadphase({mask}, 1, 1, 1, 1)"
    # evaluate the renamed all-pairs symbols: build a model view by substituting back is not possible; instead evaluate
    # the all-pairs kernel's arguments under the renaming through a wrapper model
    class M2:
      def eval(self, t, model_completion=True):
        return model.eval(R(t), model_completion=model_completion)

    p1 = rpl.write_spec(PID, ctx.unit, "same-decision-sap", locs, kts.kernel, kts.args, model, kts.tid, "goal", goal="checks.c18:goal_count", env={})
    p2 = rpl.write_spec(PID, ctx.unit, "same-decision-nxn", locn, ktn.kernel, ktn.args, M2(), ktn.tid, "goal", goal="checks.c18:goal_count", env={})
    import os, re, subprocess, sys

    def variant(path, kind):
      """float inputs: as the solver chose / all geoms far apart (filters reject) / all coincident (filters pass)"""
      if kind == "solver":
        return path
      spec = json.load(open(path))
      A = spec["args"]

      def fill(label, fn):
        if label in A and A[label].get("array"):
          d = A[label]["data"]
          n = len(d[0])
          for k in range(len(d)):
            for i in range(n):
              d[k][i] = fn(k, i)

      fill("geom_xpos_in", (lambda k, i: 100.0 * i if k == 0 else 0.0) if kind == "far" else (lambda k, i: 0.0))
      fill("geom_rbound", lambda k, i: 0.1)
      fill("geom_margin", lambda k, i: 0.0)
      fill("geom_gap", lambda k, i: 0.0)
      fill("geom_xmat_in", lambda k, i: 1.0 if k in (0, 4, 8) else 0.0)
      fill("geom_aabb", lambda k, i: 0.0 if i % 2 == 0 else 0.1)
      q = path.replace(".json", f".{kind}.json")
      json.dump(spec, open(q, "w"))
      return q

    tried = []
    for kind in ("solver", "far", "near"):
      c = []
      paths = []
      for p in (p1, p2):
        q = variant(p, kind)
        paths.append(q)
        r = subprocess.run([sys.executable, "-m", "wsym.replay", q], cwd=report.VERIF, env=dict(os.environ), capture_output=True, text=True, timeout=600)
        m = re.search(r"emitted=(-?\d+)", r.stdout)
        if not m:
          raise RuntimeError(f"replay output not understood: {(r.stdout + r.stderr)[-400:]}")
        c.append(int(m.group(1)))
      tried.append(f"{kind}: sap emitted={c[0]} nxn emitted={c[1]}")
      if c[0] != c[1]:
        return True, f"{paths[0]} (emitted={c[0]}) vs {paths[1]} (emitted={c[1]}) [{kind} floats]"
    return False, f"{p1} / {p2}: {'; '.join(tried)}"

  return _rp


def goal_count(spec, pre, post):
  n = int(post["ncollision_out"][0]) - int(pre["ncollision_out"][0])
  return False, f"emitted={n}"


# ------------------------------------------------------------------------------------------------------------- filters


def vec3(name):
  return core.Vec([z3.Real(f"{name}{i}") for i in range(3)], (3,), float)


def dot(a, b):
  return sum(x * y for x, y in zip(a, b))


def call_func(f, args, **kw):
  it, ret = kh.run(f, args, **kw)
  return it, ret


def replay_func(ctx, fname, argnames, args, expect_text):
  """evaluate the real wp.func on the model's values through a generated one-thread kernel"""

  def _rp(model):
    import os
    import subprocess
    import sys
    import json

    vals = []
    for a in args:
      v = kh.mval(model, a)
      vals.append(v)
    os.makedirs(os.path.join(report.VERIF, "replays", PID), exist_ok=True)
    path = os.path.join(report.VERIF, "replays", PID, f"{fname}.{ctx.unit.replace('/', '_')}.json")
    json.dump({"property": PID, "func": fname, "args": vals, "expect": expect_text}, open(path, "w"))
    code = f"""
import json, sys, numpy as np, warp as wp
wp.config.quiet = True
from mujoco_warp._src import collision_driver as cd
spec = json.load(open({path!r}))
f = getattr(cd, spec["func"])
def conv(v):
  if isinstance(v, list) and len(v) == 3: return wp.vec3(*v)
  if isinstance(v, list) and len(v) == 9: return wp.mat33(*v)
  return float(v)
A = [conv(v) for v in spec["args"]]
if len(A) == 8:
  @wp.kernel
  def k(a0: float, a1: float, a2: float, a3: float, a4: wp.vec3, a5: wp.vec3, a6: wp.mat33, a7: wp.mat33, out: wp.array[int]):
    out[0] = int(f(a0, a1, a2, a3, a4, a5, a6, a7))
    out[1] = int(f(a1, a0, a3, a2, a5, a4, a7, a6))
else:
  @wp.kernel
  def k(a0: float, a1: float, a2: float, a3: float, a4: wp.vec3, a5: wp.vec3, out: wp.array[int]):
    out[0] = int(f(a0, a1, a2, a3, a4, a5))
    out[1] = int(f(a1, a0, a3, a2, a5, a4))
out = wp.zeros(2, dtype=int)
wp.launch(k, dim=1, inputs=A, outputs=[out])
print("RESULT", out.numpy().tolist())
"""
    spath = path.replace(".json", ".py")
    open(spath, "w").write(code)
    p = subprocess.run([sys.executable, spath], capture_output=True, text=True, timeout=600)
    line = [l for l in p.stdout.splitlines() if l.startswith("RESULT")]
    if not line:
      raise RuntimeError(p.stderr[-600:])
    r = json.loads(line[-1][7:])
    return r, path

  return _rp


def unit_filters(ctx):
  """MuJoCo (mj_filterSphere / plane test): a pair is skipped only if centre distance - radii > margin, margin = max of the
  two geom margins.  mujoco_warp adds both (margin + gap) terms, which is conservative for non-negative margins."""
  from mujoco_warp._src import collision_driver as cd

  ctx.encode(cd._sphere_filter, cd._plane_filter)
  ctx.assume("effective margins (margin + gap) are >= 0", "within margin := centre distance - radii <= max(margin1, margin2) (MuJoCo's bounding-sphere test)", "plane normal = third column of the plane's xmat; not both geoms are planes")
  r1, r2, m1, m2 = z3.Reals("r1 r2 m1 m2")
  x1, x2 = vec3("x1_"), vec3("x2_")

  def sub(a, b):
    return [x - y for x, y in zip(a.c, b.c)]

  mmax = z3.If(m1 >= m2, m1, m2)
  names = {"r1": r1, "r2": r2, "m1": m1, "m2": m2}
  it, res = call_func(cd._sphere_filter, [r1, r2, m1, m2, x1, x2])
  D = z3.Real("centre_dist")
  hyp = [r1 >= 0, r2 >= 0, m1 >= 0, m2 >= 0, D >= 0, D * D == dot(sub(x2, x1), sub(x2, x1)), D - r1 - r2 <= mmax]
  # a true fact about reals handed to the solver (product of two non-negative numbers is non-negative)
  bnd = r1 + r2 + m1 + m2
  hyp.append(z3.Implies(z3.And(bnd - D >= 0, bnd + D >= 0), (bnd - D) * (bnd + D) >= 0))
  sess = ctx.session([core.zbool(a) for a in it.assumes] + hyp, timeout_ms=60000 if ctx.tier == "quick" else 300000)
  ctx.reach(sess, "twin:sphere-within-margin", True)
  rp = replay_func(ctx, "_sphere_filter", None, [r1, r2, m1, m2, x1, x2], "passes")
  ctx.prove(sess, "sphere-filter-necessary", res, names=names, replay=lambda m: ((lambda r: (r[0][0] == 0, r[1]))(rp(m))), desc="_sphere_filter rejects a pair whose bounding spheres are within margin (MuJoCo would test it)")
  it2, res2 = call_func(cd._sphere_filter, [r2, r1, m2, m1, x2, x1])
  sess = ctx.session([core.zbool(a) for a in it.assumes + it2.assumes])
  ctx.reach(sess, "twin:sphere-sym", True)
  ctx.prove(sess, "sphere-filter-symmetric", core.zbool(res) == core.zbool(res2), names=names, replay=lambda m: ((lambda r: (r[0][0] != r[0][1], r[1]))(rp(m))), desc="_sphere_filter(geom1, geom2) != _sphere_filter(geom2, geom1): SAP (which may present the pair swapped) and NXN disagree")
  # ---- plane filter (geom1 is the plane: rbound 0)
  n = vec3("n_")
  mat1 = core.Vec([z3.Real(f"a{i}") if i % 3 != 2 else n.c[i // 3] for i in range(9)], (3, 3), float)
  mat2 = core.Vec([z3.Real(f"b{i}") for i in range(9)], (3, 3), float)
  s2 = z3.Real("rbound2")
  it, res = call_func(cd._plane_filter, [z3.RealVal(0), s2, m1, m2, x1, x2, mat1, mat2])
  hyp = [s2 > 0, m1 >= 0, m2 >= 0, dot(sub(x2, x1), n.c) - s2 <= mmax]
  sess = ctx.session([core.zbool(a) for a in it.assumes] + hyp, timeout_ms=60000 if ctx.tier == "quick" else 300000)
  ctx.reach(sess, "twin:plane-within-margin", True)
  rpp = replay_func(ctx, "_plane_filter", None, [z3.RealVal(0), s2, m1, m2, x1, x2, mat1, mat2], "passes")
  ctx.prove(sess, "plane-filter-necessary", res, names={"rbound2": s2, "m1": m1, "m2": m2}, replay=lambda m: ((lambda r: (r[0][0] == 0, r[1]))(rpp(m))), desc="_plane_filter rejects a geom whose bounding sphere reaches within margin of the plane")
  it2, res2 = call_func(cd._plane_filter, [s2, z3.RealVal(0), m2, m1, x2, x1, mat2, mat1])
  sess = ctx.session([core.zbool(a) for a in it.assumes + it2.assumes] + [s2 > 0])
  ctx.reach(sess, "twin:plane-sym", True)
  ctx.prove(sess, "plane-filter-symmetric", core.zbool(res) == core.zbool(res2), names={"rbound2": s2}, replay=lambda m: ((lambda r: (r[0][0] != r[0][1], r[1]))(rpp(m))), desc="_plane_filter(plane, geom) != _plane_filter(geom, plane)")


def goal_project(spec, pre, post):
  import numpy as np

  w, g = spec["tid"][0], spec["tid"][1]
  d = np.asarray(spec["args"]["direction_in"]["vec"] if isinstance(spec["args"].get("direction_in"), dict) and "vec" in spec["args"]["direction_in"] else spec["env"]["dir"], dtype=float)
  x = pre["geom_xpos_in"][w, g]
  rb = float(pre["geom_rbound"][w % pre["geom_rbound"].shape[0], g])
  rad = (MAXVAL if rb == 0.0 else rb) + float(pre["geom_margin"][w % pre["geom_margin"].shape[0], g]) + float(pre["geom_gap"][w % pre["geom_gap"].shape[0], g])
  c = float(np.dot(d, x))
  lo, hi = float(post["projection_lower_out"][w, g]), float(post["projection_upper_out"][w, g])
  ok = lib.approx(lo, c - rad, 1e-4, 1e-3) and lib.approx(hi, c + rad, 1e-4, 1e-3) and int(post["sort_index_out"][w, g]) == g
  return ok, f"geom {g} world {w}: centre {c} radius {rad} -> lower {lo} upper {hi} sort_index {post['sort_index_out'][w, g]}"


def goal_segtable(spec, pre, post):
  """replay goal: thread (w, 0) must leave seg[w] = w*ngeom, thread (nworld-1, 0) also seg[nworld] = nworld*ngeom, and nothing else"""
  import numpy as np

  a = spec["args"]
  sc = lambda v: int(v["scalar"]) if isinstance(v, dict) else int(v)
  ng, nw = sc(a["ngeom"]), sc(a["nworld_in"])
  w, g = spec["tid"][0], spec["tid"][1]
  b = np.asarray(post["segmented_index_out"])
  want = {}
  if g == 0:
    want[w] = w * ng
    if w == nw - 1:
      want[nw] = nw * ng
  bad = [(k, int(b[k]), want.get(k, "untouched")) for k in range(len(b)) if (k in want and b[k] != want[k]) or (k not in want and b[k] != SEG_SENTINEL)]
  return (not bad), f"thread ({w},{g}) ngeom={ng} nworld={nw}: segment boundaries (k, value, expected) {bad}"


SEG_SENTINEL = -777


def unit_project(ctx):
  from mujoco_warp._src import collision_driver as cd

  for bp in (1, 2):
    k = cd._sap_project(bp)
    ctx.encode(k)
    d = vec3("dir")
    kt = lib.kernel_thread(k, scalars={"direction_in": d}, unroll=2, cap=4)
    w, g = kt.tid
    x = kt.prev("geom_xpos_in", w, g)
    sh = lambda lab: kt.cell(lab).shape[0]
    rb = kt.pre("geom_rbound", w % sh("geom_rbound"), g)
    mg = kt.pre("geom_margin", w % sh("geom_margin"), g)
    gp = kt.pre("geom_gap", w % sh("geom_gap"), g)
    c = dot(d.c, x.c)
    isnan = [a for a in kt.it.assumes]
    rad = z3.If(rb == 0, z3.RealVal(MAXVAL), rb) + mg + gp
    pre = [sh("geom_rbound") >= 1, sh("geom_margin") >= 1, sh("geom_gap") >= 1]
    sess = ctx.session(kt.bg + pre)
    ctx.reach(sess, f"twin:project{bp}", True)
    lo, hi, si = kt.post("projection_lower_out", w, g), kt.post("projection_upper_out", w, g), kt.post("sort_index_out", w, g)
    loc = f"mujoco_warp._src.collision_driver:_sap_project({bp})"
    rp = lib.make_replay(ctx, kt, loc, f"project{bp}", "goal", goal="checks.c18:goal_project", env={"dir": d})
    nanrow = z3.And(lo == MAXVAL, hi == MAXVAL, si == g)
    ctx.prove(sess, f"project{bp}/interval", z3.Or(z3.And(lo == c - rad, hi == c + rad, si == g), nanrow), rb != 0, names={"w": w, "g": g}, replay=rp, desc="_sap_project: projection interval is not centre -/+ (rbound + margin + gap)")
    ctx.prove(sess, f"project{bp}/plane-unbounded", z3.Or(z3.And(lo <= c - MAXVAL, hi >= c + MAXVAL, si == g), nanrow), z3.And(rb == 0, mg >= 0, gp >= 0), names={"w": w, "g": g}, replay=rp, desc="_sap_project: a plane's projection interval is not unbounded")
    if bp == 2:
      # guarantee for the contract the sweep units assume: wp.utils.segmented_sort_pairs sorts segment k = [seg[k], seg[k+1]),
      # so every world's projections are sorted only if seg[k] == k * ngeom for ALL k in 0..nworld (closing entry included)
      kk = z3.Int("k")
      ng, nw = kt.args["ngeom"], kt.args["nworld_in"]
      segpre = [ng >= 1, nw >= 1, kt.cell("segmented_index_out").shape[0] == nw + 1, w >= 0, w < nw, g >= 0, g < ng]
      s2 = ctx.session(kt.bg + pre + segpre)
      ctx.reach(s2, "twin:segment-table", True)
      nr = lib.make_replay(ctx, kt, loc, "segtable", "goal", goal="checks.c18:goal_segtable", env={"sentinels": {"segmented_index_out": SEG_SENTINEL}})
      nm = {"w": w, "g": g, "k": kk, "ngeom": ng, "nworld": nw}
      ctx.prove(s2, "segment-table/value", kt.post("segmented_index_out", kk) == kk * ng, z3.And(kk >= 0, kk <= nw, kt.written("segmented_index_out", kk)), names=nm, replay=nr, desc="_sap_project writes a segment boundary other than k*ngeom: the segmented sort leaves part of a world's projections unsorted")
      ctx.prove(s2, "segment-table/start-written", kt.written("segmented_index_out", w), g == 0, names=nm, replay=nr, desc="_sap_project: thread (w, 0) does not write the start of world w's sort segment")
      ctx.prove(s2, "segment-table/closing-written", kt.written("segmented_index_out", nw), z3.And(g == 0, w == nw - 1), names=nm, replay=nr, desc="_sap_project: the closing segment boundary seg[nworld] is never written")
  # the geometric lemma connecting bounding spheres and their projections (reference level, no code involved):
  # |x1-x2| <= R, |dir| = 1  =>  |dir.(x1-x2)| <= R.   Step 1 Lagrange identity (polynomial identity), step 2 the abstract bound.
  x1, x2, dd = vec3("x1_"), vec3("x2_"), vec3("d_")
  v = [a - b for a, b in zip(x1.c, x2.c)]
  d = dd.c
  cr = [d[1] * v[2] - d[2] * v[1], d[2] * v[0] - d[0] * v[2], d[0] * v[1] - d[1] * v[0]]
  pr = dot(d, v)
  sess = ctx.session([], timeout_ms=60000)
  ctx.reach(sess, "twin:lemma", True)
  norp = lambda m: (False, "pure geometric lemma; no code to replay")
  ctx.prove(sess, "lemma/lagrange-identity", pr * pr + dot(cr, cr) == dot(d, d) * dot(v, v), replay=norp, desc="Lagrange identity fails (reference model error)")
  P, CC, V2, R, dist = z3.Reals("P CC V2 R dist")
  sess = ctx.session([P * P + CC == 1 * V2, CC >= 0, dist >= 0, dist * dist == V2, dist <= R], timeout_ms=60000)
  ctx.reach(sess, "twin:lemma2", True)
  ctx.prove(sess, "lemma/overlapping-spheres-have-overlapping-projections", z3.And(P <= R, -P <= R), names={"R": R}, replay=norp, desc="projection lemma fails (reference model error)")


def main(tier, seed, only=None):
  units = []
  units.append(unit_sap_range(4 if tier == "quick" else 6))
  confs = [(1, 3), (2, 4)] if tier == "quick" else [(1, 2), (1, 3), (2, 3), (1, 4), (2, 4)]
  masks = [0, 3, 15] if tier == "quick" else list(range(16))
  import os
  if os.environ.get("C18_MASKS"):
    masks = [int(x) for x in os.environ["C18_MASKS"].split(",")]
  for NW, NG in confs:
    for mk in masks if (NW, NG) == confs[-1] else [0, 15]:
      units.append(unit_sap(NW, NG, mk))
  for mk in masks:
    units.append(unit_nxn(4, mk))
    units.append(unit_same_decision(confs[-1][0], confs[-1][1], mk))
  units.append(("filters", unit_filters))
  units.append(("project", unit_project))
  if only:
    units = [u for u in units if any(o in u[0] for o in only)]
  return report.run_check(PID, units, tier, seed)
