"""C24 Constraint forces are physically admissible.

Solver queries (nonlinear real arithmetic, every input symbolic) on the REAL solver code:

 rows/scalar/*          one generic thread of _update_constraint_efc on a non-elliptic row: limit / frictionless / pyramid-edge
                        force >= 0; residual >= 0 => SATISFIED and force 0; SATISFIED => force 0; friction-loss row
                        |force| <= frictionloss; the row is written
 gather/elliptic/*      the dim threads of an elliptic contact (concrete bookkeeping layouts, symbolic floats): each reaches
                        _eval_constraint with exactly MuJoCo's quantities (own residual and D, normal residual and D, mu =
                        friction[0]*impratio^-1/2, u_j*friction_j, sum of squared scaled tangential residuals) and stores
                        the returned force / state
 eval/elliptic/*        _eval_constraint on those quantities: top zone force 0 / SATISFIED; bottom zone force -D*jaref /
                        QUADRATIC; middle zone CONE, normal force > 0, every tangential row f_j*T = -f_N*u_j*friction_j
                        (common factor), hence (closing lemma, any dim) sum (f_j/friction_j)^2 = f_N^2: on the cone; normal
                        force >= 0 in every zone; bottom zone inside the cone under MuJoCo's D scaling of friction rows
 efcrow                 constraint._efc_row (every row type): efc_D > 0; impedance in [mjMINIMP, mjMAXIMP]; with the MINVAL clamp
                        inactive D*invweight*(1-imp) = imp; D / impedance are functions of (invweight, pos, solimp) / (pos, solimp)
                        only; type / id / frictionloss stored; chain lemma D-law + invweight scaling => D_j*mu^2 = D_0*friction_j^2
 assemble/<cone>/*      the threads of constraint._efc_contact_update and _efc_contact_update_flex for one contact (condim 1,3,4,6;
                        friction components symbolic and NOT assumed equal, impratio symbolic): every row is assembled by one
                        _efc_row call into (worldid, efc_address[c,k]) with efc.id = conid and the cone's efc.type, all rows share the
                        impedance inputs, elliptic friction rows get invweight_j*friction_j^2 = invweight_0*mu^2 (mu as solver.py
                        reads it), pyramid edge rows share invweight  => the D relation the cone lemmas (c)/(d) and C06 use
 qfrc/*                 qfrc_constraint = J^T force: dense kernel (sum over rows), sparse / compact kernels (row contributions
                        + zeroing kernel), and _qfrc_constraint_from_grad inverting _update_gradient_grad
"""

import json
import os

import numpy as np
import z3

from checks import lib
from checks import solverlib_c24 as L
from wsym import core, kh, replay, report
from wsym.core import And, Implies, Not, Or, Vec, arith, cmp, is_sym, ite

PID = "C24"
INEQ_TYPES = {"LIMIT_JOINT": L.T_LIMIT_JOINT, "LIMIT_TENDON": L.T_LIMIT_TENDON, "CONTACT_FRICTIONLESS": L.T_FRICTIONLESS, "CONTACT_PYRAMIDAL": L.T_PYRAMIDAL}


def _validate(ctx):
  err = L.validate_reference(ctx.seed)
  if err:
    ctx.error("reference model validation against mujoco.mj_constraintUpdate failed: " + err)
  return err is None


# ------------------------------------------------------------------------------------------------ replay goals


def _row_kind(pre, w, e):
  ne, nf = int(pre["ne_in"][w]), int(pre["nf_in"][w])
  return "equality" if e < ne else "friction" if e < ne + nf else "ineq"


def goal_scalar_row(spec, pre, post):
  """single-thread replay: the row's stored force / state vs the MuJoCo reference"""
  w, e = spec["tid"][:2]
  kind = _row_kind(pre, w, e)
  D, fl, jar = float(pre["efc_D_in"][w, e]), float(pre["efc_frictionloss_in"][w, e]), float(pre["ctx_Jaref_in"][w, e])
  f, st, _ = L.ref_scalar_row(kind, jar, D, fl, fl / D if D != 0 else 0.0)
  gf, gs = float(post["efc_force_out"][w, e]), int(post["efc_state_out"][w, e])
  ok = lib.approx(gf, float(f)) and gs == int(st)
  return ok, f"row ({w},{e}) kind {kind} type {int(pre['efc_type_in'][w, e])} jaref {jar} D {D} frictionloss {fl}: mujoco_warp force {gf} state {gs}; mj_constraintUpdate reference force {float(f)} state {int(st)}"


def goal_elliptic_contact(spec, pre, post):
  """whole-grid replay: forces / states of the contact's rows vs the MuJoCo reference"""
  e = spec["env"]
  w, e0, c, dim = int(e["w"]), int(e["e0"]), int(e["conid"]), int(e["dim"])
  fr = [float(x) for x in pre["contact_friction_in"][c]]
  imp = pre["opt_impratio_invsqrt"]
  mu = fr[0] * float(imp[w % len(imp)])
  jar = [float(pre["ctx_Jaref_in"][w, e0 + j]) for j in range(dim)]
  D = [float(pre["efc_D_in"][w, e0 + j]) for j in range(dim)]
  f, st, _, zs = L.ref_elliptic_numeric(jar, D, mu, fr[: dim - 1])
  gf = [float(post["efc_force_out"][w, e0 + j]) for j in range(dim)]
  gs = [int(post["efc_state_out"][w, e0 + j]) for j in range(dim)]
  ok = all(lib.approx(gf[j], float(f[j])) for j in range(dim)) and all(s == int(st) for s in gs)
  zone = "top" if zs[0] else "bottom" if zs[1] else "middle"
  return ok, f"elliptic contact {c} rows ({w},{e0}..{e0 + dim - 1}) jaref {jar} D {D} mu {mu} friction {fr[: dim - 1]} zone {zone}: mujoco_warp force {gf} state {gs}; mj_constraintUpdate reference force {[float(x) for x in f]} state {int(st)}"


def goal_qfrc_dense(spec, pre, post):
  w, dof = spec["tid"][:2]
  n = min(int(pre["nefc_in"][w]), int(spec["args"]["njmax_in"]["scalar"]))
  want = sum(float(pre["efc_J_in"][w, e, dof]) * float(pre["efc_force_in"][w, e]) for e in range(n))
  got = float(post["qfrc_constraint_out"][w, dof])
  return lib.approx(got, want), f"qfrc_constraint[{w},{dof}] = {got}; (J^T force)[{dof}] over {n} rows = {want}"


def goal_qfrc_sparse(spec, pre, post):
  """the row's contribution to every dof of its world (a wrapped negative column shows up in the last dof)"""
  w, e = spec["tid"][:2]
  compact = bool(spec["env"]["compact"])
  live = (not bool(pre["ctx_done_in"][w])) and int(pre["state_changed_count_in"][w]) != 0 and e < int(pre["nefc_in"][w])
  f = float(pre["efc_force_in"][w, e])
  ncol = pre["qfrc_constraint_out"].shape[1]
  want = np.zeros(ncol)
  if live:
    adr, nnz = int(pre["efc_J_rowadr_in"][w, e]), int(pre["efc_J_rownnz_in"][w, e])
    for i in range(nnz):
      col = int(pre["efc_J_colind_in"][w, 0, adr + i])
      if compact:
        col = int(pre["dof_cdof_in"][w, col])
        if col < 0:
          continue
      want[col] += float(pre["efc_J_in"][w, 0, adr + i]) * f
  got = np.asarray(post["qfrc_constraint_out"], dtype=float) - np.asarray(pre["qfrc_constraint_out"], dtype=float)
  exp = np.zeros_like(got)
  exp[w] = want
  ok = bool(np.allclose(got, exp, rtol=1e-3, atol=1e-4))
  return ok, f"row ({w},{e}) live {live} force {f}: added to qfrc_constraint {got.tolist()}; J[e,:]*force in world {w} = {want.tolist()}"


def goal_unchanged_except(spec, pre, post):
  """frame replay: every cell of env.label except env.own (an index list, or null) keeps its initial value"""
  e = spec["env"]
  a, b = np.asarray(pre[e["label"]], dtype=float), np.asarray(post[e["label"]], dtype=float)
  diff = [list(map(int, i)) for i in np.argwhere(a != b)]
  own = [int(x) for x in e["own"]] if e.get("own") is not None else None
  bad = [i for i in diff if i != own]
  return (not bad), f"{e['label']} cells changed by thread {spec['tid']}: {bad} (own slot {own})"


def goal_zeroed(spec, pre, post):
  w, dof = spec["tid"][:2]
  v = float(post["qfrc_constraint_out"][w, dof])
  return v == 0.0, f"qfrc_constraint[{w},{dof}] = {v} after _zero_qfrc_constraint_sparse (done {bool(pre['ctx_done_in'][w])}, state_changed_count {int(pre['state_changed_count_in'][w])})"


def goal_from_grad(spec, pre, post):
  w, dof = spec["tid"][:2]
  want = float(pre["efc_Ma_in"][w, dof]) - float(pre["qfrc_smooth_in"][w, dof]) - float(pre["ctx_grad_scale_in"][w]) * float(pre["ctx_grad_in"][w, dof])
  got = float(post["qfrc_constraint_out"][w, dof])
  return lib.approx(got, want), f"_qfrc_constraint_from_grad[{w},{dof}] = {got}; Ma - qfrc_smooth - grad_scale*grad = {want}"


def goal_grad(spec, pre, post):
  w, dof = spec["tid"][:2]
  want = float(pre["efc_Ma_in"][w, dof]) - float(pre["qfrc_smooth_in"][w, dof]) - float(pre["qfrc_constraint_in"][w, dof])
  got = float(post["ctx_grad_out"][w, dof])
  return lib.approx(got, want), f"_update_gradient_grad[{w},{dof}] = {got}; Ma - qfrc_smooth - qfrc_constraint = {want}"


def roundtrip_replay(model):
  """real _update_gradient_grad followed by the real _qfrc_constraint_from_grad (grad_scale 1) must return qfrc_constraint"""
  import warp as wp

  from mujoco_warp._src import solver

  rng = np.random.default_rng(7)
  nw, nv = 2, 3
  f = lambda: wp.array(rng.normal(size=(nw, nv)).astype(np.float32), dtype=float)
  qs, qc, Ma = f(), f(), f()
  grad, gdot = wp.zeros((nw, nv), dtype=float), wp.zeros(nw, dtype=float)
  wp.launch(solver._update_gradient_grad(False), dim=(nw, nv), inputs=[qs, qc, Ma, wp.ones(nw, dtype=int), wp.zeros(nw, dtype=bool)], outputs=[grad, gdot], device="cpu")
  out = wp.zeros((nw, nv), dtype=float)
  wp.launch(solver._qfrc_constraint_from_grad, dim=(nw, nv), inputs=[qs, Ma, grad, wp.ones(nw, dtype=float)], outputs=[out], device="cpu")
  wp.synchronize()
  ok = bool(np.allclose(out.numpy(), qc.numpy(), atol=1e-5))
  d = os.path.join(report.VERIF, "replays", PID)
  os.makedirs(d, exist_ok=True)
  path = os.path.join(d, "qfrc_from_grad.roundtrip.json")
  with open(path, "w") as fh:
    json.dump({"property": PID, "how": "launch _update_gradient_grad(False) then _qfrc_constraint_from_grad with grad_scale = 1", "qfrc_smooth": qs.numpy().tolist(), "qfrc_constraint": qc.numpy().tolist(), "efc_Ma": Ma.numpy().tolist(), "recovered": out.numpy().tolist()}, fh)
  return (not ok), path


# ------------------------------------------------------------------------------------------------ units: scalar rows


def unit_scalar(track):
  def run(ctx):
    from mujoco_warp._src import solver

    if not _validate(ctx):
      return
    core.DIVMODE[0] = "poly"
    k = solver._update_constraint_efc(track)
    loc = f"mujoco_warp._src.solver:_update_constraint_efc({track})"
    ctx.encode(k, solver._eval_constraint)
    ctx.bound(track_changes=track, shape_cap=8, note="world / row index, counters, D, frictionloss, residual symbolic; divisions as q*den = num")
    kt = lib.kernel_thread(k, shapes={"opt_impratio_invsqrt": [1]}, unroll=7, cap=8, assume_bounds=True)
    w, e = kt.tid
    ne, nf, nefc = kt.pre("ne_in", w), kt.pre("nf_in", w), kt.pre("nefc_in", w)
    D, fl, jar = kt.pre("efc_D_in", w, e), kt.pre("efc_frictionloss_in", w, e), kt.pre("ctx_Jaref_in", w, e)
    typ = kt.pre("efc_type_in", w, e)
    f, st = kt.post("efc_force_out", w, e), kt.post("efc_state_out", w, e)
    bg = kt.bg + [ne >= 0, nf >= 0, Not(kt.pre("ctx_done_in", w)), e < nefc, D > 0, fl >= 0, typ != L.T_ELLIPTIC]
    ctx.assume(
      "row is live: world not done, efcid < nefc; ne, nf >= 0; rows are ordered equality | friction | limit | contact (MuJoCo layout), the row is not an elliptic contact row",
      "efc_D > 0 (proved for every row _efc_row writes: unit efcrow) and frictionloss >= 0 (model validation: the stored value is the dof / tendon frictionloss argument, unit efcrow)",
      "thread's own accesses in bounds (C17); floats are exact reals",
    )
    sess = ctx.session(bg)
    isfr = And(e >= ne, e < ne + nf)
    isineq = e >= ne + nf
    names = {"w": w, "e": e, "ne": ne, "nf": nf, "nefc": nefc, "D": D, "frictionloss": fl, "jaref": jar, "type": typ}
    rp = lambda nm: lib.make_replay(ctx, kt, loc, nm, "goal", goal="checks.c24:goal_scalar_row")
    ctx.reach(sess, "twin:friction-row", isfr)
    ctx.reach(sess, "twin:inequality-row", isineq)
    ctx.prove(sess, "row-written", And(kt.written("efc_force_out", w, e), kt.written("efc_state_out", w, e)), True, names=names, replay=rp("written"), desc="_update_constraint_efc leaves a live row's force/state unwritten")
    ctx.prove(sess, "friction/|force|<=frictionloss", And(f <= fl, -fl <= f), isfr, names=names, replay=rp("fric"), desc="friction-loss row force exceeds its frictionloss")
    for tn, tv in INEQ_TYPES.items():
      g = And(isineq, typ == tv)
      ctx.prove(sess, f"{tn}/force>=0", f >= 0, g, names=names, replay=rp(f"{tn}-nonneg"), desc=f"{tn} row force is negative")
      ctx.prove(sess, f"{tn}/residual>=0=>satisfied-zero-force", And(f == 0, st == L.SATISFIED), And(g, jar >= 0), names=names, replay=rp(f"{tn}-sat"), desc=f"{tn} row with non-negative residual is not SATISFIED with zero force")
      ctx.prove(sess, f"{tn}/residual<0=>quadratic", And(f == -D * jar, st == L.QUADRATIC), And(g, jar < 0), names=names, replay=rp(f"{tn}-quad"), desc=f"{tn} row with negative residual: force is not -D*jaref / state not QUADRATIC")
    ctx.prove(sess, "satisfied=>zero-force", f == 0, st == L.SATISFIED, names=names, replay=rp("sat0"), desc="a row marked SATISFIED carries force")
    ctx.prove(sess, "state-in-range", Or(*[st == s for s in (L.SATISFIED, L.QUADRATIC, L.LINEARNEG, L.LINEARPOS)]), True, names=names, replay=rp("state"), desc="non-elliptic row gets an impossible state")

  return (f"rows/scalar/{'track' if track else 'plain'}", run)


# ------------------------------------------------------------------------------------------------ units: elliptic


ELL_ASSUME = (
  "concrete bookkeeping laid out as MuJoCo / _efc_contact_init produce it without njmax overflow: rows ordered equality | friction | contact | limit, the contact's rows typed CONTACT_ELLIPTIC with efc_id = conid < nacon, contact.dim = dim, efc_address[conid, j] = e0+j, world not done, rows < nefc <= njmax",
  "efc_D > 0 (proved: unit efcrow), friction[0..dim-2] > 0, impratio^-1/2 > 0 (contact_params / option validation, C04); all float inputs symbolic",
  "floats are exact reals",
)


def unit_gather(dim, track, layout):
  def run(ctx):
    from mujoco_warp._src import solver

    if not _validate(ctx):
      return
    core.DIVMODE[0] = "poly"
    S = L.make_contact_rows(dim, track, layout)
    R, w, e0, c = S["R"], S["w"], S["e0"], S["c"]
    loc = f"mujoco_warp._src.solver:_update_constraint_efc({track})"
    ctx.encode(S["k"], solver._eval_constraint)
    ctx.bound(condim=dim, track_changes=track, layout=S["text"])
    ctx.assume(*ELL_ASSUME)
    sess = ctx.session(S["bg"])
    ctx.reach(sess, "twin:live-elliptic-contact", True)
    jar, D, fr, mu = S["jar"], S["D"], S["fr"], S["mu"]
    _, U, TT = L.elliptic_terms(jar, mu, fr[: dim - 1])
    names = {f"jaref{j}": jar[j] for j in range(dim)} | {f"D{j}": D[j] for j in range(dim)} | {f"friction{j}": fr[j] for j in range(dim - 1)} | {"impratio_invsqrt": S["imp"]}
    rp = lambda nm: L.launch_replay(ctx.pid, ctx.unit, nm, loc, S["k"], S["args"], "checks.c24:goal_elliptic_contact", env={"w": w, "e0": e0, "conid": c, "dim": dim, "randomize_floats": 4})
    labels = ["is_equality", "is_friction", "is_elliptic", "jaref", "D", "frictionloss", "efcid", "efcid0", "jaref0", "D0", "mu", "ufrictionj", "TT"]
    for j in range(dim):
      if R.res[j] is None:
        ctx.prove(sess, f"row{j}/reaches-eval", False, True, names=names, replay=rp(f"row{j}-reach"), desc=f"elliptic row {j} does not evaluate its force exactly once (stale force)")
        continue
      g, r, a = R.res[j]
      want = [False, False, True, jar[j], D[j], 0.0, e0 + j, e0, jar[0], D[0], mu, (0.0 if j == 0 else U[j - 1] * fr[j - 1]), TT]
      ctx.prove(sess, f"row{j}/reaches-eval", g, True, names=names, replay=rp(f"row{j}-reach"), desc=f"elliptic row {j} returns before evaluating its force (stale force)")
      for lab, x, y in zip(labels, a, want):
        eq = (core.zbool(x) == core.zbool(y)) if isinstance(y, bool) else cmp("==", x, y)
        ctx.prove(sess, f"row{j}/arg-{lab}", eq, g, names=names, replay=rp(f"row{j}-{lab}"), desc=f"elliptic row {j}: _eval_constraint receives a wrong {lab}")
      ctx.prove(sess, f"row{j}/stores-result", And(R.wrote[j], cmp("==", R.force[j], r.c[0]), cmp("==", arith("*", R.state[j], 1.0), r.c[1])), True, names=names, replay=rp(f"row{j}-store"), desc=f"elliptic row {j}: stored force/state differ from _eval_constraint's result")

  return (f"gather/elliptic/condim{dim}/{layout}{'/track' if track else ''}", run)


MemoInterp, safe_div_contract = L.MemoInterp, L.safe_div_contract


def eval_elliptic(dim, tag=""):
  """_eval_constraint (REAL source) on the quantities gather/* proves the kernel passes.  -> dict of z3 terms"""
  from mujoco_warp._src import math as mjmath
  from mujoco_warp._src import solver

  jar = [z3.Real(f"jar{j}{tag}") for j in range(dim)]
  D = [z3.Real(f"D{j}") for j in range(dim)]
  fr = [z3.Real(f"fr{j}") for j in range(dim - 1)]
  mu = z3.Real("mu")
  N, U, TTpoly = L.elliptic_terms(jar, mu, fr)
  TT, T = z3.Real("TT" + tag), z3.Real("T" + tag)
  bg = [mu > 0] + [d > 0 for d in D] + [x > 0 for x in fr] + [T >= 0, T * T == TT, TT == TTpoly]
  it = MemoInterp(roots={TT.sexpr(): T}, unroll=8, summaries={mjmath.safe_div.key: safe_div_contract})
  f, st, cost = [], [], []
  for j in range(dim):
    uf = 0.0 if j == 0 else U[j - 1] * fr[j - 1]
    r = it.call_pyfunc(solver._eval_constraint.func, [False, False, True, jar[j], D[j], 0.0, j, 0, jar[0], D[0], mu, uf, TT], name="_eval_constraint")
    f.append(r.c[0])
    st.append(r.c[1])
    cost.append(r.c[2])
  bg += [core.zbool(x) for x in it.assumes]
  top, bottom, middle = L.elliptic_zones(N, T, mu)
  return dict(jar=jar, D=D, fr=fr, mu=mu, N=N, U=U, TT=TT, T=T, bg=bg, f=f, st=st, cost=cost, top=top, bottom=bottom, middle=middle, it=it)


def eval_replay(ctx, name, E, dim):
  """replay of an eval/elliptic model on the REAL kernel: one world, one contact, rows 0..dim-1"""

  def _rp(model):
    import warp as wp

    from mujoco_warp._src import solver
    from mujoco_warp._src.types import vec5

    mv = lambda x: L.mvalf(model, x)
    jar, D, fr, mu = [mv(x) for x in E["jar"]], [mv(x) for x in E["D"]], [mv(x) for x in E["fr"]], mv(E["mu"])
    fr5 = (fr + [1.0] * 5)[:5]
    force = wp.zeros((1, dim), dtype=float)
    state = wp.zeros((1, dim), dtype=int)
    ia = lambda v: wp.array(np.array(v, dtype=np.int32), dtype=int)
    fa = lambda v: wp.array(np.array(v, dtype=np.float32), dtype=float)
    inputs = [fa([mu / fr5[0]]), ia([0]), ia([0]), ia([dim]), wp.array([vec5(*fr5)], dtype=vec5), ia([dim]), ia([list(range(dim)) + [-1] * (10 - dim)]), ia([[L.T_ELLIPTIC] * dim]), ia([[0] * dim]), fa([D]), fa([[0.0] * dim]), ia([1]), fa([jar]), wp.zeros(1, dtype=bool), wp.zeros(1, dtype=bool)]
    outs = [force, state, wp.zeros((1, dim), dtype=int), wp.zeros(1, dtype=int), wp.zeros(1, dtype=int)]
    wp.launch(solver._update_constraint_efc(False), dim=(1, dim), inputs=inputs, outputs=outs, device="cpu")
    wp.synchronize()
    gf, gs = [float(x) for x in force.numpy()[0]], [int(x) for x in state.numpy()[0]]
    f, st, _, zs = L.ref_elliptic_numeric(jar, D, mu, fr)
    ok = all(lib.approx(gf[j], float(f[j])) for j in range(dim)) and all(s == int(st) for s in gs)
    zone = "top" if zs[0] else "bottom" if zs[1] else "middle"
    d = os.path.join(report.VERIF, "replays", PID)
    os.makedirs(d, exist_ok=True)
    path = os.path.join(d, f"{ctx.unit}.{name}".replace("/", "_")[:120] + ".json")
    text = f"zone {zone}: mujoco_warp force {gf} state {gs}; mj_constraintUpdate reference force {[float(x) for x in f]} state {int(st)}"
    with open(path, "w") as fh:
      json.dump({"property": PID, "unit": ctx.unit, "query": name, "kernel": "solver._update_constraint_efc(False), nworld=1, one elliptic contact on rows 0..dim-1, ne=nf=0", "jaref": jar, "efc_D": D, "friction": fr, "mu": mu, "impratio_invsqrt": mu / fr5[0], "result": text}, fh)
    return (not ok), path

  return _rp


def unit_eval(dim):
  def run(ctx):
    from mujoco_warp._src import solver

    if not _validate(ctx):
      return
    ctx.encode(solver._eval_constraint, solver._eval_elliptic_middle)
    ctx.bound(condim=dim, note="residuals, D, mu, friction symbolic reals; sqrt(TT) = T with T >= 0, T*T = TT; safe_div as polynomial contract")
    ctx.assume(
      "mu > 0, efc_D > 0, friction[0..dim-2] > 0 (C05/C04)",
      "the arguments are the quantities gather/elliptic/* proves the kernel passes: jaref_j, D_j, jaref_0, D_0, mu, u_j*friction_j with u_j = jaref_j*friction_j, TT = sum u_j^2",
      "floats are exact reals",
    )
    E = eval_elliptic(dim)
    f, st, jar, D, fr, mu, T, U = E["f"], E["st"], E["jar"], E["D"], E["fr"], E["mu"], E["T"], E["U"]
    top, bottom, middle = E["top"], E["bottom"], E["middle"]
    sess = ctx.session(E["bg"])
    for zn, z in (("top", top), ("bottom", bottom), ("middle", middle)):
      ctx.reach(sess, f"twin:{zn}-zone", z)
    names = {f"jaref{j}": jar[j] for j in range(dim)} | {f"D{j}": D[j] for j in range(dim)} | {f"friction{j}": fr[j] for j in range(dim - 1)} | {"mu": mu, "T": T}
    rp = lambda nm: eval_replay(ctx, nm, E, dim)
    P = lambda nm, goal, guard, desc: ctx.prove(sess, nm, goal, guard, names=names, replay=rp(nm), desc=f"elliptic condim {dim}: {desc}")
    P("top=>zero-force-satisfied", And(*[And(f[j] == 0, st[j] == L.SATISFIED) for j in range(dim)]), top, "top zone row is not SATISFIED with zero force")
    P("bottom=>quadratic", And(*[And(f[j] == -D[j] * jar[j], st[j] == L.QUADRATIC) for j in range(dim)]), bottom, "bottom zone row force is not -D*jaref / state not QUADRATIC")
    P("middle=>cone-state", And(*[st[j] == L.CONE for j in range(dim)]), middle, "middle zone row state is not CONE")
    P("middle=>normal-force>0", f[0] > 0, middle, "middle zone normal force is not positive")
    P("normal-force>=0", f[0] >= 0, True, "normal force is negative")
    P("satisfied=>zero-force", And(*[Implies(st[j] == L.SATISFIED, f[j] == 0) for j in range(dim)]), True, "a row marked SATISFIED carries force")
    Dm = z3.Real("Dm")
    P("middle=>normal-force-value", f[0] == -Dm * (E["N"] - mu * T) * mu, And(middle, Dm * mu * mu * (1 + mu * mu) == D[0]), "middle zone normal force differs from -Dm*(N-mu*T)*mu")
    for j in range(1, dim):
      P(f"middle=>tangent{j}-proportional", f[j] * T == -f[0] * U[j - 1] * fr[j - 1], middle, f"middle zone tangential row {j}: f_j*T != -f_N*u_j*friction_j (no common factor)")
    # closing lemmas (pure algebra over fresh variables standing for the proved relations), any number of tangential rows:
    #  (a) per row: F*T = -F0*u*fr, g*fr = F, fr > 0  =>  g*T = -F0*u          (g = f_j / friction_j)
    #  (b) g_j*T = -F0*u_j for all j, T > 0, T^2 = sum u_j^2  =>  sum g_j^2 = F0^2   (on the cone boundary)
    n = dim - 1
    nr = lambda m: (False, "pure algebraic lemma (no code involved)")
    F0, Tl, Fj, uj, frj, gj = z3.Reals("F0 Tl Fj uj frj gj")
    NL = "qfnra-nlsat"
    la = ctx.session([frj > 0, Fj * Tl == -F0 * uj * frj, gj * frj == Fj], tactic=NL)
    ctx.reach(la, "twin:lemma-a", Tl > 0)
    ctx.prove(la, "lemma/a:row-proportionality-in-f/friction", gj * Tl == -F0 * uj, True, names={"F0": F0}, replay=nr, desc="lemma (a) fails")
    Ul = [z3.Real(f"Ul{j}") for j in range(n)]
    g = [z3.Real(f"g{j}") for j in range(n)]
    lb = ctx.session([Tl > 0, Tl * Tl == z3.Sum([u * u for u in Ul])] + [g[j] * Tl == -F0 * Ul[j] for j in range(n)], tactic=NL)
    ctx.reach(lb, "twin:lemma-b", F0 > 0)
    ctx.prove(lb, "lemma/b:proportional-rows=>on-cone-boundary", z3.Sum([x * x for x in g]) == F0 * F0, True, names={"F0": F0}, replay=nr, desc="closing lemma: g_j*T = -f_N*u_j for all j does not give sum (f_j/fr_j)^2 = f_N^2")
    # bottom zone inside the cone under MuJoCo's scaling D_j * mu^2 = D_0 * friction_j^2:
    #  (c) per row: g*fr = -Dj*jar, Dj*mu^2 = D0*fr^2, u = jar*fr, fr > 0, mu > 0  =>  g*mu^2 = -D0*u
    #  (d1) g_j*mu^2 = -D0*u_j for all j, T^2 = sum u_j^2  =>  (sum g_j^2)*mu^4 = D0^2*T^2
    #  (d2) S*mu^4 = D0^2*T^2, F0*mu = -D0*N, T >= 0, mu*N + T <= 0, D0 > 0, mu > 0  =>  F0 >= 0 and S <= F0^2
    D0, mul, Nl, Dj, jl, Sl = z3.Reals("D0l mul Nl Dj jl Sl")
    lc = ctx.session([frj > 0, mul > 0, gj * frj == -Dj * jl, Dj * mul * mul == D0 * frj * frj, uj == jl * frj], tactic=NL)
    ctx.reach(lc, "twin:lemma-c", D0 > 0)
    ctx.prove(lc, "lemma/c:bottom-row-scaling", gj * mul * mul == -D0 * uj, True, names={"D0": D0}, replay=nr, desc="lemma (c) fails")
    ld = ctx.session([mul > 0, Tl * Tl == z3.Sum([u * u for u in Ul])] + [g[j] * mul * mul == -D0 * Ul[j] for j in range(n)], tactic=NL)
    ctx.reach(ld, "twin:lemma-d1", D0 > 0)
    ctx.prove(ld, "lemma/d1:bottom-tangential-norm", z3.Sum([x * x for x in g]) * mul * mul * mul * mul == D0 * D0 * Tl * Tl, True, names={"D0": D0}, replay=nr, desc="lemma (d1) fails")
    le = ctx.session([D0 > 0, mul > 0, Tl >= 0, mul * Nl + Tl <= 0, F0 * mul == -D0 * Nl, Sl * mul * mul * mul * mul == D0 * D0 * Tl * Tl], tactic=NL)
    ctx.reach(le, "twin:lemma-d2", Tl > 0)
    ctx.prove(le, "lemma/d2:bottom-zone-inside-cone", And(F0 >= 0, Sl <= F0 * F0), True, names={"F0": F0}, replay=nr, desc="bottom zone forces -D_j*jaref_j leave the friction cone although D_j*mu^2 = D_0*friction_j^2")
    ctx.assume("lemma (c)/(d) (bottom zone inside the cone) use the friction-row regularisation D_j * mu^2 = D_0 * friction_j^2; it is PROVED for the rows written by constraint._efc_contact_update[_flex] (units assemble/elliptic/* + efcrow + its chain lemma) when the MJ_MINVAL clamp on R is inactive (efc_D * MJ_MINVAL < 1 for the contact's rows)")

  return (f"eval/elliptic/condim{dim}", run)


# ------------------------------------------------------------------------------------------------ units: qfrc_constraint


def unit_qfrc_dense(stable_fast, U):
  def run(ctx):
    from mujoco_warp._src import solver

    k = solver._update_constraint_init_qfrc_constraint_dense(stable_fast)
    loc = f"mujoco_warp._src.solver:_update_constraint_init_qfrc_constraint_dense({stable_fast})"
    ctx.encode(k)
    ctx.bound(stable_fast=stable_fast, nefc_max=U, note=f"row loop unrolled {U} times (nefc <= {U}); nworld, nv, njmax symbolic")
    njmax = z3.Int("njmax_in")
    kt = lib.kernel_thread(k, scalars={"njmax_in": njmax}, unroll=U, cap=U + 2)
    w, dof = kt.tid
    nefc = kt.pre("nefc_in", w)
    live = And(Not(kt.pre("ctx_done_in", w)), (kt.pre("state_changed_count_in", w) != 0) if stable_fast else True)
    ctx.assume("world not done" + (" and state_changed_count != 0 (otherwise the fast path keeps qfrc_constraint stale by design and recovers it with _qfrc_constraint_from_grad)" if stable_fast else ""), "0 <= nefc <= njmax (no overflow)", "thread's own accesses in bounds (C17)")
    sess = ctx.session(kt.bg + [nefc >= 0, nefc <= njmax])
    ctx.reach(sess, "twin:live-with-rows", And(live, nefc >= 2))
    names = {"w": w, "dof": dof, "nefc": nefc, "njmax": njmax}
    rp = lib.make_replay(ctx, kt, loc, "jtf", "goal", goal="checks.c24:goal_qfrc_dense", env={"randomize_floats": 2})
    for n in range(U + 1):
      want = 0.0
      for e in range(n):
        want = arith("+", want, arith("*", kt.pre("efc_J_in", w, e, dof), kt.pre("efc_force_in", w, e)))
      ctx.prove(sess, f"qfrc==JT.force/nefc={n}", And(kt.written("qfrc_constraint_out", w, dof), cmp("==", kt.post("qfrc_constraint_out", w, dof), want)), And(live, nefc == n), names=names, replay=rp, desc=f"dense qfrc_constraint differs from J^T force ({n} rows)")
    o1, o2 = z3.Int("o1"), z3.Int("o2")
    frp = lambda nm, own: lib.make_replay(ctx, kt, loc, nm, "goal", goal="checks.c24:goal_unchanged_except", env={"label": "qfrc_constraint_out", "own": own})
    ctx.prove(sess, "writes-only-own-dof", Not(kt.written("qfrc_constraint_out", o1, o2)), Or(o1 != w, o2 != dof), names=names, replay=frp("frame", [w, dof]), desc="dense qfrc kernel writes another thread's slot")
    ctx.prove(sess, "done=>untouched", Not(kt.written("qfrc_constraint_out", w, dof)), kt.pre("ctx_done_in", w), names=names, replay=frp("done", None), desc="dense qfrc kernel modifies a converged world")

  return (f"qfrc/dense/{'stable_fast' if stable_fast else 'plain'}", run)


def unit_qfrc_sparse(compact, U):
  def run(ctx):
    from mujoco_warp._src import solver

    k = solver._update_constraint_init_qfrc_constraint_sparse(compact)
    loc = f"mujoco_warp._src.solver:_update_constraint_init_qfrc_constraint_sparse({compact})"
    ctx.encode(k, solver._zero_qfrc_constraint_sparse)
    ctx.bound(compact=compact, rownnz_max=U, note=f"non-zero loop unrolled {U} times (rownnz <= {U})")
    kt = lib.kernel_thread(k, unroll=U, cap=U + 2, alias_inout=False, assume_bounds=False)
    w, e = kt.tid
    c = z3.Int("col")
    live = And(Not(kt.pre("ctx_done_in", w)), kt.pre("state_changed_count_in", w) != 0, e < kt.pre("nefc_in", w))
    ctx.assume("row live: world not done, state_changed_count (or nefc) != 0, efcid < nefc", "sparse layout invariants instead of assuming in-bounds accesses: per-world arrays have nworld rows, 0 <= rowadr, rownnz, rowadr+rownnz <= capacity, column indices in [0, nv)" + (", dof_cdof entries in [-1, ncdof)" if compact else ""))
    nnz, adr = kt.pre("efc_J_rownnz_in", w, e), kt.pre("efc_J_rowadr_in", w, e)
    f = kt.pre("efc_force_in", w, e)
    sess = ctx.session(kt.bg + L.sparse_layout_pre(kt, U, compact, "qfrc_constraint_out") + [cmp("<=", nnz, U)])
    ctx.reach(sess, "twin:live-row-with-nonzeros", And(live, nnz >= 2, f != 0))
    names = {"w": w, "e": e, "col": c, "rownnz": nnz, "rowadr": adr}
    rp = lib.make_replay(ctx, kt, loc, "row", "goal", goal="checks.c24:goal_qfrc_sparse", env={"col": c, "compact": compact, "randomize_floats": 2})
    for n in range(U + 1):
      want = 0.0
      for i in range(n):
        col = kt.pre("efc_J_colind_in", w, 0, adr + i)
        if compact:
          col = kt.pre("dof_cdof_in", w, col)
        want = arith("+", want, ite(col == c, arith("*", kt.pre("efc_J_in", w, 0, adr + i), f), 0.0))
      ctx.prove(sess, f"row-contribution==J[e,col]*force/rownnz={n}", cmp("==", kt.atomic_total("qfrc_constraint_out", w, c), want), And(live, c >= 0, nnz == n), names=names, replay=rp, desc=f"sparse qfrc kernel: the row's contribution to a dof differs from J[e,dof]*force ({n} non-zeros)")
    L.prove_inrange(ctx, sess, kt, names, rp, guard=live, what="sparse qfrc kernel")
    ctx.prove(sess, "dead-row-adds-nothing", cmp("==", kt.atomic_total("qfrc_constraint_out", w, c), 0.0), Not(live), names=names, replay=rp, desc="sparse qfrc kernel: a row of a done/unchanged world or beyond nefc contributes")
    o = z3.Int("o")
    ctx.prove(sess, "adds-only-to-own-world", cmp("==", kt.atomic_total("qfrc_constraint_out", o, c), 0.0), o != w, names=names, replay=rp, desc="sparse qfrc kernel adds to another world")
    plain = [a for a in kt.it.accesses if a.cell is kt.cell("qfrc_constraint_out") and a.kind.startswith("W")]
    if plain:
      ctx.error("sparse qfrc kernel has non-atomic stores to qfrc_constraint")
    # zeroing kernel: zeroes exactly under the condition under which rows add
    kz = solver._zero_qfrc_constraint_sparse
    kz_t = lib.kernel_thread(kz, cap=6)
    zw, zd = kz_t.tid
    zlive = And(Not(kz_t.pre("ctx_done_in", zw)), kz_t.pre("state_changed_count_in", zw) != 0)
    zs = ctx.session(kz_t.bg)
    ctx.reach(zs, "twin:zero-live", zlive)
    zloc = "mujoco_warp._src.solver:_zero_qfrc_constraint_sparse"
    zrp = lib.make_replay(ctx, kz_t, zloc, "zero-frame", "goal", goal="checks.c24:goal_unchanged_except", env={"label": "qfrc_constraint_out", "own": None, "sentinels": {"qfrc_constraint_out": 7.5}})
    ctx.prove(zs, "zero/live=>zeroed", And(kz_t.written("qfrc_constraint_out", zw, zd), cmp("==", kz_t.post("qfrc_constraint_out", zw, zd), 0.0)), zlive, names={"w": zw, "dof": zd}, replay=lib.make_replay(ctx, kz_t, zloc, "zeroed", "goal", goal="checks.c24:goal_zeroed", env={"sentinels": {"qfrc_constraint_out": 7.5}}), desc="_zero_qfrc_constraint_sparse does not clear a world whose rows are about to be accumulated")
    ctx.prove(zs, "zero/not-live=>untouched", Not(kz_t.written("qfrc_constraint_out", zw, zd)), Not(zlive), names={"w": zw, "dof": zd}, replay=zrp, desc="_zero_qfrc_constraint_sparse clears a world that will not be re-accumulated")

  return (f"qfrc/sparse/{'compact' if compact else 'plain'}", run)


def unit_from_grad(ctx):
  from mujoco_warp._src import solver

  kf = solver._qfrc_constraint_from_grad
  kg = solver._update_gradient_grad(False)
  ctx.encode(kf, kg)
  ctx.assume("grad_scale == 1 for the inversion (the stable-state fast path's invariant 'true gradient = grad_scale * stored gradient' depends on the line search and is outside)")
  kt = lib.kernel_thread(kf, cap=6)
  w, dof = kt.tid
  sess = ctx.session(kt.bg)
  ctx.reach(sess, "twin:reachable", True)
  Ma, qs, G, sc = kt.pre("efc_Ma_in", w, dof), kt.pre("qfrc_smooth_in", w, dof), kt.pre("ctx_grad_in", w, dof), kt.pre("ctx_grad_scale_in", w)
  names = {"w": w, "dof": dof}
  ctx.prove(sess, "from_grad==Ma-qfrc_smooth-scale*grad", And(kt.written("qfrc_constraint_out", w, dof), cmp("==", kt.post("qfrc_constraint_out", w, dof), Ma - qs - sc * G)), True, names=names, replay=lib.make_replay(ctx, kt, "mujoco_warp._src.solver:_qfrc_constraint_from_grad", "formula", "goal", goal="checks.c24:goal_from_grad", env={"randomize_floats": 2}), desc="_qfrc_constraint_from_grad: wrong formula")
  kt2 = lib.kernel_thread(kg, cap=6)
  w2, d2 = kt2.tid
  s2 = ctx.session(kt2.bg)
  live = Not(kt2.pre("ctx_done_in", w2))
  ctx.reach(s2, "twin:grad-live", live)
  g = kt2.post("ctx_grad_out", w2, d2)
  Ma2, qs2, qc2 = kt2.pre("efc_Ma_in", w2, d2), kt2.pre("qfrc_smooth_in", w2, d2), kt2.pre("qfrc_constraint_in", w2, d2)
  ctx.prove(s2, "grad==Ma-qfrc_smooth-qfrc_constraint", And(kt2.written("ctx_grad_out", w2, d2), cmp("==", g, Ma2 - qs2 - qc2)), live, names={"w": w2, "dof": d2}, replay=lib.make_replay(ctx, kt2, "mujoco_warp._src.solver:_update_gradient_grad(False)", "formula", "goal", goal="checks.c24:goal_grad", env={"randomize_floats": 2}), desc="_update_gradient_grad: wrong formula")
  # inversion: substitute the gradient kernel's output into from_grad (same Ma, qfrc_smooth), scale 1
  inv = z3.substitute(kt.post("qfrc_constraint_out", w, dof), (G, Ma - qs - z3.Real("qc")), (sc, z3.RealVal(1)))
  ctx.prove(sess, "from_grad(grad(qfrc_constraint))==qfrc_constraint", inv == z3.Real("qc"), True, names=names, replay=roundtrip_replay, desc="_qfrc_constraint_from_grad does not invert _update_gradient_grad")



# ------------------------------------------------------------------------------------------------ units: row assembly (constraint.py) -> the assumptions of the units above

EFC_ROW_ARGS = ["opt_disableflags", "worldid", "timestep", "efcid", "pos_aref", "pos_imp", "invweight", "solref", "solimp", "margin", "vel", "frictionloss", "type", "id"]


def _run_efc_row(mode, prefix, shared=None):
  """REAL constraint._efc_row on symbolic scalar arguments, outputs = 1x1 dense arrays (worldid = efcid = 0)"""
  from mujoco_warp._src import constraint

  core.DIVMODE[0] = mode
  f = constraint._efc_row
  shapes = {lab: [1, 1] for lab in ("type_out", "id_out", "pos_out", "margin_out", "D_out", "vel_out", "aref_out", "frictionloss_out")}
  args = kh.make_args(f, shapes=shapes, scalars=dict({"worldid": 0, "efcid": 0}, **(shared or {})), mode="dense", prefix=prefix)
  replay.snapshot_initial(args)
  it, _ = kh.run(f, args, unroll=4)
  return args, it


def efc_row_replay(ctx, name, args, what):
  """replay on the REAL _efc_row through a tiny kernel: the stored D obeys D > 0 and (clamp inactive) D*invweight*(1-imp) = imp
  with imp recomputed from MuJoCo's impedance formula"""

  def _rp(model):
    import warp as wp

    from mujoco_warp._src import constraint
    from mujoco_warp._src.types import vec5

    row = constraint._efc_row

    @wp.kernel
    def c24_efc_row_runner(flags: int, x: wp.array[float], solref: wp.vec2, solimp: vec5, typ: int, idv: int, t_o: wp.array2d[int], i_o: wp.array2d[int], p_o: wp.array2d[float], m_o: wp.array2d[float], D_o: wp.array2d[float], v_o: wp.array2d[float], a_o: wp.array2d[float], f_o: wp.array2d[float]):
      row(flags, 0, x[0], 0, x[1], x[2], x[3], solref, solimp, x[4], x[5], x[6], typ, idv, t_o, i_o, p_o, m_o, D_o, v_o, a_o, f_o)

    mv = lambda v: L.mvalf(model, v)
    A = args
    x = [mv(A[k]) for k in ("timestep", "pos_aref", "pos_imp", "invweight", "margin", "vel", "frictionloss")]
    si = [mv(v) for v in A["solimp"].c]
    sr = [mv(v) for v in A["solref"].c]
    outs = [wp.zeros((1, 1), dtype=int), wp.zeros((1, 1), dtype=int)] + [wp.zeros((1, 1), dtype=float) for _ in range(6)]
    typ, idv = int(kh.mval(model, A["type"])), int(kh.mval(model, A["id"]))
    wp.launch(c24_efc_row_runner, dim=1, inputs=[int(kh.mval(model, A["opt_disableflags"])) & 0xFFFF, wp.array(np.array(x, dtype=np.float32), dtype=float), wp.vec2(*sr), vec5(*si), typ % 1000, idv % 1000] + outs, device="cpu")
    wp.synchronize()
    D = float(outs[4].numpy()[0, 0])
    imp = ref_impedance(x[2], si)
    R = x[3] * (1 - imp) / imp
    want = 1.0 / max(R, 1e-15)
    ok = D > 0 and lib.approx(D, want, rtol=2e-3) and int(outs[0].numpy()[0, 0]) == typ % 1000 and int(outs[1].numpy()[0, 0]) == idv % 1000
    text = f"_efc_row(invweight={x[3]}, pos_imp={x[2]}, solimp={si}): D = {D}, type/id stored {int(outs[0].numpy()[0, 0])}/{int(outs[1].numpy()[0, 0])}; MuJoCo: imp = {imp}, D = 1/max(invweight*(1-imp)/imp, MINVAL) = {want}, type/id {typ % 1000}/{idv % 1000} [{what}]"
    return (not ok), L.write_replay(PID, ctx.unit, name, {"function": "constraint._efc_row", "result": text})

  return _rp


def ref_impedance(pos, solimp):
  """MuJoCo's constraint impedance d(r) (mj_makeImpedance / getimpedance), floats"""
  lo, hi = 1e-4, 0.9999
  dmin, dmax = min(max(solimp[0], lo), hi), min(max(solimp[1], lo), hi)
  width, mid, power = max(1e-15, solimp[2]), min(max(solimp[3], lo), hi), max(1.0, solimp[4])
  if dmin == dmax or solimp[2] <= 1e-15:
    return 0.5 * (dmin + dmax)  # flat impedance (mj getimpedance)
  x = abs(pos) / width
  if x > 1.0:
    return dmax
  y = (1.0 / mid ** (power - 1)) * x**power if x < mid else 1.0 - (1.0 / (1 - mid) ** (power - 1)) * (1 - x) ** power
  return dmin + y * (dmax - dmin)


def validate_impedance(seed):
  """ref_impedance / D against mujoco: efc_D of a frictionless contact row = 1/R, R = max(MINVAL, (1-imp)/imp * invweight)"""
  import mujoco

  rng = np.random.default_rng(seed)
  for trial in range(6):
    si = [rng.uniform(0.5, 0.95), rng.uniform(0.9, 0.99), rng.uniform(0.001, 0.05), rng.uniform(0.2, 0.8), rng.choice([1.0, 2.0, 3.0])]
    z = 0.05 - rng.uniform(0.0, 0.03)
    xml = f"""<mujoco><worldbody><geom type="plane" size="5 5 .1" condim="1"/><body pos="0 0 {z}"><freejoint/><geom size=".05" condim="1" solimp="{' '.join(str(v) for v in si)}"/></body></worldbody></mujoco>"""
    m = mujoco.MjModel.from_xml_string(xml)
    d = mujoco.MjData(m)
    mujoco.mj_forward(m, d)
    if d.nefc != 1:
      return f"impedance validation scene has nefc {d.nefc}"
    con = d.contact[0]
    imp = ref_impedance(con.dist - con.includemargin, list(con.solimp))
    iw = m.body_invweight0[1, 0] + m.body_invweight0[0, 0]
    want = 1.0 / max(iw * (1 - imp) / imp, 1e-15)
    if not np.isclose(d.efc_D[0], want, rtol=1e-6):
      return f"ref impedance: efc_D {d.efc_D[0]} vs 1/(invweight*(1-imp)/imp) = {want} (imp {imp}, solimp {si})"
  return None


def unit_efc_row(ctx):
  from mujoco_warp._src import constraint, types

  err = validate_impedance(ctx.seed)
  if err:
    ctx.error("reference impedance validation against mujoco failed: " + err)
    return
  ctx.encode(constraint._efc_row)
  ctx.bound(note="all scalar arguments of _efc_row symbolic (solref, solimp, timestep, invweight, pos, vel, margin); pow() uninterpreted with true facts")
  ctx.assume("floats are exact reals", "D-law: the MJ_MINVAL clamp on R is inactive, stated on the output as efc_D * MJ_MINVAL < 1")
  args, it = _run_efc_row("poly", "r.")
  imp, iw = it.top_frame.env["imp"], args["invweight"]
  D = args["D_out"].cell.d[0][0]
  MINVAL, MINIMP, MAXIMP = [z3.RealVal(repr(float(v))) for v in (types.MJ_MINVAL, types.MJ_MINIMP, types.MJ_MAXIMP)]
  # real-analysis facts about the power-law interpolant (pow is uninterpreted): for power >= 1, 0 < mid < 1,
  #   0 <= x < mid   =>  x^p / mid^(p-1)         = x ((x/mid)^(p-1))             in [0, 1]
  #   mid <= x <= 1  =>  (1-x)^p / (1-mid)^(p-1) = (1-x) (((1-x)/(1-mid))^(p-1)) in [0, 1]
  # (the code does not clamp the interpolated impedance, like MuJoCo; its range rests on these facts)
  env = it.top_frame.env
  x_, mid_, ya, yb = env["imp_x"], env["mid"], env["imp_a"], env["imp_b"]
  powfacts = [z3.Implies(z3.And(x_ >= 0, x_ < mid_), z3.And(ya >= 0, ya <= 1)), z3.Implies(z3.And(x_ >= mid_, x_ <= 1), z3.And(yb >= 0, yb <= 1))]
  ctx.assume("power-law interpolant y(x) lies in [0, 1] for 0 <= x <= 1 (power >= 1, 0 < mid < 1): real-analysis fact about pow, not decided by the solver")
  sess = ctx.session([core.zbool(a) for a in it.assumes] + powfacts)
  ctx.reach(sess, "twin:clamp-inactive", D * MINVAL < 1)
  names = {"invweight": iw, "pos_imp": args["pos_imp"], "D": D}
  rp = lambda nm, what: efc_row_replay(ctx, nm, args, what)
  ctx.prove(sess, "impedance-in-[MINIMP,MAXIMP]", And(imp >= MINIMP, imp <= MAXIMP), True, names=names, replay=rp("imp", "impedance range"), desc="_efc_row: impedance leaves [mjMINIMP, mjMAXIMP]")
  ctx.prove(sess, "efc_D>0", D > 0, True, names=names, replay=rp("Dpos", "D > 0"), desc="_efc_row writes a non-positive efc_D (every row type: the D > 0 precondition of rows/scalar, eval/elliptic)")
  ctx.prove(sess, "D-law:D*invweight*(1-imp)==imp", D * iw * (1 - imp) == imp, D * MINVAL < 1, names=names, replay=rp("Dlaw", "D law"), desc="_efc_row: efc_D is not imp / (invweight * (1 - imp)) although the MINVAL clamp is inactive")
  outs = {lab: args[lab].cell.d[0][0] for lab in ("type_out", "id_out", "frictionloss_out")}
  ctx.prove(sess, "stores-type-id-frictionloss", And(outs["type_out"] == args["type"], outs["id_out"] == args["id"], outs["frictionloss_out"] == args["frictionloss"]), True, names=names, replay=rp("store", "type/id"), desc="_efc_row does not store its type / id / frictionloss arguments in the row")
  # efc_D and the impedance are functions of (invweight, pos_imp, solimp) only: two calls sharing exactly those arguments
  core.DIVMODE[0] = "native"
  sh = {"pos_imp": z3.Real("s.pos_imp"), "solimp": core.Vec([z3.Real(f"s.solimp_{i}") for i in range(5)], (5,), "f")}
  a1, it1 = _run_efc_row("native", "a.", dict(sh, invweight=z3.Real("s.invweight")))
  a2, it2 = _run_efc_row("native", "b.", dict(sh, invweight=z3.Real("s.invweight")))
  s2 = ctx.session([core.zbool(a) for a in it1.assumes + it2.assumes])
  ctx.reach(s2, "twin:two-calls", a1["timestep"] != a2["timestep"])
  ctx.prove(s2, "D-depends-only-on(invweight,pos_imp,solimp)", a1["D_out"].cell.d[0][0] == a2["D_out"].cell.d[0][0], True, names={"invweight": z3.Real("s.invweight")}, replay=efc_row_replay(ctx, "dep", a1, "dependency"), desc="_efc_row: efc_D depends on something else than invweight, pos_imp, solimp")
  a3, it3 = _run_efc_row("native", "c.", sh)
  s3 = ctx.session([core.zbool(a) for a in it1.assumes + it3.assumes])
  ctx.prove(s3, "impedance-depends-only-on(pos_imp,solimp)", it1.top_frame.env["imp"] == it3.top_frame.env["imp"], True, names={"pos_imp": sh["pos_imp"]}, replay=efc_row_replay(ctx, "depimp", a1, "dependency"), desc="_efc_row: impedance depends on something else than pos_imp, solimp (rows of one contact would not share it)")
  core.DIVMODE[0] = "poly"
  # chain lemma (pure algebra): two rows with the same impedance I, the D-law, and the invweight scaling  =>  the cone relation
  nr = lambda m: (False, "pure algebraic lemma (no code involved)")
  Dj, D0, wj, w0, I, fr, mu = z3.Reals("Dj D0 wj w0 I fr mu")
  lem = ctx.session([I > 0, I < 1, Dj * wj * (1 - I) == I, D0 * w0 * (1 - I) == I, wj * fr * fr == w0 * mu * mu, fr > 0, mu > 0], tactic="qfnra-nlsat")
  ctx.reach(lem, "twin:lemma-scaling", D0 > 0)
  ctx.prove(lem, "lemma/D-law+invweight-scaling=>D_j*mu^2==D_0*friction_j^2", Dj * mu * mu == D0 * fr * fr, True, names={"I": I}, replay=nr, desc="chain lemma fails")
  lem2 = ctx.session([I > 0, I < 1, Dj * wj * (1 - I) == I, D0 * w0 * (1 - I) == I, wj == w0], tactic="qfnra-nlsat")
  ctx.reach(lem2, "twin:lemma-equal", D0 > 0)
  ctx.prove(lem2, "lemma/equal-invweight=>equal-D", Dj == D0, True, names={"I": I}, replay=nr, desc="chain lemma fails")


def goal_contact_rows(spec, pre, post):
  """whole-grid replay of _efc_contact_update[_flex]: the rows written for the contact satisfy the relation the solver units
  assume (elliptic: D_j*mu^2 = D_0*friction_j^2; pyramidal: all rows share D), type / id as expected"""
  e = spec["env"]
  w, c, e0, n, ell = int(e["w"]), int(e["conid"]), int(e["e0"]), int(e["n"]), bool(e["elliptic"])
  D = [float(post["efc_D_out"][w, e0 + k]) for k in range(n)]
  typ = [int(post["efc_type_out"][w, e0 + k]) for k in range(n)]
  ids = [int(post["efc_id_out"][w, e0 + k]) for k in range(n)]
  fr = [float(x) for x in pre["friction_in"][c]]
  imp = pre["opt_impratio_invsqrt"]
  mu = fr[0] * float(imp[w % len(imp)])
  want_t = L.T_FRICTIONLESS if int(e["dim"]) == 1 else (L.T_ELLIPTIC if ell else L.T_PYRAMIDAL)
  ok = all(t == want_t for t in typ) and all(i == c for i in ids)
  clamp = any(d * 1e-15 >= 0.999 for d in D)
  rel = []
  if not clamp:
    for k in range(1, n):
      lhs, rhs = (D[k] * mu * mu, D[0] * fr[k - 1] * fr[k - 1]) if ell else (D[k], D[0])
      rel.append((lhs, rhs))
      ok = ok and lib.approx(lhs, rhs, rtol=2e-3)
  return ok, f"contact {c} rows ({w},{e0}..{e0 + n - 1}): efc_D {D} type {typ} id {ids}; friction {fr[: max(1, int(e['dim']) - 1)]} mu {mu}; " + ("D_j*mu^2 vs D_0*friction_j^2" if ell else "D_j vs D_0") + f" = {rel}; expected type {want_t}, id {c}" + ("; MINVAL clamp active (relation not claimed)" if clamp else "")


def unit_assemble(elliptic, dim, flex, layout, adhesion=True):
  cname = "elliptic" if elliptic else "pyramidal"

  def run(ctx):
    from mujoco_warp._src import constraint

    U = L.ContactUpdate(elliptic, dim, adhesion, flex, layout)
    ctx.encode(U.k, constraint._efc_row)
    ctx.bound(cone=cname, condim=dim, flex_kernel=flex, flg_adhesion=adhesion, layout=U.text)
    ctx.assume(
      "concrete bookkeeping: the contact is listed (conid < nacon), has the CONSTRAINT type bit, efc_address[c, k] = e0+k >= 0 (C39 rows/*: what _efc_contact_init writes without njmax overflow), geom ids >= 0 (rigid geoms; the flex-body weight paths of the flex kernel are outside)",
      "friction[0..condim-2] > 0 and impratio^-1/2 > 0 (friction components are NOT assumed equal); every other float input (dist, margin, solref, solreffriction, solimp, body_invweight0, timestep, Jqvel, adhesion) symbolic",
      "floats are exact reals; divisions as q*den = num",
    )
    pre = U.bg + [U.imp > 0] + [f > 0 for f in U.fr]
    sess = ctx.session(pre, tactic="qfnra-nlsat")
    # reachability twin with a concrete witness for the float inputs (the bare satisfiability query over all the division
    # contracts is slow for the incremental solver): generic anisotropic friction, default-like solimp, small penetration
    wit, vals = [], {"friction_in": [1.0, 0.6, 0.3, 0.2, 0.1], "solimp_in": [0.9, 0.95, 0.001, 0.5, 2.0], "solref_in": [0.02, 1.0], "solreffriction_in": [0.0, 0.0], "dist_in": [-0.001], "includemargin_in": [0.0], "opt_impratio_invsqrt": [0.5], "opt_timestep": [0.002], "body_invweight0": [0.7, 0.3], "adhesion_in": [0.0], "efc_Jqvel_in": [0.1]}
    for lab, vv in vals.items():
      cell = U.args[lab].cell
      for kk in range(cell.ncomp):
        wit += [x == vv[kk % len(vv)] for x in cell.d0[kk] if is_sym(x)]
    ctx.reach(ctx.session(pre), "twin:contact-rows", And(*wit))
    want_t = L.T_FRICTIONLESS if dim == 1 else (L.T_ELLIPTIC if elliptic else L.T_PYRAMIDAL)
    names = {f"friction{i}": U.fr[i] for i in range(max(1, dim - 1))} | {"impratio_invsqrt": U.imp}
    rp = lambda nm: contact_update_replay(ctx, nm, U)
    if U.calls[0] is None:
      ctx.prove(sess, "row0/one-_efc_row-call", False, True, names=names, replay=rp("row0-call"), desc=f"{U.builder}: row 0 is not assembled by exactly one _efc_row call")
      return
    A0 = dict(zip(EFC_ROW_ARGS, U.calls[0][1]))
    for k in range(U.n):
      if U.calls[k] is None:
        ctx.prove(sess, f"row{k}/one-_efc_row-call", False, True, names=names, replay=rp(f"row{k}-call"), desc=f"{U.builder}: row {k} is not assembled by exactly one _efc_row call")
        continue
      g, a = U.calls[k]
      A = dict(zip(EFC_ROW_ARGS, a))
      P = lambda nm, goal, desc: ctx.prove(sess, f"row{k}/{nm}", goal, True, names=names, replay=rp(f"row{k}-{nm}"), desc=f"{U.builder} ({cname}, condim {dim}) row {k}: {desc}")
      P("assembled", g, "a listed CONSTRAINT contact row with efc_address >= 0 is not assembled")
      P("world-row-id-type", And(cmp("==", A["worldid"], U.w), cmp("==", A["efcid"], U.e0 + k), cmp("==", A["id"], U.c), cmp("==", A["type"], want_t)), "written to the wrong world / row, or wrong efc.id / efc.type (the layout _update_constraint_efc and contact_force rely on)")
      P("same-impedance-inputs", And(cmp("==", A["pos_imp"], U.pos), *[cmp("==", A["solimp"].c[i], U.solimp[i]) for i in range(5)]), "impedance inputs (dist - margin, solimp) differ from the contact's: rows of one contact would not share their impedance")
      if k >= 1 and elliptic:
        P("invweight*friction_j^2==invweight_0*mu^2", A["invweight"] * U.fr[k - 1] * U.fr[k - 1] == A0["invweight"] * U.mu * U.mu, f"friction-row regularisation: invweight_{k} * friction[{k - 1}]^2 != invweight_0 * (friction[0]*impratio^-1/2)^2, so D_{k}*mu^2 != D_0*friction_{k - 1}^2 (elliptic cost not MuJoCo's; bottom-zone forces can leave the cone)")
      if k >= 1 and not elliptic:
        P("invweight==invweight_0", cmp("==", A["invweight"], A0["invweight"]), "pyramid edge rows of one contact do not share their regularisation")
      P("stores-row", And(cmp("==", U.typ[k], want_t), cmp("==", U.ids[k], U.c)), "stored efc.type / efc.id wrong")
    ctx.notes.append("with efcrow (D-law, impedance a function of (pos_imp, solimp)) and its chain lemma: elliptic rows satisfy D_j*mu^2 = D_0*friction_j^2 when the MINVAL clamp is inactive; pyramidal rows share D")

  return (f"assemble/{cname}/condim{dim}/{'flex-kernel/' if flex else ''}{layout}", run)


def contact_update_replay(ctx, name, U):
  def _rp(model):
    import warp as wp

    conc = replay.concretize_args(model, U.k, U.args)
    specs = kh.arg_specs(U.k)
    k = replay.locate(U.locator)
    rng = np.random.default_rng(4242)
    env = {"w": U.w, "conid": U.c, "e0": U.e0, "n": U.n, "elliptic": U.elliptic, "dim": U.dim}
    for trial in range(4):
      vals, arrays = replay.build_arrays(conc, specs)
      if trial:  # keep the integers, re-draw the floats inside the preconditions (generic anisotropic friction)
        for label, arr in arrays.items():
          a = arr.numpy()
          if a.dtype.kind == "f" and a.size and not label.endswith("_out"):
            r = rng.uniform(0.3, 2.0, size=a.shape)
            if label == "solimp_in":
              r = np.tile(np.array([0.9, 0.95, 0.001, 0.5, 2.0]), a.shape[:-1] + (1,)) * rng.uniform(0.9, 1.0, size=a.shape)
            if label in ("dist_in",):
              r = -rng.uniform(0.0001, 0.002, size=a.shape)
            if label in ("includemargin_in", "adhesion_in"):
              r = np.zeros(a.shape)
            arr.assign(r.astype(a.dtype))
      pre = {k_: v.numpy().copy() for k_, v in arrays.items()}
      ncon, nadr = arrays["contact_efc_address_in"].shape
      wp.launch(k, dim=(ncon, nadr), inputs=vals, device="cpu")
      wp.synchronize()
      post = {k_: v.numpy().copy() for k_, v in arrays.items()}
      ok, text = goal_contact_rows({"env": env}, pre, post)
      if not ok:
        break
    path = L.write_replay(ctx.pid, ctx.unit, name, {"kernel": U.locator, "launch_dim": [int(ncon), int(nadr)], "inputs": {k_: v.tolist() for k_, v in pre.items()}, "result": text + (f" (float inputs re-drawn, trial {trial})" if trial else "")})
    return (not ok), path

  return _rp


def main(tier, seed, only=None):
  thorough = tier == "thorough"
  units = [unit_scalar(False), unit_scalar(True)]
  dims = (3, 4, 6)
  units += [unit_gather(d, False, lay) for d in dims for lay in (("A", "B", "C") if thorough else ("A", "C"))] + [unit_gather(3, True, "A")]
  units += [unit_eval(d) for d in (3, 4, 6)]
  U = 6 if thorough else 4
  units += [unit_qfrc_dense(False, U), unit_qfrc_dense(True, U), unit_qfrc_sparse(False, U), unit_qfrc_sparse(True, U), ("qfrc/from_grad", unit_from_grad)]
  units.append(("efcrow", unit_efc_row))
  for d in (3, 4, 6):
    units += [unit_assemble(True, d, False, "A"), unit_assemble(True, d, True, "A"), unit_assemble(False, d, False, "A")]
    if thorough:
      units += [unit_assemble(True, d, False, "B", adhesion=False), unit_assemble(False, d, True, "A"), unit_assemble(False, d, False, "B", adhesion=False)]
  units += [unit_assemble(True, 1, False, "A"), unit_assemble(False, 1, False, "A")]
  if only:
    units = [u for u in units if any(o in u[0] for o in only)]
  return report.run_check(PID, units, tier, seed)
