"""C32 Disable / enable flags act exactly as in MuJoCo.

Kernel level (solver queries, flag words symbolic): every flag-gated term removes exactly its own contribution
 efc_row            REFSAFE: result depends on the flag word only through that bit; bit clear == bit set with solref[0] := max(solref[0], 2*dt)
 spring_damper_dof  SPRING / DAMPER: a disabled term writes zeros for the joint's dofs; each output depends only on its own bit
 spring_damper_ten  tendon springs / dampers: disabled term adds nothing, the other one is unaffected
 actuator_force     CLAMPCTRL: flag set == flag clear with ctrllimited off; flag clear == flag set on clamp(ctrl)
 gravcomp           GRAVITY: _qfrc_passive_kernel / _qfrc_actuator_gravcomp_limits with gravity off == gravity on with zero gravcomp force
 qderiv_damper      DAMPER: _qderiv_actuator_passive drops exactly the damping derivative
Host level (side condition, enumeration over concrete flag words): the launch trace of the real forward()/step() with one flag
toggled differs from the baseline trace by exactly the kernels of that flag's stage (table from MuJoCo's mj_forward structure).
"""

import json
import os

import z3

from checks import lib
from wsym import core, kh, report

PID = "C32"


def comm():
  """the engine orders the operands of the uninterpreted float product syntactically; in relational queries the two runs may
  order equal operands differently, so commutativity is stated explicitly"""
  fx, fy = z3.Reals("fx fy")
  fm = z3.Function("fmul", z3.RealSort(), z3.RealSort(), z3.RealSort())
  return [z3.ForAll([fx, fy], fm(fx, fy) == fm(fy, fx))]


def kthread(kernel, **kw):
  """lib.kernel_thread with the engine's fresh-symbol counter restarted: relational queries compare several runs of one kernel
  with the same control-flow structure, and the engine's arbitrary values for variables read on paths that never define them
  (no valid Warp kernel reads such a value) must denote the same unknown in every run"""
  import itertools

  core._GLOBAL_FRESH = itertools.count()
  return lib.kernel_thread(kernel, **kw)


def bit(x, b):
  return (x / int(b)) % 2 == 1


def goal_same(spec, pres, posts):
  """the listed output arrays are equal across the two variants"""
  import numpy as np

  e = spec["env"]
  bad = []
  for label in e["labels"]:
    a, b = np.asarray(posts[0][label], dtype=float), np.asarray(posts[1][label], dtype=float)
    if not np.allclose(a, b, rtol=1e-4, atol=1e-6, equal_nan=True):
      bad.append(f"{label}: {a.reshape(-1)[:8].tolist()} vs {b.reshape(-1)[:8].tolist()}")
  return not bad, f"variants {e['variants']}: " + ("; ".join(bad) if bad else "outputs equal")


def goal_zero(spec, pre, post):
  """post[label][idx] must be zero (or unchanged == 0 sentinel semantics: we pre-fill with 7)"""
  import numpy as np

  e = spec["env"]
  bad = []
  for label, idx in e["cells"]:
    v = float(np.asarray(post[label])[tuple(idx)])
    if v != 0.0:
      bad.append(f"{label}{idx} = {v}")
  return not bad, "; ".join(bad) if bad else "all zero"


def goal_unchanged(spec, pre, post):
  import numpy as np

  e = spec["env"]
  bad = []
  for label in e["labels"]:
    if not np.array_equal(np.asarray(pre[label]), np.asarray(post[label])):
      bad.append(f"{label} changed: {np.asarray(pre[label]).reshape(-1)[:6].tolist()} -> {np.asarray(post[label]).reshape(-1)[:6].tolist()}")
  return not bad, "; ".join(bad) if bad else "unchanged"


def posts_equal(kt1, kt2, label, *idx):
  c = kt1.cell(label)
  return z3.And(*[core.zbool(core.cmp("==", kt1.post(label, *idx, k=k), kt2.post(label, *idx, k=k))) for k in range(c.ncomp)])


# -------------------------------------------------------------------------------------------------------------- REFSAFE


def unit_efc_row(ctx):
  from mujoco_warp._src import constraint, types

  f = constraint._efc_row
  ctx.encode(f)
  B = int(types.DisableBit.REFSAFE)
  ctx.assume("solref is sign-consistent (both > 0 or both <= 0; MuJoCo replaces mixed-sign solref by the default)", "timestep > 0", "float products / quotients / pow are uninterpreted (the claim is relational)")
  flags = z3.Int("flags")
  OUT = ["type_out", "id_out", "pos_out", "margin_out", "D_out", "vel_out", "aref_out", "frictionloss_out"]

  def run(fl, solref=None):
    sc = {"opt_disableflags": fl}
    if solref is not None:
      sc["solref"] = solref
    args = kh.make_args(f, scalars=sc)
    it, _ = kh.run(f, args, float_uf=True)
    return args, it

  aA, itA = run(flags)
  a0, it0 = run(0)
  a1, it1 = run(B)
  s = aA["solref"]
  dt = aA["timestep"]
  two_dt = core.arith("*", 2.0, dt)
  safe = core.Vec([z3.If(s.c[0] > 0, z3.If(s.c[0] >= two_dt, s.c[0], two_dt), s.c[0]), s.c[1]], s.shape, s.dt)
  a1s, it1s = run(B, safe)
  w, e = aA["worldid"], aA["efcid"]
  bg = comm() + [core.zbool(x) for it in (itA, it0, it1, it1s) for x in it.assumes] + [flags >= 0, dt > 0, z3.Or(z3.And(s.c[0] > 0, s.c[1] > 0), z3.And(s.c[0] <= 0, s.c[1] <= 0))]
  sess = ctx.session(bg)
  ctx.reach(sess, "twin:reachable", True)
  ctx.reach(sess, "twin:clamp-active", z3.And(s.c[0] > 0, s.c[0] < two_dt))

  def eq(x, y):
    return z3.And(*[core.zbool(core.cmp("==", x[L].cell.get((w, e)), y[L].cell.get((w, e)))) for L in OUT])

  names = {"flags": flags, "solref0": s.c[0], "solref1": s.c[1], "timestep": dt}
  rp = replay_efc_row(ctx, aA, flags)
  ctx.prove(sess, "only-the-REFSAFE-bit-matters/clear", eq(aA, a0), z3.Not(bit(flags, B)), names=names, replay=rp("flags-vs-0"), desc="_efc_row: with REFSAFE enabled the row depends on other bits of disableflags")
  ctx.prove(sess, "only-the-REFSAFE-bit-matters/set", eq(aA, a1), bit(flags, B), names=names, replay=rp("flags-vs-bit"), desc="_efc_row: with REFSAFE disabled the row depends on other bits of disableflags")
  ctx.prove(sess, "refsafe-is-exactly-the-timeconst-clamp", eq(a0, a1s), names=names, replay=rp("clamp"), desc="_efc_row: REFSAFE does something other than solref[0] := max(solref[0], 2*timestep) for positive solref (MuJoCo semantics)")
  ctx.prove(sess, "refsafe-disabled-uses-solref-as-given", z3.Implies(z3.Or(s.c[0] >= two_dt, s.c[0] <= 0), eq(a0, a1)), names=names, replay=rp("noclamp"), desc="_efc_row: REFSAFE changes a row whose time constant is already safe")


EFC_ROW_REPLAY = r'''
import json, sys
import numpy as np, warp as wp
wp.config.quiet = True
from mujoco_warp._src import constraint, types
from mujoco_warp._src.types import vec5
spec = json.load(open(sys.argv[1]))
f = constraint._efc_row
@wp.kernel
def k(flags: int, timestep: float, pos_aref: float, pos_imp: float, invweight: float, solref: wp.vec2, solimp: vec5, margin: float, vel: float, frictionloss: float,
      type_out: wp.array2d[int], id_out: wp.array2d[int], pos_out: wp.array2d[float], margin_out: wp.array2d[float], D_out: wp.array2d[float], vel_out: wp.array2d[float], aref_out: wp.array2d[float], frictionloss_out: wp.array2d[float]):
  f(flags, 0, timestep, 0, pos_aref, pos_imp, invweight, solref, solimp, margin, vel, frictionloss, 3, 5, type_out, id_out, pos_out, margin_out, D_out, vel_out, aref_out, frictionloss_out)
def run(flags, solref):
  outs = [wp.zeros((1, 1), dtype=int), wp.zeros((1, 1), dtype=int)] + [wp.zeros((1, 1), dtype=float) for _ in range(6)]
  a = spec["args"]
  wp.launch(k, dim=1, inputs=[flags, a["timestep"], a["pos_aref"], a["pos_imp"], a["invweight"], wp.vec2(*solref), vec5(*a["solimp"]), a["margin"], a["vel"], a["frictionloss"]], outputs=outs)
  return [float(o.numpy()[0, 0]) for o in outs]
r = [run(fl, sr) for fl, sr in spec["runs"]]
print("RESULT " + json.dumps(r))
'''


def replay_efc_row(ctx, args, flags):
  def mk(kind):
    def _rp(model):
      import subprocess
      import sys

      from mujoco_warp._src import types

      B = int(types.DisableBit.REFSAFE)
      g = lambda x: kh.mval(model, x)
      fl = int(g(flags))
      sr = [float(x) for x in g(args["solref"])]
      dt = float(g(args["timestep"]))
      # the solver's reals are arbitrary magnitudes; keep their ORDER relations (sign of solref, solref[0] vs 2*dt) and map them
      # to ordinary values so that a difference is visible in float32
      if sr[0] <= 0:
        sr, dt = [-100.0, -10.0], 0.01
      elif sr[0] < 2 * dt:
        sr, dt = [0.002, 1.0], 0.01
      elif sr[0] == 2 * dt:
        sr, dt = [0.02, 1.0], 0.01
      else:
        sr, dt = [0.05, 1.0], 0.01
      a = {"timestep": dt, "pos_aref": 0.01, "pos_imp": 0.01, "invweight": 1.0, "solimp": [0.9, 0.95, 0.001, 0.5, 2.0], "margin": 0.0, "vel": 0.1, "frictionloss": 0.0}
      safe = [max(sr[0], 2 * dt) if sr[0] > 0 else sr[0], sr[1]]
      runs = {"flags-vs-0": [[fl, sr], [0, sr]], "flags-vs-bit": [[fl, sr], [B, sr]], "clamp": [[0, sr], [B, safe]], "noclamp": [[0, sr], [B, sr]]}[kind]
      d = os.path.join(report.VERIF, "replays", PID)
      os.makedirs(d, exist_ok=True)
      path = os.path.join(d, f"efc_row.{kind}.json")
      json.dump({"property": PID, "args": a, "runs": runs, "how": "python replays/C32/efc_row_replay.py <this file>: calls the real constraint._efc_row twice"}, open(path, "w"))
      sp = os.path.join(d, "efc_row_replay.py")
      open(sp, "w").write(EFC_ROW_REPLAY)
      p = subprocess.run([sys.executable, sp, path], capture_output=True, text=True, timeout=600)
      line = [l for l in p.stdout.splitlines() if l.startswith("RESULT ")]
      if not line:
        raise RuntimeError(p.stderr[-600:])
      r = json.loads(line[-1][7:])
      import numpy as np

      same = bool(np.allclose(r[0], r[1], rtol=1e-4, atol=1e-6, equal_nan=True))
      return (not same), path

    return _rp

  return mk


# ------------------------------------------------------------------------------------------------------ SPRING / DAMPER


def unit_spring_damper_dof(ctx):
  from mujoco_warp._src import passive, types

  k = passive._spring_damper_dof_passive
  ctx.encode(k)
  S, D = int(types.DisableBit.SPRING), int(types.DisableBit.DAMPER)
  ctx.bound(unroll=6)
  ctx.assume("thread's own accesses in bounds", "float products uninterpreted (relational claims)")
  f1, f2 = z3.Int("flags1"), z3.Int("flags2")
  kt1 = kthread(k, scalars={"opt_disableflags": f1}, unroll=6, interp_kw={"float_uf": True})
  kt2 = kthread(k, scalars={"opt_disableflags": f2}, unroll=6, interp_kw={"float_uf": True})
  w, j = kt1.tid
  sess = ctx.session(kt1.bg + kt2.bg + [f1 >= 0, f2 >= 0] + comm())
  ctx.reach(sess, "twin:reachable", True)
  x = z3.Int("dof")
  loc = "mujoco_warp._src.passive:_spring_damper_dof_passive"
  names = {"flags1": f1, "flags2": f2, "world": w, "jnt": j, "dof": x, "jnttype": kt1.pre("jnt_type", j)}

  def rp_pair(name, labels):
    return lib.make_replay(ctx, kt1, loc, name, "goal", goal="checks.c32:goal_same", env={"labels": labels, "variants": [{"opt_disableflags": f1}, {"opt_disableflags": f2}], "sentinels": {"qfrc_spring_out": 7.0, "qfrc_damper_out": 7.0}, "randomize_floats": 2})

  for nm, B, lab, other in (("SPRING", S, "qfrc_spring_out", "qfrc_damper_out"), ("DAMPER", D, "qfrc_damper_out", "qfrc_spring_out")):
    same = z3.And(posts_equal(kt1, kt2, lab, w, x), core.zbool(kt1.written(lab, w, x)) == core.zbool(kt2.written(lab, w, x)))
    ctx.prove(sess, f"{lab}-depends-only-on-{nm}-bit", same, bit(f1, B) == bit(f2, B), names=names, replay=rp_pair(f"only-{nm}", [lab]), desc=f"_spring_damper_dof_passive: {lab} changes when a flag other than {nm} is toggled")
    # disabled: the joint's dofs are written with zero
    dofadr = kt1.pre("jnt_dofadr", j)
    jt = kt1.pre("jnt_type", j)
    ndof = z3.If(jt == int(types.JointType.FREE), 6, z3.If(jt == int(types.JointType.BALL), 3, 1))
    mine = z3.And(x >= dofadr, x < dofadr + ndof)
    rpz = lib.make_replay(ctx, kt1, loc, f"zero-{nm}", "goal", goal="checks.c32:goal_zero", env={"cells": [[lab, [w, x]]], "sentinels": {lab: 7.0}})
    ctx.reach(sess, f"twin:{nm}-disabled", z3.And(bit(f1, B), mine))
    ctx.prove(sess, f"{nm}-disabled-writes-zero", z3.And(core.zbool(kt1.written(lab, w, x)), core.zbool(core.cmp("==", kt1.post(lab, w, x), 0.0))), z3.And(bit(f1, B), mine, kt1.inshape(lab, w, x)), names=names, replay=rpz, desc=f"_spring_damper_dof_passive: with {nm} disabled the joint's {lab} entries are not zeroed (stale / non-zero force stays in qfrc_passive)")


def unit_spring_damper_tendon(ctx):
  from mujoco_warp._src import passive

  k = passive._spring_damper_tendon_passive
  ctx.encode(k)
  ctx.assume("thread's own accesses in bounds", "float products uninterpreted")
  s1, d1, s2, d2 = z3.Bools("dsbl_spring1 dsbl_damper1 dsbl_spring2 dsbl_damper2")
  kt1 = kthread(k, scalars={"dsbl_spring": s1, "dsbl_damper": d1}, unroll=3, interp_kw={"float_uf": True})
  kt2 = kthread(k, scalars={"dsbl_spring": s2, "dsbl_damper": d2}, unroll=3, interp_kw={"float_uf": True})
  w = kt1.tid[0]
  x = z3.Int("dof")
  sess = ctx.session(kt1.bg + kt2.bg + comm())
  ctx.reach(sess, "twin:reachable", True)
  loc = "mujoco_warp._src.passive:_spring_damper_tendon_passive"
  names = {"dsbl_spring1": s1, "dsbl_damper1": d1, "dsbl_spring2": s2, "dsbl_damper2": d2, "dof": x}
  for nm, a1, a2, lab in (("SPRING", s1, s2, "qfrc_spring_out"), ("DAMPER", d1, d2, "qfrc_damper_out")):
    rp = lib.make_replay(ctx, kt1, loc, f"only-{nm}", "goal", goal="checks.c32:goal_same", env={"labels": [lab], "variants": [{"dsbl_spring": s1, "dsbl_damper": d1}, {"dsbl_spring": s2, "dsbl_damper": d2}], "randomize_floats": 2})
    ctx.prove(sess, f"{lab}-depends-only-on-{nm}", core.zbool(core.cmp("==", kt1.atomic_total(lab, w, x), kt2.atomic_total(lab, w, x))), a1 == a2, names=names, replay=rp, desc=f"_spring_damper_tendon_passive: tendon contribution to {lab} changes when the other flag is toggled")
    rpu = lib.make_replay(ctx, kt1, loc, f"off-{nm}", "goal", goal="checks.c32:goal_unchanged", env={"labels": [lab], "randomize_floats": 2})
    ctx.prove(sess, f"{nm}-disabled-adds-nothing", z3.Not(core.zbool(kt1.written(lab, w, x))), a1, names=names, replay=rpu, desc=f"_spring_damper_tendon_passive: with {nm} disabled a tendon still adds to {lab}")


# ------------------------------------------------------------------------------------------------------------ CLAMPCTRL


def unit_actuator_force(ctx):
  from mujoco_warp._src import forward

  k = forward._actuator_force
  ctx.encode(k)
  ctx.bound(unroll=3)
  ctx.assume("thread's own accesses in bounds", "float products / exp uninterpreted", "ctrlrange[0] <= ctrlrange[1]")
  dc = z3.Int("dsbl_clampctrl")
  kt = kthread(k, scalars={"dsbl_clampctrl": dc}, unroll=3, interp_kw={"float_uf": True})
  # the reference runs use symbolic flag words pinned to 1 / 0 in the background: identical control-flow structure keeps the
  # engine's per-run fresh symbols (values of variables on paths that never define them) aligned across the three runs
  dc1, dc0 = z3.Int("dsbl_clampctrl_one"), z3.Int("dsbl_clampctrl_zero")
  kt1 = kthread(k, scalars={"dsbl_clampctrl": dc1}, unroll=3, interp_kw={"float_uf": True})
  kt0 = kthread(k, scalars={"dsbl_clampctrl": dc0}, unroll=3, interp_kw={"float_uf": True})
  kt1.bg.append(dc1 == 1)
  kt0.bg.append(dc0 == 0)
  w, u = kt.tid
  OUT = ["act_dot_out", "actuator_force_out"]
  loc = "mujoco_warp._src.forward:_actuator_force"
  limited = kt.pre("actuator_ctrllimited", u)
  ctrl = kt.pre("ctrl_in", w, u)
  rid = w % kt.cell("actuator_ctrlrange").shape[0]
  lo, hi = kt.pre("actuator_ctrlrange", rid, u, k=0), kt.pre("actuator_ctrlrange", rid, u, k=1)
  sess = ctx.session(kt.bg + kt1.bg + kt0.bg + [kt.cell("actuator_ctrlrange").shape[0] >= 1, lo <= hi] + comm())
  ctx.reach(sess, "twin:reachable", True)
  names = {"dsbl_clampctrl": dc, "world": w, "act": u, "ctrl": ctrl, "lo": lo, "hi": hi, "limited": limited}
  x = z3.Int("i")

  def same(a, b):
    return z3.And(posts_equal(a, b, "actuator_force_out", w, u), posts_equal(a, b, "act_dot_out", w, x))

  rp = lib.make_replay(ctx, kt, loc, "flagword", "goal", goal="checks.c32:goal_same", env={"labels": OUT, "variants": [{"dsbl_clampctrl": dc}, {"dsbl_clampctrl": z3.If(dc != 0, 1, 0)}], "randomize_floats": 2})
  ctx.prove(sess, "only-zero-or-nonzero-matters", z3.If(dc != 0, same(kt, kt1), same(kt, kt0)), names=names, replay=rp, desc="_actuator_force: result depends on the value of the CLAMPCTRL word beyond zero / non-zero")
  # flag set == unclamped; flag clear and ctrl inside the range == unclamped too
  inside = z3.And(ctrl >= lo, ctrl <= hi)
  rp2 = lib.make_replay(ctx, kt, loc, "inside", "goal", goal="checks.c32:goal_same", env={"labels": OUT, "variants": [{"dsbl_clampctrl": 0}, {"dsbl_clampctrl": 1}], "randomize_floats": 0})
  ctx.prove(sess, "clamp-is-identity-inside-range", same(kt0, kt1), z3.Or(z3.Not(core.zbool(limited)), inside), names=names, replay=rp2, desc="_actuator_force: CLAMPCTRL changes the force although ctrl is inside ctrlrange / the actuator is not ctrl-limited")
  # flag set == the same actuator without a ctrl limit
  larr = kt0.cell("actuator_ctrllimited").a0[0]
  larr2 = z3.Store(larr, u, z3.BoolVal(False))
  unl = lambda t: z3.substitute(t, (larr, larr2))
  sess_u = ctx.session(kt1.bg + [unl(core.zbool(b)) for b in kt0.bg] + comm())
  ctx.reach(sess_u, "twin:flag-set", True)
  rp4 = lib.make_replay(ctx, kt, loc, "unlimited", "goal", goal="checks.c32:goal_same", env={"labels": OUT, "variants": [{"dsbl_clampctrl": 1}, {"dsbl_clampctrl": 0, "__poke__": [["actuator_ctrllimited", [u], None, False]]}], "randomize_floats": 2})
  ctx.prove(sess_u, "flag-set-equals-unlimited-actuator", z3.And(kt1.post("actuator_force_out", w, u) == unl(kt0.post("actuator_force_out", w, u)), kt1.post("act_dot_out", w, x) == unl(kt0.post("act_dot_out", w, x))), names=names, replay=rp4, desc="_actuator_force: with CLAMPCTRL disabled ctrl is still clamped to ctrlrange")
  # flag clear, ctrl outside: equals the flag-set run fed with the clamped ctrl (substitute the ctrl array)
  cell = kt1.cell("ctrl_in")
  arr = cell.a0[0]
  clamped = z3.If(ctrl < lo, lo, z3.If(ctrl > hi, hi, ctrl))
  arr2 = z3.Store(arr, w, u, clamped)

  def sub(t):
    return z3.substitute(t, (arr, arr2))

  if arr2 is None:
    ctx.error("ctrl_in array sort not 2-d")
    return
  goal = z3.And(*[core.zbool(core.cmp("==", kt0.post("actuator_force_out", w, u), 0.0)) if False else (kt0.post("actuator_force_out", w, u) == sub(kt1.post("actuator_force_out", w, u)))])
  goal = z3.And(goal, kt0.post("act_dot_out", w, x) == sub(kt1.post("act_dot_out", w, x)))
  bg1s = [sub(core.zbool(b)) for b in kt1.bg]
  sess2 = ctx.session(kt.bg + kt0.bg + bg1s + [kt.cell("actuator_ctrlrange").shape[0] >= 1, lo <= hi] + comm())
  ctx.reach(sess2, "twin:clamping", z3.And(core.zbool(limited), z3.Not(inside)))
  rp3 = lib.make_replay(ctx, kt, loc, "clamp", "goal", goal="checks.c32:goal_same", env={"labels": OUT, "variants": [{"dsbl_clampctrl": 0}, {"dsbl_clampctrl": 1, "__poke__": [["ctrl_in", [w, u], None, clamped]]}], "randomize_floats": 0})
  ctx.prove(sess2, "flag-clear-equals-flag-set-on-clamped-ctrl", goal, core.zbool(limited), names=names, replay=rp3, desc="_actuator_force: with CLAMPCTRL enabled the result is not that of the unclamped computation on clamp(ctrl, ctrlrange)")


# -------------------------------------------------------------------------------------------------------------- GRAVITY


def unit_gravcomp(ctx):
  from mujoco_warp._src import forward, passive

  ctx.assume("thread's own accesses in bounds")
  # passive sum: specialisation gravity on/off
  for hf, ad in ((False, False), (True, True)):
    kon, koff = passive._qfrc_passive_kernel(hf, ad, True), passive._qfrc_passive_kernel(hf, ad, False)
    ctx.encode(kon, koff)
    a, b = kthread(kon), kthread(koff)
    w, dof = a.tid
    g = a.pre("qfrc_gravcomp_in", w, dof)
    act = a.pre("jnt_actgravcomp", a.pre("dof_jntid", dof))
    sess = ctx.session(a.bg + b.bg)
    ctx.reach(sess, f"twin:passive{int(hf)}{int(ad)}", True)
    loc = f"mujoco_warp._src.passive:_qfrc_passive_kernel({hf}, {ad}, False)"
    rp_off = lib.make_replay(ctx, b, loc, f"passive{int(hf)}{int(ad)}off", "goal", goal="checks.c32:goal_passive_nograv", env={"hf": hf, "ad": ad, "grav": False})
    rp_on = lib.make_replay(ctx, a, loc.replace("False)", "True)"), f"passive{int(hf)}{int(ad)}on", "goal", goal="checks.c32:goal_passive_nograv", env={"hf": hf, "ad": ad, "grav": True})

    def rp(model, rp_off=rp_off, rp_on=rp_on):
      ok, path = rp_off(model)
      if ok:
        return ok, path
      return rp_on(model)

    diff = a.post("qfrc_passive_out", w, dof) - b.post("qfrc_passive_out", w, dof)
    ctx.prove(sess, f"passive-sum/gravity-off-removes-exactly-gravcomp/{int(hf)}{int(ad)}", diff == z3.If(act == 0, g, 0), names={"world": w, "dof": dof}, replay=rp, desc="_qfrc_passive_kernel: GRAVITY disabled changes qfrc_passive by something other than the passive gravcomp term")
  k = forward._qfrc_actuator_gravcomp_limits
  ctx.encode(k)
  ge = z3.Bool("gravity_enabled")
  a = kthread(k, scalars={"gravity_enabled": ge})
  w, dof = a.tid
  cell = a.cell("qfrc_gravcomp_in")
  zero = z3.K(z3.IntSort(), z3.K(z3.IntSort(), z3.RealVal(0))) if False else None
  b = kthread(k, scalars={"gravity_enabled": True})
  arr = b.cell("qfrc_gravcomp_in").a0[0]
  arr0 = z3.Store(arr, w, dof, z3.RealVal(0))
  sess = ctx.session(a.bg + [z3.substitute(core.zbool(x), (arr, arr0)) for x in b.bg])
  ctx.reach(sess, "twin:actuator-gravcomp", True)
  loc = "mujoco_warp._src.forward:_qfrc_actuator_gravcomp_limits"
  rp = lib.make_replay(ctx, a, loc, "actgrav", "goal", goal="checks.c32:goal_same", env={"labels": ["qfrc_actuator_out"], "variants": [{"gravity_enabled": False}, {"gravity_enabled": True, "__poke__": [["qfrc_gravcomp_in", [w, dof], None, 0.0]]}]})
  ctx.prove(sess, "actuator-gravcomp/gravity-off-equals-zero-gravcomp", a.post("qfrc_actuator_out", w, dof) == z3.substitute(b.post("qfrc_actuator_out", w, dof), (arr, arr0)), z3.Not(ge), names={"world": w, "dof": dof}, replay=rp, desc="_qfrc_actuator_gravcomp_limits: GRAVITY disabled is not the same as a zero gravity-compensation force")


def goal_passive_nograv(spec, pre, post):
  import numpy as np

  w, dof = spec["tid"][0], spec["tid"][1]
  e = spec["env"]
  exp = float(pre["qfrc_spring_in"][w, dof]) + float(pre["qfrc_damper_in"][w, dof])
  if e["hf"]:
    exp += float(pre["qfrc_fluid_in"][w, dof])
  if e["ad"]:
    exp += float(pre["qfrc_adhesion_in"][w, dof])
  if e.get("grav") and not int(pre["jnt_actgravcomp"][int(pre["dof_jntid"][dof])]):
    exp += float(pre["qfrc_gravcomp_in"][w, dof])
  got = float(post["qfrc_passive_out"][w, dof])
  return lib.approx(got, exp, 1e-5, 1e-5), f"gravity {'on' if e.get('grav') else 'off'}: qfrc_passive = {got}, expected spring+damper(+gravcomp if not actuator-applied)(+fluid+adhesion) = {exp}"


# ----------------------------------------------------------------------------------------------------- derivative DAMPER


def unit_qderiv_damper(ctx):
  from mujoco_warp._src import derivative, types, util_misc

  k = derivative._qderiv_actuator_passive
  ctx.encode(k)
  D = int(types.DisableBit.DAMPER)
  f1, f2 = z3.Int("flags1"), z3.Int("flags2")
  a = kthread(k, scalars={"opt_disableflags": f1}, interp_kw={"float_uf": True})
  b = kthread(k, scalars={"opt_disableflags": f2}, interp_kw={"float_uf": True})
  w, el = a.tid
  x = z3.Int("adr")
  sess = ctx.session(a.bg + b.bg + [f1 >= 0, f2 >= 0] + comm())
  ctx.reach(sess, "twin:reachable", True)
  loc = "mujoco_warp._src.derivative:_qderiv_actuator_passive"
  rp = lib.make_replay(ctx, a, loc, "onlydamper", "goal", goal="checks.c32:goal_same", env={"labels": ["qDeriv_out"], "variants": [{"opt_disableflags": f1}, {"opt_disableflags": f2}], "randomize_floats": 2})
  ctx.prove(sess, "qDeriv-depends-only-on-DAMPER-bit", posts_equal(a, b, "qDeriv_out", w, x), bit(f1, D) == bit(f2, D), names={"flags1": f1, "flags2": f2}, replay=rp, desc="_qderiv_actuator_passive: qDeriv changes when a flag other than DAMPER is toggled")
  # DAMPER disabled == zero damping coefficients
  c = kthread(k, scalars={"opt_disableflags": 0}, interp_kw={"float_uf": True})
  di = c.pre("Mi", el)
  did = w % c.cell("dof_damping").shape[0]
  pid = w % c.cell("dof_dampingpoly").shape[0]
  subs = []
  dm = c.cell("dof_damping").a0[0]
  subs.append((dm, z3.Store(dm, did, di, z3.RealVal(0))))
  for kk in range(2):
    pa = c.cell("dof_dampingpoly").a0[kk]
    subs.append((pa, z3.Store(pa, pid, di, z3.RealVal(0))))
  S = lambda t: z3.substitute(t, *subs)
  # _poly_force_deriv(0, (0,0), v) must be 0: holds for exact arithmetic (0 * anything); with uninterpreted products state it as an axiom
  fm = z3.Function("fmul", z3.RealSort(), z3.RealSort(), z3.RealSort())
  fx = z3.Real("fx")
  zero_ax = [z3.ForAll([fx], fm(0, fx) == 0), z3.ForAll([fx], fm(fx, 0) == 0)]
  sess2 = ctx.session(a.bg + [S(core.zbool(t)) for t in c.bg] + [f1 >= 0, c.cell("dof_damping").shape[0] >= 1, c.cell("dof_dampingpoly").shape[0] >= 1, c.inshape("dof_damping", did, di), c.inshape("dof_dampingpoly", pid, di)] + zero_ax + comm())
  ctx.reach(sess2, "twin:damper-disabled", bit(f1, D))
  rp2 = lib.make_replay(ctx, a, loc, "damperoff", "goal", goal="checks.c32:goal_same", env={"labels": ["qDeriv_out"], "variants": [{"opt_disableflags": f1}, {"opt_disableflags": 0, "__poke__": [["dof_damping", [did, di], None, 0.0], ["dof_dampingpoly", [pid, di], 0, 0.0], ["dof_dampingpoly", [pid, di], 1, 0.0]]}], "randomize_floats": 0})
  ctx.prove(sess2, "DAMPER-disabled-equals-zero-damping", a.post("qDeriv_out", w, x) == S(c.post("qDeriv_out", w, x)), bit(f1, D), names={"flags1": f1, "world": w, "elem": el}, replay=rp2, desc="_qderiv_actuator_passive: DAMPER disabled is not the same as zero damping coefficients")


def main(tier, seed, only=None):
  from checks import hostflags_c32

  units = [
    ("kernel/efc_row", unit_efc_row),
    ("kernel/spring_damper_dof", unit_spring_damper_dof),
    ("kernel/spring_damper_tendon", unit_spring_damper_tendon),
    ("kernel/actuator_force", unit_actuator_force),
    ("kernel/gravcomp", unit_gravcomp),
    ("kernel/qderiv_damper", unit_qderiv_damper),
  ]
  units += hostflags_c32.units(tier)
  if only:
    units = [u for u in units if any(o in u[0] for o in only)]
  return report.run_check(PID, units, tier, seed)
