"""C20 Contacts are geometrically valid (closed-form primitives + contact frame).

Nonlinear real-arithmetic solver queries over the REAL functions (see checks/geom_c20.py for the proof scripts and the
closed-form references):
  make_frame / orthogonals   for every non-zero normal: orthonormal, right-handed frame whose first axis is the normalised input
  plane_sphere               dist = signed distance sphere surface - plane, pos midway, foot point on the plane
  sphere_sphere              unit normal from centre 1 to centre 2 ((1,0,0) if coincident), dist = |c2-c1| - r1 - r2, pos midway
  closest_segment_point      result on the segment, closest point up to the code's 1e-6 regulariser
  sphere_capsule             = sphere vs sphere of the capsule radius at that segment point (normal, dist, pos as above)
  plane_capsule              frame (plane normal, projected capsule axis or orthogonalised default axis, cross product)
                             orthonormal in all three regimes; both end-cap contacts
  capsule_capsule            non-parallel: contact at the closest points of the two axis segments (KKT of the clamped convex
                             quadratic); parallel: each contact = (segment end, closest point of the other segment)
  plane_box                  8 corner candidates: signed distance, midway pos, plane normal
  sphere_cylinder            side wall / caps / rims, both signs of the axial coordinate, centre inside or outside
  sphere_box                 outside: nearest box point (per-coordinate projection); inside: nearest face
  plane_ellipsoid            support point on the surface with surface normal opposite to the plane normal
  plane_cylinder             four rim contacts (lowest point, far cap, two side points), incl. axis parallel to the normal
Outside: box_box, capsule_box, the *_triangle functions, GJK/EPA, mesh, heightfield and SDF pairs; float32 rounding.
"""

from checks import geom_c20
from wsym import report

PID = "C20"


def main(tier, seed, only=None):
  units = geom_c20.units()
  if only:
    units = [u for u in units if any(o in u[0] for o in only)]
  return report.run_check(PID, units, tier, seed)
