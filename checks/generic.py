"""Enumeration of kernels (static + harvested from the real host code) and mapping of kernel-argument labels to the
field specifications of mujoco_warp/_src/types.py (named dimensions, '*' = per-world batched Model field)."""

import dataclasses
import importlib
import inspect
import itertools

import warp as wp

from wsym import core, harvest, kh

MODULES = "forward smooth passive constraint island sleep history support sensor solver derivative inverse set_const collision_driver collision_core collision_primitive collision_convex io ray util_misc".split()


def _shape_of(spec):
  shp = getattr(spec, "shape", None)
  if shp is None:
    return None
  return tuple(shp)


_spec_cache = {}


def spec_tables():
  """-> dict label-stem -> (owner, dims tuple) for Model / Option / Data / Constraint / Contact / SolverContext fields."""
  if _spec_cache:
    return _spec_cache
  from mujoco_warp._src import types

  tabs = {}

  def add(cls, prefix, owner):
    for f in dataclasses.fields(cls):
      shp = _shape_of(f.type)
      if shp is None:
        continue
      tabs[prefix + f.name] = (owner, shp)

  add(types.Model, "", "Model")
  add(types.Option, "opt_", "Option")
  add(types.Statistic, "stat_", "Statistic")
  add(types.Data, "", "Data")
  add(types.Constraint, "efc_", "Constraint")
  add(types.Contact, "contact_", "Contact")
  for name in ("SolverContext", "InverseContext"):
    cls = getattr(types, name, None)
    if cls is not None:
      add(cls, "ctx_", name)
  _spec_cache.update(tabs)
  return tabs


def stem(label):
  for suf in ("_in", "_out"):
    if label.endswith(suf):
      return label[: -len(suf)]
  return label


def arg_spec(label):
  """-> (owner, dims) or None"""
  tabs = spec_tables()
  s = stem(label)
  if s in tabs:
    return tabs[s]
  return None


def _param_choices(builder):
  """all argument tuples for a @cache_kernel builder whose parameters are bool / ConeType; None if it needs others."""
  from mujoco_warp._src import types

  f = getattr(builder, "__wrapped__", builder)
  sig = inspect.signature(f)
  choices = []
  for p in sig.parameters.values():
    ann = p.annotation
    if ann is bool or ann == "bool":
      choices.append([False, True])
    elif ann is types.ConeType:
      choices.append([types.ConeType.PYRAMIDAL, types.ConeType.ELLIPTIC])
    else:
      return None
  return list(itertools.product(*choices))


def static_kernels():
  """module-level kernels and bool/ConeType-specialised builder kernels.  -> list of (name, kernel, locator)"""
  out = []
  for mn in MODULES:
    try:
      mod = importlib.import_module(f"mujoco_warp._src.{mn}")
    except Exception:
      continue
    for name, obj in vars(mod).items():
      if isinstance(obj, core.WpKernel) and obj.func.__module__ == mod.__name__:
        out.append((f"{mn}.{name}", obj, f"mujoco_warp._src.{mn}:{name}"))
      elif callable(obj) and hasattr(obj, "__wrapped__") and getattr(obj, "__module__", None) == mod.__name__ and not isinstance(obj, (core.WpFunction, type)):
        ch = _param_choices(obj)
        if not ch:
          continue
        for args in ch:
          try:
            k = obj(*args)
          except Exception:
            continue
          if isinstance(k, core.WpKernel):
            tag = ",".join(str(int(a)) for a in args)
            out.append((f"{mn}.{name}({tag})", k, f"mujoco_warp._src.{mn}:{name}({', '.join(repr(int(a)) if not isinstance(a, bool) else repr(a) for a in args)})"))
  return out


def all_kernels(with_harvest=True, log=None, mixed=False):
  """-> dict name -> (kernel, locator or None, launches)"""
  ks = {}
  seen = set()
  for name, k, loc in static_kernels():
    if id(k) in seen:
      continue
    seen.add(id(k))
    ks[name] = (k, loc, [])
  if with_harvest:
    h = harvest.harvest(log=log, mixed=mixed)
    byid = {id(v[0]): n for n, v in ks.items()}
    for key, Ls in h.items():
      k = Ls[0].kernel
      if id(k) in byid:
        ks[byid[id(k)]][2].extend(Ls)
      else:
        # distinct kernel objects may share a key (different specialisations): group by object
        groups = {}
        for L in Ls:
          groups.setdefault(id(L.kernel), []).append(L)
        for i, (kid, g) in enumerate(groups.items()):
          if kid in byid:
            ks[byid[kid]][2].extend(g)
            continue
          nm = f"harvest.{key}#{i}"
          ks[nm] = (g[0].kernel, None, g)
          byid[kid] = nm
  return ks


_temp_cache = {}


def temp_per_world():
  """Host temporaries handed to kernels: (module, kernel-or-builder name, parameter label) whose array is allocated in the
  launching host function with a first dimension that mentions `nworld` (wp.zeros((d.nworld, ...)), wp.empty(...), wp.full(...),
  wp.zeros_like / empty_like / clone of a per-world Data field).  Read from the current /repo sources (AST), so that the world
  indexing of such scratch buffers is part of C09 although they are not fields of Data."""
  if _temp_cache:
    return _temp_cache["v"]
  import ast
  import importlib
  import inspect

  out = set()
  tabs = spec_tables()
  for mn in MODULES:
    try:
      mod = importlib.import_module(f"mujoco_warp._src.{mn}")
      tree = ast.parse(inspect.getsource(mod))
    except Exception:
      continue
    for fn in [n for n in ast.walk(tree) if isinstance(n, ast.FunctionDef)]:
      alloc = {}
      for node in ast.walk(fn):
        if isinstance(node, ast.Assign) and len(node.targets) == 1 and isinstance(node.targets[0], ast.Name) and isinstance(node.value, ast.Call):
          f = node.value.func
          fname = f.attr if isinstance(f, ast.Attribute) else (f.id if isinstance(f, ast.Name) else "")
          if fname in ("zeros", "empty", "full", "ones") and node.value.args:
            shp = node.value.args[0]
            first = shp.elts[0] if isinstance(shp, ast.Tuple) and shp.elts else shp
            alloc[node.targets[0].id] = ast.unparse(first).strip() in ("d.nworld", "nworld", "data.nworld")
          elif fname in ("zeros_like", "empty_like", "clone") and node.value.args:
            src = ast.unparse(node.value.args[0])
            stem_ = src.split(".")[-1]
            sp = tabs.get(stem_) or tabs.get("efc_" + stem_) or tabs.get("contact_" + stem_)
            alloc[node.targets[0].id] = bool(src.startswith("d.") and sp and sp[1] and sp[1][0] == "nworld")
      for node in ast.walk(fn):
        if not (isinstance(node, ast.Call) and isinstance(node.func, ast.Attribute) and node.func.attr == "launch"):
          continue
        kexpr = node.args[0] if node.args else next((k.value for k in node.keywords if k.arg == "kernel"), None)
        if kexpr is None:
          continue
        kname = kexpr.id if isinstance(kexpr, ast.Name) else (kexpr.func.id if isinstance(kexpr, ast.Call) and isinstance(kexpr.func, ast.Name) else (kexpr.attr if isinstance(kexpr, ast.Attribute) else None))
        if kname is None:
          continue
        args = []
        for kw in ("inputs", "outputs"):
          v = next((k.value for k in node.keywords if k.arg == kw), None)
          if isinstance(v, (ast.List, ast.Tuple)):
            args += list(v.elts)
          elif v is not None:
            args = None
            break
        if args is None:
          continue
        for pos, a in enumerate(args):
          if isinstance(a, ast.Name) and alloc.get(a.id):
            out.add((mn, kname, pos))
  _temp_cache["v"] = out
  return out
