"""C28 Constraint islands are the connected components (H mode).

The REAL island pipeline `island.island(m, d)` (tree_edges, flood_fill) followed by `island.compute_island_mapping(m, d)`
is run natively on a tiny model (ntree = 3, nv = 4, njmax = 4; thorough: ntree = 4, nv = 5, njmax = 5) with
  * the constraint rows symbolic: nefc, efc.type, efc.id, efc.J (dense) or J_rownnz/J_rowadr/J_colind (sparse), contact.geom
  * the body/dof/geom/site -> tree maps and the equality tables of the Model symbolic
so the constraint graph over trees is symbolic (cross edges, self edges, static bodies = tree -1, generic rows touching up
to nv trees).  Every kernel launch is interpreted thread by thread (serial thread order; all thread orders = C11).

Reference model (written from MuJoCo's mj_island semantics, validated numerically against mujoco.mj_forward):
  row k touches tree t   (connect/weld: trees of the two bodies; dof friction / joint limit: tree of the dof; geom contact:
                          trees of the two geoms' bodies; any other row: trees of the dofs with a non-zero Jacobian entry)
  adjacency = two trees touched by the same active row; components by explicit transitive closure; island label of a touched
  tree = number of component-minimal touched trees below its component's smallest tree; untouched trees -1.
Queries: labels, nisland, dof_island, efc.island, per-island counts and prefix-sum addresses, maps mutually inverse and inside
their island's address range, equality/friction/other ordering of island rows, island_dofadr, every array index of every
interpreted thread in range (incl. the DFS stack), every loop finishes within the unroll bound (PROVED, not assumed).
"""

import json
import os
import sys

import numpy as np
import warp as wp
import z3

from wsym import core, host, kh, report
from wsym.core import And, Implies, Not, Or, arith, cmp, is_sym, ite, vmin

PID = "C28"

EQUALITY, FRICTION_DOF, FRICTION_TENDON, LIMIT_JOINT, LIMIT_TENDON, CONTACT_FRICTIONLESS, CONTACT_PYRAMIDAL, CONTACT_ELLIPTIC = range(8)
EQ_CONNECT, EQ_WELD = 0, 1
OBJ_BODY, OBJ_SITE = 1, 6


def engine_workaround():
  """wsym.core drops the OUTER loop's continue/break guards inside a nested loop (Interp.active only looks at the innermost
  loop and for_/while_ start from self.guard).  _flood_fill has `continue` followed by an inner `while`, so the DFS would
  also run on the continue path.  Local fix (engine files are not mine to edit): fold the active guard into self.guard
  before entering a loop.  Idempotent."""
  I = core.Interp
  if getattr(I, "_c28_loop_guard_fix", False):
    return
  for name in ("for_", "while_"):
    orig = getattr(I, name)

    def wrapped(self, fr, s, _orig=orig):
      outer = self.guard
      self.guard = self.active(fr)
      try:
        return _orig(self, fr, s)
      finally:
        self.guard = outer

    setattr(I, name, wrapped)
  I._c28_loop_guard_fix = True


def xml(jac, ntree):
  extra = '<body name="d" pos="3 0 1"><joint name="d0" type="slide"/><geom name="gd" size=".1"/><site name="sd"/></body>' if ntree >= 4 else ""
  return f"""<mujoco>
 <option jacobian="{jac}"><flag sleep="enable"/></option>
 <worldbody>
  <geom name="floor" type="plane" size="5 5 .1"/>
  <site name="s0"/>
  <body name="a" pos="0 0 1"><joint name="a0" type="slide"/><geom name="ga" size=".1"/><site name="sa"/>
     <body name="a2" pos=".3 0 0"><joint name="a1" type="hinge"/><geom name="ga2" size=".1"/></body></body>
  <body name="b" pos="1 0 1"><joint name="b0" type="slide"/><geom name="gb" size=".1"/><site name="sb"/></body>
  <body name="c" pos="2 0 1"><joint name="c0" type="slide"/><geom name="gc" size=".1"/><site name="sc"/></body>
  {extra}
 </worldbody>
 <equality><connect body1="a" body2="b" anchor="0 0 0"/><weld site1="sa" site2="sc"/><joint joint1="b0" joint2="c0"/></equality>
</mujoco>"""


NNZ = 6  # sparse Jacobian buffer of the tiny model (rows may lie anywhere inside it)


def build(jac, ntree, njmax):
  import mujoco

  import mujoco_warp as mjw

  mjm = mujoco.MjModel.from_xml_string(xml(jac, ntree))
  m = mjw.put_model(mjm)
  d = mjw.make_data(mjm, nworld=1, nconmax=2, njmax=njmax, njmax_nnz=NNZ if jac == "sparse" else None)
  return mjm, m, d


MODEL_SYM = ["body_treeid", "jnt_dofadr", "dof_treeid", "geom_bodyid", "site_bodyid", "eq_type", "eq_obj1id", "eq_obj2id", "eq_objtype"]
DATA_IN = ["nefc", "contact.geom", "efc.type", "efc.id", "efc.J", "efc.J_rownnz", "efc.J_rowadr", "efc.J_colind"]
DATA_OUT = [
  "tree_island", "nisland", "dof_island", "island_idofadr", "island_dofadr", "island_nv", "island_nefc", "island_ne", "island_nf",
  "island_iefcadr", "nidof", "map_dof2idof", "map_idof2dof", "dof_islandid", "efc.island", "map_efc2iefc", "map_iefc2efc", "efc_islandid",
]


# ------------------------------------------------------------------------------------------------ polymorphic helpers


def sel(lst, i):
  """lst[i] for a python or z3 index (out-of-range -> last / 0: callers mask such reads)"""
  i = core.norm_scalar(i)
  if not is_sym(i):
    i = int(i)
    return lst[i] if 0 <= i < len(lst) else (lst[-1] if lst else 0)
  r = lst[-1]
  for k in range(len(lst) - 2, -1, -1):
    r = ite(cmp("==", i, k), lst[k], r)
  return r


def count(conds):
  s = 0
  for c in conds:
    s = arith("+", s, ite(c, 1, 0))
  return s


def inrange(x, lo, hi):
  return And(cmp(">=", x, lo), cmp("<", x, hi))


class View:
  """inputs and outputs of the pipeline as nested python lists of python numbers or z3 terms (world 0)"""


def nest(flat, shape):
  if len(shape) == 1:
    return list(flat[: shape[0]])
  n = 1
  for s in shape[1:]:
    n *= s
  return [nest(flat[i * n : (i + 1) * n], shape[1:]) for i in range(shape[0])]


# ------------------------------------------------------------------------------------------------ reference model


def row_touches(S, k, t):
  """row k (taken as active) touches tree t"""
  ty, eid = S.efc_type[k], S.efc_id[k]
  is_eq = cmp("==", ty, EQUALITY)
  eqt = sel(S.eq_type, eid)
  eq_pair = And(is_eq, Or(cmp("==", eqt, EQ_CONNECT), cmp("==", eqt, EQ_WELD)))
  o1, o2 = sel(S.eq_obj1id, eid), sel(S.eq_obj2id, eid)
  by_site = cmp("==", sel(S.eq_objtype, eid), OBJ_SITE)
  b1 = ite(by_site, sel(S.site_bodyid, o1), o1)
  b2 = ite(by_site, sel(S.site_bodyid, o2), o2)
  eq_hit = Or(cmp("==", sel(S.body_treeid, b1), t), cmp("==", sel(S.body_treeid, b2), t))
  is_fd = cmp("==", ty, FRICTION_DOF)
  fd_hit = cmp("==", sel(S.dof_treeid, eid), t)
  is_lj = cmp("==", ty, LIMIT_JOINT)
  lj_hit = cmp("==", sel(S.dof_treeid, sel(S.jnt_dofadr, eid)), t)
  is_con = Or(cmp("==", ty, CONTACT_FRICTIONLESS), cmp("==", ty, CONTACT_PYRAMIDAL), cmp("==", ty, CONTACT_ELLIPTIC))
  g = sel(S.contact_geom, eid)
  g1, g2 = g[0], g[1]
  geom_pair = And(is_con, cmp(">=", g1, 0), cmp(">=", g2, 0))
  con_hit = Or(cmp("==", sel(S.body_treeid, sel(S.geom_bodyid, g1)), t), cmp("==", sel(S.body_treeid, sel(S.geom_bodyid, g2)), t))
  generic = Not(Or(eq_pair, is_fd, is_lj, geom_pair))
  if S.is_sparse:
    hits = []
    for i in range(S.nv):
      col = sel(S.J_colind, arith("+", S.J_rowadr[k], i))
      hits.append(And(cmp("<", i, S.J_rownnz[k]), cmp("==", sel(S.dof_treeid, col), t)))
    gen_hit = Or(*hits)
  else:
    gen_hit = Or(*[And(cmp("!=", S.J[k][j], 0.0), cmp("==", S.dof_treeid[j], t)) for j in range(S.nv)])
  return Or(And(eq_pair, eq_hit), And(is_fd, fd_hit), And(is_lj, lj_hit), And(geom_pair, con_hit), And(generic, gen_hit))


def components(n, touched, adj):
  """labels of the connected components of the graph (adj symmetric) restricted to touched nodes, numbered by smallest node"""
  R = [[(True if a == b else adj[a][b]) for b in range(n)] for a in range(n)]
  steps = 0
  while (1 << steps) < max(n - 1, 1):
    steps += 1
  for _ in range(steps):
    R = [[Or(*[And(R[a][c], R[c][b]) for c in range(n)]) for b in range(n)] for a in range(n)]
  root = [And(touched[r], *[Not(R[r][c]) for c in range(r)]) for r in range(n)]
  label = []
  for a in range(n):
    below = count([And(root[r], *[Not(R[a][c]) for c in range(r + 1)]) for r in range(a)])
    label.append(ite(touched[a], below, -1))
  return label, count(root), root


def reference_from_touch(n, nrow, touch):
  touched = [Or(*[touch[k][t] for k in range(nrow)]) for t in range(n)]
  adj = [[Or(*[And(touch[k][a], touch[k][b]) for k in range(nrow)]) for b in range(n)] for a in range(n)]
  label, nisland, root = components(n, touched, adj)
  return dict(touch=touch, touched=touched, adj=adj, label=label, nisland=nisland, root=root)


def reference(S):
  """-> dict with the expected island structure"""
  n, nrow = S.ntree, S.njmax
  nact = vmin(S.nefc, S.njmax)
  act = [cmp("<", k, nact) for k in range(nrow)]
  touch = [[And(act[k], row_touches(S, k, t)) for t in range(n)] for k in range(nrow)]
  ref = reference_from_touch(n, nrow, touch)
  ref["act"] = act
  return ref


def matrix_components(n, c):
  """components of the graph given by a tree_tree matrix (flat row-major list, non-zero = edge)"""
  E = [[cmp("!=", c[a * n + b], 0) for b in range(n)] for a in range(n)]
  touched = [Or(*E[a]) for a in range(n)]
  label, nisland, root = components(n, touched, E)
  return E, touched, label, nisland


def preconditions(S):
  """documented model / data invariants the pipeline relies on -> list of (text, formula)"""
  P = []
  P.append(("0 <= nefc <= njmax + 1 (nefc may exceed njmax after an overflow)", And(cmp(">=", S.nefc, 0), cmp("<=", S.nefc, S.njmax + 1))))
  P.append(("body_treeid in [-1, ntree), world body static", And(cmp("==", S.body_treeid[0], -1), *[inrange(x, -1, S.ntree) for x in S.body_treeid])))
  P.append(("dof_treeid in [0, ntree)", And(*[inrange(x, 0, S.ntree) for x in S.dof_treeid])))
  P.append(("jnt_dofadr in [0, nv), geom_bodyid / site_bodyid in [0, nbody)", And(*[inrange(x, 0, S.nv) for x in S.jnt_dofadr], *[inrange(x, 0, S.nbody) for x in S.geom_bodyid + S.site_bodyid])))
  eqs = []
  for e in range(S.neq):
    pair = Or(cmp("==", S.eq_type[e], EQ_CONNECT), cmp("==", S.eq_type[e], EQ_WELD))
    body = And(cmp("==", S.eq_objtype[e], OBJ_BODY), inrange(S.eq_obj1id[e], 0, S.nbody), inrange(S.eq_obj2id[e], 0, S.nbody))
    site = And(cmp("==", S.eq_objtype[e], OBJ_SITE), inrange(S.eq_obj1id[e], 0, S.nsite), inrange(S.eq_obj2id[e], 0, S.nsite))
    eqs.append(Implies(pair, Or(body, site)))
  P.append(("connect/weld equalities name two bodies or two sites", And(*eqs)))
  nact = vmin(S.nefc, S.njmax)
  rows = []
  for k in range(S.njmax):
    ty, eid = S.efc_type[k], S.efc_id[k]
    is_con = Or(cmp("==", ty, CONTACT_FRICTIONLESS), cmp("==", ty, CONTACT_PYRAMIDAL), cmp("==", ty, CONTACT_ELLIPTIC))
    g = sel(S.contact_geom, eid)
    ok = And(
      Implies(cmp("==", ty, EQUALITY), inrange(eid, 0, S.neq)),
      Implies(cmp("==", ty, FRICTION_DOF), inrange(eid, 0, S.nv)),
      Implies(cmp("==", ty, LIMIT_JOINT), inrange(eid, 0, S.njnt)),
      Implies(is_con, And(inrange(eid, 0, S.naconmax), cmp("<", g[0], S.ngeom), cmp("<", g[1], S.ngeom))),
    )
    if S.is_sparse:
      ok = And(ok, inrange(S.J_rownnz[k], 0, S.nv + 1), cmp(">=", S.J_rowadr[k], 0), cmp("<=", arith("+", S.J_rowadr[k], S.J_rownnz[k]), S.njmax_nnz))
    rows.append(Implies(cmp("<", k, nact), ok))
  P.append(("active rows: efc.id indexes the table of its type; contact geoms < ngeom (negative = flex); sparse rows lie inside the J buffer with <= nv entries", And(*rows)))
  if S.is_sparse:
    P.append(("J_colind in [0, nv)", And(*[inrange(x, 0, S.nv) for x in S.J_colind])))
  return P


def iff(a, b):
  if is_sym(a) or is_sym(b):
    return core.zbool(a) == core.zbool(b)
  return bool(a) == bool(b)


def closure(n, E):
  R = [[(True if a == b else E[a][b]) for b in range(n)] for a in range(n)]
  steps = 0
  while (1 << steps) < max(n - 1, 1):
    steps += 1
  for _ in range(steps):
    R = [[Or(*[And(R[a][c], R[c][b]) for c in range(n)]) for b in range(n)] for a in range(n)]
  return R


def row_lemma(n, z, P, tk):
  """one thread of _tree_edges (row k): matrix z before, P after, tk[t] = row k is active and touches tree t"""
  EP = [[cmp("!=", P[a * n + b], 0) for b in range(n)] for a in range(n)]
  R = closure(n, EP)
  Q = {}
  for a in range(n):
    Q[f"touched-row-nonzero/tree{a}"] = (Implies(tk[a], Or(*EP[a])), f"the row touches tree {a} but tree_tree row {a} stays zero")
    for b in range(n):
      x, y = P[a * n + b], z[a * n + b]
      Q[f"monotone-01/{a}-{b}"] = (And(Or(cmp("==", x, 0), cmp("==", x, 1)), cmp(">=", x, y)), f"tree_tree[{a},{b}] leaves 0/1 or an existing edge is erased")
      Q[f"new-edge-only-between-touched/{a}-{b}"] = (Implies(cmp("!=", x, y), And(tk[a], tk[b])), f"tree_tree[{a},{b}] is set although the row does not touch both trees")
      if a < b:
        Q[f"symmetric/{a}-{b}"] = (cmp("==", x, P[b * n + a]), f"tree_tree[{a},{b}] != tree_tree[{b},{a}] after the thread")
        Q[f"touched-connected/{a}-{b}"] = (Implies(And(tk[a], tk[b]), R[a][b]), f"the row touches trees {a} and {b} but they are not connected in the tree_tree graph")
  return Q


def matrix_post(n, ref, c):
  """what tree_edges guarantees about the final matrix c (composition of the row lemmas)"""
  E = [[cmp("!=", c[a * n + b], 0) for b in range(n)] for a in range(n)]
  R = closure(n, E)
  Q = {}
  for a in range(n):
    Q[f"edges/touched/tree{a}"] = (iff(Or(*E[a]), ref["touched"][a]), f"tree_tree row {a} is non-zero iff some active constraint row touches tree {a}")
    for b in range(n):
      Q[f"edges/01/{a}-{b}"] = (Or(cmp("==", c[a * n + b], 0), cmp("==", c[a * n + b], 1)), f"tree_tree[{a},{b}] is not 0/1")
      if a != b:
        Q[f"edges/only-shared-row/{a}-{b}"] = (Implies(E[a][b], ref["adj"][a][b]), f"tree_tree[{a},{b}] != 0 although no active row touches both trees")
      if a < b:
        Q[f"edges/symmetric/{a}-{b}"] = (cmp("==", c[a * n + b], c[b * n + a]), f"tree_tree[{a},{b}] != tree_tree[{b},{a}]")
        Q[f"edges/row-connected/{a}-{b}"] = (Implies(ref["adj"][a][b], R[a][b]), f"an active row touches trees {a} and {b} but they are not connected in the tree_tree graph")
  return Q


def sym01(n, c):
  return And(*[Or(cmp("==", x, 0), cmp("==", x, 1)) for x in c], *[cmp("==", c[a * n + b], c[b * n + a]) for a in range(n) for b in range(a)])


def fill_pre(n, c):
  return sym01(n, c)


def spec_fill(n, c, L, nis):
  """stage B (flood_fill): labels L / count nis are the components of the matrix graph c"""
  E, touched, label, nisland = matrix_components(n, c)
  Q = {}
  for a in range(n):
    Q[f"fill/label/tree{a}"] = (cmp("==", L[a], label[a]), True, f"tree_island[{a}] is not the connected-component number of the tree_tree graph (numbered by smallest tree, isolated trees -1)")
  Q["fill/nisland"] = (cmp("==", nis, nisland), True, "nisland is not the number of components of the tree_tree graph")
  return Q


def spec_glue(n, ref, c):
  """pure lemma: a matrix satisfying tree_edges' postcondition has exactly the reference components"""
  E, touched, label, nisland = matrix_components(n, c)
  Q = {}
  for a in range(n):
    Q[f"glue/label/tree{a}"] = (cmp("==", label[a], ref["label"][a]), "lemma: components of tree_tree = components of the constraint graph")
  Q["glue/nisland"] = (cmp("==", nisland, ref["nisland"]), "lemma: number of components")
  return Q


def map_lemmas(S, ref, l, nis):
  """consequences of l = reference labels used as explicit background in stage C (each proved as glue/...)"""
  n = S.ntree
  out = {"glue/labels-in-range": And(cmp(">=", nis, 0), cmp("<=", nis, n), *[inrange(x, -1, nis) for x in l])}
  for k in range(S.njmax):
    out[f"glue/row{k}-one-island"] = And(*[Implies(ref["touch"][k][a], And(cmp(">=", l[a], 0), *[Implies(ref["touch"][k][b], cmp("==", l[a], l[b])) for b in range(a + 1, n)])) for a in range(n)])
  return out


def row_islands_ref(S, ref, l):
  out = []
  for k in range(S.njmax):
    v = -1
    for t in range(S.ntree - 1, -1, -1):
      v = ite(ref["touch"][k][t], l[t], v)
    out.append(v)
  return out


def type_classes(S):
  iseq = [cmp("==", S.efc_type[k], EQUALITY) for k in range(S.njmax)]
  isfr = [Or(cmp("==", S.efc_type[k], FRICTION_DOF), cmp("==", S.efc_type[k], FRICTION_TENDON)) for k in range(S.njmax)]
  return iseq, isfr


def facts_A(S, ref, t):
  """cut after _compute_efc_tree: efc_tree[k] is a tree the row touches, -1 if it touches none"""
  n = S.ntree
  return {
    f"efc_tree/row{k}": (Implies(ref["act"][k], Or(And(cmp("==", t[k], -1), Not(Or(*ref["touch"][k]))), And(inrange(t[k], 0, n), sel(ref["touch"][k], t[k])))), f"the tree recorded for row {k} is not one of the trees the row touches (-1 iff it touches none)")
    for k in range(S.njmax)
  }


def facts_B(S, ref, l, nis, t, B):
  """cut after _island_count_dofs / _island_count_constraints: per-dof / per-row islands and the per-island counts"""
  n, nv, nrow = S.ntree, S.nv, S.njmax
  act = ref["act"]
  iseq, isfr = type_classes(S)
  Q = {}
  for j in range(nv):
    Q[f"dof_island/dof{j}"] = (cmp("==", B["dof"][j], sel(l, S.dof_treeid[j])), f"dof_island[{j}] is not the island of the dof's tree")
  for k in range(nrow):
    Q[f"efc_island/row{k}"] = (Implies(act[k], cmp("==", B["e"][k], ite(cmp(">=", t[k], 0), sel(l, t[k]), -1))), f"efc.island[{k}] is not the island of the trees the row touches")
  for i in range(n):
    live = cmp("<", i, nis)
    Q[f"count/island_nv/{i}"] = (Implies(live, cmp("==", B["nv"][i], count([cmp("==", B["dof"][j], i) for j in range(nv)]))), f"island_nv[{i}] is not the number of dofs of island {i}")
    Q[f"count/island_nefc/{i}"] = (Implies(live, cmp("==", B["nefc"][i], count([And(act[k], cmp("==", B["e"][k], i)) for k in range(nrow)]))), f"island_nefc[{i}] is not the number of active rows of island {i}")
    Q[f"island_ne/{i}"] = (Implies(live, cmp("==", B["ne"][i], count([And(act[k], iseq[k], cmp("==", B["e"][k], i)) for k in range(nrow)]))), f"island_ne[{i}] is not the number of equality rows of island {i}")
    Q[f"island_nf/{i}"] = (Implies(live, cmp("==", B["nf"][i], count([And(act[k], isfr[k], cmp("==", B["e"][k], i)) for k in range(nrow)]))), f"island_nf[{i}] is not the number of friction rows of island {i}")
  return Q


def glue_B(S, ref, l, nis, B):
  """pure consequences of facts_A/facts_B used by the final queries"""
  n, nv, nrow = S.ntree, S.nv, S.njmax
  act = ref["act"]
  rowref = row_islands_ref(S, ref, l)
  Q = {}
  for k in range(nrow):
    Q[f"glue/efc_island/row{k}"] = Implies(act[k], And(cmp("==", B["e"][k], rowref[k]), inrange(B["e"][k], -1, nis)))
  Q["glue/dof-islands-in-range"] = And(*[inrange(x, -1, nis) for x in B["dof"]])
  Q["glue/nidof"] = cmp("==", sumlive(B["nv"], nis), count([cmp(">=", x, 0) for x in B["dof"]]))
  Q["glue/ntot"] = cmp("==", sumlive(B["nefc"], nis), count([And(act[k], cmp(">=", B["e"][k], 0)) for k in range(nrow)]))
  return Q


def sumlive(xs, nis):
  s = 0
  for i, x in enumerate(xs):
    s = arith("+", s, ite(cmp("<", i, nis), x, 0))
  return s


def spec_map(S, ref, l, nis, B=None):
  """compute_island_mapping relative to the labels l / count nis it is given.  B = None: everything against the reference
  (used on concrete replays); B = constants of the cut after the counting kernels (their relation to the reference is
  facts_B / glue_B): the queries about the arrays that were cut are then issued by facts_B"""
  n, nv, nrow = S.ntree, S.nv, S.njmax
  act = ref["act"]
  iseq, isfr = type_classes(S)
  Q = {}
  if B is None:
    rowisl = row_islands_ref(S, ref, l)
    dofisl = [sel(l, S.dof_treeid[j]) for j in range(nv)]
    nv_exp = [count([cmp("==", dofisl[j], i) for j in range(nv)]) for i in range(n)]
    nefc_exp = [count([And(act[k], cmp("==", rowisl[k], i)) for k in range(nrow)]) for i in range(n)]
    ne_exp = [count([And(act[k], iseq[k], cmp("==", rowisl[k], i)) for k in range(nrow)]) for i in range(n)]
    nf_exp = [count([And(act[k], isfr[k], cmp("==", rowisl[k], i)) for k in range(nrow)]) for i in range(n)]
    nidof_exp = count([cmp(">=", dofisl[j], 0) for j in range(nv)])
    ntot_exp = count([And(act[k], cmp(">=", rowisl[k], 0)) for k in range(nrow)])
    for j in range(nv):
      Q[f"dof_island/dof{j}"] = (cmp("==", S.dof_island[j], dofisl[j]), True, f"dof_island[{j}] is not the island of the dof's tree")
    for k in range(nrow):
      Q[f"efc_island/row{k}"] = (cmp("==", S.efc_island[k], rowisl[k]), act[k], f"efc.island[{k}] is not the island of the trees the row touches")
    for i in range(n):
      live = cmp("<", i, nis)
      Q[f"island_ne/{i}"] = (cmp("==", S.island_ne[i], ne_exp[i]), live, f"island_ne[{i}] is not the number of equality rows of island {i}")
      Q[f"island_nf/{i}"] = (cmp("==", S.island_nf[i], nf_exp[i]), live, f"island_nf[{i}] is not the number of friction rows of island {i}")
  else:
    rowisl, dofisl, nv_exp, nefc_exp, ne_exp, nf_exp = B["e"], B["dof"], B["nv"], B["nefc"], B["ne"], B["nf"]
    nidof_exp, ntot_exp = sumlive(nv_exp, nis), sumlive(nefc_exp, nis)
  idofadr_exp, iefcadr_exp = [], []
  s1, s2 = 0, 0
  for i in range(n):
    idofadr_exp.append(s1)
    iefcadr_exp.append(s2)
    s1, s2 = arith("+", s1, nv_exp[i]), arith("+", s2, nefc_exp[i])
  for i in range(n):
    live = cmp("<", i, nis)
    Q[f"island_nv/{i}"] = (cmp("==", S.island_nv[i], nv_exp[i]), live, f"island_nv[{i}] is not the number of dofs of island {i}")
    Q[f"island_idofadr/{i}"] = (cmp("==", S.island_idofadr[i], idofadr_exp[i]), live, f"island_idofadr[{i}] is not the prefix sum of island_nv")
    Q[f"island_nefc/{i}"] = (cmp("==", S.island_nefc[i], nefc_exp[i]), live, f"island_nefc[{i}] is not the number of active rows of island {i}")
    Q[f"island_iefcadr/{i}"] = (cmp("==", S.island_iefcadr[i], iefcadr_exp[i]), live, f"island_iefcadr[{i}] is not the prefix sum of island_nefc")
    mins = nv
    for j in range(nv - 1, -1, -1):
      mins = ite(cmp("==", dofisl[j], i), j, mins)
    Q[f"island_dofadr/{i}"] = (cmp("==", S.island_dofadr[i], mins), live, f"island_dofadr[{i}] is not the first dof of island {i}")
  Q["nidof"] = (cmp("==", S.nidof, nidof_exp), True, "nidof is not the number of island dofs")
  for j in range(nv):
    q = S.map_dof2idof[j]
    isl = dofisl[j]
    lo = sel(idofadr_exp, isl)
    hi = arith("+", lo, sel(nv_exp, isl))
    rng = ite(cmp(">=", isl, 0), inrange(q, lo, hi), inrange(q, nidof_exp, nv))
    Q[f"dof2idof-range/dof{j}"] = (rng, True, f"map_dof2idof[{j}] lies outside its island's idof range (unconstrained dofs: [nidof, nv))")
    Q[f"idof2dof.dof2idof/dof{j}"] = (And(inrange(q, 0, nv), cmp("==", sel(S.map_idof2dof, q), j)), True, f"map_idof2dof[map_dof2idof[{j}]] != {j}")
  for q in range(nv):
    j = S.map_idof2dof[q]
    Q[f"dof2idof.idof2dof/idof{q}"] = (And(inrange(j, 0, nv), cmp("==", sel(S.map_dof2idof, j), q)), True, f"map_dof2idof[map_idof2dof[{q}]] != {q}")
    Q[f"dof_islandid/idof{q}"] = (cmp("==", S.dof_islandid[q], sel(dofisl, j)), cmp("<", q, nidof_exp), f"dof_islandid[{q}] is not the island of dof map_idof2dof[{q}]")
  for k in range(nrow):
    c = S.map_efc2iefc[k]
    isl = rowisl[k]
    g = And(act[k], cmp(">=", isl, 0))
    adr, ne, nf, ntot = sel(iefcadr_exp, isl), sel(ne_exp, isl), sel(nf_exp, isl), sel(nefc_exp, isl)
    a1, a2 = arith("+", adr, ne), arith("+", arith("+", adr, ne), nf)
    rng = ite(iseq[k], inrange(c, adr, a1), ite(isfr[k], inrange(c, a1, a2), inrange(c, a2, arith("+", adr, ntot))))
    Q[f"efc2iefc-range/row{k}"] = (rng, g, f"map_efc2iefc[{k}] lies outside its island's block (equality rows first, then friction, then the rest)")
    Q[f"iefc2efc.efc2iefc/row{k}"] = (And(inrange(c, 0, nrow), cmp("==", sel(S.map_iefc2efc, c), k)), g, f"map_iefc2efc[map_efc2iefc[{k}]] != {k}")
  for c in range(nrow):
    r = S.map_iefc2efc[c]
    g = cmp("<", c, ntot_exp)
    ok = And(inrange(r, 0, nrow), sel(act, r), cmp(">=", sel(rowisl, r), 0), cmp("==", sel(S.map_efc2iefc, r), c))
    Q[f"efc2iefc.iefc2efc/iefc{c}"] = (ok, g, f"map_iefc2efc[{c}] is not an active island row mapped back to {c}")
    Q[f"efc_islandid/iefc{c}"] = (cmp("==", S.efc_islandid[c], sel(rowisl, r)), g, f"efc_islandid[{c}] is not the island of row map_iefc2efc[{c}]")
  return Q


REPLAY_AS = {"efc_tree/": "efc_island/", "count/island_nv/": "island_nv/", "count/island_nefc/": "island_nefc/"}


# ------------------------------------------------------------------------------------------------ views


def view_common(S, m, d, jac):
  S.ntree, S.nv, S.nbody, S.ngeom, S.nsite, S.neq, S.njnt = int(m.ntree), int(m.nv), int(m.nbody), int(m.ngeom), int(m.nsite), int(m.neq), int(m.njnt)
  S.njmax, S.njmax_nnz, S.naconmax, S.is_sparse = int(d.njmax), int(d.njmax_nnz), int(d.naconmax), bool(m.is_sparse)


def fill_view(S, get_in, get_out):
  """get_in(name) / get_out(name) -> (flat per-component lists, shape)"""
  for n in MODEL_SYM:
    comps, shape = get_in("m." + n)
    setattr(S, n, list(comps[0]))
  comps, shape = get_in("d.nefc")
  S.nefc = comps[0][0]
  comps, shape = get_in("d.contact.geom")
  S.contact_geom = [(comps[0][i], comps[1][i]) for i in range(shape[0])]
  S.efc_type = list(get_in("d.efc.type")[0][0][: S.njmax])
  S.efc_id = list(get_in("d.efc.id")[0][0][: S.njmax])
  if S.is_sparse:
    S.J_rownnz = list(get_in("d.efc.J_rownnz")[0][0][: S.njmax])
    S.J_rowadr = list(get_in("d.efc.J_rowadr")[0][0][: S.njmax])
    S.J_colind = list(get_in("d.efc.J_colind")[0][0])
  else:
    comps, shape = get_in("d.efc.J")
    S.J = [row[: S.nv] for row in nest(comps[0], shape[1:])][: S.njmax]
  for n in DATA_OUT:
    comps, shape = get_out("d." + n)
    flat = comps[0]
    setattr(S, n.replace("efc.island", "efc_island").replace(".", "_"), flat[0] if len(shape) == 1 else list(flat))
  return S


def symbolic_run(ctx, jac, ntree, njmax):
  """the real island() and compute_island_mapping() in one native run with cut points: the tree_tree matrix is replaced by
  fresh constants before every thread of _tree_edges and before the flood fill, tree_island/nisland before the mapping.
  Every piece is then proved for ALL inputs satisfying the proved postcondition of the previous piece."""
  from mujoco_warp._src import island

  engine_workaround()
  mjm, m, d = build(jac, ntree, njmax)
  msym = {"m." + n for n in MODEL_SYM}
  m2 = host.shim_dataclass(m, "m.", symbolic=lambda n: n in msym)
  d2 = host.shim_dataclass(d, "d.")
  nv, nt = int(m.nv), int(m.ntree)
  # pops of the DFS <= pushes <= 1 + sum_k (ntree - k) (the k-th labelled tree can push at most the ntree-k unlabelled ones)
  unroll = max(1 + nt * (nt - 1) // 2, nv, nt)
  ctx.bound(nworld=1, ntree=nt, nv=nv, nbody=int(m.nbody), njmax=njmax, jacobian=jac, unroll=unroll, note="unroll = max(1 + ntree(ntree-1)/2 DFS pops, nv sparse entries per row, ntree islands); the unwinding obligations are proved")
  darrs = host.arrays_of(d2)
  cuts = {"rows": [], "nobl": {}}

  def on_launch(hr, kernel, dim, args):
    if kernel.key == "_tree_edges" and not cuts["rows"]:
      # own thread loop (same as HostRun.launch) with the matrix replaced by fresh constants before every thread
      cell = args[-1].ref.cell
      cuts["z0_def"] = list(cell.d[0])
      specs = [(a.label, a.type) for a in kernel.adj.args]
      vals = [hr.to_arg(a, t) for a, (lab, t) in zip(args, specs)]
      if tuple(dim) != (1, njmax):
        raise core.Unsupported(f"_tree_edges launched with dim {dim}")
      for k in range(njmax):
        z = [z3.Int(f"tt{k}!{i // nt}!{i % nt}") for i in range(cell.size)]
        cell.d[0] = list(z)
        it = core.Interp(unroll=hr.unroll, tid=(0, k), track_access=False)
        it.call_pyfunc(kernel.func, vals, name=kernel.key)
        hr.nthreads += 1
        hr.assumes.extend(it.assumes)
        obl = [o for o in it.obl if o.kind == "unwind" or (o.kind == "bounds" and not (o.cond is True))]
        cuts["rows"].append(dict(z=z, P=list(cell.d[0]), obl=obl))
      cuts["c"] = [z3.Int(f"tree_tree!{i // nt}!{i % nt}") for i in range(cell.size)]
      cell.d[0] = list(cuts["c"])
      return "skip"
    if kernel.key == "_flood_fill" and "c_at_fill" not in cuts:
      cuts["c_at_fill"] = list(args[1].ref.cell.d[0])
      cuts["nobl"]["fill0"] = len(hr.obl)
    if kernel.key == "_init_island_arrays" and "l" not in cuts:
      ti, ni = darrs["tree_island"].ref.cell, darrs["nisland"].ref.cell
      cuts["L"], cuts["nisL"] = list(ti.d[0]), ni.d[0][0]
      cuts["l"] = [z3.Int(f"label!{t}") for t in range(nt)]
      cuts["nis"] = z3.Int("nisland!")
      ti.d[0] = list(cuts["l"])
      ni.d[0] = [cuts["nis"]]
      cuts["nobl"]["fill1"] = len(hr.obl)
    if kernel.key == "_island_count_constraints" and "t" not in cuts:
      cell = args[2].ref.cell  # efc_tree scratch written by _compute_efc_tree
      cuts["t_def"] = list(cell.d[0])
      cuts["t"] = [z3.Int(f"efc_tree!{k}") for k in range(cell.size)]
      cell.d[0] = list(cuts["t"])
      cuts["nobl"]["A"] = len(hr.obl)
    if kernel.key == "_island_scan_sizes" and "B" not in cuts:
      cuts["B_def"], cuts["B"] = {}, {}
      for name, key in [("dof_island", "dof"), ("island_nv", "nv"), ("efc.island", "e"), ("island_nefc", "nefc"), ("island_ne", "ne"), ("island_nf", "nf")]:
        cell = darrs[name].ref.cell
        cuts["B_def"][key] = list(cell.d[0])
        cuts["B"][key] = [z3.Int(f"{key}!{i}") for i in range(cell.size)]
        cell.d[0] = list(cuts["B"][key])
      cuts["nobl"]["B"] = len(hr.obl)

  with host.HostRun(mode="exec", unroll=unroll, on_launch=on_launch) as hr:
    island.island(m2, d2)
    island.compute_island_mapping(m2, d2)
  if not cuts["rows"] or "c_at_fill" not in cuts or "l" not in cuts or "t" not in cuts or "B" not in cuts:
    raise core.Unsupported("island pipeline no longer launches _tree_edges / _flood_fill / _init_island_arrays: cut points not found")
  for e in hr.events:
    if e.kind == "launch":
      ctx.encode(e.kernel)
  ctx.encode(island.island, island.tree_edges, island.flood_fill, island.compute_island_mapping)
  marrs = host.arrays_of(m2)

  def cell_of(name):
    return (marrs[name[2:]] if name.startswith("m.") else darrs[name[2:]]).ref.cell

  S = View()
  view_common(S, m, d, jac)
  fill_view(S, lambda n: (cell_of(n).d0, cell_of(n).shape), lambda n: (cell_of(n).d, cell_of(n).shape))
  return S, hr, cell_of, cuts


# ------------------------------------------------------------------------------------------------ replay on the real code


def _inputs_from_model(model, cell_of, S):
  arrays = {}
  for name in ["m." + n for n in MODEL_SYM] + ["d." + n for n in DATA_IN + DATA_OUT]:
    c = cell_of(name)
    if c.size == 0:
      continue
    a = np.zeros((c.size, c.ncomp))
    for k in range(c.ncomp):
      a[:, k] = [float(kh.mval(model, x)) for x in c.d0[k]]
    a = np.clip(a, -1e6, 1e6)
    arrays[name] = a.reshape(tuple(c.shape) + ((c.ncomp,) if c.ncomp > 1 else ())).tolist()
  return arrays


def run_real(cfg, arrays, stage, cut=None, debug=False):
  """the real stage function on concrete inputs -> (View of python numbers, tree_tree after the stage or None)"""
  if debug:
    wp.config.mode = "debug"
    wp.config.kernel_cache_dir = os.path.join(report.VERIF, ".wpcache", "replay_debug")
  from mujoco_warp._src import island

  mjm, m, d = build(cfg["jac"], cfg["ntree"], cfg["njmax"])
  nt = int(m.ntree)

  def real(name):
    obj = m if name.startswith("m.") else d
    for part in name[2:].split("."):
      obj = getattr(obj, part)
    return obj

  arrays = json.loads(json.dumps(arrays))
  if stage == "row":
    # only row k stays: the other rows become generic rows with an empty Jacobian (they touch no tree, write nothing)
    k = cut["k"]
    ty = arrays["d.efc.type"][0]
    for j in range(cfg["njmax"]):
      if j != k:
        ty[j] = LIMIT_TENDON
        if cfg["jac"] == "sparse":
          arrays["d.efc.J_rownnz"][0][j] = 0
        else:
          arrays["d.efc.J"][0][j] = [0.0] * len(arrays["d.efc.J"][0][j])
  pre = {}
  for name, vals in arrays.items():
    r = real(name)
    r.assign(np.array(vals).astype(r.numpy().dtype).reshape(r.numpy().shape))
    pre[name] = r.numpy().copy()
  tt = None
  if stage == "row":
    tta = wp.array(np.array(cut["z"], dtype=np.int32).reshape(1, nt, nt), dtype=int)
    tta.zero_ = lambda: None  # keep the pre-filled matrix: the lemma is about one thread on an arbitrary matrix
    island.tree_edges(m, d, tta)
    tt = [int(x) for x in tta.numpy().reshape(-1)]
  elif stage == "fill":
    tta = wp.array(np.array(cut["c"], dtype=np.int32).reshape(1, nt, nt), dtype=int)
    island.flood_fill(m, d, tta)
  elif stage == "map":
    d.tree_island.assign(np.array(cut["l"], dtype=np.int32).reshape(1, nt))
    d.nisland.assign(np.array([cut["nis"]], dtype=np.int32))
    island.compute_island_mapping(m, d)
  wp.synchronize()
  S = View()
  view_common(S, m, d, cfg["jac"])

  def flat(a, name):
    a = np.asarray(a)
    r = real(name)
    ncomp = int(np.prod(a.shape[r.ndim :])) if a.ndim > r.ndim else 1
    a2 = a.reshape(-1, ncomp)
    return [[a2[i, k].item() for i in range(a2.shape[0])] for k in range(ncomp)], tuple(r.shape)

  fill_view(S, lambda n: flat(pre[n], n), lambda n: flat(real(n).numpy(), n))
  return S, tt


def conc(x):
  return bool(x) if isinstance(x, (bool, np.bool_)) else x


def run_replay(path):
  """replay in a subprocess (a mutated kernel may write out of bounds and corrupt this process) -> (reproduced, text)"""
  import subprocess

  sp = json.load(open(path))
  q, stage = sp["query"], sp["stage"]
  is_obl = "/bounds/" in "/" + q or "/unwind/" in "/" + q
  cmd = [sys.executable, "-m", "checks.c28", path] + (["--debug"] if is_obl else [])
  p = subprocess.run(cmd, cwd=report.VERIF, env=dict(os.environ), capture_output=True, text=True, timeout=900)
  out = (p.stdout + p.stderr).strip()
  if p.returncode not in (0, 3):
    return True, f"the real {stage} stage crashed / aborted on inputs satisfying the preconditions (rc={p.returncode}{', bounds-checked build' if is_obl else ''}): {out[-300:]}"
  for line in out.splitlines():
    if line.startswith("REPRODUCED: "):
      return True, line[len("REPRODUCED: ") :]
    if line.startswith("NOT-REPRODUCED: "):
      return False, line[len("NOT-REPRODUCED: ") :]
  return False, f"replay subprocess rc={p.returncode}: {out[-300:]}"


def replay_inproc(path):
  """-> (reproduced, text)"""
  sp = json.load(open(path))
  q, stage, cut = sp["query"], sp["stage"], sp.get("cut")
  S, tt = run_real(sp["config"], sp["arrays"], stage, cut)
  n = S.ntree
  if stage != "fill":
    for text, f in preconditions(S):
      if not conc(f):
        return False, f"replay input violates precondition: {text}"
  ref = reference(S)
  if stage == "row":
    k = cut["k"]
    if not conc(sym01(n, cut["z"])):
      return False, "replay matrix is not a symmetric 0/1 matrix"
    Q = row_lemma(n, cut["z"], tt, ref["touch"][k])
    goal, what = Q[q.split("/", 2)[2]]
    return (not conc(goal)), f"{what}; row {k} (type {S.efc_type[k]} id {S.efc_id[k]}) touches trees {[t for t in range(n) if ref['touch'][k][t]]}; tree_tree before {cut['z']} after the real _tree_edges {tt}"
  if stage == "fill":
    if not conc(fill_pre(n, cut["c"])):
      return False, "replay matrix is not a symmetric 0/1 matrix"
    Q = spec_fill(n, cut["c"], S.tree_island, S.nisland)
    extra = f"tree_tree = {cut['c']}; real flood_fill gives tree_island {S.tree_island} nisland {S.nisland}; components {matrix_components(n, cut['c'])[2:]}"
  else:
    if [int(x) for x in ref["label"]] != list(cut["l"]) or int(ref["nisland"]) != cut["nis"]:
      return False, f"replay labels {cut['l']} are not the reference labels {ref['label']} of the rows"
    for a, b in REPLAY_AS.items():
      if q.startswith(a):
        q = b + q[len(a) :]
    Q = spec_map(S, ref, cut["l"], cut["nis"])
    outs = {k: getattr(S, k.replace("efc.island", "efc_island").replace(".", "_")) for k in DATA_OUT}
    extra = f"labels {cut['l']} nisland {cut['nis']}; real compute_island_mapping outputs: {outs}"
  goal, guard, what = Q[q]
  if not conc(guard):
    return False, "guard of the query is false on the real outputs"
  return (not conc(goal)), f"{what}; {extra}"


def replayer(ctx, cfg, cell_of, S, cuts, qname, stage, k=None):
  def _rp(model):
    arrays = _inputs_from_model(model, cell_of, S)
    d = os.path.join(report.VERIF, "replays", PID)
    os.makedirs(d, exist_ok=True)
    path = os.path.join(d, f"{ctx.unit.replace('/', '_')}.{qname.replace('/', '_')}.json")
    iv = lambda xs: [int(kh.mval(model, x)) for x in xs]
    cut = {"c": iv(cuts["c"]), "l": iv(cuts["l"]), "nis": int(kh.mval(model, cuts["nis"]))}
    if k is not None:
      cut["k"], cut["z"] = k, iv(cuts["rows"][k]["z"])
    sp = {
      "property": PID,
      "unit": ctx.unit,
      "query": qname,
      "stage": stage,
      "config": cfg,
      "cut": cut,
      "arrays": arrays,
      "how": "cd /verif && PYTHONPATH=.deps:. python -m checks.c28 <this file>: builds the tiny model (checks.c28.xml), assigns the arrays to Model/Data, runs the real stage (row: island.tree_edges on the pre-filled matrix cut.z with only row cut.k left; fill: island.flood_fill on cut.c; map: island.compute_island_mapping on tree_island = cut.l) and evaluates the reference",
    }
    with open(path, "w") as f:
      json.dump(sp, f)
    ok, text = run_replay(path)
    sp["result"] = text
    with open(path, "w") as f:
      json.dump(sp, f)
    return ok, path

  return _rp


# ------------------------------------------------------------------------------------------------ units


def unit_islands(jac, ntree, njmax, part):
  """part: 'graph' (tree_edges per row, composition, flood_fill, glue lemmas) | 'dofs' | 'rows' (compute_island_mapping)"""

  def run(ctx):
    S, hr, cell_of, cuts = symbolic_run(ctx, jac, ntree, njmax)
    cfg = {"jac": jac, "ntree": ntree, "njmax": njmax}
    n, nrow = S.ntree, S.njmax
    pre = []
    for text, f in preconditions(S):
      ctx.assume(text)
      pre.append(core.zbool(f))
    ctx.assume("all other Data contents (outputs, scratch, uninitialised DFS stack) arbitrary", "threads of a launch run in tid order (other orders: C11)")
    side = [core.zbool(a) for a in hr.assumes]
    pre += side
    ref = reference(S)
    c, l, nis = cuts["c"], cuts["l"], cuts["nis"]
    names = {"nefc": S.nefc, "nisland_cut": nis}
    for k in range(nrow):
      names[f"type{k}"], names[f"id{k}"] = S.efc_type[k], S.efc_id[k]
    for i, x in enumerate(S.body_treeid):
      names[f"body_treeid{i}"] = x
    for i, x in enumerate(S.dof_treeid):
      names[f"dof_treeid{i}"] = x
    for i, x in enumerate(c):
      names[f"tree_tree{i // n}{i % n}"] = x
    for i, x in enumerate(l):
      names[f"label{i}"] = x

    def obligations(sess, obls, tag, stage, k=None):
      groups = {}
      for key, o in obls:
        groups.setdefault((o.kind, key), []).append(Implies(o.guard, o.strict if o.kind == "bounds" else o.cond))
      for (kind, key), obs in sorted(groups.items()):
        what = "indexes an array out of range (0 <= i < dim)" if kind == "bounds" else "needs more loop iterations than the derived bound (DFS pops / islands / row entries)"
        qn = f"{tag}{kind}/{key}"
        ctx.prove(sess, qn, And(*obs), True, names=names, replay=replayer(ctx, cfg, cell_of, S, cuts, qn, stage, k), desc=f"{jac} ntree={ntree}: a thread of {key} {what}")

    if part != "graph":
      return run_map(ctx, S, hr, ref, pre, cuts, names, cfg, cell_of, obligations)
    # ---- tree_edges, one row (thread) at a time on an arbitrary symmetric 0/1 matrix z
    sess0 = ctx.session(pre)
    ctx.reach(sess0, "twin:pre-state", True)
    ctx.reach(sess0, "twin:one-island-of-all-trees", And(cmp("==", ref["nisland"], 1), *ref["touched"]))
    ctx.reach(sess0, "twin:all-trees-separate", cmp("==", ref["nisland"], n))
    ctx.reach(sess0, "twin:untouched-tree-and-static-edge", And(Not(ref["touched"][0]), ref["touched"][1], cmp("==", ref["nisland"], 1)))
    ctx.reach(sess0, "twin:chain-through-highest-tree", And(cmp("==", ref["nisland"], 1), *ref["touched"], Not(ref["adj"][0][1])))
    ctx.reach(sess0, "twin:generic-row-touching-three-trees", And(*ref["touch"][0][:3]))
    ctx.prove(sess0, "edges/matrix-zeroed", And(*[cmp("==", x, 0) for x in cuts["z0_def"]]), True, desc="tree_tree is not all zero when _tree_edges is launched")
    ctx.prove(sess0, "edges/matrix-handed-to-flood-fill", And(*[cmp("==", x, y) for x, y in zip(cuts["c_at_fill"], c)]), True, desc="the matrix read by _flood_fill is not the one written by _tree_edges")
    for k in range(nrow):
      row = cuts["rows"][k]
      sessK = ctx.session(pre + [core.zbool(sym01(n, row["z"]))])
      if k == 0:
        ctx.reach(sessK, "twin:row-adds-cross-edge", And(cmp("==", row["z"][1], 0), cmp("==", row["P"][1], 1)))
      for qn, (goal, what) in row_lemma(n, row["z"], row["P"], ref["touch"][k]).items():
        qn = f"edges/row{k}/{qn}"
        ctx.prove(sessK, qn, goal, True, names=dict(names, **{f"z{i // n}{i % n}": x for i, x in enumerate(row["z"])}), replay=replayer(ctx, cfg, cell_of, S, cuts, qn, "row", k), desc=f"{jac} ntree={ntree}: _tree_edges thread of row {k}: {what}")
      obligations(sessK, [("_tree_edges", o) for o in row["obl"]], f"edges/row{k}/", "row", k)
    # ---- composition (pure): the row lemmas chained from the zero matrix give the matrix postcondition, for ANY touch relation
    tau = [[z3.Bool(f"touch!{k}!{t}") for t in range(n)] for k in range(nrow)]
    rtau = reference_from_touch(n, nrow, tau)
    chain = [[0] * (n * n)] + [[z3.Int(f"m{k}!{i}") for i in range(n * n)] for k in range(1, nrow)] + [c]
    lemmas = []
    for k in range(nrow):
      lemmas += [core.zbool(g) for g, _ in row_lemma(n, chain[k], chain[k + 1], tau[k]).values()]
    sessP = ctx.session(lemmas)
    ctx.reach(sessP, "twin:compose", And(cmp("==", rtau["nisland"], 2), cmp("==", c[1], 1)))
    for qn, (goal, what) in matrix_post(n, rtau, c).items():
      ctx.prove(sessP, qn, goal, True, desc=f"lemma (composition of the per-row facts): {what}")
    # ---- flood_fill on an arbitrary symmetric 0/1 matrix c
    ctx.assume("flood_fill: tree_tree is a symmetric 0/1 matrix (proved: edges/01, edges/symmetric)")
    sessB = ctx.session([core.zbool(fill_pre(n, c))] + side)
    ctx.reach(sessB, "twin:fill-path-graph", And(*[cmp("==", c[a * n + a + 1], 1) for a in range(n - 1)], *[cmp("==", c[a * n + b], 0) for a in range(n) for b in range(n) if abs(a - b) != 1]))
    for qn, (goal, guard, what) in spec_fill(n, c, cuts["L"], cuts["nisL"]).items():
      ctx.prove(sessB, qn, goal, guard, names=names, replay=replayer(ctx, cfg, cell_of, S, cuts, qn, "fill"), desc=f"{jac} ntree={ntree}: {what}")
    obligations(sessB, [(key, o) for key, tid, o in hr.obl[cuts["nobl"]["fill0"] : cuts["nobl"]["fill1"]]], "fill/", "fill")
    # ---- glue (pure): the matrix postcondition => components of c = reference components, for ANY touch relation
    sessG = ctx.session([core.zbool(g) for g, _ in matrix_post(n, rtau, c).values()])
    ctx.reach(sessG, "twin:glue", cmp("==", rtau["nisland"], 2))
    for qn, (goal, what) in spec_glue(n, rtau, c).items():
      ctx.prove(sessG, qn, goal, True, desc=what)

  def run_map(ctx, S, hr, ref, pre, cuts, names, cfg, cell_of, obligations):
    # ---- compute_island_mapping given tree_island = reference labels (what the 'graph' unit guarantees), with two more
    # cuts: efc_tree (t) after _compute_efc_tree, per-dof/per-row islands and counts (B) after the counting kernels
    n, l, nis, t, B, Bd = S.ntree, cuts["l"], cuts["nis"], cuts["t"], cuts["B"], cuts["B_def"]
    ctx.assume("compute_island_mapping: tree_island / nisland are the component labels of the constraint graph (proved in the 'graph' unit: edges/*, fill/*, glue/*)")
    rp = lambda qn: replayer(ctx, cfg, cell_of, S, cuts, qn, "map")
    zb = core.zbool
    exact = [zb(cmp("==", l[a], ref["label"][a])) for a in range(n)] + [zb(cmp("==", nis, ref["nisland"]))]
    lem = map_lemmas(S, ref, l, nis)
    sessL = ctx.session(pre + exact)
    ctx.reach(sessL, "twin:map-two-islands", cmp("==", nis, 2))
    for qn, f in lem.items():
      ctx.prove(sessL, qn, f, True, names=names, desc="lemma about the reference labels")
    base = pre + exact + [zb(f) for f in lem.values()]
    # cut A: efc_tree
    sessA = ctx.session(base)
    fa_def, fa = facts_A(S, ref, cuts["t_def"]), facts_A(S, ref, t)
    if part == "rows":
      for qn, (goal, what) in fa_def.items():
        ctx.prove(sessA, qn, goal, True, names=names, replay=rp(qn), desc=f"{jac} ntree={ntree}: {what}")
    # cut B: islands of dofs / rows, counts
    baseA = base + [zb(g) for g, _ in fa.values()]
    sessB = ctx.session(baseA)
    fb_def, fb = facts_B(S, ref, l, nis, t, Bd), facts_B(S, ref, l, nis, t, B)
    dof_q = ("dof_island/", "count/island_nv/", "island_nv/", "island_idofadr/", "island_dofadr/", "nidof", "dof2idof", "idof2dof", "dof_islandid/")
    for qn, (goal, what) in fb_def.items():
      if qn.startswith(dof_q) == (part == "dofs"):
        ctx.prove(sessB, qn, goal, True, names=names, replay=rp(qn), desc=f"{jac} ntree={ntree}: {what}")
    # pure consequences used below
    baseB = baseA + [zb(g) for g, _ in fb.values()]
    sessG = ctx.session(baseB)
    gl = glue_B(S, ref, l, nis, B)
    for qn, f in gl.items():
      ctx.prove(sessG, qn, f, True, names=names, desc="lemma: the cut constants equal the reference islands / totals")
    # final: prefix sums, recounts and maps over the cut constants
    # (the label definitions stay in the background so that a counterexample is a complete, replayable input)
    sessC = ctx.session(baseB + [zb(f) for f in gl.values()])
    ctx.reach(sessC, "twin:map-island-with-two-rows", And(cmp("==", nis, 2), cmp("==", B["nefc"][1], 2), cmp("==", B["nv"][0], 2)))
    for qn, (goal, guard, what) in spec_map(S, ref, l, nis, B).items():
      if qn.startswith(dof_q) == (part == "dofs"):
        ctx.prove(sessC, qn, goal, guard, names=names, replay=rp(qn), desc=f"{jac} ntree={ntree}: {what}")
    if part == "dofs":
      o = cuts["nobl"]
      obligations(sessA, [(key, ob) for key, tid, ob in hr.obl[o["fill1"] : o["A"]]], "", "map")
      obligations(sessB, [(key, ob) for key, tid, ob in hr.obl[o["A"] : o["B"]]], "", "map")
      obligations(sessC, [(key, ob) for key, tid, ob in hr.obl[o["B"] :]], "", "map")

  return (f"islands/{jac}/ntree{ntree}/{part}", run)


# ------------------------------------------------------------------------------------------------ reference validation


VALID_XML = """<mujoco><option jacobian="{jac}" cone="{cone}"><flag sleep="{sleep}"/></option><worldbody>
<geom type="plane" size="5 5 .1"/><site name="w"/>
<body name="a" pos="0 0 .09"><freejoint/><geom size=".1"/><site name="sa"/></body>
<body name="b" pos="0 0 .27"><freejoint/><geom size=".1"/></body>
<body name="c" pos="1 0 .5"><joint name="c0" type="slide" axis="0 0 1" frictionloss=".1"/><geom size=".1"/><site name="sc"/>
  <body pos=".3 0 0"><joint name="c1" type="hinge" axis="0 1 0" limited="true" range="-1 1"/><geom size=".05"/></body></body>
<body name="e" pos="2 0 .5"><joint name="e0" type="slide" axis="0 0 1" limited="true" range="-.01 .01"/><geom size=".1"/><site name="se"/></body>
<body name="f" pos="3 0 .5"><joint name="f0" type="slide" axis="0 0 1"/><geom size=".1"/><site name="sf"/></body>
<body name="g" pos="4 0 {gz}"><freejoint/><geom size=".1"/></body>
</worldbody>
<tendon><fixed name="t" limited="true" range="-.001 .001"><joint joint="e0" coef="1"/><joint joint="f0" coef="{tc}"/></fixed>
<spatial name="sp" limited="true" range="0 .5"><site site="sc"/><site site="se"/></spatial></tendon>
<equality>{eq}</equality></mujoco>"""


def validate_reference():
  """compare the reference (python numbers) with MuJoCo's mj_island on real scenes -> list of mismatch texts"""
  import mujoco

  bad = []
  scenes = [
    dict(jac="dense", cone="pyramidal", gz=".09", tc="1", sleep="enable", eq='<connect body1="a" body2="c" anchor="0 0 0"/>'),
    dict(jac="sparse", cone="elliptic", gz="2", tc="-1", sleep="enable", eq='<weld site1="sa" site2="w"/><joint joint1="c0" joint2="e0"/>'),
    dict(jac="sparse", cone="pyramidal", gz=".09", tc="1", sleep="disable", eq='<connect body1="f" body2="g" anchor="0 0 0"/><joint joint1="c0"/>'),
    dict(jac="dense", cone="elliptic", gz="2", tc="0", sleep="disable", eq='<tendon tendon1="t" tendon2="sp"/>'),
  ]
  for sc in scenes:
    mjm = mujoco.MjModel.from_xml_string(VALID_XML.format(**sc))
    mjd = mujoco.MjData(mjm)
    mjd.qpos[mjm.jnt_qposadr[mujoco.mj_name2id(mjm, mujoco.mjtObj.mjOBJ_JOINT, "e0")]] = 0.02
    mujoco.mj_forward(mjm, mjd)
    S = View()
    S.ntree, S.nv, S.nbody, S.ngeom, S.nsite, S.neq, S.njnt = mjm.ntree, mjm.nv, mjm.nbody, mjm.ngeom, mjm.nsite, mjm.neq, mjm.njnt
    S.njmax, S.naconmax, S.is_sparse = int(mjd.nefc), int(mjd.ncon), mujoco.mj_isSparse(mjm) == 1
    S.njmax_nnz = int(mjd.nJ) if hasattr(mjd, "nJ") else 0
    for n in MODEL_SYM:
      setattr(S, n, [int(x) for x in getattr(mjm, n)])
    S.nefc = int(mjd.nefc)
    S.contact_geom = [(int(c.geom[0]), int(c.geom[1])) for c in mjd.contact]
    S.efc_type = [int(x) for x in mjd.efc_type]
    S.efc_id = [int(x) for x in mjd.efc_id]
    if S.is_sparse:
      S.J_rownnz = [int(x) for x in mjd.efc_J_rownnz]
      S.J_rowadr = [int(x) for x in mjd.efc_J_rowadr]
      S.J_colind = [int(x) for x in mjd.efc_J_colind]
      S.njmax_nnz = len(S.J_colind)
    else:
      S.J = np.asarray(mjd.efc_J).reshape(S.nefc, mjm.nv).tolist()
    for text, f in preconditions(S):
      if not conc(f):
        bad.append(f"validation scene {sc}: precondition '{text}' does not hold for MuJoCo's own data")
    ref = reference(S)
    ref["row_island"] = [max([int(ref["label"][t]) for t in range(S.ntree) if ref["touch"][k][t]] + [-1]) for k in range(S.nefc)]
    ref["dof_island"] = [int(ref["label"][t]) for t in S.dof_treeid]
    got = dict(label=[int(x) for x in mjd.tree_island], nisland=int(mjd.nisland), dof_island=[int(x) for x in mjd.dof_island], row_island=[int(x) for x in mjd.efc_island])
    for k, v in got.items():
      exp = ref[k] if k == "nisland" else [int(x) for x in ref[k]]
      if exp != v:
        bad.append(f"validation scene {sc}: reference {k} = {exp} but MuJoCo mj_island gives {v}")
    if got["nisland"] < 2:
      bad.append(f"validation scene {sc}: expected several islands, MuJoCo reports {got['nisland']}")
  return bad


def unit_validate(ctx):
  bad = validate_reference()
  ctx.notes.append("reference model compared with mujoco mj_island (tree_island, nisland, dof_island, efc_island) on 4 scenes with contacts, connect/weld/joint/tendon equalities, joint friction, joint and tendon limits, dense and sparse")
  for b in bad:
    ctx.error("reference-model validation: " + b)
  sess = ctx.session([])
  ctx.reach(sess, "twin:validation-ran", True)


def main(tier, seed, only=None):
  units = [("validate-reference", unit_validate)]
  cfgs = [("dense", 3, 4), ("sparse", 3, 4)] + ([("dense", 4, 5), ("sparse", 4, 5)] if tier == "thorough" else [])
  for jac, nt, nj in cfgs:
    units += [unit_islands(jac, nt, nj, part) for part in ("graph", "dofs", "rows")]
  if only:
    units = [u for u in units if any(o in u[0] for o in only)]
  return report.run_check(PID, units, tier, seed)


if __name__ == "__main__":
  # replay entry point: python -m checks.c28 <replay.json> [--debug]
  wp.config.quiet = True
  sp_ = json.load(open(sys.argv[1]))
  if "--debug" in sys.argv:
    run_real(sp_["config"], sp_["arrays"], sp_["stage"], sp_.get("cut"), debug=True)
    print("NOT-REPRODUCED: stage completed under the bounds-checked build")
    sys.exit(3)
  ok_, text_ = replay_inproc(sys.argv[1])
  print(("REPRODUCED: " if ok_ else "NOT-REPRODUCED: ") + str(text_).replace("\n", " "))
  sys.exit(0 if ok_ else 3)
