"""C28 Constraint islands are the connected components (H mode).

The REAL island pipeline `island.island(m, d)` (tree_edges, flood_fill) followed by `island.compute_island_mapping(m, d)`
is run natively on a tiny model (ntree = 3, nv = 4, njmax = 4; thorough: ntree = 4, nv = 5, njmax = 5) with
  * the constraint rows symbolic: nefc, efc.type, efc.id, efc.J (dense) or J_rownnz/J_rowadr/J_colind (sparse), contact.geom
  * the body/dof/geom/site -> tree maps and the equality tables of the Model symbolic
so the constraint graph over trees is symbolic (cross edges, self edges, static bodies = tree -1, generic rows touching up
to nv trees).  Every kernel launch is interpreted thread by thread (serial thread order; all thread orders = C11).

Reference model (written from MuJoCo's mj_island semantics, validated numerically against mujoco.mj_forward):
  row k touches tree t   (connect/weld: trees of the two bodies; dof friction / joint limit: tree of the dof; geom contact:
                          trees of the two geoms' bodies; any other row: trees of the dofs with a non-zero Jacobian entry)
  adjacency = two trees touched by the same active row; components by explicit transitive closure; island label of a touched
  tree = number of component-minimal touched trees below its component's smallest tree; untouched trees -1.
Queries: labels, nisland, dof_island, efc.island, per-island counts and prefix-sum addresses, maps mutually inverse and inside
their island's address range, equality/friction/other ordering of island rows, island_dofadr, every array index of every
interpreted thread in range (incl. the DFS stack), every loop finishes within the unroll bound (PROVED, not assumed).
"""

import json
import os
import sys

import numpy as np
import warp as wp
import z3

from wsym import core, host, kh, report
from wsym.core import And, Implies, Not, Or, arith, cmp, is_sym, ite, vmin

PID = "C28"

EQUALITY, FRICTION_DOF, FRICTION_TENDON, LIMIT_JOINT, LIMIT_TENDON, CONTACT_FRICTIONLESS, CONTACT_PYRAMIDAL, CONTACT_ELLIPTIC = range(8)
EQ_CONNECT, EQ_WELD = 0, 1
OBJ_BODY, OBJ_SITE = 1, 6


def xml(jac, ntree):
  extra = '<body name="d" pos="3 0 1"><joint name="d0" type="slide"/><geom name="gd" size=".1"/><site name="sd"/></body>' if ntree >= 4 else ""
  return f"""<mujoco>
 <option jacobian="{jac}"><flag sleep="enable"/></option>
 <worldbody>
  <geom name="floor" type="plane" size="5 5 .1"/>
  <site name="s0"/>
  <body name="a" pos="0 0 1"><joint name="a0" type="slide"/><geom name="ga" size=".1"/><site name="sa"/>
     <body name="a2" pos=".3 0 0"><joint name="a1" type="hinge"/><geom name="ga2" size=".1"/></body></body>
  <body name="b" pos="1 0 1"><joint name="b0" type="slide"/><geom name="gb" size=".1"/><site name="sb"/></body>
  <body name="c" pos="2 0 1"><joint name="c0" type="slide"/><geom name="gc" size=".1"/><site name="sc"/></body>
  {extra}
 </worldbody>
 <equality><connect body1="a" body2="b" anchor="0 0 0"/><weld site1="sa" site2="sc"/><joint joint1="b0" joint2="c0"/></equality>
</mujoco>"""


def build(jac, ntree, njmax):
  import mujoco

  import mujoco_warp as mjw

  mjm = mujoco.MjModel.from_xml_string(xml(jac, ntree))
  m = mjw.put_model(mjm)
  d = mjw.make_data(mjm, nworld=1, nconmax=2, njmax=njmax)
  return mjm, m, d


MODEL_SYM = ["body_treeid", "jnt_dofadr", "dof_treeid", "geom_bodyid", "site_bodyid", "eq_type", "eq_obj1id", "eq_obj2id", "eq_objtype"]
DATA_IN = ["nefc", "contact.geom", "efc.type", "efc.id", "efc.J", "efc.J_rownnz", "efc.J_rowadr", "efc.J_colind"]
DATA_OUT = [
  "tree_island", "nisland", "dof_island", "island_idofadr", "island_dofadr", "island_nv", "island_nefc", "island_ne", "island_nf",
  "island_iefcadr", "nidof", "map_dof2idof", "map_idof2dof", "dof_islandid", "efc.island", "map_efc2iefc", "map_iefc2efc", "efc_islandid",
]


# ------------------------------------------------------------------------------------------------ polymorphic helpers


def sel(lst, i):
  """lst[i] for a python or z3 index (out-of-range -> last / 0: callers mask such reads)"""
  i = core.norm_scalar(i)
  if not is_sym(i):
    i = int(i)
    return lst[i] if 0 <= i < len(lst) else (lst[-1] if lst else 0)
  r = lst[-1]
  for k in range(len(lst) - 2, -1, -1):
    r = ite(cmp("==", i, k), lst[k], r)
  return r


def count(conds):
  s = 0
  for c in conds:
    s = arith("+", s, ite(c, 1, 0))
  return s


def inrange(x, lo, hi):
  return And(cmp(">=", x, lo), cmp("<", x, hi))


class View:
  """inputs and outputs of the pipeline as nested python lists of python numbers or z3 terms (world 0)"""


def nest(flat, shape):
  if len(shape) == 1:
    return list(flat[: shape[0]])
  n = 1
  for s in shape[1:]:
    n *= s
  return [nest(flat[i * n : (i + 1) * n], shape[1:]) for i in range(shape[0])]


# ------------------------------------------------------------------------------------------------ reference model


def row_touches(S, k, t):
  """row k (taken as active) touches tree t"""
  ty, eid = S.efc_type[k], S.efc_id[k]
  is_eq = cmp("==", ty, EQUALITY)
  eqt = sel(S.eq_type, eid)
  eq_pair = And(is_eq, Or(cmp("==", eqt, EQ_CONNECT), cmp("==", eqt, EQ_WELD)))
  o1, o2 = sel(S.eq_obj1id, eid), sel(S.eq_obj2id, eid)
  by_site = cmp("==", sel(S.eq_objtype, eid), OBJ_SITE)
  b1 = ite(by_site, sel(S.site_bodyid, o1), o1)
  b2 = ite(by_site, sel(S.site_bodyid, o2), o2)
  eq_hit = Or(cmp("==", sel(S.body_treeid, b1), t), cmp("==", sel(S.body_treeid, b2), t))
  is_fd = cmp("==", ty, FRICTION_DOF)
  fd_hit = cmp("==", sel(S.dof_treeid, eid), t)
  is_lj = cmp("==", ty, LIMIT_JOINT)
  lj_hit = cmp("==", sel(S.dof_treeid, sel(S.jnt_dofadr, eid)), t)
  is_con = Or(cmp("==", ty, CONTACT_FRICTIONLESS), cmp("==", ty, CONTACT_PYRAMIDAL), cmp("==", ty, CONTACT_ELLIPTIC))
  g = sel(S.contact_geom, eid)
  g1, g2 = g[0], g[1]
  geom_pair = And(is_con, cmp(">=", g1, 0), cmp(">=", g2, 0))
  con_hit = Or(cmp("==", sel(S.body_treeid, sel(S.geom_bodyid, g1)), t), cmp("==", sel(S.body_treeid, sel(S.geom_bodyid, g2)), t))
  generic = Not(Or(eq_pair, is_fd, is_lj, geom_pair))
  if S.is_sparse:
    hits = []
    for i in range(S.nv):
      col = sel(S.J_colind, arith("+", S.J_rowadr[k], i))
      hits.append(And(cmp("<", i, S.J_rownnz[k]), cmp("==", sel(S.dof_treeid, col), t)))
    gen_hit = Or(*hits)
  else:
    gen_hit = Or(*[And(cmp("!=", S.J[k][j], 0.0), cmp("==", S.dof_treeid[j], t)) for j in range(S.nv)])
  return Or(And(eq_pair, eq_hit), And(is_fd, fd_hit), And(is_lj, lj_hit), And(geom_pair, con_hit), And(generic, gen_hit))


def reference(S):
  """-> dict with the expected island structure"""
  n, nrow = S.ntree, S.njmax
  nact = vmin(S.nefc, S.njmax)
  act = [cmp("<", k, nact) for k in range(nrow)]
  touch = [[And(act[k], row_touches(S, k, t)) for t in range(n)] for k in range(nrow)]
  touched = [Or(*[touch[k][t] for k in range(nrow)]) for t in range(n)]
  R = [[(True if a == b else Or(*[And(touch[k][a], touch[k][b]) for k in range(nrow)])) for b in range(n)] for a in range(n)]
  steps = 0
  while (1 << steps) < max(n - 1, 1):
    steps += 1
  for _ in range(steps):
    R = [[Or(*[And(R[a][c], R[c][b]) for c in range(n)]) for b in range(n)] for a in range(n)]
  root = [And(touched[r], *[Not(R[r][c]) for c in range(r)]) for r in range(n)]
  label = []
  for a in range(n):
    below = count([And(root[r], *[Not(R[a][c]) for c in range(r + 1)]) for r in range(a)])
    label.append(ite(touched[a], below, -1))
  nisland = count(root)
  row_island = []
  for k in range(nrow):
    v = -1
    for t in range(n - 1, -1, -1):
      v = ite(touch[k][t], label[t], v)
    row_island.append(v)
  dof_island = [sel(label, S.dof_treeid[j]) for j in range(S.nv)]
  return dict(act=act, touch=touch, touched=touched, label=label, nisland=nisland, row_island=row_island, dof_island=dof_island, root=root)


def preconditions(S):
  """documented model / data invariants the pipeline relies on -> list of (text, formula)"""
  P = []
  P.append(("0 <= nefc <= njmax + 1 (nefc may exceed njmax after an overflow)", And(cmp(">=", S.nefc, 0), cmp("<=", S.nefc, S.njmax + 1))))
  P.append(("body_treeid in [-1, ntree), world body static", And(cmp("==", S.body_treeid[0], -1), *[inrange(x, -1, S.ntree) for x in S.body_treeid])))
  P.append(("dof_treeid in [0, ntree)", And(*[inrange(x, 0, S.ntree) for x in S.dof_treeid])))
  P.append(("jnt_dofadr in [0, nv), geom_bodyid / site_bodyid in [0, nbody)", And(*[inrange(x, 0, S.nv) for x in S.jnt_dofadr], *[inrange(x, 0, S.nbody) for x in S.geom_bodyid + S.site_bodyid])))
  eqs = []
  for e in range(S.neq):
    pair = Or(cmp("==", S.eq_type[e], EQ_CONNECT), cmp("==", S.eq_type[e], EQ_WELD))
    body = And(cmp("==", S.eq_objtype[e], OBJ_BODY), inrange(S.eq_obj1id[e], 0, S.nbody), inrange(S.eq_obj2id[e], 0, S.nbody))
    site = And(cmp("==", S.eq_objtype[e], OBJ_SITE), inrange(S.eq_obj1id[e], 0, S.nsite), inrange(S.eq_obj2id[e], 0, S.nsite))
    eqs.append(Implies(pair, Or(body, site)))
  P.append(("connect/weld equalities name two bodies or two sites", And(*eqs)))
  nact = vmin(S.nefc, S.njmax)
  rows = []
  for k in range(S.njmax):
    ty, eid = S.efc_type[k], S.efc_id[k]
    is_con = Or(cmp("==", ty, CONTACT_FRICTIONLESS), cmp("==", ty, CONTACT_PYRAMIDAL), cmp("==", ty, CONTACT_ELLIPTIC))
    g = sel(S.contact_geom, eid)
    ok = And(
      Implies(cmp("==", ty, EQUALITY), inrange(eid, 0, S.neq)),
      Implies(cmp("==", ty, FRICTION_DOF), inrange(eid, 0, S.nv)),
      Implies(cmp("==", ty, LIMIT_JOINT), inrange(eid, 0, S.njnt)),
      Implies(is_con, And(inrange(eid, 0, S.naconmax), cmp("<", g[0], S.ngeom), cmp("<", g[1], S.ngeom))),
    )
    if S.is_sparse:
      ok = And(ok, inrange(S.J_rownnz[k], 0, S.nv + 1), cmp(">=", S.J_rowadr[k], 0), cmp("<=", arith("+", S.J_rowadr[k], S.J_rownnz[k]), S.njmax_nnz))
    rows.append(Implies(cmp("<", k, nact), ok))
  P.append(("active rows: efc.id indexes the table of its type; contact geoms < ngeom (negative = flex); sparse rows lie inside the J buffer with <= nv entries", And(*rows)))
  if S.is_sparse:
    P.append(("J_colind in [0, nv)", And(*[inrange(x, 0, S.nv) for x in S.J_colind])))
  return P


def spec(S):
  """-> ordered dict name -> (goal, guard, what fails)"""
  ref = reference(S)
  n, nv, nrow = S.ntree, S.nv, S.njmax
  act, label, rowisl, dofisl = ref["act"], ref["label"], ref["row_island"], ref["dof_island"]
  nis = ref["nisland"]
  Q = {}
  for a in range(n):
    Q[f"label/tree{a}"] = (cmp("==", S.tree_island[a], label[a]), True, f"tree_island[{a}] is not the connected-component number (components numbered by smallest tree, untouched trees -1)")
  Q["nisland"] = (cmp("==", S.nisland, nis), True, "nisland is not the number of components of touched trees")
  for j in range(nv):
    Q[f"dof_island/dof{j}"] = (cmp("==", S.dof_island[j], dofisl[j]), True, f"dof_island[{j}] is not the island of the dof's tree")
  for k in range(nrow):
    Q[f"efc_island/row{k}"] = (cmp("==", S.efc_island[k], rowisl[k]), act[k], f"efc.island[{k}] is not the island of the trees the row touches")
  nv_exp = [count([cmp("==", dofisl[j], i) for j in range(nv)]) for i in range(n)]
  nefc_exp = [count([And(act[k], cmp("==", rowisl[k], i)) for k in range(nrow)]) for i in range(n)]
  iseq = [cmp("==", S.efc_type[k], EQUALITY) for k in range(nrow)]
  isfr = [Or(cmp("==", S.efc_type[k], FRICTION_DOF), cmp("==", S.efc_type[k], FRICTION_TENDON)) for k in range(nrow)]
  ne_exp = [count([And(act[k], iseq[k], cmp("==", rowisl[k], i)) for k in range(nrow)]) for i in range(n)]
  nf_exp = [count([And(act[k], isfr[k], cmp("==", rowisl[k], i)) for k in range(nrow)]) for i in range(n)]
  idofadr_exp, iefcadr_exp = [], []
  s1, s2 = 0, 0
  for i in range(n):
    idofadr_exp.append(s1)
    iefcadr_exp.append(s2)
    s1, s2 = arith("+", s1, nv_exp[i]), arith("+", s2, nefc_exp[i])
  nidof_exp = count([cmp(">=", dofisl[j], 0) for j in range(nv)])
  ntot_exp = count([And(act[k], cmp(">=", rowisl[k], 0)) for k in range(nrow)])
  for i in range(n):
    live = cmp("<", i, nis)
    Q[f"island_nv/{i}"] = (cmp("==", S.island_nv[i], nv_exp[i]), live, f"island_nv[{i}] is not the number of dofs of island {i}")
    Q[f"island_idofadr/{i}"] = (cmp("==", S.island_idofadr[i], idofadr_exp[i]), live, f"island_idofadr[{i}] is not the prefix sum of island_nv")
    Q[f"island_nefc/{i}"] = (cmp("==", S.island_nefc[i], nefc_exp[i]), live, f"island_nefc[{i}] is not the number of active rows of island {i}")
    Q[f"island_ne/{i}"] = (cmp("==", S.island_ne[i], ne_exp[i]), live, f"island_ne[{i}] is not the number of equality rows of island {i}")
    Q[f"island_nf/{i}"] = (cmp("==", S.island_nf[i], nf_exp[i]), live, f"island_nf[{i}] is not the number of friction rows of island {i}")
    Q[f"island_iefcadr/{i}"] = (cmp("==", S.island_iefcadr[i], iefcadr_exp[i]), live, f"island_iefcadr[{i}] is not the prefix sum of island_nefc")
    mins = nv
    for j in range(nv - 1, -1, -1):
      mins = ite(cmp("==", dofisl[j], i), j, mins)
    Q[f"island_dofadr/{i}"] = (cmp("==", S.island_dofadr[i], mins), live, f"island_dofadr[{i}] is not the first dof of island {i}")
  Q["nidof"] = (cmp("==", S.nidof, nidof_exp), True, "nidof is not the number of island dofs")
  for j in range(nv):
    q = S.map_dof2idof[j]
    isl = dofisl[j]
    lo = sel(idofadr_exp, isl)
    hi = arith("+", lo, sel(nv_exp, isl))
    rng = ite(cmp(">=", isl, 0), inrange(q, lo, hi), inrange(q, nidof_exp, nv))
    Q[f"dof2idof-range/dof{j}"] = (rng, True, f"map_dof2idof[{j}] lies outside its island's idof range (unconstrained dofs: [nidof, nv))")
    Q[f"idof2dof.dof2idof/dof{j}"] = (And(inrange(q, 0, nv), cmp("==", sel(S.map_idof2dof, q), j)), True, f"map_idof2dof[map_dof2idof[{j}]] != {j}")
  for q in range(nv):
    j = S.map_idof2dof[q]
    Q[f"dof2idof.idof2dof/idof{q}"] = (And(inrange(j, 0, nv), cmp("==", sel(S.map_dof2idof, j), q)), True, f"map_dof2idof[map_idof2dof[{q}]] != {q}")
    Q[f"dof_islandid/idof{q}"] = (cmp("==", S.dof_islandid[q], sel(dofisl, j)), cmp("<", q, nidof_exp), f"dof_islandid[{q}] is not the island of dof map_idof2dof[{q}]")
  for k in range(nrow):
    c = S.map_efc2iefc[k]
    isl = rowisl[k]
    g = And(act[k], cmp(">=", isl, 0))
    adr, ne, nf, ntot = sel(iefcadr_exp, isl), sel(ne_exp, isl), sel(nf_exp, isl), sel(nefc_exp, isl)
    a1, a2 = arith("+", adr, ne), arith("+", arith("+", adr, ne), nf)
    rng = ite(iseq[k], inrange(c, adr, a1), ite(isfr[k], inrange(c, a1, a2), inrange(c, a2, arith("+", adr, ntot))))
    Q[f"efc2iefc-range/row{k}"] = (rng, g, f"map_efc2iefc[{k}] lies outside its island's block (equality rows first, then friction, then the rest)")
    Q[f"iefc2efc.efc2iefc/row{k}"] = (And(inrange(c, 0, nrow), cmp("==", sel(S.map_iefc2efc, c), k)), g, f"map_iefc2efc[map_efc2iefc[{k}]] != {k}")
  for c in range(nrow):
    r = S.map_iefc2efc[c]
    g = cmp("<", c, ntot_exp)
    ok = And(inrange(r, 0, nrow), sel(act, r), cmp(">=", sel(rowisl, r), 0), cmp("==", sel(S.map_efc2iefc, r), c))
    Q[f"efc2iefc.iefc2efc/iefc{c}"] = (ok, g, f"map_iefc2efc[{c}] is not an active island row mapped back to {c}")
    Q[f"efc_islandid/iefc{c}"] = (cmp("==", S.efc_islandid[c], sel(rowisl, r)), g, f"efc_islandid[{c}] is not the island of row map_iefc2efc[{c}]")
  return Q, ref


# ------------------------------------------------------------------------------------------------ views


def view_common(S, m, d, jac):
  S.ntree, S.nv, S.nbody, S.ngeom, S.nsite, S.neq, S.njnt = int(m.ntree), int(m.nv), int(m.nbody), int(m.ngeom), int(m.nsite), int(m.neq), int(m.njnt)
  S.njmax, S.njmax_nnz, S.naconmax, S.is_sparse = int(d.njmax), int(d.njmax_nnz), int(d.naconmax), bool(m.is_sparse)


def fill_view(S, get_in, get_out):
  """get_in(name) / get_out(name) -> (flat per-component lists, shape)"""
  for n in MODEL_SYM:
    comps, shape = get_in("m." + n)
    setattr(S, n, list(comps[0]))
  comps, shape = get_in("d.nefc")
  S.nefc = comps[0][0]
  comps, shape = get_in("d.contact.geom")
  S.contact_geom = [(comps[0][i], comps[1][i]) for i in range(shape[0])]
  S.efc_type = list(get_in("d.efc.type")[0][0][: S.njmax])
  S.efc_id = list(get_in("d.efc.id")[0][0][: S.njmax])
  if S.is_sparse:
    S.J_rownnz = list(get_in("d.efc.J_rownnz")[0][0][: S.njmax])
    S.J_rowadr = list(get_in("d.efc.J_rowadr")[0][0][: S.njmax])
    S.J_colind = list(get_in("d.efc.J_colind")[0][0])
  else:
    comps, shape = get_in("d.efc.J")
    S.J = [row[: S.nv] for row in nest(comps[0], shape[1:])][: S.njmax]
  for n in DATA_OUT:
    comps, shape = get_out("d." + n)
    flat = comps[0]
    setattr(S, n.replace("efc.island", "efc_island").replace(".", "_"), flat[0] if len(shape) == 1 else list(flat))
  return S


def symbolic_run(ctx, jac, ntree, njmax):
  from mujoco_warp._src import island

  mjm, m, d = build(jac, ntree, njmax)
  msym = {"m." + n for n in MODEL_SYM}
  m2 = host.shim_dataclass(m, "m.", symbolic=lambda n: n in msym)
  d2 = host.shim_dataclass(d, "d.")
  nv, nt = int(m.nv), int(m.ntree)
  # pops of the DFS <= pushes <= 1 + sum_k (ntree - k) (the k-th labelled tree can push at most the ntree-k unlabelled ones)
  unroll = max(1 + nt * (nt - 1) // 2, nv, nt)
  ctx.bound(nworld=1, ntree=nt, nv=nv, nbody=int(m.nbody), njmax=njmax, jacobian=jac, unroll=unroll, note="unroll = max(1 + ntree(ntree-1)/2 DFS pops, nv sparse entries per row, ntree islands); the unwinding obligations are proved")
  with host.HostRun(mode="exec", unroll=unroll) as hr:
    island.island(m2, d2)
    island.compute_island_mapping(m2, d2)
  for e in hr.events:
    if e.kind == "launch":
      ctx.encode(e.kernel)
  ctx.encode(island.island, island.tree_edges, island.flood_fill, island.compute_island_mapping)
  marrs, darrs = host.arrays_of(m2), host.arrays_of(d2)

  def cell_of(name):
    return (marrs[name[2:]] if name.startswith("m.") else darrs[name[2:]]).ref.cell

  S = View()
  view_common(S, m, d, jac)
  fill_view(S, lambda n: (cell_of(n).d0, cell_of(n).shape), lambda n: (cell_of(n).d, cell_of(n).shape))
  return S, hr, cell_of


# ------------------------------------------------------------------------------------------------ replay on the real code


def _inputs_from_model(model, cell_of, S):
  arrays = {}
  for name in ["m." + n for n in MODEL_SYM] + ["d." + n for n in DATA_IN + DATA_OUT]:
    c = cell_of(name)
    if c.size == 0:
      continue
    a = np.zeros((c.size, c.ncomp))
    for k in range(c.ncomp):
      a[:, k] = [float(kh.mval(model, x)) for x in c.d0[k]]
    a = np.clip(a, -1e6, 1e6)
    arrays[name] = a.reshape(tuple(c.shape) + ((c.ncomp,) if c.ncomp > 1 else ())).tolist()
  return arrays


def run_real(cfg, arrays, debug=False):
  """real island.island + compute_island_mapping on concrete inputs -> View of python numbers"""
  if debug:
    wp.config.mode = "debug"
    wp.config.kernel_cache_dir = os.path.join(report.VERIF, ".wpcache", "replay_debug")
  from mujoco_warp._src import island

  mjm, m, d = build(cfg["jac"], cfg["ntree"], cfg["njmax"])

  def real(name):
    obj = m if name.startswith("m.") else d
    for part in name[2:].split("."):
      obj = getattr(obj, part)
    return obj

  pre = {}
  for name, vals in arrays.items():
    r = real(name)
    r.assign(np.array(vals).astype(r.numpy().dtype).reshape(r.numpy().shape))
    pre[name] = r.numpy().copy()
  island.island(m, d)
  island.compute_island_mapping(m, d)
  wp.synchronize()
  S = View()
  view_common(S, m, d, cfg["jac"])

  def flat(a, name):
    a = np.asarray(a)
    r = real(name)
    ncomp = int(np.prod(a.shape[r.ndim :])) if a.ndim > r.ndim else 1
    a2 = a.reshape(-1, ncomp)
    return [[a2[i, k].item() for i in range(a2.shape[0])] for k in range(ncomp)], tuple(r.shape)

  fill_view(S, lambda n: flat(pre[n], n), lambda n: flat(real(n).numpy(), n))
  return S


def conc(x):
  return bool(x) if isinstance(x, (bool, np.bool_)) else x


def run_replay(path):
  """-> (reproduced, text)"""
  sp = json.load(open(path))
  if sp["query"].startswith(("bounds/", "unwind/")):
    import subprocess

    env = dict(os.environ)
    p = subprocess.run([sys.executable, "-m", "checks.c28", path, "--debug"], cwd=report.VERIF, env=env, capture_output=True, text=True, timeout=600)
    crashed = p.returncode not in (0, 3)
    return crashed, f"debug-build run of the real pipeline rc={p.returncode}: {(p.stdout + p.stderr)[-300:]}"
  S = run_real(sp["config"], sp["arrays"])
  for text, f in preconditions(S):
    if not conc(f):
      return False, f"replay input violates precondition: {text}"
  Q, ref = spec(S)
  goal, guard, what = Q[sp["query"]]
  if not conc(guard):
    return False, "guard of the query is false on the real outputs"
  outs = {n: getattr(S, n.replace("efc.island", "efc_island").replace(".", "_")) for n in DATA_OUT}
  text = f"{what}; reference: labels {ref['label']} nisland {ref['nisland']} row islands {ref['row_island']} dof islands {ref['dof_island']}; real outputs: {outs}"
  return (not conc(goal)), text


def replayer(ctx, cfg, cell_of, S, qname):
  def _rp(model):
    arrays = _inputs_from_model(model, cell_of, S)
    d = os.path.join(report.VERIF, "replays", PID)
    os.makedirs(d, exist_ok=True)
    path = os.path.join(d, f"{ctx.unit.replace('/', '_')}.{qname.replace('/', '_')}.json")
    sp = {
      "property": PID,
      "unit": ctx.unit,
      "query": qname,
      "config": cfg,
      "arrays": arrays,
      "how": "PYTHONPATH=/verif/.deps:/verif python -m checks.c28 <this file>: builds the tiny model (checks.c28.xml), assigns the arrays to Model/Data, runs island.island and island.compute_island_mapping, evaluates the reference",
    }
    with open(path, "w") as f:
      json.dump(sp, f)
    ok, text = run_replay(path)
    sp["result"] = text
    with open(path, "w") as f:
      json.dump(sp, f)
    return ok, path

  return _rp


# ------------------------------------------------------------------------------------------------ units


def unit_islands(jac, ntree, njmax):
  def run(ctx):
    S, hr, cell_of = symbolic_run(ctx, jac, ntree, njmax)
    cfg = {"jac": jac, "ntree": ntree, "njmax": njmax}
    pre = []
    for text, f in preconditions(S):
      ctx.assume(text)
      pre.append(core.zbool(f))
    ctx.assume("all other Data contents (outputs, scratch, uninitialised DFS stack) arbitrary", "threads of a launch run in tid order (other orders: C11)")
    pre += [core.zbool(a) for a in hr.assumes]
    sess = ctx.session(pre)
    Q, ref = spec(S)
    names = {"nefc": S.nefc}
    for k in range(S.njmax):
      names[f"type{k}"], names[f"id{k}"] = S.efc_type[k], S.efc_id[k]
    for i, x in enumerate(S.body_treeid):
      names[f"body_treeid{i}"] = x
    for i, x in enumerate(S.dof_treeid):
      names[f"dof_treeid{i}"] = x
    # reachability twins: graphs of every shape are inside the preconditions
    ctx.reach(sess, "twin:pre-state", True)
    ctx.reach(sess, "twin:one-island-of-all-trees", And(cmp("==", ref["nisland"], 1), *ref["touched"]))
    ctx.reach(sess, "twin:all-trees-separate", cmp("==", ref["nisland"], S.ntree))
    ctx.reach(sess, "twin:untouched-tree-and-static-edge", And(Not(ref["touched"][0]), ref["touched"][1], cmp("==", ref["nisland"], 1)))
    ctx.reach(sess, "twin:chain-through-highest-tree", And(cmp("==", ref["nisland"], 1), *ref["touched"], Not(Or(*[And(ref["touch"][k][0], ref["touch"][k][1]) for k in range(S.njmax)]))))
    for qn, (goal, guard, what) in Q.items():
      ctx.prove(sess, qn, goal, guard, names=names, replay=replayer(ctx, cfg, cell_of, S, qn), desc=f"{jac} ntree={ntree}: {what}")
    # own bounds of every interpreted thread (incl. the DFS stack of size ntree^2) and loop bounds, proved
    groups = {}
    for key, tid, o in hr.obl:
      groups.setdefault((o.kind, key), []).append(Implies(o.guard, o.strict if o.kind == "bounds" else o.cond))
    for (kind, key), obs in sorted(groups.items()):
      what = "indexes an array out of range (0 <= i < dim)" if kind == "bounds" else "needs more loop iterations than the derived bound (DFS pops / islands / row entries)"
      ctx.prove(sess, f"{kind}/{key}", And(*obs), True, names=names, replay=replayer(ctx, cfg, cell_of, S, f"{kind}/{key}"), desc=f"{jac} ntree={ntree}: a thread of {key} {what}")

  return (f"islands/{jac}/ntree{ntree}", run)


# ------------------------------------------------------------------------------------------------ reference validation


VALID_XML = """<mujoco><option jacobian="{jac}" cone="{cone}"><flag sleep="{sleep}"/></option><worldbody>
<geom type="plane" size="5 5 .1"/><site name="w"/>
<body name="a" pos="0 0 .09"><freejoint/><geom size=".1"/><site name="sa"/></body>
<body name="b" pos="0 0 .27"><freejoint/><geom size=".1"/></body>
<body name="c" pos="1 0 .5"><joint name="c0" type="slide" axis="0 0 1" frictionloss=".1"/><geom size=".1"/><site name="sc"/>
  <body pos=".3 0 0"><joint name="c1" type="hinge" axis="0 1 0" limited="true" range="-1 1"/><geom size=".05"/></body></body>
<body name="e" pos="2 0 .5"><joint name="e0" type="slide" axis="0 0 1" limited="true" range="-.01 .01"/><geom size=".1"/><site name="se"/></body>
<body name="f" pos="3 0 .5"><joint name="f0" type="slide" axis="0 0 1"/><geom size=".1"/><site name="sf"/></body>
<body name="g" pos="4 0 {gz}"><freejoint/><geom size=".1"/></body>
</worldbody>
<tendon><fixed name="t" limited="true" range="-.001 .001"><joint joint="e0" coef="1"/><joint joint="f0" coef="{tc}"/></fixed>
<spatial name="sp" limited="true" range="0 .5"><site site="sc"/><site site="se"/></spatial></tendon>
<equality>{eq}</equality></mujoco>"""


def validate_reference():
  """compare the reference (python numbers) with MuJoCo's mj_island on real scenes -> list of mismatch texts"""
  import mujoco

  bad = []
  scenes = [
    dict(jac="dense", cone="pyramidal", gz=".09", tc="1", sleep="enable", eq='<connect body1="a" body2="c" anchor="0 0 0"/>'),
    dict(jac="sparse", cone="elliptic", gz="2", tc="-1", sleep="enable", eq='<weld site1="sa" site2="w"/><joint joint1="c0" joint2="e0"/>'),
    dict(jac="sparse", cone="pyramidal", gz=".09", tc="1", sleep="disable", eq='<connect body1="f" body2="g" anchor="0 0 0"/><joint joint1="c0"/>'),
    dict(jac="dense", cone="elliptic", gz="2", tc="0", sleep="disable", eq='<tendon tendon1="t" tendon2="sp"/>'),
  ]
  for sc in scenes:
    mjm = mujoco.MjModel.from_xml_string(VALID_XML.format(**sc))
    mjd = mujoco.MjData(mjm)
    mjd.qpos[mjm.jnt_qposadr[mujoco.mj_name2id(mjm, mujoco.mjtObj.mjOBJ_JOINT, "e0")]] = 0.02
    mujoco.mj_forward(mjm, mjd)
    S = View()
    S.ntree, S.nv, S.nbody, S.ngeom, S.nsite, S.neq, S.njnt = mjm.ntree, mjm.nv, mjm.nbody, mjm.ngeom, mjm.nsite, mjm.neq, mjm.njnt
    S.njmax, S.naconmax, S.is_sparse = int(mjd.nefc), int(mjd.ncon), mujoco.mj_isSparse(mjm) == 1
    S.njmax_nnz = int(mjd.nJ) if hasattr(mjd, "nJ") else 0
    for n in MODEL_SYM:
      setattr(S, n, [int(x) for x in getattr(mjm, n)])
    S.nefc = int(mjd.nefc)
    S.contact_geom = [(int(c.geom[0]), int(c.geom[1])) for c in mjd.contact]
    S.efc_type = [int(x) for x in mjd.efc_type]
    S.efc_id = [int(x) for x in mjd.efc_id]
    if S.is_sparse:
      S.J_rownnz = [int(x) for x in mjd.efc_J_rownnz]
      S.J_rowadr = [int(x) for x in mjd.efc_J_rowadr]
      S.J_colind = [int(x) for x in mjd.efc_J_colind]
      S.njmax_nnz = len(S.J_colind)
    else:
      S.J = np.asarray(mjd.efc_J).reshape(S.nefc, mjm.nv).tolist()
    for text, f in preconditions(S):
      if not conc(f):
        bad.append(f"validation scene {sc}: precondition '{text}' does not hold for MuJoCo's own data")
    ref = reference(S)
    got = dict(label=[int(x) for x in mjd.tree_island], nisland=int(mjd.nisland), dof_island=[int(x) for x in mjd.dof_island], row_island=[int(x) for x in mjd.efc_island])
    for k, v in got.items():
      exp = ref[k] if k == "nisland" else [int(x) for x in ref[k]]
      if exp != v:
        bad.append(f"validation scene {sc}: reference {k} = {exp} but MuJoCo mj_island gives {v}")
    if got["nisland"] < 2:
      bad.append(f"validation scene {sc}: expected several islands, MuJoCo reports {got['nisland']}")
  return bad


def unit_validate(ctx):
  bad = validate_reference()
  ctx.notes.append("reference model compared with mujoco mj_island (tree_island, nisland, dof_island, efc_island) on 4 scenes with contacts, connect/weld/joint/tendon equalities, joint friction, joint and tendon limits, dense and sparse")
  for b in bad:
    ctx.error("reference-model validation: " + b)
  sess = ctx.session([])
  ctx.reach(sess, "twin:validation-ran", True)


def main(tier, seed, only=None):
  units = [("validate-reference", unit_validate), unit_islands("dense", 3, 4), unit_islands("sparse", 3, 4)]
  if tier == "thorough":
    units += [unit_islands("dense", 4, 5), unit_islands("sparse", 4, 5)]
  if only:
    units = [u for u in units if any(o in u[0] for o in only)]
  return report.run_check(PID, units, tier, seed)


if __name__ == "__main__":
  # replay entry point: python -m checks.c28 <replay.json> [--debug]
  wp.config.quiet = True
  sp_ = json.load(open(sys.argv[1]))
  if "--debug" in sys.argv:
    run_real(sp_["config"], sp_["arrays"], debug=True)
    print("NOT-REPRODUCED: pipeline completed under the bounds-checked build")
    sys.exit(3)
  ok_, text_ = run_replay(sys.argv[1])
  print(("REPRODUCED: " if ok_ else "NOT-REPRODUCED: ") + str(text_))
  sys.exit(0 if ok_ else 3)
