"""C36 helper: a small symbolic evaluator for the REAL source of warp_util.cache_kernel (host Python, not a Warp kernel).

The wrapper's key construction (`_hash_arg`, `key = ...`) is read with inspect/ast at check time and executed over symbolic
Python values (PV): the *kind* of every argument (number / object with .size / list / identity-hashed object / str) is
concrete per query so that `hasattr` / `isinstance` tests evaluate concretely, the *values* are z3 terms.  CPython's `hash`
is modelled per kind (see py_hash).  Unsupported syntax raises PyUnsupported (-> harness error, never a pass)."""

import ast
import inspect
import itertools
import textwrap

import z3

M61 = (1 << 61) - 1


class PyUnsupported(Exception):
  pass


class PV:
  """symbolic python value"""

  def __init__(self, kind, **kw):
    self.kind = kind
    self.__dict__.update(kw)

  def __repr__(self):
    return f"PV({self.kind})"


def pv_num(name):
  """bool / int / IntEnum / IntFlag: (isbool, value)"""
  return PV("num", isbool=z3.Bool(f"{name}.isbool"), v=z3.Int(f"{name}.v"))


def pv_sized(name):
  """object with a .size attribute (TileSet, wp.array, numpy array / scalar): size, identity"""
  return PV("sized", size=z3.Int(f"{name}.size"), ident=z3.Int(f"{name}.id"))


def pv_obj(name):
  return PV("obj", ident=z3.Int(f"{name}.id"))


def pv_list(elems):
  return PV("list", elems=list(elems))


def pv_tuple(elems):
  return PV("tuple", elems=list(elems))


def pv_str(sid):
  return PV("str", sid=sid)


class FuncRef:
  """the decorated builder `func` inside cache_kernel: only __name__ is observable"""

  def __init__(self, name_pv):
    self.name_pv = name_pv


def hash_int(i):
  """CPython long hash: sign(i) * (|i| mod (2^61-1)), and -1 -> -2"""
  a = z3.If(i >= 0, i, -i) % M61
  h = z3.If(i >= 0, a, -a)
  return z3.If(h == -1, z3.IntVal(-2), h)


class HashModel:
  """CPython hash per kind.  Tuple hashes (xxHash-style 64-bit mixing) and str hashes (SipHash) are uninterpreted but
  collision-free: injectivity is asserted for every pair of applications that occurs in a query (self.axioms)."""

  def __init__(self):
    self.axioms = []
    self.tuple_apps = []  # (n, [elem hashes], term)
    self.str_apps = []  # (sid, term)
    self.cnt = itertools.count()
    self.HS = z3.Function("hash_str", z3.IntSort(), z3.IntSort())

  def hash(self, v):
    if isinstance(v, PV):
      if v.kind == "num":
        return z3.If(v.isbool, z3.If(v.v != 0, z3.IntVal(1), z3.IntVal(0)), hash_int(v.v))
      if v.kind == "obj":
        return v.ident  # object.__hash__ = id >> 4: injective on live objects
      if v.kind == "str":
        t = self.HS(v.sid if z3.is_expr(v.sid) else z3.IntVal(v.sid))
        for s2, t2 in self.str_apps:
          s2z = s2 if z3.is_expr(s2) else z3.IntVal(s2)
          s1z = v.sid if z3.is_expr(v.sid) else z3.IntVal(v.sid)
          self.axioms.append(z3.Implies(t == t2, s1z == s2z))
        self.str_apps.append((v.sid, t))
        return t
      if v.kind == "tuple":
        hs = [self.hash(e) for e in v.elems]
        return self._tuple(hs)
      if v.kind == "list":
        raise PyUnsupported("hash(list) raises TypeError in Python")
      if v.kind == "sized":
        raise PyUnsupported("hash of a sized object is not modelled (TileSet.__hash__ reads array contents)")
    if z3.is_expr(v) and v.sort() == z3.IntSort():
      return hash_int(v)
    if isinstance(v, bool):
      return z3.IntVal(int(v))
    if isinstance(v, int):
      return hash_int(z3.IntVal(v))
    if isinstance(v, tuple):
      return self._tuple([self.hash(e) for e in v])
    raise PyUnsupported(f"hash of {v!r}")

  def _tuple(self, hs):
    n = len(hs)
    t = z3.Int(f"hash_tuple{n}!{next(self.cnt)}")
    for n2, hs2, t2 in self.tuple_apps:
      if n2 != n:
        self.axioms.append(t != t2)
      else:
        self.axioms.append(z3.Implies(t == t2, z3.And(*[a == b for a, b in zip(hs, hs2)]) if n else z3.BoolVal(True)))
    self.tuple_apps.append((n, hs, t))
    return t


class PDict:
  """keyword arguments of one call: concrete names (call order), symbolic values"""

  def __init__(self, d):
    self.d = d


class _Return(Exception):
  def __init__(self, v):
    self.v = v


class LocalFunc:
  def __init__(self, node, env):
    self.node, self.env = node, env


class KeyEval:
  """evaluates the wrapper of cache_kernel up to the assignment of `key`"""

  def __init__(self, cache_kernel, hm):
    src = textwrap.dedent(inspect.getsource(cache_kernel))
    self.tree = ast.parse(src)
    fdef = self.tree.body[0]
    if not isinstance(fdef, ast.FunctionDef) or len(fdef.args.args) != 1:
      raise PyUnsupported("cache_kernel is no longer a one-argument decorator")
    self.func_param = fdef.args.args[0].arg
    wrappers = [n for n in fdef.body if isinstance(n, ast.FunctionDef)]
    if len(wrappers) != 1:
      raise PyUnsupported("cache_kernel: expected exactly one nested wrapper function")
    self.wrapper = wrappers[0]
    a = self.wrapper.args
    if a.args or a.kwonlyargs or not a.vararg:
      raise PyUnsupported("cache_kernel wrapper signature is neither (*args) nor (*args, **kwargs)")
    self.vararg = a.vararg.arg
    self.kwarg = a.kwarg.arg if a.kwarg else None  # wrapper accepts keyword arguments
    self.forwards_kwargs = False  # ... and hands them to the builder (set by check_lookup)
    self.hm = hm
    self.cache_name = None
    self.strids = {}

  def strid(self, text):
    """concrete strings (keyword names) get ids disjoint from the builder-name ids (>= 0)"""
    return self.strids.setdefault(text, -1 - len(self.strids))

  # -- statements
  def key_for(self, name_pv, args, kwargs=None):
    """-> the cache key the real wrapper computes for builder `name`, positional `args` and keyword `kwargs` (dict
    name -> PV, in call order): a nested structure of python tuples whose leaves are z3 Int terms / python str"""
    env = {self.func_param: FuncRef(name_pv), self.vararg: tuple(args)}
    if kwargs and self.kwarg is None:
      raise PyUnsupported("keyword arguments given but the wrapper takes none (the real call raises TypeError)")
    if self.kwarg is not None:
      env[self.kwarg] = PDict(dict(kwargs or {}))
    body = self.wrapper.body
    for k, s in enumerate(body):
      if isinstance(s, ast.Assign) and len(s.targets) == 1 and isinstance(s.targets[0], ast.Name) and s.targets[0].id == "key":
        env["key"] = self.expr(s.value, env)
        self.check_lookup(body[k + 1 :])
        return self.norm_key(env["key"])
      self.stmt(s, env)
    raise PyUnsupported("cache_kernel wrapper: no `key = ...` assignment found")

  def norm_key(self, key):
    """dict keys compare structurally: tuples componentwise, numbers by value, str by content; other objects by hash"""
    if isinstance(key, tuple):
      if key and isinstance(key[0], str) and key[0] == "gen" and len(key) == 2 and isinstance(key[1], list):
        raise PyUnsupported("generator object used as a key component")
      return tuple(self.norm_key(c) for c in key)
    if isinstance(key, list):
      raise PyUnsupported("list inside the key (unhashable)")
    if isinstance(key, bool):
      return z3.IntVal(int(key))
    if isinstance(key, int):
      return z3.IntVal(key)
    if isinstance(key, str):
      return key
    if isinstance(key, PV):
      if key.kind == "num":
        return key.v
      if key.kind == "str":
        return self.hm.hash(key)
      return self.hm.hash(key)
    if z3.is_expr(key):
      return key
    raise PyUnsupported(f"key component {key!r}")

  def check_lookup(self, rest):
    """the remainder must be the plain memo lookup: if key not in C: C[key] = func(*args[, **kwargs]); return C[key]"""
    got = "\n".join(ast.unparse(s) for s in rest)
    for n in ast.walk(ast.Module(body=list(rest), type_ignores=[])):
      if isinstance(n, ast.Subscript) and isinstance(n.value, ast.Name):
        self.cache_name = n.value.id
        break
    if self.cache_name is None:
      raise PyUnsupported(f"cache_kernel lookup code changed shape, model not applicable:\n{got}")
    want = "if key not in {C}:\n    {C}[key] = {f}({call})\nreturn {C}[key]"
    plain = want.format(C=self.cache_name, f=self.func_param, call=f"*{self.vararg}")
    if got == plain:
      self.forwards_kwargs = False
      return
    if self.kwarg is not None and got == want.format(C=self.cache_name, f=self.func_param, call=f"*{self.vararg}, **{self.kwarg}"):
      self.forwards_kwargs = True
      return
    raise PyUnsupported(f"cache_kernel lookup code changed shape, model not applicable:\n{got}")

  def stmt(self, s, env):
    if isinstance(s, ast.FunctionDef):
      env[s.name] = LocalFunc(s, env)
    elif isinstance(s, ast.Assign) and len(s.targets) == 1 and isinstance(s.targets[0], ast.Name):
      env[s.targets[0].id] = self.expr(s.value, env)
    elif isinstance(s, ast.If):
      c = self.expr(s.test, env)
      if not isinstance(c, bool):
        raise PyUnsupported(f"symbolic branch condition in host code: {ast.unparse(s.test)}")
      for t in s.body if c else s.orelse:
        self.stmt(t, env)
    elif isinstance(s, ast.Return):
      raise _Return(self.expr(s.value, env) if s.value is not None else None)
    elif isinstance(s, ast.Expr) and isinstance(s.value, ast.Constant):
      pass
    else:
      raise PyUnsupported(f"statement {ast.unparse(s)[:60]}")

  # -- expressions
  def expr(self, e, env):
    if isinstance(e, ast.Constant):
      return e.value
    if isinstance(e, ast.Name):
      if e.id in env:
        return env[e.id]
      if e.id in ("list", "tuple", "int", "bool", "float", "str", "hash", "hasattr", "isinstance", "len", "id", "type", "sorted", "dict"):
        return ("builtin", e.id)
      raise PyUnsupported(f"name {e.id}")
    if isinstance(e, ast.Attribute):
      v = self.expr(e.value, env)
      if isinstance(v, FuncRef) and e.attr in ("__name__", "__qualname__"):
        return v.name_pv
      if isinstance(v, PV) and v.kind == "sized" and e.attr == "size":
        return v.size
      raise PyUnsupported(f"attribute .{e.attr} of {v!r}")
    if isinstance(e, ast.Tuple):
      return tuple(self.expr(x, env) for x in e.elts)
    if isinstance(e, ast.BinOp) and isinstance(e.op, ast.Add):
      a, b = self.expr(e.left, env), self.expr(e.right, env)
      if isinstance(a, tuple) and isinstance(b, tuple):
        return a + b
      raise PyUnsupported(f"+ on {a!r}, {b!r}")
    if isinstance(e, (ast.GeneratorExp, ast.ListComp)):
      tgt = e.generators[0].target
      names = [tgt.id] if isinstance(tgt, ast.Name) else ([t.id for t in tgt.elts] if isinstance(tgt, ast.Tuple) and all(isinstance(t, ast.Name) for t in tgt.elts) else None)
      if len(e.generators) != 1 or e.generators[0].ifs or names is None:
        raise PyUnsupported("comprehension shape")
      it = self.expr(e.generators[0].iter, env)
      if isinstance(it, PV) and it.kind in ("list", "tuple"):
        it = it.elems
      if isinstance(it, PDict):
        it = list(it.d.keys())
      if isinstance(it, tuple) and len(it) == 2 and isinstance(it[0], str) and it[0] == "gen":
        it = it[1]
      if not isinstance(it, (tuple, list)):
        raise PyUnsupported("comprehension over non-sequence")
      out = []
      for x in it:
        env2 = dict(env)
        if isinstance(tgt, ast.Name):
          env2[tgt.id] = x
        else:
          if not isinstance(x, (tuple, list)) or len(x) != len(names):
            raise PyUnsupported("tuple unpacking in comprehension")
          env2.update(zip(names, x))
        out.append(self.expr(e.elt, env2))
      return ("gen", out) if isinstance(e, ast.GeneratorExp) else out
    if isinstance(e, ast.Subscript):
      v = self.expr(e.value, env)
      if isinstance(v, (tuple, list)):
        if isinstance(e.slice, ast.Slice):
          lo = self.expr(e.slice.lower, env) if e.slice.lower else None
          hi = self.expr(e.slice.upper, env) if e.slice.upper else None
          st = self.expr(e.slice.step, env) if e.slice.step else None
          return v[slice(lo, hi, st)]
        i = self.expr(e.slice, env)
        if isinstance(i, int):
          return v[i]
      raise PyUnsupported(f"subscript {ast.unparse(e)}")
    if isinstance(e, ast.UnaryOp) and isinstance(e.op, ast.USub):
      v = self.expr(e.operand, env)
      if isinstance(v, int):
        return -v
    if isinstance(e, ast.Call):
      return self.call(e, env)
    raise PyUnsupported(f"expression {ast.unparse(e)[:60]}")

  def call(self, e, env):
    if e.keywords:
      raise PyUnsupported("keyword call")
    if isinstance(e.func, ast.Attribute) and e.func.attr in ("items", "values", "keys") and not e.args:
      v = self.expr(e.func.value, env)
      if isinstance(v, PDict):
        if e.func.attr == "items":
          return [(k, x) for k, x in v.d.items()]
        return list(v.d.values()) if e.func.attr == "values" else list(v.d.keys())
      raise PyUnsupported(f".{e.func.attr}() of {v!r}")
    f = self.expr(e.func, env)
    args = [self.expr(a, env) for a in e.args]
    if isinstance(f, LocalFunc):
      params = [a.arg for a in f.node.args.args]
      env2 = dict(f.env)
      env2.update(zip(params, args))
      try:
        for s in f.node.body:
          self.stmt(s, env2)
      except _Return as r:
        return r.v
      return None
    if isinstance(f, tuple) and len(f) == 2 and isinstance(f[0], str) and f[0] == "builtin":
      nm = f[1]
      if nm == "hasattr":
        v, attr = args
        if isinstance(v, PV):
          return v.kind == "sized" and attr == "size"
        return False
      if nm == "isinstance":
        v, t = args
        ts = t if isinstance(t, tuple) and t and t[0] != "builtin" else (t,)
        res = False
        for tt in ts:
          if not (isinstance(tt, tuple) and tt[0] == "builtin"):
            raise PyUnsupported("isinstance against a non-builtin type")
          k = tt[1]
          if isinstance(v, PV):
            if k in ("list", "tuple", "str"):
              res = res or v.kind == k
            elif k in ("int", "bool"):
              if v.kind == "num":
                raise PyUnsupported("isinstance(x, int/bool) on a number whose boolness is symbolic")
            else:
              raise PyUnsupported(f"isinstance(.., {k})")
        return res
      if nm == "hash":
        (v,) = args
        if isinstance(v, str):
          return self.hm.hash(pv_str(self.strid(v)))
        if isinstance(v, tuple) and len(v) == 2 and isinstance(v[0], str) and v[0] == "gen":
          raise PyUnsupported("hash of a generator")
        return self.hm.hash(v)
      if nm == "tuple":
        (v,) = args
        if isinstance(v, tuple) and len(v) == 2 and isinstance(v[0], str) and v[0] == "gen":
          return tuple(v[1])
        if isinstance(v, PV) and v.kind in ("list", "tuple"):
          return pv_tuple(v.elems)
        if isinstance(v, (list, tuple)):
          return tuple(v)
      if nm == "sorted":
        (v,) = args
        if isinstance(v, tuple) and len(v) == 2 and isinstance(v[0], str) and v[0] == "gen":
          v = v[1]
        if isinstance(v, PDict):
          v = list(v.d.keys())
        if isinstance(v, (list, tuple)) and all(isinstance(x, str) or (isinstance(x, tuple) and x and isinstance(x[0], str)) for x in v):
          ks = [x if isinstance(x, str) else x[0] for x in v]
          if len(set(ks)) == len(ks):
            return sorted(v, key=lambda x: x if isinstance(x, str) else x[0])
        raise PyUnsupported("sorted() of values whose order is symbolic")
      if nm == "len":
        (v,) = args
        if isinstance(v, PDict):
          return len(v.d)
        if isinstance(v, PV) and v.kind in ("list", "tuple"):
          return len(v.elems)
        if isinstance(v, (list, tuple)):
          return len(v)
      raise PyUnsupported(f"builtin {nm}({', '.join(repr(a) for a in args)})")
    raise PyUnsupported(f"call of {f!r}")


def keys_equal(k1, k2):
  """structural equality of two keys (what the dict lookup decides)"""
  if isinstance(k1, tuple) or isinstance(k2, tuple):
    if not (isinstance(k1, tuple) and isinstance(k2, tuple)) or len(k1) != len(k2):
      return z3.BoolVal(False)
    return z3.And(*[keys_equal(a, b) for a, b in zip(k1, k2)]) if k1 else z3.BoolVal(True)
  if isinstance(k1, str) or isinstance(k2, str):
    return z3.BoolVal(isinstance(k1, str) and isinstance(k2, str) and k1 == k2)
  return k1 == k2


def key_concrete(model, key, ev):
  if isinstance(key, tuple):
    return tuple(key_concrete(model, c, ev) for c in key)
  if isinstance(key, str):
    return key
  return ev(model, key)


# --------------------------------------------------------------------------------------------- builder inventory (AST)


def scan_builders(src_dir):
  """every def decorated with @cache_kernel under src_dir (any nesting): name, module, params, defaults, how each
  parameter is read inside the builder (attribute names, or 'bare' = the object itself reaches the kernel)."""
  import glob
  import os

  out = []
  for f in sorted(glob.glob(os.path.join(src_dir, "*.py"))):
    if f.endswith("_test.py"):
      continue
    tree = ast.parse(open(f).read())
    for n in ast.walk(tree):
      if not isinstance(n, ast.FunctionDef):
        continue
      if not any((isinstance(d, ast.Name) and d.id == "cache_kernel") or (isinstance(d, ast.Attribute) and d.attr == "cache_kernel") for d in n.decorator_list):
        continue
      params = [a.arg for a in n.args.args]
      ann = [ast.unparse(a.annotation) if a.annotation is not None else None for a in n.args.args]
      if n.args.vararg or n.args.kwonlyargs or n.args.kwarg:
        raise PyUnsupported(f"builder {n.name} has *args/**kwargs/kw-only parameters")
      reads = {p: set() for p in params}
      parent = {}
      for x in ast.walk(n):
        for c in ast.iter_child_nodes(x):
          parent[c] = x
      for x in ast.walk(n):
        if isinstance(x, ast.Name) and x.id in reads and isinstance(x.ctx, ast.Load):
          p = parent.get(x)
          if isinstance(p, ast.Attribute) and p.value is x:
            reads[x.id].add(p.attr)
          else:
            reads[x.id].add("<bare>")
      defaults = [ast.literal_eval(d) for d in n.args.defaults]
      out.append({"name": n.name, "module": os.path.basename(f)[:-3], "lineno": n.lineno, "params": params, "ann": ann, "defaults": defaults, "reads": {k: sorted(v) for k, v in reads.items()}})
  return out


def scan_callsites(src_dir, names):
  """every call of a @cache_kernel builder in the sources: name -> set of (number of positional args, keyword names in call order)"""
  import glob
  import os

  out = {n: set() for n in names}
  for f in sorted(glob.glob(os.path.join(src_dir, "*.py"))):
    if f.endswith("_test.py"):
      continue
    tree = ast.parse(open(f).read())
    for n in ast.walk(tree):
      if not isinstance(n, ast.Call):
        continue
      nm = n.func.id if isinstance(n.func, ast.Name) else (n.func.attr if isinstance(n.func, ast.Attribute) else None)
      if nm not in out:
        continue
      if any(isinstance(a, ast.Starred) for a in n.args) or any(k.arg is None for k in n.keywords):
        raise PyUnsupported(f"{os.path.basename(f)}:{n.lineno}: builder {nm} called with *args / **kwargs unpacking")
      out[nm].add((len(n.args), tuple(k.arg for k in n.keywords)))
  return out
