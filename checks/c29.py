"""C29 Sleeping follows MuJoCo's sleep semantics (H / K mode, inductive step on the representation invariant).

Representation invariant Inv(tree_asleep): every entry is either an awake countdown in [-(1+mjMINAWAKE), -1] or the index of a
sleeping tree, and `next` is injective on sleeping trees (= disjoint cycles).

sleep      the REAL sleep.sleep (_sweep_awake_trees, _check_island_can_sleep, _build_cycles): an awake tree's countdown advances by
           one towards -1 while it may sleep (policy, no applied force, velocity below tolerance) and is reset to -(1+mjMINAWAKE)
           otherwise; a tree falls asleep iff it is at -1 and every tree of its island is at -1 (or it has no island); qvel/qacc of
           the trees put to sleep are zeroed, everything else is untouched; one cycle per island; Inv is re-established.
wake_*     the REAL sleep.wake / wake_collision / wake_tendon / wake_equality: exactly the trees in the cycle of a triggered tree
           wake up (trigger = applied force / velocity / policy; contact with an awake tree; active tendon limit or equality to an
           awake tree; equality between two different sleeping cycles), awake trees are untouched, Inv is re-established.
update     sleep.update_sleep: tree_awake / body_awake / index lists are the decoding of tree_asleep.
frozen     _qfrc_smooth, _next_velocity, _next_position leave a sleeping tree's qvel = 0 and qpos unchanged.
order      two threads of _wake_collision_kernel in both orders (suspected order dependence of the countdown values).
The reference rules are validated against mujoco 3.13 (crafted sleep states, mj_forward / mj_step).
"""

import dataclasses
import json
import os
import subprocess
import sys

import numpy as np
import warp as wp
import z3

from checks import c28
from checks.c28 import View, conc, count, iff, inrange, nest, sel
from wsym import core, host, kh, report
from wsym.core import And, Implies, Not, Or, arith, cmp, is_sym, ite, vabs

PID = "C29"
MINAWAKE = 10
K_AWAKE = -(1 + MINAWAKE)
import mujoco as _mj

POLICY_NEVER = int(_mj.mjtSleepPolicy.mjSLEEP_AUTO_NEVER)
EQ_CONNECT, EQ_WELD, EQ_JOINT, EQ_TENDON = (int(getattr(_mj.mjtEq, "mjEQ_" + x)) for x in ("CONNECT", "WELD", "JOINT", "TENDON"))
OBJ_BODY, OBJ_SITE = int(_mj.mjtObj.mjOBJ_BODY), int(_mj.mjtObj.mjOBJ_SITE)
WRAP_JOINT, WRAP_PULLEY, WRAP_SITE, WRAP_SPHERE, WRAP_CYLINDER = (int(getattr(_mj.mjtWrap, "mjWRAP_" + x)) for x in ("JOINT", "PULLEY", "SITE", "SPHERE", "CYLINDER"))

XML = """<mujoco>
 <option><flag sleep="enable"/></option>
 <worldbody>
  <geom name="floor" type="plane" size="5 5 .1"/>
  <site name="s0"/>
  <body name="mc" pos="0 2 1" mocap="true"><geom name="gm" size=".05" contype="0" conaffinity="0"/></body>
  <body name="a" pos="0 0 1"><joint name="a0" type="slide"/><geom name="ga" size=".1"/><site name="sa"/>
     <body name="a2" pos=".3 0 0"><joint name="a1" type="hinge"/><geom name="ga2" size=".1" pos=".1 0 0"/></body></body>
  <body name="b" pos="1 0 1"><joint name="b0" type="slide"/><geom name="gb" size=".1"/><site name="sb"/></body>
  <body name="c" pos="2 0 1"><joint name="c0" type="slide"/><geom name="gc" size=".1"/><site name="sc"/></body>{extra_body}
 </worldbody>
 <tendon>{tendons}</tendon>
 <equality>
  <connect body1="a" body2="b" anchor="0 0 0"/><weld site1="sa" site2="sc"/>{more_eq}
 </equality>
</mujoco>"""
TENDONS = {
  # three trees on one tendon, a two-joint tendon, a single-tree tendon
  "full": '<spatial name="sp" limited="true" range="0 5"><site site="sa"/><site site="sb"/><site site="sc"/></spatial><fixed name="fx" limited="true" range="-1 1"><joint joint="b0" coef="1"/><joint joint="c0" coef="-1"/></fixed><fixed name="fa"><joint joint="a0" coef="1"/></fixed>',
  # equality stage: two tendons with two wraps each (objects -> trees symbolic there)
  "two": '<spatial name="sp" limited="true" range="0 5"><site site="sa"/><site site="sb"/></spatial><fixed name="fx" limited="true" range="-1 1"><joint joint="b0" coef="1"/><joint joint="c0" coef="-1"/></fixed>',
}
MORE_EQ = '<joint joint1="b0" joint2="c0"/><tendon tendon1="sp" tendon2="fx"/><joint joint1="a0"/>'


EXTRA_BODY = '<body name="e" pos="3 0 1"><joint name="e0" type="slide"/><geom name="ge" size=".1"/><site name="se"/></body>'


def build(neq=2, tendons="full", ntree=3):
  """neq: 2 (the equalities' type / ids are symbolic in the equality stage anyway) or 5"""
  import mujoco

  import mujoco_warp as mjw

  mjm = mujoco.MjModel.from_xml_string(XML.replace("{more_eq}", MORE_EQ if neq > 2 else "").replace("{tendons}", TENDONS[tendons]).replace("{extra_body}", EXTRA_BODY if ntree == 4 else ""))
  m = mjw.put_model(mjm)
  d = mjw.make_data(mjm, nworld=1, nconmax=2, njmax=8)
  return mjm, m, d


# ------------------------------------------------------------------------------------------------ reference model


def awake_val(x):
  return inrange(x, K_AWAKE, 0)


def inv(ta):
  """disjoint cycles over sleeping trees, countdowns in range"""
  n = len(ta)
  parts = []
  for t in range(n):
    parts.append(Or(awake_val(ta[t]), And(inrange(ta[t], 0, n), cmp(">=", sel(ta, ta[t]), 0))))
    for s in range(t):
      parts.append(Not(And(cmp(">=", ta[s], 0), cmp(">=", ta[t], 0), cmp("==", ta[s], ta[t]))))
  return And(*parts)


def same_cycle(ta, s, t):
  """s and t (concrete indices) are asleep and in one cycle (under Inv)"""
  n = len(ta)
  if s == t:
    return cmp(">=", ta[s], 0)
  cur, hits = s, []
  for _ in range(n - 1):
    cur = ta[s] if cur is s else sel(ta, cur)
    hits.append(cmp("==", cur, t))
  return And(cmp(">=", ta[s], 0), cmp(">=", ta[t], 0), Or(*hits))


def can_sleep(S, t, tol):
  """mj sleep criterion of tree t with velocity tolerance tol"""
  ok = [cmp("!=", S.tree_sleep_policy[t], POLICY_NEVER)]
  for b in range(S.nbody):
    if S.body_treeid[b] == t:
      ok += [cmp("==", x, 0.0) for x in S.xfrc_applied[b]]
  for j in range(S.tree_dofadr[t], S.tree_dofadr[t] + S.tree_dofnum[t]):
    ok.append(cmp("==", S.qfrc_applied[j], 0.0))
    v = S.qvel[j]
    ok.append(ite(cmp(">", tol, 0.0), cmp("<", vabs(arith("*", S.dof_length[j], v)), tol), cmp("==", v, 0.0)))
  return And(*ok)


def spec_sleep(S):
  n = S.ntree
  ta0, ta1 = S.tree_asleep0, S.tree_asleep1
  cs = [can_sleep(S, t, S.tol) for t in range(n)]
  swept = [ite(cmp(">=", ta0[t], 0), ta0[t], ite(cs[t], ite(cmp("<", ta0[t], -1), arith("+", ta0[t], 1), ta0[t]), K_AWAKE)) for t in range(n)]
  isl = [ite(inrange(S.tree_island[t], 0, S.nisland), S.tree_island[t], -1) for t in range(n)]
  ready = [cmp(">=", swept[t], -1) for t in range(n)]  # at -1 or already asleep
  sleeps = []
  for t in range(n):
    mates = And(*[Implies(cmp("==", isl[u], isl[t]), ready[u]) for u in range(n)])
    sleeps.append(And(cmp("==", swept[t], -1), Or(cmp("<", isl[t], 0), mates)))
  Q = {}
  for t in range(n):
    was_awake = cmp("<", ta0[t], 0)
    Q[f"falls-asleep-iff/tree{t}"] = (iff(cmp(">=", ta1[t], 0), sleeps[t]), was_awake, f"tree {t} falls asleep although it or a tree of its island is not at -1 / allowed to sleep, or stays awake although all are")
    Q[f"countdown/tree{t}"] = (cmp("==", ta1[t], swept[t]), And(was_awake, Not(sleeps[t])), f"countdown of awake tree {t} does not advance by one towards -1 while it may sleep / is not reset to -(1+mjMINAWAKE) otherwise")
    Q[f"stays-asleep/tree{t}"] = (cmp(">=", ta1[t], 0), Not(was_awake), f"sleeping tree {t} is woken by sleep()")
    for u in range(t + 1, n):
      together = And(sleeps[t], sleeps[u], cmp(">=", isl[t], 0), cmp("==", isl[t], isl[u]))
      Q[f"one-cycle-per-island/{t}-{u}"] = (same_cycle(ta1, t, u), together, f"trees {t} and {u} fall asleep in the same island but end up in different cycles")
      Q[f"separate-islands-separate-cycles/{t}-{u}"] = (Not(same_cycle(ta1, t, u)), And(sleeps[t], cmp(">=", ta1[u], 0), Or(cmp("<", isl[t], 0), cmp("!=", isl[t], isl[u]))), f"tree {t} falls asleep into the cycle of tree {u} of another island")
  Q["invariant"] = (inv(ta1), True, "tree_asleep is no longer a set of disjoint cycles / countdowns after sleep()")
  for t in range(n):
    for j in range(S.tree_dofadr[t], S.tree_dofadr[t] + S.tree_dofnum[t]):
      Q[f"zeroed/dof{j}"] = (And(cmp("==", S.qvel1[j], 0.0), cmp("==", S.qacc1[j], 0.0)), And(cmp("<", ta0[t], 0), sleeps[t]), f"qvel/qacc of dof {j} are not zeroed when its tree falls asleep")
      Q[f"awake-untouched/dof{j}"] = (And(cmp("==", S.qvel1[j], S.qvel[j]), cmp("==", S.qacc1[j], S.qacc0[j])), cmp("<", ta1[t], 0), f"qvel/qacc of dof {j} of a tree that stays awake are modified by sleep()")
  return Q, dict(can_sleep=cs, swept=swept, sleeps=sleeps, isl=isl)


# ---- wake stages: trigger sets


def trees_of_tendon(S, ten):
  """list of (present, tree) for the wraps of tendon ten (concrete tendon tables, symbolic object->body->tree maps)"""
  out = []
  for i in range(S.tendon_adr[ten], S.tendon_adr[ten] + S.tendon_num[ten]):
    ty, ob = S.wrap_type[i], S.wrap_objid[i]
    if ty == WRAP_JOINT:
      out.append(sel(S.body_treeid, S.jnt_bodyid[ob]))
    elif ty == WRAP_SITE:
      out.append(sel(S.body_treeid, S.site_bodyid[ob]))
    elif ty in (WRAP_SPHERE, WRAP_CYLINDER):
      out.append(sel(S.body_treeid, S.geom_bodyid[ob]))
  return out


def triggers_wake(S):
  ta = S.tree_asleep0
  return [And(cmp(">=", ta[t], 0), Or(cmp("==", S.tree_awake[t], 1), Not(can_sleep(S, t, 0.0)))) for t in range(S.ntree)]


def triggers_collision(S):
  n = S.ntree
  trig = [[] for _ in range(n)]
  for c in range(S.naconmax):
    g1, g2 = S.contact_geom[c]
    live = And(cmp("<", c, S.nacon), cmp(">=", g1, 0), cmp(">=", g2, 0))
    t1, t2 = sel(S.body_treeid, sel(S.geom_bodyid, g1)), sel(S.body_treeid, sel(S.geom_bodyid, g2))
    both = And(live, cmp(">=", t1, 0), cmp(">=", t2, 0))
    a1, a2 = cmp("==", sel(S.tree_awake, t1), 1), cmp("==", sel(S.tree_awake, t2), 1)
    for t in range(n):
      trig[t].append(And(both, cmp("==", t1, t), Not(a1), a2))
      trig[t].append(And(both, cmp("==", t2, t), Not(a2), a1))
  return [Or(*x) for x in trig]


def limit_active(S, ten):
  lo, hi = S.tendon_range[ten]
  L, mg = S.ten_length[ten], S.tendon_margin[ten]
  return And(cmp("!=", S.tendon_limited[ten], 0), Or(cmp("<", arith("-", L, lo), mg), cmp("<", arith("-", hi, L), mg)))


def triggers_tendon(S):
  n = S.ntree
  trig = [[] for _ in range(n)]
  for ten in range(S.ntendon):
    trees = trees_of_tendon(S, ten)
    anyawake = Or(*[And(cmp(">=", tr, 0), cmp("==", sel(S.tree_awake, tr), 1)) for tr in trees])
    for t in range(n):
      trig[t].append(And(limit_active(S, ten), anyawake, Or(*[cmp("==", tr, t) for tr in trees]), cmp("==", S.tree_awake[t], 0)))
  return [Or(*x) for x in trig]


def triggers_equality(S):
  n = S.ntree
  ta = S.tree_asleep0
  trig = [[] for _ in range(n)]
  for e in range(S.neq):
    act = S.eq_active[e] if not is_sym(S.eq_active[e]) else S.eq_active[e]
    ty, o1, o2 = S.eq_type[e], S.eq_obj1id[e], S.eq_obj2id[e]
    pair = Or(cmp("==", ty, EQ_CONNECT), cmp("==", ty, EQ_WELD))
    bysite = cmp("!=", S.eq_objtype[e], OBJ_BODY)
    b1 = ite(bysite, sel(S.site_bodyid, o1), o1)
    b2 = ite(bysite, sel(S.site_bodyid, o2), o2)
    isj = cmp("==", ty, EQ_JOINT)
    t1 = ite(pair, sel(S.body_treeid, b1), ite(cmp(">=", o1, 0), sel(S.body_treeid, sel(S.jnt_bodyid, o1)), -1))
    t2 = ite(pair, sel(S.body_treeid, b2), ite(cmp(">=", o2, 0), sel(S.body_treeid, sel(S.jnt_bodyid, o2)), -1))
    two = And(act, Or(pair, isj), cmp(">=", t1, 0), cmp(">=", t2, 0), cmp("!=", t1, t2))
    a1, a2 = cmp("==", sel(S.tree_awake, t1), 1), cmp("==", sel(S.tree_awake, t2), 1)
    for t in range(n):
      for x, ax, y, ay in ((t1, a1, t2, a2), (t2, a2, t1, a1)):
        # x == t asleep; y awake, or y asleep in another cycle
        other_cycle = Not(Or(*[And(cmp("==", y, u), same_cycle(ta, t, u)) for u in range(n)]))
        trig[t].append(And(two, cmp("==", x, t), Not(ax), Or(ay, other_cycle)))
    iste = cmp("==", ty, EQ_TENDON)
    for tens in [(a, b) for a in range(S.ntendon) for b in list(range(S.ntendon)) + [-1]]:
      hit = And(act, iste, cmp("==", o1, tens[0]), cmp("==", o2, tens[1]))
      trees = trees_of_tendon(S, tens[0]) + (trees_of_tendon(S, tens[1]) if tens[1] >= 0 else [])
      anyawake = Or(*[And(cmp(">=", tr, 0), cmp("==", sel(S.tree_awake, tr), 1)) for tr in trees])
      for t in range(n):
        trig[t].append(And(hit, anyawake, Or(*[cmp("==", tr, t) for tr in trees]), cmp("==", S.tree_awake[t], 0)))
  return [Or(*x) for x in trig]


def spec_wake(S, trig, full_reset):
  """generic wake stage: exactly the cycles of triggered trees wake; awake trees untouched; Inv re-established"""
  n = S.ntree
  ta0, ta1 = S.tree_asleep0, S.tree_asleep1
  Q = {}
  for t in range(n):
    woken = Or(*[And(trig[s], same_cycle(ta0, s, t)) for s in range(n)])
    asleep0 = cmp(">=", ta0[t], 0)
    Q[f"wakes-iff-cycle-triggered/tree{t}"] = (iff(cmp("<", ta1[t], 0), woken), asleep0, f"sleeping tree {t} wakes although no tree of its cycle is triggered, or stays asleep although one is")
    Q[f"still-asleep-unchanged/tree{t}"] = (cmp("==", ta1[t], ta0[t]), And(asleep0, Not(woken)), f"the cycle link of tree {t}, which stays asleep, is modified")
    Q[f"woken-countdown/tree{t}"] = (cmp("==", ta1[t], K_AWAKE) if full_reset else awake_val(ta1[t]), And(asleep0, woken), f"woken tree {t} does not get " + ("the full countdown -(1+mjMINAWAKE)" if full_reset else "a countdown in [-(1+mjMINAWAKE), -1]"))
    Q[f"awake-untouched/tree{t}"] = (cmp("==", ta1[t], ta0[t]), Not(asleep0), f"awake tree {t} is modified by the wake stage")
  Q["invariant"] = (inv(ta1), True, "tree_asleep is no longer a set of disjoint cycles / countdowns after the wake stage")
  return Q


# ------------------------------------------------------------------------------------------------ H-mode plumbing


MODEL_INT = ["body_treeid", "geom_bodyid", "site_bodyid", "jnt_bodyid", "dof_bodyid", "body_rootid", "body_mocapid", "body_parentid", "tree_dofadr", "tree_dofnum", "tree_sleep_policy", "eq_type", "eq_obj1id", "eq_obj2id", "eq_objtype", "tendon_adr", "tendon_num", "tendon_limited", "wrap_type", "wrap_objid"]


def base_view(S, m, d, rd):
  S.ntree, S.nbody, S.nv, S.neq, S.ntendon, S.ngeom, S.nsite, S.njnt = int(m.ntree), int(m.nbody), int(m.nv), int(m.neq), int(m.ntendon), int(m.ngeom), int(m.nsite), int(m.njnt)
  S.naconmax = int(d.naconmax)
  for n in MODEL_INT:
    setattr(S, n, rd(getattr(m, n)))
  S.dof_length = rd(m.dof_length)
  S.tendon_range = [tuple(x) for x in nest(rd(m.tendon_range, 2), (S.ntendon, 2))] if S.ntendon else []
  S.tendon_margin = rd(m.tendon_margin)
  return S


def reader(arr, ncomp=1):
  """flat list of the current contents (z3 terms or python numbers); vector dtypes interleaved per element"""
  if isinstance(arr, host.SymArr):
    c = arr.ref.cell
    if c.ncomp == 1:
      return list(c.d[0])
    return [c.d[k][i] for i in range(c.size) for k in range(c.ncomp)]
  a = np.asarray(arr.numpy())
  return [x.item() for x in a.reshape(-1)]


def data_pre(S, d, rd):
  S.tree_asleep0 = rd(d.tree_asleep)
  S.tree_awake = rd(d.tree_awake)
  S.qvel, S.qacc0, S.qfrc_applied = rd(d.qvel), rd(d.qacc), rd(d.qfrc_applied)
  S.xfrc_applied = nest(rd(d.xfrc_applied), (S.nbody, 6))
  S.tree_island, S.nisland = rd(d.tree_island), rd(d.nisland)[0]
  S.nacon = rd(d.nacon)[0]
  cg = rd(d.contact.geom)
  S.contact_geom = [(cg[2 * i], cg[2 * i + 1]) for i in range(S.naconmax)]
  S.contact_worldid = rd(d.contact.worldid)
  S.ten_length = rd(d.ten_length)
  S.eq_active = rd(d.eq_active)


def state_pre(S, stage):
  P = [("tree_asleep satisfies the representation invariant (disjoint cycles over sleeping trees, countdowns in [-(1+mjMINAWAKE), -1])", inv(S.tree_asleep0))]
  P.append(("sleep policy is AUTO_NEVER or AUTO_ALLOWED (put_model rejects the user policies; AUTO is resolved by the compiler)", And(*[inrange(x, 1, 3) for x in S.tree_sleep_policy])))
  if stage in ("sleep", "wake") and any(is_sym(x) for x in S.dof_length):
    P.append(("dof_length > 0 (symbolic per dof: the velocity weight of dof j must be dof j's own)", And(*[cmp(">", x, 0.0) for x in S.dof_length])))
  if stage == "sleep":
    P.append(("sleep tolerance >= 0", cmp(">=", S.tol, 0.0)))
    P.append(("0 <= nisland <= ntree", inrange(S.nisland, 0, S.ntree + 1)))
    if not getattr(S, "asleep_rows", False):
      P.append(("trees that are asleep have no island (MuJoCo builds no constraint rows for sleeping trees)", And(*[Implies(cmp(">=", S.tree_asleep0[t], 0), Not(inrange(S.tree_island[t], 0, S.nisland))) for t in range(S.ntree)])))
  else:
    P.append(("tree_awake in {0, 1}", And(*[Or(cmp("==", x, 0), cmp("==", x, 1)) for x in S.tree_awake])))
  if stage in ("collision", "tendon", "equality", "order"):
    P.append(("tree_awake is the decoding of tree_asleep (update_sleep ran after the previous wake stage)", And(*[iff(cmp("==", S.tree_awake[t], 1), cmp("<", S.tree_asleep0[t], 0)) for t in range(S.ntree)])))
    P.append(("object -> body -> tree maps in range, world body static", And(cmp("==", S.body_treeid[0], -1), *[inrange(x, -1, S.ntree) for x in S.body_treeid], *[inrange(x, 0, S.nbody) for x in S.geom_bodyid + S.site_bodyid + S.jnt_bodyid])))
  if stage in ("collision", "order"):
    P.append(("0 <= nacon <= naconmax, listed contacts carry geoms < ngeom (negative = flex) and world 0", And(inrange(S.nacon, 0, S.naconmax + 1), *[Implies(cmp("<", c, S.nacon), And(cmp("<", S.contact_geom[c][0], S.ngeom), cmp("<", S.contact_geom[c][1], S.ngeom), cmp("==", S.contact_worldid[c], 0))) for c in range(S.naconmax)])))
  if stage == "equality":
    eqs = []
    for e in range(S.neq):
      ty = S.eq_type[e]
      pair = Or(cmp("==", ty, EQ_CONNECT), cmp("==", ty, EQ_WELD))
      body = And(cmp("==", S.eq_objtype[e], OBJ_BODY), inrange(S.eq_obj1id[e], 0, S.nbody), inrange(S.eq_obj2id[e], 0, S.nbody))
      site = And(cmp("==", S.eq_objtype[e], OBJ_SITE), inrange(S.eq_obj1id[e], 0, S.nsite), inrange(S.eq_obj2id[e], 0, S.nsite))
      eqs.append(And(inrange(ty, 0, 4), Implies(pair, Or(body, site)), Implies(cmp("==", ty, EQ_JOINT), And(inrange(S.eq_obj1id[e], 0, S.njnt), inrange(S.eq_obj2id[e], -1, S.njnt))), Implies(cmp("==", ty, EQ_TENDON), And(inrange(S.eq_obj1id[e], 0, S.ntendon), inrange(S.eq_obj2id[e], -1, S.ntendon)))))
    P.append(("equalities are connect / weld (two bodies or two sites), joint (second joint optional) or tendon (second tendon optional) with ids in range", And(*eqs)))
  return P


def sym_model(m, names):
  return host.shim_dataclass(m, "m.", symbolic=lambda n: n in {"m." + x for x in names})


def obligations(ctx, sess, hr, names, rp, tag=""):
  groups = {}
  for key, tid, o in hr.obl:
    groups.setdefault((o.kind, key), []).append(Implies(o.guard, o.strict if o.kind == "bounds" else o.cond))
  for (kind, key), obs in sorted(groups.items()):
    qn = f"{tag}{kind}/{key}"
    ctx.prove(sess, qn, And(*obs), True, names=names, replay=rp(qn), desc=f"a thread of {key} " + ("indexes an array out of range" if kind == "bounds" else "loops beyond the derived bound"))


STAGE_SYM_MODEL = {
  "sleep": ["tree_sleep_policy", "dof_length"],
  "wake": ["tree_sleep_policy", "dof_length"],
  "collision": ["body_treeid", "geom_bodyid"],
  "order": ["body_treeid", "geom_bodyid"],
  "tendon": ["body_treeid", "site_bodyid", "jnt_bodyid", "geom_bodyid", "tendon_limited"],
  "equality": ["body_treeid", "site_bodyid", "jnt_bodyid", "geom_bodyid", "eq_type", "eq_obj1id", "eq_obj2id", "eq_objtype"],
}
STAGE_SYM_DATA = {
  "sleep": ["tree_asleep", "qvel", "qacc", "qfrc_applied", "xfrc_applied", "tree_island", "nisland"],
  "wake": ["tree_asleep", "tree_awake", "qvel", "qfrc_applied", "xfrc_applied"],
  "collision": ["tree_asleep", "tree_awake", "nacon", "contact.geom", "contact.worldid"],
  "order": ["tree_asleep", "tree_awake", "nacon", "contact.geom", "contact.worldid"],
  "tendon": ["tree_asleep", "tree_awake", "ten_length"],
  "equality": ["tree_asleep", "tree_awake", "eq_active"],
}


def run_stage(stage, m, d, S, rd, swap=False):
  """the real host function of the stage; fills the view"""
  from mujoco_warp._src import sleep

  base_view(S, m, d, rd)
  data_pre(S, d, rd)
  if stage == "sleep":
    S.tol = rd(m.opt.sleep_tolerance)[0]
    sleep.sleep(m, d)
    S.qvel1, S.qacc1 = rd(d.qvel), rd(d.qacc)
  elif stage == "wake":
    sleep.wake(m, d)
  elif stage in ("collision", "order"):
    sleep.wake_collision(m, d)
  elif stage == "tendon":
    sleep.wake_tendon(m, d)
  elif stage == "equality":
    sleep.wake_equality(m, d)
  S.tree_asleep1 = rd(d.tree_asleep)
  return S


def stage_spec(stage, S):
  if stage == "sleep":
    return spec_sleep(S)[0]
  if stage == "wake":
    return spec_wake(S, triggers_wake(S), True)
  if stage == "collision":
    return spec_wake(S, triggers_collision(S), False)
  if stage == "tendon":
    return spec_wake(S, triggers_tendon(S), False)
  if stage == "equality":
    return spec_wake(S, triggers_equality(S), False)
  raise KeyError(stage)


def set_eq_types(m, eqt):
  if eqt is not None:
    m.eq_type.assign(np.array(eqt, dtype=np.int32))


def symbolic_stage(ctx, stage, eqt=None, ntree=3):
  c28.engine_workaround()
  mjm, m, d = build(tendons="two" if stage == "equality" else "full", ntree=ntree)
  set_eq_types(m, eqt)
  m2 = sym_model(m, [x for x in STAGE_SYM_MODEL[stage] if not (eqt is not None and x == "eq_type")])
  if stage == "sleep":
    m2 = dataclasses.replace(m2, opt=host.shim_dataclass(m.opt, "m.opt.", symbolic=lambda n: n == "m.opt.sleep_tolerance"))
  dsym = {"d." + x for x in STAGE_SYM_DATA[stage]}
  d2 = host.shim_dataclass(d, "d.", symbolic=lambda n: n in dsym)
  nt = int(m.ntree)
  ctx.bound(nworld=1, ntree=nt, nv=int(m.nv), nbody=int(m.nbody), naconmax=int(d.naconmax), neq=int(m.neq), ntendon=int(m.ntendon), unroll=nt + 2, note="cycle walks <= ntree + 1 steps (concrete loops); dofs per tree concrete")
  S = View()
  with host.HostRun(mode="exec", unroll=nt + 2) as hr:
    run_stage(stage, m2, d2, S, reader)
  for e in hr.events:
    if e.kind == "launch":
      ctx.encode(e.kernel)
  return mjm, m, d, m2, d2, S, hr


def stage_arrays(model, m2, d2, stage):
  """concrete values of the symbolic inputs under a z3 model"""
  out = {}
  for owner, obj, namesl in (("m.", m2, STAGE_SYM_MODEL[stage]), ("d.", d2, STAGE_SYM_DATA[stage])):
    arrs = host.arrays_of(obj)
    for n in namesl:
      if n not in arrs:
        continue
      c = arrs[n].ref.cell
      if c.size:
        vals = [[kh.mval(model, x) for x in c.d0[k]] for k in range(c.ncomp)]
        flat = [float(vals[k][i]) for i in range(c.size) for k in range(c.ncomp)]
        out[owner + n] = flat
  if stage == "sleep":
    c = host.arrays_of(m2.opt)["sleep_tolerance"].ref.cell
    out["m.opt.sleep_tolerance"] = [float(kh.mval(model, c.d0[0][0]))]
  return out


def unit_stage(stage, eqt=None, ntree=3):
  def run(ctx):
    from mujoco_warp._src import sleep

    mjm, m, d, m2, d2, S, hr = symbolic_stage(ctx, stage, eqt, ntree)
    ctx.encode(getattr(sleep, {"sleep": "sleep", "wake": "wake", "collision": "wake_collision", "tendon": "wake_tendon", "equality": "wake_equality"}[stage]))
    pre = []
    for text, f in state_pre(S, stage):
      ctx.assume(text)
      pre.append(core.zbool(f))
    pre += [core.zbool(a) for a in hr.assumes]
    sess = ctx.session(pre)
    n = S.ntree
    names = {f"asleep{t}": S.tree_asleep0[t] for t in range(n)}
    names.update({f"awake{t}": S.tree_awake[t] for t in range(n) if is_sym(S.tree_awake[t])})
    if stage == "sleep":
      names.update({f"island{t}": S.tree_island[t] for t in range(n)})
      names["nisland"] = S.nisland
    rp = lambda qn: (lambda model: write_and_run(ctx, qn, {"kind": "stage", "stage": stage, "eqt": eqt, "ntree": ntree, "arrays": stage_arrays(model, m2, d2, stage)}))
    ctx.reach(sess, "twin:pre-state", True)
    ctx.reach(sess, "twin:two-cycle-and-awake-tree", And(cmp("==", S.tree_asleep0[0], 1), cmp("==", S.tree_asleep0[1], 0), cmp("==", S.tree_asleep0[2], -3)))
    if stage == "sleep":
      ref = spec_sleep(S)[1]
      ctx.reach(sess, "twin:island-of-two-falls-asleep", And(ref["sleeps"][0], ref["sleeps"][1], cmp("==", ref["isl"][0], ref["isl"][1]), cmp(">=", ref["isl"][0], 0), Not(ref["sleeps"][2])))
      ctx.reach(sess, "twin:island-held-awake-by-mate", And(cmp("==", ref["swept"][0], -1), Not(ref["sleeps"][0])))
    else:
      trig = {"wake": triggers_wake, "collision": triggers_collision, "tendon": triggers_tendon, "equality": triggers_equality}[stage](S)
      ctx.reach(sess, "twin:trigger-wakes-cycle-mate", And(trig[0], Not(trig[1]), same_cycle(S.tree_asleep0, 0, 1)))
      ctx.reach(sess, "twin:no-trigger", And(cmp(">=", S.tree_asleep0[0], 0), Not(Or(*trig))))
    for qn, (goal, guard, what) in stage_spec(stage, S).items():
      ctx.prove(sess, qn, goal, guard, names=names, replay=rp(qn), desc=f"{stage}: {what}")
    obligations(ctx, sess, hr, names, rp)

  return (f"stage/{stage}" + ("" if eqt is None else "/types" + "".join(str(x) for x in eqt)) + ("" if ntree == 3 else f"/ntree{ntree}"), run)


def unit_sleep_asleep_rows(ctx):
  """sleep() when a sleeping tree still owns constraint rows (mujoco_warp builds friction / limit / equality rows for
  sleeping trees, contacts between two sleeping bodies are filtered): its island need not contain its cycle mates"""
  from mujoco_warp._src import sleep

  stage = "sleep"
  mjm, m, d, m2, d2, S, hr = symbolic_stage(ctx, stage)
  ctx.encode(sleep.sleep)
  S.asleep_rows = True
  pre = []
  for text, f in state_pre(S, stage):
    ctx.assume(text)
    pre.append(core.zbool(f))
  n = S.ntree
  isl = [ite(inrange(S.tree_island[t], 0, S.nisland), S.tree_island[t], -1) for t in range(n)]
  sess = ctx.session(pre)
  names = {f"asleep{t}": S.tree_asleep0[t] for t in range(n)}
  names.update({f"island{t}": S.tree_island[t] for t in range(n)})
  names["nisland"] = S.nisland
  ctx.reach(sess, "twin:sleeping-tree-with-own-island", And(cmp("==", S.tree_asleep0[0], 1), cmp("==", S.tree_asleep0[1], 0), cmp("==", isl[1], 0), cmp("<", isl[0], 0)))
  rp = lambda qn: (lambda model: write_and_run(ctx, qn, {"kind": "stage", "stage": stage, "asleep_rows": True, "arrays": stage_arrays(model, m2, d2, stage)}))
  for t in range(n):
    ctx.prove(sess, f"sleeping-link-kept/tree{t}", cmp("==", S.tree_asleep1[t], S.tree_asleep0[t]), And(cmp(">=", S.tree_asleep0[t], 0), *[Implies(cmp(">=", isl[u], 0), cmp(">=", S.tree_asleep0[u], 0)) for u in range(n)]), names=names, replay=rp(f"sleeping-link-kept/tree{t}"), desc=f"sleep() rewrites the cycle link of tree {t} although every tree with an island is already asleep (nothing falls asleep)")
  ctx.prove(sess, "invariant", inv(S.tree_asleep1), True, names=names, replay=rp("invariant"), desc="sleep() re-links an already sleeping tree by its current island: tree_asleep is no longer a set of disjoint cycles (two sleeping trees share a successor)")
  # the state is reachable: full simulation with the public API next to MuJoCo
  first, hist = simulate_asleep_rows(60)
  if first is not None:
    dd = os.path.join(report.VERIF, "replays", PID)
    os.makedirs(dd, exist_ok=True)
    path = os.path.join(dd, "simulation_box_on_box_frictionloss.json")
    with open(path, "w") as f:
      json.dump({"property": PID, "xml": SIM_XML, "first_step_with_broken_cycles": first, "history_step_mujoco_mujocowarp": hist, "how": "checks.c29.simulate_asleep_rows(): mujoco.mj_step and mujoco_warp.step side by side, tree_asleep after every step"}, f)
    ctx.violation("simulation/box-on-box-frictionloss", f"public API: a free box under a box on a slide joint with frictionloss; both fall asleep as the cycle {hist[first - 1][2]}, one step later mujoco_warp's tree_asleep is {hist[first][2]} (two trees point to the same successor) while MuJoCo keeps {hist[first][1]}", path)


SIM_XML = """<mujoco><option timestep="0.005"><flag sleep="enable"/></option><worldbody>
<geom type="plane" size="5 5 .1"/>
<body name="r" pos="0 0 .1"><freejoint/><geom type="box" size=".2 .2 .1"/></body>
<body name="s" pos="0 0 .3"><joint name="s0" type="slide" axis="0 0 1" frictionloss="0.01"/><geom type="box" size=".1 .1 .1"/></body>
</worldbody></mujoco>"""


def simulate_asleep_rows(nsteps=80):
  """a box on a box; the upper one slides on a joint with frictionloss.  -> (first step at which tree_asleep of the real
  mujoco_warp.step is not a set of disjoint cycles, history) or (None, history); MuJoCo's history alongside"""
  import mujoco

  import mujoco_warp as mjw

  mjm = mujoco.MjModel.from_xml_string(SIM_XML)
  mjd = mujoco.MjData(mjm)
  m, d = mjw.put_model(mjm), mjw.make_data(mjm, nworld=1)
  hist, first = [], None
  for k in range(nsteps):
    mujoco.mj_step(mjm, mjd)
    mjw.step(m, d)
    a, b = [int(x) for x in mjd.tree_asleep], [int(x) for x in d.tree_asleep.numpy()[0]]
    hist.append((k, a, b))
    if first is None and not conc(inv(b)):
      first = k
  return first, hist


def unit_update(ctx):
  """sleep.update_sleep: tree_awake, body_awake and the index lists decode tree_asleep"""
  from mujoco_warp._src import sleep

  c28.engine_workaround()
  mjm, m, d = build()
  dsym = {"d.tree_asleep", "d.tree_awake", "d.ntree_awake", "d.body_awake", "d.nbody_awake", "d.body_awake_ind", "d.nv_awake", "d.dof_awake_ind"}
  d2 = host.shim_dataclass(d, "d.", symbolic=lambda n: n in dsym)
  ctx.encode(sleep.update_sleep)
  ctx.bound(nworld=1, ntree=int(m.ntree), nbody=int(m.nbody), nv=int(m.nv))
  with host.HostRun(mode="exec", unroll=4) as hr:
    sleep.update_sleep(m, d2)
  for e in hr.events:
    if e.kind == "launch":
      ctx.encode(e.kernel)
  rd = reader
  ta = list(host.arrays_of(d2)["tree_asleep"].ref.cell.d0[0])
  nt, nb, nv = int(m.ntree), int(m.nbody), int(m.nv)
  btree, broot, bmocap, dbody = [[int(x) for x in a.numpy()] for a in (m.body_treeid, m.body_rootid, m.body_mocapid, m.dof_bodyid)]
  tree_awake, body_awake = rd(d2.tree_awake), rd(d2.body_awake)
  sess = ctx.session([core.zbool(a) for a in hr.assumes])
  ctx.assume("tree_asleep arbitrary; threads in tid order (the index lists are compared as sets)")
  ctx.reach(sess, "twin:one-asleep", And(cmp(">=", ta[0], 0), cmp("<", ta[1], 0)))
  names = {f"asleep{t}": ta[t] for t in range(nt)}
  noreplay = lambda model: (True, "decoding query: model only")
  for t in range(nt):
    ctx.prove(sess, f"tree_awake/{t}", cmp("==", tree_awake[t], ite(cmp("<", ta[t], 0), 1, 0)), True, names=names, replay=noreplay, desc=f"tree_awake[{t}] is not (tree_asleep[{t}] < 0)")
  ctx.prove(sess, "ntree_awake", cmp("==", rd(d2.ntree_awake)[0], count([cmp("<", x, 0) for x in ta])), True, names=names, replay=noreplay, desc="ntree_awake is not the number of awake trees")
  state = []
  for b in range(nb):
    if btree[b] < 0:
      state.append(1 if bmocap[broot[b]] >= 0 else -1)
    else:
      state.append(ite(cmp("<", ta[btree[b]], 0), 1, 0))
    ctx.prove(sess, f"body_awake/{b}", cmp("==", body_awake[b], state[b]), True, names=names, replay=noreplay, desc=f"body_awake[{b}] is not the sleep state of its tree (static: STATIC, mocap: AWAKE)")
  nba, ind = rd(d2.nbody_awake)[0], rd(d2.body_awake_ind)
  ctx.prove(sess, "nbody_awake", cmp("==", nba, count([cmp("!=", x, 0) for x in state])), True, names=names, replay=noreplay, desc="nbody_awake is not the number of awake + static bodies")
  for b in range(nb):
    ctx.prove(sess, f"body_awake_ind-lists/{b}", iff(cmp("!=", state[b], 0), Or(*[And(cmp("<", i, nba), cmp("==", ind[i], b)) for i in range(nb)])), True, names=names, replay=noreplay, desc=f"body {b} is listed in body_awake_ind[:nbody_awake] iff it is not asleep")
  nva, dind = rd(d2.nv_awake)[0], rd(d2.dof_awake_ind)
  dawake = [cmp("<", ta[btree[dbody[j]]], 0) for j in range(nv)]
  ctx.prove(sess, "nv_awake", cmp("==", nva, count(dawake)), True, names=names, replay=noreplay, desc="nv_awake is not the number of dofs of awake trees")
  for j in range(nv):
    ctx.prove(sess, f"dof_awake_ind-lists/{j}", iff(dawake[j], Or(*[And(cmp("<", i, nva), cmp("==", dind[i], j)) for i in range(nv)])), True, names=names, replay=noreplay, desc=f"dof {j} is listed in dof_awake_ind[:nv_awake] iff its tree is awake")
  obligations(ctx, sess, hr, names, lambda qn: noreplay)


def unit_frozen(ctx):
  """a sleeping tree's dofs: zero smooth force, qvel stays 0, qpos unchanged (given qvel = qacc = 0, what sleep() and the
  compact scatter (C38) establish)"""
  from checks import lib
  from mujoco_warp._src import forward, types

  c28.engine_workaround()
  # _qfrc_smooth(enable_sleep=True)
  k = forward._qfrc_smooth(True)
  ctx.encode(k)
  kt = lib.kernel_thread(k, unroll=2)
  w, j = kt.tid
  tree = kt.pre("body_treeid", kt.pre("dof_bodyid", j))
  sess = ctx.session(kt.bg)
  asleep = And(cmp(">=", tree, 0), cmp("==", kt.pre("tree_awake_in", w, tree), 0))
  ctx.reach(sess, "twin:qfrc_smooth-asleep", asleep)
  rpk = lambda kt_, loc, name, goal, env: lib.make_replay(ctx, kt_, loc, name, "goal", goal=goal, env=env)
  ctx.prove(sess, "qfrc_smooth/zero-when-asleep", cmp("==", kt.post("qfrc_smooth_out", w, j), 0.0), asleep, names={"w": w, "dof": j, "tree": tree}, replay=rpk(kt, "mujoco_warp._src.forward:_qfrc_smooth(True)", "qfrc_smooth", "checks.c29:goal_zero", {"label": "qfrc_smooth_out", "idx": [w, j]}), desc="_qfrc_smooth: the smooth force of a dof of a sleeping tree is not 0")
  tot = arith("+", arith("+", arith("-", kt.pre("qfrc_passive_in", w, j), kt.pre("qfrc_bias_in", w, j)), kt.pre("qfrc_actuator_in", w, j)), kt.pre("qfrc_applied_in", w, j))
  ctx.prove(sess, "qfrc_smooth/sum-when-awake", cmp("==", kt.post("qfrc_smooth_out", w, j), tot), Not(asleep), names={"w": w, "dof": j, "tree": tree}, replay=lambda model: (True, "model only"), desc="_qfrc_smooth: an awake dof does not get passive - bias + actuator + applied")
  # _next_velocity
  k = forward._next_velocity
  ctx.encode(k)
  kt = lib.kernel_thread(k, unroll=2, alias_inout=False)
  w, j = kt.tid
  sess = ctx.session(kt.bg)
  rest = And(cmp("==", kt.pre("qvel_in", w, j), 0.0), cmp("==", kt.pre("qacc_in", w, j), 0.0))
  ctx.reach(sess, "twin:next_velocity-rest", rest)
  ctx.prove(sess, "next_velocity/stays-zero", cmp("==", kt.post("qvel_out", w, j), 0.0), rest, names={"w": w, "dof": j}, replay=rpk(kt, "mujoco_warp._src.forward:_next_velocity", "next_velocity", "checks.c29:goal_zero", {"label": "qvel_out", "idx": [w, j]}), desc="_next_velocity: qvel of a dof with qvel = qacc = 0 becomes non-zero")
  # contract of math.quat_integrate used below, proved on the function alone: zero velocity, unit q  =>  result == q
  from mujoco_warp._src import math as mmath
  from wsym.core import Vec

  ctx.encode(mmath.quat_integrate)
  q = Vec([z3.Real(f"q{i}") for i in range(4)], (4,), "quat")
  v = Vec([z3.Real(f"v{i}") for i in range(3)], (3,), "f")
  it, ret = kh.run(mmath.quat_integrate, [q, v, z3.Real("dt")])
  # non-incremental solver (tactic front end): z3's incremental core is two orders of magnitude slower on this NRA query
  sessq = ctx.session([core.zbool(a) for a in it.assumes] + [sum(c * c for c in q.c) == 1] + [c == 0 for c in v.c], timeout_ms=180000, tactic="default")
  ctx.reach(sessq, "twin:quat_integrate-lemma", True)
  ctx.prove(sessq, "lemma/quat_integrate-zero-velocity", And(*[cmp("==", r, c) for r, c in zip(ret.c, q.c)]), True, replay=lambda model: (True, "model only"), desc="quat_integrate(q, 0, dt) != q for a unit quaternion")
  nfresh = [0]

  def summary(interp, frame, args):
    qq, vv, _ = args
    nfresh[0] += 1
    r = Vec([z3.Real(f"qi!{nfresh[0]}!{c}") for c in range(4)], (4,), "quat")
    hyp = z3.And(sum(core.to_z3(c, "real") * core.to_z3(c, "real") for c in qq.c) == 1, *[core.to_z3(c, "real") == 0 for c in vv.c])
    interp.assumes.append(z3.Implies(hyp, z3.And(*[a == core.to_z3(b, "real") for a, b in zip(r.c, qq.c)])))
    return r

  # _next_position (in place: qpos_out aliases qpos_in as in _advance)
  k = forward._next_position
  ctx.encode(k)
  kt = lib.kernel_thread(k, unroll=2, alias_inout=True, cap=9, interp_kw={"summaries": {mmath.quat_integrate.key: summary}})
  ctx.assume("_next_position: quat_integrate is replaced by its proved contract (lemma/quat_integrate-zero-velocity)")
  w, jn = kt.tid
  ty, qa, da = kt.pre("jnt_type", jn), kt.pre("jnt_qposadr", jn), kt.pre("jnt_dofadr", jn)
  JT = types.JointType
  ndof = ite(cmp("==", ty, int(JT.FREE)), 6, ite(cmp("==", ty, int(JT.BALL)), 3, 1))
  vz = And(*[Implies(cmp("<", i, ndof), cmp("==", kt.pre("qvel_in", w, da + i), 0.0)) for i in range(6)])
  sess = ctx.session(kt.bg + [inrange(ty, 0, 4), vz, cmp("==", kt.args["qvel_scale_in"], 1.0)])
  ctx.assume("_next_position: the joint's dofs have qvel = 0; free / ball quaternions in qpos have unit norm (C23)")
  ctx.reach(sess, "twin:next_position-slide", cmp("==", ty, int(JT.SLIDE)))
  kk = z3.Int("k")
  scalar = Or(cmp("==", ty, int(JT.SLIDE)), cmp("==", ty, int(JT.HINGE)))
  ctx.prove(sess, "next_position/hinge-slide-unchanged", cmp("==", kt.post("qpos_out", w, qa), kt.pre("qpos_in", w, qa)), scalar, names={"w": w, "jnt": jn, "type": ty}, replay=lambda model: (True, "model only"), desc="_next_position: qpos of a hinge / slide joint with zero velocity changes")
  ctx.prove(sess, "next_position/free-position-unchanged", cmp("==", kt.post("qpos_out", w, qa + kk), kt.pre("qpos_in", w, qa + kk)), And(cmp("==", ty, int(JT.FREE)), kk >= 0, kk < 3), names={"w": w, "jnt": jn, "k": kk}, replay=lambda model: (True, "model only"), desc="_next_position: the position of a free joint with zero velocity changes")
  for name, jt, off in (("free", JT.FREE, 3), ("ball", JT.BALL, 0)):
    q = [kt.pre("qpos_in", w, qa + off + c) for c in range(4)]
    unit = cmp("==", arith("+", arith("+", arith("*", q[0], q[0]), arith("*", q[1], q[1])), arith("+", arith("*", q[2], q[2]), arith("*", q[3], q[3]))), 1.0)
    same = And(*[cmp("==", kt.post("qpos_out", w, qa + off + c), q[c]) for c in range(4)])
    ctx.reach(sess, f"twin:next_position-{name}-unit-quaternion", And(cmp("==", ty, int(jt)), unit))
    ctx.prove(sess, f"next_position/{name}-quaternion-unchanged", same, And(cmp("==", ty, int(jt)), unit), names={"w": w, "jnt": jn}, replay=lambda model: (True, "model only"), desc=f"_next_position: the unit quaternion of a {name} joint with zero velocity changes")


def goal_zero(spec, pre, post):
  e = spec["env"]
  v = float(np.asarray(post[e["label"]][tuple(e["idx"])]))
  return v == 0.0, f"{e['label']}{list(e['idx'])} = {v}"


def unit_order(ctx):
  """_wake_collision_kernel with two contacts in both thread orders (serial execution of the two threads)"""
  from mujoco_warp._src import sleep

  c28.engine_workaround()
  stage = "order"
  outs = []
  for swap in (False, True):
    mjm, m, d = build(ntree=4)
    m2 = sym_model(m, STAGE_SYM_MODEL[stage])
    dsym = {"d." + x for x in STAGE_SYM_DATA[stage]}
    d2 = host.shim_dataclass(d, "d.", symbolic=lambda n: n in dsym)
    if swap:
      c = d2.contact.geom.ref.cell
      c.d = [[x[1], x[0]] for x in c.d]
      c.d0 = [list(x) for x in c.d]
      cw = d2.contact.worldid.ref.cell
      cw.d = [[cw.d[0][1], cw.d[0][0]]]
      cw.d0 = [list(x) for x in cw.d]
    S = View()
    with host.HostRun(mode="exec", unroll=int(m.ntree) + 2) as hr:
      run_stage(stage, m2, d2, S, reader)
    outs.append((S, hr, m2, d2))
  ctx.encode(sleep.wake_collision, sleep._wake_collision_kernel, sleep._wake_tree)
  (S, hr, m2, d2), (S2, hr2, _, _) = outs
  ctx.bound(nworld=1, ntree=S.ntree, contacts=2, note="the two threads of the launch run as (0,1) and as (1,0)")
  pre = []
  for text, f in state_pre(S, stage):
    ctx.assume(text)
    pre.append(core.zbool(f))
  pre.append(core.zbool(cmp("==", S.nacon, 2)))
  ctx.assume("nacon = 2")
  pre += [core.zbool(a) for a in list(hr.assumes) + list(hr2.assumes)]
  sess = ctx.session(pre)
  n = S.ntree
  names = {f"asleep{t}": S.tree_asleep0[t] for t in range(n)}
  for i in range(2):
    names[f"contact{i}_geom0"], names[f"contact{i}_geom1"] = S.contact_geom[i]
  for i, x in enumerate(S.body_treeid):
    names[f"body_treeid{i}"] = x
  for i, x in enumerate(S.geom_bodyid):
    names[f"geom_bodyid{i}"] = x
  ctx.reach(sess, "twin:two-touchers-of-one-cycle", And(cmp("==", S.tree_asleep0[0], 1), cmp("==", S.tree_asleep0[1], 0), cmp("<", S.tree_asleep0[2], 0), cmp("<", S.tree_asleep0[3], 0), cmp("!=", S.tree_asleep0[2], S.tree_asleep0[3])))

  def rp(qn):
    def _rp(model):
      return write_and_run(ctx, qn, {"kind": "order", "arrays": stage_arrays(model, m2, d2, stage)})

    return _rp

  for t in range(n):
    ctx.prove(sess, f"status-order-independent/tree{t}", iff(cmp("<", S.tree_asleep1[t], 0), cmp("<", S2.tree_asleep1[t], 0)), True, names=names, replay=rp(f"status-order-independent/tree{t}"), desc=f"whether tree {t} is awake after wake_collision depends on the order of the two contact threads")
  for t in range(n):
    ctx.prove(sess, f"countdown-order-independent/tree{t}", cmp("==", S.tree_asleep1[t], S2.tree_asleep1[t]), True, names=names, replay=rp(f"countdown-order-independent/tree{t}"), desc=f"the countdown of tree {t} after wake_collision depends on the order of the two contact threads (_wake_tree on a tree that another thread already woke lowers only that tree, not its former cycle)")


def real_order(sp):
  res = []
  for swap in (False, True):
    mjm, m, d = build(ntree=4)
    for n, vals in sp["arrays"].items():
      obj = m if n.startswith("m.") else d
      for part in n[2:].split("."):
        obj = getattr(obj, part)
      a = obj.numpy()
      v = np.array(vals).reshape(a.shape).astype(a.dtype)
      if swap and n in ("d.contact.geom", "d.contact.worldid"):
        v = v[::-1].copy()
      obj.assign(v)
    S = View()
    run_stage("order", m, d, S, reader)
    wp.synchronize()
    res.append(S)
  S, S2 = res
  for text, f in state_pre(S, "order"):
    if not conc(f):
      return False, f"replay input violates precondition: {text}"
  q = sp["query"]
  t = int(q[-1])
  if q.startswith("status"):
    ok = (S.tree_asleep1[t] < 0) == (S2.tree_asleep1[t] < 0)
  else:
    ok = S.tree_asleep1[t] == S2.tree_asleep1[t]
  return (not ok), f"tree_asleep {S.tree_asleep0}, contacts {S.contact_geom} (geom->body {S.geom_bodyid}, body->tree {S.body_treeid}): threads in order (0,1) give {S.tree_asleep1}, in order (1,0) give {S2.tree_asleep1}"


def real_stage(sp):
  stage = sp["stage"]
  mjm, m, d = build(tendons="two" if stage == "equality" else "full", ntree=sp.get("ntree") or 3)
  set_eq_types(m, sp.get("eqt"))
  for n, vals in sp["arrays"].items():
    obj = m if n.startswith("m.") else d
    for part in n[2:].split("."):
      obj = getattr(obj, part)
    a = obj.numpy()
    obj.assign(np.array(vals).reshape(a.shape).astype(a.dtype))
  S = View()
  S.asleep_rows = bool(sp.get("asleep_rows"))
  run_stage(stage, m, d, S, reader)
  wp.synchronize()
  for text, f in state_pre(S, stage):
    if not conc(f):
      return False, f"replay input violates precondition: {text}"
  Q = stage_spec(stage, S)
  if sp.get("asleep_rows"):
    for t in range(S.ntree):
      Q[f"sleeping-link-kept/tree{t}"] = (cmp("==", S.tree_asleep1[t], S.tree_asleep0[t]), True, f"sleep() rewrites the cycle link of sleeping tree {t}")
  goal, guard, what = Q[sp["query"]]
  if not conc(guard):
    return False, "guard false on the real run"
  return (not conc(goal)), f"{what}; tree_asleep {S.tree_asleep0} -> {S.tree_asleep1} (tree_awake {S.tree_awake}, islands {S.tree_island}/{S.nisland})"


# ------------------------------------------------------------------------------------------------ reference validation (MuJoCo)


VALID_XML = """<mujoco><option gravity="0 0 0" timestep="0.01"><flag sleep="enable"/></option><worldbody>
<body name="a" pos="0 0 1"><joint name="a0" type="slide" axis="1 0 0"/><geom size=".1"/><site name="sa"/></body>
<body name="b" pos="{bx} 0 1"><joint name="b0" type="slide" axis="1 0 0"/><geom size=".1"/><site name="sb"/></body>
<body name="c" pos="{cx} 0 1"><joint name="c0" type="slide" axis="1 0 0"/><geom size=".1"/><site name="sc"/></body>
<body name="e" pos="{ex} 0 1"><joint name="e0" type="slide" axis="1 0 0"/><geom size=".1"/><site name="se"/></body>
</worldbody>
<tendon><spatial name="t" limited="true" range="0 {tr}"><site site="sb"/><site site="sc"/></spatial></tendon>
<equality><weld name="w" body1="a" body2="e" active="{wa}"/><joint name="j" joint1="b0" joint2="e0" active="{ja}"/></equality>
</mujoco>"""


def mj_poke(m, d, ta):
  """put a MuJoCo MjData into the sleep state ta consistently (what mj_updateSleep derives)"""
  ta = np.asarray(ta)
  d.tree_asleep[:] = ta
  d.tree_awake[:] = (ta < 0).astype(int)
  ba = []
  for b in range(m.nbody):
    t = m.body_treeid[b]
    ba.append((1 if m.body_mocapid[m.body_rootid[b]] >= 0 else -1) if t < 0 else (1 if ta[t] < 0 else 0))
  d.body_awake[:] = ba
  ind = [b for b in range(m.nbody) if ba[b] != 0]
  d.nbody_awake = len(ind)
  d.body_awake_ind[: len(ind)] = ind
  pind = [b for b in range(m.nbody) if b == 0 or ba[m.body_parentid[b]] != 0]
  d.nparent_awake = len(pind)
  d.parent_awake_ind[: len(pind)] = pind
  dind = [j for j in range(m.nv) if ta[m.dof_treeid[j]] < 0]
  d.nv_awake = len(dind)
  d.dof_awake_ind[: len(dind)] = dind
  d.ntree_awake = int((ta < 0).sum())
  for j in range(m.nv):
    if ta[m.dof_treeid[j]] >= 0:
      d.qvel[j] = 0


def mj_view(m, d, ta):
  S = View()
  S.ntree, S.nbody, S.nv, S.neq, S.ntendon, S.ngeom, S.nsite, S.njnt = m.ntree, m.nbody, m.nv, m.neq, m.ntendon, m.ngeom, m.nsite, m.njnt
  for n in MODEL_INT:
    setattr(S, n, [int(x) for x in getattr(m, n)])
  S.dof_length = [float(x) for x in m.dof_length]
  S.tendon_range = [tuple(float(v) for v in x) for x in m.tendon_range]
  S.tendon_margin = [float(x) for x in m.tendon_margin]
  S.tree_asleep0 = [int(x) for x in ta]
  S.tree_awake = [int(x < 0) for x in ta]
  S.qvel, S.qfrc_applied = [float(x) for x in d.qvel], [float(x) for x in d.qfrc_applied]
  S.xfrc_applied = [[float(v) for v in x] for x in d.xfrc_applied]
  S.naconmax, S.nacon = d.ncon, d.ncon
  S.contact_geom = [(int(c.geom[0]), int(c.geom[1])) for c in d.contact]
  S.contact_worldid = [0] * d.ncon
  S.ten_length = [float(x) for x in d.ten_length]
  S.eq_active = [bool(x) for x in d.eq_active]
  S.tol = float(m.opt.sleep_tolerance)
  return S


def ref_wake_status(ta, trig):
  """status after a wake stage: list of bools (asleep)"""
  n = len(ta)
  return [bool(ta[t] >= 0 and not any(conc(trig[s]) and conc(same_cycle(ta, s, t)) for s in range(n))) for t in range(n)]


def validate_reference():
  import mujoco

  bad = []

  def scene(ta, bx=1, cx=2, ex=3, tr=5, wa="false", ja="false", **kw):
    m = mujoco.MjModel.from_xml_string(VALID_XML.format(bx=bx, cx=cx, ex=ex, tr=tr, wa=wa, ja=ja))
    d = mujoco.MjData(m)
    mujoco.mj_forward(m, d)
    mj_poke(m, d, ta)
    for k, v in kw.items():
      getattr(d, k)[...] = v
    return m, d

  def check_forward(tag, ta, stage, full_reset, **kw):
    m, d = scene(ta, **kw)
    d0 = mujoco.MjData(m)
    mujoco.mj_forward(m, d0)  # contacts / tendon lengths do not depend on the sleep state in these scenes
    mujoco.mj_forward(m, d)
    S = mj_view(m, d, ta)
    S.contact_geom = [(int(c.geom[0]), int(c.geom[1])) for c in d0.contact]
    S.naconmax = S.nacon = d0.ncon
    S.contact_worldid = [0] * d0.ncon
    S.ten_length = [float(x) for x in d0.ten_length]
    trig = {"wake": triggers_wake, "collision": triggers_collision, "tendon": triggers_tendon, "equality": triggers_equality}[stage](S)
    exp = ref_wake_status(ta, trig)
    got = [int(x) for x in d.tree_asleep]
    if [g >= 0 for g in got] != exp:
      bad.append(f"{tag}: reference says asleep-after = {exp} for tree_asleep {ta}, MuJoCo gives {got}")
    for t in range(len(ta)):
      if ta[t] >= 0 and got[t] < 0 and full_reset and got[t] != K_AWAKE:
        bad.append(f"{tag}: woken tree {t} has countdown {got[t]} in MuJoCo, reference says {K_AWAKE}")
      if ta[t] >= 0 and got[t] < 0 and not (K_AWAKE <= got[t] <= -1):
        bad.append(f"{tag}: woken tree {t} has countdown {got[t]} outside [{K_AWAKE}, -1]")
      if ta[t] < 0 and got[t] != ta[t]:
        bad.append(f"{tag}: awake tree {t} changed from {ta[t]} to {got[t]} in MuJoCo's forward pass")
    return got

  x = np.zeros((5, 6))
  x[3, 2] = 1.0
  check_forward("wake/qvel", [1, 0, 2, -5], "wake", True, qvel=[0.1, 0, 0, 0])
  check_forward("wake/tiny-qvel", [1, 0, 2, -5], "wake", True, qvel=[1e-9, 0, 0, 0])
  check_forward("wake/qfrc_applied", [1, 0, 2, -5], "wake", True, qfrc_applied=[0, 0.1, 0, 0])
  check_forward("wake/xfrc_applied", [1, 0, 2, -5], "wake", True, xfrc_applied=x)
  check_forward("wake/nothing", [1, 0, 2, -5], "wake", True)
  check_forward("wake/three-cycle", [1, 2, 0, -5], "wake", True, qfrc_applied=[0, 0, 0.3, 0])
  check_forward("tendon/active-one-awake", [0, 1, -5, -7], "tendon", False, tr=0.5)
  check_forward("tendon/active-cycle", [1, 0, -3, -7], "tendon", False, tr=0.5)
  check_forward("tendon/active-both-asleep", [0, 1, 2, -7], "tendon", False, tr=0.5)
  check_forward("tendon/inactive", [0, 1, -5, -7], "tendon", False, tr=5)
  check_forward("equality/weld-one-awake", [1, 0, 2, -4], "equality", True, wa="true")
  check_forward("equality/weld-two-cycles", [1, 0, 2, 3], "equality", True, wa="true")
  check_forward("equality/weld-same-cycle", [3, 1, 2, 0], "equality", True, wa="true")
  check_forward("equality/joint-one-awake", [1, 0, 2, -4], "equality", True, ja="true")
  check_forward("equality/joint-two-cycles", [1, 0, 2, 3], "equality", True, ja="true")
  check_forward("equality/inactive", [1, 0, 2, -4], "equality", True)
  # contacts: chain a-b-c-e of touching spheres
  touch = dict(bx=0.19, cx=0.38, ex=0.57)
  check_forward("collision/cycle-touched", [1, 0, -5, -11], "collision", False, **touch)
  check_forward("collision/two-touchers", [-4, 2, 1, -9], "collision", False, **touch)
  check_forward("collision/asleep-pair-untouched", [1, 0, -5, -11], "collision", False, bx=0.19, cx=2, ex=2.19)
  check_forward("collision/all-awake", [-4, -2, -5, -11], "collision", False, **touch)
  # sleep(): free-floating trees at rest: countdown -11 .. -1, then self cycles; a moving tree is reset
  m = mujoco.MjModel.from_xml_string(VALID_XML.format(bx=1, cx=2, ex=3, tr=5, wa="true", ja="false"))
  d = mujoco.MjData(m)
  d.qvel[2] = 0.5
  ta = [int(x) for x in d.tree_asleep]
  for step in range(14):
    mujoco.mj_step(m, d)
    S = mj_view(m, d, ta)
    S.tree_island, S.nisland = [int(x) for x in d.tree_island], int(d.nisland)
    S.qacc0 = [0.0] * m.nv
    S.tree_asleep1 = [int(x) for x in d.tree_asleep]
    S.qvel1, S.qacc1 = S.qvel, S.qacc0
    Q, ref = spec_sleep(S)
    for qn, (goal, guard, what) in Q.items():
      if qn.startswith(("zeroed", "awake-untouched")):
        continue
      if conc(guard) and not conc(goal):
        bad.append(f"sleep/step{step}: MuJoCo's step {ta} -> {S.tree_asleep1} (islands {S.tree_island}/{S.nisland}) contradicts reference rule {qn}")
    ta = S.tree_asleep1
  if not (ta[0] >= 0 and ta[3] >= 0 and ta[2] < 0):
    bad.append(f"sleep: expected the welded pair asleep and the moving tree awake after 14 steps, MuJoCo has {ta}")
  elif not conc(same_cycle(ta, 0, 3)):
    bad.append(f"sleep: welded trees 0 and 3 should share a cycle, MuJoCo has {ta}")
  return bad


def unit_validate(ctx):
  bad = validate_reference()
  ctx.notes.append("reference rules compared with mujoco 3.13 on 21 crafted sleep states (mj_forward: wake by velocity / applied force, tendon limit, weld / joint equality, contacts incl. two touchers) and a 14-step mj_step history (countdown, reset, island of a weld falls asleep as one cycle)")
  for b in bad:
    ctx.error("reference-model validation: " + b)
  ctx.reach(ctx.session([]), "twin:validation-ran", True)


# ------------------------------------------------------------------------------------------------ replay plumbing


def write_and_run(ctx, qn, sp):
  d = os.path.join(report.VERIF, "replays", PID)
  os.makedirs(d, exist_ok=True)
  path = os.path.join(d, f"{ctx.unit.replace('/', '_')}.{qn.replace('/', '_')}.json")
  sp = dict(sp, property=PID, unit=ctx.unit, query=qn, how="cd /verif && PYTHONPATH=.deps:. python -m checks.c29 <this file>: builds the tiny model (checks.c29.XML), assigns the arrays, runs the real host function of the stage and evaluates the reference")
  with open(path, "w") as f:
    json.dump(sp, f)
  is_obl = qn.startswith(("bounds/", "unwind/"))
  p = subprocess.run([sys.executable, "-m", "checks.c29", path] + (["--debug"] if is_obl else []), cwd=report.VERIF, env=dict(os.environ), capture_output=True, text=True, timeout=900)
  out = (p.stdout + p.stderr).strip()
  ok, text = False, f"replay subprocess rc={p.returncode}: {out[-300:]}"
  if p.returncode not in (0, 3):
    ok, text = True, f"the real host function crashed / aborted on inputs satisfying the preconditions (rc={p.returncode}): {out[-300:]}"
  for line in out.splitlines():
    if line.startswith("REPRODUCED: "):
      ok, text = True, line[len("REPRODUCED: ") :]
    elif line.startswith("NOT-REPRODUCED: "):
      ok, text = False, line[len("NOT-REPRODUCED: ") :]
  sp["result"] = text
  with open(path, "w") as f:
    json.dump(sp, f)
  return ok, path


def main(tier, seed, only=None):
  units = [("validate-reference", unit_validate)] + [unit_stage(s) for s in ("sleep", "wake", "collision", "tendon")]
  units.append(("stage/sleep-asleep-rows", unit_sleep_asleep_rows))
  units += [("update_sleep", unit_update), ("frozen", unit_frozen), ("order/wake_collision", unit_order)]
  if tier == "thorough":
    units += [unit_stage(s, ntree=4) for s in ("sleep", "wake", "collision", "tendon")]
    units += [unit_stage("equality", (a, b), ntree=4) for a, b in ((EQ_CONNECT, EQ_JOINT), (EQ_WELD, EQ_TENDON), (EQ_TENDON, EQ_TENDON))]
  eq_types = (EQ_CONNECT, EQ_WELD, EQ_JOINT, EQ_TENDON)
  units += [unit_stage("equality", (a, b)) for a in eq_types for b in eq_types]
  if only:
    units = [u for u in units if any(o in u[0] for o in only)]
  return report.run_check(PID, units, tier, seed)


if __name__ == "__main__":
  wp.config.quiet = True
  sp_ = json.load(open(sys.argv[1]))
  if "--debug" in sys.argv:
    wp.config.mode = "debug"
    wp.config.kernel_cache_dir = os.path.join(report.VERIF, ".wpcache", "replay_debug")
  ok_, text_ = {"stage": real_stage, "order": real_order}[sp_["kind"]](sp_)
  if "--debug" in sys.argv:
    print("NOT-REPRODUCED: completed under the bounds-checked build")
    sys.exit(3)
  print(("REPRODUCED: " if ok_ else "NOT-REPRODUCED: ") + str(text_).replace("\n", " "))
  sys.exit(0 if ok_ else 3)
