"""C29 Sleeping follows MuJoCo's sleep semantics (H / K mode, inductive step on the representation invariant).

Representation invariant Inv(tree_asleep): every entry is either an awake countdown in [-(1+mjMINAWAKE), -1] or the index of a
sleeping tree, and `next` is injective on sleeping trees (= disjoint cycles).

sleep      the REAL sleep.sleep (_sweep_awake_trees, _check_island_can_sleep, _build_cycles): an awake tree's countdown advances by
           one towards -1 while it may sleep (policy, no applied force, velocity below tolerance) and is reset to -(1+mjMINAWAKE)
           otherwise; a tree falls asleep iff it is at -1 and every tree of its island is at -1 (or it has no island); qvel/qacc of
           the trees put to sleep are zeroed, everything else is untouched; one cycle per island; Inv is re-established.
wake_*     the REAL sleep.wake / wake_collision / wake_tendon / wake_equality: exactly the trees in the cycle of a triggered tree
           wake up (trigger = applied force / velocity / policy; contact with an awake tree; active tendon limit or equality to an
           awake tree; equality between two different sleeping cycles), awake trees are untouched, Inv is re-established.
update     sleep.update_sleep: tree_awake / body_awake / index lists are the decoding of tree_asleep.
frozen     _qfrc_smooth, _next_velocity, _next_position leave a sleeping tree's qvel = 0 and qpos unchanged.
order      two threads of _wake_collision_kernel in both orders (suspected order dependence of the countdown values).
The reference rules are validated against mujoco 3.13 (crafted sleep states, mj_forward / mj_step).
"""

import dataclasses
import json
import os
import subprocess
import sys

import numpy as np
import warp as wp
import z3

from checks import c28
from checks.c28 import View, conc, count, iff, inrange, nest, sel
from wsym import core, host, kh, report
from wsym.core import And, Implies, Not, Or, arith, cmp, is_sym, ite, vabs

PID = "C29"
MINAWAKE = 10
K_AWAKE = -(1 + MINAWAKE)
import mujoco as _mj

POLICY_NEVER = int(_mj.mjtSleepPolicy.mjSLEEP_AUTO_NEVER)
EQ_CONNECT, EQ_WELD, EQ_JOINT, EQ_TENDON = (int(getattr(_mj.mjtEq, "mjEQ_" + x)) for x in ("CONNECT", "WELD", "JOINT", "TENDON"))
OBJ_BODY, OBJ_SITE = int(_mj.mjtObj.mjOBJ_BODY), int(_mj.mjtObj.mjOBJ_SITE)
WRAP_JOINT, WRAP_PULLEY, WRAP_SITE, WRAP_SPHERE, WRAP_CYLINDER = (int(getattr(_mj.mjtWrap, "mjWRAP_" + x)) for x in ("JOINT", "PULLEY", "SITE", "SPHERE", "CYLINDER"))

XML = """<mujoco>
 <option><flag sleep="enable"/></option>
 <worldbody>
  <geom name="floor" type="plane" size="5 5 .1"/>
  <site name="s0"/>
  <body name="mc" pos="0 2 1" mocap="true"><geom name="gm" size=".05" contype="0" conaffinity="0"/></body>
  <body name="a" pos="0 0 1"><joint name="a0" type="slide"/><geom name="ga" size=".1"/><site name="sa"/>
     <body name="a2" pos=".3 0 0"><joint name="a1" type="hinge"/><geom name="ga2" size=".1" pos=".1 0 0"/></body></body>
  <body name="b" pos="1 0 1"><joint name="b0" type="slide"/><geom name="gb" size=".1"/><site name="sb"/></body>
  <body name="c" pos="2 0 1"><joint name="c0" type="slide"/><geom name="gc" size=".1"/><site name="sc"/></body>
 </worldbody>
 <tendon>
  <spatial name="sp" limited="true" range="0 5"><site site="sa"/><site site="sb"/><site site="sc"/></spatial>
  <fixed name="fx" limited="true" range="-1 1"><joint joint="b0" coef="1"/><joint joint="c0" coef="-1"/></fixed>
  <fixed name="fa"><joint joint="a0" coef="1"/></fixed>
 </tendon>
 <equality>
  <connect body1="a" body2="b" anchor="0 0 0"/><weld site1="sa" site2="sc"/><joint joint1="b0" joint2="c0"/>
  <tendon tendon1="sp" tendon2="fx"/><joint joint1="a0"/>
 </equality>
</mujoco>"""


def build():
  import mujoco

  import mujoco_warp as mjw

  mjm = mujoco.MjModel.from_xml_string(XML)
  m = mjw.put_model(mjm)
  d = mjw.make_data(mjm, nworld=1, nconmax=2, njmax=8)
  return mjm, m, d


# ------------------------------------------------------------------------------------------------ reference model


def awake_val(x):
  return inrange(x, K_AWAKE, 0)


def inv(ta):
  """disjoint cycles over sleeping trees, countdowns in range"""
  n = len(ta)
  parts = []
  for t in range(n):
    parts.append(Or(awake_val(ta[t]), And(inrange(ta[t], 0, n), cmp(">=", sel(ta, ta[t]), 0))))
    for s in range(t):
      parts.append(Not(And(cmp(">=", ta[s], 0), cmp(">=", ta[t], 0), cmp("==", ta[s], ta[t]))))
  return And(*parts)


def same_cycle(ta, s, t):
  """s and t (concrete indices) are asleep and in one cycle (under Inv)"""
  n = len(ta)
  if s == t:
    return cmp(">=", ta[s], 0)
  cur, hits = s, []
  for _ in range(n - 1):
    cur = ta[s] if cur is s else sel(ta, cur)
    hits.append(cmp("==", cur, t))
  return And(cmp(">=", ta[s], 0), cmp(">=", ta[t], 0), Or(*hits))


def can_sleep(S, t, tol):
  """mj sleep criterion of tree t with velocity tolerance tol"""
  ok = [cmp("!=", S.tree_sleep_policy[t], POLICY_NEVER)]
  for b in range(S.nbody):
    if S.body_treeid[b] == t:
      ok += [cmp("==", x, 0.0) for x in S.xfrc_applied[b]]
  for j in range(S.tree_dofadr[t], S.tree_dofadr[t] + S.tree_dofnum[t]):
    ok.append(cmp("==", S.qfrc_applied[j], 0.0))
    v = S.qvel[j]
    ok.append(ite(cmp(">", tol, 0.0), cmp("<", vabs(arith("*", S.dof_length[j], v)), tol), cmp("==", v, 0.0)))
  return And(*ok)


def spec_sleep(S):
  n = S.ntree
  ta0, ta1 = S.tree_asleep0, S.tree_asleep1
  cs = [can_sleep(S, t, S.tol) for t in range(n)]
  swept = [ite(cmp(">=", ta0[t], 0), ta0[t], ite(cs[t], ite(cmp("<", ta0[t], -1), arith("+", ta0[t], 1), ta0[t]), K_AWAKE)) for t in range(n)]
  isl = [ite(inrange(S.tree_island[t], 0, S.nisland), S.tree_island[t], -1) for t in range(n)]
  ready = [cmp(">=", swept[t], -1) for t in range(n)]  # at -1 or already asleep
  sleeps = []
  for t in range(n):
    mates = And(*[Implies(cmp("==", isl[u], isl[t]), ready[u]) for u in range(n)])
    sleeps.append(And(cmp("==", swept[t], -1), Or(cmp("<", isl[t], 0), mates)))
  Q = {}
  for t in range(n):
    was_awake = cmp("<", ta0[t], 0)
    Q[f"falls-asleep-iff/tree{t}"] = (iff(cmp(">=", ta1[t], 0), sleeps[t]), was_awake, f"tree {t} falls asleep although it or a tree of its island is not at -1 / allowed to sleep, or stays awake although all are")
    Q[f"countdown/tree{t}"] = (cmp("==", ta1[t], swept[t]), And(was_awake, Not(sleeps[t])), f"countdown of awake tree {t} does not advance by one towards -1 while it may sleep / is not reset to -(1+mjMINAWAKE) otherwise")
    Q[f"stays-asleep/tree{t}"] = (cmp(">=", ta1[t], 0), Not(was_awake), f"sleeping tree {t} is woken by sleep()")
    for u in range(t + 1, n):
      together = And(sleeps[t], sleeps[u], cmp(">=", isl[t], 0), cmp("==", isl[t], isl[u]))
      Q[f"one-cycle-per-island/{t}-{u}"] = (same_cycle(ta1, t, u), together, f"trees {t} and {u} fall asleep in the same island but end up in different cycles")
      Q[f"separate-islands-separate-cycles/{t}-{u}"] = (Not(same_cycle(ta1, t, u)), And(sleeps[t], cmp(">=", ta1[u], 0), Or(cmp("<", isl[t], 0), cmp("!=", isl[t], isl[u]))), f"tree {t} falls asleep into the cycle of tree {u} of another island")
  Q["invariant"] = (inv(ta1), True, "tree_asleep is no longer a set of disjoint cycles / countdowns after sleep()")
  for t in range(n):
    for j in range(S.tree_dofadr[t], S.tree_dofadr[t] + S.tree_dofnum[t]):
      Q[f"zeroed/dof{j}"] = (And(cmp("==", S.qvel1[j], 0.0), cmp("==", S.qacc1[j], 0.0)), And(cmp("<", ta0[t], 0), sleeps[t]), f"qvel/qacc of dof {j} are not zeroed when its tree falls asleep")
      Q[f"awake-untouched/dof{j}"] = (And(cmp("==", S.qvel1[j], S.qvel[j]), cmp("==", S.qacc1[j], S.qacc0[j])), cmp("<", ta1[t], 0), f"qvel/qacc of dof {j} of a tree that stays awake are modified by sleep()")
  return Q, dict(can_sleep=cs, swept=swept, sleeps=sleeps, isl=isl)


# ---- wake stages: trigger sets


def trees_of_tendon(S, ten):
  """list of (present, tree) for the wraps of tendon ten (concrete tendon tables, symbolic object->body->tree maps)"""
  out = []
  for i in range(S.tendon_adr[ten], S.tendon_adr[ten] + S.tendon_num[ten]):
    ty, ob = S.wrap_type[i], S.wrap_objid[i]
    if ty == WRAP_JOINT:
      out.append(sel(S.body_treeid, S.jnt_bodyid[ob]))
    elif ty == WRAP_SITE:
      out.append(sel(S.body_treeid, S.site_bodyid[ob]))
    elif ty in (WRAP_SPHERE, WRAP_CYLINDER):
      out.append(sel(S.body_treeid, S.geom_bodyid[ob]))
  return out


def triggers_wake(S):
  ta = S.tree_asleep0
  return [And(cmp(">=", ta[t], 0), Or(cmp("==", S.tree_awake[t], 1), Not(can_sleep(S, t, 0.0)))) for t in range(S.ntree)]


def triggers_collision(S):
  n = S.ntree
  trig = [[] for _ in range(n)]
  for c in range(S.naconmax):
    g1, g2 = S.contact_geom[c]
    live = And(cmp("<", c, S.nacon), cmp(">=", g1, 0), cmp(">=", g2, 0))
    t1, t2 = sel(S.body_treeid, sel(S.geom_bodyid, g1)), sel(S.body_treeid, sel(S.geom_bodyid, g2))
    both = And(live, cmp(">=", t1, 0), cmp(">=", t2, 0))
    a1, a2 = cmp("==", sel(S.tree_awake, t1), 1), cmp("==", sel(S.tree_awake, t2), 1)
    for t in range(n):
      trig[t].append(And(both, cmp("==", t1, t), Not(a1), a2))
      trig[t].append(And(both, cmp("==", t2, t), Not(a2), a1))
  return [Or(*x) for x in trig]


def limit_active(S, ten):
  lo, hi = S.tendon_range[ten]
  L, mg = S.ten_length[ten], S.tendon_margin[ten]
  return And(cmp("!=", S.tendon_limited[ten], 0), Or(cmp("<", arith("-", L, lo), mg), cmp("<", arith("-", hi, L), mg)))


def triggers_tendon(S):
  n = S.ntree
  trig = [[] for _ in range(n)]
  for ten in range(S.ntendon):
    trees = trees_of_tendon(S, ten)
    anyawake = Or(*[And(cmp(">=", tr, 0), cmp("==", sel(S.tree_awake, tr), 1)) for tr in trees])
    for t in range(n):
      trig[t].append(And(limit_active(S, ten), anyawake, Or(*[cmp("==", tr, t) for tr in trees]), cmp("==", S.tree_awake[t], 0)))
  return [Or(*x) for x in trig]


def triggers_equality(S):
  n = S.ntree
  ta = S.tree_asleep0
  trig = [[] for _ in range(n)]
  for e in range(S.neq):
    act = S.eq_active[e] if not is_sym(S.eq_active[e]) else S.eq_active[e]
    ty, o1, o2 = S.eq_type[e], S.eq_obj1id[e], S.eq_obj2id[e]
    pair = Or(cmp("==", ty, EQ_CONNECT), cmp("==", ty, EQ_WELD))
    bysite = cmp("!=", S.eq_objtype[e], OBJ_BODY)
    b1 = ite(bysite, sel(S.site_bodyid, o1), o1)
    b2 = ite(bysite, sel(S.site_bodyid, o2), o2)
    isj = cmp("==", ty, EQ_JOINT)
    t1 = ite(pair, sel(S.body_treeid, b1), ite(cmp(">=", o1, 0), sel(S.body_treeid, sel(S.jnt_bodyid, o1)), -1))
    t2 = ite(pair, sel(S.body_treeid, b2), ite(cmp(">=", o2, 0), sel(S.body_treeid, sel(S.jnt_bodyid, o2)), -1))
    two = And(act, Or(pair, isj), cmp(">=", t1, 0), cmp(">=", t2, 0), cmp("!=", t1, t2))
    a1, a2 = cmp("==", sel(S.tree_awake, t1), 1), cmp("==", sel(S.tree_awake, t2), 1)
    for t in range(n):
      for x, ax, y, ay in ((t1, a1, t2, a2), (t2, a2, t1, a1)):
        # x == t asleep; y awake, or y asleep in another cycle
        other_cycle = Not(Or(*[And(cmp("==", y, u), same_cycle(ta, t, u)) for u in range(n)]))
        trig[t].append(And(two, cmp("==", x, t), Not(ax), Or(ay, other_cycle)))
    iste = cmp("==", ty, EQ_TENDON)
    for tens in [(a, b) for a in range(S.ntendon) for b in list(range(S.ntendon)) + [-1]]:
      hit = And(act, iste, cmp("==", o1, tens[0]), cmp("==", o2, tens[1]))
      trees = trees_of_tendon(S, tens[0]) + (trees_of_tendon(S, tens[1]) if tens[1] >= 0 else [])
      anyawake = Or(*[And(cmp(">=", tr, 0), cmp("==", sel(S.tree_awake, tr), 1)) for tr in trees])
      for t in range(n):
        trig[t].append(And(hit, anyawake, Or(*[cmp("==", tr, t) for tr in trees]), cmp("==", S.tree_awake[t], 0)))
  return [Or(*x) for x in trig]


def spec_wake(S, trig, full_reset):
  """generic wake stage: exactly the cycles of triggered trees wake; awake trees untouched; Inv re-established"""
  n = S.ntree
  ta0, ta1 = S.tree_asleep0, S.tree_asleep1
  Q = {}
  for t in range(n):
    woken = Or(*[And(trig[s], same_cycle(ta0, s, t)) for s in range(n)])
    asleep0 = cmp(">=", ta0[t], 0)
    Q[f"wakes-iff-cycle-triggered/tree{t}"] = (iff(cmp("<", ta1[t], 0), woken), asleep0, f"sleeping tree {t} wakes although no tree of its cycle is triggered, or stays asleep although one is")
    Q[f"still-asleep-unchanged/tree{t}"] = (cmp("==", ta1[t], ta0[t]), And(asleep0, Not(woken)), f"the cycle link of tree {t}, which stays asleep, is modified")
    Q[f"woken-countdown/tree{t}"] = (cmp("==", ta1[t], K_AWAKE) if full_reset else awake_val(ta1[t]), And(asleep0, woken), f"woken tree {t} does not get " + ("the full countdown -(1+mjMINAWAKE)" if full_reset else "a countdown in [-(1+mjMINAWAKE), -1]"))
    Q[f"awake-untouched/tree{t}"] = (cmp("==", ta1[t], ta0[t]), Not(asleep0), f"awake tree {t} is modified by the wake stage")
  Q["invariant"] = (inv(ta1), True, "tree_asleep is no longer a set of disjoint cycles / countdowns after the wake stage")
  return Q


# ------------------------------------------------------------------------------------------------ H-mode plumbing


MODEL_INT = ["body_treeid", "geom_bodyid", "site_bodyid", "jnt_bodyid", "dof_bodyid", "body_rootid", "body_mocapid", "body_parentid", "tree_dofadr", "tree_dofnum", "tree_sleep_policy", "eq_type", "eq_obj1id", "eq_obj2id", "eq_objtype", "tendon_adr", "tendon_num", "tendon_limited", "wrap_type", "wrap_objid"]


def base_view(S, m, d, rd):
  S.ntree, S.nbody, S.nv, S.neq, S.ntendon, S.ngeom, S.nsite, S.njnt = int(m.ntree), int(m.nbody), int(m.nv), int(m.neq), int(m.ntendon), int(m.ngeom), int(m.nsite), int(m.njnt)
  S.naconmax = int(d.naconmax)
  for n in MODEL_INT:
    setattr(S, n, rd(getattr(m, n)))
  S.dof_length = rd(m.dof_length)
  S.tendon_range = [tuple(x) for x in nest(rd(m.tendon_range, 2), (S.ntendon, 2))] if S.ntendon else []
  S.tendon_margin = rd(m.tendon_margin)
  return S


def reader(arr, ncomp=1):
  """flat list of the current contents (z3 terms or python numbers); vector dtypes interleaved per element"""
  if isinstance(arr, host.SymArr):
    c = arr.ref.cell
    if c.ncomp == 1:
      return list(c.d[0])
    return [c.d[k][i] for i in range(c.size) for k in range(c.ncomp)]
  a = np.asarray(arr.numpy())
  return [x.item() for x in a.reshape(-1)]


def data_pre(S, d, rd):
  S.tree_asleep0 = rd(d.tree_asleep)
  S.tree_awake = rd(d.tree_awake)
  S.qvel, S.qacc0, S.qfrc_applied = rd(d.qvel), rd(d.qacc), rd(d.qfrc_applied)
  S.xfrc_applied = nest(rd(d.xfrc_applied), (S.nbody, 6))
  S.tree_island, S.nisland = rd(d.tree_island), rd(d.nisland)[0]
  S.nacon = rd(d.nacon)[0]
  cg = rd(d.contact.geom)
  S.contact_geom = [(cg[2 * i], cg[2 * i + 1]) for i in range(S.naconmax)]
  S.contact_worldid = rd(d.contact.worldid)
  S.ten_length = rd(d.ten_length)
  S.eq_active = rd(d.eq_active)


def state_pre(S, stage):
  P = [("tree_asleep satisfies the representation invariant (disjoint cycles over sleeping trees, countdowns in [-(1+mjMINAWAKE), -1])", inv(S.tree_asleep0))]
  P.append(("sleep policy is AUTO_NEVER or AUTO_ALLOWED (put_model rejects the user policies; AUTO is resolved by the compiler)", And(*[inrange(x, 1, 3) for x in S.tree_sleep_policy])))
  if stage == "sleep":
    P.append(("sleep tolerance >= 0", cmp(">=", S.tol, 0.0)))
    P.append(("0 <= nisland <= ntree", inrange(S.nisland, 0, S.ntree + 1)))
    P.append(("trees that are asleep have no island (MuJoCo builds no constraint rows for sleeping trees)", And(*[Implies(cmp(">=", S.tree_asleep0[t], 0), Not(inrange(S.tree_island[t], 0, S.nisland))) for t in range(S.ntree)])))
  else:
    P.append(("tree_awake in {0, 1}", And(*[Or(cmp("==", x, 0), cmp("==", x, 1)) for x in S.tree_awake])))
  if stage in ("collision", "tendon", "equality", "order"):
    P.append(("tree_awake is the decoding of tree_asleep (update_sleep ran after the previous wake stage)", And(*[iff(cmp("==", S.tree_awake[t], 1), cmp("<", S.tree_asleep0[t], 0)) for t in range(S.ntree)])))
    P.append(("object -> body -> tree maps in range, world body static", And(cmp("==", S.body_treeid[0], -1), *[inrange(x, -1, S.ntree) for x in S.body_treeid], *[inrange(x, 0, S.nbody) for x in S.geom_bodyid + S.site_bodyid + S.jnt_bodyid])))
  if stage in ("collision", "order"):
    P.append(("0 <= nacon <= naconmax, listed contacts carry geoms < ngeom (negative = flex) and world 0", And(inrange(S.nacon, 0, S.naconmax + 1), *[Implies(cmp("<", c, S.nacon), And(cmp("<", S.contact_geom[c][0], S.ngeom), cmp("<", S.contact_geom[c][1], S.ngeom), cmp("==", S.contact_worldid[c], 0))) for c in range(S.naconmax)])))
  if stage == "equality":
    eqs = []
    for e in range(S.neq):
      ty = S.eq_type[e]
      pair = Or(cmp("==", ty, EQ_CONNECT), cmp("==", ty, EQ_WELD))
      body = And(cmp("==", S.eq_objtype[e], OBJ_BODY), inrange(S.eq_obj1id[e], 0, S.nbody), inrange(S.eq_obj2id[e], 0, S.nbody))
      site = And(cmp("==", S.eq_objtype[e], OBJ_SITE), inrange(S.eq_obj1id[e], 0, S.nsite), inrange(S.eq_obj2id[e], 0, S.nsite))
      eqs.append(And(inrange(ty, 0, 4), Implies(pair, Or(body, site)), Implies(cmp("==", ty, EQ_JOINT), And(inrange(S.eq_obj1id[e], 0, S.njnt), inrange(S.eq_obj2id[e], -1, S.njnt))), Implies(cmp("==", ty, EQ_TENDON), And(inrange(S.eq_obj1id[e], 0, S.ntendon), inrange(S.eq_obj2id[e], -1, S.ntendon)))))
    P.append(("equalities are connect / weld (two bodies or two sites), joint (second joint optional) or tendon (second tendon optional) with ids in range", And(*eqs)))
  return P


def sym_model(m, names):
  return host.shim_dataclass(m, "m.", symbolic=lambda n: n in {"m." + x for x in names})


def obligations(ctx, sess, hr, names, rp, tag=""):
  groups = {}
  for key, tid, o in hr.obl:
    groups.setdefault((o.kind, key), []).append(Implies(o.guard, o.strict if o.kind == "bounds" else o.cond))
  for (kind, key), obs in sorted(groups.items()):
    qn = f"{tag}{kind}/{key}"
    ctx.prove(sess, qn, And(*obs), True, names=names, replay=rp(qn), desc=f"a thread of {key} " + ("indexes an array out of range" if kind == "bounds" else "loops beyond the derived bound"))


STAGE_SYM_MODEL = {
  "sleep": ["tree_sleep_policy"],
  "wake": ["tree_sleep_policy"],
  "collision": ["body_treeid", "geom_bodyid"],
  "order": ["body_treeid", "geom_bodyid"],
  "tendon": ["body_treeid", "site_bodyid", "jnt_bodyid", "geom_bodyid", "tendon_limited"],
  "equality": ["body_treeid", "site_bodyid", "jnt_bodyid", "geom_bodyid", "eq_type", "eq_obj1id", "eq_obj2id", "eq_objtype"],
}
STAGE_SYM_DATA = {
  "sleep": ["tree_asleep", "qvel", "qacc", "qfrc_applied", "xfrc_applied", "tree_island", "nisland"],
  "wake": ["tree_asleep", "tree_awake", "qvel", "qfrc_applied", "xfrc_applied"],
  "collision": ["tree_asleep", "tree_awake", "nacon", "contact.geom", "contact.worldid"],
  "order": ["tree_asleep", "tree_awake", "nacon", "contact.geom", "contact.worldid"],
  "tendon": ["tree_asleep", "tree_awake", "ten_length"],
  "equality": ["tree_asleep", "tree_awake", "eq_active"],
}


def run_stage(stage, m, d, S, rd, swap=False):
  """the real host function of the stage; fills the view"""
  from mujoco_warp._src import sleep

  base_view(S, m, d, rd)
  data_pre(S, d, rd)
  if stage == "sleep":
    S.tol = rd(m.opt.sleep_tolerance)[0]
    sleep.sleep(m, d)
    S.qvel1, S.qacc1 = rd(d.qvel), rd(d.qacc)
  elif stage == "wake":
    sleep.wake(m, d)
  elif stage in ("collision", "order"):
    sleep.wake_collision(m, d)
  elif stage == "tendon":
    sleep.wake_tendon(m, d)
  elif stage == "equality":
    sleep.wake_equality(m, d)
  S.tree_asleep1 = rd(d.tree_asleep)
  return S


def stage_spec(stage, S):
  if stage == "sleep":
    return spec_sleep(S)[0]
  if stage == "wake":
    return spec_wake(S, triggers_wake(S), True)
  if stage == "collision":
    return spec_wake(S, triggers_collision(S), False)
  if stage == "tendon":
    return spec_wake(S, triggers_tendon(S), False)
  if stage == "equality":
    return spec_wake(S, triggers_equality(S), False)
  raise KeyError(stage)


def symbolic_stage(ctx, stage):
  c28.engine_workaround()
  mjm, m, d = build()
  m2 = sym_model(m, STAGE_SYM_MODEL[stage])
  if stage == "sleep":
    m2 = dataclasses.replace(m2, opt=host.shim_dataclass(m.opt, "m.opt.", symbolic=lambda n: n == "m.opt.sleep_tolerance"))
  dsym = {"d." + x for x in STAGE_SYM_DATA[stage]}
  d2 = host.shim_dataclass(d, "d.", symbolic=lambda n: n in dsym)
  nt = int(m.ntree)
  ctx.bound(nworld=1, ntree=nt, nv=int(m.nv), nbody=int(m.nbody), naconmax=int(d.naconmax), neq=int(m.neq), ntendon=int(m.ntendon), unroll=nt + 2, note="cycle walks <= ntree + 1 steps (concrete loops); dofs per tree concrete")
  S = View()
  with host.HostRun(mode="exec", unroll=nt + 2) as hr:
    run_stage(stage, m2, d2, S, reader)
  for e in hr.events:
    if e.kind == "launch":
      ctx.encode(e.kernel)
  return mjm, m, d, m2, d2, S, hr


def stage_arrays(model, m2, d2, stage):
  """concrete values of the symbolic inputs under a z3 model"""
  out = {}
  for owner, obj, namesl in (("m.", m2, STAGE_SYM_MODEL[stage]), ("d.", d2, STAGE_SYM_DATA[stage])):
    arrs = host.arrays_of(obj)
    for n in namesl:
      c = arrs[n].ref.cell
      if c.size:
        vals = [[kh.mval(model, x) for x in c.d0[k]] for k in range(c.ncomp)]
        flat = [float(vals[k][i]) for i in range(c.size) for k in range(c.ncomp)]
        out[owner + n] = flat
  if stage == "sleep":
    c = host.arrays_of(m2.opt)["sleep_tolerance"].ref.cell
    out["m.opt.sleep_tolerance"] = [float(kh.mval(model, c.d0[0][0]))]
  return out


def unit_stage(stage):
  def run(ctx):
    from mujoco_warp._src import sleep

    mjm, m, d, m2, d2, S, hr = symbolic_stage(ctx, stage)
    ctx.encode(getattr(sleep, {"sleep": "sleep", "wake": "wake", "collision": "wake_collision", "tendon": "wake_tendon", "equality": "wake_equality"}[stage]))
    pre = []
    for text, f in state_pre(S, stage):
      ctx.assume(text)
      pre.append(core.zbool(f))
    pre += [core.zbool(a) for a in hr.assumes]
    sess = ctx.session(pre)
    n = S.ntree
    names = {f"asleep{t}": S.tree_asleep0[t] for t in range(n)}
    names.update({f"awake{t}": S.tree_awake[t] for t in range(n) if is_sym(S.tree_awake[t])})
    if stage == "sleep":
      names.update({f"island{t}": S.tree_island[t] for t in range(n)})
      names["nisland"] = S.nisland
    rp = lambda qn: (lambda model: write_and_run(ctx, qn, {"kind": "stage", "stage": stage, "arrays": stage_arrays(model, m2, d2, stage)}))
    ctx.reach(sess, "twin:pre-state", True)
    ctx.reach(sess, "twin:two-cycle-and-awake-tree", And(cmp("==", S.tree_asleep0[0], 1), cmp("==", S.tree_asleep0[1], 0), cmp("==", S.tree_asleep0[2], -3)))
    if stage == "sleep":
      ref = spec_sleep(S)[1]
      ctx.reach(sess, "twin:island-of-two-falls-asleep", And(ref["sleeps"][0], ref["sleeps"][1], cmp("==", ref["isl"][0], ref["isl"][1]), cmp(">=", ref["isl"][0], 0), Not(ref["sleeps"][2])))
      ctx.reach(sess, "twin:island-held-awake-by-mate", And(cmp("==", ref["swept"][0], -1), Not(ref["sleeps"][0])))
    else:
      trig = {"wake": triggers_wake, "collision": triggers_collision, "tendon": triggers_tendon, "equality": triggers_equality}[stage](S)
      ctx.reach(sess, "twin:trigger-wakes-cycle-mate", And(trig[0], Not(trig[1]), same_cycle(S.tree_asleep0, 0, 1)))
      ctx.reach(sess, "twin:no-trigger", And(cmp(">=", S.tree_asleep0[0], 0), Not(Or(*trig))))
    for qn, (goal, guard, what) in stage_spec(stage, S).items():
      ctx.prove(sess, qn, goal, guard, names=names, replay=rp(qn), desc=f"{stage}: {what}")
    obligations(ctx, sess, hr, names, rp)

  return (f"stage/{stage}", run)


def real_stage(sp):
  stage = sp["stage"]
  mjm, m, d = build()
  for n, vals in sp["arrays"].items():
    obj = m if n.startswith("m.") else d
    for part in n[2:].split("."):
      obj = getattr(obj, part)
    a = obj.numpy()
    obj.assign(np.array(vals).reshape(a.shape).astype(a.dtype))
  S = View()
  run_stage(stage, m, d, S, reader)
  wp.synchronize()
  for text, f in state_pre(S, stage):
    if not conc(f):
      return False, f"replay input violates precondition: {text}"
  Q = stage_spec(stage, S)
  goal, guard, what = Q[sp["query"]]
  if not conc(guard):
    return False, "guard false on the real run"
  return (not conc(goal)), f"{what}; tree_asleep {S.tree_asleep0} -> {S.tree_asleep1} (tree_awake {S.tree_awake}, islands {S.tree_island}/{S.nisland})"


# ------------------------------------------------------------------------------------------------ replay plumbing


def write_and_run(ctx, qn, sp):
  d = os.path.join(report.VERIF, "replays", PID)
  os.makedirs(d, exist_ok=True)
  path = os.path.join(d, f"{ctx.unit.replace('/', '_')}.{qn.replace('/', '_')}.json")
  sp = dict(sp, property=PID, unit=ctx.unit, query=qn, how="cd /verif && PYTHONPATH=.deps:. python -m checks.c29 <this file>: builds the tiny model (checks.c29.XML), assigns the arrays, runs the real host function of the stage and evaluates the reference")
  with open(path, "w") as f:
    json.dump(sp, f)
  is_obl = qn.startswith(("bounds/", "unwind/"))
  p = subprocess.run([sys.executable, "-m", "checks.c29", path] + (["--debug"] if is_obl else []), cwd=report.VERIF, env=dict(os.environ), capture_output=True, text=True, timeout=900)
  out = (p.stdout + p.stderr).strip()
  ok, text = False, f"replay subprocess rc={p.returncode}: {out[-300:]}"
  if p.returncode not in (0, 3):
    ok, text = True, f"the real host function crashed / aborted on inputs satisfying the preconditions (rc={p.returncode}): {out[-300:]}"
  for line in out.splitlines():
    if line.startswith("REPRODUCED: "):
      ok, text = True, line[len("REPRODUCED: ") :]
    elif line.startswith("NOT-REPRODUCED: "):
      ok, text = False, line[len("NOT-REPRODUCED: ") :]
  sp["result"] = text
  with open(path, "w") as f:
    json.dump(sp, f)
  return ok, path


def main(tier, seed, only=None):
  units = [unit_stage(s) for s in ("sleep", "wake", "collision", "tendon", "equality")]
  if only:
    units = [u for u in units if any(o in u[0] for o in only)]
  return report.run_check(PID, units, tier, seed)


if __name__ == "__main__":
  wp.config.quiet = True
  sp_ = json.load(open(sys.argv[1]))
  if "--debug" in sys.argv:
    wp.config.mode = "debug"
    wp.config.kernel_cache_dir = os.path.join(report.VERIF, ".wpcache", "replay_debug")
  ok_, text_ = {"stage": real_stage}[sp_["kind"]](sp_)
  if "--debug" in sys.argv:
    print("NOT-REPRODUCED: completed under the bounds-checked build")
    sys.exit(3)
  print(("REPRODUCED: " if ok_ else "NOT-REPRODUCED: ") + str(text_).replace("\n", " "))
  sys.exit(0 if ok_ else 3)
