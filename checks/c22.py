"""C22 Jacobians are consistent with positions and velocities.

Solver queries (one generic thread, K mode, exact reals):
 refcheck     reference column of mj_jac validated against mujoco.mj_jac on a small tree
 jac_dof      support.jac_dof (through the kernel of mjw.jac) == mj_jac column: jacp = cdof_lin + cdof_ang x (point -
              subtree_com[root]), jacr = cdof_ang, zero for a dof that is not an ancestor of the body
 vel/*        every row builder: the velocity handed to efc.vel equals (Jacobian row written by the same thread) . qvel,
              dense and sparse (the obligations are the `vel=J*qvel` queries of the C05 harness, run here on their own).
              Contact rows take their velocity from efc.Jqvel written by the contact Jacobian kernels: the dense one uses
              the tile API, the sparse one (`_efc_contact_jac_sparse`) could not be encoded within the unit budget (the
              path conditions of its merged dof walk blow up in the simplifier) - no claim is made for them.
 dense=sparse joint / friction / limit builders: same inputs => dense row == scatter of the sparse row, same row fields
 tendon       _joint_tendon: Jacobian entry = coefficient = d(length)/d(qpos); _tendon_velocity / _actuator_velocity ==
              stored CSR row . qvel
"""

import z3

from checks import c05, lib
from checks import ref_c05 as rf
from wsym import core, kh, replay, report
from wsym.core import And, Implies, Not, Or, arith, cmp, is_sym, ite

PID = "C22"


# ------------------------------------------------------------------------------------------------ reference: mj_jac column


def ref_jac_col(isanc, cdof, com_root, point):
  """column of mj_jac for one dof: cdof = (angular; linear) motion axis in the frame centred at the subtree com of the
  tree root; a point moves with cdof_lin + cdof_ang x (point - com); zero if the dof is not an ancestor of the body"""
  off = rf.vsub(point, com_root)
  jp = rf.vadd(cdof[3:], rf.cross(cdof[:3], off))
  anc = rf.ne(isanc, 0)
  return [ite(anc, x, 0.0) for x in jp], [ite(anc, x, 0.0) for x in cdof[:3]]


def validate_jac():
  """ref_jac_col with MuJoCo's own cdof / subtree_com / kinematic tree vs mujoco.mj_jac"""
  import mujoco
  import numpy as np

  bad, n = [], 0
  mjm = mujoco.MjModel.from_xml_string(rf.BUILDERS_XML.format(cone="pyramidal", jac="dense"))
  rng = np.random.default_rng(3)
  for trial in range(4):
    mjd = mujoco.MjData(mjm)
    q = rng.uniform(-1, 1, mjm.nq)
    q[0:4] /= np.linalg.norm(q[0:4])
    q[8:12] /= np.linalg.norm(q[8:12])
    mjd.qpos[:] = q
    mujoco.mj_forward(mjm, mjd)
    for b in range(mjm.nbody):
      point = mjd.xipos[b] + rng.uniform(-0.3, 0.3, 3)
      jp, jr = np.zeros((3, mjm.nv)), np.zeros((3, mjm.nv))
      mujoco.mj_jac(mjm, mjd, jp, jr, point, b)
      for dof in range(mjm.nv):
        # dof is an ancestor of body b iff the dof's body is b or one of its ancestors
        anc, bb = 0, b
        while bb > 0:
          if bb == mjm.dof_bodyid[dof]:
            anc = 1
          bb = mjm.body_parentid[bb]
        rp, rr = ref_jac_col(anc, [float(x) for x in mjd.cdof[dof]], [float(x) for x in mjd.subtree_com[mjm.body_rootid[b]]], [float(x) for x in point])
        n += 1
        if not (np.allclose(rp, jp[:, dof], atol=1e-9) and np.allclose(rr, jr[:, dof], atol=1e-9)):
          bad.append(f"mj_jac body {b} dof {dof}: reference {rp} {rr} vs mujoco {jp[:, dof]} {jr[:, dof]}")
  return bad, n


def unit_refcheck(ctx):
  bad, n = validate_jac()
  ctx.notes.append(f"reference mj_jac column validated against mujoco.mj_jac on {n} (body, dof) columns")
  for b in bad[:5]:
    ctx.error("reference model disagrees with the mujoco library: " + b)
  ctx.reach(ctx.session([]), "twin:reference-validated", len(bad) == 0)


# ------------------------------------------------------------------------------------------------ jac_dof


def goal_jac(spec, pre, post):
  import numpy as np

  w, dof = spec["tid"]
  b = int(pre["bodyid_in"][w])
  point = [float(x) for x in pre["point_in"][w]]
  isanc = int(pre["body_isdofancestor"][b, dof])
  root = int(pre["body_rootid"][b])
  rp, rr = ref_jac_col(isanc, [float(x) for x in pre["cdof_in"][w, dof]], [float(x) for x in pre["subtree_com_in"][w, root]] if isanc else [0.0] * 3, point)
  bad = []
  for i in range(3):
    if not lib.approx(post["jacp_out"][w, i, dof], rp[i], rtol=2e-3, atol=1e-5):
      bad.append(f"jacp[{i}, {dof}] = {post['jacp_out'][w, i, dof]} vs mj_jac reference {rp[i]}")
    if not lib.approx(post["jacr_out"][w, i, dof], rr[i], rtol=2e-3, atol=1e-5):
      bad.append(f"jacr[{i}, {dof}] = {post['jacr_out'][w, i, dof]} vs mj_jac reference {rr[i]}")
  return (not bad), "; ".join(bad) or "column agrees with the reference"


def unit_jac_dof(ctx):
  from mujoco_warp._src import support

  k = support._make_jac_kernel(True, True)
  loc = "mujoco_warp._src.support:_make_jac_kernel(True, True)"
  ctx.encode(k, support.jac_dof)
  ctx.bound(shape_cap=6, note="one generic (world, dof) thread; body, point, cdof, subtree_com symbolic")
  ctx.assume("thread's own array accesses are in bounds (C17)", "floats are exact reals", "body_isdofancestor[b, d] != 0 iff dof d belongs to body b or one of its ancestors (model invariant built by put_model; the reference is validated against mujoco.mj_jac with MuJoCo's own tree)")
  kt = lib.kernel_thread(k, unroll=2)
  w, dof = kt.tid
  b = kt.pre("bodyid_in", w)
  point = [kt.pre("point_in", w, k=i) for i in range(3)]
  isanc = kt.pre("body_isdofancestor", b, dof)
  root = kt.pre("body_rootid", b)
  cdof = [kt.pre("cdof_in", w, dof, k=i) for i in range(6)]
  com = [kt.pre("subtree_com_in", w, root, k=i) for i in range(3)]
  rp, rr = ref_jac_col(isanc, cdof, com, point)
  sess = ctx.session(kt.bg)
  ctx.reach(sess, "twin:ancestor-dof", isanc != 0)
  ctx.reach(sess, "twin:unrelated-dof", isanc == 0)
  names = {"world": w, "dof": dof, "body": b, "isancestor": isanc}
  rp_ = lib.make_replay(ctx, kt, loc, "jac", "goal", goal="checks.c22:goal_jac", env={})
  for i in range(3):
    ctx.prove(sess, f"jacp/{i}", kt.post("jacp_out", w, i, dof) == core.to_z3(rp[i], "real"), True, names=names, replay=rp_, desc=f"jac(): translational Jacobian entry [{i}, dof] differs from the mj_jac column cdof_lin + cdof_ang x (point - subtree_com[root])")
    ctx.prove(sess, f"jacr/{i}", kt.post("jacr_out", w, i, dof) == core.to_z3(rr[i], "real"), True, names=names, replay=rp_, desc=f"jac(): rotational Jacobian entry [{i}, dof] differs from cdof_ang (0 for a non-ancestor dof)")
  for lab in ("jacp_out", "jacr_out"):
    i2, d2 = z3.Int("i2"), z3.Int("d2")
    ctx.prove(sess, f"writes-own-column-only/{lab}", Implies(kt.written(lab, w, i2, d2), d2 == dof), True, names=dict(names, i2=i2, d2=d2), replay=rp_, desc="jac(): a thread writes outside its own (world, dof) column")


# ------------------------------------------------------------------------------------------------ efc.vel = J . qvel


def unit_vel(builder, spec, U, only_rows=None):
  """the vel=J*qvel queries of the C05 row harness"""

  def run(ctx):
    from mujoco_warp._src import constraint, support

    tree = builder in c05.TREE
    rec = {}
    summ = c05.jac_summaries() if tree else (c05.ball_summaries(rec) if builder == "_limit_ball" else None)
    B = c05.Builder(ctx, builder, spec, U, summaries=summ)
    ctx.encode(constraint._efc_row)
    ctx.bound(unroll=U, note=f"nv, tendon row length, dof chains <= {U}")
    ctx.assume("thread's own array accesses are in bounds (C17)", "loop trip counts <= unroll bound", "rows fit njmax / njmax_nnz (C16)", "floats are exact reals", "`_efc_row` replaced by its recording contract (vel is copied to efc.vel: C05 efc_row unit)")
    if tree:
      ctx.assume("support.jac_dof / jac_dot_dof replaced by their contract (jac_dof's definition: unit jac_dof)")
    R = rf.SymReader(B.kt, U)
    if builder == "_limit_ball":
      exp = rf.expected_limit_ball(R, (rec["axis"], rec["angle"]))
    else:
      exp = c05.TREE[builder](R, spec[0]) if tree else c05.SIMPLE[builder](R)
    c05.check_rows(B, exp, B.w, B.kt.args["nv"], only_rows=only_rows, common=False, only_goals=("emitted", "vel=J*qvel"))

  sfx = "" if only_rows is None else "/row" + "+".join(map(str, only_rows))
  return (f"vel/{builder}/{'sparse' if spec[0] else 'dense'}{sfx}", run)


# ------------------------------------------------------------------------------------------------ dense == sparse

REL_FIELDS = ["type", "id", "pos", "margin", "D", "vel", "aref", "frictionloss"]


def goal_rel(spec, pres, posts):
  return True, "relational query: no single-kernel replay (both specialisations are replayed by the C05 row queries)"


def unit_dense_sparse(builder, U):
  def run(ctx):
    from mujoco_warp._src import constraint

    Bd = c05.Builder(ctx, builder, (False, True), U)
    Bs = c05.Builder(ctx, builder, (True, True), U)
    ctx.encode(constraint._efc_row)
    ctx.bound(unroll=U, note=f"nv, tendon row length <= {U}")
    ctx.assume("both specialisations run on the same symbolic inputs (same array symbols)", "thread's own accesses in bounds, loops <= unroll bound, rows fit", "floats are exact reals", "`_efc_row` replaced by the same recording contract in both runs")
    R = rf.SymReader(Bd.kt, U)
    exp = c05.SIMPLE[builder](R)
    w = Bd.w
    nv = Bd.kt.args["nv"]
    bg = Bd.kt.bg + Bs.kt.bg + Bd.counters(w) + Bs.counters(w) + [core.zbool(c) for _, c in exp["pre"]]
    act = Or(exp["act"], exp.get("both", False))
    G = And(act, Bd.fits(1), Bs.fits(1))
    ctx.reach(ctx.session(bg), "twin:active-in-both", G)
    er = Bd.e0
    names = {"w": w, "nefc0": er}
    def rp(m):
      # dense != sparse implies that at least one of them differs from the MuJoCo reference row: replay both specialisations
      # of the real kernel on the model's inputs against the reference
      out = []
      for Bx in (Bd, Bs):
        try:
          ok, path = Bx.replay("rel", "rows")(m)
        except Exception as ex:
          ok, path = False, f"{type(ex).__name__}: {ex}"
        if ok:
          return True, path
        out.append(str(path)[:200])
      return False, " | ".join(out)
    c = z3.Int("c")
    gd, ad = Bd.rows[0]
    gs, as_ = Bs.rows[0]
    sess = ctx.session(bg)
    ctx.prove(sess, "both-emit", And(gd, gs), G, names=names, replay=rp, desc=f"{builder}: one specialisation assembles the row, the other does not")
    for f in c05.ROWIN:
      if f in ("solref", "solimp"):
        goal = And(*[cmp("==", x, y) for x, y in zip(ad[f].c, as_[f].c)])
      else:
        goal = cmp("==", ad[f], as_[f])
      c05.prove_hard(ctx, bg, f"same/{f}", goal, G, exp.get("cases"), And(G, cmp("<=", nv, U)), path=And(gd, gs), names=names, replay=rp, desc=f"{builder}: dense and sparse specialisations hand a different {f} to _efc_row")
    goal = cmp("==", Bd.kt.post("efc_J_out", w, er, c), Bs.written_J(w, er, c))
    c05.prove_hard(ctx, bg, "J:dense==scatter(sparse)", goal, And(G, c >= 0, cmp("<", c, nv)), exp.get("cases"), And(G, cmp("<=", nv, U)), path=And(gd, gs), names=dict(names, c=c), replay=rp, desc=f"{builder}: dense Jacobian row differs from the scatter of the sparse row")

  return (f"dense=sparse/{builder}", run)


# ------------------------------------------------------------------------------------------------ tendon / actuator


def goal_dot(spec, pre, post):
  e = spec["env"]
  w, i = spec["tid"]
  if e["kind"] == "tendon":
    nnz, adr = int(pre["ten_J_rownnz"][i]), int(pre["ten_J_rowadr"][i])
    s = sum(float(pre["ten_J_in"][w, adr + k]) * float(pre["qvel_in"][w, int(pre["ten_J_colind"][adr + k])]) for k in range(nnz))
    got = float(post["ten_velocity_out"][w, i])
  else:
    nnz, adr = int(pre["moment_rownnz_in"][w, i]), int(pre["moment_rowadr_in"][w, i])
    s = sum(float(pre["actuator_moment_in"][w, adr + k]) * float(pre["qvel_in"][w, int(pre["moment_colind_in"][w, adr + k])]) for k in range(nnz))
    got = float(post["actuator_velocity_out"][w, i])
  return lib.approx(got, s, rtol=2e-3, atol=1e-5), f"velocity = {got} vs stored Jacobian row . qvel = {s}"


def unit_velocity(kind, U):
  def run(ctx):
    from mujoco_warp._src import forward

    k = forward._tendon_velocity if kind == "tendon" else forward._actuator_velocity
    loc = f"mujoco_warp._src.forward:{'_tendon_velocity' if kind == 'tendon' else '_actuator_velocity'}"
    ctx.encode(k)
    ctx.bound(unroll=U, note=f"row length <= {U}")
    ctx.assume("thread's own array accesses are in bounds (C17)", "loop trip counts <= unroll bound", "floats are exact reals")
    kt = lib.kernel_thread(k, unroll=U)
    w, i = kt.tid
    if kind == "tendon":
      nnz, adr = kt.pre("ten_J_rownnz", i), kt.pre("ten_J_rowadr", i)
      terms = [ite(cmp("<", kk, nnz), arith("*", kt.pre("ten_J_in", w, arith("+", adr, kk)), kt.pre("qvel_in", w, kt.pre("ten_J_colind", arith("+", adr, kk)))), 0.0) for kk in range(U)]
      out = kt.post("ten_velocity_out", w, i)
    else:
      nnz, adr = kt.pre("moment_rownnz_in", w, i), kt.pre("moment_rowadr_in", w, i)
      terms = [ite(cmp("<", kk, nnz), arith("*", kt.pre("actuator_moment_in", w, arith("+", adr, kk)), kt.pre("qvel_in", w, kt.pre("moment_colind_in", w, arith("+", adr, kk)))), 0.0) for kk in range(U)]
      out = kt.post("actuator_velocity_out", w, i)
    bg = kt.bg + [nnz >= 0]
    # the stored CSR row lies inside the arrays (so that counterexamples are complete inputs)
    ctx.assume("the CSR row [rowadr, rowadr+rownnz) lies inside the index/value arrays and its columns inside qvel")
    for kk in range(U):
      pos = arith("+", adr, kk)
      if kind == "tendon":
        inside = And(kt.inshape("ten_J_colind", pos), kt.inshape("ten_J_in", w, pos), kt.inshape("qvel_in", w, kt.pre("ten_J_colind", pos)))
      else:
        inside = And(kt.inshape("moment_colind_in", w, pos), kt.inshape("actuator_moment_in", w, pos), kt.inshape("qvel_in", w, kt.pre("moment_colind_in", w, pos)))
      bg.append(core.zbool(Implies(cmp("<", kk, nnz), inside)))
    ctx.reach(ctx.session(bg), "twin:non-empty-row", nnz >= 1)
    rp = lib.make_replay(ctx, kt, loc, "dot", "goal", goal="checks.c22:goal_dot", env={"kind": kind})
    c05.prove_hard(ctx, bg, "velocity=J*qvel", cmp("==", out, rf.vsum(terms)), True, None, True, names={"w": w, "i": i, "rownnz": nnz}, replay=rp, desc=f"{kind} velocity differs from (stored CSR Jacobian / moment row) * qvel")

  return (f"tendon/{kind}_velocity", run)


def goal_joint_tendon(spec, pre, post):
  w, wrapid = spec["tid"]
  ten = int(pre["tendon_jnt_adr"][wrapid])
  wj = int(pre["wrap_jnt_adr"][wrapid])
  obj, prm = int(pre["wrap_objid"][wj]), float(pre["wrap_prm"][wj])
  dof = int(pre["jnt_dofadr"][obj])
  adr, nnz = int(pre["ten_J_rowadr"][ten]), int(pre["ten_J_rownnz"][ten])
  bad = []
  ks = [k for k in range(nnz) if int(pre["ten_J_colind"][adr + k]) == dof]
  if ks and not lib.approx(post["ten_J_out"][w, adr + ks[0]], prm):
    bad.append(f"ten_J at column {dof} = {post['ten_J_out'][w, adr + ks[0]]}, coefficient {prm}")
  dl = float(post["ten_length_out"][w, ten] - pre["ten_length_out"][w, ten])
  want = prm * float(pre["qpos_in"][w, int(pre["jnt_qposadr"][obj])])
  if not lib.approx(dl, want, rtol=2e-3, atol=1e-5):
    bad.append(f"length contribution {dl} vs coef*qpos {want}")
  return (not bad), "; ".join(bad) or "agrees"


def unit_joint_tendon(ctx):
  from mujoco_warp._src import smooth

  k = smooth._joint_tendon
  loc = "mujoco_warp._src.smooth:_joint_tendon"
  U = 3
  ctx.encode(k)
  ctx.bound(unroll=U, note=f"tendon row length <= {U}")
  ctx.assume("thread's own array accesses are in bounds (C17)", "loop trip counts <= unroll bound", "floats are exact reals", "the tendon's CSR row contains the joint's dof column exactly once (model invariant: mjModel.ten_J_colind)")
  kt = lib.kernel_thread(k, unroll=U)
  w, wrapid = kt.tid
  ten = kt.pre("tendon_jnt_adr", wrapid)
  wj = kt.pre("wrap_jnt_adr", wrapid)
  obj, prm = kt.pre("wrap_objid", wj), kt.pre("wrap_prm", wj)
  dof, qadr = kt.pre("jnt_dofadr", obj), kt.pre("jnt_qposadr", obj)
  adr, nnz = kt.pre("ten_J_rowadr", ten), kt.pre("ten_J_rownnz", ten)
  kk = z3.Int("k")
  col = lambda j: kt.pre("ten_J_colind", arith("+", adr, j))
  once = And(*[Implies(And(cmp("<", a, nnz), cmp("<", b, nnz)), Or(col(a) != dof, col(b) != dof)) for a in range(U) for b in range(a + 1, U)])
  bg = kt.bg + [nnz >= 0, nnz <= U, once]
  sess = ctx.session(bg)
  hit = And(kk >= 0, cmp("<", kk, nnz), col(kk) == dof)
  ctx.reach(sess, "twin:joint-in-row", hit)
  rp = lib.make_replay(ctx, kt, loc, "jt", "goal", goal="checks.c22:goal_joint_tendon", env={})
  names = {"w": w, "wrap": wrapid, "tendon": ten, "dof": dof, "k": kk}
  # length contribution and its derivative: L += coef * qpos[joint]  =>  dL/dq = coef = the Jacobian entry written
  ctx.prove(sess, "length+=coef*qpos", cmp("==", kt.atomic_total("ten_length_out", w, ten), arith("*", prm, kt.pre("qpos_in", w, qadr))), True, names=names, replay=rp, desc="_joint_tendon: the length contribution is not coef * qpos[joint]")
  ctx.prove(sess, "J[dof]=coef", And(kt.written("ten_J_out", w, arith("+", adr, kk)), cmp("==", kt.post("ten_J_out", w, arith("+", adr, kk)), prm)), hit, names=names, replay=rp, desc="_joint_tendon: the Jacobian entry at the joint's dof column is not the coefficient (= derivative of the length contribution)")
  j2 = z3.Int("j2")
  ctx.prove(sess, "no-other-entry-written", Implies(kt.written("ten_J_out", w, j2), And(cmp(">=", j2, adr), cmp("<", j2, arith("+", adr, nnz)), kt.pre("ten_J_colind", j2) == dof)), True, names=dict(names, j2=j2), replay=rp, desc="_joint_tendon: writes a Jacobian entry of another column / another tendon")


# ------------------------------------------------------------------------------------------------ spatial tendons
# Modular proof of the Jacobian structure of spatial tendons:
#  (1) chain unit: smooth._accumulate_jac_chain(offset, vec, body, scale) adds, to every stored entry (column c) of the
#      tendon's CSR row, scale * vec . (cdof_lin[c] + cdof_ang[c] x offset) if dof c belongs to `body` or one of its
#      ancestors and nothing otherwise - i.e. scale * vec . jacp(point, body)[:, c] with the mj_jac column of the jac_dof
#      unit when offset = point - subtree_com[root(body)];
#  (2) site / geom units: with (1) as the contract of _accumulate_jac_chain, every straight segment p_a (body a) -> p_b
#      (body b) issues exactly the two calls (offset_a about a's own tree root, -pulley) and (offset_b about b's own tree
#      root, +pulley) with vec = unit(p_b - p_a), and the length contribution is pulley * (segment lengths + arc).
# The wrap geometry (util_misc.wrap: tangent points, arc length) is an uninterpreted function: outside.


def chain_terms(kt, U):
  A = kt.args
  b0 = A["bodyid"]
  chain, alive = [b0], [cmp(">", b0, 0)]
  for i in range(U):
    nxt = kt.pre("body_parentid", chain[i])
    chain.append(nxt)
    alive.append(And(alive[i], cmp(">", nxt, 0)))
  da = [kt.pre("body_dofadr", c) for c in chain]
  dn = [kt.pre("body_dofnum", c) for c in chain]
  return chain, alive, da, dn


def chain_cases(kt, U, D):
  """complete case split of the integer structure _accumulate_jac_chain walks (chain of <= U bodies with <= U dofs each,
  dof ids < D, CSR row of <= U sorted columns < D): (name, substitutions, guard)"""
  import itertools

  A = kt.args
  chain, alive, da, dn = chain_terms(kt, U)
  rowadr, rownnz = A["rowadr"], A["rownnz"]
  col = lambda k: kt.pre("ten_J_colind", arith("+", rowadr, k))
  rows = []
  for r in range(U + 1):
    for cols in itertools.combinations(range(D), r):
      rows.append((f"{r}:{','.join(map(str, cols))}", [(rownnz, r)] + [(col(k), cols[k]) for k in range(r)]))
  out = []

  def bodies(i, n, hi, acc):
    # dof blocks of bodies i..n-1, each strictly below `hi` (parents' dofs precede the child's)
    if i == n:
      yield list(acc)
      return
    yield from bodies(i + 1, n, hi, acc + [(0, None)])
    for num in range(1, U + 1):
      for adr in range(0, hi - num + 1):
        yield from bodies(i + 1, n, adr, acc + [(num, adr)])

  for n in range(U + 1):
    g = And(*[cmp(">", chain[i], 0) for i in range(n)], cmp("<=", chain[n], 0))
    for bl in bodies(0, n, D, []):
      sb = []
      for i, (num, adr) in enumerate(bl):
        sb.append((dn[i], num))
        if num:
          sb.append((da[i], adr))
      nm = "/".join("-" if not num else f"{adr}+{num}" for num, adr in bl) or "none"
      for rn, rs in rows:
        out.append((f"{nm}|{rn}", sb + rs, g))
  return out


def chain_pre(kt, U, D):
  A = kt.args
  chain, alive, da, dn = chain_terms(kt, U)
  rowadr, rownnz = A["rowadr"], A["rownnz"]
  col = lambda k: kt.pre("ten_J_colind", arith("+", rowadr, k))
  pre = [Not(alive[U]), rownnz >= 0, rownnz <= U]
  for i in range(U):
    pre.append(Implies(alive[i], And(dn[i] >= 0, dn[i] <= U, Implies(dn[i] > 0, And(da[i] >= 0, da[i] + dn[i] <= D)))))
    for j in range(i + 1, U):
      for m in range(i, j):
        pass
    # the nearest dof-bearing ancestor's block ends before this body's block starts (depth-first dof numbering)
    for j in range(i + 1, U):
      between = And(*[dn[m] == 0 for m in range(i + 1, j)])
      pre.append(Implies(And(alive[j], dn[i] > 0, dn[j] > 0), da[j] + dn[j] <= da[i]))
  for k in range(U):
    pre.append(Implies(k < rownnz, And(col(k) >= 0, col(k) < D)))
    if k + 1 < U:
      pre.append(Implies(k + 1 < rownnz, col(k) < col(k + 1)))
  return [core.zbool(x) for x in pre]


def goal_chain(spec, pre, post):
  import numpy as np

  g = lambda l: c05._scal(spec, l)
  b, w, rowadr, rownnz, scale = int(g("bodyid")), int(g("worldid")), int(g("rowadr")), int(g("rownnz")), float(np.float32(g("scale")))
  off, vec = [float(np.float32(x)) for x in g("offset")], [float(np.float32(x)) for x in g("vec")]
  anc = set()
  while b > 0:
    a, n = int(pre["body_dofadr"][b]), int(pre["body_dofnum"][b])
    anc |= set(range(a, a + n))
    b = int(pre["body_parentid"][b])
  bad = []
  for k in range(rownnz):
    c = int(pre["ten_J_colind"][rowadr + k])
    want = 0.0
    if c in anc:
      cd = [float(x) for x in pre["cdof_in"][w, c]]
      jp = rf.vadd(cd[3:], rf.cross(cd[:3], off))
      want = rf.dot(jp, vec) * scale
    got = float(post["ten_J_out"][w, rowadr + k] - pre["ten_J_out"][w, rowadr + k])
    if not lib.approx(got, want, rtol=2e-3, atol=1e-5):
      bad.append(f"entry {k} (column {c}): added {got}, reference scale*vec.jacp = {want}")
  return (not bad), "; ".join(bad) or "agrees"


def unit_chain(U, D):
  def run(ctx):
    from checks import kernels_c22 as K
    from mujoco_warp._src import smooth

    k = K.accumulate_jac_chain_wrap
    loc = "checks.kernels_c22:accumulate_jac_chain_wrap"
    ctx.encode(smooth._accumulate_jac_chain)
    ctx.bound(unroll=U, max_dof_id=D, note=f"body chain <= {U} bodies, <= {U} dofs per body, dof ids < {D}, CSR row <= {U} entries")
    ctx.assume("the call's own array accesses are in bounds (C17)", "loop trip counts <= unroll bound", "floats are exact reals", "depth-first dof numbering: an ancestor body's dofs precede its descendants' dofs; CSR columns strictly increasing (MuJoCo model invariants)")
    kt = lib.kernel_thread(k, unroll=U)
    A = kt.args
    w, rowadr, rownnz, scale = A["worldid"], A["rowadr"], A["rownnz"], A["scale"]
    off, vec = A["offset"].c, A["vec"].c
    chain, alive, da, dn = chain_terms(kt, U)
    bg = kt.bg + chain_pre(kt, U, D)
    cases = chain_cases(kt, U, D)
    ctx.bound(case_split=f"{len(cases)} integer structures (dof blocks of the chain x CSR column patterns), complete under the bounds (cases-cover query)")
    col = lambda kk: kt.pre("ten_J_colind", arith("+", rowadr, kk))
    ANC = lambda d: Or(*[And(alive[i], cmp("<=", da[i], d), cmp("<", d, arith("+", da[i], dn[i]))) for i in range(U)])
    ctx.reach(ctx.session(bg), "twin:ancestor-entry", And(alive[0], rownnz >= 1, ANC(col(0))))
    ctx.reach(ctx.session(bg), "twin:non-ancestor-entry", And(alive[0], rownnz >= 1, Not(ANC(col(0)))))
    rp = lib.make_replay(ctx, kt, loc, "chain", "goal", goal="checks.c22:goal_chain", env={"randomize_floats": 2})
    names = {"body": A["bodyid"], "world": w, "rowadr": rowadr, "rownnz": rownnz}
    for kk in range(U):
      d = col(kk)
      cd = [kt.pre("cdof_in", w, d, k=i) for i in range(6)]
      jp = rf.vadd(cd[3:], rf.cross(cd[:3], off))
      want = ite(ANC(d), arith("*", rf.dot(jp, vec), scale), 0.0)
      goal = cmp("==", kt.atomic_total("ten_J_out", w, arith("+", rowadr, kk)), want)
      c05.prove_hard(ctx, bg, f"entry{kk}=scale*vec.jacp", goal, cmp("<", kk, rownnz), cases, True, cases_first=True, names=names, replay=rp, desc=f"_accumulate_jac_chain: the amount added to CSR entry {kk} is not scale * vec . (cdof_lin + cdof_ang x offset) of an ancestor dof (0 for other columns)")
    j2, w2 = z3.Int("j2"), z3.Int("w2")
    ctx.prove(ctx.session(bg), "writes-own-row-only", Implies(kt.written("ten_J_out", w2, j2), And(w2 == w, j2 >= rowadr, j2 < rowadr + rownnz)), True, names=dict(names, j2=j2, w2=w2), replay=rp, desc="_accumulate_jac_chain writes outside the tendon's CSR row / world")

  return ("spatial/accumulate_jac_chain", run)


def main(tier, seed, only=None):
  U = 3
  units = [("refcheck", unit_refcheck), ("jac_dof", unit_jac_dof), ("jac_dot_dof", c05.unit_jac_dot_dof), unit_chain(2, 4), ("tendon/joint_tendon", unit_joint_tendon), unit_velocity("tendon", U), unit_velocity("actuator", U)]
  for b in c05.SIMPLE:
    for sp in ((False, True), (True, True)):
      units.append(unit_vel(b, sp, 2 if b == "_equality_tendon" and (sp[0] or tier == "quick") else U))
    units.append(unit_dense_sparse(b, 2 if b == "_equality_tendon" else U))
  for sp in ((False, True), (True, True)):
    units.append(unit_vel("_limit_ball", sp, 3))
    UT = 2 if (sp[0] or tier == "quick") else 3
    for r in range(3):
      units.append(unit_vel("_equality_connect", sp, UT if sp[0] else U, only_rows=[r]))
    for r in (range(6) if tier == "thorough" else (0, 3)):
      if sp[0] and r >= 3:
        continue  # sparse weld rotational rows exceed the unit budget (chain-pair cases x quaternion algebra): not claimed
      units.append(unit_vel("_equality_weld", sp, UT, only_rows=[r]))
  if only:
    units = [u for u in units if any(o in u[0] for o in only)]
  return report.run_check(PID, units, tier, seed)
