"""C22 Jacobians are consistent with positions and velocities.

Solver queries (one generic thread, K mode, exact reals):
 refcheck     reference column of mj_jac validated against mujoco.mj_jac on a small tree
 jac_dof      support.jac_dof (through the kernel of mjw.jac) == mj_jac column: jacp = cdof_lin + cdof_ang x (point -
              subtree_com[root]), jacr = cdof_ang, zero for a dof that is not an ancestor of the body
 vel/*        every row builder: the velocity handed to efc.vel equals (Jacobian row written by the same thread) . qvel,
              dense and sparse (the obligations are the `vel=J*qvel` queries of the C05 harness, run here on their own).
              Contact rows take their velocity from efc.Jqvel written by the contact Jacobian kernels: the dense one uses
              the tile API, the sparse one (`_efc_contact_jac_sparse`) could not be encoded within the unit budget (the
              path conditions of its merged dof walk blow up in the simplifier) - no claim is made for them.
 dense=sparse joint / friction / limit builders: same inputs => dense row == scatter of the sparse row, same row fields
 tendon       _joint_tendon: Jacobian entry = coefficient = d(length)/d(qpos); _tendon_velocity / _actuator_velocity ==
              stored CSR row . qvel
"""

import z3

from checks import c05, lib
from checks import ref_c05 as rf
from wsym import core, kh, replay, report
from wsym.core import And, Implies, Not, Or, arith, cmp, is_sym, ite

PID = "C22"


# ------------------------------------------------------------------------------------------------ reference: mj_jac column


def ref_jac_col(isanc, cdof, com_root, point):
  """column of mj_jac for one dof: cdof = (angular; linear) motion axis in the frame centred at the subtree com of the
  tree root; a point moves with cdof_lin + cdof_ang x (point - com); zero if the dof is not an ancestor of the body"""
  off = rf.vsub(point, com_root)
  jp = rf.vadd(cdof[3:], rf.cross(cdof[:3], off))
  anc = rf.ne(isanc, 0)
  return [ite(anc, x, 0.0) for x in jp], [ite(anc, x, 0.0) for x in cdof[:3]]


def validate_jac():
  """ref_jac_col with MuJoCo's own cdof / subtree_com / kinematic tree vs mujoco.mj_jac"""
  import mujoco
  import numpy as np

  bad, n = [], 0
  mjm = mujoco.MjModel.from_xml_string(rf.BUILDERS_XML.format(cone="pyramidal", jac="dense"))
  rng = np.random.default_rng(3)
  for trial in range(4):
    mjd = mujoco.MjData(mjm)
    q = rng.uniform(-1, 1, mjm.nq)
    q[0:4] /= np.linalg.norm(q[0:4])
    q[8:12] /= np.linalg.norm(q[8:12])
    mjd.qpos[:] = q
    mujoco.mj_forward(mjm, mjd)
    for b in range(mjm.nbody):
      point = mjd.xipos[b] + rng.uniform(-0.3, 0.3, 3)
      jp, jr = np.zeros((3, mjm.nv)), np.zeros((3, mjm.nv))
      mujoco.mj_jac(mjm, mjd, jp, jr, point, b)
      for dof in range(mjm.nv):
        # dof is an ancestor of body b iff the dof's body is b or one of its ancestors
        anc, bb = 0, b
        while bb > 0:
          if bb == mjm.dof_bodyid[dof]:
            anc = 1
          bb = mjm.body_parentid[bb]
        rp, rr = ref_jac_col(anc, [float(x) for x in mjd.cdof[dof]], [float(x) for x in mjd.subtree_com[mjm.body_rootid[b]]], [float(x) for x in point])
        n += 1
        if not (np.allclose(rp, jp[:, dof], atol=1e-9) and np.allclose(rr, jr[:, dof], atol=1e-9)):
          bad.append(f"mj_jac body {b} dof {dof}: reference {rp} {rr} vs mujoco {jp[:, dof]} {jr[:, dof]}")
  return bad, n


def unit_refcheck(ctx):
  bad, n = validate_jac()
  ctx.notes.append(f"reference mj_jac column validated against mujoco.mj_jac on {n} (body, dof) columns")
  for b in bad[:5]:
    ctx.error("reference model disagrees with the mujoco library: " + b)
  ctx.reach(ctx.session([]), "twin:reference-validated", len(bad) == 0)


# ------------------------------------------------------------------------------------------------ jac_dof


def goal_jac(spec, pre, post):
  import numpy as np

  w, dof = spec["tid"]
  b = int(pre["bodyid_in"][w])
  point = [float(x) for x in pre["point_in"][w]]
  isanc = int(pre["body_isdofancestor"][b, dof])
  root = int(pre["body_rootid"][b])
  rp, rr = ref_jac_col(isanc, [float(x) for x in pre["cdof_in"][w, dof]], [float(x) for x in pre["subtree_com_in"][w, root]] if isanc else [0.0] * 3, point)
  bad = []
  for i in range(3):
    if not lib.approx(post["jacp_out"][w, i, dof], rp[i], rtol=2e-3, atol=1e-5):
      bad.append(f"jacp[{i}, {dof}] = {post['jacp_out'][w, i, dof]} vs mj_jac reference {rp[i]}")
    if not lib.approx(post["jacr_out"][w, i, dof], rr[i], rtol=2e-3, atol=1e-5):
      bad.append(f"jacr[{i}, {dof}] = {post['jacr_out'][w, i, dof]} vs mj_jac reference {rr[i]}")
  return (not bad), "; ".join(bad) or "column agrees with the reference"


def unit_jac_dof(ctx):
  from mujoco_warp._src import support

  k = support._make_jac_kernel(True, True)
  loc = "mujoco_warp._src.support:_make_jac_kernel(True, True)"
  ctx.encode(k, support.jac_dof)
  ctx.bound(shape_cap=6, note="one generic (world, dof) thread; body, point, cdof, subtree_com symbolic")
  ctx.assume("thread's own array accesses are in bounds (C17)", "floats are exact reals", "body_isdofancestor[b, d] != 0 iff dof d belongs to body b or one of its ancestors (model invariant built by put_model; the reference is validated against mujoco.mj_jac with MuJoCo's own tree)")
  kt = lib.kernel_thread(k, unroll=2)
  w, dof = kt.tid
  b = kt.pre("bodyid_in", w)
  point = [kt.pre("point_in", w, k=i) for i in range(3)]
  isanc = kt.pre("body_isdofancestor", b, dof)
  root = kt.pre("body_rootid", b)
  cdof = [kt.pre("cdof_in", w, dof, k=i) for i in range(6)]
  com = [kt.pre("subtree_com_in", w, root, k=i) for i in range(3)]
  rp, rr = ref_jac_col(isanc, cdof, com, point)
  sess = ctx.session(kt.bg)
  ctx.reach(sess, "twin:ancestor-dof", isanc != 0)
  ctx.reach(sess, "twin:unrelated-dof", isanc == 0)
  names = {"world": w, "dof": dof, "body": b, "isancestor": isanc}
  rp_ = lib.make_replay(ctx, kt, loc, "jac", "goal", goal="checks.c22:goal_jac", env={})
  for i in range(3):
    ctx.prove(sess, f"jacp/{i}", kt.post("jacp_out", w, i, dof) == core.to_z3(rp[i], "real"), True, names=names, replay=rp_, desc=f"jac(): translational Jacobian entry [{i}, dof] differs from the mj_jac column cdof_lin + cdof_ang x (point - subtree_com[root])")
    ctx.prove(sess, f"jacr/{i}", kt.post("jacr_out", w, i, dof) == core.to_z3(rr[i], "real"), True, names=names, replay=rp_, desc=f"jac(): rotational Jacobian entry [{i}, dof] differs from cdof_ang (0 for a non-ancestor dof)")
  for lab in ("jacp_out", "jacr_out"):
    i2, d2 = z3.Int("i2"), z3.Int("d2")
    ctx.prove(sess, f"writes-own-column-only/{lab}", Implies(kt.written(lab, w, i2, d2), d2 == dof), True, names=dict(names, i2=i2, d2=d2), replay=rp_, desc="jac(): a thread writes outside its own (world, dof) column")


# ------------------------------------------------------------------------------------------------ efc.vel = J . qvel


def unit_vel(builder, spec, U, only_rows=None):
  """the vel=J*qvel queries of the C05 row harness"""

  def run(ctx):
    from mujoco_warp._src import constraint, support

    tree = builder in c05.TREE
    rec = {}
    summ = c05.jac_summaries() if tree else (c05.ball_summaries(rec) if builder == "_limit_ball" else None)
    B = c05.Builder(ctx, builder, spec, U, summaries=summ)
    ctx.encode(constraint._efc_row)
    ctx.bound(unroll=U, note=f"nv, tendon row length, dof chains <= {U}")
    ctx.assume("thread's own array accesses are in bounds (C17)", "loop trip counts <= unroll bound", "rows fit njmax / njmax_nnz (C16)", "floats are exact reals", "`_efc_row` replaced by its recording contract (vel is copied to efc.vel: C05 efc_row unit)")
    if tree:
      ctx.assume("support.jac_dof / jac_dot_dof replaced by their contract (jac_dof's definition: unit jac_dof)")
    R = rf.SymReader(B.kt, U)
    if builder == "_limit_ball":
      exp = rf.expected_limit_ball(R, (rec["axis"], rec["angle"]))
    else:
      exp = c05.TREE[builder](R, spec[0]) if tree else c05.SIMPLE[builder](R)
    c05.check_rows(B, exp, B.w, B.kt.args["nv"], only_rows=only_rows, common=False, only_goals=("emitted", "vel=J*qvel"))

  sfx = "" if only_rows is None else "/row" + "+".join(map(str, only_rows))
  return (f"vel/{builder}/{'sparse' if spec[0] else 'dense'}{sfx}", run)


# ------------------------------------------------------------------------------------------------ dense == sparse

REL_FIELDS = ["type", "id", "pos", "margin", "D", "vel", "aref", "frictionloss"]


def goal_rel(spec, pres, posts):
  return True, "relational query: no single-kernel replay (both specialisations are replayed by the C05 row queries)"


def unit_dense_sparse(builder, U):
  def run(ctx):
    from mujoco_warp._src import constraint

    Bd = c05.Builder(ctx, builder, (False, True), U)
    Bs = c05.Builder(ctx, builder, (True, True), U)
    ctx.encode(constraint._efc_row)
    ctx.bound(unroll=U, note=f"nv, tendon row length <= {U}")
    ctx.assume("both specialisations run on the same symbolic inputs (same array symbols)", "thread's own accesses in bounds, loops <= unroll bound, rows fit", "floats are exact reals", "`_efc_row` replaced by the same recording contract in both runs")
    R = rf.SymReader(Bd.kt, U)
    exp = c05.SIMPLE[builder](R)
    w = Bd.w
    nv = Bd.kt.args["nv"]
    bg = Bd.kt.bg + Bs.kt.bg + Bd.counters(w) + Bs.counters(w) + [core.zbool(c) for _, c in exp["pre"]]
    act = Or(exp["act"], exp.get("both", False))
    G = And(act, Bd.fits(1), Bs.fits(1))
    ctx.reach(ctx.session(bg), "twin:active-in-both", G)
    er = Bd.e0
    names = {"w": w, "nefc0": er}
    def rp(m):
      # dense != sparse implies that at least one of them differs from the MuJoCo reference row: replay both specialisations
      # of the real kernel on the model's inputs against the reference
      out = []
      for Bx in (Bd, Bs):
        try:
          ok, path = Bx.replay("rel", "rows")(m)
        except Exception as ex:
          ok, path = False, f"{type(ex).__name__}: {ex}"
        if ok:
          return True, path
        out.append(str(path)[:200])
      return False, " | ".join(out)
    c = z3.Int("c")
    gd, ad = Bd.rows[0]
    gs, as_ = Bs.rows[0]
    sess = ctx.session(bg)
    ctx.prove(sess, "both-emit", And(gd, gs), G, names=names, replay=rp, desc=f"{builder}: one specialisation assembles the row, the other does not")
    for f in c05.ROWIN:
      if f in ("solref", "solimp"):
        goal = And(*[cmp("==", x, y) for x, y in zip(ad[f].c, as_[f].c)])
      else:
        goal = cmp("==", ad[f], as_[f])
      c05.prove_hard(ctx, bg, f"same/{f}", goal, G, exp.get("cases"), And(G, cmp("<=", nv, U)), path=And(gd, gs), names=names, replay=rp, desc=f"{builder}: dense and sparse specialisations hand a different {f} to _efc_row")
    goal = cmp("==", Bd.kt.post("efc_J_out", w, er, c), Bs.written_J(w, er, c))
    c05.prove_hard(ctx, bg, "J:dense==scatter(sparse)", goal, And(G, c >= 0, cmp("<", c, nv)), exp.get("cases"), And(G, cmp("<=", nv, U)), path=And(gd, gs), names=dict(names, c=c), replay=rp, desc=f"{builder}: dense Jacobian row differs from the scatter of the sparse row")

  return (f"dense=sparse/{builder}", run)


# ------------------------------------------------------------------------------------------------ tendon / actuator


def goal_dot(spec, pre, post):
  e = spec["env"]
  w, i = spec["tid"]
  if e["kind"] == "tendon":
    nnz, adr = int(pre["ten_J_rownnz"][i]), int(pre["ten_J_rowadr"][i])
    s = sum(float(pre["ten_J_in"][w, adr + k]) * float(pre["qvel_in"][w, int(pre["ten_J_colind"][adr + k])]) for k in range(nnz))
    got = float(post["ten_velocity_out"][w, i])
  else:
    nnz, adr = int(pre["moment_rownnz_in"][w, i]), int(pre["moment_rowadr_in"][w, i])
    s = sum(float(pre["actuator_moment_in"][w, adr + k]) * float(pre["qvel_in"][w, int(pre["moment_colind_in"][w, adr + k])]) for k in range(nnz))
    got = float(post["actuator_velocity_out"][w, i])
  return lib.approx(got, s, rtol=2e-3, atol=1e-5), f"velocity = {got} vs stored Jacobian row . qvel = {s}"


def unit_velocity(kind, U):
  def run(ctx):
    from mujoco_warp._src import forward

    k = forward._tendon_velocity if kind == "tendon" else forward._actuator_velocity
    loc = f"mujoco_warp._src.forward:{'_tendon_velocity' if kind == 'tendon' else '_actuator_velocity'}"
    ctx.encode(k)
    ctx.bound(unroll=U, note=f"row length <= {U}")
    ctx.assume("thread's own array accesses are in bounds (C17)", "loop trip counts <= unroll bound", "floats are exact reals")
    kt = lib.kernel_thread(k, unroll=U)
    w, i = kt.tid
    if kind == "tendon":
      nnz, adr = kt.pre("ten_J_rownnz", i), kt.pre("ten_J_rowadr", i)
      terms = [ite(cmp("<", kk, nnz), arith("*", kt.pre("ten_J_in", w, arith("+", adr, kk)), kt.pre("qvel_in", w, kt.pre("ten_J_colind", arith("+", adr, kk)))), 0.0) for kk in range(U)]
      out = kt.post("ten_velocity_out", w, i)
    else:
      nnz, adr = kt.pre("moment_rownnz_in", w, i), kt.pre("moment_rowadr_in", w, i)
      terms = [ite(cmp("<", kk, nnz), arith("*", kt.pre("actuator_moment_in", w, arith("+", adr, kk)), kt.pre("qvel_in", w, kt.pre("moment_colind_in", w, arith("+", adr, kk)))), 0.0) for kk in range(U)]
      out = kt.post("actuator_velocity_out", w, i)
    bg = kt.bg + [nnz >= 0]
    # the stored CSR row lies inside the arrays (so that counterexamples are complete inputs)
    ctx.assume("the CSR row [rowadr, rowadr+rownnz) lies inside the index/value arrays and its columns inside qvel")
    for kk in range(U):
      pos = arith("+", adr, kk)
      if kind == "tendon":
        inside = And(kt.inshape("ten_J_colind", pos), kt.inshape("ten_J_in", w, pos), kt.inshape("qvel_in", w, kt.pre("ten_J_colind", pos)))
      else:
        inside = And(kt.inshape("moment_colind_in", w, pos), kt.inshape("actuator_moment_in", w, pos), kt.inshape("qvel_in", w, kt.pre("moment_colind_in", w, pos)))
      bg.append(core.zbool(Implies(cmp("<", kk, nnz), inside)))
    ctx.reach(ctx.session(bg), "twin:non-empty-row", nnz >= 1)
    rp = lib.make_replay(ctx, kt, loc, "dot", "goal", goal="checks.c22:goal_dot", env={"kind": kind})
    c05.prove_hard(ctx, bg, "velocity=J*qvel", cmp("==", out, rf.vsum(terms)), True, None, True, names={"w": w, "i": i, "rownnz": nnz}, replay=rp, desc=f"{kind} velocity differs from (stored CSR Jacobian / moment row) * qvel")

  return (f"tendon/{kind}_velocity", run)


def goal_joint_tendon(spec, pre, post):
  w, wrapid = spec["tid"]
  ten = int(pre["tendon_jnt_adr"][wrapid])
  wj = int(pre["wrap_jnt_adr"][wrapid])
  obj, prm = int(pre["wrap_objid"][wj]), float(pre["wrap_prm"][wj])
  dof = int(pre["jnt_dofadr"][obj])
  adr, nnz = int(pre["ten_J_rowadr"][ten]), int(pre["ten_J_rownnz"][ten])
  bad = []
  ks = [k for k in range(nnz) if int(pre["ten_J_colind"][adr + k]) == dof]
  if ks and not lib.approx(post["ten_J_out"][w, adr + ks[0]], prm):
    bad.append(f"ten_J at column {dof} = {post['ten_J_out'][w, adr + ks[0]]}, coefficient {prm}")
  dl = float(post["ten_length_out"][w, ten] - pre["ten_length_out"][w, ten])
  want = prm * float(pre["qpos_in"][w, int(pre["jnt_qposadr"][obj])])
  if not lib.approx(dl, want, rtol=2e-3, atol=1e-5):
    bad.append(f"length contribution {dl} vs coef*qpos {want}")
  return (not bad), "; ".join(bad) or "agrees"


def unit_joint_tendon(ctx):
  from mujoco_warp._src import smooth

  k = smooth._joint_tendon
  loc = "mujoco_warp._src.smooth:_joint_tendon"
  U = 3
  ctx.encode(k)
  ctx.bound(unroll=U, note=f"tendon row length <= {U}")
  ctx.assume("thread's own array accesses are in bounds (C17)", "loop trip counts <= unroll bound", "floats are exact reals", "the tendon's CSR row contains the joint's dof column exactly once (model invariant: mjModel.ten_J_colind)")
  kt = lib.kernel_thread(k, unroll=U)
  w, wrapid = kt.tid
  ten = kt.pre("tendon_jnt_adr", wrapid)
  wj = kt.pre("wrap_jnt_adr", wrapid)
  obj, prm = kt.pre("wrap_objid", wj), kt.pre("wrap_prm", wj)
  dof, qadr = kt.pre("jnt_dofadr", obj), kt.pre("jnt_qposadr", obj)
  adr, nnz = kt.pre("ten_J_rowadr", ten), kt.pre("ten_J_rownnz", ten)
  kk = z3.Int("k")
  col = lambda j: kt.pre("ten_J_colind", arith("+", adr, j))
  once = And(*[Implies(And(cmp("<", a, nnz), cmp("<", b, nnz)), Or(col(a) != dof, col(b) != dof)) for a in range(U) for b in range(a + 1, U)])
  bg = kt.bg + [nnz >= 0, nnz <= U, once]
  sess = ctx.session(bg)
  hit = And(kk >= 0, cmp("<", kk, nnz), col(kk) == dof)
  ctx.reach(sess, "twin:joint-in-row", hit)
  rp = lib.make_replay(ctx, kt, loc, "jt", "goal", goal="checks.c22:goal_joint_tendon", env={})
  names = {"w": w, "wrap": wrapid, "tendon": ten, "dof": dof, "k": kk}
  # length contribution and its derivative: L += coef * qpos[joint]  =>  dL/dq = coef = the Jacobian entry written
  ctx.prove(sess, "length+=coef*qpos", cmp("==", kt.atomic_total("ten_length_out", w, ten), arith("*", prm, kt.pre("qpos_in", w, qadr))), True, names=names, replay=rp, desc="_joint_tendon: the length contribution is not coef * qpos[joint]")
  ctx.prove(sess, "J[dof]=coef", And(kt.written("ten_J_out", w, arith("+", adr, kk)), cmp("==", kt.post("ten_J_out", w, arith("+", adr, kk)), prm)), hit, names=names, replay=rp, desc="_joint_tendon: the Jacobian entry at the joint's dof column is not the coefficient (= derivative of the length contribution)")
  j2 = z3.Int("j2")
  ctx.prove(sess, "no-other-entry-written", Implies(kt.written("ten_J_out", w, j2), And(cmp(">=", j2, adr), cmp("<", j2, arith("+", adr, nnz)), kt.pre("ten_J_colind", j2) == dof)), True, names=dict(names, j2=j2), replay=rp, desc="_joint_tendon: writes a Jacobian entry of another column / another tendon")


# ------------------------------------------------------------------------------------------------ spatial tendons
# Modular proof of the Jacobian structure of spatial tendons:
#  (1) chain unit: smooth._accumulate_jac_chain(offset, vec, body, scale) adds, to every stored entry (column c) of the
#      tendon's CSR row, scale * vec . (cdof_lin[c] + cdof_ang[c] x offset) if dof c belongs to `body` or one of its
#      ancestors and nothing otherwise - i.e. scale * vec . jacp(point, body)[:, c] with the mj_jac column of the jac_dof
#      unit when offset = point - subtree_com[root(body)];
#  (2) site / geom units: with (1) as the contract of _accumulate_jac_chain, every straight segment p_a (body a) -> p_b
#      (body b) issues exactly the two calls (offset_a about a's own tree root, -pulley) and (offset_b about b's own tree
#      root, +pulley) with vec = unit(p_b - p_a), and the length contribution is pulley * (segment lengths + arc).
# The wrap geometry (util_misc.wrap: tangent points, arc length) is an uninterpreted function: outside.


def chain_terms(kt, U):
  A = kt.args
  b0 = A["bodyid"]
  chain, alive = [b0], [cmp(">", b0, 0)]
  for i in range(U):
    nxt = kt.pre("body_parentid", chain[i])
    chain.append(nxt)
    alive.append(And(alive[i], cmp(">", nxt, 0)))
  da = [kt.pre("body_dofadr", c) for c in chain]
  dn = [kt.pre("body_dofnum", c) for c in chain]
  return chain, alive, da, dn


def chain_cases(kt, U, D):
  """complete case split of the integer structure _accumulate_jac_chain walks (chain of <= U bodies with <= U dofs each,
  dof ids < D, CSR row of <= U sorted columns < D): (name, substitutions, guard)"""
  import itertools

  A = kt.args
  chain, alive, da, dn = chain_terms(kt, U)
  rowadr, rownnz = A["rowadr"], A["rownnz"]
  col = lambda k: kt.pre("ten_J_colind", arith("+", rowadr, k))
  rows = []
  for r in range(U + 1):
    for cols in itertools.combinations(range(D), r):
      rows.append((f"{r}:{','.join(map(str, cols))}", [(rownnz, r)] + [(col(k), cols[k]) for k in range(r)]))
  out = []

  def bodies(i, n, hi, acc):
    # dof blocks of bodies i..n-1, each strictly below `hi` (parents' dofs precede the child's)
    if i == n:
      yield list(acc)
      return
    yield from bodies(i + 1, n, hi, acc + [(0, None)])
    for num in range(1, U + 1):
      for adr in range(0, hi - num + 1):
        yield from bodies(i + 1, n, adr, acc + [(num, adr)])

  for n in range(U + 1):
    g = And(*[cmp(">", chain[i], 0) for i in range(n)], cmp("<=", chain[n], 0))
    for bl in bodies(0, n, D, []):
      sb = []
      for i, (num, adr) in enumerate(bl):
        sb.append((dn[i], num))
        if num:
          sb.append((da[i], adr))
      nm = "/".join("-" if not num else f"{adr}+{num}" for num, adr in bl) or "none"
      for rn, rs in rows:
        out.append((f"{nm}|{rn}", sb + rs, g))
  return out


def chain_pre(kt, U, D):
  A = kt.args
  chain, alive, da, dn = chain_terms(kt, U)
  rowadr, rownnz = A["rowadr"], A["rownnz"]
  col = lambda k: kt.pre("ten_J_colind", arith("+", rowadr, k))
  pre = [Not(alive[U]), rownnz >= 0, rownnz <= U]
  for i in range(U):
    pre.append(Implies(alive[i], And(dn[i] >= 0, dn[i] <= U, Implies(dn[i] > 0, And(da[i] >= 0, da[i] + dn[i] <= D)))))
    for j in range(i + 1, U):
      for m in range(i, j):
        pass
    # the nearest dof-bearing ancestor's block ends before this body's block starts (depth-first dof numbering)
    for j in range(i + 1, U):
      between = And(*[dn[m] == 0 for m in range(i + 1, j)])
      pre.append(Implies(And(alive[j], dn[i] > 0, dn[j] > 0), da[j] + dn[j] <= da[i]))
  for k in range(U):
    pre.append(Implies(k < rownnz, And(col(k) >= 0, col(k) < D)))
    if k + 1 < U:
      pre.append(Implies(k + 1 < rownnz, col(k) < col(k + 1)))
  return [core.zbool(x) for x in pre]


def goal_chain(spec, pre, post):
  import numpy as np

  g = lambda l: c05._scal(spec, l)
  b, w, rowadr, rownnz, scale = int(g("bodyid")), int(g("worldid")), int(g("rowadr")), int(g("rownnz")), float(np.float32(g("scale")))
  off, vec = [float(np.float32(x)) for x in g("offset")], [float(np.float32(x)) for x in g("vec")]
  anc = set()
  while b > 0:
    a, n = int(pre["body_dofadr"][b]), int(pre["body_dofnum"][b])
    anc |= set(range(a, a + n))
    b = int(pre["body_parentid"][b])
  bad = []
  for k in range(rownnz):
    c = int(pre["ten_J_colind"][rowadr + k])
    want = 0.0
    if c in anc:
      cd = [float(x) for x in pre["cdof_in"][w, c]]
      jp = rf.vadd(cd[3:], rf.cross(cd[:3], off))
      want = rf.dot(jp, vec) * scale
    got = float(post["ten_J_out"][w, rowadr + k] - pre["ten_J_out"][w, rowadr + k])
    if not lib.approx(got, want, rtol=2e-3, atol=1e-5):
      bad.append(f"entry {k} (column {c}): added {got}, reference scale*vec.jacp = {want}")
  return (not bad), "; ".join(bad) or "agrees"


def unit_chain(U, D):
  def run(ctx):
    from checks import kernels_c22 as K
    from mujoco_warp._src import smooth

    k = K.accumulate_jac_chain_wrap
    loc = "checks.kernels_c22:accumulate_jac_chain_wrap"
    ctx.encode(smooth._accumulate_jac_chain)
    ctx.bound(unroll=U, max_dof_id=D, note=f"body chain <= {U} bodies, <= {U} dofs per body, dof ids < {D}, CSR row <= {U} entries")
    ctx.assume("the call's own array accesses are in bounds (C17)", "loop trip counts <= unroll bound", "floats are exact reals", "depth-first dof numbering: an ancestor body's dofs precede its descendants' dofs; CSR columns strictly increasing (MuJoCo model invariants)")
    kt = lib.kernel_thread(k, unroll=U)
    A = kt.args
    w, rowadr, rownnz, scale = A["worldid"], A["rowadr"], A["rownnz"], A["scale"]
    off, vec = A["offset"].c, A["vec"].c
    chain, alive, da, dn = chain_terms(kt, U)
    bg = kt.bg + chain_pre(kt, U, D)
    cases = chain_cases(kt, U, D)
    ctx.bound(case_split=f"{len(cases)} integer structures (dof blocks of the chain x CSR column patterns), complete under the bounds (cases-cover query)")
    col = lambda kk: kt.pre("ten_J_colind", arith("+", rowadr, kk))
    ANC = lambda d: Or(*[And(alive[i], cmp("<=", da[i], d), cmp("<", d, arith("+", da[i], dn[i]))) for i in range(U)])
    ctx.reach(ctx.session(bg), "twin:ancestor-entry", And(alive[0], rownnz >= 1, ANC(col(0))))
    ctx.reach(ctx.session(bg), "twin:non-ancestor-entry", And(alive[0], rownnz >= 1, Not(ANC(col(0)))))
    rp = lib.make_replay(ctx, kt, loc, "chain", "goal", goal="checks.c22:goal_chain", env={"randomize_floats": 2})
    names = {"body": A["bodyid"], "world": w, "rowadr": rowadr, "rownnz": rownnz}
    for kk in range(U):
      d = col(kk)
      cd = [kt.pre("cdof_in", w, d, k=i) for i in range(6)]
      jp = rf.vadd(cd[3:], rf.cross(cd[:3], off))
      want = ite(ANC(d), arith("*", rf.dot(jp, vec), scale), 0.0)
      goal = cmp("==", kt.atomic_total("ten_J_out", w, arith("+", rowadr, kk)), want)
      c05.prove_hard(ctx, bg, f"entry{kk}=scale*vec.jacp", goal, cmp("<", kk, rownnz), cases, True, cases_first=True, names=names, replay=rp, desc=f"_accumulate_jac_chain: the amount added to CSR entry {kk} is not scale * vec . (cdof_lin + cdof_ang x offset) of an ancestor dof (0 for other columns)")
    j2, w2 = z3.Int("j2"), z3.Int("w2")
    ctx.prove(ctx.session(bg), "writes-own-row-only", Implies(kt.written("ten_J_out", w2, j2), And(w2 == w, j2 >= rowadr, j2 < rowadr + rownnz)), True, names=dict(names, j2=j2, w2=w2), replay=rp, desc="_accumulate_jac_chain writes outside the tendon's CSR row / world")

  return ("spatial/accumulate_jac_chain", run)


CHAIN_IN = ["body_parentid", "body_dofnum", "body_dofadr", "ten_J_colind", "cdof_in", "offset", "vec", "bodyid", "rowadr", "rownnz", "scale", "worldid", "ten_J_out"]
MINVAL, MAXVAL = 1e-15, 1e10
mjWRAP_SPHERE = 4


def spatial_summaries(calls, rec):
  """contracts inside the spatial tendon kernels: _accumulate_jac_chain records its call (its effect is the chain unit);
  util_misc.wrap and math.normalize_with_norm are shared uninterpreted functions"""
  Rs, Is = z3.RealSort(), z3.IntSort()

  def chain(it, fr, args):
    g = it.active(fr)
    a = dict(zip(CHAIN_IN, args))
    calls.append((g, a))
    # first-level accesses of the real function (so that the body's entries exist in replayed models)
    gb = And(g, cmp(">", a["bodyid"], 0))
    for lab in ("body_dofadr", "body_dofnum", "body_parentid"):
      it.load(a[lab], (a["bodyid"],), gb, "_accumulate_jac_chain(contract)")
    return None

  def wrap(it, fr, args):
    x0, x1, pos, mat, radius, geomtype, side = args
    reals = [core.to_z3(v, "real") for v in list(x0.c) + list(x1.c) + list(pos.c) + list(mat.c) + [radius] + list(side.c)]
    zs = reals + [core.to_z3(geomtype, "int")]
    F = lambda nm: z3.Function(nm, *([Rs] * len(reals) + [Is, Rs]))(*zs)
    rec["wrap_args"] = args
    rec["L"], rec["g0"], rec["g1"] = F("WRAP_LEN"), [F(f"WRAP_P0_{i}") for i in range(3)], [F(f"WRAP_P1_{i}") for i in range(3)]
    return (rec["L"], core.Vec(rec["g0"], (3,), "f"), core.Vec(rec["g1"], (3,), "f"))

  def normalize_with_norm(it, fr, args):
    (x,) = args
    return unit_and_norm(x.c, vec=True)

  return {"_accumulate_jac_chain": chain, "wrap": wrap, "normalize_with_norm": normalize_with_norm}


def unit_and_norm(v, vec=False):
  Rs = z3.RealSort()
  zs = [core.to_z3(x, "real") for x in v]
  u = [z3.Function(f"NORMALIZED{i}", Rs, Rs, Rs, Rs)(*zs) for i in range(3)]
  n = z3.Function("NORM", Rs, Rs, Rs, Rs)(*zs)
  return (core.Vec(u, (3,), "f"), n) if vec else (u, n)


def seg_dir(pa, pb):
  """unit direction and length of the straight segment pa -> pb; MuJoCo: (1,0,0) when shorter than mjMINVAL"""
  u, n = unit_and_norm(rf.vsub(pb, pa))
  small = cmp("<", n, MINVAL)
  return [ite(small, c, x) for c, x in zip((1.0, 0.0, 0.0), u)], n


def check_segment(ctx, sess, kt, calls, i0, seg, tenid, w, pulley, names, rp, tag):
  """calls[i0], calls[i0+1] are the two _accumulate_jac_chain calls of the segment seg = (name, cond, pa, ba, pb, bb):
  issued iff cond and the bodies differ, with each point's offset about ITS OWN body's tree-root subtree_com"""
  name, cond, pa, ba, pb, bb = seg
  d, _ = seg_dir(pa, pb)
  # replayable witnesses: moving bodies in different trees (the solver's first model is replayed first)
  ra_, rb_ = kt.pre("body_rootid", ba), kt.pre("body_rootid", bb)
  nice = And(cmp(">", ba, 0), cmp(">", bb, 0), cmp("!=", ba, bb), cmp("!=", ra_, rb_), cmp(">=", ra_, 0), cmp(">=", rb_, 0))
  base_rp = rp
  mk_rp = lambda goal, guard: c05.robust_replay(ctx, kt.bg, core.zbool(goal), guard, nice, base_rp)
  rowadr, rownnz = kt.pre("ten_J_rowadr", tenid), kt.pre("ten_J_rownnz", tenid)
  want = And(cond, cmp("!=", ba, bb))
  for j, (pt, bd, sgn) in enumerate(((pa, ba, -1.0), (pb, bb, 1.0))):
    g, a = calls[i0 + j]
    com = [kt.pre("subtree_com_in", w, kt.pre("body_rootid", bd), k=i) for i in range(3)]
    off = rf.vsub(pt, com)
    end = "start" if j == 0 else "end"
    ctx.prove(sess, f"{name}/{end}/issued-iff", core.zbool(g) == core.zbool(want), True, names=names, replay=rp, desc=f"{tag}: segment {name}: the Jacobian contribution of its {end} point is issued under the wrong condition (must be: segment exists and its two bodies differ)")
    gl_ = And(*[cmp("==", x, y) for x, y in zip(a["offset"].c, off)])
    ctx.prove(sess, f"{name}/{end}/offset-about-own-root", gl_, want, names=names, replay=mk_rp(gl_, want), desc=f"{tag}: segment {name}: lever arm of the {end} point is not point - subtree_com[root of the point's own body]")
    gl_ = cmp("==", a["bodyid"], bd)
    ctx.prove(sess, f"{name}/{end}/body", gl_, want, names=names, replay=mk_rp(gl_, want), desc=f"{tag}: segment {name}: {end} point's Jacobian taken for the wrong body")
    gl_ = And(*[cmp("==", x, y) for x, y in zip(a["vec"].c, d)])
    ctx.prove(sess, f"{name}/{end}/direction", gl_, want, names=names, replay=mk_rp(gl_, want), desc=f"{tag}: segment {name}: projection direction is not the unit vector start -> end")
    gl_ = cmp("==", a["scale"], arith("*", sgn, pulley))
    ctx.prove(sess, f"{name}/{end}/scale", gl_, want, names=names, replay=mk_rp(gl_, want), desc=f"{tag}: segment {name}: {end} point must enter with {'-' if j == 0 else '+'}pulley scale (1/divisor)")
    gl_ = And(cmp("==", a["rowadr"], rowadr), cmp("==", a["rownnz"], rownnz), cmp("==", a["worldid"], w), a["ten_J_out"].cell is kt.cell("ten_J_out"), a["cdof_in"].cell is kt.cell("cdof_in"))
    ctx.prove(sess, f"{name}/{end}/row+world", gl_, want, names=names, replay=mk_rp(gl_, want), desc=f"{tag}: segment {name}: contribution goes to another tendon's CSR row / world")


def num_chain_J(pre, w, body, c):
  """does dof c move `body` (chain walk)"""
  while body > 0:
    a, n = int(pre["body_dofadr"][body]), int(pre["body_dofnum"][body])
    if a <= c < a + n:
      return True
    body = int(pre["body_parentid"][body])
  return False


def num_segment_J(pre, w, pa, ba, pb, bb, c):
  import numpy as np

  pa, pb = np.asarray(pa, dtype=float), np.asarray(pb, dtype=float)
  d = pb - pa
  n = np.linalg.norm(d)
  d = d / n if n >= MINVAL else np.array([1.0, 0.0, 0.0])
  if ba == bb:
    return 0.0, n
  out = 0.0
  cd = np.asarray(pre["cdof_in"][w, c], dtype=float)
  for pt, bd, sgn in ((pa, ba, -1.0), (pb, bb, 1.0)):
    if num_chain_J(pre, w, bd, c):
      off = pt - np.asarray(pre["subtree_com_in"][w, int(pre["body_rootid"][bd])], dtype=float)
      out += sgn * float(d @ (cd[3:] + np.cross(cd[:3], off)))
  return out, n


def goal_site_tendon(spec, pre, post):
  w, e = spec["tid"]
  adr, ten = int(pre["wrap_site_pair_adr"][e]), int(pre["tendon_site_pair_adr"][e])
  pul = float(pre["wrap_pulley_scale"][adr])
  i0, i1 = int(pre["wrap_objid"][adr]), int(pre["wrap_objid"][adr + 1])
  p0, p1 = pre["site_xpos_in"][w, i0], pre["site_xpos_in"][w, i1]
  b0, b1 = int(pre["site_bodyid"][i0]), int(pre["site_bodyid"][i1])
  ra, nnz = int(pre["ten_J_rowadr"][ten]), int(pre["ten_J_rownnz"][ten])
  bad = []
  n = 0.0
  for k in range(nnz):
    c = int(pre["ten_J_colind"][ra + k])
    j, n = num_segment_J(pre, w, p0, b0, p1, b1, c)
    got = float(post["ten_J_out"][w, ra + k] - pre["ten_J_out"][w, ra + k])
    if not lib.approx(got, pul * j, rtol=3e-3, atol=1e-4):
      bad.append(f"ten_J entry {k} (dof {c}): += {got}, reference pulley * dir.(jac(p1,b1) - jac(p0,b0)) = {pul * j}")
  return (not bad), "; ".join(bad) or "agrees"


def unit_site_tendon(ctx):
  from mujoco_warp._src import smooth

  k = smooth._spatial_site_tendon
  loc = "mujoco_warp._src.smooth:_spatial_site_tendon"
  calls, rec = [], {}
  ctx.encode(k)
  ctx.bound(shape_cap=6, note="one generic (world, site pair) thread; all ids symbolic")
  ctx.assume("thread's own array accesses are in bounds (C17)", "floats are exact reals", "`_accumulate_jac_chain` is replaced by a recording contract (its effect: unit spatial/accumulate_jac_chain)", "math.normalize_with_norm is a shared uninterpreted function (unit vector and norm)")
  kt = lib.kernel_thread(k, unroll=2, interp_kw={"summaries": spatial_summaries(calls, rec)})
  w, e = kt.tid
  adr, ten = kt.pre("wrap_site_pair_adr", e), kt.pre("tendon_site_pair_adr", e)
  pul = kt.pre("wrap_pulley_scale", adr)
  i0, i1 = kt.pre("wrap_objid", adr), kt.pre("wrap_objid", arith("+", adr, 1))
  V = lambda lab, *idx: [kt.pre(lab, *idx, k=i) for i in range(kt.cell(lab).ncomp)]
  p0, p1 = V("site_xpos_in", w, i0), V("site_xpos_in", w, i1)
  b0, b1 = kt.pre("site_bodyid", i0), kt.pre("site_bodyid", i1)
  if len(calls) != 2:
    ctx.error(f"_spatial_site_tendon: {len(calls)} _accumulate_jac_chain call sites, expected 2")
    return
  sess = ctx.session(kt.bg)
  r0, r1 = kt.pre("body_rootid", b0), kt.pre("body_rootid", b1)
  ctx.reach(sess, "twin:sites-in-different-trees", And(b0 != b1, r0 != r1, Or(*[x != y for x, y in zip(V("subtree_com_in", w, r0), V("subtree_com_in", w, r1))])))
  names = {"world": w, "element": e, "site0": i0, "site1": i1, "body0": b0, "body1": b1, "root0": r0, "root1": r1}
  def rp(model):
    path = replay.write_spec(ctx.pid, ctx.unit, "site", loc, kt.kernel, kt.args, model, kt.tid, "goal", goal="checks.c22:goal_site_tendon", env={})
    craft_site_spec(path)
    return replay.run_spec(path)

  _, n = seg_dir(p0, p1)
  ctx.prove(sess, "length+=pulley*|p1-p0|", cmp("==", kt.atomic_total("ten_length_out", w, ten), arith("*", n, pul)), True, names=names, replay=rp, desc="_spatial_site_tendon: length contribution is not pulley_scale * distance between the two sites")
  check_segment(ctx, sess, kt, calls, 0, ("site-site", True, p0, b0, p1, b1), ten, w, pul, names, rp, "_spatial_site_tendon")


def _spec_arr(spec, label):
  import numpy as np

  a = spec["args"][label]
  shape = tuple(a["shape"])
  n = int(np.prod(shape)) if shape else 1
  buf = np.array(a["data"], dtype=float).T.reshape(shape + tuple(a["vshape"])) if n else np.zeros(shape + tuple(a["vshape"]))
  return buf


def _spec_resize(spec, label, shape):
  import numpy as np

  a = spec["args"][label]
  a["shape"] = [int(x) for x in shape]
  n = int(np.prod(shape))
  a["data"] = [[0] * n for _ in range(a["ncomp"])]


def _spec_put(spec, label, arr):
  import numpy as np

  a = spec["args"][label]
  flat = np.asarray(arr, dtype=float).reshape(-1, a["ncomp"])
  a["data"] = [[(int(x) if a["dtype"] == "int" else float(x)) for x in flat[:, k]] for k in range(a["ncomp"])]


def craft_tree(spec, rng):
  """replay inputs: keep the model's ids (sites, geoms, bodies, tree roots) but give the bodies a well-formed dof tree
  (every body a child of the world with one dof while dofs last) and the tendon a CSR row over all dofs; random
  subtree_com rows (distinct per tree) and cdof"""
  import numpy as np

  I = lambda l: _spec_arr(spec, l).astype(int)
  # the dof arrays are not read by the kernel once _accumulate_jac_chain is a contract: size them for one dof per body
  nb = max([len(I("body_parentid")), len(I("body_rootid"))] + [int(I(l).max()) + 1 for l in ("site_bodyid", "geom_bodyid") if l in spec["args"] and I(l).size])
  # a mutated kernel may not read body_rootid of every body: extend it (new bodies are their own tree root)
  root = list(I("body_rootid"))
  root += list(range(len(root), nb))
  _spec_resize(spec, "body_rootid", (nb,))
  _spec_put(spec, "body_rootid", root)
  nroot = max(root) + 1
  if _spec_arr(spec, "subtree_com_in").shape[1] < nroot:
    _spec_resize(spec, "subtree_com_in", (max(1, _spec_arr(spec, "subtree_com_in").shape[0], spec["tid"][0] + 1), nroot))
  nw = max(1, _spec_arr(spec, "subtree_com_in").shape[0], spec["tid"][0] + 1)
  ntend = max(1, len(I("ten_J_rowadr")))
  for lab, shape in (("body_parentid", (nb,)), ("body_dofnum", (nb,)), ("body_dofadr", (nb,)), ("cdof_in", (nw, nb)), ("ten_J_out", (nw, nb)), ("ten_J_colind", (nb,))):
    _spec_resize(spec, lab, shape)
  ndof = nb - 1
  par = I("body_parentid")
  par[:] = 0
  _spec_put(spec, "body_parentid", par)
  dn, da = I("body_dofnum"), I("body_dofadr")
  for b in range(len(dn)):
    dn[b] = 1 if 1 <= b <= ndof else 0
  for b in range(len(da)):
    da[b] = b - 1 if 1 <= b <= ndof else -1
  _spec_put(spec, "body_dofnum", dn)
  _spec_put(spec, "body_dofadr", da)
  col = I("ten_J_colind")
  nj = _spec_arr(spec, "ten_J_out").shape[1]
  n = max(0, min(ndof, len(col), nj))
  col[:n] = np.arange(n)
  _spec_put(spec, "ten_J_colind", col)
  ra, rn = I("ten_J_rowadr"), I("ten_J_rownnz")
  ra[:] = 0
  rn[:] = n
  _spec_put(spec, "ten_J_rowadr", ra)
  _spec_put(spec, "ten_J_rownnz", rn)
  for lab in ("subtree_com_in", "cdof_in"):
    a = _spec_arr(spec, lab)
    a[:] = rng.uniform(-1.0, 1.0, a.shape)
    _spec_put(spec, lab, a)
  tj = _spec_arr(spec, "ten_J_out")
  tj[:] = 0.0
  _spec_put(spec, "ten_J_out", tj)
  ps = _spec_arr(spec, "wrap_pulley_scale")
  ps[:] = 0.5
  _spec_put(spec, "wrap_pulley_scale", ps)


def craft_site_spec(path):
  import json

  import numpy as np

  spec = json.load(open(path))
  rng = np.random.default_rng(6)
  craft_tree(spec, rng)
  sx = _spec_arr(spec, "site_xpos_in")
  sx[:] = rng.uniform(-2.0, 2.0, sx.shape)
  _spec_put(spec, "site_xpos_in", sx)
  json.dump(spec, open(path, "w"), indent=1)


def craft_geom_spec(path):
  """keep the solver model's integers (topology, ids) and craft float inputs for which the wrap really occurs: sphere of
  radius 0.5 at the origin, the two sites on opposite sides, no side site; distinct subtree_com rows, random cdof"""
  import json

  import numpy as np

  spec = json.load(open(path))
  rng = np.random.default_rng(5)
  w, e = spec["tid"]
  I = lambda l: _spec_arr(spec, l).astype(int)
  adr = int(I("wrap_geom_adr")[e])
  objid = I("wrap_objid")
  s0, g, s1 = int(objid[adr - 1]), int(objid[adr]), int(objid[adr + 1])
  sx = _spec_arr(spec, "site_xpos_in")
  sx[:] = rng.uniform(1.0, 2.0, sx.shape)
  sx[:, s0] = [-2.0, 0.05, 0.1]
  sx[:, s1] = [2.0, -0.07, 0.15]
  _spec_put(spec, "site_xpos_in", sx)
  gx = _spec_arr(spec, "geom_xpos_in")
  gx[:] = 0.0
  _spec_put(spec, "geom_xpos_in", gx)
  gm = _spec_arr(spec, "geom_xmat_in")
  gm[:] = np.eye(3)
  _spec_put(spec, "geom_xmat_in", gm)
  gs = _spec_arr(spec, "geom_size")
  gs[:] = 0.5
  _spec_put(spec, "geom_size", gs)
  wt = I("wrap_type")
  wt[:] = mjWRAP_SPHERE
  _spec_put(spec, "wrap_type", wt)
  wpm = _spec_arr(spec, "wrap_prm")
  wpm[:] = -1.0
  _spec_put(spec, "wrap_prm", wpm)
  craft_tree(spec, rng)
  json.dump(spec, open(path, "w"), indent=1)


def goal_geom_tendon(spec, pre, post):
  import numpy as np
  import warp as wp

  from checks import kernels_c22 as K

  w, e = spec["tid"]
  adr, ten = int(pre["wrap_geom_adr"][e]), int(pre["tendon_geom_adr"][e])
  pul = float(pre["wrap_pulley_scale"][adr])
  s0, g, s1 = int(pre["wrap_objid"][adr - 1]), int(pre["wrap_objid"][adr]), int(pre["wrap_objid"][adr + 1])
  p0, p1 = pre["site_xpos_in"][w, s0], pre["site_xpos_in"][w, s1]
  bs0, bg, bs1 = int(pre["site_bodyid"][s0]), int(pre["geom_bodyid"][g]), int(pre["site_bodyid"][s1])
  sid = int(round(float(pre["wrap_prm"][adr])))
  side = pre["site_xpos_in"][w, sid] if sid >= 0 else np.full(3, MAXVAL)
  size = float(pre["geom_size"][w % pre["geom_size"].shape[0], g][0])
  # the abstracted part: tangent points and arc length from the REAL util_misc.wrap (forwarding wrapper kernel)
  Lo, Po = wp.zeros(1, dtype=float), wp.zeros(2, dtype=wp.vec3)
  wp.launch(K.wrap_wrap, dim=1, inputs=[wp.vec3(*map(float, p0)), wp.vec3(*map(float, p1)), wp.vec3(*map(float, pre["geom_xpos_in"][w, g])), wp.mat33(*map(float, np.asarray(pre["geom_xmat_in"][w, g]).reshape(-1))), size, int(pre["wrap_type"][adr]), wp.vec3(*map(float, side))], outputs=[Lo, Po], device="cpu")
  L, (g0, g1) = float(Lo.numpy()[0]), Po.numpy()
  segs = [(p0, bs0, g0, bg), (g1, bg, p1, bs1)] if L >= 0 else [(p0, bs0, p1, bs1)]
  ra, nnz = int(pre["ten_J_rowadr"][ten]), int(pre["ten_J_rownnz"][ten])
  bad = []
  for k in range(nnz):
    c = int(pre["ten_J_colind"][ra + k])
    want = sum(num_segment_J(pre, w, a, ba, b, bb, c)[0] for a, ba, b, bb in segs) * pul
    got = float(post["ten_J_out"][w, ra + k] - pre["ten_J_out"][w, ra + k])
    if not lib.approx(got, want, rtol=3e-3, atol=1e-4):
      bad.append(f"ten_J entry {k} (dof {c}): += {got}, reference sum over segments of pulley * dir.(jac(end) - jac(start)) = {want} (wrap length {L})")
  return (not bad), "; ".join(bad) or f"agrees (wrap length {L})"


def unit_geom_tendon(ctx):
  from mujoco_warp._src import smooth, util_misc

  k = smooth._spatial_geom_tendon
  loc = "mujoco_warp._src.smooth:_spatial_geom_tendon"
  calls, rec = [], {}
  ctx.encode(k)
  ctx.bound(shape_cap=6, note="one generic (world, wrap geom) thread; all ids symbolic")
  ctx.assume("thread's own array accesses are in bounds (C17)", "floats are exact reals", "`_accumulate_jac_chain` is replaced by a recording contract (unit spatial/accumulate_jac_chain)", "util_misc.wrap (tangent points, arc length; -1 = no wrap) and math.normalize_with_norm are uninterpreted functions: the wrap geometry itself is outside")
  kt = lib.kernel_thread(k, unroll=2, interp_kw={"summaries": spatial_summaries(calls, rec)})
  w, e = kt.tid
  adr, ten = kt.pre("wrap_geom_adr", e), kt.pre("tendon_geom_adr", e)
  pul = kt.pre("wrap_pulley_scale", adr)
  s0, g, s1 = kt.pre("wrap_objid", arith("-", adr, 1)), kt.pre("wrap_objid", adr), kt.pre("wrap_objid", arith("+", adr, 1))
  V = lambda lab, *idx: [kt.pre(lab, *idx, k=i) for i in range(kt.cell(lab).ncomp)]
  p0, p1 = V("site_xpos_in", w, s0), V("site_xpos_in", w, s1)
  bs0, bg, bs1 = kt.pre("site_bodyid", s0), kt.pre("geom_bodyid", g), kt.pre("site_bodyid", s1)
  if len(calls) != 6 or "L" not in rec:
    ctx.error(f"_spatial_geom_tendon: {len(calls)} _accumulate_jac_chain call sites (expected 6) / wrap not called")
    return
  L, g0, g1 = rec["L"], rec["g0"], rec["g1"]
  wrapped = cmp(">=", L, 0.0)
  sess = ctx.session(kt.bg)
  rs0, rg, rs1 = kt.pre("body_rootid", bs0), kt.pre("body_rootid", bg), kt.pre("body_rootid", bs1)
  com = lambda r: V("subtree_com_in", w, r)
  differ = lambda a, b: Or(*[x != y for x, y in zip(com(a), com(b))])
  ctx.reach(sess, "twin:wrap-with-three-different-trees", And(wrapped, bs0 != bg, bg != bs1, bs0 != bs1, rs0 != rg, rg != rs1, rs0 != rs1, differ(rs0, rg), differ(rg, rs1), differ(rs0, rs1)))
  ctx.reach(sess, "twin:no-wrap", And(Not(wrapped), bs0 != bs1))
  names = {"world": w, "element": e, "site0": s0, "geom": g, "site1": s1, "body_site0": bs0, "body_geom": bg, "body_site1": bs1, "root_site0": rs0, "root_geom": rg, "root_site1": rs1}

  def rp(model):
    path = replay.write_spec(ctx.pid, ctx.unit, "geom", loc, kt.kernel, kt.args, model, kt.tid, "goal", goal="checks.c22:goal_geom_tendon", env={})
    craft_geom_spec(path)
    return replay.run_spec(path)

  # arguments of the (abstracted) wrap computation
  x0, x1, pos, mat, radius, gtype, side = rec["wrap_args"]
  ctx.prove(sess, "wrap/arguments", And(*[cmp("==", a, b) for a, b in zip(list(x0.c) + list(x1.c) + list(pos.c) + list(mat.c), p0 + p1 + V("geom_xpos_in", w, g) + V("geom_xmat_in", w, g))], cmp("==", radius, kt.pre("geom_size", arith("%", w, kt.cell("geom_size").shape[0]), g, k=0)), cmp("==", gtype, kt.pre("wrap_type", adr))), True, names=names, replay=rp, desc="_spatial_geom_tendon: wrap is computed for other sites / geom / radius / type than the tendon path prescribes")
  sideid = kt.it.top_frame.env.get("sideid")
  if sideid is not None:
    prm = kt.pre("wrap_prm", adr)
    sref = [ite(cmp(">=", sideid, 0), x, MAXVAL) for x in V("site_xpos_in", w, sideid)]
    # sideid is the kernel's own int(round(wrap_prm)) term; the rounding itself is not re-derived here
    ctx.prove(sess, "wrap/side-site", And(*[cmp("==", a, b) for a, b in zip(side.c, sref)]), True, names=names, replay=rp, desc="_spatial_geom_tendon: side point is not site_xpos[round(wrap_prm)] (none = mjMAXVAL if negative)")
  # length: pulley * (|g0 - s0| + arc + |s1 - g1|) when wrapped, pulley * |s1 - s0| otherwise
  _, n0 = seg_dir(p0, g0)
  _, n1 = seg_dir(g1, p1)
  _, nss = seg_dir(p0, p1)
  want_len = ite(wrapped, arith("*", rf.vsum([n0, L, n1]), pul), arith("*", nss, pul))
  ctx.prove(sess, "length", cmp("==", kt.atomic_total("ten_length_out", w, ten), want_len), True, names=names, replay=rp, desc="_spatial_geom_tendon: length contribution is not pulley_scale * (site-geom + arc + geom-site) / pulley_scale * site-site")
  ctx.prove(sess, "wrap-points-stored", And(*[cmp("==", kt.post("wrap_geom_xpos_out", w, e, k=i), (g0 + g1)[i]) for i in range(6)]), True, names=names, replay=rp, desc="_spatial_geom_tendon: stored wrap points differ from the computed tangent points")
  tag = "_spatial_geom_tendon"
  check_segment(ctx, sess, kt, calls, 0, ("site0-geom", wrapped, p0, bs0, g0, bg), ten, w, pul, names, rp, tag)
  check_segment(ctx, sess, kt, calls, 2, ("geom-site1", wrapped, g1, bg, p1, bs1), ten, w, pul, names, rp, tag)
  check_segment(ctx, sess, kt, calls, 4, ("site0-site1(no wrap)", Not(wrapped), p0, bs0, p1, bs1), ten, w, pul, names, rp, tag)


def goal_normalize(spec, pre, post):
  import numpy as np

  x = np.array([float(np.float32(v)) for v in c05._scal(spec, "x")])
  n = float(np.linalg.norm(x))
  u = x / n if n > 0 else x
  ok = lib.approx(post["norm_out"][0], n, rtol=1e-3, atol=1e-6) and all(lib.approx(post["unit_out"][0][i], u[i], rtol=1e-3, atol=1e-6) for i in range(3))
  return ok, f"normalize_with_norm({x}) = {post['unit_out'][0]}, {post['norm_out'][0]} vs {u}, {n}"


def unit_normalize(ctx):
  """discharges the `math.normalize_with_norm` contract (shared uninterpreted function in the spatial tendon and ball limit
  units): it returns (x / |x|, |x|), and (x, 0) for x = 0"""
  from checks import kernels_c22 as K
  from mujoco_warp._src import math as mjmath

  k = K.normalize_with_norm_wrap
  ctx.encode(mjmath.normalize_with_norm)
  ctx.assume("floats are exact reals; sqrt is the non-negative root")
  kt = lib.kernel_thread(k, unroll=2, shapes={"unit_out": [1], "norm_out": [1]})
  x = kt.args["x"].c
  n = kt.post("norm_out", 0)
  u = [kt.post("unit_out", 0, k=i) for i in range(3)]
  bg = kt.bg
  rp = lib.make_replay(ctx, kt, "checks.kernels_c22:normalize_with_norm_wrap", "nrm", "goal", goal="checks.c22:goal_normalize", env={})
  ctx.reach(ctx.session(bg), "twin:non-zero", x[0] != 0)
  sq = rf.dot(x, x)
  c05.prove_hard(ctx, bg, "norm>=0,norm^2=|x|^2", And(cmp(">=", n, 0.0), cmp("==", arith("*", n, n), sq)), True, None, True, names={"x0": x[0]}, replay=rp, desc="normalize_with_norm: second result is not the Euclidean norm")
  for i in range(3):
    c05.prove_hard(ctx, bg, f"unit*norm=x/{i}", cmp("==", arith("*", u[i], n), x[i]), cmp(">", sq, 0.0), None, True, names={"x0": x[0]}, replay=rp, desc="normalize_with_norm: first result times the norm is not x")
    ctx.prove(ctx.session(bg), f"zero-vector/{i}", cmp("==", u[i], x[i]), And(x[0] == 0, x[1] == 0, x[2] == 0), names={"x0": x[0]}, replay=rp, desc="normalize_with_norm: x = 0 must be returned unchanged")


def main(tier, seed, only=None):
  U = 3
  units = [("refcheck", unit_refcheck), ("jac_dof", unit_jac_dof), ("jac_dot_dof", c05.unit_jac_dot_dof), unit_chain(2, 4), ("contracts/normalize_with_norm", unit_normalize), ("spatial/site_tendon", unit_site_tendon), ("spatial/geom_tendon", unit_geom_tendon), ("tendon/joint_tendon", unit_joint_tendon), unit_velocity("tendon", U), unit_velocity("actuator", U)]
  for b in c05.SIMPLE:
    for sp in ((False, True), (True, True)):
      units.append(unit_vel(b, sp, 2 if b == "_equality_tendon" and (sp[0] or tier == "quick") else U))
    units.append(unit_dense_sparse(b, 2 if b == "_equality_tendon" else U))
  for sp in ((False, True), (True, True)):
    units.append(unit_vel("_limit_ball", sp, 3))
    UT = 2 if (sp[0] or tier == "quick") else 3
    for r in range(3):
      units.append(unit_vel("_equality_connect", sp, UT if sp[0] else U, only_rows=[r]))
    for r in (range(6) if tier == "thorough" else (0, 3)):
      if sp[0] and r >= 3:
        continue  # sparse weld rotational rows exceed the unit budget (chain-pair cases x quaternion algebra): not claimed
      units.append(unit_vel("_equality_weld", sp, UT, only_rows=[r]))
  if only:
    units = [u for u in units if any(o in u[0] for o in only)]
  return report.run_check(PID, units, tier, seed)
