"""C13 reset_data restores a fresh Data (H mode).

The REAL io.reset_data(m, d, reset) is run natively with every Data array and the reset mask symbolic (dense cells,
nworld = 2, tiny models incl. na > nu, mocap, equality, userdata, history, sleep); every kernel it launches is executed
thread by thread by the interpreter.  Queries (per field, per world):
  selected   => field == fresh make_data value           (integration state + everything reset_data documents)
  unselected => every per-world field unchanged
  contacts   => an unselected world's reported contacts (cid < nacon, worldid == w) are unchanged, none appear
"""

import dataclasses
import json
import os

import numpy as np
import warp as wp
import z3

from wsym import core, host, kh, report
from wsym.core import And, Implies, Not, Or, cmp, is_sym

PID = "C13"

MODELS = {
  "actdim": """<mujoco><option><flag {flag}/></option><size nuserdata="2"/><worldbody><geom type="plane" size="5 5 .1"/>
<body pos="0 0 .09"><freejoint/><geom size=".1"/></body>
<body name="b" pos="1 0 1"><joint name="j"/><geom size=".1"/></body>
<body name="mc" pos="2 0 0" mocap="true"><geom size=".05" contype="0" conaffinity="0"/></body></worldbody>
<equality><weld body1="b" body2="mc" active="true"/></equality>
<actuator><general joint="j" dyntype="user" actdim="3"/></actuator>
<sensor><jointpos joint="j"/></sensor></mujoco>""",
  "delay": """<mujoco><option><flag {flag}/></option><worldbody>
<body pos="0 0 1"><joint name="j" damping="0.1"/><geom size=".1"/></body></worldbody>
<actuator><motor joint="j" delay="0.004" nsample="3"/></actuator>
<sensor><jointpos joint="j" delay="0.004" nsample="2"/></sensor></mujoco>""",
}

# fields that must equal a fresh Data for a selected world (integration state, user inputs, counters, what reset_data documents)
FRESH_FIELDS = [
  "time", "qpos", "qvel", "act", "qacc_warmstart", "ctrl", "qfrc_applied", "xfrc_applied", "eq_active", "mocap_pos", "mocap_quat",
  "userdata", "history", "ne", "nf", "nl", "nefc", "solver_niter", "sensordata", "act_dot", "qacc", "overflow", "energy",
  "tree_asleep",
]


# recomputed from tree_asleep by sleep.update_sleep for every world at the end of reset_data (idempotent on consistent
# states; an arbitrary symbolic pre-state need not be consistent), so "unchanged" is only claimed for tree_asleep itself
SLEEP_DERIVED = {"ntree_awake", "nbody_awake", "nv_awake", "tree_awake", "body_awake", "body_awake_ind", "dof_awake_ind"}


def build(xml, nworld=2):
  import mujoco

  import mujoco_warp as mjw

  mjm = mujoco.MjModel.from_xml_string(xml)
  m = mjw.put_model(mjm)
  d = mjw.make_data(mjm, nworld=nworld, nconmax=2, njmax=4)
  return mjm, m, d


def per_world_fields(d):
  from mujoco_warp._src import types

  out = []
  for f in dataclasses.fields(types.Data):
    shp = getattr(f.type, "shape", None)
    if shp and shp[0] == "nworld" and isinstance(getattr(d, f.name), wp.array):
      out.append(f.name)
  return out


def cells_eq(cell, idx_prefix, a_src, b_src_or_np, concrete_b=False):
  """conjunction over all cells of world idx_prefix[0]: a == b"""
  terms = []
  n_per = cell.size // cell.shape[0] if cell.shape and cell.shape[0] else 0
  w = idx_prefix[0]
  for k in range(cell.ncomp):
    for j in range(n_per):
      flat = w * n_per + j
      a = a_src[k][flat]
      b = b_src_or_np[k][flat]
      terms.append((flat, k, a, b))
  return terms


def unit_model(mname, masked, sleep):
  def run(ctx):
    from mujoco_warp._src import io, types

    flag = 'sleep="enable"' if sleep else ""
    xml = MODELS[mname].format(flag=flag)
    mjm, m, d = build(xml)
    nworld = d.nworld
    ctx.encode(io.reset_data)
    ctx.bound(nworld=2, model=mname, naconmax=int(d.naconmax), njmax=int(d.njmax), na=int(mjm.na), nu=int(mjm.nu), nq=int(mjm.nq), nv=int(mjm.nv), nhistory=int(getattr(mjm, "nhistory", 0)))
    fresh = {f.name: getattr(d, f.name).numpy().copy() for f in dataclasses.fields(d) if isinstance(getattr(d, f.name), wp.array)}
    d2 = host.shim_dataclass(d, "d.")
    arrs = host.arrays_of(d2)
    mask = host.sym_array("reset", (nworld,), wp.bool) if masked else None
    with host.HostRun(mode="exec") as hr:
      io.reset_data(m, d2, mask)
    kernels = sorted({e.kernel.key for e in hr.events if e.kind == "launch"})
    for e in hr.events:
      if e.kind == "launch":
        ctx.encode(e.kernel)
    ctx.notes.append(f"{len([e for e in hr.events if e.kind == 'launch'])} launches, {hr.nthreads} threads interpreted: {kernels}")
    sel = [mask.ref.cell.d0[0][w] if masked else True for w in range(nworld)]
    # preconditions: counters sane, listed contacts belong to a world
    nacon0 = arrs["nacon"].ref.cell.d0[0][0]
    cw0 = arrs["contact.worldid"].ref.cell.d0[0]
    naconmax = int(d.naconmax)
    pre = [nacon0 >= 0, nacon0 <= naconmax] + [z3.Implies(c < nacon0, z3.And(cw0[c] >= 0, cw0[c] < nworld)) for c in range(naconmax)]
    pre += [core.zbool(a) for a in hr.assumes]
    ctx.assume("0 <= nacon <= naconmax and contact.worldid in [0, nworld) for listed contacts", "all other Data contents arbitrary")
    sess = ctx.session(pre)
    ctx.reach(sess, "twin:pre-state", True)
    # own bounds of the interpreted threads (C17 material, but cheap here)
    for key, tid, o in hr.obl:
      if o.kind == "bounds":
        ctx.prove(sess, f"bounds/{key}@{o.where}/{tid}", o.cond, o.guard, replay=replayer(ctx, mname, sleep, arrs, mask, None), desc=f"reset_data: {key} thread {tid} indexes out of range at {o.where}")
    pw = per_world_fields(d)
    names = {f"sel{w}": sel[w] for w in range(nworld) if is_sym(sel[w])}
    names["nacon0"] = nacon0
    for fname in pw:
      cell = arrs[fname].ref.cell
      if cell.size == 0:
        continue
      fr = fresh[fname]
      frflat = fr.reshape(cell.size, cell.ncomp) if cell.ncomp > 1 or True else None
      n_per = cell.size // nworld
      for w in range(nworld):
        same, isfresh = [], []
        for k in range(cell.ncomp):
          for j in range(n_per):
            flat = w * n_per + j
            post, pre_v = cell.d[k][flat], cell.d0[k][flat]
            same.append(cmp("==", post, pre_v) if cell.dtype != "bool" else (core.zbool(post) == core.zbool(pre_v)))
            if fname in FRESH_FIELDS:
              fv = frflat[flat, k]
              fv = bool(fv) if cell.dtype == "bool" else (int(fv) if cell.dtype == "int" else float(fv))
              isfresh.append(cmp("==", post, fv) if cell.dtype != "bool" else (core.zbool(post) == z3.BoolVal(fv)))
        if masked and not (sleep and fname in SLEEP_DERIVED):
          ctx.prove(sess, f"unselected-unchanged/{fname}[{w}]", And(*same), Not(sel[w]), names=names, replay=replayer(ctx, mname, sleep, arrs, mask, ("unchanged", fname, w)), desc=f"reset_data changes {fname} of world {w} although it is not selected")
        if fname in FRESH_FIELDS:
          ctx.prove(sess, f"selected-fresh/{fname}[{w}]", And(*isfresh), sel[w], names=names, replay=replayer(ctx, mname, sleep, arrs, mask, ("fresh", fname, w)), desc=f"after reset_data {fname} of selected world {w} differs from a fresh make_data")
    # contacts
    cfields = [n for n in arrs if n.startswith("contact.")]
    nacon1 = arrs["nacon"].ref.cell.d[0][0]
    cw1 = arrs["contact.worldid"].ref.cell.d[0]
    for w in range(nworld):
      for c in range(naconmax):
        listed0 = And(c < nacon0, cw0[c] == w)
        listed1 = And(c < nacon1, cw1[c] == w)
        if masked:
          ctx.prove(sess, f"unselected-contact-kept/world{w}/cid{c}", listed1, And(Not(sel[w]), listed0), names=names, replay=replayer(ctx, mname, sleep, arrs, mask, ("contact-kept", c, w)), desc=f"a contact of unselected world {w} is no longer reported after reset_data")
          unchanged = []
          for cf in cfields:
            cc = arrs[cf].ref.cell
            if cc.size == 0:
              continue
            n_per = cc.size // cc.shape[0]
            for k in range(cc.ncomp):
              for j in range(n_per):
                a, b = cc.d[k][c * n_per + j], cc.d0[k][c * n_per + j]
                unchanged.append(cmp("==", a, b))
          ctx.prove(sess, f"unselected-contact-unchanged/world{w}/cid{c}", And(*unchanged), And(Not(sel[w]), listed0), names=names, replay=replayer(ctx, mname, sleep, arrs, mask, ("contact-unchanged", c, w)), desc=f"a contact of unselected world {w} is modified by reset_data")
          ctx.prove(sess, f"unselected-no-new-contact/world{w}/cid{c}", listed0, And(Not(sel[w]), listed1), names=names, replay=replayer(ctx, mname, sleep, arrs, mask, ("no-new-contact", c, w)), desc=f"reset_data makes a contact appear in unselected world {w}")
        ctx.prove(sess, f"selected-no-contact/world{w}/cid{c}", Not(listed1), sel[w], names=names, replay=replayer(ctx, mname, sleep, arrs, mask, ("no-contact", c, w)), desc=f"selected world {w} still reports a contact after reset_data")

  return (f"reset/{mname}/{'masked' if masked else 'all'}{'/sleep' if sleep else ''}", run)


def replayer(ctx, mname, sleep, arrs, mask, goal):
  """replay on the real reset_data with concrete arrays taken from the solver model"""

  def _rp(model):
    import mujoco_warp as mjw
    from mujoco_warp._src import io

    flag = 'sleep="enable"' if sleep else ""
    mjm, m, d = build(MODELS[mname].format(flag=flag))
    fresh = {f.name: getattr(d, f.name).numpy().copy() for f in dataclasses.fields(d) if isinstance(getattr(d, f.name), wp.array)}
    pre = {}
    for name, sa in arrs.items():
      cell = sa.ref.cell
      if cell.size == 0:
        continue
      obj, attr = d, name
      if name.startswith("contact."):
        obj, attr = d.contact, name[len("contact.") :]
      elif name.startswith("efc."):
        obj, attr = d.efc, name[len("efc.") :]
      elif "." in name:
        continue
      real = getattr(obj, attr)
      a = np.zeros((cell.size, cell.ncomp), dtype=np.float64)
      for k in range(cell.ncomp):
        a[:, k] = [float(kh.mval(model, x)) if not isinstance(kh.mval(model, x), bool) else float(kh.mval(model, x)) for x in cell.d0[k]]
      a = np.clip(a, -1e6, 1e6)
      npa = a.reshape(real.numpy().shape).astype(real.numpy().dtype)
      real.assign(npa)
      pre[name] = real.numpy().copy()
    rmask = None
    mvals = None
    if mask is not None:
      mvals = [bool(kh.mval(model, x)) for x in mask.ref.cell.d0[0]]
      rmask = wp.array(np.array(mvals), dtype=bool)
    io.reset_data(m, d, rmask)
    post = {}
    for name in pre:
      obj, attr = d, name
      if name.startswith("contact."):
        obj, attr = d.contact, name[len("contact.") :]
      elif name.startswith("efc."):
        obj, attr = d.efc, name[len("efc.") :]
      post[name] = getattr(obj, attr).numpy().copy()
    os.makedirs(os.path.join(report.VERIF, "replays", PID), exist_ok=True)
    path = os.path.join(report.VERIF, "replays", PID, f"{mname}.{'-'.join(str(g) for g in (goal or ('bounds',)))}.json".replace("/", "_"))
    ok = True
    text = ""
    if goal is None:
      ok, text = True, "bounds candidates are not replayed here"
    else:
      kind = goal[0]
      if kind in ("unchanged", "fresh"):
        _, fname, w = goal
        a = post[fname][w]
        b = pre[fname][w] if kind == "unchanged" else fresh[fname][w]
        ok = bool(np.allclose(np.asarray(a, dtype=float), np.asarray(b, dtype=float), rtol=1e-6, atol=1e-9))
        text = f"{fname}[{w}] after reset = {np.asarray(a).tolist()} expected ({kind}) {np.asarray(b).tolist()} mask={mvals}"
      else:
        _, c, w = goal
        n0, n1 = int(pre["nacon"][0]), int(post["nacon"][0])
        l0 = c < n0 and int(pre["contact.worldid"][c]) == w
        l1 = c < n1 and int(post["contact.worldid"][c]) == w
        if kind == "contact-kept":
          ok = (not l0) or l1
        elif kind == "no-new-contact":
          ok = (not l1) or l0
        elif kind == "no-contact":
          ok = not l1
        else:
          ok = (not l0) or all(np.array_equal(pre[k][c], post[k][c]) for k in pre if k.startswith("contact."))
        text = f"contact {c} world {w}: listed before={l0} (nacon {n0}, worldid {pre['contact.worldid'].tolist()}) listed after={l1} (nacon {n1}, worldid {post['contact.worldid'].tolist()}) mask={mvals}"
    with open(path, "w") as f:
      json.dump({"property": PID, "model_xml": MODELS[mname].format(flag=flag), "mask": mvals, "goal": list(goal) if goal else None, "pre": {k: v.tolist() for k, v in pre.items()}, "result": text, "how": "build the model with mujoco_warp.make_data(nworld=2, nconmax=2, njmax=4), assign the 'pre' arrays, call reset_data(m, d, mask)"}, f)
    return (not ok), path

  return _rp


def main(tier, seed, only=None):
  units = [unit_model("actdim", True, False), unit_model("actdim", False, False), unit_model("delay", True, False), unit_model("actdim", True, True)]
  from checks import resetk

  units.append(resetk.unit_reset_nworld(PID))
  if only:
    units = [u for u in units if any(o in u[0] for o in only)]
  return report.run_check(PID, units, tier, seed)
