"""Reference models for C08 (time integration), from MuJoCo's engine_forward.c semantics (mj_advance, mj_Euler, mj_RungeKutta,
mj_integratePos / mju_quatIntegrate) -- polymorphic over python floats and z3 terms; validated numerically against the mujoco
library by `validate()` (the reference RK4 / Euler are re-run with mujoco's own mj_forward as the dynamics oracle and compared
with mujoco.mj_step)."""

import math

import mujoco
import numpy as np
import z3

from checks import act_c03 as A
from wsym import core
from wsym.core import arith

FREE, BALL, SLIDE, HINGE = A.FREE, A.BALL, A.SLIDE, A.HINGE
add, sub, mul = A.add, A.sub, A.mul

RK_A = [0.5, 0.5, 1.0]  # diagonal of MuJoCo's RK4 tableau
RK_B = [1.0 / 6.0, 1.0 / 3.0, 1.0 / 3.0, 1.0 / 6.0]
RK_C = [0.5, 0.5, 1.0]  # stage times


def quat_integrate_num(q, v, h):
  q = np.array(q, dtype=float)
  mujoco.mju_quatIntegrate(q, np.array(v, dtype=float), float(h))
  return list(q)


def integrate_pos(jnts, qpos, vel, h, qi):
  """mj_integratePos: jnts = [(type, qposadr, dofadr)], returns the new qpos list"""
  out = list(qpos)
  for jt, qa, da in jnts:
    if jt == FREE:
      for k in range(3):
        out[qa + k] = add(qpos[qa + k], mul(h, vel[da + k]))
      q = qi(qpos[qa + 3 : qa + 7], vel[da + 3 : da + 6], h)
      out[qa + 3 : qa + 7] = q
    elif jt == BALL:
      out[qa : qa + 4] = qi(qpos[qa : qa + 4], vel[da : da + 3], h)
    else:
      out[qa] = add(qpos[qa], mul(h, vel[da]))
  return out


def advance_ref(model, st, act_dot, qacc, qvel_for_pos, h, qi):
  """mj_advance: activations, then velocities, then positions (with the given qvel or the NEW velocity), then time.
  model: dict(jnts, acts=[(dyntype, dynprm0, actlimited, actrange, [act indices])])"""
  act = list(st["act"])
  for dyn, prm0, lim, rng, idxs in model["acts"]:
    for j in idxs:
      act[j] = A.next_activation(h, dyn, prm0, lim, rng, st["act"][j], act_dot[j])
  qvel = [add(v, mul(h, a)) for v, a in zip(st["qvel"], qacc)]
  qpos = integrate_pos(model["jnts"], st["qpos"], qvel if qvel_for_pos is None else qvel_for_pos, h, qi)
  return dict(qpos=qpos, qvel=qvel, act=act, time=add(st["time"], h))


def rk4_ref(model, st, f0, fwd, h, qi):
  """mj_RungeKutta(N=4).  f0 = (qacc, act_dot) of the forward pass that preceded the integrator (mj_step calls mj_forward first);
  fwd(time, qpos, qvel, act) -> (qacc, act_dot).  Returns (next state, qacc of the last stage = warmstart)."""
  F = [(list(st["qvel"]), list(f0[0]), list(f0[1]))]
  for i in range(3):
    a = RK_A[i]
    dvel, dacc, dact = ([mul(a, x) for x in comp] for comp in F[i])
    qpos = integrate_pos(model["jnts"], st["qpos"], dvel, h, qi)
    qvel = [add(v, mul(h, x)) for v, x in zip(st["qvel"], dacc)]
    act = [add(v, mul(h, x)) for v, x in zip(st["act"], dact)]  # plain Euler in the stages (no FILTEREXACT, no clamp)
    t = add(st["time"], mul(RK_C[i], h))
    qacc, adot = fwd(t, qpos, qvel, act)
    F.append((qvel, list(qacc), list(adot)))
  comb = lambda k: [A_sum([mul(RK_B[j], F[j][k][n]) for j in range(4)]) for n in range(len(F[0][k]))]
  nxt = advance_ref(model, st, comb(2), comb(1), comb(0), h, qi)
  return nxt, F[3][1]


def A_sum(xs):
  s = xs[0]
  for x in xs[1:]:
    s = add(s, x)
  return s


def damping_deriv_ref(damping, poly, v):
  """d/dv of the (positive) damping force  damping*v + poly0*|v|*v + poly1*v^3"""
  av = core.vabs(v)
  return add(add(damping, mul(mul(2.0, poly[0]), av)), mul(mul(3.0, poly[1]), mul(av, av)))


# ------------------------------------------------------------------------------------------------ numeric validation


def model_info(mjm):
  jnts = [(int(mjm.jnt_type[j]), int(mjm.jnt_qposadr[j]), int(mjm.jnt_dofadr[j])) for j in range(mjm.njnt)]
  acts = []
  for i in range(mjm.nu):
    adr, num = int(mjm.actuator_actadr[i]), int(mjm.actuator_actnum[i])
    if adr >= 0:
      acts.append((int(mjm.actuator_dyntype[i]), float(mjm.actuator_dynprm[i, 0]), bool(mjm.actuator_actlimited[i]), [float(x) for x in mjm.actuator_actrange[i]], list(range(adr, adr + num))))
  return dict(jnts=jnts, acts=acts)


VALID_XML = """<mujoco><option integrator="{integ}" timestep="0.01"/><worldbody>
<body pos="0 0 1"><joint name="f" type="free"/><geom size=".1"/>
 <body pos=".3 0 0"><joint name="b" type="ball" damping=".05"/><geom size=".1" pos=".1 0 0"/>
  <body pos=".3 0 0"><joint name="h" type="hinge" axis="0 1 0" damping=".3"/><geom size=".1" pos=".1 0 0"/>
   <body pos=".3 0 0"><joint name="s" type="slide" axis="1 0 0" damping=".2"/><geom size=".1"/></body></body></body></body></worldbody>
<actuator><general joint="h" dyntype="filterexact" dynprm="0.03" gainprm="2" actlimited="true" actrange="-.4 .4"/>
<general joint="s" dyntype="integrator" gainprm="1.5"/><motor joint="h" delay="0.015" nsample="4"/></actuator></mujoco>"""


def validate(seed):
  rng = np.random.default_rng(seed)
  errs = []
  # RK4: reference re-run with mujoco's mj_forward as oracle
  mjm = mujoco.MjModel.from_xml_string(VALID_XML.format(integ="RK4"))
  info = model_info(mjm)
  d = mujoco.MjData(mjm)
  d.qvel[:] = rng.normal(size=mjm.nv)
  d.act[:] = rng.normal(size=mjm.na) * 0.3
  h = mjm.opt.timestep
  for step in range(4):
    d.ctrl[:] = rng.normal(size=mjm.nu)
    d2 = mujoco.MjData(mjm)
    mujoco.mj_copyData(d2, mjm, d) if hasattr(mujoco, "mj_copyData") else None
    # reference
    o = mujoco.MjData(mjm)
    mujoco.mj_copyData(o, mjm, d)
    mujoco.mj_forward(mjm, o)
    st = dict(qpos=list(o.qpos), qvel=list(o.qvel), act=list(o.act), time=o.time)
    f0 = (list(o.qacc), list(o.act_dot))

    def fwd(t, qpos, qvel, act):
      o.time = t
      o.qpos[:], o.qvel[:], o.act[:] = qpos, qvel, act
      mujoco.mj_forward(mjm, o)
      return list(o.qacc), list(o.act_dot)

    nxt, _ = rk4_ref(info, st, f0, fwd, h, quat_integrate_num)
    mujoco.mj_step(mjm, d)
    for nm, a, b in (("qpos", nxt["qpos"], d.qpos), ("qvel", nxt["qvel"], d.qvel), ("act", nxt["act"], d.act), ("time", [nxt["time"]], [d.time])):
      if not np.allclose(np.array(a, dtype=float), np.array(b, dtype=float), rtol=1e-7, atol=1e-9):
        errs.append(f"RK4 reference step {step}: {nm} {list(map(float, a))} vs mujoco {list(map(float, b))}")
  # Euler with implicit damping incl. polynomial damping
  for flags in ("", '<flag eulerdamp="disable"/>'):
    xml = VALID_XML.format(integ="Euler").replace('timestep="0.01"/>', f'timestep="0.01">{flags}</option>')
    mjm = mujoco.MjModel.from_xml_string(xml)
    mjm.dof_dampingpoly[:] = rng.uniform(0, 0.3, size=mjm.dof_dampingpoly.shape)
    info = model_info(mjm)
    d = mujoco.MjData(mjm)
    d.qvel[:] = rng.normal(size=mjm.nv)
    d.act[:] = rng.normal(size=mjm.na) * 0.3
    d.ctrl[:] = rng.normal(size=mjm.nu)
    mujoco.mj_forward(mjm, d)
    st = dict(qpos=list(d.qpos), qvel=list(d.qvel), act=list(d.act), time=d.time)
    M = np.zeros((mjm.nv, mjm.nv))
    for k in range(mjm.nv):
      e, col = np.zeros(mjm.nv), np.zeros(mjm.nv)
      e[k] = 1.0
      mujoco.mj_mulM(mjm, d, col, e)
      M[:, k] = col
    qacc = np.array(d.qacc)
    if not flags:
      D = np.array([damping_deriv_ref(float(mjm.dof_damping[k]), [float(x) for x in mjm.dof_dampingpoly[k]], float(d.qvel[k])) for k in range(mjm.nv)])
      qacc = np.linalg.solve(M + h * np.diag(D), M @ qacc)
    nxt = advance_ref(info, st, list(d.act_dot), list(qacc), None, h, quat_integrate_num)
    mujoco.mj_step(mjm, d)
    for nm, a, b in (("qpos", nxt["qpos"], d.qpos), ("qvel", nxt["qvel"], d.qvel), ("act", nxt["act"], d.act), ("time", [nxt["time"]], [d.time])):
      if not np.allclose(np.array(a, dtype=float), np.array(b, dtype=float), rtol=1e-6, atol=1e-8):
        errs.append(f"Euler reference (flags '{flags}'): {nm} {list(map(float, a))} vs mujoco {list(map(float, b))}")
  return errs
