"""C34 Ray casting returns the nearest eligible hit (partial).

Solver queries over the REAL ray code (mujoco_warp/_src/ray.py), floats are reals:
 eliminate     _ray_eliminate == MuJoCo's mj_ray eligibility rule (excluded body, invisible geom / material, static flag,
               group mask with the group clamped to [0, mjNGROUP-1], mask of all -1 = no group filtering), all arrays symbolic
 select        the brute-force kernel _ray over ngeom <= 3 geoms (thorough: <= 5), executed for a whole thread block in
               lockstep (block_dim 1, 2 and 4; wp.tile = one value per thread, wp.tile_argmin = lowest index of the minimum):
               with the per-geom intersection results as free symbols (-1 = miss) the written dist / geomid / normal are those
               of the nearest eligible hit, ties to the lower geom id, (-1, -1, 0) when nothing is hit, written only at
               [world, ray]; the per-geom function is called with this world's pose, this ray's origin / direction and the
               geom's own size and type
 dispatch      ray_geom forwards to the function of the geom type (sphere with size[0]^2), (-1, 0) for other types
 rays          column i of rays() == ray() cast for ray i alone: both real host functions run natively, the tiled launch of
               _ray interpreted for every thread block, symbolic rays / excluded bodies / poses / mask / static flag
 geometry      (checks/rayg_c34.py) _ray_map, _ray_quad, ray_plane, ray_sphere, ray_ellipsoid, ray_box, ray_cylinder,
               ray_capsule: the returned distance is -1 or the smallest non-negative ray parameter of a surface point (exact
               nonlinear real arithmetic, MuJoCo's mjMINVAL guards are part of the reference), the normal is mat @ the unit
               outward surface normal at that point
Reference models are validated numerically against mujoco.mj_ray / mj_multiRay / mju_rayGeom inside the check.
Outside: the BVH-accelerated path (_ray_bvh, Warp BVH built-ins), mesh / hfield / flex rays, float32 rounding, semantics of
Warp's tile built-ins beyond the stated model.
"""

import json

import numpy as np
import z3

from checks import lib
from wsym import core, kh, replay, report
from wsym.core import And, Implies, Not, Or, Vec, arith, cmp, is_sym, ite

PID = "C34"
MAXVAL = 1.0e10
NGROUP = 6


# ------------------------------------------------------------------------------------------------ reference models
# written from MuJoCo's documented mj_ray semantics (engine_ray.c: ray_eliminate / mj_ray), polymorphic (floats or z3 terms)


def ref_group_filtering_off(mask):
  """mujoco_warp passes the group mask by value: six entries of -1 stand for MuJoCo's geomgroup == NULL"""
  return And(*[cmp("==", m, -1) for m in mask])


def ref_pick(vals, i):
  """vals[i] for a possibly symbolic index (i already clamped into range)"""
  r = vals[-1]
  for k in range(len(vals) - 2, -1, -1):
    r = ite(cmp("==", i, k), vals[k], r)
  return r


def ref_eliminate(bodyid, matid, geom_alpha, mat_alpha, weldid, group, mask, flg_static, bodyexclude):
  """True = the geom is NOT a candidate.  mat_alpha is the alpha of material `matid` (only meaningful when matid >= 0)."""
  gid = core.vmin(NGROUP - 1, core.vmax(0, group))
  return Or(
    cmp("==", bodyid, bodyexclude),
    And(cmp("<", matid, 0), cmp("==", geom_alpha, 0)),
    And(cmp(">=", matid, 0), cmp("==", mat_alpha, 0)),
    And(Not(flg_static), cmp("==", weldid, 0)),
    And(Not(ref_group_filtering_off(mask)), cmp("==", ref_pick(list(mask), gid), 0)),
  )


def ref_select(elig, dist):
  """nearest eligible hit among geoms 0..n-1 (dist[g] = -1 = miss): -> (has_hit, best index term).  Ties go to the lower id
  (mj_ray keeps the first geom that is strictly nearer)."""
  n = len(dist)
  hit = [And(elig[g], cmp(">=", dist[g], 0)) for g in range(n)]
  best = -1
  bestd = -1.0
  for g in range(n):
    better = And(hit[g], Or(cmp("<", bestd, 0), cmp("<", dist[g], bestd)))
    best = ite(better, g, best)
    bestd = ite(better, dist[g], bestd)
  return hit, best, bestd


def _b(x):
  """python bool of a concrete core.And/Or/... result"""
  if is_sym(x):
    x = z3.simplify(core.zbool(x))
    return z3.is_true(x)
  return bool(x)


# ------------------------------------------------------------------------------------------------ validation on MuJoCo


def _scene(rng, ndir=20):
  """random model: world geoms, free body, welded child, mocap body, jointless body, hinge body; materials, alphas, groups.
  geom g sits in its own direction (angle 2 pi g / ndir) from the origin."""
  import mujoco

  cnt = [0]

  def gx(k):
    s = ""
    for _ in range(k):
      g = cnt[0]
      cnt[0] += 1
      th = 2 * np.pi * g / ndir
      kind = rng.integers(4)
      mat = ["", 'material="vis"', 'material="invis"', ""][kind]
      alpha = rng.choice([0.0, 1.0, 0.5]) if kind != 3 else 0.0
      s += f'<geom type="sphere" size="0.1" pos="{np.cos(th) * (1 + 0.1 * g)} {np.sin(th) * (1 + 0.1 * g)} 0" group="{int(rng.integers(6))}" rgba="1 0 0 {alpha}" {mat}/>'
    return s

  k = rng.integers(0, 4, 6)
  k[1], k[5] = max(k[1], 1), max(k[5], 1)
  xml = f"""<mujoco><asset><material name="vis" rgba="1 1 1 1"/><material name="invis" rgba="1 1 1 0"/></asset><worldbody>
  {gx(k[0])}
  <body><freejoint/>{gx(k[1])}<body>{gx(k[2])}</body></body>
  <body mocap="true">{gx(k[3])}</body>
  <body>{gx(k[4])}</body>
  <body><joint type="hinge" axis="0 0 1"/>{gx(k[5])}</body>
  </worldbody></mujoco>"""
  m = mujoco.MjModel.from_xml_string(xml)
  for g in range(m.ngeom):
    if rng.random() < 0.3:
      m.geom_group[g] = rng.choice([-3, -1, 6, 9])  # out-of-range groups are clamped by the rule
  d = mujoco.MjData(m)
  mujoco.mj_forward(m, d)
  return m, d


def _elig_np(m, g, mask, fs, be):
  b = int(m.geom_bodyid[g])
  mat = int(m.geom_matid[g])
  mk = [-1] * 6 if mask is None else [int(x) for x in mask]
  return not _b(ref_eliminate(b, mat, float(m.geom_rgba[g, 3]), float(m.mat_rgba[mat, 3]) if mat >= 0 else 1.0, int(m.body_weldid[b]), int(m.geom_group[g]), mk, bool(fs), be))


def validate_eligibility(seed, nscene):
  """ref_eliminate == what mujoco.mj_ray does: geom g (alone in its direction) is hit iff the rule keeps it"""
  import mujoco

  rng = np.random.default_rng(seed + 34)
  bad = []
  nhit = n = 0
  for _ in range(nscene):
    m, d = _scene(rng)
    for _ in range(6):
      mask = None if rng.random() < 0.3 else rng.integers(0, 2, 6).astype(np.uint8)
      fs, be = bool(rng.integers(2)), int(rng.integers(-1, m.nbody))
      for g in range(m.ngeom):
        gid = np.zeros(1, np.int32)
        mujoco.mj_ray(m, d, np.zeros(3), d.geom_xpos[g], mask, fs, be, gid)
        hit = gid[0] == g
        n += 1
        nhit += hit
        if hit != _elig_np(m, g, mask, fs, be):
          bad.append(f"eligibility rule differs from mj_ray: geom {g} body {m.geom_bodyid[g]} weld {m.body_weldid[m.geom_bodyid[g]]} matid {m.geom_matid[g]} group {m.geom_group[g]} mask {mask} flg_static {fs} bodyexclude {be}: mj_ray hit={hit}")
  if nhit < n // 20 or nhit > n - n // 20:
    bad.append(f"eligibility validation is one-sided ({nhit} hits of {n})")
  return bad


def _line_scene(rng):
  """geoms of random types strung along / around a ray, several on the same body, exact ties by duplicated geoms"""
  import mujoco

  types = ["sphere", "capsule", "box", "ellipsoid", "cylinder", "plane"]
  geoms = []
  for _ in range(int(rng.integers(1, 6))):
    t = types[int(rng.integers(len(types)))]
    pos = np.array([rng.uniform(0.5, 4), rng.uniform(-0.3, 0.3), rng.uniform(-0.3, 0.3)])
    q = rng.normal(size=4)
    q /= np.linalg.norm(q)
    size = rng.uniform(0.1, 0.5, 3)
    g = f'<geom type="{t}" pos="{pos[0]} {pos[1]} {pos[2]}" quat="{q[0]} {q[1]} {q[2]} {q[3]}" size="{size[0]} {size[1]} {size[2]}" group="{int(rng.integers(6))}" rgba="1 1 1 {rng.choice([0.0, 1.0, 1.0])}"/>'
    geoms.append((t, g))
    if rng.random() < 0.3:
      geoms.append((t, g))  # exact tie
  bodies = ""
  world = ""
  for t, g in geoms:
    if t == "plane" or rng.random() < 0.3:
      world += g
    else:
      bodies += f"<body><freejoint/>{g}</body>" if rng.random() < 0.7 else f"<body>{g}</body>"
  m = mujoco.MjModel.from_xml_string(f"<mujoco><worldbody>{world}{bodies}</worldbody></mujoco>")
  d = mujoco.MjData(m)
  mujoco.mj_forward(m, d)
  return m, d


def validate_selection(seed, nscene):
  """reference = ref_eliminate + mju_rayGeom per geom + ref_select  ==  mujoco.mj_ray and mj_multiRay (dist, geomid, normal)"""
  import mujoco

  rng = np.random.default_rng(seed + 340)
  bad = []
  nties = nmiss = 0
  for _ in range(nscene):
    m, d = _line_scene(rng)
    nray = 4
    pnt = np.array([rng.uniform(-0.5, 0.2), rng.uniform(-0.1, 0.1), rng.uniform(-0.1, 0.1)])
    if rng.random() < 0.3:
      pnt = d.geom_xpos[int(rng.integers(m.ngeom))] + rng.uniform(-0.05, 0.05, 3)  # start inside a geom
    vecs = np.array([[1, 0, 0], [1, rng.uniform(-0.2, 0.2), rng.uniform(-0.2, 0.2)], rng.normal(size=3), [0, 0, -1]], dtype=float)
    mask = None if rng.random() < 0.4 else rng.integers(0, 2, 6).astype(np.uint8)
    fs, be = bool(rng.integers(3)), int(rng.integers(-1, m.nbody))
    want = []
    for v in vecs:
      dist, nrm, elig = [], [], []
      for g in range(m.ngeom):
        nn = np.zeros(3)
        dist.append(float(mujoco.mju_rayGeom(d.geom_xpos[g], d.geom_xmat[g], m.geom_size[g], pnt, v, m.geom_type[g], nn)))
        nrm.append(nn)
        elig.append(_elig_np(m, g, mask, fs, be))
      hit, best, bestd = ref_select(elig, dist)
      best = int(best)
      hd = sorted(dist[g] for g in range(m.ngeom) if _b(hit[g]))
      nties += len(hd) > 1 and hd[0] == hd[1]
      nmiss += best < 0
      want.append((float(bestd), best, nrm[best] if best >= 0 else np.zeros(3)))
      gid = np.zeros(1, np.int32)
      nn = np.zeros(3)
      got = mujoco.mj_ray(m, d, pnt, v, mask, fs, be, gid, nn)
      if gid[0] != best or abs(got - bestd) > 1e-9 * (1 + abs(bestd)) or np.abs(nn - want[-1][2]).max() > 1e-9:
        bad.append(f"selection reference differs from mj_ray: want (dist {bestd}, geom {best}, normal {want[-1][2].tolist()}), mj_ray gives ({got}, {gid[0]}, {nn.tolist()}); per-geom dists {dist}, eligible {elig}")
    gids = np.zeros(nray, np.int32)
    dists = np.zeros(nray)
    nrms = np.zeros(3 * nray)
    mujoco.mj_multiRay(m, d, pnt, vecs.flatten(), mask, fs, be, gids, dists, nrms, nray, mujoco.mjMAXVAL)
    for i in range(nray):
      if gids[i] != want[i][1] or abs(dists[i] - want[i][0]) > 1e-9 * (1 + abs(want[i][0])) or np.abs(nrms[3 * i : 3 * i + 3] - want[i][2]).max() > 1e-9:
        bad.append(f"mj_multiRay ray {i} differs from the single-ray reference: ({dists[i]}, {gids[i]}) vs ({want[i][0]}, {want[i][1]})")
  if nscene >= 50 and (nties == 0 or nmiss == 0):
    bad.append(f"selection validation never saw a tie ({nties}) or a miss ({nmiss})")
  return bad


def unit_validate(ctx):
  n = 60 if ctx.tier == "quick" else 300
  for b in (validate_eligibility(ctx.seed, n) + validate_selection(ctx.seed, 4 * n))[:6]:
    ctx.error("reference model does not match MuJoCo (harness error): " + b)
  ctx.reach(ctx.session([]), "twin:validation-ran", True)
  ctx.notes.append("ref_eliminate and ref_select (+ mju_rayGeom per geom) reproduce mujoco.mj_ray and mj_multiRay (dist, geomid, normal) on random scenes incl. out-of-range groups, invisible materials, mocap / welded / static bodies, exact ties and misses")


# ------------------------------------------------------------------------------------------------ eliminate


def _elim_from_arrays(spec, pre):
  a = spec["args"]
  g = int(a["geomid"]["scalar"])
  bodyid = int(pre["geom_bodyid"][g])
  matid = int(pre["geom_matid"][g])
  mat_alpha = float(pre["mat_rgba"][matid][3]) if 0 <= matid < len(pre["mat_rgba"]) else 1.0
  mask = [float(np.float32(x)) for x in a["geomgroup"]["vec"]]
  return _b(ref_eliminate(bodyid, matid, float(pre["geom_rgba"][g][3]), mat_alpha, int(pre["body_weldid"][bodyid]), int(pre["geom_group"][g]), mask, bool(a["flg_static"]["scalar"]), int(a["bodyexclude"]["scalar"])))


def goal_eliminate(spec, pre, post):
  want = _elim_from_arrays(spec, pre)
  got = bool(post["elim_out"][0])
  return got == want, f"_ray_eliminate returns {got}, MuJoCo's rule gives {want} (geom {spec['args']['geomid']['scalar']}, mask {spec['args']['geomgroup']['vec']}, flg_static {spec['args']['flg_static']['scalar']}, bodyexclude {spec['args']['bodyexclude']['scalar']})"


def unit_eliminate(ctx):
  from checks import wrap_c34
  from mujoco_warp._src import ray

  ctx.encode(ray._ray_eliminate)
  ctx.bound(note="no loops; every Model array, the geom id, the mask, the static flag and the excluded body are symbolic")
  ctx.assume("array accesses in bounds (geomid, body id, material id valid: C17 decides bounds)", "group mask given by value: all six entries -1 = MuJoCo's geomgroup NULL")
  kt = lib.kernel_thread(wrap_c34.k_ray_eliminate, shapes={"elim_out": [1]})
  A = kt.args
  g = A["geomid"]
  bodyid = kt.pre("geom_bodyid", g)
  matid = kt.pre("geom_matid", g)
  mask = list(A["geomgroup"].c)
  want = ref_eliminate(bodyid, matid, kt.pre("geom_rgba", g, k=3), kt.pre("mat_rgba", matid, k=3), kt.pre("body_weldid", bodyid), kt.pre("geom_group", g), mask, A["flg_static"], A["bodyexclude"])
  shp = lambda l: A[l].cell.shape[0]
  inv = [g >= 0, g < shp("geom_bodyid"), g < shp("geom_matid"), g < shp("geom_group"), g < shp("geom_rgba"), bodyid >= 0, bodyid < shp("body_weldid"), matid >= -1, matid < shp("mat_rgba")]
  ctx.assume("Model invariants: geom_bodyid in [0, nbody), geom_matid in [-1, nmat), per-geom arrays hold ngeom entries")
  sess = ctx.session(kt.bg + inv)
  ctx.reach(sess, "twin:eliminated", want)
  ctx.reach(sess, "twin:kept-by-mask", And(Not(want), Not(ref_group_filtering_off(mask))))
  names = {"geomid": g, "bodyid": bodyid, "matid": matid, "group": kt.pre("geom_group", g), "weldid": kt.pre("body_weldid", bodyid), "flg_static": A["flg_static"], "bodyexclude": A["bodyexclude"]}
  rp = lib.make_replay(ctx, kt, "checks.wrap_c34:k_ray_eliminate", "eliminate", "goal", goal="checks.c34:goal_eliminate")
  ctx.prove(sess, "equals-mj_ray-rule", kt.post("elim_out", 0) == z3.If(core.zbool(want), 1, 0), names=names, replay=rp, desc="_ray_eliminate disagrees with MuJoCo's mj_ray eligibility rule (body exclusion / invisible geom or material / static flag / clamped group mask)")


# ------------------------------------------------------------------------------------------------ select (kernel _ray)


class TileInterp(core.Interp):
  """Interp with a lockstep model of the tile built-ins used by _ray for one block of B threads:
       wp.block_dim()        = B
       wp.tile(x)            = [x of thread 0, ..., x of thread B-1]   (python list)
       wp.tile_argmin(t)     = [lowest index of the minimum of t]       (Warp keeps the champion unless strictly smaller)
       t[i]                  = element i (handled by the interpreter's list subscript)
     pass 1 (mode 'record'): each thread runs alone, wp.tile returns placeholders and records its argument;
     pass 2 (mode 'block') : wp.tile call number k returns the recorded arguments of all threads for call k.
     Sound when the tile arguments do not depend on tile results and every thread issues the same sequence of tile calls
     (both are checked by the harness)."""

  def __init__(self, B, mode, rec=None, **kw):
    super().__init__(**kw)
    self.B, self.mode, self.rec = B, mode, rec
    self.tiles = []  # arguments of this thread's wp.tile calls

  def _tile(self, x):
    k = len(self.tiles)
    self.tiles.append(x)
    if self.mode == "record":
      if isinstance(x, Vec):
        return [Vec([z3.Real(f"tileph!{k}_{s}_{i}") for i in range(len(x.c))], x.shape, x.dt) for s in range(self.B)]
      kind = core.kind(x)
      return [{"int": z3.Int, "real": z3.Real}[kind](f"tileph!{k}_{s}") for s in range(self.B)]
    if any(len(r) <= k for r in self.rec):
      raise core.Unsupported("threads of the block issue different numbers of wp.tile calls")
    return [self.rec[s][k] for s in range(self.B)]

  def apply(self, fr, fn, args, kwargs, e=None):
    import warp as wp

    if fn is getattr(wp, "tile", None) or getattr(fn, "key", None) == "tile":  # wp.tile(x) / wp.tile(x, preserve_type=True)
      return self._tile(args[0])
    return super().apply(fr, fn, args, kwargs, e)

  def builtin(self, fr, key, args, e):
    if key == "block_dim":
      return self.B
    if key == "tile":
      return self._tile(args[0])
    if key == "tile_argmin":
      t = args[0]
      idx, champ = 0, t[0]
      for i in range(1, len(t)):
        c = cmp("<", t[i], champ)
        idx = ite(c, i, idx)
        champ = ite(c, t[i], champ)
      return [idx]
    return super().builtin(fr, key, args, e)


def _free_names(v):
  from checks.geom_c20 import free_vars

  out = set()
  for c in v.c if isinstance(v, Vec) else [v]:
    if is_sym(c):
      out |= free_vars(c)
  return out


def goal_select(spec, pre, post):
  """replay goal: reference selection over the concrete arrays (per-geom distance by mujoco.mju_rayGeom) vs the real kernel"""
  import mujoco

  e = spec["env"]
  w, r, n = int(e["w"]), int(e["r"]), int(e["n"])
  a = spec["args"]
  mask = [float(np.float32(x)) for x in a["geomgroup"]["vec"]]
  fs = bool(a["flg_static"]["scalar"])
  be = int(pre["bodyexclude"][r])
  row = lambda name: pre[name][w % pre[name].shape[0]]
  pnt, vec = row("pnt")[r].astype(np.float64), row("vec")[r].astype(np.float64)
  elig, dist, nrm = [], [], []
  for g in range(n):
    b = int(pre["geom_bodyid"][g])
    mat = int(row("geom_matid")[g])
    mat_alpha = float(row("mat_rgba")[mat][3]) if mat >= 0 else 1.0
    elig.append(not _b(ref_eliminate(b, mat, float(row("geom_rgba")[g][3]), mat_alpha, int(pre["body_weldid"][b]), int(pre["geom_group"][g]), mask, fs, be)))
    nn = np.zeros(3)
    dist.append(float(mujoco.mju_rayGeom(pre["geom_xpos_in"][w, g].astype(np.float64), pre["geom_xmat_in"][w, g].astype(np.float64).flatten(), row("geom_size")[g].astype(np.float64), pnt, vec, int(pre["geom_type"][g]), nn)))
    nrm.append(nn)
  hit, best, bestd = ref_select(elig, dist)
  best, bestd = int(best), float(bestd)
  wn = nrm[best] if best >= 0 else np.zeros(3)
  gd, gi, gn = float(post["dist_out"][w, r]), int(post["geomid_out"][w, r]), post["normal_out"][w, r].astype(np.float64)
  ok = gi == best and abs(gd - bestd) <= 1e-4 * (1 + abs(bestd)) and np.abs(gn - wn).max() <= 1e-3
  return ok, f"_ray wrote (dist {gd}, geomid {gi}, normal {gn.tolist()}); nearest eligible hit is (dist {bestd}, geomid {best}, normal {wn.tolist()}); per-geom distances {dist}, eligible {elig}"


def _patch_scene(path, w, r, n, dvals):
  """make the replay spec's geometry realise the solver's per-geom distances: ray from the origin along +x, geom g a sphere
  whose first intersection is at distance dvals[g] (off-axis by an amount that depends on the distance, so that different
  distances give different normals and equal distances identical geoms), or far off the ray for a miss"""
  spec = json.load(open(path))
  A = spec["args"]

  def setv(label, idx, vals):
    a = A[label]
    flat = 0
    for i, s in zip(idx, a["shape"]):
      flat = flat * s + i
    for k, v in enumerate(vals):
      a["data"][k][flat] = v

  rad = 0.5
  levels = sorted({float(d) for d in dvals if d >= 0})
  for g in range(n):
    A["geom_type"]["data"][0][g] = 2  # mjGEOM_SPHERE
    for row in range(A["geom_size"]["shape"][0]):
      setv("geom_size", (row, g), [rad, 0.0, 0.0])
    setv("geom_xmat_in", (w, g), [1, 0, 0, 0, 1, 0, 0, 0, 1])
    d = float(dvals[g])
    if d < 0:
      setv("geom_xpos_in", (w, g), [1.0 + g, 10.0, 0.0])
    else:
      y = rad * 0.25 * (levels.index(d) % 3)
      setv("geom_xpos_in", (w, g), [d + float(np.sqrt(rad * rad - y * y)), y, 0.0])
  for row in range(A["pnt"]["shape"][0]):
    # rows differ (a wrong world row changes the distances); the row of this world starts at the origin
    k = (row - w % A["pnt"]["shape"][0]) % A["pnt"]["shape"][0]
    setv("pnt", (row, r), [-0.25 * k, 0.0, 0.0])
  for row in range(A["vec"]["shape"][0]):
    setv("vec", (row, r), [1.0, 0.0, 0.0])
  with open(path, "w") as f:
    json.dump(spec, f, indent=1, default=str)


def unit_select(n, B):
  def run(ctx):
    from mujoco_warp._src import ray
    from mujoco_warp._src.types import GeomType

    k = ray._ray
    ctx.encode(k, ray._ray_geom_mesh, ray._ray_eliminate)
    ctx.bound(ngeom=n, block_dim=B, nworld="<= 3 (symbolic world id)", nray="<= 3 (symbolic ray id)", note="whole block executed in lockstep; loops concrete")
    ctx.assume(
      "tile model: wp.tile gathers one value per thread of the block, wp.tile_argmin returns the lowest index among the minima (Warp's tracker replaces the champion only when strictly smaller)",
      "per-geom intersection functions (ray_geom / ray_mesh / ray_hfield) are free symbols: -1 (miss) or a distance in [0, mjMAXVAL)",
      "array accesses of every thread of the block in bounds (C17 decides bounds)",
      "launch shapes as asserted by rays(): pnt / vec (1 or nworld, nray), bodyexclude (nray), outputs (nworld, nray); Model arrays hold ngeom entries; geom_bodyid in [0, nbody), geom_matid in [-1, nmat)",
    )
    w, r = z3.Int("worldid"), z3.Int("rayid")
    calls = []

    def summary(kind):
      def s(it, fr, args):
        g = fr.env["geomid"]
        if is_sym(g):
          raise core.Unsupported("geom id of a per-geom call is symbolic")
        D = z3.Real(f"D{kind}_{g}")
        N = [z3.Real(f"N{kind}_{g}_{i}") for i in range(3)]
        calls.append({"kind": kind, "g": g, "guard": it.active(fr), "args": args, "env": dict(fr.env)})
        return (D, Vec(N, (3,), "f"))

      return s

    summ = {ray.ray_geom.key: summary("p"), ray.ray_mesh.key: summary("m"), ray.ray_hfield.key: summary("h")}
    args = kh.make_args(k, scalars={"ngeom": n})
    replay.snapshot_initial(args)
    outs = [args[l].cell for l in ("dist_out", "geomid_out", "normal_out")]
    snaps = [c.snapshot() for c in outs]
    assumes, obls = [], []
    rec = []
    for s_ in range(B):
      it = TileInterp(B, "record", summaries=summ, unroll=4, tid=(w, r, s_))
      kh.run(k, args, tid=(w, r, s_), interp=it)
      rec.append(it.tiles)
      assumes += it.assumes
      obls += it.obl
      for c, sn in zip(outs, snaps):
        c.restore(sn)
    if len({len(x) for x in rec}) != 1:
      ctx.error("threads of the block issue different numbers of wp.tile calls: lockstep model does not apply")
      return
    if any(nm.startswith("tileph!") for tl in rec for x in tl for nm in _free_names(x)):
      ctx.error("a wp.tile argument depends on a tile result: two-pass lockstep model does not apply")
      return
    ncalls_rec = len(calls)
    A = args
    shp = lambda l, d=0: A[l].cell.shape[d]
    # preconditions / background
    bg = [w >= 0, w <= 2, r >= 0, r <= 2]
    seen = set()
    for v in A.values():
      if isinstance(v, core.ArrRef) and v.cell.uid not in seen:
        seen.add(v.cell.uid)
        bg += [z3.And(s >= 0, s <= 6) for s in v.cell.shape if is_sym(s)]
    # launch preconditions asserted by rays(): shapes of the per-ray / per-world arrays; Model arrays hold ngeom entries
    nray, nworld = shp("pnt", 1), shp("dist_out", 0)
    bg += [r < nray, w < nworld, shp("vec", 1) == nray, shp("vec", 0) == shp("pnt", 0), shp("pnt", 0) >= 1, shp("bodyexclude", 0) == nray]
    bg += [shp(l, 0) == nworld for l in ("geomid_out", "normal_out", "geom_xpos_in", "geom_xmat_in")] + [shp(l, 1) == nray for l in ("dist_out", "geomid_out", "normal_out")]
    bg += [shp(l, 0) >= n for l in ("geom_type", "geom_bodyid", "geom_group")] + [shp(l, 1) >= n for l in ("geom_matid", "geom_size", "geom_rgba", "geom_xpos_in", "geom_xmat_in", "geom_dataid")]
    bg += [shp(l, 0) >= 1 for l in ("geom_matid", "geom_size", "geom_rgba", "mat_rgba", "geom_dataid")]
    Dk = {kd: [z3.Real(f"D{kd}_{g}") for g in range(n)] for kd in "pmh"}
    Nk = {kd: [[z3.Real(f"N{kd}_{g}_{i}") for i in range(3)] for g in range(n)] for kd in "pmh"}
    for kd in "pmh":
      bg += [z3.Or(d == -1, z3.And(d >= 0, d < z3.RealVal(MAXVAL))) for d in Dk[kd]]

    def rd(label, *idx, k=0):
      c = A[label].cell
      return c.get(idx, k, snap=c.a0)

    # reference
    elig, dist, nrm = [], [], []
    be = rd("bodyexclude", r)
    mask = list(A["geomgroup"].c)
    for g in range(n):
      bodyid = rd("geom_bodyid", g)
      matid = rd("geom_matid", w % shp("geom_matid"), g)
      bg += [bodyid >= 0, bodyid < shp("body_weldid"), matid >= -1, matid < shp("mat_rgba", 1)]  # Model invariants
      el = ref_eliminate(bodyid, matid, rd("geom_rgba", w % shp("geom_rgba"), g, k=3), rd("mat_rgba", w % shp("mat_rgba"), matid, k=3), rd("body_weldid", bodyid), rd("geom_group", g), mask, A["flg_static"], be)
      elig.append(Not(el))
      ty = rd("geom_type", g)
      dist.append(z3.If(ty == int(GeomType.MESH), Dk["m"][g], z3.If(ty == int(GeomType.HFIELD), Dk["h"][g], Dk["p"][g])))
      nrm.append([z3.If(ty == int(GeomType.MESH), Nk["m"][g][i], z3.If(ty == int(GeomType.HFIELD), Nk["h"][g][i], Nk["p"][g][i])) for i in range(3)])
    hit, best, bestd = ref_select(elig, dist)
    want_n = [0.0] * 3
    for g in range(n):
      want_n = [ite(cmp("==", best, g), nrm[g][i], want_n[i]) for i in range(3)]
    names = {"worldid": w, "rayid": r, "best": best, "best_dist": bestd, "flg_static": A["flg_static"], "bodyexclude": be}
    names.update({f"dist{g}": dist[g] for g in range(n)})
    names.update({f"eligible{g}": core.zbool(elig[g]) for g in range(n)})
    def make_rp(sess, neg, nm, t):
      def rp(model):
        # re-solve inside a well-conditioned region (distances in {-1, 1, 2, 3}) before replaying
        nice = [z3.Or(*[d == v for v in (-1, 1, 2, 3)]) for kd in "pmh" for d in Dk[kd]] + [rd("geom_type", g) == int(GeomType.SPHERE) for g in range(n)]
        res, _, m2 = sess._check([neg] + nice)
        if res == "sat":
          model = m2
        dv = [kh.mval(model, dist[g]) for g in range(n)]
        path = replay.write_spec(ctx.pid, ctx.unit, f"{nm}-t{t}", "mujoco_warp._src.ray:_ray", k, args, model, (w, r, 0), "goal", goal="checks.c34:goal_select", env={"w": w, "r": r, "n": n, "block_dim_of_the_model": B}, note="CPU replays run with block_dim 1")
        _patch_scene(path, int(kh.mval(model, w)), int(kh.mval(model, r)), n, dv)
        return replay.run_spec(path, timeout=900)

      return rp

    for t in range(B):
      it = TileInterp(B, "block", rec=rec, summaries=summ, unroll=4, tid=(w, r, t))
      kh.run(k, args, tid=(w, r, t), interp=it)
      bgt = list(bg) + [core.zbool(x) for x in assumes + it.assumes]
      for o in obls + it.obl:
        if o.kind == "unwind":
          ctx.error(f"unexpected symbolic loop at {o.where}")
        elif o.kind == "bounds":
          bgt.append(core.zbool(Implies(o.guard, o.strict)))
      sess = ctx.session(bgt)
      if t == 0:
        ctx.reach(sess, "twin:reachable", True)
        if n >= 1:
          ctx.reach(sess, "twin:hit", cmp(">=", best, 0))
        if n >= 2:
          ctx.reach(sess, "twin:tie", And(hit[0], hit[1], cmp("==", dist[0], dist[1])))
          ctx.reach(sess, "twin:later-geom-wins", cmp("==", best, n - 1))
      got_d = outs[0].get((w, r))
      got_i = outs[1].get((w, r))
      got_n = [outs[2].get((w, r), k_) for k_ in range(3)]
      goals = [
        ("dist", got_d == core.to_z3(bestd, "real"), "dist is not the distance of the nearest eligible hit (-1 if none)"),
        ("geomid", got_i == core.to_z3(best, "int"), "geomid is not the nearest eligible geom (ties: lower id; -1 if none)"),
        ("normal", z3.And(*[got_n[i] == core.to_z3(want_n[i], "real") for i in range(3)]), "normal is not the normal reported for the selected geom (zero if none)"),
      ]
      for nm, goal, desc in goals:
        neg = z3.Not(goal)

        rp = make_rp(sess, neg, nm, t)
        ctx.prove(sess, f"t{t}/{nm}", goal, names=names, replay=rp, desc=f"_ray (ngeom {n}, block_dim {B}, thread {t}): {desc}")
      # every thread stores its result at [world, ray] and nowhere else
      for c, lab in zip(outs, ("dist_out", "geomid_out", "normal_out")):
        ws = [a for a in it.accesses if a.cell is c and a.kind.startswith(("W", "A"))]
        ok = len(ws) >= 1 and all(len(a.idx) == 2 for a in ws)
        always = Or(*[a.guard for a in ws]) if ws else False
        only = And(*[Implies(a.guard, And(cmp("==", a.idx[0], w), cmp("==", a.idx[1], r))) for a in ws])
        ctx.prove(sess, f"t{t}/writes-own-cell/{lab}", And(ok, always, only), names=names, replay=lambda m: (True, "model only (write set)"), desc=f"_ray: {lab} is not written exactly at [worldid, rayid]")
      for c, sn in zip(outs, snaps):
        c.restore(sn)
    # arguments handed to the per-geom functions (calls recorded in pass 1: geom g is handled by thread g % B)
    sess = ctx.session(bg + [core.zbool(x) for x in assumes] + [core.zbool(Implies(o.guard, o.strict)) for o in obls if o.kind == "bounds"])
    prim = [c for c in calls[:ncalls_rec] if c["kind"] == "p"]
    if sorted(c["g"] for c in prim) != list(range(n)):
      ctx.error(f"ray_geom is called for geoms {sorted(c['g'] for c in prim)} (expected each of 0..{n - 1} once)")
    for c in prim:
      g = c["g"]
      pos, mat, size, pnt, vec, ty = c["args"]
      veq = lambda v, label, *idx: And(*[cmp("==", v.c[i], rd(label, *idx, k=i)) for i in range(len(v.c))])
      good = And(
        veq(pos, "geom_xpos_in", w, g),
        veq(mat, "geom_xmat_in", w, g),
        veq(size, "geom_size", w % shp("geom_size"), g),
        veq(pnt, "pnt", w % shp("pnt"), r),
        veq(vec, "vec", w % shp("vec"), r),
        cmp("==", ty, rd("geom_type", g)),
      )
      ctx.prove(sess, f"per-geom-call/{g}/arguments", good, c["guard"], names={"worldid": w, "rayid": r}, replay=make_rp(sess, z3.And(core.zbool(c["guard"]), z3.Not(core.zbool(good)), rd("geom_type", g) == int(GeomType.SPHERE), *[Dk["p"][g2] == (1 + g2 if g2 == g else -1) for g2 in range(n)], core.zbool(elig[g])), f"args{g}", 0), desc=f"_ray: ray_geom for geom {g} is not called with (geom_xpos[world, g], geom_xmat[world, g], geom_size[world % n, g], pnt[world % n, ray], vec[world % n, ray], geom_type[g])")

  return (f"select/ngeom{n}/block{B}", run)


# ------------------------------------------------------------------------------------------------ dispatch (ray_geom)


PRIMS = {"ray_plane": 0, "ray_sphere": 2, "ray_capsule": 3, "ray_ellipsoid": 4, "ray_cylinder": 5, "ray_box": 6}


def goal_dispatch(spec, pre, post):
  from checks import rayg_c34

  gt = int(spec["args"]["geomtype"]["scalar"])
  if gt in PRIMS.values():
    spec = dict(spec, env=dict(spec.get("env") or {}, geomtype=gt))
    return rayg_c34.goal_vs_mujoco(spec, pre, post)
  dw, nw = float(post["dist_out"][0]), post["normal_out"][0]
  return dw == -1.0 and not np.any(nw), f"ray_geom for non-primitive geom type {gt} returns ({dw}, {nw.tolist()}) instead of (-1, 0)"


def unit_dispatch(ctx):
  from checks import rayg_c34, wrap_c34
  from mujoco_warp._src import ray

  ctx.encode(ray.ray_geom)
  ctx.bound(note="no loops; geom type symbolic; the six per-type functions are free symbols (their own units decide them)")
  calls = {}

  def summary(name):
    def s(it, fr, args):
      D = z3.Real(f"D_{name}")
      N = [z3.Real(f"N_{name}_{i}") for i in range(3)]
      calls[name] = {"guard": it.active(fr), "args": args}
      if name == "ray_box":
        return (D, Vec([z3.Real(f"all_{i}") for i in range(6)], (6,), "f"), Vec(N, (3,), "f"))
      return (D, Vec(N, (3,), "f"))

    return s

  kt = lib.kernel_thread(wrap_c34.k_ray_geom, shapes={"dist_out": [1], "normal_out": [1]}, interp_kw={"summaries": {getattr(ray, nm).key: summary(nm) for nm in PRIMS}})
  A = kt.args
  gt = A["geomtype"]
  sess = ctx.session(kt.bg)
  ctx.reach(sess, "twin:reachable", gt == 6)
  got_d, got_n = kt.post("dist_out", 0), [kt.post("normal_out", 0, k=i) for i in range(3)]
  rp0 = lib.make_replay(ctx, kt, "checks.wrap_c34:k_ray_geom", "dispatch", "goal", goal="checks.c34:goal_dispatch")
  names = {"geomtype": gt}
  from checks.geom_c20 import pin_vec

  # a well-conditioned ray / pose for replays: it hits every primitive type (solver models leave unconstrained inputs at 0)
  nice = z3.And(pin_vec(A["pos"].c, (0, 0, 0)), pin_vec(A["mat"].c, (1, 0, 0, 0, 1, 0, 0, 0, 1)), pin_vec(A["size"].c, (2, "3/2", "1/2")), pin_vec(A["pnt"].c, (-4, "1/4", 3)), pin_vec(A["vec"].c, (1, 0, "-3/4")))
  current = {}

  def rp(model):
    res, _, m2 = sess._check([current["neg"], nice])
    return rp0(m2 if res == "sat" else model)

  _prove = ctx.prove

  def prove(sess_, name, goal, guard=True, **kw):
    current["neg"] = z3.And(core.zbool(guard), z3.Not(core.zbool(goal)))
    return _prove(sess_, name, goal, guard, **kw)

  if set(calls) != set(PRIMS):
    ctx.error(f"ray_geom calls {sorted(calls)} (expected the six primitive functions)")
    return
  for nm, tv in PRIMS.items():
    c = calls[nm]
    same = lambda u, v: And(*[cmp("==", x, y) for x, y in zip(u.c, v.c)])
    if nm == "ray_sphere":
      pos, dsq, pnt, vec = c["args"]
      argok = And(same(pos, A["pos"]), cmp("==", dsq, arith("*", A["size"].c[0], A["size"].c[0])), same(pnt, A["pnt"]), same(vec, A["vec"]))
    else:
      pos, mat, size, pnt, vec = c["args"]
      argok = And(same(pos, A["pos"]), same(mat, A["mat"]), same(size, A["size"]), same(pnt, A["pnt"]), same(vec, A["vec"]))
    res = z3.And(got_d == z3.Real(f"D_{nm}"), *[got_n[i] == z3.Real(f"N_{nm}_{i}") for i in range(3)])
    prove(sess, f"{nm}/result-forwarded", res, gt == tv, names=names, replay=rp, desc=f"ray_geom: geom type {tv} does not return the result of {nm}")
    prove(sess, f"{nm}/called-iff-type", core.zbool(c["guard"]) == (gt == tv), names=names, replay=rp, desc=f"ray_geom: {nm} is not called exactly for geom type {tv}")
    prove(sess, f"{nm}/arguments", argok, c["guard"], names=names, replay=rp, desc=f"ray_geom: {nm} is not called with (pos, mat, size, pnt, vec)" + (" / (pos, size[0]^2, pnt, vec)" if nm == "ray_sphere" else ""))
  other = z3.And(*[gt != tv for tv in PRIMS.values()])
  prove(sess, "other-types/miss", z3.And(got_d == -1, *[got_n[i] == 0 for i in range(3)]), other, names=names, replay=rp, desc="ray_geom: a non-primitive geom type does not return (-1, zero normal)")


# ------------------------------------------------------------------------------------------------ rays / ray (host level)


def _tiny_model(nworld=2):
  import mujoco
  import mujoco_warp as mjw

  xml = """<mujoco><worldbody>
    <geom type="sphere" size="0.3" pos="2 0 0" group="1"/>
    <body pos="1 0.1 0"><freejoint/><geom type="box" size="0.2 0.3 0.1" group="2"/></body>
    <body pos="3 0 0.1"><joint type="hinge"/><geom type="capsule" size="0.2 0.3" rgba="1 0 0 0.5"/></body>
  </worldbody></mujoco>"""
  m = mujoco.MjModel.from_xml_string(xml)
  d = mujoco.MjData(m)
  mujoco.mj_forward(m, d)
  return m, d, mjw.put_model(m), mjw.put_data(m, d, nworld=nworld)


def replay_rays_vs_ray(_model=None):
  """public API on concrete inputs: column i of rays() must equal ray() on ray i alone"""
  import warp as wp

  import mujoco_warp as mjw
  from mujoco_warp._src.types import vec6

  mjm, mjd, m, d = _tiny_model(2)
  rng = np.random.default_rng(5)
  nray = 4
  P = rng.uniform(-0.3, 0.3, (2, nray, 3)).astype(np.float32)
  V = (np.array([1.0, 0, 0]) + rng.uniform(-0.2, 0.2, (2, nray, 3))).astype(np.float32)
  be = np.array([-1, 1, 2, 0], dtype=np.int32)
  gg = vec6(1, 1, 1, 0, 0, 0)
  dist, gid, nrm = wp.zeros((2, nray), dtype=float), wp.zeros((2, nray), dtype=int), wp.zeros((2, nray), dtype=wp.vec3)
  mjw.rays(m, d, wp.array(P, dtype=wp.vec3), wp.array(V, dtype=wp.vec3), gg, True, wp.array(be, dtype=int), dist, gid, nrm)
  msgs = []
  for i in range(nray):
    d1, g1, n1 = mjw.ray(m, d, wp.array(P[:, i : i + 1], dtype=wp.vec3), wp.array(V[:, i : i + 1], dtype=wp.vec3), gg, True, int(be[i]))
    if not (np.allclose(d1.numpy()[:, 0], dist.numpy()[:, i]) and np.array_equal(g1.numpy()[:, 0], gid.numpy()[:, i]) and np.allclose(n1.numpy()[:, 0], nrm.numpy()[:, i])):
      msgs.append(f"ray {i}: rays() gives (dist {dist.numpy()[:, i].tolist()}, geom {gid.numpy()[:, i].tolist()}), ray() on that ray alone gives ({d1.numpy()[:, 0].tolist()}, {g1.numpy()[:, 0].tolist()})")
  return bool(msgs), "; ".join(msgs[:3]) or "rays() columns equal ray() results on this scene"


def unit_rays(ctx):
  """ray i of rays()  ==  ray() on ray i alone: both REAL host functions are run natively with wp.launch_tiled interpreted
  (every thread block of _ray in lockstep, block_dim 1 as on the CPU device), symbolic ray origins / directions / excluded
  bodies / poses / group mask / static flag, the per-geom intersection an uninterpreted function of its arguments"""
  import warp as wp

  from mujoco_warp._src import ray
  from wsym import host

  ctx.encode(ray.rays, ray.ray, ray._ray, ray._ray_geom_mesh, ray._ray_eliminate)
  NW, NR = 2, 2
  ctx.bound(nworld=NW, nray=NR, ngeom=3, block_dim=1, note="concrete 3-geom Model (sphere, box, capsule); Data poses, rays, excluded bodies, mask, static flag symbolic")
  ctx.assume("per-geom intersection functions are uninterpreted functions of (pos, mat, size, pnt, vec, type)", "tile model as in unit select")
  mjm, mjd, m, d = _tiny_model(NW)
  d2 = host.shim_dataclass(d, "d.", symbolic=lambda name: name in ("d.geom_xpos", "d.geom_xmat"))
  RS, IS = z3.RealSort(), z3.IntSort()
  FD = z3.Function("ray_geom_dist", *([RS] * 21 + [IS, RS]))
  FN = [z3.Function(f"ray_geom_normal{i}", *([RS] * 21 + [IS, RS])) for i in range(3)]

  def s_geom(it, fr, args):
    flat = []
    for a in args[:5]:
      flat += [core.to_z3(c, "real") for c in a.c]
    flat.append(core.to_z3(args[5], "int"))
    return (FD(*flat), Vec([f(*flat) for f in FN], (3,), "f"))

  def s_other(it, fr, args):
    raise core.Unsupported("mesh / hfield ray in the rays unit")

  summ = {ray.ray_geom.key: s_geom, ray.ray_mesh.key: s_other, ray.ray_hfield.key: s_other}
  assumes = []

  def run(fn):
    with host.HostRun(mode="exec") as hr:

      def launch_tiled(kernel, dim, inputs=(), outputs=(), block_dim=None, **kw):
        args = list(inputs) + list(outputs or ())
        specs = [(a.label, a.type) for a in kernel.adj.args]
        vals = [hr.to_arg(a, t) for a, (l, t) in zip(args, specs)]
        hr.events.append(host.Event("launch_tiled", kernel, tuple(dim), None, None, {"block_dim": block_dim}))
        import itertools

        for tid in itertools.product(*[range(int(n)) for n in dim]):
          rec = TileInterp(1, "record", summaries=summ, unroll=4, tid=tid + (0,), track_access=False)
          snap = [(v.cell, v.cell.snapshot()) for v in vals if isinstance(v, core.ArrRef)]
          rec.call_pyfunc(kernel.func, vals, name=kernel.key)
          for c, sn in snap:
            c.restore(sn)
          it = TileInterp(1, "block", rec=[rec.tiles], summaries=summ, unroll=4, tid=tid + (0,), track_access=False)
          it.call_pyfunc(kernel.func, vals, name=kernel.key)
          assumes.extend(it.assumes)

      wp.launch_tiled = launch_tiled
      out = fn()
    return out, hr

  def symarr(name, shape, dtype):
    return host.sym_array(name, shape, dtype)

  pnt, vec = symarr("pnt", (NW, NR), wp.vec3), symarr("vec", (NW, NR), wp.vec3)
  be = symarr("bodyexclude", (NR,), int)
  gg = Vec([z3.Real(f"geomgroup_{i}") for i in range(6)], (6,), "f")
  fs = z3.Bool("flg_static")
  dist, gid, nrm = symarr("dist", (NW, NR), float), symarr("geomid", (NW, NR), int), symarr("normal", (NW, NR), wp.vec3)
  _, hr = run(lambda: ray.rays(m, d2, pnt, vec, gg, fs, be, dist, gid, nrm))
  ev = [e for e in hr.events if e.kind == "launch_tiled"]
  if len(ev) != 1 or ev[0].kernel is not ray._ray or ev[0].dim != (NW, NR):
    ctx.error(f"rays() launches {[(e.kernel.key, e.dim) for e in ev]} (expected one tiled launch of _ray over (nworld, nray))")
    return
  if ev[0].info["block_dim"] != m.block_dim.ray:
    ctx.violation("rays/block-dim", f"rays() launches _ray with block_dim {ev[0].info['block_dim']} instead of m.block_dim.ray", "(host trace)")
  sess = ctx.session([core.zbool(a) for a in assumes])
  ctx.reach(sess, "twin:reachable", True)
  cd, cg, cn = dist.ref.cell, gid.ref.cell, nrm.ref.cell
  for i in range(NR):
    p1, v1 = symarr(f"pnt{i}", (NW, 1), wp.vec3), symarr(f"vec{i}", (NW, 1), wp.vec3)
    for src, dst in ((pnt, p1), (vec, v1)):
      for k in range(3):
        dst.ref.cell.d[k] = [src.ref.cell.d[k][src.ref.cell.flat((w, i))] for w in range(NW)]
    (d1, g1, n1), hr1 = run(lambda: ray.ray(m, d2, p1, v1, gg, fs, be.ref.cell.d[0][i]))
    sess1 = ctx.session([core.zbool(a) for a in assumes])
    for w in range(NW):
      same = z3.And(
        core.to_z3(cd.d[0][cd.flat((w, i))], "real") == core.to_z3(d1.ref.cell.d[0][w], "real"),
        core.to_z3(cg.d[0][cg.flat((w, i))], "int") == core.to_z3(g1.ref.cell.d[0][w], "int"),
        *[core.to_z3(cn.d[k][cn.flat((w, i))], "real") == core.to_z3(n1.ref.cell.d[k][w], "real") for k in range(3)],
      )
      ctx.prove(sess1, f"ray{i}/world{w}/rays-equals-ray", same, names={}, replay=replay_rays_vs_ray, desc=f"rays(): result of ray {i} in world {w} differs from ray() cast for that ray alone (index discipline of pnt / vec / bodyexclude / outputs)")


# ------------------------------------------------------------------------------------------------ main


def all_units(tier):
  from checks import rayg_c34

  units = [("validate-references-on-mujoco", unit_validate), ("eliminate", unit_eliminate)]
  combos = [(0, 1), (1, 1), (2, 1), (3, 1), (2, 2), (3, 2), (3, 4)]
  if tier == "thorough":
    combos += [(1, 2), (1, 4), (2, 4), (4, 1), (4, 2), (4, 4), (5, 2)]
  units += [unit_select(n, B) for n, B in combos]
  units += [("dispatch", unit_dispatch), ("rays-equals-ray", unit_rays)]
  units += rayg_c34.units(tier)
  return units


def main(tier, seed, only=None):
  units = all_units(tier)
  if only:
    units = [u for u in units if any(o in u[0] for o in only)]
  return report.run_check(PID, units, tier, seed)
