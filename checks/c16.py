"""C16 Capacity overflow is never silent.

Solver queries over the real allocating kernels (one generic thread, capacities / counters / tid / array contents symbolic):
 rows       every constraint-row builder: rows allocated by this thread that fit the capacity are completely written
 indep      the values written to fitting rows do not depend on the capacity (relational query njmax vs njmax')
 nnz        sparse builders leave the evidence _next_time needs to detect an njmax_nnz overflow (KNOWN FINDING)
 next_time  each overflow bit is set iff its condition holds, other bits preserved
 contacts   write_contact / _add_geom_pair: a slot below capacity is completely written
"""

import z3

from checks import lib
from wsym import core, kh, report
from wsym.core import And, Implies, Not, Or, arith, cmp, is_sym

PID = "C16"

ROW_FIELDS = ["efc_type_out", "efc_id_out", "efc_pos_out", "efc_margin_out", "efc_D_out", "efc_vel_out", "efc_aref_out", "efc_frictionloss_out"]
BUILDERS = ["_equality_connect", "_equality_weld", "_equality_joint", "_equality_tendon", "_friction_dof", "_friction_tendon", "_limit_slide_hinge", "_limit_ball", "_limit_tendon"]
SPECS = [(False, True), (True, True), (True, False)]


def goal_written(spec, pre, post):
  """replay goal: the cell must not still hold the sentinel"""
  e = spec["env"]
  idx = tuple(e["idx"])
  label = e["label"]
  v = post[label][idx]
  sent = e["sentinels"][label]
  import numpy as np

  still = bool(np.all(np.asarray(v) == sent))
  return (not still), f"{label}{list(idx)} = {v} (sentinel {sent}; untouched = not written)"


def goal_indep(spec, pres, posts):
  e = spec["env"]
  idx = tuple(e["idx"])
  label = e["label"]
  import numpy as np

  a, b = np.asarray(posts[0][label][idx], dtype=float), np.asarray(posts[1][label][idx], dtype=float)
  same = bool(np.allclose(a, b, rtol=1e-5, atol=1e-6))
  return same, f"{label}{list(idx)}: {a} with {e['variants'][0]} vs {b} with {e['variants'][1]}"


def unit_rows(builder, spec):
  def run(ctx):
    from mujoco_warp._src import constraint

    is_sparse, newton = spec
    k = getattr(constraint, builder)(is_sparse, newton)
    loc = f"mujoco_warp._src.constraint:{builder}({is_sparse}, {newton})"
    ctx.encode(k, constraint._efc_row)
    ctx.bound(unroll=3, shape_cap=6, note="loops (nv columns, dof-ancestor walks, tendon wraps) run at most 3 iterations; array dims <= 6")
    ctx.assume("thread's own array accesses are in bounds (C17 decides bounds)", "loop trip counts <= unroll bound (unwinding assumption)", "float products/quotients/sqrt/pow are uninterpreted functions (sound over-approximation: which rows are written does not depend on float values)")
    njmax, nnzmax = z3.Int("njmax_in"), z3.Int("njmax_nnz_in")
    kt = lib.kernel_thread(k, scalars={"njmax_in": njmax, "njmax_nnz_in": nnzmax}, unroll=3, interp_kw={"float_uf": True})
    w = kt.tid[0]
    e0 = kt.pre("nefc_out", w)
    n = kt.atomic_total("nefc_out", w)
    a0 = kt.pre("efc_nnz_out", w)
    nn = kt.atomic_total("efc_nnz_out", w)
    r = z3.Int("r")
    bg = kt.bg + [njmax >= 0, nnzmax >= 0, e0 >= 0, a0 >= 0]
    sess = ctx.session(bg)
    alloc = And(cmp(">", n, 0), cmp(">=", r, e0), cmp("<", r, arith("+", e0, n)))
    fits = And(cmp("<=", arith("+", e0, n), njmax), (cmp("<=", arith("+", a0, nn), nnzmax) if is_sparse else True))
    ctx.reach(sess, "twin:allocating-and-fitting", And(alloc, fits))
    names = {"w": w, "r": r, "nefc0": e0, "nrows": n, "njmax": njmax, "njmax_nnz": nnzmax, "nnz0": a0, "nnz_alloc": nn}
    nv = kt.args["nv"] if "nv" in kt.args else None
    fields = list(ROW_FIELDS)
    if is_sparse:
      fields += ["efc_J_rownnz_out", "efc_J_rowadr_out"]
    for F in fields:
      if F not in kt.args:
        ctx.error(f"{builder}: no argument {F}")
        continue
      sent = -777 if kt.cell(F).dtype == "int" else -777.0
      rp = lib.make_replay(ctx, kt, loc, f"written/{F}", "goal", goal="checks.c16:goal_written", env={"label": F, "idx": [w, r], "sentinels": {F: sent}})
      ctx.prove(sess, f"written/{F}", kt.written(F, w, r), And(alloc, fits, kt.inshape(F, w, r)), names=names, replay=rp, desc=f"{builder}{spec}: allocated row that fits njmax/njmax_nnz is not written ({F}) although no overflow would be reported")
    if not is_sparse and nv is not None and "efc_J_out" in kt.args:
      c = z3.Int("c")
      rp = lib.make_replay(ctx, kt, loc, "written/efc_J_out", "goal", goal="checks.c16:goal_written", env={"label": "efc_J_out", "idx": [w, r, c], "sentinels": {"efc_J_out": -777.0}})
      ctx.prove(sess, "written/efc_J_out(dense)", kt.written("efc_J_out", w, r, c), And(alloc, fits, c >= 0, cmp("<", c, nv), kt.inshape("efc_J_out", w, r, c)), names=dict(names, c=c), replay=rp, desc=f"{builder}{spec}: dense Jacobian entry of a fitting row not written")
    if is_sparse:
      kk = z3.Int("k")
      rownnz = kt.post("efc_J_rownnz_out", w, r)
      rowadr = kt.post("efc_J_rowadr_out", w, r)
      for F in ("efc_J_out", "efc_J_colind_out"):
        sent = -777 if kt.cell(F).dtype == "int" else -777.0
        rp = lib.make_replay(ctx, kt, loc, f"written/{F}", "goal", goal="checks.c16:goal_written", env={"label": F, "idx": [w, 0, arith("+", rowadr, kk)], "sentinels": {F: sent}})
        ctx.prove(sess, f"written/{F}(sparse)", kt.written(F, w, 0, arith("+", rowadr, kk)), And(alloc, fits, kk >= 0, cmp("<", kk, rownnz), kt.inshape(F, w, 0, arith("+", rowadr, kk))), names=dict(names, k=kk), replay=rp, desc=f"{builder}{spec}: sparse Jacobian entry of a fitting row not written")
      # evidence for _next_time (known finding on the unchanged tree)
      last = arith("-", arith("+", e0, n), 1)
      ev = And(kt.written("efc_J_rowadr_out", w, last), kt.written("efc_J_rownnz_out", w, last), cmp(">", arith("+", kt.post("efc_J_rowadr_out", w, last), kt.post("efc_J_rownnz_out", w, last)), nnzmax))
      ctx.prove(sess, "nnz-overflow-evidence", ev, And(cmp(">", n, 0), cmp("<=", arith("+", e0, n), njmax), cmp(">", arith("+", a0, nn), nnzmax)), names=names, desc=f"{builder}{spec}: njmax_nnz exceeded by this thread but its last row carries no rowadr+rownnz > njmax_nnz for _next_time to see")
    # capacity independence
    nj2, nz2 = z3.Int("njmax_in'"), z3.Int("njmax_nnz_in'")
    sub = [(njmax, nj2), (nnzmax, nz2)]
    bg2 = [z3.substitute(core.zbool(b), *sub) for b in bg]
    sess2 = ctx.session(bg + bg2)
    fits2 = z3.substitute(core.zbool(fits), *sub)
    alloc2 = z3.substitute(core.zbool(alloc), *sub)
    for F in ROW_FIELDS:
      if F not in kt.args:
        continue
      v1 = kt.post(F, w, r)
      v2 = z3.substitute(v1, *sub)
      rp = lib.make_replay(ctx, kt, loc, f"indep/{F}", "goal", goal="checks.c16:goal_indep", env={"label": F, "idx": [w, r], "variants": [{"njmax_in": njmax, "njmax_nnz_in": nnzmax}, {"njmax_in": nj2, "njmax_nnz_in": nz2}]})
      ctx.prove(sess2, f"capacity-independent/{F}", v1 == v2, And(alloc, fits, alloc2, fits2), names=dict(names, njmax2=nj2, njmax_nnz2=nz2), replay=rp, desc=f"{builder}{spec}: value written to a fitting row depends on the capacity")

  return (f"rows/{builder}/{'sparse' if spec[0] else 'dense'}-{'newton' if spec[1] else 'cg'}", run)


def unit_next_time(ctx):
  from mujoco_warp._src import forward, types

  k = forward._next_time_builder(False)
  ctx.encode(k)
  kt = lib.kernel_thread(k, alias_inout=True)
  w = kt.tid
  O = types.OverflowType
  nefc, njmax = kt.pre("nefc_in", w), kt.args["njmax_in"]
  ncoll, nacon, naconmax = kt.pre("ncollision_in", 0), kt.pre("nacon_in", 0), kt.args["naconmax_in"]
  ov0, ov1 = kt.pre("overflow_out", w), kt.post("overflow_out", w)
  sess = ctx.session(kt.bg + [ov0 >= 0, ov0 < 64])
  ctx.reach(sess, "twin:reachable", True)

  def bit(x, b):
    return (x / int(b)) % 2 == 1

  names = {"w": w, "nefc": nefc, "njmax": njmax, "ncollision": ncoll, "nacon": nacon, "naconmax": naconmax, "overflow0": ov0}
  for nm, b, cond in [("NEFC", O.NEFC, nefc > njmax), ("BROADPHASE", O.BROADPHASE, ncoll > naconmax), ("NARROWPHASE", O.NARROWPHASE, nacon > naconmax)]:
    ctx.prove(sess, f"bit-set-iff/{nm}", bit(ov1, b) == z3.Or(bit(ov0, b), cond), names=names, replay=lambda m: (True, "model only (no kernel-level replay for _next_time bits)"), desc=f"_next_time: overflow bit {nm} not set exactly when its condition holds")
  # nnz: any row below nefc overflowing the budget must be reported
  r = z3.Int("r")
  ra, rn = kt.pre("efc_J_rowadr_in", w, r), kt.pre("efc_J_rownnz_in", w, r)
  nnzmax = kt.args["njmax_nnz_in"]
  ctx.prove(
    sess,
    "bit-set-if-any-row-overflows/NJMAX_NNZ",
    bit(ov1, O.NJMAX_NNZ),
    z3.And(kt.args["is_sparse"], nefc <= njmax, r >= 0, r < nefc, ra + rn > nnzmax),
    names=dict(names, r=r, rowadr=ra, rownnz=rn, njmax_nnz=nnzmax),
    desc="_next_time tests only the last row's rowadr+rownnz: an earlier row beyond njmax_nnz goes unreported",
  )


def goal_bp_count(spec, pre, post):
  """replay goal (two variants differing only in the pre-value of the pair counter): the thread's increment of ncollision is the same"""
  inc = [int(b["ncollision_out"][0]) - int(a["ncollision_out"][0]) for a, b in zip(pre, post)]
  return inc[0] == inc[1], f"increments of ncollision by the same thread on the same inputs, counter pre-values {[int(a['ncollision_out'][0]) for a in pre]}: {inc}"


def unit_broadphase_count(kind):
  """C16 needs every broadphase candidate pair to be COUNTED even when the pair buffer is full: _next_time raises the BROADPHASE
  bit from ncollision > naconmax.  Claim: what a broadphase thread adds to ncollision does not depend on the current value of
  the counter (nor, therefore, on whether the buffer is already full)."""

  def run(ctx):
    from checks import c18
    from mujoco_warp._src import collision_driver as cd

    NW, NG = 2, 3
    if kind == "sap":
      k, kt = c18.sap_thread(ctx, 0, NW, NG, summ_all=True)
      pre, cs, nc0 = c18.sap_pre(kt, NW, NG)
      pre = pre[:-1]  # drop 'ncollision < naconmax before the thread': the full / overflowing buffer is the point here
      loc = "mujoco_warp._src.collision_driver:_sap_broadphase(0, 1, 1, 1, 1)"
      ctx.bound(nworld=NW, ngeom=NG, unroll=4)
    else:
      k, kt = c18.nxn_thread(0, NG)
      w, el = kt.tid
      pr = kt.prev("nxn_geom_pair", el)
      nc0 = kt.pre("ncollision_out", 0)
      pre = [pr.c[0] >= 0, pr.c[0] < pr.c[1], pr.c[1] < NG, nc0 >= 0]
      loc = "mujoco_warp._src.collision_driver:_nxn_broadphase(0, 1, 1, 1, 1)"
      ctx.bound(ngeom=NG)
    ctx.encode(k, cd._add_geom_pair)
    ctx.assume("contracts of the stages before the sweep (C18), NO assumption on the pair counter except >= 0", "own accesses in bounds")
    nmax = kt.args["naconmax_in"]
    emitted = core.to_z3(kt.atomic_total("ncollision_out", 0), "int")
    other = z3.Int("ncollision_other")
    z0 = core.to_z3(nc0, "int")
    sub = lambda e: z3.substitute(core.zbool(e) if z3.is_bool(core.to_z3(e)) else core.to_z3(e), (z0, other))
    base = [core.zbool(b) for b in list(kt.bg) + list(pre)]
    sess = ctx.session(base + [sub(b) for b in base] + [other >= 0, nmax >= 1])
    ctx.reach(sess, "twin:buffer-full-vs-empty", z3.And(z0 == 0, other >= nmax, emitted >= 1))
    rp = lib.make_replay(ctx, kt, loc, f"bpcount.{kind}", "goal", goal="checks.c16:goal_bp_count", env={"variants": [{}, {"__poke__": [["ncollision_out", [0], None, other]]}], "other": other})
    ctx.prove(sess, "count-independent-of-counter", emitted == sub(emitted), True, names={"ncollision0": z0, "ncollision_other": other, "naconmax": nmax, "emitted": emitted}, replay=rp,
              desc=f"{kind} broadphase: the number of candidate pairs a thread counts depends on the current value of ncollision (pairs dropped at a full buffer are no longer counted, so the BROADPHASE overflow bit cannot be raised)")

  return (f"broadphase-count/{kind}", run)


def main(tier, seed, only=None):
  units = [unit_rows(b, s) for b in BUILDERS for s in (SPECS if tier == "thorough" else SPECS[:2])]
  units.append(("next_time", unit_next_time))
  units += [unit_broadphase_count("sap"), unit_broadphase_count("nxn")]
  if only:
    units = [u for u in units if any(o in u[0] for o in only)]
  return report.run_check(PID, units, tier, seed)
