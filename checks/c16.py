"""C16 Capacity overflow is never silent.

Solver queries over the real allocating kernels (one generic thread, capacities / counters / tid / array contents symbolic):
 rows       every constraint-row builder: rows allocated by this thread that fit the capacity are completely written
 indep      the values written to fitting rows do not depend on the capacity (relational query njmax vs njmax')
 nnz        sparse builders leave the evidence _next_time needs to detect an njmax_nnz overflow (KNOWN FINDING)
 next_time  each overflow bit is set iff its condition holds, other bits preserved
 contacts   write_contact / _add_geom_pair: a slot below capacity is completely written
"""

import z3

from checks import lib
from wsym import core, kh, report
from wsym.core import And, Implies, Not, Or, arith, cmp, is_sym

PID = "C16"

ROW_FIELDS = ["efc_type_out", "efc_id_out", "efc_pos_out", "efc_margin_out", "efc_D_out", "efc_vel_out", "efc_aref_out", "efc_frictionloss_out"]
BUILDERS = ["_equality_connect", "_equality_weld", "_equality_joint", "_equality_tendon", "_friction_dof", "_friction_tendon", "_limit_slide_hinge", "_limit_ball", "_limit_tendon"]
SPECS = [(False, True), (True, True), (True, False)]


def goal_written(spec, pre, post):
  """replay goal: the cell must not still hold the sentinel"""
  e = spec["env"]
  idx = tuple(e["idx"])
  label = e["label"]
  v = post[label][idx]
  sent = e["sentinels"][label]
  import numpy as np

  still = bool(np.all(np.asarray(v) == sent))
  return (not still), f"{label}{list(idx)} = {v} (sentinel {sent}; untouched = not written)"


def goal_indep(spec, pres, posts):
  e = spec["env"]
  idx = tuple(e["idx"])
  label = e["label"]
  import numpy as np

  a, b = np.asarray(posts[0][label][idx], dtype=float), np.asarray(posts[1][label][idx], dtype=float)
  same = bool(np.allclose(a, b, rtol=1e-5, atol=1e-6))
  return same, f"{label}{list(idx)}: {a} with {e['variants'][0]} vs {b} with {e['variants'][1]}"


def unit_rows(builder, spec):
  def run(ctx):
    from mujoco_warp._src import constraint

    is_sparse, newton = spec
    k = getattr(constraint, builder)(is_sparse, newton)
    loc = f"mujoco_warp._src.constraint:{builder}({is_sparse}, {newton})"
    ctx.encode(k, constraint._efc_row)
    ctx.bound(unroll=3, shape_cap=6, note="loops (nv columns, dof-ancestor walks, tendon wraps) run at most 3 iterations; array dims <= 6")
    ctx.assume("thread's own array accesses are in bounds (C17 decides bounds)", "loop trip counts <= unroll bound (unwinding assumption)", "float products/quotients/sqrt/pow are uninterpreted functions (sound over-approximation: which rows are written does not depend on float values)")
    njmax, nnzmax = z3.Int("njmax_in"), z3.Int("njmax_nnz_in")
    kt = lib.kernel_thread(k, scalars={"njmax_in": njmax, "njmax_nnz_in": nnzmax}, unroll=3, interp_kw={"float_uf": True})
    w = kt.tid[0]
    e0 = kt.pre("nefc_out", w)
    n = kt.atomic_total("nefc_out", w)
    a0 = kt.pre("efc_nnz_out", w)
    nn = kt.atomic_total("efc_nnz_out", w)
    r = z3.Int("r")
    bg = kt.bg + [njmax >= 0, nnzmax >= 0, e0 >= 0, a0 >= 0]
    sess = ctx.session(bg)
    alloc = And(cmp(">", n, 0), cmp(">=", r, e0), cmp("<", r, arith("+", e0, n)))
    fits = And(cmp("<=", arith("+", e0, n), njmax), (cmp("<=", arith("+", a0, nn), nnzmax) if is_sparse else True))
    ctx.reach(sess, "twin:allocating-and-fitting", And(alloc, fits))
    names = {"w": w, "r": r, "nefc0": e0, "nrows": n, "njmax": njmax, "njmax_nnz": nnzmax, "nnz0": a0, "nnz_alloc": nn}
    nv = kt.args["nv"] if "nv" in kt.args else None
    fields = list(ROW_FIELDS)
    if is_sparse:
      fields += ["efc_J_rownnz_out", "efc_J_rowadr_out"]
    for F in fields:
      if F not in kt.args:
        ctx.error(f"{builder}: no argument {F}")
        continue
      sent = -777 if kt.cell(F).dtype == "int" else -777.0
      rp = lib.make_replay(ctx, kt, loc, f"written/{F}", "goal", goal="checks.c16:goal_written", env={"label": F, "idx": [w, r], "sentinels": {F: sent}})
      ctx.prove(sess, f"written/{F}", kt.written(F, w, r), And(alloc, fits, kt.inshape(F, w, r)), names=names, replay=rp, desc=f"{builder}{spec}: allocated row that fits njmax/njmax_nnz is not written ({F}) although no overflow would be reported")
    if not is_sparse and nv is not None and "efc_J_out" in kt.args:
      c = z3.Int("c")
      rp = lib.make_replay(ctx, kt, loc, "written/efc_J_out", "goal", goal="checks.c16:goal_written", env={"label": "efc_J_out", "idx": [w, r, c], "sentinels": {"efc_J_out": -777.0}})
      ctx.prove(sess, "written/efc_J_out(dense)", kt.written("efc_J_out", w, r, c), And(alloc, fits, c >= 0, cmp("<", c, nv), kt.inshape("efc_J_out", w, r, c)), names=dict(names, c=c), replay=rp, desc=f"{builder}{spec}: dense Jacobian entry of a fitting row not written")
    if is_sparse:
      kk = z3.Int("k")
      rownnz = kt.post("efc_J_rownnz_out", w, r)
      rowadr = kt.post("efc_J_rowadr_out", w, r)
      for F in ("efc_J_out", "efc_J_colind_out"):
        sent = -777 if kt.cell(F).dtype == "int" else -777.0
        rp = lib.make_replay(ctx, kt, loc, f"written/{F}", "goal", goal="checks.c16:goal_written", env={"label": F, "idx": [w, 0, arith("+", rowadr, kk)], "sentinels": {F: sent}})
        ctx.prove(sess, f"written/{F}(sparse)", kt.written(F, w, 0, arith("+", rowadr, kk)), And(alloc, fits, kk >= 0, cmp("<", kk, rownnz), kt.inshape(F, w, 0, arith("+", rowadr, kk))), names=dict(names, k=kk), replay=rp, desc=f"{builder}{spec}: sparse Jacobian entry of a fitting row not written")
      # evidence for _next_time (known finding on the unchanged tree)
      last = arith("-", arith("+", e0, n), 1)
      ev = And(kt.written("efc_J_rowadr_out", w, last), kt.written("efc_J_rownnz_out", w, last), cmp(">", arith("+", kt.post("efc_J_rowadr_out", w, last), kt.post("efc_J_rownnz_out", w, last)), nnzmax))
      ctx.prove(sess, "nnz-overflow-evidence", ev, And(cmp(">", n, 0), cmp("<=", arith("+", e0, n), njmax), cmp(">", arith("+", a0, nn), nnzmax)), names=names, desc=f"{builder}{spec}: njmax_nnz exceeded by this thread but its last row carries no rowadr+rownnz > njmax_nnz for _next_time to see")
    # capacity independence
    nj2, nz2 = z3.Int("njmax_in'"), z3.Int("njmax_nnz_in'")
    sub = [(njmax, nj2), (nnzmax, nz2)]
    bg2 = [z3.substitute(core.zbool(b), *sub) for b in bg]
    sess2 = ctx.session(bg + bg2)
    fits2 = z3.substitute(core.zbool(fits), *sub)
    alloc2 = z3.substitute(core.zbool(alloc), *sub)
    for F in ROW_FIELDS:
      if F not in kt.args:
        continue
      v1 = kt.post(F, w, r)
      v2 = z3.substitute(v1, *sub)
      rp = lib.make_replay(ctx, kt, loc, f"indep/{F}", "goal", goal="checks.c16:goal_indep", env={"label": F, "idx": [w, r], "variants": [{"njmax_in": njmax, "njmax_nnz_in": nnzmax}, {"njmax_in": nj2, "njmax_nnz_in": nz2}]})
      ctx.prove(sess2, f"capacity-independent/{F}", v1 == v2, And(alloc, fits, alloc2, fits2), names=dict(names, njmax2=nj2, njmax_nnz2=nz2), replay=rp, desc=f"{builder}{spec}: value written to a fitting row depends on the capacity")

  return (f"rows/{builder}/{'sparse' if spec[0] else 'dense'}-{'newton' if spec[1] else 'cg'}", run)


def unit_next_time(ctx):
  from mujoco_warp._src import forward, types

  k = forward._next_time_builder(False)
  ctx.encode(k)
  kt = lib.kernel_thread(k, alias_inout=True)
  w = kt.tid
  O = types.OverflowType
  nefc, njmax = kt.pre("nefc_in", w), kt.args["njmax_in"]
  ncoll, nacon, naconmax = kt.pre("ncollision_in", 0), kt.pre("nacon_in", 0), kt.args["naconmax_in"]
  ov0, ov1 = kt.pre("overflow_out", w), kt.post("overflow_out", w)
  sess = ctx.session(kt.bg + [ov0 >= 0, ov0 < 64])
  ctx.reach(sess, "twin:reachable", True)

  def bit(x, b):
    return (x / int(b)) % 2 == 1

  names = {"w": w, "nefc": nefc, "njmax": njmax, "ncollision": ncoll, "nacon": nacon, "naconmax": naconmax, "overflow0": ov0}
  for nm, b, cond in [("NEFC", O.NEFC, nefc > njmax), ("BROADPHASE", O.BROADPHASE, ncoll > naconmax), ("NARROWPHASE", O.NARROWPHASE, nacon > naconmax)]:
    ctx.prove(sess, f"bit-set-iff/{nm}", bit(ov1, b) == z3.Or(bit(ov0, b), cond), names=names, replay=lambda m: (True, "model only (no kernel-level replay for _next_time bits)"), desc=f"_next_time: overflow bit {nm} not set exactly when its condition holds")
  # nnz: any row below nefc overflowing the budget must be reported
  r = z3.Int("r")
  ra, rn = kt.pre("efc_J_rowadr_in", w, r), kt.pre("efc_J_rownnz_in", w, r)
  nnzmax = kt.args["njmax_nnz_in"]
  ctx.prove(
    sess,
    "bit-set-if-any-row-overflows/NJMAX_NNZ",
    bit(ov1, O.NJMAX_NNZ),
    z3.And(kt.args["is_sparse"], nefc <= njmax, r >= 0, r < nefc, ra + rn > nnzmax),
    names=dict(names, r=r, rowadr=ra, rownnz=rn, njmax_nnz=nnzmax),
    desc="_next_time tests only the last row's rowadr+rownnz: an earlier row beyond njmax_nnz goes unreported",
  )


def goal_bp_count(spec, pre, post):
  """replay goal (two variants differing only in the pre-value of the pair counter): the thread's increment of ncollision is the same"""
  inc = [int(b["ncollision_out"][0]) - int(a["ncollision_out"][0]) for a, b in zip(pre, post)]
  return inc[0] == inc[1], f"increments of ncollision by the same thread on the same inputs, counter pre-values {[int(a['ncollision_out'][0]) for a in pre]}: {inc}"


def unit_broadphase_count(kind):
  """C16 needs every broadphase candidate pair to be COUNTED even when the pair buffer is full: _next_time raises the BROADPHASE
  bit from ncollision > naconmax.  Claim: what a broadphase thread adds to ncollision does not depend on the current value of
  the counter (nor, therefore, on whether the buffer is already full)."""

  def run(ctx):
    from checks import c18
    from mujoco_warp._src import collision_driver as cd

    NW, NG = 2, 3
    if kind == "sap":
      k, kt = c18.sap_thread(ctx, 0, NW, NG, summ_all=True)
      pre, cs, nc0 = c18.sap_pre(kt, NW, NG)
      pre = pre[:-1]  # drop 'ncollision < naconmax before the thread': the full / overflowing buffer is the point here
      loc = "mujoco_warp._src.collision_driver:_sap_broadphase(0, 1, 1, 1, 1)"
      ctx.bound(nworld=NW, ngeom=NG, unroll=4)
    else:
      k, kt = c18.nxn_thread(0, NG)
      w, el = kt.tid
      pr = kt.prev("nxn_geom_pair", el)
      nc0 = kt.pre("ncollision_out", 0)
      pre = [pr.c[0] >= 0, pr.c[0] < pr.c[1], pr.c[1] < NG, nc0 >= 0]
      loc = "mujoco_warp._src.collision_driver:_nxn_broadphase(0, 1, 1, 1, 1)"
      ctx.bound(ngeom=NG)
    ctx.encode(k, cd._add_geom_pair)
    ctx.assume("contracts of the stages before the sweep (C18), NO assumption on the pair counter except >= 0", "own accesses in bounds")
    nmax = kt.args["naconmax_in"]
    emitted = core.to_z3(kt.atomic_total("ncollision_out", 0), "int")
    other = z3.Int("ncollision_other")
    z0 = core.to_z3(nc0, "int")
    sub = lambda e: z3.substitute(core.zbool(e) if z3.is_bool(core.to_z3(e)) else core.to_z3(e), (z0, other))
    base = [core.zbool(b) for b in list(kt.bg) + list(pre)]
    sess = ctx.session(base + [sub(b) for b in base] + [other >= 0, nmax >= 1])
    ctx.reach(sess, "twin:buffer-full-vs-empty", z3.And(z0 == 0, other >= nmax, emitted >= 1))
    rp = lib.make_replay(ctx, kt, loc, f"bpcount.{kind}", "goal", goal="checks.c16:goal_bp_count", env={"variants": [{}, {"__poke__": [["ncollision_out", [0], None, other]]}], "other": other})
    ctx.prove(sess, "count-independent-of-counter", emitted == sub(emitted), True, names={"ncollision0": z0, "ncollision_other": other, "naconmax": nmax, "emitted": emitted}, replay=rp,
              desc=f"{kind} broadphase: the number of candidate pairs a thread counts depends on the current value of ncollision (pairs dropped at a full buffer are no longer counted, so the BROADPHASE overflow bit cannot be raised)")

  return (f"broadphase-count/{kind}", run)


class HostUnsupported(Exception):
  pass


def _host_guard_paths(fn, stage_names):
  """S mode (host Python, read from the current source): walk the top-level statements of a host function up to the first statement
  that calls one of `stage_names`; every `if <test>: ... return` met before is an early-out.  Returns (z3 condition under which
  the stage is NOT reached, dict of symbolic inputs).  Anything not understood raises HostUnsupported (harness error, never a pass)."""
  import ast
  import inspect
  import textwrap

  f = inspect.unwrap(fn)
  tree = ast.parse(textwrap.dedent(inspect.getsource(f))).body[0]
  glob = f.__globals__
  syms = {}

  def sym(name, kind):
    if name not in syms:
      syms[name] = z3.Int(name) if kind == "int" else (z3.BitVec(name, 32) if kind == "bv" else z3.Bool(name))
    return syms[name]

  def dotted(e):
    parts = []
    while isinstance(e, ast.Attribute):
      parts.append(e.attr)
      e = e.value
    if isinstance(e, ast.Name):
      parts.append(e.id)
      return ".".join(reversed(parts))
    return None

  env = {}

  def truth(v):
    if z3.is_bool(v):
      return v
    if z3.is_bv(v):
      return v != 0
    if z3.is_int(v):
      return v != 0
    if isinstance(v, bool):
      return z3.BoolVal(v)
    if isinstance(v, int):
      return z3.BoolVal(v != 0)
    raise HostUnsupported(f"truth value of {v!r}")

  def bv(v):
    if z3.is_bv(v):
      return v
    if isinstance(v, int):
      return z3.BitVecVal(int(v), 32)
    raise HostUnsupported(f"bit operation on {v!r}")

  def ev(e):
    if isinstance(e, ast.Constant):
      return e.value
    name = dotted(e)
    if name is not None:
      if name in env:
        return env[name]
      root = name.split(".")[0]
      if root in glob:  # enum members such as DisableBit.CONTACT: concrete
        try:
          return int(eval(name, glob))
        except Exception as ex:
          raise HostUnsupported(f"global {name}: {ex}")
      if name.endswith("flags"):
        return sym(name, "bv")
      if name.split(".")[-1] in ("naconmax", "njmax", "njmax_nnz", "nvmax", "nv", "nworld"):
        return sym(name, "int")
      return sym(name, "opaque")
    if isinstance(e, ast.BoolOp):
      vs = [truth(ev(x)) for x in e.values]
      return z3.Or(*vs) if isinstance(e.op, ast.Or) else z3.And(*vs)
    if isinstance(e, ast.UnaryOp) and isinstance(e.op, ast.Not):
      return z3.Not(truth(ev(e.operand)))
    if isinstance(e, ast.BinOp) and isinstance(e.op, (ast.BitAnd, ast.BitOr)):
      a, b = ev(e.left), ev(e.right)
      if isinstance(a, int) and isinstance(b, int):
        return a & b if isinstance(e.op, ast.BitAnd) else a | b
      return bv(a) & bv(b) if isinstance(e.op, ast.BitAnd) else bv(a) | bv(b)
    if isinstance(e, ast.Compare) and len(e.ops) == 1:
      op = e.ops[0]
      if isinstance(op, (ast.Is, ast.IsNot)) and isinstance(e.comparators[0], ast.Constant) and e.comparators[0].value is None:
        isn = sym((dotted(e.left) or "expr") + " is None", "bool")
        return isn if isinstance(op, ast.Is) else z3.Not(isn)
      a, b = ev(e.left), ev(e.comparators[0])
      tbl = {ast.Eq: lambda x, y: x == y, ast.NotEq: lambda x, y: x != y, ast.Lt: lambda x, y: x < y, ast.LtE: lambda x, y: x <= y, ast.Gt: lambda x, y: x > y, ast.GtE: lambda x, y: x >= y}
      if type(op) in tbl and not any(z3.is_bool(x) for x in (a, b)):
        if z3.is_bv(a) or z3.is_bv(b):
          a, b = bv(a), bv(b)
        return tbl[type(op)](a, b)
    raise HostUnsupported(f"expression {ast.dump(e)[:120]}")

  def calls_stage(node):
    return any(isinstance(n, ast.Call) and (dotted(n.func) or "").split(".")[-1] in stage_names for n in ast.walk(node))

  def has_return(body):
    return any(isinstance(n, ast.Return) for st in body for n in ast.walk(st))

  early = []
  for st in tree.body:
    if calls_stage(st):
      return z3.Or(*early) if early else z3.BoolVal(False), syms
    if isinstance(st, ast.Expr):  # docstring, in-place helpers (zero_()): no control flow
      continue
    if isinstance(st, (ast.Assign, ast.AnnAssign)):
      tgt = st.targets[0] if isinstance(st, ast.Assign) else st.target
      if isinstance(tgt, ast.Name):
        try:
          env[tgt.id] = ev(st.value)
        except HostUnsupported:
          env[tgt.id] = sym(tgt.id, "opaque")
      continue
    if isinstance(st, ast.If):
      if has_return(st.body) or has_return(st.orelse):
        if st.orelse or not isinstance(st.body[-1], ast.Return):
          raise HostUnsupported(f"early-out shape at line {st.lineno}")
        early.append(truth(ev(st.test)))
      continue
    raise HostUnsupported(f"statement {type(st).__name__} at line {st.lineno}")
  raise HostUnsupported(f"no call of {stage_names} found in {f.__qualname__}")


_NAC_XML = """<mujoco><worldbody><geom type="plane" size="5 5 .1"/><body pos="0 0 0.05"><freejoint/><geom type="sphere" size=".1"/></body></worldbody></mujoco>"""


def _replay_host_collision(naconmax, flags):
  """real public API: one sphere resting in the plane; capacity `naconmax` vs ample capacity"""
  import mujoco
  import numpy as np

  import mujoco_warp as mjw

  mjm = mujoco.MjModel.from_xml_string(_NAC_XML)
  mjm.opt.disableflags = int(flags)
  m = mjw.put_model(mjm)
  out = []
  for cap in (int(naconmax), 16):
    d = mjw.make_data(mjm, nworld=1, naconmax=cap, njmax=16)
    mjw.step(m, d)
    out.append((int(d.overflow.numpy()[0]), int(d.nacon.numpy()[0]), d.qvel.numpy()[0].copy()))
  (ov, nc, qv), (ov2, nc2, qv2) = out
  bad = ov == 0 and not np.allclose(qv, qv2, atol=1e-6)
  return bad, f"sphere resting in a plane, make_data(naconmax={naconmax}), disableflags={flags}: overflow={ov}, nacon={nc}, qvel[2]={qv[2]:.5f}; ample capacity: nacon={nc2}, qvel[2]={qv2[2]:.5f}"


def unit_host_guards(ctx):
  """C16 'every capacity swept from zero': the host function must reach the stage that COUNTS (broadphase: ncollision) for every
  capacity value, otherwise _next_time has nothing to raise a bit from."""
  from mujoco_warp._src import collision_driver as cd
  from mujoco_warp._src import types

  ctx.encode(cd.collision)
  ctx.bound(host_function="collision_driver.collision: top-level statements up to the first broadphase call; nested control flow inside helper calls is not followed")
  ctx.assume("capacities are non-negative ints", "CONTACT and CONSTRAINT are enabled (disabled collision is not an overflow)", "only the flag bits of DisableBit are set")
  skip, syms = _host_guard_paths(cd.collision, ("nxn_broadphase", "sap_broadphase"))
  cap = next((v for k, v in syms.items() if k.endswith("naconmax")), None)
  flg = next((v for k, v in syms.items() if k.endswith("disableflags")), None)
  if cap is None:
    cap = z3.Int("d.naconmax")
  if flg is None:
    flg = z3.BitVec("m.opt.disableflags", 32)
  D = types.DisableBit
  allbits = 0
  for b in D:
    allbits |= int(b)
  pre = [cap >= 0, (flg & z3.BitVecVal(int(D.CONTACT) | int(D.CONSTRAINT), 32)) == 0, (flg & z3.BitVecVal(~allbits & 0xFFFFFFFF, 32)) == 0]
  sess = ctx.session(pre)
  ctx.reach(sess, "twin:reachable", cap == 3)
  ctx.reach(ctx.session([cap >= 1]), "twin:disabled-collision-skips", z3.And(skip, (flg & z3.BitVecVal(int(D.CONTACT), 32)) != 0))

  def rp(model):
    n = kh.mval(model, cap)
    fl = kh.mval(model, flg)
    return _replay_host_collision(int(str(n)), int(str(fl)))

  ctx.prove(sess, "broadphase-reached-for-every-capacity", z3.Not(skip), True, names={"naconmax": cap, "disableflags": flg}, replay=rp,
            desc="collision() returns before the broadphase for some capacity although collision is enabled: candidate pairs are not counted, so no overflow bit can be raised and the step differs from the one with ample capacity")


def main(tier, seed, only=None):
  units = [unit_rows(b, s) for b in BUILDERS for s in (SPECS if tier == "thorough" else SPECS[:2])]
  units.append(("next_time", unit_next_time))
  units += [unit_broadphase_count("sap"), unit_broadphase_count("nxn")]
  units.append(("host/collision", unit_host_guards))
  if only:
    units = [u for u in units if any(o in u[0] for o in only)]
  return report.run_check(PID, units, tier, seed)
