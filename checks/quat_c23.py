"""Shared pieces for C23 / C08 / C03: contract-level interpreter for quaternion code, wrapper kernels that evaluate the REAL
wp.funcs on concrete values (replays / validation), small numeric helpers.

Contracts (each one is discharged by its own query in checks/c23.py on the real function alone):
  normalize(x)            x != 0  =>  |n|^2 = 1 ;  x == 0  =>  n = 0 (vectors) / (0,0,0,1) (wp.quat: Warp's xyzw identity)
  mul_quat(a, b)          |out|^2 = |a|^2 |b|^2
  axis_angle_to_quat      |axis|^2 = 1  or  (axis = 0 and angle = 0)   =>  |out|^2 = 1
  quat_to_mat(q)          R R^T = |q|^4 I  and  det R = |q|^6          (polynomial identities; unit q => proper rotation)
  quat_integrate(q, v, h) |out|^2 = 1  (every q, v, h)
"""

import numpy as np
import warp as wp
import z3

from wsym import core
from wsym.core import Interp, Vec, arith

R = z3.RealSort()


def sq(v):
  c = v.c if isinstance(v, Vec) else list(v)
  return core.sumv([arith("*", x, x) for x in c])


def nsq_uf(v):
  """|v|^2 as an uninterpreted function of the components (kernel-level units: keeps queries in EUF + linear arithmetic; every
  fact stated about it is true for the polynomial sum of squares, which is what the contract units prove)"""
  c = [core.to_z3(x, "real") for x in (v.c if isinstance(v, Vec) else list(v))]
  return z3.Function(f"nsq{len(c)}", *([R] * len(c)), R)(*c)


def is_rot_uf(m):
  """'m is a proper rotation' (R R^T = I, det R = 1) as an uninterpreted predicate (see contract/quat_to_mat)"""
  c = [core.to_z3(x, "real") for x in m.c]
  return z3.Function("proper_rotation", *([R] * 9), z3.BoolSort())(*c)


def is_zero(v):
  return z3.And(*[core.zbool(core.cmp("==", x, 0)) for x in v.c])


def fresh_vec(it, n, shape, dt, hint):
  return Vec([it.fresh_val("real", hint) for _ in range(n)], shape, dt)


class CInterp(Interp):
  """Interp whose `wp.normalize` is (a) corrected for Warp's quaternion overload (zero quaternion -> (0,0,0,1)) and
  (b) optionally replaced by its contract (fresh result constrained by the contract) to keep queries small."""

  def __init__(self, *a, normalize_contract=True, norm="poly", **k):
    super().__init__(*a, **k)
    self.normalize_contract = normalize_contract
    self.nsq = sq if norm == "poly" else nsq_uf
    self.norm = norm
    self.normalized = []  # (input Vec, output Vec)

  def builtin(self, fr, key, args, e):
    if key == "normalize" and isinstance(args[0], Vec):
      x = args[0]
      zero = Vec([0.0, 0.0, 0.0, 1.0], x.shape, x.dt) if x.dt == "quat" else Vec([0.0] * len(x.c), x.shape, x.dt)
      if all(not core.is_sym(c) for c in x.c):
        return super().builtin(fr, key, args, e) if any(c != 0 for c in x.c) else zero
      s = self.nsq(x) if self.normalize_contract else sq(x)
      if self.normalize_contract:
        n = fresh_vec(self, len(x.c), x.shape, x.dt, "nrm")
        self.assumes.append(self.nsq(n) == 1 if x.dt == "quat" else z3.Implies(s != 0, self.nsq(n) == 1))
        self.assumes.append(z3.Implies(s == 0, z3.And(*[c == z for c, z in zip(n.c, zero.c)])))
      else:
        l = self.sqrt(s)
        nz = core.cmp(">", l, 0)
        n = Vec([core.ite(nz, arith("/", c, l, self), z) for c, z in zip(x.c, zero.c)], x.shape, x.dt)
      self.normalized.append((x, n))
      return n
    return super().builtin(fr, key, args, e)


# ------------------------------------------------------------------------------------------------ summaries


def s_mul_quat(it, fr, args):
  a, b = args
  o = fresh_vec(it, 4, (4,), "quat", "mulq")
  N = it.nsq
  if it.norm == "poly":
    it.assumes.append(N(o) == N(a) * N(b))
  else:  # consequences of the product rule, free of multiplication
    it.assumes.append(z3.Implies(z3.And(N(a) == 1, N(b) == 1), N(o) == 1))
    it.assumes.append(z3.Implies(z3.And(N(a) != 0, N(b) != 0), N(o) != 0))
  return o


def s_axis_angle(it, fr, args):
  ax, ang = args
  o = fresh_vec(it, 4, (4,), "quat", "aa")
  N = it.nsq
  it.assumes.append(z3.Implies(z3.Or(N(ax) == 1, z3.And(is_zero(ax), core.zbool(core.cmp("==", ang, 0)))), N(o) == 1))
  return o


def s_rot_vec_quat(it, fr, args):
  v, q = args
  zs = [core.to_z3(c, "real") for c in list(v.c) + list(q.c)]
  return Vec([z3.Function(f"rot_vec_quat#{k}", *([R] * 7), R)(*zs) for k in range(3)], (3,), "f")


def s_quat_to_mat(it, fr, args):
  (q,) = args
  m = fresh_vec(it, 9, (3, 3), "f", "q2m")
  it.assumes.append(z3.Implies(it.nsq(q) == 1, proper_rotation(m) if it.norm == "poly" else is_rot_uf(m)))
  return m


def proper_rotation(m):
  c = m.c
  goals = []
  for i in range(3):
    for j in range(i, 3):
      goals.append(core.sumv([arith("*", c[i * 3 + k], c[j * 3 + k]) for k in range(3)]) == (1 if i == j else 0))
  goals.append(det3(c) == 1)
  return z3.And(*goals)


def det3(c):
  return c[0] * (c[4] * c[8] - c[5] * c[7]) - c[1] * (c[3] * c[8] - c[5] * c[6]) + c[2] * (c[3] * c[7] - c[4] * c[6])


def qi_uf(q, v, dt):
  """quat_integrate as an uninterpreted function (shared by implementation and reference)"""
  zs = [core.to_z3(c, "real") for c in list(q.c) + list(v.c) + [dt]]
  return Vec([z3.Function(f"quat_integrate#{k}", *([R] * 8), R)(*zs) for k in range(4)], (4,), "quat")


def s_quat_integrate(it, fr, args):
  q, v, dt = args
  o = qi_uf(q, v, dt)
  it.assumes.append(it.nsq(o) == 1)
  return o


def summaries(*names):
  from mujoco_warp._src import math as M

  table = {
    "mul_quat": (M.mul_quat, s_mul_quat),
    "axis_angle_to_quat": (M.axis_angle_to_quat, s_axis_angle),
    "rot_vec_quat": (M.rot_vec_quat, s_rot_vec_quat),
    "quat_to_mat": (M.quat_to_mat, s_quat_to_mat),
    "quat_integrate": (M.quat_integrate, s_quat_integrate),
  }
  return {table[n][0].key: table[n][1] for n in names}


# ------------------------------------------------------------------------------------------------ real-code evaluation

_K = {}


def _kernels():
  if _K:
    return _K
  from mujoco_warp._src import math as M

  @wp.kernel
  def k_normalize_q(q: wp.array(dtype=wp.quat), o: wp.array(dtype=wp.quat)):
    o[0] = wp.normalize(q[0])

  @wp.kernel
  def k_normalize_v(v: wp.array(dtype=wp.vec3), o: wp.array(dtype=wp.vec3)):
    o[0] = wp.normalize(v[0])

  @wp.kernel
  def k_mul_quat(a: wp.array(dtype=wp.quat), b: wp.array(dtype=wp.quat), o: wp.array(dtype=wp.quat)):
    o[0] = M.mul_quat(a[0], b[0])

  @wp.kernel
  def k_axis_angle(a: wp.array(dtype=wp.vec3), ang: wp.array(dtype=float), o: wp.array(dtype=wp.quat)):
    o[0] = M.axis_angle_to_quat(a[0], ang[0])

  @wp.kernel
  def k_quat_to_mat(q: wp.array(dtype=wp.quat), o: wp.array(dtype=wp.mat33)):
    o[0] = M.quat_to_mat(q[0])

  @wp.kernel
  def k_quat_integrate(q: wp.array(dtype=wp.quat), v: wp.array(dtype=wp.vec3), dt: wp.array(dtype=float), o: wp.array(dtype=wp.quat)):
    o[0] = M.quat_integrate(q[0], v[0], dt[0])

  _K.update(normalize_q=(k_normalize_q, [wp.quat], wp.quat), normalize_v=(k_normalize_v, [wp.vec3], wp.vec3), mul_quat=(k_mul_quat, [wp.quat, wp.quat], wp.quat),
            axis_angle_to_quat=(k_axis_angle, [wp.vec3, float], wp.quat), quat_to_mat=(k_quat_to_mat, [wp.quat], wp.mat33),
            quat_integrate=(k_quat_integrate, [wp.quat, wp.vec3, float], wp.quat))
  return _K


def real(name, *args):
  """evaluate the REAL compiled function (float32, CPU device) on concrete arguments -> numpy array"""
  k, ins, out = _kernels()[name]
  arrs = []
  for a, t in zip(args, ins):
    v = np.asarray(a, dtype=np.float32)
    arrs.append(wp.array(v.reshape((1,) + v.shape), dtype=t, device="cpu"))
  o = wp.zeros(1, dtype=out, device="cpu")
  wp.launch(k, dim=1, inputs=arrs, outputs=[o], device="cpu")
  wp.synchronize()
  return o.numpy()[0].astype(np.float64)


def clipf(x, lim=1e3):
  """solver values -> float32-friendly numbers (keeps sign, limits magnitude)"""
  x = np.asarray(x, dtype=np.float64)
  return np.clip(x, -lim, lim)
