"""C10 Per-world model parameters: every read of a batched Model field uses world % batch size."""
from checks import worldidx


def main(tier, seed, only=None):
  return worldidx.main("C10", tier, seed, only)
