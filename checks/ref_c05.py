"""Reference models for C05 / C22 (constraint rows, Jacobians), written from MuJoCo's documented semantics
(engine_core_constraint.c: mj_instantiateEquality/Friction/Limit/Contact, getsolparam, getimpedance, mj_makeImpedance;
engine_core_util.c: mj_jac) — NOT from the mujoco_warp code.  Every function is polymorphic: python floats (numeric
validation against the `mujoco` library, replay goals) and z3 terms (solver queries).
"""

import math

import z3

from wsym import core
from wsym.core import And, Not, Or, cmp, is_sym, ite

R = z3.RealSort()
MINVAL = 1e-15  # mjMINVAL
MINIMP = 0.0001  # mjMINIMP
MAXIMP = 0.9999  # mjMAXIMP
REFSAFE_BIT = 1 << 12  # mjDSBL_REFSAFE (checked against the library in validate())

# mjtConstraint
EQUALITY, FRICTION_DOF, FRICTION_TENDON, LIMIT_JOINT, LIMIT_TENDON, CONTACT_FRICTIONLESS, CONTACT_PYRAMIDAL, CONTACT_ELLIPTIC = range(8)


def add(a, b):
  return core.arith("+", a, b)


def sub(a, b):
  return core.arith("-", a, b)


def mul(a, b):
  return core.arith("*", a, b)


def neg(a):
  return core.arith("*", a, -1.0)


def div(a, b):
  """real division; concrete division by zero yields 0 (callers only reach it on branches whose value is unused)"""
  if not is_sym(a) and not is_sym(b):
    return a / b if b != 0 else 0.0
  return core.arith("/", a, b)


def lt(a, b):
  return cmp("<", a, b)


def le(a, b):
  return cmp("<=", a, b)


def gt(a, b):
  return cmp(">", a, b)


def ge(a, b):
  return cmp(">=", a, b)


def eq(a, b):
  return cmp("==", a, b)


def ne(a, b):
  return cmp("!=", a, b)


def fmax(a, b):
  return core.vmax(a, b)


def fmin(a, b):
  return core.vmin(a, b)


def fabs(a):
  return core.vabs(a)


def clip(x, lo, hi):
  # mju_clip: max(lo, min(hi, x))
  return fmax(lo, fmin(hi, x))


def xor(a, b):
  return Or(And(a, Not(b)), And(Not(a), b))


def powf(a, b):
  """pow: concrete -> math.pow; symbolic -> the SAME uninterpreted function the interpreter uses ("pow")"""
  if not is_sym(a) and not is_sym(b):
    try:
      return math.pow(a, b)
    except (ValueError, OverflowError, ZeroDivisionError):
      return 0.0
  return z3.Function("pow", R, R, R)(core.to_z3(a, "real"), core.to_z3(b, "real"))


def vsum(xs):
  s = 0.0
  for x in xs:
    s = add(s, x)
  return s


def dot(a, b):
  return vsum([mul(x, y) for x, y in zip(a, b)])


def cross(a, b):
  return [sub(mul(a[1], b[2]), mul(a[2], b[1])), sub(mul(a[2], b[0]), mul(a[0], b[2])), sub(mul(a[0], b[1]), mul(a[1], b[0]))]


def vadd(a, b):
  return [add(x, y) for x, y in zip(a, b)]


def vsub(a, b):
  return [sub(x, y) for x, y in zip(a, b)]


def vscl(a, s):
  return [mul(x, s) for x in a]


def matvec(m9, v):
  """row-major 3x3 times vector"""
  return [dot(m9[3 * i : 3 * i + 3], v) for i in range(3)]


def quat_mul(a, b):
  """MuJoCo quaternion product, (w, x, y, z) layout"""
  aw, ax, ay, az = a
  bw, bx, by, bz = b
  return [
    sub(sub(sub(mul(aw, bw), mul(ax, bx)), mul(ay, by)), mul(az, bz)),
    add(add(mul(aw, bx), mul(ax, bw)), sub(mul(ay, bz), mul(az, by))),
    add(add(mul(aw, by), mul(ay, bw)), sub(mul(az, bx), mul(ax, bz))),
    add(add(mul(aw, bz), mul(az, bw)), sub(mul(ax, by), mul(ay, bx))),
  ]


def quat_conj(q):
  return [q[0], neg(q[1]), neg(q[2]), neg(q[3])]


# ------------------------------------------------------------------------------------------- solver parameters


def ref_solparam(solref, solimp, timestep, refsafe):
  """getsolparam: sanitised (solref[2], solimp[5]).  refsafe: bool (python or z3) = REFSAFE NOT disabled."""
  mixed = xor(gt(solref[0], 0.0), gt(solref[1], 0.0))
  sr0 = ite(mixed, 0.02, solref[0])
  sr1 = ite(mixed, 1.0, solref[1])
  sr0 = ite(And(refsafe, gt(sr0, 0.0)), fmax(sr0, mul(2.0, timestep)), sr0)
  d0 = clip(solimp[0], MINIMP, MAXIMP)
  d1 = clip(solimp[1], MINIMP, MAXIMP)
  width = fmax(0.0, solimp[2])
  mid = clip(solimp[3], MINIMP, MAXIMP)
  power = fmax(1.0, solimp[4])
  return [sr0, sr1], [d0, d1, width, mid, power]


def ref_impedance(si, posm):
  """getimpedance: si sanitised solimp, posm = pos - margin of the constraint (norm for multi-row constraints)"""
  d0, d1, width, mid, power = si
  flat = Or(eq(d0, d1), le(width, MINVAL))
  x = div(fabs(posm), width)
  a = div(1.0, powf(mid, sub(power, 1.0)))
  ya = mul(a, powf(x, power))
  b = div(1.0, powf(sub(1.0, mid), sub(power, 1.0)))
  yb = sub(1.0, mul(b, powf(sub(1.0, x), power)))
  y = ite(eq(power, 1.0), x, ite(le(x, mid), ya, yb))
  mid_imp = add(d0, mul(y, sub(d1, d0)))
  return ite(flat, mul(0.5, add(d0, d1)), ite(ge(x, 1.0), d1, ite(le(x, 0.0), d0, mid_imp)))


def ref_kb(sr, d1):
  """stiffness / damping of the reference acceleration (standard: solref>0; direct: solref<=0)"""
  sr0, sr1 = sr
  std = gt(sr0, 0.0)
  K = ite(std, div(1.0, fmax(MINVAL, mul(mul(mul(d1, d1), mul(sr0, sr0)), mul(sr1, sr1)))), div(neg(sr0), fmax(MINVAL, mul(d1, d1))))
  B = ite(std, div(2.0, fmax(MINVAL, mul(d1, sr0))), div(neg(sr1), fmax(MINVAL, d1)))
  return K, B


def ref_row(refsafe, timestep, pos_aref, pos_imp, invweight, solref, solimp, margin, vel, frictionloss, type_, id_):
  """one constraint row from (pos - margin) [pos_aref], the impedance argument [pos_imp], diagApprox [invweight]."""
  sr, si = ref_solparam(solref, solimp, timestep, refsafe)
  imp = ref_impedance(si, pos_imp)
  K, B = ref_kb(sr, si[1])
  Rr = fmax(MINVAL, div(mul(sub(1.0, imp), invweight), imp))
  return {
    "D": div(1.0, Rr),
    "aref": sub(neg(mul(B, vel)), mul(mul(K, imp), pos_aref)),
    "pos": add(pos_aref, margin),
    "margin": margin,
    "vel": vel,
    "frictionloss": frictionloss,
    "type": type_,
    "id": id_,
    "imp": imp,
    "K": K,
    "B": B,
    "sr": sr,
    "si": si,
  }


def regular_params(solref, solimp, timestep, refsafe):
  """well-formed solver parameters: the region where MuJoCo documents the formulas (no sanitising branch engages)."""
  sr, si = ref_solparam(solref, solimp, timestep, refsafe)
  not_mixed = Not(xor(gt(solref[0], 0.0), gt(solref[1], 0.0)))
  return {
    "not_mixed": not_mixed,
    "ordered": le(si[0], si[1]),
    "width": gt(solimp[2], MINVAL),
    "kb_noclamp": And(
      ge(mul(mul(mul(si[1], si[1]), mul(sr[0], sr[0])), mul(sr[1], sr[1])), MINVAL),
      ge(mul(si[1], fabs(sr[0])), MINVAL),
    ),
  }


# ------------------------------------------------------------------------------------------- numeric validation


def _close(a, b, rtol=1e-7, atol=1e-9):
  return abs(a - b) <= atol + rtol * max(abs(a), abs(b))


ROWS_XML = """
<mujoco>
 <option timestep="{ts}"><flag refsafe="{refsafe}"/></option>
 <worldbody>
  <body><joint name="j1" type="hinge" axis="0 0 1" limited="true" range="-0.5 0.5" margin="0.1" solreflimit="{sr}" solimplimit="{si}" frictionloss="0.3" solreffriction="{sr}" solimpfriction="{si}"/><geom size="0.1" mass="1"/>
   <body pos="0.3 0 0"><joint name="j2" type="slide" axis="1 0 0"/><geom size="0.1" mass="2"/></body>
  </body>
 </worldbody>
 <equality><joint joint1="j1" joint2="j2" polycoef="0.1 0.5 0.3 0.2 0.1" solref="{sr}" solimp="{si}"/></equality>
</mujoco>
"""

PARAMS = [
  ("0.02 1", "0.9 0.95 0.001 0.5 2"),
  ("0.005 0.7", "0.8 0.95 0.5 0.3 3"),
  ("0.03 0.4", "0.8 0.95 0.9 0.7 1.5"),
  ("0.03 0.4", "0.8 0.95 2.0 0.7 1"),
  ("-100 -5", "0.8 0.95 0.5 0.3 1"),
  ("0 -5", "0.8 0.95 0.5 0.3 1"),
  ("0.02 1", "0.8 0.95 0 0.3 2"),
  ("0.02 -1", "0.8 0.95 0.5 0.3 2"),
  ("-0.02 1", "0.8 0.95 0.5 0.3 2"),
  ("0.02 1", "0.95 0.8 0.5 0.3 2"),
  ("0.02 1", "0.8 0.95 0.5 0.3 0.5"),
  ("0.02 1", "2 -1 0.5 0 0.5"),
  ("0.02 1", "0.9 0.9 0.5 0.5 2"),
]


def validate_rows():
  """ref_row against mujoco (efc_D, efc_aref, efc_KBIP) on joint-equality / friction / limit rows.  -> list of mismatch strings"""
  import mujoco
  import numpy as np

  bad = []
  # the degenerate parameter sets make MuJoCo warn ("mixed solref format"): keep that out of MUJOCO_LOG.TXT / stderr
  try:
    mujoco.set_mju_user_warning(lambda msg: None)
  except Exception:
    pass
  if int(mujoco.mjtDisableBit.mjDSBL_REFSAFE) != REFSAFE_BIT:
    bad.append(f"mjDSBL_REFSAFE is {int(mujoco.mjtDisableBit.mjDSBL_REFSAFE)}, reference assumes {REFSAFE_BIT}")
  n = 0
  for refsafe in ("enable", "disable"):
    for ts in (0.002, 0.02):
      for sr, si in PARAMS:
        m = mujoco.MjModel.from_xml_string(ROWS_XML.format(ts=ts, refsafe=refsafe, sr=sr, si=si))
        d = mujoco.MjData(m)
        for qpos, qvel in (([0.55, 0.2], [0.7, -0.4]), ([-0.45, -0.1], [-0.3, 0.9]), ([0.4001, 0.0], [0.0, 0.0])):
          d.qpos[:] = qpos
          d.qvel[:] = qvel
          mujoco.mj_forward(m, d)
          for i in range(d.nefc):
            tp, oid = int(d.efc_type[i]), int(d.efc_id[i])
            if tp == EQUALITY:
              solref, solimp, iw = m.eq_solref[oid], m.eq_solimp[oid], m.dof_invweight0[0] + m.dof_invweight0[1]
            elif tp == FRICTION_DOF:
              solref, solimp, iw = m.dof_solref[oid], m.dof_solimp[oid], m.dof_invweight0[oid]
            else:
              solref, solimp, iw = m.jnt_solref[oid], m.jnt_solimp[oid], m.dof_invweight0[m.jnt_dofadr[oid]]
            pm = float(d.efc_pos[i] - d.efc_margin[i])
            r = ref_row(refsafe == "enable", float(m.opt.timestep), pm, pm, float(iw), [float(x) for x in solref], [float(x) for x in solimp], float(d.efc_margin[i]), float(d.efc_vel[i]), float(d.efc_frictionloss[i]), tp, oid)
            n += 1
            kk = 0.0 if tp == FRICTION_DOF else r["K"]  # MuJoCo stores K=0 for friction rows (pos = 0 there)
            ok = _close(r["D"], d.efc_D[i]) and _close(r["aref"], d.efc_aref[i], 1e-7, 1e-7) and _close(r["imp"], d.efc_KBIP[i, 2]) and _close(r["B"], d.efc_KBIP[i, 1]) and _close(kk, d.efc_KBIP[i, 0])
            if not ok:
              bad.append(f"ref_row mismatch solref={sr} solimp={si} refsafe={refsafe} ts={ts} row{i} type{tp}: ref D={r['D']} aref={r['aref']} imp={r['imp']} vs mujoco D={d.efc_D[i]} aref={d.efc_aref[i]} KBIP={d.efc_KBIP[i]}")
  try:
    mujoco.set_mju_user_warning(None)
  except Exception:
    pass
  return bad, n


# =========================================================================================== readers
# The expected rows of one builder thread are written once, over an abstract reader of the kernel's INPUT arrays:
#   SymReader  z3 terms of the symbolic pre-state (solver queries)
#   NumReader  numpy arrays (replay goals on real kernel launches, numeric validation against the mujoco library)


class NumReader:
  def __init__(self, arrays, scalars, tid, U=8):
    self.a, self.s, self.tid, self.U, self.sym = arrays, scalars, tuple(int(t) for t in tid), U, False

  def rd(self, label, *idx, k=0):
    import numpy as np

    try:
      if any(int(i) < 0 for i in idx):
        return 0
      v = np.asarray(self.a[label][tuple(int(i) for i in idx)]).reshape(-1)[k]
    except (IndexError, KeyError):
      return 0
    return v.item() if hasattr(v, "item") else v

  def rdv(self, label, *idx, n=None):
    import numpy as np

    try:
      if any(int(i) < 0 for i in idx):
        raise IndexError
      v = np.asarray(self.a[label][tuple(int(i) for i in idx)], dtype=float).reshape(-1)
      return [float(x) for x in v]
    except (IndexError, KeyError):
      return [0.0] * (n or 1)

  def dim(self, label, d):
    return int(self.a[label].shape[d])

  def scalar(self, label):
    return self.s[label]

  def wmod(self, label):
    return self.tid[0] % max(1, self.dim(label, 0))

  def has(self, label):
    return label in self.a or label in self.s

  def jacdot_real(self, point, body, c):
    """column of the REAL support.jac_dot_dof (through a forwarding wrapper kernel) on this reader's arrays"""
    import numpy as np
    import warp as wp

    from checks import kernels_c05 as K

    if not self.rd("body_isdofancestor", body, c):
      return [0.0] * 3, [0.0] * 3
    A = self.a
    ia = lambda l: wp.array(np.ascontiguousarray(A[l], dtype=np.int32), dtype=int)
    va = lambda l, t: wp.array(np.ascontiguousarray(A[l], dtype=np.float32), dtype=t)
    jp, jr = wp.zeros(1, dtype=wp.vec3), wp.zeros(1, dtype=wp.vec3)
    wp.launch(
      K.jac_dot_dof_wrap,
      dim=1,
      inputs=[ia("body_parentid"), ia("body_rootid"), ia("jnt_type"), ia("jnt_dofadr"), ia("dof_bodyid"), ia("dof_jntid"), ia("body_isdofancestor"), va("subtree_com_in", wp.vec3), va("cdof_in", wp.spatial_vector), va("cvel_in", wp.spatial_vector), va("cdof_dot_in", wp.spatial_vector), wp.vec3(*[float(x) for x in point]), int(body), int(c), int(self.tid[0])],
      outputs=[jp, jr],
      device="cpu",
    )
    return [float(x) for x in jp.numpy()[0]], [float(x) for x in jr.numpy()[0]]


class SymReader:
  def __init__(self, kt, U):
    self.kt, self.tid, self.U, self.sym = kt, kt.tid if isinstance(kt.tid, tuple) else (kt.tid,), U, True

  def rd(self, label, *idx, k=0):
    return self.kt.pre(label, *idx, k=k)

  def rdv(self, label, *idx, n=None):
    c = self.kt.cell(label)
    return [self.kt.pre(label, *idx, k=i) for i in range(c.ncomp)]

  def dim(self, label, d):
    return self.kt.cell(label).shape[d]

  def scalar(self, label):
    return self.kt.args[label]

  def wmod(self, label):
    return core.arith("%", self.tid[0], self.dim(label, 0))

  def has(self, label):
    return label in self.kt.args


def _uf(name, nreal, nint):
  return z3.Function(name, *([R] * nreal + [z3.IntSort()] * nint + [R]))


def sym_jac(isanc, root, point, c, w):
  """CONTRACT of support.jac_dof used inside the row builders (its definition is decided by C22): zero for a dof that is
  not an ancestor of the body, otherwise a function of (point, root body of the kinematic tree, dof, world) only"""
  anc = ne(isanc, 0)
  p = [core.to_z3(x, "real") for x in point]
  jp = [ite(anc, _uf(f"JACP{i}", 3, 3)(*p, core.to_z3(root, "int"), core.to_z3(c, "int"), core.to_z3(w, "int")), 0.0) for i in range(3)]
  jr = [ite(anc, _uf(f"JACR{i}", 0, 2)(core.to_z3(c, "int"), core.to_z3(w, "int")), 0.0) for i in range(3)]
  return jp, jr


def sym_jacdot(isanc, root, cvel, point, c, w):
  """CONTRACT of support.jac_dot_dof (time derivative of the Jacobian column; its definition is outside C05/C22)"""
  anc = ne(isanc, 0)
  p = [core.to_z3(x, "real") for x in point]
  cv = [core.to_z3(x, "real") for x in cvel]
  jp = [ite(anc, _uf(f"JDOTP{i}", 9, 3)(*p, *cv, core.to_z3(root, "int"), core.to_z3(c, "int"), core.to_z3(w, "int")), 0.0) for i in range(3)]
  jr = [ite(anc, _uf(f"JDOTR{i}", 0, 2)(core.to_z3(c, "int"), core.to_z3(w, "int")), 0.0) for i in range(3)]
  return jp, jr


def num_jac(R, point, body, c):
  """mj_jac column from (cdof, subtree_com of the root, ancestor mask): the C22 reference, in floats"""
  w = R.tid[0]
  if not R.rd("body_isdofancestor", body, c):
    return [0.0] * 3, [0.0] * 3
  cd = R.rdv("cdof_in", w, c, n=6)
  com = R.rdv("subtree_com_in", w, R.rd("body_rootid", body), n=3)
  off = vsub(point, com)
  return vadd(cd[3:], cross(cd[:3], off)), cd[:3]


def reader_jac(R, point, body, c):
  if R.sym:
    return sym_jac(R.rd("body_isdofancestor", body, c), R.rd("body_rootid", body), point, c, R.tid[0])
  return num_jac(R, point, body, c)


def reader_jacdot(R, point, body, c):
  w = R.tid[0]
  if R.sym:
    return sym_jacdot(R.rd("body_isdofancestor", body, c), R.rd("body_rootid", body), R.rdv("cvel_in", w, body), point, c, w)
  if getattr(R, "mj", None) is not None:
    import mujoco
    import numpy as np

    mjm, mjd = R.mj
    jp, jr = np.zeros((3, mjm.nv)), np.zeros((3, mjm.nv))
    mujoco.mj_jacDot(mjm, mjd, jp, jr, np.array(point, dtype=float), int(body))
    return [float(x) for x in jp[:, c]], [float(x) for x in jr[:, c]]
  return R.jacdot_real(point, body, c)


def tree_pre(R, b, cols):
  """model / data invariants the sparse connect & weld walks rely on, for body b (bounded instances):
  the weld root has the same ancestor dofs, tree root and spatial velocity; dof_parentid decreases along the chain from
  the weld root's last dof; body_isdofancestor is exactly that chain (how put_model builds it); the chain has <= U dofs"""
  w = R.tid[0]
  bw = R.rd("body_weldid", b)
  pre = [eq(R.rd("body_rootid", bw), R.rd("body_rootid", b))]
  pre += [eq(x, y) for x, y in zip(R.rdv("cvel_in", w, bw), R.rdv("cvel_in", w, b))]
  ds = [sub(add(R.rd("body_dofadr", bw), R.rd("body_dofnum", bw)), 1)]
  alive = [ge(ds[0], 0)]
  nv = R.scalar("nv")
  pre.append(lt(ds[0], nv))
  for i in range(R.U):
    nxt = R.rd("dof_parentid", ds[i])
    pre.append(core.Implies(alive[i], And(lt(nxt, ds[i]), ge(nxt, -1))))
    ds.append(nxt)
    alive.append(And(alive[i], ge(nxt, 0)))
  pre.append(Not(alive[R.U]))
  for c in cols:
    on_chain = Or(*[And(alive[i], eq(ds[i], c)) for i in range(R.U)])
    pre.append(core.Implies(ge(c, 0), eq(ne(R.rd("body_isdofancestor", bw, c), 0), on_chain)))
    pre.append(eq(R.rd("body_isdofancestor", bw, c), R.rd("body_isdofancestor", b, c)))
  return pre


mjOBJ_SITE = 6


def chain_cases(R, b):
  """all dof chains (strictly decreasing dof ids in [0, U)) hanging off the weld root of body b:
  (name, index substitutions, guard)"""
  import itertools

  bw = R.rd("body_weldid", b)
  d0 = sub(add(R.rd("body_dofadr", bw), R.rd("body_dofnum", bw)), 1)
  out = []
  for n in range(R.U + 1):
    for ch in itertools.combinations(reversed(range(R.U)), n):
      if n == 0:
        out.append(("none", [], lt(d0, 0)))
        continue
      # dofadr := d0 + 1 - dofnum, i.e. exactly the case "last dof of the weld root == ch[0]"
      sb = [(R.rd("body_dofadr", bw), sub(ch[0] + 1, R.rd("body_dofnum", bw)))]
      for i, d in enumerate(ch):
        sb.append((R.rd("dof_parentid", d), ch[i + 1] if i + 1 < n else -1))
      out.append(("-".join(map(str, ch)), sb, True))
  return out


def tree_cases(R, is_site, b1, b2, is_sparse):
  """complete case split for connect / weld: site- or body-type; dense: value of nv; sparse: the two dof chains"""
  ns, nv = R.scalar("nsite"), R.scalar("nv")
  kinds = (("site", And(is_site, gt(ns, 0))), ("body", Not(is_site)))
  if not is_sparse:
    return [(f"{kind}@nv{v}", [(nv, v)], g) for kind, g in kinds for v in range(R.U + 1)]
  out = []
  for kind, g in kinds:
    for n1, s1, g1 in chain_cases(R, b1):
      for n2, s2, g2 in chain_cases(R, b2):
        # the two chains share dof_parentid: drop syntactically contradictory combinations
        m = {}
        ok = True
        for t, v in s1 + s2:
          k = t.get_id() if hasattr(t, "get_id") else t
          if k in m and m[k] != v:
            ok = False
          m[k] = v
        if ok:
          out.append((f"{kind}@{n1}|{n2}", s1 + s2, And(g, g1, g2)))
  return out


def expected_equality_connect(R, is_sparse=False):
  w, t = R.tid
  eqid = R.rd("eq_connect_adr", t)
  o1, o2 = R.rd("eq_obj1id", eqid), R.rd("eq_obj2id", eqid)
  is_site = eq(R.rd("eq_objtype", eqid), mjOBJ_SITE)
  data = _mrdv(R, "eq_data", eqid, n=11)
  b1 = ite(is_site, R.rd("site_bodyid", o1), o1)
  b2 = ite(is_site, R.rd("site_bodyid", o2), o2)
  p1b = vadd(R.rdv("xpos_in", w, o1, n=3), matvec(R.rdv("xmat_in", w, o1, n=9), data[0:3]))
  p2b = vadd(R.rdv("xpos_in", w, o2, n=3), matvec(R.rdv("xmat_in", w, o2, n=9), data[3:6]))
  s1, s2 = R.rdv("site_xpos_in", w, o1, n=3), R.rdv("site_xpos_in", w, o2, n=3)
  pos1 = [ite(is_site, a, b) for a, b in zip(s1, p1b)]
  pos2 = [ite(is_site, a, b) for a, b in zip(s2, p2b)]
  cpos = vsub(pos1, pos2)
  iw = add(_mrd(R, "body_invweight0", b1, k=0), _mrd(R, "body_invweight0", b2, k=0))
  nv = R.scalar("nv")
  solref, solimp = _mrdv(R, "eq_solref", eqid, n=2), _mrdv(R, "eq_solimp", eqid, n=5)
  norm2 = dot(cpos, cpos)
  rows = []
  nvn = R.U if R.sym else int(nv)
  for r in range(3):
    row = _row(cpos[r], math.sqrt(max(norm2, 0.0)) if not R.sym else None, iw, solref, solimp, 0.0, 0.0, EQUALITY, eqid)
    row["pos_imp_norm_of"] = [0, 1, 2]
    jd = 0.0
    for cc in range(nvn):
      d1, _ = reader_jacdot(R, pos1, b1, cc)
      d2, _ = reader_jacdot(R, pos2, b2, cc)
      jd = add(jd, ite(lt(cc, nv), mul(sub(d1[r], d2[r]), R.rd("qvel_in", w, cc)), 0.0))
    row["aref_extra"] = neg(jd)
    rows.append(row)

  def J(r, c):
    j1, _ = reader_jac(R, pos1, b1, c)
    j2, _ = reader_jac(R, pos2, b2, c)
    return [(True, sub(j1[r], j2[r]))]

  pre = [("a site-type equality exists only in a model with sites (nsite > 0)", Or(Not(is_site), gt(R.scalar("nsite"), 0)))]
  if R.sym and is_sparse:
    cols = [z3.Int("c")] + list(range(R.U))
    pre.append(("sparse walk invariants: weld root shares ancestors / tree root / cvel; dof_parentid decreases; body_isdofancestor = chain from the weld root's last dof; chains <= unroll bound", And(*(tree_pre(R, b1, cols) + tree_pre(R, b2, cols)))))
  cases = tree_cases(R, is_site, b1, b2, is_sparse) if R.sym else []
  if R.sym and is_sparse:
    iwg = And(*[eq(_mrd(R, "body_invweight0", R.rd("body_weldid", b), k=0), _mrd(R, "body_invweight0", b, k=0)) for b in (b1, b2)])
    for row in rows:
      row["invweight_guard"] = iwg
  return {"act": ne(R.rd("eq_active_in", w, eqid), False), "counter": "ne_out", "rows": rows, "J": J, "pre": pre + [("nv >= 0", ge(nv, 0))], "cases": cases, "cases_first": True}


def expected_equality_weld(R, is_sparse=False):
  w, t = R.tid
  eqid = R.rd("eq_wld_adr", t)
  o1, o2 = R.rd("eq_obj1id", eqid), R.rd("eq_obj2id", eqid)
  is_site = eq(R.rd("eq_objtype", eqid), mjOBJ_SITE)
  data = _mrdv(R, "eq_data", eqid, n=11)
  anchor1, anchor2, relpose, ts = data[0:3], data[3:6], data[6:10], data[10]
  b1 = ite(is_site, R.rd("site_bodyid", o1), o1)
  b2 = ite(is_site, R.rd("site_bodyid", o2), o2)
  # body-type: anchor (data[0:3]) is in the frame of body2, data[3:6] is the same point in the frame of body1
  p1b = vadd(R.rdv("xpos_in", w, o1, n=3), matvec(R.rdv("xmat_in", w, o1, n=9), anchor2))
  p2b = vadd(R.rdv("xpos_in", w, o2, n=3), matvec(R.rdv("xmat_in", w, o2, n=9), anchor1))
  q1b = quat_mul(R.rdv("xquat_in", w, o1, n=4), relpose)
  q2b = R.rdv("xquat_in", w, o2, n=4)
  # site-type: the two site frames
  sb1, sb2 = R.rd("site_bodyid", o1), R.rd("site_bodyid", o2)
  p1s, p2s = R.rdv("site_xpos_in", w, o1, n=3), R.rdv("site_xpos_in", w, o2, n=3)
  q1s = quat_mul(R.rdv("xquat_in", w, sb1, n=4), _mrdv(R, "site_quat", o1, n=4))
  q2s = quat_mul(R.rdv("xquat_in", w, sb2, n=4), _mrdv(R, "site_quat", o2, n=4))
  sel = lambda a, b: [ite(is_site, x, y) for x, y in zip(a, b)]
  pos1, pos2, q1, q2 = sel(p1s, p1b), sel(p2s, p2b), sel(q1s, q1b), sel(q2s, q2b)
  cpos = vsub(pos1, pos2)
  qerr = quat_mul(quat_conj(q2), q1)
  crot = vscl(qerr[1:4], ts)
  iwt = add(_mrd(R, "body_invweight0", b1, k=0), _mrd(R, "body_invweight0", b2, k=0))
  iwr = add(_mrd(R, "body_invweight0", b1, k=1), _mrd(R, "body_invweight0", b2, k=1))
  nv = R.scalar("nv")
  solref, solimp = _mrdv(R, "eq_solref", eqid, n=2), _mrdv(R, "eq_solimp", eqid, n=5)
  allpos = cpos + crot
  norm2 = dot(allpos, allpos)
  nvn = R.U if R.sym else int(nv)
  rows = []
  for r in range(6):
    row = _row(allpos[r], math.sqrt(max(norm2, 0.0)) if not R.sym else None, iwt if r < 3 else iwr, solref, solimp, 0.0, 0.0, EQUALITY, eqid)
    row["pos_imp_norm_of"] = [0, 1, 2, 3, 4, 5]
    if r < 3:
      jd = 0.0
      for cc in range(nvn):
        d1, _ = reader_jacdot(R, pos1, b1, cc)
        d2, _ = reader_jacdot(R, pos2, b2, cc)
        jd = add(jd, ite(lt(cc, nv), mul(sub(d1[r], d2[r]), R.rd("qvel_in", w, cc)), 0.0))
      row["aref_extra"] = neg(jd)
    else:
      row["aref_extra"] = None  # rotational Jdot*v correction: not compared (outside)
    rows.append(row)

  def J(r, c):
    j1p, j1r = reader_jac(R, pos1, b1, c)
    j2p, j2r = reader_jac(R, pos2, b2, c)
    if r < 3:
      return [(True, sub(j1p[r], j2p[r]))]
    axis = vscl(vsub(j1r, j2r), ts)
    qq = quat_mul(quat_mul(quat_conj(q2), [0.0] + axis), q1)
    return [(True, mul(0.5, qq[1 + (r - 3)]))]

  pre = [("a site-type equality exists only in a model with sites (nsite > 0)", Or(Not(is_site), gt(R.scalar("nsite"), 0))), ("nv >= 0", ge(nv, 0))]
  if R.sym and is_sparse:
    cols = [z3.Int("c")] + list(range(R.U))
    pre.append(("sparse walk invariants: weld root shares ancestors / tree root / cvel; dof_parentid decreases; body_isdofancestor = chain from the weld root's last dof; chains <= unroll bound", And(*(tree_pre(R, b1, cols) + tree_pre(R, b2, cols)))))
  cases = tree_cases(R, is_site, b1, b2, is_sparse) if R.sym else []
  if R.sym and is_sparse:
    for r, row in enumerate(rows):
      k = 0 if r < 3 else 1
      row["invweight_guard"] = And(*[eq(_mrd(R, "body_invweight0", R.rd("body_weldid", b), k=k), _mrd(R, "body_invweight0", b, k=k)) for b in (b1, b2)])
  return {"act": ne(R.rd("eq_active_in", w, eqid), False), "counter": "ne_out", "rows": rows, "J": J, "pre": pre, "cases": cases, "cases_first": True, "cases_first_all": True}


def quat2vel_axis_angle(q):
  """MuJoCo: normalise the quaternion, mju_quat2Vel(.,1), then (axis, angle) = normalize3.  floats only"""
  n = math.sqrt(sum(x * x for x in q))
  q = [x / n for x in q] if n > 0 else [1.0, 0.0, 0.0, 0.0]
  s = math.sqrt(q[1] ** 2 + q[2] ** 2 + q[3] ** 2)
  if s < MINVAL:
    return [1.0, 0.0, 0.0], 0.0
  ax = [q[1] / s, q[2] / s, q[3] / s]
  sp = 2.0 * math.atan2(s, q[0])
  if sp > math.pi:
    sp -= 2.0 * math.pi
  aa = [a * sp for a in ax]
  ang = math.sqrt(sum(a * a for a in aa))
  return ([a / ang for a in aa], ang) if ang >= MINVAL else ([1.0, 0.0, 0.0], ang)


def expected_limit_ball(R, axis_angle=None):
  """axis_angle: (axis[3], angle) as terms (solver) - for floats it is computed from qpos"""
  w, t = R.tid
  j = R.rd("jnt_limited_ball_adr", t)
  qadr, dof = R.rd("jnt_qposadr", j), R.rd("jnt_dofadr", j)
  if axis_angle is None:
    axis, angle = quat2vel_axis_angle([R.rd("qpos_in", w, qadr + i) for i in range(4)])
  else:
    axis, angle = axis_angle
  rng = _mrdv(R, "jnt_range", j, n=2)
  margin = _mrd(R, "jnt_margin", j)
  dist = sub(fmax(rng[0], rng[1]), angle)
  pa = sub(dist, margin)
  row = _row(pa, pa, _mrd(R, "dof_invweight0", dof), _mrdv(R, "jnt_solref", j, n=2), _mrdv(R, "jnt_solimp", j, n=5), margin, 0.0, LIMIT_JOINT, j)
  nv = R.scalar("nv")
  pre = [("dof addresses of the ball joint lie in [0, nv)", And(ge(dof, 0), lt(add(dof, 2), nv)))]
  J = lambda r, c: [(eq(c, add(dof, i)), neg(axis[i])) for i in range(3)]
  cases = index_cases(R, [dof]) if R.sym else []
  return {"act": lt(dist, margin), "counter": "nl_out", "rows": [row], "J": J, "pre": pre, "cases": cases}


def _mrd(R, label, *idx, k=0):
  """model field with leading nworld-or-1 dimension"""
  return R.rd(label, R.wmod(label), *idx, k=k)


def _mrdv(R, label, *idx, n=None):
  return R.rdv(label, R.wmod(label), *idx, n=n)


def ref_poly(data, dif):
  d2 = mul(dif, dif)
  d3 = mul(d2, dif)
  d4 = mul(d3, dif)
  val = vsum([data[0], mul(data[1], dif), mul(data[2], d2), mul(data[3], d3), mul(data[4], d4)])
  der = vsum([data[1], mul(mul(2.0, data[2]), dif), mul(mul(3.0, data[3]), d2), mul(mul(4.0, data[4]), d3)])
  return val, der


def tendon_J(R, tenid, c, scale=1.0):
  """column c of the stored (CSR) tendon Jacobian row: sum of entries with colind == c"""
  return jsum(tendon_Jt(R, tenid, c, scale))


def tendon_Jt(R, tenid, c, scale=1.0):
  """the same as a list of (condition, coefficient) contributions"""
  nnz, adr = R.rd("ten_J_rownnz", tenid), R.rd("ten_J_rowadr", tenid)
  w = R.tid[0]
  return [(And(lt(k, nnz), eq(R.rd("ten_J_colind", add(adr, k)), c)), mul(scale, R.rd("ten_J_in", w, add(adr, k)))) for k in range(R.U)]


def jsum(terms):
  """Jacobian entry from its (condition, coefficient) contributions"""
  return vsum([ite(cnd, cf, 0.0) for cnd, cf in terms])


def tendon_J_pre(R, tenid):
  """CSR well-formedness of the tendon row (MuJoCo model invariant): rownnz <= bound, columns strictly increasing, in [0, nv)"""
  nnz, adr = R.rd("ten_J_rownnz", tenid), R.rd("ten_J_rowadr", tenid)
  nv = R.scalar("nv")
  pre = [ge(nnz, 0), le(nnz, R.U), ge(adr, 0), ge(nv, 0)]
  for k in range(R.U):
    ck = R.rd("ten_J_colind", add(adr, k))
    pre.append(core.Implies(lt(k, nnz), And(ge(ck, 0), lt(ck, nv))))
    if k + 1 < R.U:
      pre.append(core.Implies(lt(k + 1, nnz), lt(ck, R.rd("ten_J_colind", add(adr, k + 1)))))
  return pre


def tendon_cases(R, tenid):
  """complete case split of a well-formed tendon row: (name, [(index term, value)...], guard)"""
  import itertools

  nnz, adr = R.rd("ten_J_rownnz", tenid), R.rd("ten_J_rowadr", tenid)
  out = []
  for n in range(R.U + 1):
    for cols in itertools.combinations(range(R.U), n):
      out.append((f"{n}:{','.join(map(str, cols))}", [(nnz, n)] + [(R.rd("ten_J_colind", add(adr, i)), cols[i]) for i in range(n)], True))
  return out


def nv_cases(R, cases):
  """additionally split on the value of nv (0..U)"""
  nv = R.scalar("nv")
  return [(f"{n}@nv{v}", sb + [(nv, v)], g) for n, sb, g in cases for v in range(R.U + 1) if all(val < v for t, val in sb if t is not sb[0][0] or len(sb) == 0) or True]


def index_cases(R, terms):
  """all assignments of the index terms to values in [0, U)"""
  import itertools

  return [("/".join(map(str, vs)), list(zip(terms, vs)), True) for vs in itertools.product(range(R.U), repeat=len(terms))]


def cases_product(a, b, extra=True):
  return [(f"{n1}|{n2}", s1 + s2, And(g1, g2, extra)) for n1, s1, g1 in a for n2, s2, g2 in b]


def _row(pos_aref, pos_imp, invweight, solref, solimp, margin, frictionloss, type_, id_):
  return {"pos_aref": pos_aref, "pos_imp": pos_imp, "invweight": invweight, "solref": solref, "solimp": solimp, "margin": margin, "frictionloss": frictionloss, "type": type_, "id": id_}


# ------------------------------------------------------------------------------------------- expected rows per builder


def expected_equality_joint(R):
  w, t = R.tid
  eqid = R.rd("eq_jnt_adr", t)
  j1, j2 = R.rd("eq_obj1id", eqid), R.rd("eq_obj2id", eqid)
  has2 = ge(j2, 0)
  data = _mrdv(R, "eq_data", eqid, n=11)
  qa1, da1 = R.rd("jnt_qposadr", j1), R.rd("jnt_dofadr", j1)
  qa2, da2 = R.rd("jnt_qposadr", j2), R.rd("jnt_dofadr", j2)
  x1 = sub(R.rd("qpos_in", w, qa1), _mrd(R, "qpos0", qa1))
  x2 = sub(R.rd("qpos_in", w, qa2), _mrd(R, "qpos0", qa2))
  val, der = ref_poly(data, x2)
  pos = sub(x1, ite(has2, val, data[0]))
  der = ite(has2, der, 0.0)
  iw = add(_mrd(R, "dof_invweight0", da1), ite(has2, _mrd(R, "dof_invweight0", da2), 0.0))
  row = _row(pos, pos, iw, _mrdv(R, "eq_solref", eqid, n=2), _mrdv(R, "eq_solimp", eqid, n=5), 0.0, 0.0, EQUALITY, eqid)
  J = lambda r, c: [(eq(c, da1), 1.0), (And(has2, eq(c, da2)), neg(der))]
  nv = R.scalar("nv")
  pre = [("joint equality couples two different dofs", Or(Not(has2), ne(da1, da2))), ("dof addresses lie in [0, nv)", And(ge(da1, 0), lt(da1, nv), Or(Not(has2), And(ge(da2, 0), lt(da2, nv)))))]
  cases = []
  if R.sym:
    cases = [(n, sb, Not(has2)) for n, sb, g in index_cases(R, [da1])] + [(n, sb, has2) for n, sb, g in index_cases(R, [da1, da2]) if sb[0][1] != sb[1][1]]
  return {"act": ne(R.rd("eq_active_in", w, eqid), False), "counter": "ne_out", "rows": [row], "J": J, "pre": pre, "cases": cases}


def expected_equality_tendon(R):
  w, t = R.tid
  eqid = R.rd("eq_ten_adr", t)
  t1, t2 = R.rd("eq_obj1id", eqid), R.rd("eq_obj2id", eqid)
  has2 = ge(t2, 0)
  data = _mrdv(R, "eq_data", eqid, n=11)
  x1 = sub(R.rd("ten_length_in", w, t1), _mrd(R, "tendon_length0", t1))
  x2 = sub(R.rd("ten_length_in", w, t2), _mrd(R, "tendon_length0", t2))
  val, der = ref_poly(data, x2)
  pos = sub(x1, ite(has2, val, data[0]))
  der = ite(has2, der, 0.0)
  iw = add(_mrd(R, "tendon_invweight0", t1), ite(has2, _mrd(R, "tendon_invweight0", t2), 0.0))
  row = _row(pos, pos, iw, _mrdv(R, "eq_solref", eqid, n=2), _mrdv(R, "eq_solimp", eqid, n=5), 0.0, 0.0, EQUALITY, eqid)
  J = lambda r, c: tendon_Jt(R, t1, c) + [(And(has2, cnd), cf) for cnd, cf in tendon_Jt(R, t2, c, neg(der))]
  pre = [("tendon Jacobian rows are well-formed CSR rows (sorted columns in [0,nv))", And(*tendon_J_pre(R, t1)))]
  pre.append(("second tendon row well-formed when present", Or(Not(has2), And(*tendon_J_pre(R, t2)))))
  cases = []
  if R.sym:
    cases = nv_cases(R, [(n, sb, Not(has2)) for n, sb, g in tendon_cases(R, t1)] + cases_product(tendon_cases(R, t1), tendon_cases(R, t2), has2))
  return {"act": ne(R.rd("eq_active_in", w, eqid), False), "counter": "ne_out", "rows": [row], "J": J, "pre": pre, "cases": cases}


def expected_friction_dof(R):
  w, dof = R.tid
  fl = _mrd(R, "dof_frictionloss", dof)
  row = _row(0.0, 0.0, _mrd(R, "dof_invweight0", dof), _mrdv(R, "dof_solref", dof, n=2), _mrdv(R, "dof_solimp", dof, n=5), 0.0, fl, FRICTION_DOF, dof)
  nv = R.scalar("nv")
  return {"act": gt(fl, 0.0), "counter": "nf_out", "rows": [row], "J": lambda r, c: [(eq(c, dof), 1.0)], "pre": [("dof addresses lie in [0, nv)", And(ge(dof, 0), lt(dof, nv)))], "cases": index_cases(R, [dof]) if R.sym else []}


def expected_friction_tendon(R):
  w, ten = R.tid
  fl = _mrd(R, "tendon_frictionloss", ten)
  row = _row(0.0, 0.0, _mrd(R, "tendon_invweight0", ten), _mrdv(R, "tendon_solref_fri", ten, n=2), _mrdv(R, "tendon_solimp_fri", ten, n=5), 0.0, fl, FRICTION_TENDON, ten)
  pre = [("tendon Jacobian rows are well-formed CSR rows (sorted columns in [0,nv))", And(*tendon_J_pre(R, ten)))]
  return {"act": gt(fl, 0.0), "counter": "nf_out", "rows": [row], "J": lambda r, c: tendon_Jt(R, ten, c), "pre": pre, "cases": nv_cases(R, tendon_cases(R, ten)) if R.sym else []}


def _two_sided(x, lo, hi, margin):
  """MuJoCo limit: side -1: dist = x - lo, side +1: dist = hi - x; a row per side with dist < margin; J = -side * dx"""
  dlo, dhi = sub(x, lo), sub(hi, x)
  alo, ahi = lt(dlo, margin), lt(dhi, margin)
  one = xor(alo, ahi)
  dist = ite(alo, dlo, dhi)
  sign = ite(alo, 1.0, -1.0)
  return {"one": one, "none": And(Not(alo), Not(ahi)), "both": And(alo, ahi), "dist": dist, "sign": sign}


def expected_limit_slide_hinge(R):
  w, t = R.tid
  j = R.rd("jnt_limited_slide_hinge_adr", t)
  rng = _mrdv(R, "jnt_range", j, n=2)
  margin = _mrd(R, "jnt_margin", j)
  dof = R.rd("jnt_dofadr", j)
  s = _two_sided(R.rd("qpos_in", w, R.rd("jnt_qposadr", j)), rng[0], rng[1], margin)
  pa = sub(s["dist"], margin)
  row = _row(pa, pa, _mrd(R, "dof_invweight0", dof), _mrdv(R, "jnt_solref", j, n=2), _mrdv(R, "jnt_solimp", j, n=5), margin, 0.0, LIMIT_JOINT, j)
  nv = R.scalar("nv")
  return {"act": s["one"], "none": s["none"], "both": s["both"], "counter": "nl_out", "rows": [row], "J": lambda r, c: [(eq(c, dof), s["sign"])], "pre": [("dof addresses lie in [0, nv)", And(ge(dof, 0), lt(dof, nv)))], "cases": index_cases(R, [dof]) if R.sym else []}


def expected_limit_tendon(R):
  w, t = R.tid
  ten = R.rd("tendon_limited_adr", t)
  rng = _mrdv(R, "tendon_range", ten, n=2)
  margin = _mrd(R, "tendon_margin", ten)
  s = _two_sided(R.rd("ten_length_in", w, ten), rng[0], rng[1], margin)
  pa = sub(s["dist"], margin)
  row = _row(pa, pa, _mrd(R, "tendon_invweight0", ten), _mrdv(R, "tendon_solref_lim", ten, n=2), _mrdv(R, "tendon_solimp_lim", ten, n=5), margin, 0.0, LIMIT_TENDON, ten)
  pre = [("tendon Jacobian rows are well-formed CSR rows (sorted columns in [0,nv))", And(*tendon_J_pre(R, ten)))]
  return {"act": s["one"], "none": s["none"], "both": s["both"], "counter": "nl_out", "rows": [row], "J": lambda r, c: tendon_Jt(R, ten, c, s["sign"]), "pre": pre, "cases": nv_cases(R, tendon_cases(R, ten)) if R.sym else []}


# ------------------------------------------------------------------------------------------- contacts

CONTACT_CONSTRAINT_BIT = 1  # mujoco_warp ContactType.CONSTRAINT (contacts kept only for sensors are not constraint rows)


def contact_ndim(elliptic, condim):
  """rows of one contact: elliptic cone: condim; pyramidal: 1 or 2*(condim-1)"""
  if elliptic:
    return condim
  return ite(eq(condim, 1), 1, mul(2, sub(condim, 1)))


def contact_active(R, conid, flg_adhesion):
  """a detected contact yields rows iff it is a constraint contact inside the margin (or, with adhesion, inside the gap)"""
  in_range = lt(conid, R.rd("nacon_in", 0))
  ctype = ne(core.arith("%", R.rd("type_in", conid), 2), 0)
  pos = sub(R.rd("dist_in", conid), R.rd("includemargin_in", conid))
  act = lt(pos, 0.0)
  if flg_adhesion:
    act = Or(act, ne(R.rd("adhesion_in", conid), 0.0))
  return in_range, ctype, act, pos


def expected_contact_update(R, elliptic, flg_adhesion, Drow=None):
  """row handed to _efc_row by thread (conid, dimid).  Drow: the D written for this row (adhesion correction uses R = 1/D)."""
  conid, dimid = R.tid
  in_range = lt(conid, R.rd("nacon_in", 0))
  ctype = ne(core.arith("%", R.rd("type_in", conid), 2), 0)
  condim = R.rd("condim_in", conid)
  ndim = contact_ndim(elliptic, condim)
  adr = R.rd("contact_efc_address_in", conid, dimid)
  act = And(in_range, ctype, lt(dimid, ndim), ge(adr, 0))
  w = R.rd("worldid_in", conid)
  wm = lambda label: core.arith("%", w, R.dim(label, 0))
  incl = R.rd("includemargin_in", conid)
  pos = sub(R.rd("dist_in", conid), incl)
  g1, g2 = R.rd("geom_in", conid, k=0), R.rd("geom_in", conid, k=1)
  b1, b2 = R.rd("geom_bodyid", g1), R.rd("geom_bodyid", g2)
  tran = add(R.rd("body_invweight0", wm("body_invweight0"), b1, k=0), R.rd("body_invweight0", wm("body_invweight0"), b2, k=0))
  isq = R.rd("opt_impratio_invsqrt", wm("opt_impratio_invsqrt"))
  inv_impratio = mul(isq, isq)
  fri = R.rdv("friction_in", conid, n=5)
  solref = R.rdv("solref_in", conid, n=2)
  srf = R.rdv("solreffriction_in", conid, n=2)
  solimp = R.rdv("solimp_in", conid, n=5)
  mu0 = fri[0]
  if elliptic:
    friction_row = gt(dimid, 0)
    # friction[dimid-1] for dimid >= 2
    muk = fri[4]
    for k in (3, 2, 1):
      muk = ite(eq(dimid, k + 1), fri[k], muk)
    scale = ite(gt(dimid, 1), div(mul(mu0, mu0), mul(muk, muk)), 1.0)
    iw = ite(friction_row, mul(mul(tran, inv_impratio), scale), tran)
    use_srf = Or(ne(srf[0], 0.0), ne(srf[1], 0.0))
    sr = [ite(And(friction_row, use_srf), srf[i], solref[i]) for i in range(2)]
    pos_aref = ite(friction_row, 0.0, pos)
    margin = ite(friction_row, 0.0, incl)  # MuJoCo: efc_pos = efc_margin = 0 on the friction rows of an elliptic contact
    tp = ite(eq(condim, 1), CONTACT_FRICTIONLESS, CONTACT_ELLIPTIC)
    adh_row = eq(dimid, 0)
    nshare = 1.0
  else:
    friction_row = False
    pyr = gt(condim, 1)
    iw = ite(pyr, mul(mul(add(tran, mul(mul(mu0, mu0), tran)), mul(2.0, mul(mu0, mu0))), inv_impratio), tran)
    sr = solref
    pos_aref = pos
    margin = incl
    tp = ite(eq(condim, 1), CONTACT_FRICTIONLESS, CONTACT_PYRAMIDAL)
    adh_row = True
    nshare = ite(pyr, mul(2.0, sub(condim, 1)), 1.0)
  row = _row(pos_aref, pos, iw, sr, solimp, margin, 0.0, tp, conid)
  row["margin_mjw"] = incl
  row["friction_row"] = friction_row
  if flg_adhesion and Drow is not None:
    adh = R.rd("adhesion_in", conid)
    nshare_r = core.to_z3(nshare, "real") if is_sym(nshare) else float(nshare)
    row["aref_extra"] = ite(And(ne(adh, 0.0), adh_row, gt(Drow, 0.0)), div(div(adh, nshare_r), Drow), 0.0)
  else:
    row["aref_extra"] = 0.0
  return {"act": act, "rows": [row], "worldid": w, "efcid": adr, "vel": R.rd("efc_Jqvel_in", w, adr), "pre": []}


# ------------------------------------------------------------------------------------------- mj_jacDot column

mjJNT_FREE, mjJNT_BALL, mjJNT_SLIDE, mjJNT_HINGE = 0, 1, 2, 3


def cross_motion(vel, v):
  """mju_crossMotion: spatial cross product of two motion vectors (ang; lin)"""
  return cross(vel[:3], v[:3]) + vadd(cross(vel[:3], v[3:]), cross(vel[3:], v[:3]))


def ref_jacdot_col(isanc, jnt_type, dof, jnt_dofadr, cdof, cdof_dot, cvel_body, cvel_dofbody, com_root, point):
  """column of mj_jacDot (engine_core_util.c) for one dof, written from the C semantics:
    offset = point - subtree_com[root(body)];  pvel = cvel[body] transported to the point (lin - offset x ang)
    cdof_dot = d->cdof_dot[dof], but for quaternion dofs (ball; rotational dofs of a free joint) it is recomputed as
               crossMotion(cvel[dof_bodyid[dof]], cdof[dof])   -- the dof's OWN body, not the queried body
    jacr = cdof_dot_ang;  jacp = cdof_dot_lin + cdof_dot_ang x offset + cdof_ang x pvel_lin;  zero for non-ancestor dofs"""
  off = vsub(point, com_root)
  pvel_lin = vsub(cvel_body[3:], cross(off, cvel_body[:3]))
  is_quat = Or(eq(jnt_type, mjJNT_BALL), And(eq(jnt_type, mjJNT_FREE), ge(dof, add(jnt_dofadr, 3))))
  cm = cross_motion(cvel_dofbody, cdof)
  cd = [ite(is_quat, a, b) for a, b in zip(cm, cdof_dot)]
  jp = vadd(vadd(cd[3:], cross(cd[:3], off)), cross(cdof[:3], pvel_lin))
  anc = ne(isanc, 0)
  return [ite(anc, x, 0.0) for x in jp], [ite(anc, x, 0.0) for x in cd[:3]], is_quat


JACDOT_XML = """
<mujoco>
 <option gravity="0 0 -9.81"/>
 <worldbody>
  <body name="f" pos="0 0 1"><freejoint/><geom size="0.1" mass="1"/>
   <body name="f1" pos="0.3 0.1 0"><joint name="fh" type="hinge" axis="0 1 0.3"/><geom size="0.05" mass="0.4"/>
    <body name="f2" pos="0.2 0 0.1"><joint name="fs" type="slide" axis="1 0.2 0"/><geom size="0.05" mass="0.3"/>
     <body name="f3" pos="0.1 0.1 0"><geom size="0.04" mass="0.2"/></body>
    </body>
   </body>
  </body>
  <body name="b" pos="1 0 1"><joint name="bb" type="ball"/><geom size="0.1" mass="1"/>
   <body name="b1" pos="0.25 0 0.1"><joint name="bh" type="hinge" axis="0 0 1"/><geom size="0.05" mass="0.5"/>
    <body name="b2" pos="0.2 0.1 0"><joint name="bb2" type="ball"/><geom size="0.05" mass="0.3"/>
     <body name="b3" pos="0.1 0 0.2"><joint name="bs" type="slide" axis="0 1 0"/><geom size="0.04" mass="0.2"/></body>
    </body>
   </body>
  </body>
 </worldbody>
</mujoco>
"""


def validate_jacdot():
  """ref_jacdot_col with MuJoCo's own cdof / cdof_dot / cvel / subtree_com / tree vs mujoco.mj_jacDot.  The model has a free
  joint and ball joints ABOVE the queried bodies with moving hinge / slide / ball joints in between (so that
  cvel[dof_bodyid[dof]] != cvel[body])."""
  import mujoco
  import numpy as np

  bad, n, nquat_strict = [], 0, 0
  mjm = mujoco.MjModel.from_xml_string(JACDOT_XML)
  rng = np.random.default_rng(11)
  for trial in range(4):
    mjd = mujoco.MjData(mjm)
    q = rng.uniform(-0.8, 0.8, mjm.nq)
    for j in range(mjm.njnt):
      a = mjm.jnt_qposadr[j]
      if mjm.jnt_type[j] == mjJNT_FREE:
        q[a + 3 : a + 7] /= np.linalg.norm(q[a + 3 : a + 7])
      if mjm.jnt_type[j] == mjJNT_BALL:
        q[a : a + 4] /= np.linalg.norm(q[a : a + 4])
    mjd.qpos[:] = q
    mjd.qvel[:] = rng.uniform(-2, 2, mjm.nv)
    mujoco.mj_forward(mjm, mjd)
    for b in range(1, mjm.nbody):
      point = mjd.xipos[b] + rng.uniform(-0.3, 0.3, 3)
      jp, jr = np.zeros((3, mjm.nv)), np.zeros((3, mjm.nv))
      mujoco.mj_jacDot(mjm, mjd, jp, jr, point, b)
      for dof in range(mjm.nv):
        anc, bb = 0, b
        while bb > 0:
          if bb == mjm.dof_bodyid[dof]:
            anc = 1
          bb = mjm.body_parentid[bb]
        j = mjm.dof_jntid[dof]
        f = lambda v: [float(x) for x in v]
        rp, rr, isq = ref_jacdot_col(anc, int(mjm.jnt_type[j]), dof, int(mjm.jnt_dofadr[j]), f(mjd.cdof[dof]), f(mjd.cdof_dot[dof]), f(mjd.cvel[b]), f(mjd.cvel[mjm.dof_bodyid[dof]]), f(mjd.subtree_com[mjm.body_rootid[b]]), f(point))
        n += 1
        if anc and isq and mjm.dof_bodyid[dof] != b and not np.allclose(mjd.cvel[b], mjd.cvel[mjm.dof_bodyid[dof]], atol=1e-6):
          nquat_strict += 1
        if not (np.allclose(rp, jp[:, dof], atol=1e-8) and np.allclose(rr, jr[:, dof], atol=1e-8)):
          bad.append(f"mj_jacDot body {b} dof {dof}: reference {rp} {rr} vs mujoco {jp[:, dof]} {jr[:, dof]}")
  if nquat_strict < 20:
    bad.append(f"validation scene exercises only {nquat_strict} quaternion-dof columns of strict descendants with a different cvel")
  return bad, n, nquat_strict


# =========================================================================================== validation against mujoco
# The expected_* functions are evaluated on the INPUT arrays of the real kernel launches of mujoco_warp.make_constraint
# (recorded with wp.launch intercepted) and the resulting rows are compared with the rows of the `mujoco` library for
# the same model and state.  This validates the reference + reader plumbing; it decides nothing about mujoco_warp.

BUILDERS_XML = """
<mujoco>
 <option timestep="0.004" cone="{cone}" jacobian="{jac}"/>
 <worldbody>
  <geom name="floor" type="plane" size="5 5 0.1" condim="3"/>
  <site name="ws" pos="0.2 0.1 1.4"/>
  <body name="a" pos="0 0 1"><joint name="ja" type="ball" limited="true" range="0 0.4" margin="0.05" frictionloss="0.2"/><geom size="0.1" mass="1"/>
   <site name="sa" pos="0.1 0 0.2" quat="0.8 0.2 0.5 0.1"/>
   <body name="a2" pos="0.5 0 0"><geom size="0.05" mass="0.5"/><site name="sa2" pos="0 0.1 0"/>
    <body name="a3" pos="0.2 0 0"><joint name="h1" type="hinge" axis="0 1 0" limited="true" range="-0.3 0.6" margin="0.02" frictionloss="0.1"/><geom size="0.05" mass="0.3"/></body>
   </body>
  </body>
  <body name="b" pos="1 0 1"><freejoint/><geom size="0.1" mass="1"/><site name="sb" pos="0 0 0.1" quat="0.6 0.1 0.7 0.2"/></body>
  <body name="c" pos="0 1 1"><joint name="s1" type="slide" axis="1 0 0" limited="true" range="-0.2 0.3" margin="0.01"/><joint name="h2" type="hinge" axis="0 0 1"/><geom size="0.1" mass="1"/></body>
 </worldbody>
 <tendon>
  <fixed name="t1" limited="true" range="-0.1 0.25" margin="0.03" frictionloss="0.3"><joint joint="h1" coef="1.5"/><joint joint="s1" coef="-0.7"/></fixed>
  <fixed name="t2" limited="true" range="-0.5 0.05" margin="0.01"><joint joint="h2" coef="2"/><joint joint="h1" coef="0.4"/></fixed>
 </tendon>
 <equality>
  <connect body1="a2" body2="b" anchor="0.1 0.2 0.3" solref="0.03 0.8" solimp="0.85 0.97 0.01 0.4 3"/>
  <connect site1="sa2" site2="sb"/>
  <weld body1="a2" body2="b" relpose="0.1 0.2 0.3 0.7 0.1 0.6 0.3" torquescale="0.6" solimp="0.85 0.97 0.5 0.4 2"/>
  <weld site1="sa" site2="sb" torquescale="1.3"/>
  <weld body1="c" anchor="0.1 0 0.2"/>
  <joint joint1="h1" joint2="s1" polycoef="0.1 0.5 0.3 0.2 0.1"/>
  <joint joint1="h2" polycoef="0.2 0 0 0 0"/>
  <joint joint1="h1" joint2="h2" active="false"/>
  <tendon tendon1="t1" tendon2="t2" polycoef="0.05 0.4 0.3 -0.2 0.1" solref="-200 -10"/>
  <tendon tendon1="t2" polycoef="0.1 0 0 0 0"/>
 </equality>
</mujoco>
"""


def _launch_records(mjm, mjd, nworld=1):
  """run mujoco_warp.make_constraint on (model, state) with wp.launch intercepted -> {kernel key prefix: LaunchRecord}"""
  import mujoco_warp as mjw
  from wsym import selftest

  m = mjw.put_model(mjm)
  d = mjw.put_data(mjm, mjd, njmax=max(128, mjd.nefc + 16), nconmax=64)
  mjw.kinematics(m, d)
  mjw.com_pos(m, d)
  mjw.camlight(m, d) if hasattr(mjw, "camlight") else None
  mjw.tendon(m, d)
  mjw.crb(m, d) if hasattr(mjw, "crb") else None
  mjw.collision(m, d)
  mjw.com_vel(m, d) if hasattr(mjw, "com_vel") else None
  recs = selftest.record_launches(lambda: mjw.make_constraint(m, d))
  out = {}
  for rcd in recs:
    if rcd.args is None:
      continue
    labels = [a.label for a in rcd.kernel.adj.args]
    arrays, scal = {}, {}
    for l, a, pre in zip(labels, rcd.args, rcd.pre):
      if pre is not None and hasattr(pre, "shape") and getattr(pre, "ndim", 0) > 0:
        arrays[l] = pre
      elif pre is not None and not hasattr(a, "numpy"):
        scal[l] = pre
    post = {l: p for l, p in zip(labels, rcd.post) if p is not None}
    out.setdefault(rcd.kernel.key.split("__locals__")[0].rstrip("_"), []).append({"dim": rcd.dim, "arrays": arrays, "scalars": scal, "post": post})
  return m, d, out


def _mj_rows(mjd, type_, id_):
  import numpy as np

  return [i for i in range(mjd.nefc) if int(mjd.efc_type[i]) == type_ and int(mjd.efc_id[i]) == id_]


def _mj_J(mjm, mjd):
  import mujoco
  import numpy as np

  J = np.zeros((mjd.nefc, mjm.nv))
  if mujoco.mj_isSparse(mjm):
    mujoco.mju_sparse2dense(J, mjd.efc_J, mjd.efc_J_rownnz, mjd.efc_J_rowadr, mjd.efc_J_colind)
  else:
    J[:] = mjd.efc_J.reshape(mjd.nefc, mjm.nv)
  return J


def compare_thread(name, exp, Rn, mjm, mjd, Jm, refsafe=True, both_ok=True):
  """expected rows of one builder thread vs the mujoco rows of the same constraint.  -> (mismatches, rows compared)"""
  import numpy as np

  bad = []
  if not exp["rows"]:
    return bad, 0
  tp, oid = int(exp["rows"][0]["type"]), int(exp["rows"][0]["id"])
  rows = _mj_rows(mjd, tp, oid)
  if exp.get("both"):
    if len(rows) != 2:
      bad.append(f"{name} id {oid}: both limits active but mujoco has {len(rows)} rows")
    return bad, 0
  want = len(exp["rows"]) if exp["act"] else 0
  if len(rows) != want:
    bad.append(f"{name} id {oid}: reference expects {want} rows, mujoco has {len(rows)}")
    return bad, 0
  nv = mjm.nv
  w = Rn.tid[0]
  for r, (i, row) in enumerate(zip(rows, exp["rows"])):
    Jref = np.array([float(jsum(exp["J"](r, c))) for c in range(nv)])
    vel = float(Jref @ np.asarray(Rn.a["qvel_in"][w][:nv], dtype=float))
    full = ref_row(refsafe, float(mjm.opt.timestep), row["pos_aref"], row["pos_imp"], row["invweight"], row["solref"], row["solimp"], row["margin"], vel, row["frictionloss"], tp, oid)
    if not np.allclose(Jref, Jm[i], rtol=1e-4, atol=1e-5):
      bad.append(f"{name} id {oid} row {r}: J {Jref} vs mujoco {Jm[i]}")
    extra = row.get("aref_extra", 0.0)
    for f in ("pos", "margin", "D", "vel", "frictionloss") + (("aref",) if extra is not None else ()):
      mv = float(getattr(mjd, "efc_" + f)[i])
      rv_ = float(full[f]) + (float(extra) if f == "aref" else 0.0)
      # inputs are mujoco_warp's float32 arrays: aref = -K*imp*pos - B*vel amplifies their rounding by K ~ 3e3
      if not _close(rv_, mv, 1e-3, 1e-3 if f == "aref" else 2e-5):
        bad.append(f"{name} id {oid} row {r}: {f} reference {rv_} vs mujoco {mv}")
  return bad, len(rows)


def validate_builders():
  import mujoco
  import numpy as np

  bad, n = [], 0
  states = [
    ([0.95, 0.2, 0.2, 0.1, 0.7, 1.0, 0.1, 1.1, 0.9, 0.3, 0.2, 0.1, 0.32, 0.5], None),
    ([0.98, 0.1, 0.1, 0.0, -0.31, 1.2, 0.0, 0.9, 1, 0, 0, 0, -0.21, -0.4], None),
    ([1, 0, 0, 0, 0.1, 1.0, 0.1, 1.0, 0.9, 0.1, 0.2, 0.3, 0.05, 0.02], None),
  ]
  rng = np.random.default_rng(7)
  for jac in ("dense", "sparse"):
    mjm = mujoco.MjModel.from_xml_string(BUILDERS_XML.format(cone="pyramidal", jac=jac))
    for qpos, _ in states:
      mjd = mujoco.MjData(mjm)
      mjd.qpos[:] = qpos
      mjd.qvel[:] = rng.uniform(-1, 1, mjm.nv)
      mujoco.mj_forward(mjm, mjd)
      Jm = _mj_J(mjm, mjd)
      m, d, recs = _launch_records(mjm, mjd)
      for name, fn in EXPECTED.items():
        for rec in recs.get(name, []):
          dims = rec["dim"]
          for t in range(dims[1] if len(dims) > 1 else 0):
            Rn = NumReader(rec["arrays"], rec["scalars"], (0, t), U=8)
            Rn.mj = (mjm, mjd)
            exp = fn(Rn, jac == "sparse") if name in ("_equality_connect", "_equality_weld") else fn(Rn)
            b, k = compare_thread(name, exp, Rn, mjm, mjd, Jm)
            bad += b
            n += k
  return bad, n


CONTACT_XML = """
<mujoco>
 <option cone="{cone}" impratio="{ir}" timestep="0.005" jacobian="{jac}"/>
 <worldbody>
  <geom type="plane" size="5 5 0.1" condim="{cd}" friction="0.7 0.02 0.003" {extra}/>
  <body name="a" pos="0 0 {z}"><freejoint/><geom size="0.1" mass="1" condim="{cd}" friction="0.7 0.02 0.003" margin="0.02" gap="{gap}" {adh}/>
     <body name="a2" pos="0.3 0 -0.004"><geom size="0.1" mass="0.5" condim="{cd}" friction="0.4 0.01 0.001"/></body>
  </body>
 </worldbody>
</mujoco>
"""


def validate_contacts():
  """expected_contact_update / contact_active / contact_ndim on the real launch inputs vs the rows of the mujoco library"""
  import mujoco
  import numpy as np

  bad, n = [], 0
  cfgs = []
  for cone in ("pyramidal", "elliptic"):
    for cd in (1, 3, 4, 6):
      cfgs.append((cone, cd, 1, "dense", "", "", 0.0, 0.095))
      cfgs.append((cone, cd, 4, "sparse", 'solref="-500 -20"', "", 0.005, 0.09))
    cfgs.append((cone, 3, 2, "dense", 'solreffriction="0.05 0.6"', "", 0.0, 0.09))
    for z in (0.09, 0.115, 0.14):
      cfgs.append((cone, 3, 2, "dense", "", 'adhesion="3"', 0.05, z))
      cfgs.append((cone, 1, 1, "sparse", "", 'adhesion="2"', 0.05, z))
  for cone, cd, ir, jac, extra, adh, gap, z in cfgs:
    xml = CONTACT_XML.format(cone=cone, cd=cd, ir=ir, jac=jac, extra=extra, adh=adh, gap=gap, z=z)
    if "solreffriction" in extra:
      xml = xml.replace("<worldbody>", '<contact><pair geom1="p" geom2="s" condim="3" solreffriction="0.05 0.6"/></contact><worldbody>').replace('<geom type="plane"', '<geom name="p" type="plane"').replace('<geom size="0.1" mass="1"', '<geom name="s" size="0.1" mass="1"').replace(extra, "")
    mjm = mujoco.MjModel.from_xml_string(xml)
    mjd = mujoco.MjData(mjm)
    mjd.qvel[:] = [0.1, 0.2, 0.3, 0.4, 0.5, 0.6]
    mujoco.mj_forward(mjm, mjd)
    m, d, recs = _launch_records(mjm, mjd)
    ell = cone == "elliptic"
    flg = bool(adh)
    upd = recs.get("_efc_contact_update", [])
    ini = recs.get("_efc_contact_init", [])
    if not upd or not ini:
      bad.append(f"no contact kernels launched for {cone} condim {cd}")
      continue
    upd, ini = upd[0], ini[0]
    nacon = int(upd["arrays"]["nacon_in"][0])
    if nacon != mjd.ncon:
      bad.append(f"{cone} condim {cd}: mujoco_warp has {nacon} contacts, mujoco {mjd.ncon} (validation scene)")
      continue
    for i in range(nacon):
      gi = tuple(int(x) for x in upd["arrays"]["geom_in"][i])
      js = [j for j in range(mjd.ncon) if (int(mjd.contact[j].geom1), int(mjd.contact[j].geom2)) == gi]
      if len(js) != 1:
        bad.append(f"cannot match contact {gi}")
        continue
      con = mjd.contact[js[0]]
      Ri = NumReader(ini["arrays"], ini["scalars"], (i,), U=10)
      in_range, ctype, act, pos = contact_active(Ri, i, flg)
      A = bool(in_range and ctype and act)
      if A != (con.efc_address >= 0):
        bad.append(f"{cone} condim {cd} z {z}: contact {gi} active in reference = {A}, mujoco efc_address = {con.efc_address}")
        continue
      if not A:
        continue
      ndim = int(contact_ndim(ell, int(Ri.rd("condim_in", i))))
      mjrows = [r for r in range(mjd.nefc) if int(mjd.efc_id[r]) == js[0] and int(mjd.efc_type[r]) >= CONTACT_FRICTIONLESS]
      if len(mjrows) != ndim:
        bad.append(f"{cone} condim {cd}: reference ndim {ndim}, mujoco rows {len(mjrows)}")
        continue
      for dimid in range(ndim):
        Ru = NumReader(upd["arrays"], upd["scalars"], (i, dimid), U=10)
        exp = expected_contact_update(Ru, ell, flg, Drow=None)
        r = mjrows[dimid]
        if not exp["act"]:
          bad.append(f"{cone} condim {cd} dim {dimid}: reference inactive")
          continue
        row = exp["rows"][0]
        full = ref_row(True, float(mjm.opt.timestep), row["pos_aref"], row["pos_imp"], row["invweight"], row["solref"], row["solimp"], row["margin"], float(mjd.efc_vel[r]), 0.0, row["type"], row["id"])
        if flg:
          full["aref"] += expected_contact_update(Ru, ell, flg, Drow=full["D"])["rows"][0]["aref_extra"]
        n += 1
        if int(row["type"]) != int(mjd.efc_type[r]):
          bad.append(f"{cone} condim {cd} dim {dimid}: type {row['type']} vs mujoco {mjd.efc_type[r]}")
        for f in ("pos", "margin", "D", "aref"):
          mv = float(getattr(mjd, "efc_" + f)[r])
          if not _close(float(full[f]), mv, 3e-4, 3e-5):
            bad.append(f"{cone} condim {cd} ir {ir} {extra}{adh} z {z} dim {dimid}: {f} reference {full[f]} vs mujoco {mv}")
  return bad, n


EXPECTED = {
  "_equality_connect": expected_equality_connect,
  "_equality_weld": expected_equality_weld,
  "_limit_ball": lambda R, sp=False: expected_limit_ball(R),
  "_equality_joint": expected_equality_joint,
  "_equality_tendon": expected_equality_tendon,
  "_friction_dof": expected_friction_dof,
  "_friction_tendon": expected_friction_tendon,
  "_limit_slide_hinge": expected_limit_slide_hinge,
  "_limit_tendon": expected_limit_tendon,
}
