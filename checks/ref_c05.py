"""Reference models for C05 / C22 (constraint rows, Jacobians), written from MuJoCo's documented semantics
(engine_core_constraint.c: mj_instantiateEquality/Friction/Limit/Contact, getsolparam, getimpedance, mj_makeImpedance;
engine_core_util.c: mj_jac) — NOT from the mujoco_warp code.  Every function is polymorphic: python floats (numeric
validation against the `mujoco` library, replay goals) and z3 terms (solver queries).
"""

import math

import z3

from wsym import core
from wsym.core import And, Not, Or, cmp, is_sym, ite

R = z3.RealSort()
MINVAL = 1e-15  # mjMINVAL
MINIMP = 0.0001  # mjMINIMP
MAXIMP = 0.9999  # mjMAXIMP
REFSAFE_BIT = 1 << 12  # mjDSBL_REFSAFE (checked against the library in validate())

# mjtConstraint
EQUALITY, FRICTION_DOF, FRICTION_TENDON, LIMIT_JOINT, LIMIT_TENDON, CONTACT_FRICTIONLESS, CONTACT_PYRAMIDAL, CONTACT_ELLIPTIC = range(8)


def add(a, b):
  return core.arith("+", a, b)


def sub(a, b):
  return core.arith("-", a, b)


def mul(a, b):
  return core.arith("*", a, b)


def neg(a):
  return core.arith("*", a, -1.0)


def div(a, b):
  """real division; concrete division by zero yields 0 (callers only reach it on branches whose value is unused)"""
  if not is_sym(a) and not is_sym(b):
    return a / b if b != 0 else 0.0
  return core.arith("/", a, b)


def lt(a, b):
  return cmp("<", a, b)


def le(a, b):
  return cmp("<=", a, b)


def gt(a, b):
  return cmp(">", a, b)


def ge(a, b):
  return cmp(">=", a, b)


def eq(a, b):
  return cmp("==", a, b)


def ne(a, b):
  return cmp("!=", a, b)


def fmax(a, b):
  return core.vmax(a, b)


def fmin(a, b):
  return core.vmin(a, b)


def fabs(a):
  return core.vabs(a)


def clip(x, lo, hi):
  # mju_clip: max(lo, min(hi, x))
  return fmax(lo, fmin(hi, x))


def xor(a, b):
  return Or(And(a, Not(b)), And(Not(a), b))


def powf(a, b):
  """pow: concrete -> math.pow; symbolic -> the SAME uninterpreted function the interpreter uses ("pow")"""
  if not is_sym(a) and not is_sym(b):
    try:
      return math.pow(a, b)
    except (ValueError, OverflowError, ZeroDivisionError):
      return 0.0
  return z3.Function("pow", R, R, R)(core.to_z3(a, "real"), core.to_z3(b, "real"))


def vsum(xs):
  s = 0.0
  for x in xs:
    s = add(s, x)
  return s


def dot(a, b):
  return vsum([mul(x, y) for x, y in zip(a, b)])


def cross(a, b):
  return [sub(mul(a[1], b[2]), mul(a[2], b[1])), sub(mul(a[2], b[0]), mul(a[0], b[2])), sub(mul(a[0], b[1]), mul(a[1], b[0]))]


def vadd(a, b):
  return [add(x, y) for x, y in zip(a, b)]


def vsub(a, b):
  return [sub(x, y) for x, y in zip(a, b)]


def vscl(a, s):
  return [mul(x, s) for x in a]


def matvec(m9, v):
  """row-major 3x3 times vector"""
  return [dot(m9[3 * i : 3 * i + 3], v) for i in range(3)]


def quat_mul(a, b):
  """MuJoCo quaternion product, (w, x, y, z) layout"""
  aw, ax, ay, az = a
  bw, bx, by, bz = b
  return [
    sub(sub(sub(mul(aw, bw), mul(ax, bx)), mul(ay, by)), mul(az, bz)),
    add(add(mul(aw, bx), mul(ax, bw)), sub(mul(ay, bz), mul(az, by))),
    add(add(mul(aw, by), mul(ay, bw)), sub(mul(az, bx), mul(ax, bz))),
    add(add(mul(aw, bz), mul(az, bw)), sub(mul(ax, by), mul(ay, bx))),
  ]


def quat_conj(q):
  return [q[0], neg(q[1]), neg(q[2]), neg(q[3])]


# ------------------------------------------------------------------------------------------- solver parameters


def ref_solparam(solref, solimp, timestep, refsafe):
  """getsolparam: sanitised (solref[2], solimp[5]).  refsafe: bool (python or z3) = REFSAFE NOT disabled."""
  mixed = xor(gt(solref[0], 0.0), gt(solref[1], 0.0))
  sr0 = ite(mixed, 0.02, solref[0])
  sr1 = ite(mixed, 1.0, solref[1])
  sr0 = ite(And(refsafe, gt(sr0, 0.0)), fmax(sr0, mul(2.0, timestep)), sr0)
  d0 = clip(solimp[0], MINIMP, MAXIMP)
  d1 = clip(solimp[1], MINIMP, MAXIMP)
  width = fmax(0.0, solimp[2])
  mid = clip(solimp[3], MINIMP, MAXIMP)
  power = fmax(1.0, solimp[4])
  return [sr0, sr1], [d0, d1, width, mid, power]


def ref_impedance(si, posm):
  """getimpedance: si sanitised solimp, posm = pos - margin of the constraint (norm for multi-row constraints)"""
  d0, d1, width, mid, power = si
  flat = Or(eq(d0, d1), le(width, MINVAL))
  x = div(fabs(posm), width)
  a = div(1.0, powf(mid, sub(power, 1.0)))
  ya = mul(a, powf(x, power))
  b = div(1.0, powf(sub(1.0, mid), sub(power, 1.0)))
  yb = sub(1.0, mul(b, powf(sub(1.0, x), power)))
  y = ite(eq(power, 1.0), x, ite(le(x, mid), ya, yb))
  mid_imp = add(d0, mul(y, sub(d1, d0)))
  return ite(flat, mul(0.5, add(d0, d1)), ite(ge(x, 1.0), d1, ite(le(x, 0.0), d0, mid_imp)))


def ref_kb(sr, d1):
  """stiffness / damping of the reference acceleration (standard: solref>0; direct: solref<=0)"""
  sr0, sr1 = sr
  std = gt(sr0, 0.0)
  K = ite(std, div(1.0, fmax(MINVAL, mul(mul(mul(d1, d1), mul(sr0, sr0)), mul(sr1, sr1)))), div(neg(sr0), fmax(MINVAL, mul(d1, d1))))
  B = ite(std, div(2.0, fmax(MINVAL, mul(d1, sr0))), div(neg(sr1), fmax(MINVAL, d1)))
  return K, B


def ref_row(refsafe, timestep, pos_aref, pos_imp, invweight, solref, solimp, margin, vel, frictionloss, type_, id_):
  """one constraint row from (pos - margin) [pos_aref], the impedance argument [pos_imp], diagApprox [invweight]."""
  sr, si = ref_solparam(solref, solimp, timestep, refsafe)
  imp = ref_impedance(si, pos_imp)
  K, B = ref_kb(sr, si[1])
  Rr = fmax(MINVAL, div(mul(sub(1.0, imp), invweight), imp))
  return {
    "D": div(1.0, Rr),
    "aref": sub(neg(mul(B, vel)), mul(mul(K, imp), pos_aref)),
    "pos": add(pos_aref, margin),
    "margin": margin,
    "vel": vel,
    "frictionloss": frictionloss,
    "type": type_,
    "id": id_,
    "imp": imp,
    "K": K,
    "B": B,
    "sr": sr,
    "si": si,
  }


def regular_params(solref, solimp, timestep, refsafe):
  """well-formed solver parameters: the region where MuJoCo documents the formulas (no sanitising branch engages)."""
  sr, si = ref_solparam(solref, solimp, timestep, refsafe)
  not_mixed = Not(xor(gt(solref[0], 0.0), gt(solref[1], 0.0)))
  return {
    "not_mixed": not_mixed,
    "ordered": le(si[0], si[1]),
    "width": gt(solimp[2], MINVAL),
    "kb_noclamp": And(
      ge(mul(mul(mul(si[1], si[1]), mul(sr[0], sr[0])), mul(sr[1], sr[1])), MINVAL),
      ge(mul(si[1], fabs(sr[0])), MINVAL),
    ),
  }


# ------------------------------------------------------------------------------------------- numeric validation


def _close(a, b, rtol=1e-7, atol=1e-9):
  return abs(a - b) <= atol + rtol * max(abs(a), abs(b))


ROWS_XML = """
<mujoco>
 <option timestep="{ts}"><flag refsafe="{refsafe}"/></option>
 <worldbody>
  <body><joint name="j1" type="hinge" axis="0 0 1" limited="true" range="-0.5 0.5" margin="0.1" solreflimit="{sr}" solimplimit="{si}" frictionloss="0.3" solreffriction="{sr}" solimpfriction="{si}"/><geom size="0.1" mass="1"/>
   <body pos="0.3 0 0"><joint name="j2" type="slide" axis="1 0 0"/><geom size="0.1" mass="2"/></body>
  </body>
 </worldbody>
 <equality><joint joint1="j1" joint2="j2" polycoef="0.1 0.5 0.3 0.2 0.1" solref="{sr}" solimp="{si}"/></equality>
</mujoco>
"""

PARAMS = [
  ("0.02 1", "0.9 0.95 0.001 0.5 2"),
  ("0.005 0.7", "0.8 0.95 0.5 0.3 3"),
  ("0.03 0.4", "0.8 0.95 0.9 0.7 1.5"),
  ("0.03 0.4", "0.8 0.95 2.0 0.7 1"),
  ("-100 -5", "0.8 0.95 0.5 0.3 1"),
  ("0 -5", "0.8 0.95 0.5 0.3 1"),
  ("0.02 1", "0.8 0.95 0 0.3 2"),
  ("0.02 -1", "0.8 0.95 0.5 0.3 2"),
  ("-0.02 1", "0.8 0.95 0.5 0.3 2"),
  ("0.02 1", "0.95 0.8 0.5 0.3 2"),
  ("0.02 1", "0.8 0.95 0.5 0.3 0.5"),
  ("0.02 1", "2 -1 0.5 0 0.5"),
  ("0.02 1", "0.9 0.9 0.5 0.5 2"),
]


def validate_rows():
  """ref_row against mujoco (efc_D, efc_aref, efc_KBIP) on joint-equality / friction / limit rows.  -> list of mismatch strings"""
  import mujoco
  import numpy as np

  bad = []
  if int(mujoco.mjtDisableBit.mjDSBL_REFSAFE) != REFSAFE_BIT:
    bad.append(f"mjDSBL_REFSAFE is {int(mujoco.mjtDisableBit.mjDSBL_REFSAFE)}, reference assumes {REFSAFE_BIT}")
  n = 0
  for refsafe in ("enable", "disable"):
    for ts in (0.002, 0.02):
      for sr, si in PARAMS:
        m = mujoco.MjModel.from_xml_string(ROWS_XML.format(ts=ts, refsafe=refsafe, sr=sr, si=si))
        d = mujoco.MjData(m)
        for qpos, qvel in (([0.55, 0.2], [0.7, -0.4]), ([-0.45, -0.1], [-0.3, 0.9]), ([0.4001, 0.0], [0.0, 0.0])):
          d.qpos[:] = qpos
          d.qvel[:] = qvel
          mujoco.mj_forward(m, d)
          for i in range(d.nefc):
            tp, oid = int(d.efc_type[i]), int(d.efc_id[i])
            if tp == EQUALITY:
              solref, solimp, iw = m.eq_solref[oid], m.eq_solimp[oid], m.dof_invweight0[0] + m.dof_invweight0[1]
            elif tp == FRICTION_DOF:
              solref, solimp, iw = m.dof_solref[oid], m.dof_solimp[oid], m.dof_invweight0[oid]
            else:
              solref, solimp, iw = m.jnt_solref[oid], m.jnt_solimp[oid], m.dof_invweight0[m.jnt_dofadr[oid]]
            pm = float(d.efc_pos[i] - d.efc_margin[i])
            r = ref_row(refsafe == "enable", float(m.opt.timestep), pm, pm, float(iw), [float(x) for x in solref], [float(x) for x in solimp], float(d.efc_margin[i]), float(d.efc_vel[i]), float(d.efc_frictionloss[i]), tp, oid)
            n += 1
            kk = 0.0 if tp == FRICTION_DOF else r["K"]  # MuJoCo stores K=0 for friction rows (pos = 0 there)
            ok = _close(r["D"], d.efc_D[i]) and _close(r["aref"], d.efc_aref[i], 1e-7, 1e-7) and _close(r["imp"], d.efc_KBIP[i, 2]) and _close(r["B"], d.efc_KBIP[i, 1]) and _close(kk, d.efc_KBIP[i, 0])
            if not ok:
              bad.append(f"ref_row mismatch solref={sr} solimp={si} refsafe={refsafe} ts={ts} row{i} type{tp}: ref D={r['D']} aref={r['aref']} imp={r['imp']} vs mujoco D={d.efc_D[i]} aref={d.efc_aref[i]} KBIP={d.efc_KBIP[i]}")
  return bad, n
