"""Reference models for C05 / C22 (constraint rows, Jacobians), written from MuJoCo's documented semantics
(engine_core_constraint.c: mj_instantiateEquality/Friction/Limit/Contact, getsolparam, getimpedance, mj_makeImpedance;
engine_core_util.c: mj_jac) — NOT from the mujoco_warp code.  Every function is polymorphic: python floats (numeric
validation against the `mujoco` library, replay goals) and z3 terms (solver queries).
"""

import math

import z3

from wsym import core
from wsym.core import And, Not, Or, cmp, is_sym, ite

R = z3.RealSort()
MINVAL = 1e-15  # mjMINVAL
MINIMP = 0.0001  # mjMINIMP
MAXIMP = 0.9999  # mjMAXIMP
REFSAFE_BIT = 1 << 12  # mjDSBL_REFSAFE (checked against the library in validate())

# mjtConstraint
EQUALITY, FRICTION_DOF, FRICTION_TENDON, LIMIT_JOINT, LIMIT_TENDON, CONTACT_FRICTIONLESS, CONTACT_PYRAMIDAL, CONTACT_ELLIPTIC = range(8)


def add(a, b):
  return core.arith("+", a, b)


def sub(a, b):
  return core.arith("-", a, b)


def mul(a, b):
  return core.arith("*", a, b)


def neg(a):
  return core.arith("*", a, -1.0)


def div(a, b):
  """real division; concrete division by zero yields 0 (callers only reach it on branches whose value is unused)"""
  if not is_sym(a) and not is_sym(b):
    return a / b if b != 0 else 0.0
  return core.arith("/", a, b)


def lt(a, b):
  return cmp("<", a, b)


def le(a, b):
  return cmp("<=", a, b)


def gt(a, b):
  return cmp(">", a, b)


def ge(a, b):
  return cmp(">=", a, b)


def eq(a, b):
  return cmp("==", a, b)


def ne(a, b):
  return cmp("!=", a, b)


def fmax(a, b):
  return core.vmax(a, b)


def fmin(a, b):
  return core.vmin(a, b)


def fabs(a):
  return core.vabs(a)


def clip(x, lo, hi):
  # mju_clip: max(lo, min(hi, x))
  return fmax(lo, fmin(hi, x))


def xor(a, b):
  return Or(And(a, Not(b)), And(Not(a), b))


def powf(a, b):
  """pow: concrete -> math.pow; symbolic -> the SAME uninterpreted function the interpreter uses ("pow")"""
  if not is_sym(a) and not is_sym(b):
    try:
      return math.pow(a, b)
    except (ValueError, OverflowError, ZeroDivisionError):
      return 0.0
  return z3.Function("pow", R, R, R)(core.to_z3(a, "real"), core.to_z3(b, "real"))


def vsum(xs):
  s = 0.0
  for x in xs:
    s = add(s, x)
  return s


def dot(a, b):
  return vsum([mul(x, y) for x, y in zip(a, b)])


def cross(a, b):
  return [sub(mul(a[1], b[2]), mul(a[2], b[1])), sub(mul(a[2], b[0]), mul(a[0], b[2])), sub(mul(a[0], b[1]), mul(a[1], b[0]))]


def vadd(a, b):
  return [add(x, y) for x, y in zip(a, b)]


def vsub(a, b):
  return [sub(x, y) for x, y in zip(a, b)]


def vscl(a, s):
  return [mul(x, s) for x in a]


def matvec(m9, v):
  """row-major 3x3 times vector"""
  return [dot(m9[3 * i : 3 * i + 3], v) for i in range(3)]


def quat_mul(a, b):
  """MuJoCo quaternion product, (w, x, y, z) layout"""
  aw, ax, ay, az = a
  bw, bx, by, bz = b
  return [
    sub(sub(sub(mul(aw, bw), mul(ax, bx)), mul(ay, by)), mul(az, bz)),
    add(add(mul(aw, bx), mul(ax, bw)), sub(mul(ay, bz), mul(az, by))),
    add(add(mul(aw, by), mul(ay, bw)), sub(mul(az, bx), mul(ax, bz))),
    add(add(mul(aw, bz), mul(az, bw)), sub(mul(ax, by), mul(ay, bx))),
  ]


def quat_conj(q):
  return [q[0], neg(q[1]), neg(q[2]), neg(q[3])]


# ------------------------------------------------------------------------------------------- solver parameters


def ref_solparam(solref, solimp, timestep, refsafe):
  """getsolparam: sanitised (solref[2], solimp[5]).  refsafe: bool (python or z3) = REFSAFE NOT disabled."""
  mixed = xor(gt(solref[0], 0.0), gt(solref[1], 0.0))
  sr0 = ite(mixed, 0.02, solref[0])
  sr1 = ite(mixed, 1.0, solref[1])
  sr0 = ite(And(refsafe, gt(sr0, 0.0)), fmax(sr0, mul(2.0, timestep)), sr0)
  d0 = clip(solimp[0], MINIMP, MAXIMP)
  d1 = clip(solimp[1], MINIMP, MAXIMP)
  width = fmax(0.0, solimp[2])
  mid = clip(solimp[3], MINIMP, MAXIMP)
  power = fmax(1.0, solimp[4])
  return [sr0, sr1], [d0, d1, width, mid, power]


def ref_impedance(si, posm):
  """getimpedance: si sanitised solimp, posm = pos - margin of the constraint (norm for multi-row constraints)"""
  d0, d1, width, mid, power = si
  flat = Or(eq(d0, d1), le(width, MINVAL))
  x = div(fabs(posm), width)
  a = div(1.0, powf(mid, sub(power, 1.0)))
  ya = mul(a, powf(x, power))
  b = div(1.0, powf(sub(1.0, mid), sub(power, 1.0)))
  yb = sub(1.0, mul(b, powf(sub(1.0, x), power)))
  y = ite(eq(power, 1.0), x, ite(le(x, mid), ya, yb))
  mid_imp = add(d0, mul(y, sub(d1, d0)))
  return ite(flat, mul(0.5, add(d0, d1)), ite(ge(x, 1.0), d1, ite(le(x, 0.0), d0, mid_imp)))


def ref_kb(sr, d1):
  """stiffness / damping of the reference acceleration (standard: solref>0; direct: solref<=0)"""
  sr0, sr1 = sr
  std = gt(sr0, 0.0)
  K = ite(std, div(1.0, fmax(MINVAL, mul(mul(mul(d1, d1), mul(sr0, sr0)), mul(sr1, sr1)))), div(neg(sr0), fmax(MINVAL, mul(d1, d1))))
  B = ite(std, div(2.0, fmax(MINVAL, mul(d1, sr0))), div(neg(sr1), fmax(MINVAL, d1)))
  return K, B


def ref_row(refsafe, timestep, pos_aref, pos_imp, invweight, solref, solimp, margin, vel, frictionloss, type_, id_):
  """one constraint row from (pos - margin) [pos_aref], the impedance argument [pos_imp], diagApprox [invweight]."""
  sr, si = ref_solparam(solref, solimp, timestep, refsafe)
  imp = ref_impedance(si, pos_imp)
  K, B = ref_kb(sr, si[1])
  Rr = fmax(MINVAL, div(mul(sub(1.0, imp), invweight), imp))
  return {
    "D": div(1.0, Rr),
    "aref": sub(neg(mul(B, vel)), mul(mul(K, imp), pos_aref)),
    "pos": add(pos_aref, margin),
    "margin": margin,
    "vel": vel,
    "frictionloss": frictionloss,
    "type": type_,
    "id": id_,
    "imp": imp,
    "K": K,
    "B": B,
    "sr": sr,
    "si": si,
  }


def regular_params(solref, solimp, timestep, refsafe):
  """well-formed solver parameters: the region where MuJoCo documents the formulas (no sanitising branch engages)."""
  sr, si = ref_solparam(solref, solimp, timestep, refsafe)
  not_mixed = Not(xor(gt(solref[0], 0.0), gt(solref[1], 0.0)))
  return {
    "not_mixed": not_mixed,
    "ordered": le(si[0], si[1]),
    "width": gt(solimp[2], MINVAL),
    "kb_noclamp": And(
      ge(mul(mul(mul(si[1], si[1]), mul(sr[0], sr[0])), mul(sr[1], sr[1])), MINVAL),
      ge(mul(si[1], fabs(sr[0])), MINVAL),
    ),
  }


# ------------------------------------------------------------------------------------------- numeric validation


def _close(a, b, rtol=1e-7, atol=1e-9):
  return abs(a - b) <= atol + rtol * max(abs(a), abs(b))


ROWS_XML = """
<mujoco>
 <option timestep="{ts}"><flag refsafe="{refsafe}"/></option>
 <worldbody>
  <body><joint name="j1" type="hinge" axis="0 0 1" limited="true" range="-0.5 0.5" margin="0.1" solreflimit="{sr}" solimplimit="{si}" frictionloss="0.3" solreffriction="{sr}" solimpfriction="{si}"/><geom size="0.1" mass="1"/>
   <body pos="0.3 0 0"><joint name="j2" type="slide" axis="1 0 0"/><geom size="0.1" mass="2"/></body>
  </body>
 </worldbody>
 <equality><joint joint1="j1" joint2="j2" polycoef="0.1 0.5 0.3 0.2 0.1" solref="{sr}" solimp="{si}"/></equality>
</mujoco>
"""

PARAMS = [
  ("0.02 1", "0.9 0.95 0.001 0.5 2"),
  ("0.005 0.7", "0.8 0.95 0.5 0.3 3"),
  ("0.03 0.4", "0.8 0.95 0.9 0.7 1.5"),
  ("0.03 0.4", "0.8 0.95 2.0 0.7 1"),
  ("-100 -5", "0.8 0.95 0.5 0.3 1"),
  ("0 -5", "0.8 0.95 0.5 0.3 1"),
  ("0.02 1", "0.8 0.95 0 0.3 2"),
  ("0.02 -1", "0.8 0.95 0.5 0.3 2"),
  ("-0.02 1", "0.8 0.95 0.5 0.3 2"),
  ("0.02 1", "0.95 0.8 0.5 0.3 2"),
  ("0.02 1", "0.8 0.95 0.5 0.3 0.5"),
  ("0.02 1", "2 -1 0.5 0 0.5"),
  ("0.02 1", "0.9 0.9 0.5 0.5 2"),
]


def validate_rows():
  """ref_row against mujoco (efc_D, efc_aref, efc_KBIP) on joint-equality / friction / limit rows.  -> list of mismatch strings"""
  import mujoco
  import numpy as np

  bad = []
  if int(mujoco.mjtDisableBit.mjDSBL_REFSAFE) != REFSAFE_BIT:
    bad.append(f"mjDSBL_REFSAFE is {int(mujoco.mjtDisableBit.mjDSBL_REFSAFE)}, reference assumes {REFSAFE_BIT}")
  n = 0
  for refsafe in ("enable", "disable"):
    for ts in (0.002, 0.02):
      for sr, si in PARAMS:
        m = mujoco.MjModel.from_xml_string(ROWS_XML.format(ts=ts, refsafe=refsafe, sr=sr, si=si))
        d = mujoco.MjData(m)
        for qpos, qvel in (([0.55, 0.2], [0.7, -0.4]), ([-0.45, -0.1], [-0.3, 0.9]), ([0.4001, 0.0], [0.0, 0.0])):
          d.qpos[:] = qpos
          d.qvel[:] = qvel
          mujoco.mj_forward(m, d)
          for i in range(d.nefc):
            tp, oid = int(d.efc_type[i]), int(d.efc_id[i])
            if tp == EQUALITY:
              solref, solimp, iw = m.eq_solref[oid], m.eq_solimp[oid], m.dof_invweight0[0] + m.dof_invweight0[1]
            elif tp == FRICTION_DOF:
              solref, solimp, iw = m.dof_solref[oid], m.dof_solimp[oid], m.dof_invweight0[oid]
            else:
              solref, solimp, iw = m.jnt_solref[oid], m.jnt_solimp[oid], m.dof_invweight0[m.jnt_dofadr[oid]]
            pm = float(d.efc_pos[i] - d.efc_margin[i])
            r = ref_row(refsafe == "enable", float(m.opt.timestep), pm, pm, float(iw), [float(x) for x in solref], [float(x) for x in solimp], float(d.efc_margin[i]), float(d.efc_vel[i]), float(d.efc_frictionloss[i]), tp, oid)
            n += 1
            kk = 0.0 if tp == FRICTION_DOF else r["K"]  # MuJoCo stores K=0 for friction rows (pos = 0 there)
            ok = _close(r["D"], d.efc_D[i]) and _close(r["aref"], d.efc_aref[i], 1e-7, 1e-7) and _close(r["imp"], d.efc_KBIP[i, 2]) and _close(r["B"], d.efc_KBIP[i, 1]) and _close(kk, d.efc_KBIP[i, 0])
            if not ok:
              bad.append(f"ref_row mismatch solref={sr} solimp={si} refsafe={refsafe} ts={ts} row{i} type{tp}: ref D={r['D']} aref={r['aref']} imp={r['imp']} vs mujoco D={d.efc_D[i]} aref={d.efc_aref[i]} KBIP={d.efc_KBIP[i]}")
  return bad, n


# =========================================================================================== readers
# The expected rows of one builder thread are written once, over an abstract reader of the kernel's INPUT arrays:
#   SymReader  z3 terms of the symbolic pre-state (solver queries)
#   NumReader  numpy arrays (replay goals on real kernel launches, numeric validation against the mujoco library)


class NumReader:
  def __init__(self, arrays, scalars, tid, U=8):
    self.a, self.s, self.tid, self.U, self.sym = arrays, scalars, tuple(int(t) for t in tid), U, False

  def rd(self, label, *idx, k=0):
    import numpy as np

    try:
      if any(int(i) < 0 for i in idx):
        return 0
      v = np.asarray(self.a[label][tuple(int(i) for i in idx)]).reshape(-1)[k]
    except (IndexError, KeyError):
      return 0
    return v.item() if hasattr(v, "item") else v

  def rdv(self, label, *idx, n=None):
    import numpy as np

    try:
      if any(int(i) < 0 for i in idx):
        raise IndexError
      v = np.asarray(self.a[label][tuple(int(i) for i in idx)], dtype=float).reshape(-1)
      return [float(x) for x in v]
    except (IndexError, KeyError):
      return [0.0] * (n or 1)

  def dim(self, label, d):
    return int(self.a[label].shape[d])

  def scalar(self, label):
    return self.s[label]

  def wmod(self, label):
    return self.tid[0] % max(1, self.dim(label, 0))

  def has(self, label):
    return label in self.a or label in self.s


class SymReader:
  def __init__(self, kt, U):
    self.kt, self.tid, self.U, self.sym = kt, kt.tid if isinstance(kt.tid, tuple) else (kt.tid,), U, True

  def rd(self, label, *idx, k=0):
    return self.kt.pre(label, *idx, k=k)

  def rdv(self, label, *idx, n=None):
    c = self.kt.cell(label)
    return [self.kt.pre(label, *idx, k=i) for i in range(c.ncomp)]

  def dim(self, label, d):
    return self.kt.cell(label).shape[d]

  def scalar(self, label):
    return self.kt.args[label]

  def wmod(self, label):
    return core.arith("%", self.tid[0], self.dim(label, 0))

  def has(self, label):
    return label in self.kt.args


def _mrd(R, label, *idx, k=0):
  """model field with leading nworld-or-1 dimension"""
  return R.rd(label, R.wmod(label), *idx, k=k)


def _mrdv(R, label, *idx, n=None):
  return R.rdv(label, R.wmod(label), *idx, n=n)


def ref_poly(data, dif):
  d2 = mul(dif, dif)
  d3 = mul(d2, dif)
  d4 = mul(d3, dif)
  val = vsum([data[0], mul(data[1], dif), mul(data[2], d2), mul(data[3], d3), mul(data[4], d4)])
  der = vsum([data[1], mul(mul(2.0, data[2]), dif), mul(mul(3.0, data[3]), d2), mul(mul(4.0, data[4]), d3)])
  return val, der


def tendon_J(R, tenid, c, scale=1.0):
  """column c of the stored (CSR) tendon Jacobian row: sum of entries with colind == c"""
  return jsum(tendon_Jt(R, tenid, c, scale))


def tendon_Jt(R, tenid, c, scale=1.0):
  """the same as a list of (condition, coefficient) contributions"""
  nnz, adr = R.rd("ten_J_rownnz", tenid), R.rd("ten_J_rowadr", tenid)
  w = R.tid[0]
  return [(And(lt(k, nnz), eq(R.rd("ten_J_colind", add(adr, k)), c)), mul(scale, R.rd("ten_J_in", w, add(adr, k)))) for k in range(R.U)]


def jsum(terms):
  """Jacobian entry from its (condition, coefficient) contributions"""
  return vsum([ite(cnd, cf, 0.0) for cnd, cf in terms])


def tendon_J_pre(R, tenid):
  """CSR well-formedness of the tendon row (MuJoCo model invariant): rownnz <= bound, columns strictly increasing, in [0, nv)"""
  nnz, adr = R.rd("ten_J_rownnz", tenid), R.rd("ten_J_rowadr", tenid)
  nv = R.scalar("nv")
  pre = [ge(nnz, 0), le(nnz, R.U), ge(adr, 0)]
  for k in range(R.U):
    ck = R.rd("ten_J_colind", add(adr, k))
    pre.append(core.Implies(lt(k, nnz), And(ge(ck, 0), lt(ck, nv))))
    if k + 1 < R.U:
      pre.append(core.Implies(lt(k + 1, nnz), lt(ck, R.rd("ten_J_colind", add(adr, k + 1)))))
  return pre


def tendon_cases(R, tenid):
  """complete case split of a well-formed tendon row: (number of entries, their columns)"""
  import itertools

  nnz, adr = R.rd("ten_J_rownnz", tenid), R.rd("ten_J_rowadr", tenid)
  out = []
  for n in range(R.U + 1):
    for cols in itertools.combinations(range(R.U), n):
      out.append((f"{n}:{','.join(map(str, cols))}", And(eq(nnz, n), *[eq(R.rd("ten_J_colind", add(adr, i)), cols[i]) for i in range(n)])))
  return out


def _row(pos_aref, pos_imp, invweight, solref, solimp, margin, frictionloss, type_, id_):
  return {"pos_aref": pos_aref, "pos_imp": pos_imp, "invweight": invweight, "solref": solref, "solimp": solimp, "margin": margin, "frictionloss": frictionloss, "type": type_, "id": id_}


# ------------------------------------------------------------------------------------------- expected rows per builder


def expected_equality_joint(R):
  w, t = R.tid
  eqid = R.rd("eq_jnt_adr", t)
  j1, j2 = R.rd("eq_obj1id", eqid), R.rd("eq_obj2id", eqid)
  has2 = ge(j2, 0)
  data = _mrdv(R, "eq_data", eqid, n=11)
  qa1, da1 = R.rd("jnt_qposadr", j1), R.rd("jnt_dofadr", j1)
  qa2, da2 = R.rd("jnt_qposadr", j2), R.rd("jnt_dofadr", j2)
  x1 = sub(R.rd("qpos_in", w, qa1), _mrd(R, "qpos0", qa1))
  x2 = sub(R.rd("qpos_in", w, qa2), _mrd(R, "qpos0", qa2))
  val, der = ref_poly(data, x2)
  pos = sub(x1, ite(has2, val, data[0]))
  der = ite(has2, der, 0.0)
  iw = add(_mrd(R, "dof_invweight0", da1), ite(has2, _mrd(R, "dof_invweight0", da2), 0.0))
  row = _row(pos, pos, iw, _mrdv(R, "eq_solref", eqid, n=2), _mrdv(R, "eq_solimp", eqid, n=5), 0.0, 0.0, EQUALITY, eqid)
  J = lambda r, c: [(eq(c, da1), 1.0), (And(has2, eq(c, da2)), neg(der))]
  nv = R.scalar("nv")
  pre = [("joint equality couples two different dofs", Or(Not(has2), ne(da1, da2))), ("dof addresses lie in [0, nv)", And(ge(da1, 0), lt(da1, nv), Or(Not(has2), And(ge(da2, 0), lt(da2, nv)))))]
  return {"act": ne(R.rd("eq_active_in", w, eqid), False), "counter": "ne_out", "rows": [row], "J": J, "pre": pre}


def expected_equality_tendon(R):
  w, t = R.tid
  eqid = R.rd("eq_ten_adr", t)
  t1, t2 = R.rd("eq_obj1id", eqid), R.rd("eq_obj2id", eqid)
  has2 = ge(t2, 0)
  data = _mrdv(R, "eq_data", eqid, n=11)
  x1 = sub(R.rd("ten_length_in", w, t1), _mrd(R, "tendon_length0", t1))
  x2 = sub(R.rd("ten_length_in", w, t2), _mrd(R, "tendon_length0", t2))
  val, der = ref_poly(data, x2)
  pos = sub(x1, ite(has2, val, data[0]))
  der = ite(has2, der, 0.0)
  iw = add(_mrd(R, "tendon_invweight0", t1), ite(has2, _mrd(R, "tendon_invweight0", t2), 0.0))
  row = _row(pos, pos, iw, _mrdv(R, "eq_solref", eqid, n=2), _mrdv(R, "eq_solimp", eqid, n=5), 0.0, 0.0, EQUALITY, eqid)
  J = lambda r, c: tendon_Jt(R, t1, c) + [(And(has2, cnd), cf) for cnd, cf in tendon_Jt(R, t2, c, neg(der))]
  pre = [("tendon Jacobian rows are well-formed CSR rows (sorted columns in [0,nv))", And(*tendon_J_pre(R, t1)))]
  pre.append(("second tendon row well-formed when present", Or(Not(has2), And(*tendon_J_pre(R, t2)))))
  cases = [(f"single/{n1}", And(Not(has2), g1)) for n1, g1 in tendon_cases(R, t1)] if R.sym else []
  if R.sym:
    cases += [(f"pair/{n1}/{n2}", And(has2, g1, g2)) for n1, g1 in tendon_cases(R, t1) for n2, g2 in tendon_cases(R, t2)]
  return {"act": ne(R.rd("eq_active_in", w, eqid), False), "counter": "ne_out", "rows": [row], "J": J, "pre": pre, "cases": cases}


def expected_friction_dof(R):
  w, dof = R.tid
  fl = _mrd(R, "dof_frictionloss", dof)
  row = _row(0.0, 0.0, _mrd(R, "dof_invweight0", dof), _mrdv(R, "dof_solref", dof, n=2), _mrdv(R, "dof_solimp", dof, n=5), 0.0, fl, FRICTION_DOF, dof)
  nv = R.scalar("nv")
  return {"act": gt(fl, 0.0), "counter": "nf_out", "rows": [row], "J": lambda r, c: [(eq(c, dof), 1.0)], "pre": [("dof addresses lie in [0, nv)", And(ge(dof, 0), lt(dof, nv)))]}


def expected_friction_tendon(R):
  w, ten = R.tid
  fl = _mrd(R, "tendon_frictionloss", ten)
  row = _row(0.0, 0.0, _mrd(R, "tendon_invweight0", ten), _mrdv(R, "tendon_solref_fri", ten, n=2), _mrdv(R, "tendon_solimp_fri", ten, n=5), 0.0, fl, FRICTION_TENDON, ten)
  pre = [("tendon Jacobian rows are well-formed CSR rows (sorted columns in [0,nv))", And(*tendon_J_pre(R, ten)))]
  return {"act": gt(fl, 0.0), "counter": "nf_out", "rows": [row], "J": lambda r, c: tendon_Jt(R, ten, c), "pre": pre, "cases": tendon_cases(R, ten) if R.sym else []}


def _two_sided(x, lo, hi, margin):
  """MuJoCo limit: side -1: dist = x - lo, side +1: dist = hi - x; a row per side with dist < margin; J = -side * dx"""
  dlo, dhi = sub(x, lo), sub(hi, x)
  alo, ahi = lt(dlo, margin), lt(dhi, margin)
  one = xor(alo, ahi)
  dist = ite(alo, dlo, dhi)
  sign = ite(alo, 1.0, -1.0)
  return {"one": one, "none": And(Not(alo), Not(ahi)), "both": And(alo, ahi), "dist": dist, "sign": sign}


def expected_limit_slide_hinge(R):
  w, t = R.tid
  j = R.rd("jnt_limited_slide_hinge_adr", t)
  rng = _mrdv(R, "jnt_range", j, n=2)
  margin = _mrd(R, "jnt_margin", j)
  dof = R.rd("jnt_dofadr", j)
  s = _two_sided(R.rd("qpos_in", w, R.rd("jnt_qposadr", j)), rng[0], rng[1], margin)
  pa = sub(s["dist"], margin)
  row = _row(pa, pa, _mrd(R, "dof_invweight0", dof), _mrdv(R, "jnt_solref", j, n=2), _mrdv(R, "jnt_solimp", j, n=5), margin, 0.0, LIMIT_JOINT, j)
  nv = R.scalar("nv")
  return {"act": s["one"], "none": s["none"], "both": s["both"], "counter": "nl_out", "rows": [row], "J": lambda r, c: [(eq(c, dof), s["sign"])], "pre": [("dof addresses lie in [0, nv)", And(ge(dof, 0), lt(dof, nv)))]}


def expected_limit_tendon(R):
  w, t = R.tid
  ten = R.rd("tendon_limited_adr", t)
  rng = _mrdv(R, "tendon_range", ten, n=2)
  margin = _mrd(R, "tendon_margin", ten)
  s = _two_sided(R.rd("ten_length_in", w, ten), rng[0], rng[1], margin)
  pa = sub(s["dist"], margin)
  row = _row(pa, pa, _mrd(R, "tendon_invweight0", ten), _mrdv(R, "tendon_solref_lim", ten, n=2), _mrdv(R, "tendon_solimp_lim", ten, n=5), margin, 0.0, LIMIT_TENDON, ten)
  pre = [("tendon Jacobian rows are well-formed CSR rows (sorted columns in [0,nv))", And(*tendon_J_pre(R, ten)))]
  return {"act": s["one"], "none": s["none"], "both": s["both"], "counter": "nl_out", "rows": [row], "J": lambda r, c: tendon_Jt(R, ten, c, s["sign"]), "pre": pre, "cases": tendon_cases(R, ten) if R.sym else []}
