"""Shared by C24 and C06: reference model of MuJoCo's mj_constraintUpdate (per-row force / state / cost), its numeric
validation against the mujoco C library, and the multi-thread K-mode harness for solver._update_constraint_efc.

The reference functions are polymorphic (python floats or z3 terms).  Quantities MuJoCo obtains with a division or a square
root are passed in as arguments: numerically they are computed, symbolically they are helper variables tied by polynomial
constraints (T >= 0, T*T = TT; Dm*mu^2*(1+mu^2) = D0; c*T = -f_normal; rf*D = frictionloss), which determine them uniquely
under the stated preconditions (D > 0, mu > 0, T > 0 in the middle zone)."""

import json
import os

import numpy as np
import z3

from wsym import core, kh, replay, report
from wsym.core import And, Implies, Not, Or, Vec, arith, cmp, is_sym, ite

SATISFIED, QUADRATIC, LINEARNEG, LINEARPOS, CONE = 0, 1, 2, 3, 4
T_EQUALITY, T_FRICTION_DOF, T_FRICTION_TENDON, T_LIMIT_JOINT, T_LIMIT_TENDON, T_FRICTIONLESS, T_PYRAMIDAL, T_ELLIPTIC = range(8)


def mul(*xs):
  r = xs[0]
  for x in xs[1:]:
    r = arith("*", r, x)
  return r


def add(*xs):
  r = xs[0]
  for x in xs[1:]:
    r = arith("+", r, x)
  return r


def sub(a, b):
  return arith("-", a, b)


def neg(a):
  return arith("*", a, -1.0)


def patch_engine():
  """Local work-around for an engine regression (wsym/core.py Interp.lookup, 'uninitialised locals'): for a vector / struct
  local first assigned under a non-trivial guard, lookup() may return a NEW object ite(defined, value, undef); an in-place
  component store (`force[0] -= x`, `v[i] = y`) then mutates that temporary and is lost.  The patch writes the wrapped value
  back to the environment (same meaning: arbitrary where undefined) so that in-place stores hit the variable."""
  if getattr(core.Interp, "_c24_lookup_patch", False):
    return
  orig = core.Interp.lookup

  def lookup(self, fr, name):
    v = orig(self, fr, name)
    defg = getattr(fr, "defg", None)
    if defg is not None and name in fr.env and name in defg and v is not fr.env[name] and isinstance(v, (Vec, core.StructVal)):
      fr.env[name] = v
      defg.pop(name, None)
    return v

  core.Interp.lookup = lookup
  core.Interp._c24_lookup_patch = True
  # kh.mval overflows (float(int) of a huge numerator) on some nlsat models: fall back to exact Fractions
  orig_mval = kh.mval

  def mval(model, x):
    try:
      return orig_mval(model, x)
    except OverflowError:
      return mvalf(model, x)

  kh.mval = mval


patch_engine()


# ------------------------------------------------------------------------------------------------ reference (MuJoCo)


def ref_scalar_row(kind, jar, D, floss=0.0, rf=0.0):
  """one row of mj_constraintUpdate.  kind: 'equality' | 'friction' | 'ineq' (limit, frictionless / pyramidal contact).
  rf = R*frictionloss = frictionloss / D.   -> (force, state, cost)"""
  quad = (neg(mul(D, jar)), QUADRATIC, mul(0.5, D, jar, jar))
  if kind == "equality":
    return quad
  if kind == "friction":
    lneg = cmp("<=", jar, neg(rf))
    lpos = cmp(">=", jar, rf)
    cneg = sub(neg(mul(0.5, rf, floss)), mul(floss, jar))
    cpos = add(neg(mul(0.5, rf, floss)), mul(floss, jar))
    return (ite(lneg, floss, ite(lpos, neg(floss), quad[0])), ite(lneg, LINEARNEG, ite(lpos, LINEARPOS, QUADRATIC)), ite(lneg, cneg, ite(lpos, cpos, quad[2])))
  if kind == "ineq":
    act = cmp("<", jar, 0.0)
    return (ite(act, quad[0], 0.0), ite(act, QUADRATIC, SATISFIED), ite(act, quad[2], 0.0))
  raise ValueError(kind)


def elliptic_terms(jar, mu, fr):
  """N, [U_1..], TT of an elliptic contact: jar = residuals of its dim rows, fr = friction[0 .. dim-2]"""
  N = mul(jar[0], mu)
  U = [mul(jar[j], fr[j - 1]) for j in range(1, len(jar))]
  TT = add(*[mul(u, u) for u in U])
  return N, U, TT


def elliptic_zones(N, T, mu):
  top = Or(cmp(">=", N, mul(mu, T)), And(cmp("<=", T, 0.0), cmp(">=", N, 0.0)))
  bottom = And(Not(top), Or(cmp("<=", add(mul(mu, N), T), 0.0), And(cmp("<=", T, 0.0), cmp("<", N, 0.0))))
  middle = And(Not(top), Not(bottom))
  return top, bottom, middle


def ref_elliptic(jar, D, mu, fr, T, Dm, c):
  """elliptic contact of mj_constraintUpdate.  T = sqrt(TT), Dm = D[0] / (mu^2 (1 + mu^2)), c = -f_normal_middle / T.
  -> (forces[dim], state, cost, (top, bottom, middle))"""
  dim = len(jar)
  N, U, TT = elliptic_terms(jar, mu, fr)
  top, bottom, middle = elliptic_zones(N, T, mu)
  NmT = sub(N, mul(mu, T))
  f0m = neg(mul(Dm, NmT, mu))
  fm = [f0m] + [mul(c, U[j - 1], fr[j - 1]) for j in range(1, dim)]
  fb = [neg(mul(D[j], jar[j])) for j in range(dim)]
  forces = [ite(top, 0.0, ite(bottom, fb[j], fm[j])) for j in range(dim)]
  state = ite(top, SATISFIED, ite(bottom, QUADRATIC, CONE))
  cb = add(*[mul(0.5, D[j], jar[j], jar[j]) for j in range(dim)])
  cm = mul(0.5, Dm, NmT, NmT)
  cost = ite(top, 0.0, ite(bottom, cb, cm))
  return forces, state, cost, (top, bottom, middle)


def ref_elliptic_numeric(jar, D, mu, fr):
  N, U, TT = elliptic_terms(jar, mu, fr)
  T = float(np.sqrt(TT))
  Dm = D[0] / (mu * mu * (1 + mu * mu))
  f0m = -Dm * (N - mu * T) * mu
  c = -f0m / T if T > 0 else 0.0
  return ref_elliptic(jar, D, mu, fr, T, Dm, c)


_XML = """<mujoco><option cone="{cone}" impratio="{imp}"/><worldbody><geom type="plane" size="10 10 .001" condim="1"/>
<body pos="0 0 .04"><freejoint/><geom size=".05" condim="1"/></body>
<body pos="1 0 .04"><freejoint/><geom size=".05" condim="3" friction=".7 .01 .002"/></body>
<body pos="2 0 .04"><freejoint/><geom size=".05" condim="4" friction="1.2 .03 .002"/></body>
<body pos="3 0 .04"><freejoint/><geom size=".05" condim="6" friction=".5 .02 .003"/></body>
<body pos="0 2 1"><joint name="h" type="hinge" range="-1 1" limited="true" frictionloss=".3"/><geom size=".1"/>
 <body pos="0 0 .3"><joint name="s" type="slide" frictionloss=".1"/><geom size=".1"/></body></body>
</worldbody><equality><joint joint1="s"/></equality>
<keyframe><key qpos="0 0 .04 1 0 0 0  1 0 .04 1 0 0 0  2 0 .04 1 0 0 0  3 0 .04 1 0 0 0  1.2 0.1"/></keyframe></mujoco>"""


def validate_reference(seed):
  """reference rows vs mujoco.mj_constraintUpdate on random residuals (all row types, all elliptic zones, both cones).
  -> error text or None"""
  import mujoco

  rng = np.random.default_rng(seed + 24)
  zones_seen, states_seen = set(), set()
  for cone, imp in (("pyramidal", 1.0), ("elliptic", 1.0), ("elliptic", 2.5)):
    m = mujoco.MjModel.from_xml_string(_XML.format(cone=cone, imp=imp))
    d = mujoco.MjData(m)
    mujoco.mj_resetDataKeyframe(m, d, 0)
    mujoco.mj_forward(m, d)
    if d.nefc == 0 or d.ncon != 4 or d.ne != 1 or d.nf != 2 or d.nl != 1:
      return f"validation scene: nefc {d.nefc} ncon {d.ncon} ne {d.ne} nf {d.nf} nl {d.nl}"
    for trial in range(60):
      jar = rng.normal(size=d.nefc) * rng.choice([0.01, 1.0, 30.0])
      if trial % 3 == 0:  # push elliptic contacts towards the middle / top zones
        for con in d.contact:
          if con.dim > 1 and cone == "elliptic":
            jar[con.efc_address] = rng.normal() * 0.5
      if trial % 7 == 0:
        jar[rng.integers(d.nefc)] = 0.0
      cost = np.zeros(1)
      mujoco.mj_constraintUpdate(m, d, jar, cost, 0)
      D, fl, typ = d.efc_D.copy(), d.efc_frictionloss.copy(), d.efc_type.copy()
      total = 0.0
      i = 0
      while i < d.nefc:
        t = int(typ[i])
        if t == T_ELLIPTIC:
          con = d.contact[int(d.efc_id[i])]
          dim = int(con.dim)
          f, st, c, zs = ref_elliptic_numeric([float(x) for x in jar[i : i + dim]], [float(x) for x in D[i : i + dim]], float(con.mu), [float(x) for x in con.friction[: dim - 1]])
          zones_seen.add("top" if zs[0] else "bottom" if zs[1] else "middle")
          for j in range(dim):
            if not np.isclose(f[j], d.efc_force[i + j], rtol=1e-9, atol=1e-10) or int(st) != int(d.efc_state[i + j]):
              return f"elliptic row {i}+{j} ({cone}, impratio {imp}): ref ({f[j]}, {st}) vs mujoco ({d.efc_force[i + j]}, {d.efc_state[i + j]})"
          total += c
          i += dim
          continue
        kind = "equality" if t == T_EQUALITY else "friction" if t in (T_FRICTION_DOF, T_FRICTION_TENDON) else "ineq"
        f, st, c = ref_scalar_row(kind, float(jar[i]), float(D[i]), float(fl[i]), float(fl[i] / D[i]))
        states_seen.add((kind, int(st)))
        if not np.isclose(f, d.efc_force[i], rtol=1e-9, atol=1e-10) or int(st) != int(d.efc_state[i]):
          return f"row {i} type {t} ({cone}): ref ({f}, {st}) vs mujoco ({d.efc_force[i]}, {d.efc_state[i]}) jar {jar[i]}"
        total += c
        i += 1
      if not np.isclose(total, cost[0], rtol=1e-9, atol=1e-9):
        return f"cost ({cone}, impratio {imp}): ref {total} vs mujoco {cost[0]}"
  if zones_seen != {"top", "bottom", "middle"}:
    return f"validation covered elliptic zones {zones_seen}"
  need = {("equality", QUADRATIC), ("friction", QUADRATIC), ("friction", LINEARNEG), ("friction", LINEARPOS), ("ineq", QUADRATIC), ("ineq", SATISFIED)}
  if not need <= states_seen:
    return f"validation covered states {states_seen}"
  return None


# ------------------------------------------------------------------------------------------------ kernel harness


class Rows:
  """Several threads (worldid, efcid_j) of _update_constraint_efc executed from the same initial memory.
  res[j] = (guard, (force, state, cost) vector returned by the real _eval_constraint call of thread j, its argument list), None unless exactly one call;
  force[j] / state[j] = what the thread stored; wrote[j] = its store condition."""

  def __init__(self, kernel, args, tids, unroll=7):
    from mujoco_warp._src import solver

    self.kernel, self.args, self.tids = kernel, args, tids
    cells = {v.cell.uid: v.cell for v in args.values() if isinstance(v, core.ArrRef)}
    snap = {u: c.snapshot() for u, c in cells.items()}
    self.bg, self.res, self.force, self.state, self.wrote, self.obl, self.its = [], [], [], [], [], [], []
    for tid in tids:
      for u, c in cells.items():
        c.restore(snap[u])
      captured = []

      def hook(interp, frame, a, captured=captured):
        r = interp.call_pyfunc(solver._eval_constraint.func, a, name="_eval_constraint", caller=frame)
        captured.append((interp.active(frame), r, list(a)))
        return r

      it, _ = kh.run(kernel, args, tid=tid, unroll=unroll, summaries={solver._eval_constraint.key: hook})
      self.its.append(it)
      self.bg += [core.zbool(a) for a in it.assumes]
      for o in it.obl:
        if o.kind == "unwind":
          self.bg.append(core.zbool(Implies(o.guard, o.cond)))
      self.obl.append([o for o in it.obl if o.kind == "bounds"])
      fc, sc = args["efc_force_out"].cell, args["efc_state_out"].cell
      self.force.append(fc.get(tid))
      self.state.append(sc.get(tid))
      w = False
      for a in it.accesses:
        if a.cell is fc and a.kind.startswith("W"):
          w = Or(w, And(a.guard, *[cmp("==", i, j) for i, j in zip(a.idx, tid)]))
      self.wrote.append(w)
      self.res.append(captured[0] if len(captured) == 1 else None)
    for u, c in cells.items():
      c.restore(snap[u])

  def pre(self, label, *idx, k=0):
    c = self.args[label].cell
    return c.get(idx, k, snap=c.a0 if c.mode == "array" else c.d0)


def make_rows(track_changes, tids_fn, unroll=7, jaref=None):
  """array-mode harness (generic indices).  -> (kernel, args, Rows).  tids_fn(args) -> list of tids."""
  from mujoco_warp._src import solver

  k = solver._update_constraint_efc(track_changes)
  args = kh.make_args(k, shapes={"opt_impratio_invsqrt": [1]}, mode="array", alias_inout=True)
  if jaref is not None:
    args["ctx_Jaref_in"] = jaref
  replay.snapshot_initial(args)
  return k, args, Rows(k, args, tids_fn(args), unroll=unroll)


LAYOUTS = {
  # name: (nworld, world, ne, nf, rows after the contact, naconmax, conid)
  "A": (2, 1, 1, 1, 1, 2, 1),
  "B": (1, 0, 0, 0, 0, 1, 0),
  "C": (3, 2, 2, 0, 2, 3, 0),
}


def make_contact_rows(dim, track_changes=False, layout="A", tag=""):
  """Concrete-layout (dense memory) harness for one elliptic contact: all integer bookkeeping (counters, types, ids, addresses,
  contact.dim, done flags) is concrete and laid out as _efc_contact_init / MuJoCo would, all float inputs (efc_D, Jaref,
  frictionloss, friction, impratio^-1/2) are symbolic.  Threads: the contact's dim rows.  -> dict"""
  from mujoco_warp._src import solver

  nworld, w, ne, nf, after, ncon, c = LAYOUTS[layout]
  e0 = ne + nf
  nefc = e0 + dim + after
  njmax = nefc
  nadr = max(1, 2 * (dim - 1))
  k = solver._update_constraint_efc(track_changes)
  shapes = {
    "opt_impratio_invsqrt": [nworld], "ne_in": [nworld], "nf_in": [nworld], "nefc_in": [nworld], "contact_friction_in": [ncon], "contact_dim_in": [ncon],
    "contact_efc_address_in": [ncon, nadr], "efc_type_in": [nworld, njmax], "efc_id_in": [nworld, njmax], "efc_D_in": [nworld, njmax], "efc_frictionloss_in": [nworld, njmax],
    "nacon_in": [1], "ctx_Jaref_in": [nworld, njmax], "ctx_ls_exhausted_in": [nworld], "ctx_done_in": [nworld], "efc_force_out": [nworld, njmax], "efc_state_out": [nworld, njmax],
    "quad_changed_ids_out": [nworld, njmax], "quad_changed_count_out": [nworld], "state_changed_count_out": [nworld],
  }  # fmt: skip
  args = kh.make_args(k, shapes=shapes, mode="dense", alias_inout=True, prefix=tag)

  def setint(label, values):
    cell = args[label].cell
    flat = list(np.asarray(values).reshape(-1))
    assert len(flat) == cell.size, (label, len(flat), cell.size)
    cell.d = [[(bool(v) if cell.dtype == "bool" else int(v)) for v in flat]]

  types = np.full((nworld, njmax), T_LIMIT_JOINT)
  ids = np.zeros((nworld, njmax), dtype=int)
  for ww in range(nworld):
    types[ww, :ne] = T_EQUALITY
    types[ww, ne : ne + nf] = T_FRICTION_DOF
  types[w, e0 : e0 + dim] = T_ELLIPTIC
  ids[w, e0 : e0 + dim] = c
  adr = np.full((ncon, nadr), -1)
  adr[c, :dim] = np.arange(e0, e0 + dim)
  setint("ne_in", [ne] * nworld)
  setint("nf_in", [nf] * nworld)
  setint("nefc_in", [nefc] * nworld)
  setint("contact_dim_in", [dim] * ncon)
  setint("contact_efc_address_in", adr)
  setint("efc_type_in", types)
  setint("efc_id_in", ids)
  setint("nacon_in", [ncon])
  setint("ctx_done_in", [False] * nworld)
  setint("ctx_ls_exhausted_in", [False] * nworld)
  replay.snapshot_initial(args)
  R = Rows(k, args, [(w, e0 + j) for j in range(dim)], unroll=7)
  D = [R.pre("efc_D_in", w, e0 + j) for j in range(dim)]
  jar = [R.pre("ctx_Jaref_in", w, e0 + j) for j in range(dim)]
  fr = [R.pre("contact_friction_in", c, k=i) for i in range(5)]
  imp = R.pre("opt_impratio_invsqrt", w)
  bg = R.bg + [imp > 0] + [d > 0 for d in D] + [fr[i] > 0 for i in range(dim - 1)]
  text = f"layout {layout}: nworld={nworld}, world {w}, ne={ne}, nf={nf}, contact {c} of {ncon} on rows {e0}..{e0 + dim - 1}, {after} limit row(s) after, njmax=nefc={nefc}"
  return dict(k=k, args=args, R=R, w=w, e0=e0, c=c, D=D, jar=jar, fr=fr, imp=imp, mu=fr[0] * imp, bg=bg, text=text, dim=dim)


def shape_bg(args, cap=8):
  out, seen = [], set()
  for v in args.values():
    if isinstance(v, core.ArrRef) and v.cell.uid not in seen:
      seen.add(v.cell.uid)
      for s in v.cell.shape:
        if is_sym(s):
          out.append(z3.And(s >= 1, s <= cap))
  return out


POSITIVE_INPUTS = ("efc_D_in", "contact_friction_in", "opt_impratio_invsqrt", "efc_frictionloss_in")


def launch_replay(pid, unit, name, locator, kernel, args, goal, env=None, extra_note=""):
  """replay callable: the REAL kernel is launched over its whole grid (nworld x njmax) on the arrays of the solver model;
  goal(spec_like, pre, post) -> (ok, text) evaluated on the real outputs (module-level function given as 'module:fn')."""

  def _rp(model):
    import importlib

    import warp as wp

    conc = replay.concretize_args(model, kernel, args)
    specs = kh.arg_specs(kernel)
    e = {k_: kh.mval(model, v) for k_, v in (env or {}).items()}
    modn, fn = goal.split(":")
    k = replay.locate(locator)
    rng = np.random.default_rng(12345)
    # trial 0: the solver's model; further trials keep its integers and re-draw the float inputs inside the preconditions
    # (the claims quantify over all floats; an argument-level mismatch need not change the outputs on the model's own values)
    for trial in range(1 + int(e.get("randomize_floats") or 0)):
      vals, arrays = replay.build_arrays(conc, specs)
      if trial:
        for label, arr in arrays.items():
          a = arr.numpy()
          if a.dtype.kind == "f" and a.size:
            r = rng.uniform(0.25, 2.0, size=a.shape)
            if label not in POSITIVE_INPUTS:
              r = r * rng.choice([-1.0, 1.0], size=a.shape)
            arr.assign(r.astype(a.dtype))
      pre = {k_: v.numpy().copy() for k_, v in arrays.items()}
      nworld, njmax = arrays["efc_force_out"].shape
      wp.launch(k, dim=(nworld, njmax), inputs=vals, device="cpu")
      wp.synchronize()
      post = {k_: v.numpy().copy() for k_, v in arrays.items()}
      ok, text = getattr(importlib.import_module(modn), fn)({"env": e, "args": conc}, pre, post)
      if not ok:
        if trial:
          text += f" (float inputs re-drawn, trial {trial})"
          conc = {"note": "float inputs re-drawn", **{k_: v.tolist() for k_, v in pre.items()}}
        break
    d = os.path.join(report.VERIF, "replays", pid)
    os.makedirs(d, exist_ok=True)
    path = os.path.join(d, f"{unit}.{name}".replace("/", "_").replace(" ", "_")[:120] + ".json")
    with open(path, "w") as fh:
      json.dump({"property": pid, "unit": unit, "query": name, "kernel": locator, "launch_dim": [int(nworld), int(njmax)], "args": conc, "env": e, "result": text, "how": "build the arrays in 'args', wp.launch(kernel, dim=launch_dim, inputs=...), compare efc_force_out / efc_state_out as described in 'result'" + extra_note}, fh, default=str)
    return (not ok), path

  return _rp


# ------------------------------------------------------------------------------------------------ function-level harness


class MemoInterp(core.Interp):
  """Interp with sqrt memoised per radicand (sqrt is a function) and a table of known roots (radicand sexpr -> root)."""

  def __init__(self, roots=None, **kw):
    super().__init__(**kw)
    self.roots = dict(roots or {})
    self.divs = {}

  def sqrt(self, x):
    if is_sym(x):
      key = x.sexpr()
      if key in self.roots:
        return self.roots[key]
      s = super().sqrt(x)
      self.roots[key] = s
      return s
    return super().sqrt(x)


def safe_div_contract(interp, frame, args):
  """math.safe_div(x, y) = x / (y if y != 0 else MJ_MINVAL) as a polynomial contract, memoised per (x, y)"""
  from mujoco_warp._src import types

  x, y = core.to_z3(args[0], "real"), core.to_z3(args[1], "real")
  key = (x.sexpr(), y.sexpr())
  if key in interp.divs:
    return interp.divs[key]
  q = z3.Real(f"sdiv!{next(interp.fresh)}")
  interp.assumes.append(z3.Implies(y != 0, q * y == x))
  interp.assumes.append(z3.Implies(y == 0, q * z3.RealVal(repr(float(types.MJ_MINVAL))) == x))
  interp.divs[key] = q
  return q


def func_interp(roots=None):
  from mujoco_warp._src import math as mjmath

  return MemoInterp(roots=roots, unroll=8, summaries={mjmath.safe_div.key: safe_div_contract})


def eval_scalar(kind, it, jar, D, fl):
  """REAL _eval_constraint on a non-elliptic row with the arguments the kernel passes (gather/scalar).  -> (force, state, cost)"""
  from mujoco_warp._src import solver

  r = it.call_pyfunc(solver._eval_constraint.func, [kind == "equality", kind == "friction", False, jar, D, (fl if kind == "friction" else 0.0), 0, -1, 0.0, 0.0, 0.0, 0.0, 0.0], name="_eval_constraint")
  return r.c[0], r.c[1], r.c[2]


def elliptic_args(jar, D, mu, fr, TT=None):
  """argument lists of the dim _eval_constraint calls of an elliptic contact (what gather/elliptic proves the kernel passes)"""
  N, U, TTp = elliptic_terms(jar, mu, fr)
  TT = TTp if TT is None else TT
  return [[False, False, True, jar[j], D[j], 0.0, j, 0, jar[0], D[0], mu, (0.0 if j == 0 else mul(U[j - 1], fr[j - 1])), TT] for j in range(len(jar))]


_RUNNER = []


def eval_runner():
  """tiny kernel around the REAL solver._eval_constraint (replays of function-level queries)"""
  import warp as wp

  from mujoco_warp._src import solver

  if not _RUNNER:
    ev = solver._eval_constraint

    @wp.kernel
    def c06_eval_runner(flags: wp.array2d[int], x: wp.array2d[float], out: wp.array[wp.vec3]):
      i = wp.tid()
      out[i] = ev(flags[i, 0] != 0, flags[i, 1] != 0, flags[i, 2] != 0, x[i, 0], x[i, 1], x[i, 2], flags[i, 3], flags[i, 4], x[i, 3], x[i, 4], x[i, 5], x[i, 6], x[i, 7])

    _RUNNER.append(c06_eval_runner)
  return _RUNNER[0]


def real_eval(arglists):
  """run the real _eval_constraint on concrete argument lists -> [(force, state, cost)]"""
  import warp as wp

  n = len(arglists)
  flags = np.zeros((n, 5), dtype=np.int32)
  x = np.zeros((n, 8), dtype=np.float32)
  for i, a in enumerate(arglists):
    flags[i] = [int(bool(a[0])), int(bool(a[1])), int(bool(a[2])), int(a[6]), int(a[7])]
    x[i] = [float(a[3]), float(a[4]), float(a[5]), float(a[8]), float(a[9]), float(a[10]), float(a[11]), float(a[12])]
  out = wp.zeros(n, dtype=wp.vec3)
  wp.launch(eval_runner(), dim=n, inputs=[wp.array(flags, dtype=int), wp.array(x, dtype=float)], outputs=[out], device="cpu")
  wp.synchronize()
  return [(float(r[0]), int(round(float(r[1]))), float(r[2])) for r in out.numpy()]


def mvalf(model, x):
  """model value as float (kh.mval overflows on rationals with huge numerators / denominators)"""
  from fractions import Fraction

  if not is_sym(x):
    return float(x)
  v = model.eval(x, model_completion=True)
  if z3.is_rational_value(v):
    return float(Fraction(v.numerator_as_long(), v.denominator_as_long()))
  if z3.is_algebraic_value(v):
    a = v.approx(20)
    return float(Fraction(a.numerator_as_long(), a.denominator_as_long()))
  return float(kh.mval(model, x))


def write_replay(pid, unit, name, payload):
  d = os.path.join(report.VERIF, "replays", pid)
  os.makedirs(d, exist_ok=True)
  path = os.path.join(d, f"{unit}.{name}".replace("/", "_").replace(" ", "_")[:120] + ".json")
  with open(path, "w") as fh:
    json.dump(dict(payload, property=pid, unit=unit, query=name), fh, default=str)
  return path


def sparse_layout_pre(kt, U, compact, target):
  """documented layout invariants of the sparse Jacobian for the row (w, e) of a K-mode thread `kt` (used instead of assuming
  the thread's accesses in bounds, so that a negative / foreign-cell index is a counterexample, not an excluded execution):
  all per-world arrays have nworld rows; row arrays have njmax columns; 0 <= rowadr, rownnz, rowadr + rownnz <= nnz capacity;
  column indices in [0, nv); compact: dof_cdof[w, col] in [-1, ncdof) where ncdof = width of `target` (the dof-space array)."""
  A = kt.args
  w, e = kt.tid[0], kt.tid[1]
  nworld = A["nefc_in"].cell.shape[0]
  out = [w >= 0, cmp("<", w, nworld), e >= 0]
  for lab, v in A.items():
    if isinstance(v, core.ArrRef) and v.cell.ndim >= 1 and lab != "nefc_in":
      out.append(cmp("==", v.cell.shape[0], nworld))
  njmax = A["efc_J_rownnz_in"].cell.shape[1]
  for lab in ("efc_J_rowadr_in", "efc_aref_in", "ctx_Jaref_out", "efc_force_in"):
    if lab in A:
      out.append(cmp("==", A[lab].cell.shape[1], njmax))
  out += [cmp("<=", kt.pre("nefc_in", w), njmax)]
  nnz, adr = kt.pre("efc_J_rownnz_in", w, e), kt.pre("efc_J_rowadr_in", w, e)
  cap = A["efc_J_in"].cell.shape[2]
  out += [nnz >= 0, adr >= 0, cmp("<=", adr + nnz, cap), cmp("==", A["efc_J_colind_in"].cell.shape[2], cap), cmp(">=", A["efc_J_in"].cell.shape[1], 1), cmp(">=", A["efc_J_colind_in"].cell.shape[1], 1)]
  width = A[target].cell.shape[1]
  nv = A["dof_cdof_in"].cell.shape[1] if compact else width
  for i in range(U):
    col = kt.pre("efc_J_colind_in", w, 0, adr + i)
    ok = And(col >= 0, cmp("<", col, nv))
    if compact:
      cc = kt.pre("dof_cdof_in", w, col)
      ok = And(ok, cc >= -1, cmp("<", cc, width))
    out.append(Implies(cmp("<", i, nnz), ok))
  return out


def prove_inrange(ctx, sess, kt, names, replay_fn, guard=True, what=""):
  """every access of the thread stays inside [0, dim) under the session's preconditions (Warp would wrap a negative index)"""
  seen = {}
  for ob in kt.it.obl:
    if ob.kind != "bounds":
      continue
    key = (ob.where, ob.info)
    seen[key] = seen.get(key, 0) + 1
    nm = f"inrange/{ob.where.split(':')[-1]}/{ob.info[1]}[{ob.info[2]}]" + (f"#{seen[key]}" if seen[key] > 1 else "")
    ctx.prove(sess, nm, ob.strict, And(ob.guard, guard), names=names, replay=replay_fn, desc=f"{what}: index outside [0, dim) at {ob.where} ({ob.info[1]} dim {ob.info[2]}): wrapped / foreign-cell access")


# ------------------------------------------------------------------------------------------------ contact row assembly (constraint.py)

UPD_LAYOUTS = {
  # name: (nworld, world, nacon, conid, first row e0, spare rows after)
  "A": (2, 1, 2, 1, 2, 1),
  "B": (1, 0, 1, 0, 0, 0),
}


def contact_nrows(elliptic, dim):
  return dim if (elliptic or dim == 1) else 2 * (dim - 1)


class ContactUpdate:
  """The threads (conid, dimid) of constraint._efc_contact_update[_flex] for ONE contact, concrete bookkeeping (contact listed,
  CONSTRAINT type, condim, efc_address[c, k] = e0+k, geom ids >= 0 so the flex-body paths of the flex kernel are not taken),
  all float inputs symbolic.  calls[k] = (guard, argument list) of the thread's _efc_row call (None unless exactly one);
  the real _efc_row body is executed, so D[k] / typ[k] / ids[k] are what the kernel stores in the contact's k-th row."""

  def __init__(self, elliptic, dim, adhesion, flex, layout="A", mode="poly"):
    from mujoco_warp._src import constraint, types

    core.DIVMODE[0] = mode
    self.elliptic, self.dim, self.flex = elliptic, dim, flex
    cone = types.ConeType.ELLIPTIC if elliptic else types.ConeType.PYRAMIDAL
    self.builder = "_efc_contact_update_flex" if flex else "_efc_contact_update"
    self.k = getattr(constraint, self.builder)(cone, adhesion)
    self.locator = f"mujoco_warp._src.constraint:{self.builder}(types.ConeType.{'ELLIPTIC' if elliptic else 'PYRAMIDAL'}, {adhesion})"
    nworld, w, ncon, c, e0, spare = UPD_LAYOUTS[layout]
    n = contact_nrows(elliptic, dim)
    self.n, self.w, self.c, self.e0 = n, w, c, e0
    njmax = e0 + n + spare
    nadr = max(1, 2 * (dim - 1))
    ngeom = nbody = 3
    special = {
      "opt_timestep": [nworld], "opt_impratio_invsqrt": [nworld], "body_invweight0": [nworld, nbody], "geom_bodyid": [ngeom],
      "contact_efc_address_in": [ncon, nadr], "efc_Jqvel_in": [nworld, njmax], "nacon_in": [1], "flexvert_xpos_in": [nworld, 2],
    }  # fmt: skip
    shapes = {}
    for a in self.k.adj.args:
      if not kh.is_array_type(a.type):
        continue
      if a.label in special:
        shapes[a.label] = special[a.label]
      elif a.label.startswith("efc_") and a.label.endswith("_out"):
        shapes[a.label] = [nworld, njmax]
      elif a.label.startswith("flex"):
        shapes[a.label] = [2] * a.type.ndim
      else:
        shapes[a.label] = [ncon] * a.type.ndim  # per-contact inputs
    args = kh.make_args(self.k, shapes=shapes, scalars={"opt_disableflags": 0}, mode="dense")

    def setint(label, values):
      cell = args[label].cell
      arr = np.asarray(values).reshape(cell.size, cell.ncomp)
      cell.d = [[int(v) for v in arr[:, kk]] for kk in range(cell.ncomp)]

    for lab, v in args.items():  # every integer input concrete (flex tables are never reached: zeros)
      if isinstance(v, core.ArrRef) and v.cell.dtype == "int" and not lab.endswith("_out"):
        setint(lab, np.zeros((v.cell.size, v.cell.ncomp), dtype=int))
    adr = np.full((ncon, nadr), -1)
    adr[c, :n] = np.arange(e0, e0 + n)
    setint("contact_efc_address_in", adr)
    setint("nacon_in", [ncon])
    setint("condim_in", [dim] * ncon)
    setint("worldid_in", [min(i, nworld - 1) if i != c else w for i in range(ncon)])
    setint("geom_in", [[1, 2]] * ncon)
    setint("geom_bodyid", [0, 1, 2])
    setint("type_in", [1] * ncon)  # ContactType.CONSTRAINT
    for lab in ("flex_in", "elem_in", "vert_in"):
      if lab in args:
        setint(lab, [[-1, -1]] * ncon)
    replay.snapshot_initial(args)
    self.args = args
    cells = {v.cell.uid: v.cell for v in args.values() if isinstance(v, core.ArrRef)}
    snap = {u: cl.snapshot() for u, cl in cells.items()}
    self.bg, self.calls, self.D, self.typ, self.ids, self.wroteD = [], [], [], [], [], []
    for kk in range(n):
      for u, cl in cells.items():
        cl.restore(snap[u])
      cap = []

      def hook(interp, frame, a, cap=cap):
        cap.append((interp.active(frame), list(a)))
        return interp.call_pyfunc(constraint._efc_row.func, a, name="_efc_row", caller=frame)

      it, _ = kh.run(self.k, args, tid=(c, kk), unroll=16, summaries={constraint._efc_row.key: hook})
      self.bg += [core.zbool(a) for a in it.assumes]
      for o in it.obl:
        if o.kind == "unwind":
          self.bg.append(core.zbool(Implies(o.guard, o.cond)))
      self.calls.append(cap[0] if len(cap) == 1 else None)
      self.D.append(args["efc_D_out"].cell.get((w, e0 + kk)))
      self.typ.append(args["efc_type_out"].cell.get((w, e0 + kk)))
      self.ids.append(args["efc_id_out"].cell.get((w, e0 + kk)))
    for u, cl in cells.items():
      cl.restore(snap[u])
    pre = lambda lab, *idx, k=0: args[lab].cell.get(idx, k, snap=args[lab].cell.d0)
    self.pre = pre
    self.fr = [pre("friction_in", c, k=i) for i in range(5)]
    self.imp = pre("opt_impratio_invsqrt", w)
    self.mu = self.fr[0] * self.imp
    self.pos = pre("dist_in", c) - pre("includemargin_in", c)
    self.solimp = [pre("solimp_in", c, k=i) for i in range(5)]
    self.text = f"layout {layout}: nworld={nworld}, world {w}, contact {c} of {ncon} (geoms 1,2 -> bodies 1,2), rows {e0}..{e0 + n - 1}, njmax={njmax}"
