"""C38 Compacted active-DOF solve is equivalent (H mode).

maps     the REAL island.update_active_dofs (_reset_compact_maps, _compact_dofs) with tree_awake, the tree->dof partition, the
         capacity nvmax, the overflow word and the old map contents symbolic: ncdof = min(#active dofs, nvmax), the NVMAX bit is
         set iff #active > nvmax (other bits kept), dof_cdof / cdof_dof are mutually inverse on [0, ncdof), inactive dofs map to
         -1, the padded tail of cdof_dof is -1, without overflow exactly the dofs of awake trees are mapped, and with every tree
         awake and nvmax = nv both maps are the identity.
gather   the REAL solver.smooth_solve_compact (blocked Cholesky replaced by an arbitrary result), solver._compact_gather,
         solver._compact_scatter (+ _gather_J_sparse / _mul_m_sparse_compact launched directly) for ARBITRARY maps satisfying
         the proved map invariant and symbolic M, J, vectors: cM = P M P^T on the active block and the identity on the padded
         tail, crhs / cqfrc_smooth / cqacc_smooth / cqacc_warmstart = gathered vectors (0 on the tail), cJ = J P^T (0 on the
         tail), qacc_smooth / qacc / qfrc_constraint = scattered solution with exactly 0 on inactive dofs; corollaries for the
         identity map (every tree awake): the gathered system IS the full system.
The Newton solver run on the gathered system is the same code as the full solve (not re-proved here).
"""

import dataclasses
import json
import os
import subprocess
import sys
import types as pytypes

import numpy as np
import warp as wp
import z3

from checks import c28
from checks.c28 import View, conc, count, iff, inrange, nest, sel
from wsym import core, host, kh, report
from wsym.core import And, Implies, Not, Or, arith, cmp, is_sym, ite, vmin

PID = "C38"
NVMAX_BIT = 128


def build(jac, ntree=3):
  import mujoco

  import mujoco_warp as mjw

  mjm = mujoco.MjModel.from_xml_string(c28.xml(jac, ntree))
  m = mjw.put_model(mjm)
  d = mjw.make_data(mjm, nworld=1, nconmax=2, njmax=3)
  return mjm, m, d


# ------------------------------------------------------------------------------------------------ maps


def maps_pre(S):
  P = []
  nt, nv = S.ntree, S.nv
  part = [cmp("==", S.tree_dofadr[0], 0), cmp("==", arith("+", S.tree_dofadr[nt - 1], S.tree_dofnum[nt - 1]), nv)]
  for t in range(nt):
    part.append(cmp(">=", S.tree_dofnum[t], 1))
    if t:
      part.append(cmp("==", S.tree_dofadr[t], arith("+", S.tree_dofadr[t - 1], S.tree_dofnum[t - 1])))
  P.append(("trees partition the dofs into consecutive non-empty ranges (tree_dofadr / tree_dofnum)", And(*part)))
  P.append(("tree_awake in {0, 1}", And(*[Or(cmp("==", x, 0), cmp("==", x, 1)) for x in S.tree_awake])))
  P.append(("0 <= nvmax <= nv (make_data rejects anything else)", And(cmp(">=", S.nvmax, 0), cmp("<=", S.nvmax, nv))))
  P.append(("overflow word is a bit mask in [0, 2^11)", inrange(S.overflow0, 0, 2048)))
  return P


def bit(x, b):
  if is_sym(x):
    return (x / b) % 2 == 1
  return (int(x) // b) % 2 == 1


def maps_invariant(nv, nvp, dof_cdof, cdof_dof, ncdof):
  """what the gather / scatter kernels rely on (holds with and without overflow)"""
  Q = {"inv/ncdof-range": And(cmp(">=", ncdof, 0), cmp("<=", ncdof, nv))}
  for ci in range(nvp):
    j = cdof_dof[ci]
    Q[f"inv/cdof_dof/{ci}"] = ite(cmp("<", ci, ncdof), And(inrange(j, 0, nv), cmp("==", sel(dof_cdof, j), ci)), cmp("==", j, -1))
  for j in range(nv):
    ci = dof_cdof[j]
    Q[f"inv/dof_cdof/{j}"] = Or(cmp("==", ci, -1), And(inrange(ci, 0, ncdof), cmp("==", sel(cdof_dof, ci), j)))
  return Q


def spec_maps(S):
  nt, nv, nvp = S.ntree, S.nv, S.nvp
  act = []
  for j in range(nv):
    act.append(Or(*[And(cmp("==", S.tree_awake[t], 1), inrange(j, S.tree_dofadr[t], arith("+", S.tree_dofadr[t], S.tree_dofnum[t]))) for t in range(nt)]))
  cnt = count(act)
  over = cmp(">", cnt, S.nvmax)
  Q = {}
  Q["ncdof"] = (cmp("==", S.ncdof, vmin(cnt, S.nvmax)), True, "ncdof is not min(number of dofs of awake trees, nvmax)")
  Q["overflow-bit"] = (iff(bit(S.overflow1, NVMAX_BIT), Or(bit(S.overflow0, NVMAX_BIT), over)), True, "the NVMAX overflow bit is not set exactly when the active dofs exceed nvmax")
  strip = lambda x: arith("-", x, ite(bit(x, NVMAX_BIT), NVMAX_BIT, 0))
  Q["overflow-other-bits"] = (cmp("==", strip(S.overflow1), strip(S.overflow0)), True, "another overflow bit is changed")
  for name, f in maps_invariant(nv, nvp, S.dof_cdof, S.cdof_dof, S.ncdof).items():
    Q[name] = (f, True, "dof_cdof / cdof_dof are not mutually inverse on [0, ncdof) with -1 elsewhere")
  for j in range(nv):
    Q[f"mapped-only-if-active/dof{j}"] = (Implies(cmp(">=", S.dof_cdof[j], 0), act[j]), True, f"dof {j} of a sleeping tree gets a compact index")
    Q[f"active-mapped/dof{j}"] = (Implies(act[j], cmp(">=", S.dof_cdof[j], 0)), Not(over), f"dof {j} of an awake tree gets no compact index although nvmax is not exceeded")
  allawake = And(*[cmp("==", x, 1) for x in S.tree_awake], cmp("==", S.nvmax, nv))
  for j in range(nv):
    Q[f"identity/dof{j}"] = (And(cmp("==", S.dof_cdof[j], j), cmp("==", S.cdof_dof[j], j)), allawake, f"every tree awake: dof {j} is not mapped to itself")
  Q["identity/tail"] = (And(cmp("==", S.ncdof, nv), *[cmp("==", S.cdof_dof[ci], -1) for ci in range(nv, nvp)]), allawake, "every tree awake: ncdof != nv or the padded tail of cdof_dof is not -1")
  return Q, dict(act=act, count=cnt)


MAPS_M = ["tree_dofadr", "tree_dofnum"]
MAPS_D = ["tree_awake", "overflow", "dof_cdof", "cdof_dof", "ncdof"]


def maps_view(S, m, d, get_pre, get_post, nvmax):
  S.ntree, S.nv, S.nvp, S.nvmax = int(m.ntree), int(m.nv), int(d.nvmax_pad), nvmax
  S.tree_dofadr, S.tree_dofnum = get_pre("m.tree_dofadr"), get_pre("m.tree_dofnum")
  S.tree_awake = get_pre("d.tree_awake")
  S.overflow0, S.overflow1 = get_pre("d.overflow")[0], get_post("d.overflow")[0]
  S.dof_cdof, S.cdof_dof, S.ncdof = get_post("d.dof_cdof"), get_post("d.cdof_dof"), get_post("d.ncdof")[0]
  return S


def unit_maps(ntree):
  return (f"maps/ntree{ntree}", lambda ctx: run_maps(ctx, ntree))


def run_maps(ctx, ntree):
  from mujoco_warp._src import island

  c28.engine_workaround()
  mjm, m, d = build("dense", ntree)
  m2 = host.shim_dataclass(m, "m.", symbolic=lambda n: n in {"m." + x for x in MAPS_M})
  d2 = host.shim_dataclass(d, "d.")
  nvmax = z3.Int("nvmax")
  d2 = dataclasses.replace(d2, nvmax=nvmax)
  nv = int(m.nv)
  ctx.bound(nworld=1, ntree=int(m.ntree), nv=nv, nvmax_pad=int(d.nvmax_pad), unroll=nv, note="dofs per tree <= nv (unwinding obligation proved)")
  with host.HostRun(mode="exec", unroll=nv) as hr:
    island.update_active_dofs(m2, d2)
  for e in hr.events:
    if e.kind == "launch":
      ctx.encode(e.kernel)
  ctx.encode(island.update_active_dofs)
  marrs, darrs = host.arrays_of(m2), host.arrays_of(d2)
  cell_of = lambda n: (marrs[n[2:]] if n.startswith("m.") else darrs[n[2:]]).ref.cell
  S = maps_view(View(), m, d, lambda n: list(cell_of(n).d0[0]), lambda n: list(cell_of(n).d[0]), nvmax)
  pre = []
  for text, f in maps_pre(S):
    ctx.assume(text)
    pre.append(core.zbool(f))
  ctx.assume("old contents of dof_cdof / cdof_dof / ncdof arbitrary")
  pre += [core.zbool(a) for a in hr.assumes]
  sess = ctx.session(pre)
  Q, ref = spec_maps(S)
  names = {"nvmax": nvmax, "overflow0": S.overflow0, "count": ref["count"]}
  for t in range(S.ntree):
    names[f"awake{t}"], names[f"dofadr{t}"], names[f"dofnum{t}"] = S.tree_awake[t], S.tree_dofadr[t], S.tree_dofnum[t]
  ctx.reach(sess, "twin:pre-state", True)
  ctx.reach(sess, "twin:overflow", cmp(">", ref["count"], nvmax))
  ctx.reach(sess, "twin:middle-tree-asleep", And(cmp("==", S.tree_awake[0], 1), cmp("==", S.tree_awake[1], 0), cmp("==", S.tree_awake[2], 1), cmp("==", nvmax, nv), cmp("==", S.tree_dofnum[1], 2)))
  ctx.reach(sess, "twin:exact-fit", And(cmp("==", ref["count"], nvmax), cmp(">", nvmax, 0), cmp("<", nvmax, nv)))

  def rp(qn):
    def _rp(model):
      arrays = {n: [int(kh.mval(model, x)) for x in cell_of(n).d0[0]] for n in ["m." + x for x in MAPS_M] + ["d." + x for x in MAPS_D]}
      return write_and_run(ctx, qn, {"kind": "maps", "ntree": ntree, "nvmax": int(kh.mval(model, nvmax)), "arrays": arrays})

    return _rp

  for qn, (goal, guard, what) in Q.items():
    ctx.prove(sess, qn, goal, guard, names=names, replay=rp(qn), desc=f"update_active_dofs: {what}")
  groups = {}
  for key, tid, o in hr.obl:
    groups.setdefault((o.kind, key), []).append(Implies(o.guard, o.strict if o.kind == "bounds" else o.cond))
  for (kind, key), obs in sorted(groups.items()):
    ctx.prove(sess, f"{kind}/{key}", And(*obs), True, names=names, replay=rp(f"{kind}/{key}"), desc=f"update_active_dofs: a thread of {key} " + ("indexes out of range" if kind == "bounds" else "loops beyond nv dofs of a tree"))


def real_maps(sp):
  from mujoco_warp._src import island

  mjm, m, d = build("dense", sp.get("ntree", 3))
  for n, vals in sp["arrays"].items():
    r = getattr(m if n.startswith("m.") else d, n[2:])
    r.assign(np.array(vals, dtype=r.numpy().dtype).reshape(r.numpy().shape))
  d = dataclasses.replace(d, nvmax=sp["nvmax"])
  pre = {n: list(np.asarray(v).reshape(-1)) for n, v in sp["arrays"].items()}
  island.update_active_dofs(m, d)
  wp.synchronize()
  post = lambda n: [int(x) for x in getattr(d, n[2:]).numpy().reshape(-1)]
  S = maps_view(View(), m, d, lambda n: [int(x) for x in pre[n]], post, sp["nvmax"])
  for text, f in maps_pre(S):
    if not conc(f):
      return False, f"replay input violates precondition: {text}"
  Q, ref = spec_maps(S)
  goal, guard, what = Q[sp["query"]]
  if not conc(guard):
    return False, "guard false on the real run"
  return (not conc(goal)), f"{what}; tree_awake {S.tree_awake} dofadr {S.tree_dofadr} dofnum {S.tree_dofnum} nvmax {S.nvmax} overflow {S.overflow0}->{S.overflow1}; real: ncdof {S.ncdof} dof_cdof {S.dof_cdof} cdof_dof {S.cdof_dof}"


# ------------------------------------------------------------------------------------------------ gather / scatter


UFI = pytypes.SimpleNamespace(float_uf=True, assumes=[])


def fmul_commutes():
  x, y = z3.Reals("x! y!")
  f = z3.Function("fmul", z3.RealSort(), z3.RealSort(), z3.RealSort())
  return z3.ForAll([x, y], f(x, y) == f(y, x))


def feq(a, b):
  """float equality: exact for terms, tolerance (and nan == nan) on concrete replays"""
  if is_sym(a) or is_sym(b):
    return cmp("==", a, b)
  a, b = float(a), float(b)
  if a != a or b != b:
    return (a != a) and (b != b)
  return abs(a - b) <= 1e-4 * (1.0 + abs(a) + abs(b))


def full_M(S, i, j):
  """entry (i, j) of the symmetric inertia matrix stored as CSR rows of the lower triangle (concrete i, j)"""
  for a, b in ((i, j), (j, i)):
    for k in range(S.M_rownnz[a]):
      if S.M_colind[S.M_rowadr[a] + k] == b:
        return S.M[S.M_rowadr[a] + k]
  return 0.0


def full_M_sym(S, i, j):
  """same for symbolic dof indices"""
  r = 0.0
  for a in range(S.nv - 1, -1, -1):
    for b in range(S.nv - 1, -1, -1):
      r = ite(And(cmp("==", i, a), cmp("==", j, b)), full_M(S, a, b), r)
  return r


def gs_pre(S):
  P = [("compaction maps satisfy the invariant proved for update_active_dofs (unit maps: inv/*)", And(*maps_invariant(S.nv, S.nvp, S.dof_cdof, S.cdof_dof, S.ncdof).values()))]
  P.append(("0 <= nefc", cmp(">=", S.nefc, 0)))
  if S.is_sparse:
    rows = []
    for r in range(S.njmax):
      rows.append(Implies(cmp("<", r, S.nefc), And(inrange(S.J_rownnz[r], 0, S.nv + 1), cmp(">=", S.J_rowadr[r], 0), cmp("<=", arith("+", S.J_rowadr[r], S.J_rownnz[r]), S.nnz))))
    P.append(("sparse J rows of active constraints lie inside the buffer, <= nv entries, distinct columns in [0, nv)", And(*rows, *[inrange(x, 0, S.nv) for x in S.J_colind])))
  return P


def spec_gather(S):
  nv, nvp = S.nv, S.nvp
  act = [cmp("<", ci, S.ncdof) for ci in range(nvp)]
  ident = And(cmp("==", S.ncdof, nv), *[cmp("==", S.cdof_dof[j], j) for j in range(nv)], *[cmp("==", S.dof_cdof[j], j) for j in range(nv)])
  Q = {}

  def gathered(vec, ci):
    return ite(act[ci], sel(vec, S.cdof_dof[ci]), 0.0)

  for tag, cM in (("smooth", S.cM_smooth), ("solve", S.cM_solve)):
    if cM is None:
      continue
    for ci in range(nvp):
      goals, idg = [], []
      for cj in range(nvp):
        exp = ite(And(act[ci], act[cj]), full_M_sym(S, S.cdof_dof[ci], S.cdof_dof[cj]), 1.0 if ci == cj else 0.0)
        goals.append(feq(cM[ci][cj], exp))
        idg.append(feq(cM[ci][cj], full_M(S, ci, cj) if (ci < nv and cj < nv) else (1.0 if ci == cj else 0.0)))
      Q[f"{tag}/cM/row{ci}"] = (And(*goals), True, f"row {ci} of the compact inertia is not P M P^T on the active block / identity on the padded tail")
      Q[f"{tag}/cM-identity-map/row{ci}"] = (And(*idg), ident, f"every tree awake: row {ci} of the compact inertia differs from the full inertia (identity beyond nv)")
  for ci in range(nvp):
    Q[f"smooth/crhs/{ci}"] = (feq(S.crhs[ci], gathered(S.qfrc_smooth, ci)), True, f"crhs[{ci}] is not the gathered qfrc_smooth (0 on the tail)")
    g = And(feq(S.cqfrc_smooth[ci], gathered(S.qfrc_smooth, ci)), feq(S.cqacc_smooth[ci], gathered(S.qacc_smooth_in, ci)), feq(S.cqacc_warmstart[ci], gathered(S.qacc_warmstart, ci)))
    Q[f"solve/cvecs/{ci}"] = (g, True, f"compact qfrc_smooth / qacc_smooth / qacc_warmstart [{ci}] are not the gathered vectors (0 on the tail)")
  for j in range(nv):
    ci = S.dof_cdof[j]
    on = cmp(">=", ci, 0)
    Q[f"smooth/qacc_smooth/dof{j}"] = (feq(S.qacc_smooth_out[j], ite(on, sel(S.cx, ci), 0.0)), True, f"qacc_smooth[{j}] is not the scattered solution (exactly 0 for an inactive dof)")
    Q[f"solve/scatter/dof{j}"] = (And(feq(S.qacc[j], ite(on, sel(S.cqacc, ci), 0.0)), feq(S.qfrc_constraint[j], ite(on, sel(S.cqfrc_constraint, ci), 0.0))), True, f"qacc / qfrc_constraint [{j}] are not the scattered compact solution (exactly 0 for an inactive dof)")
    Q[f"solve/scatter-identity-map/dof{j}"] = (And(feq(S.qacc[j], S.cqacc[j]), feq(S.qfrc_constraint[j], S.cqfrc_constraint[j]), feq(S.qacc_smooth_out[j], S.cx[j])), ident, f"every tree awake: scattered dof {j} differs from the compact solution")
  # Jacobian
  for tag, cJ in (("solve", S.cJ), ("direct", S.cJ_sparse)):
    if cJ is None:
      continue
    for r in range(S.njmax):
      goals, idg = [], []
      for cj in range(nvp):
        if tag == "solve":
          exp = ite(act[cj], sel(S.J[r], S.cdof_dof[cj]), 0.0)
          full = S.J[r][cj] if cj < nv else 0.0
          goals.append(feq(cJ[r][cj], exp))
          idg.append(feq(cJ[r][cj], full))
        else:
          # sparse row: entry k contributes J[adr+k] at compact column dof_cdof[colind]; other columns keep their old value
          hit = [And(cmp("<", k, S.J_rownnz[r]), cmp("==", sel(S.dof_cdof, sel(S.J_colind, arith("+", S.J_rowadr[r], k))), cj)) for k in range(nv)]
          val = S.cJ_sparse0[r][cj]
          for k in range(nv):
            val = ite(hit[k], sel(S.J_sparse, arith("+", S.J_rowadr[r], k)), val)
          goals.append(feq(cJ[r][cj], val))
      name = "cJ" if tag == "solve" else "cJ-sparse"
      Q[f"{tag}/{name}/row{r}"] = (And(*goals), cmp("<", r, S.nefc), f"row {r} of the compact Jacobian is not J P^T (0 / untouched on the tail)")
      if idg:
        Q[f"{tag}/cJ-identity-map/row{r}"] = (And(*idg), And(ident, cmp("<", r, S.nefc)), f"every tree awake: row {r} of the compact Jacobian differs from the full Jacobian")
  if S.mulm_res is not None:
    # res = P M P^T vec, written as (row of M of the dof behind ci) . (vec scattered to full coordinates, 0 on inactive dofs)
    vfull = [ite(cmp(">=", S.dof_cdof[j], 0), sel(S.mulm_vec, S.dof_cdof[j]), 0.0) for j in range(nv)]
    for ci in range(nvp):
      dof = S.cdof_dof[ci]
      exp = 0.0
      for i in range(nv - 1, -1, -1):
        acc = 0.0
        for j in range(nv):
          mij = full_M(S, i, j)
          if not (isinstance(mij, float) and mij == 0.0):
            # product as the uninterpreted fmul the kernel is interpreted with (commutativity axiom in the session)
            acc = arith("+", acc, ite(cmp(">=", S.dof_cdof[j], 0), arith("*", mij, sel(S.mulm_vec, S.dof_cdof[j]), UFI), 0.0))
        exp = ite(cmp("==", dof, i), acc, exp)
      exp = ite(S.mulm_skip, S.mulm_res0[ci], ite(act[ci], exp, 0.0))
      Q[f"direct/mul_m_sparse_compact/{ci}"] = (feq(S.mulm_res[ci], exp), True, f"compact M @ vec [{ci}] is not (P M P^T vec)[{ci}] (0 on the tail, untouched when skipped)")
  return Q


GS_IN = ["M", "qfrc_smooth", "qacc_smooth", "qacc_warmstart", "nefc", "efc.J", "efc.J_rownnz", "efc.J_rowadr", "efc.J_colind", "dof_cdof", "cdof_dof", "ncdof"]


class GSRun:
  """drives the real host functions either under HostRun (symbolic) or natively (replay) and collects the view"""

  def __init__(self, jac, m, d, read, make, havoc, uf=lambda on: None):
    self.jac, self.m, self.d, self.read, self.make, self.havoc, self.uf = jac, m, d, read, make, havoc, uf

  def run(self, S):
    from mujoco_warp._src import solver

    m, d, rd = self.m, self.d, self.read
    nv, nvp, njmax = int(m.nv), int(d.nvmax_pad), int(d.njmax)
    S.nv, S.nvp, S.njmax, S.is_sparse = nv, nvp, njmax, bool(m.is_sparse)
    S.M_rownnz, S.M_rowadr, S.M_colind = [[int(x) for x in np.asarray(a.numpy()).reshape(-1)] for a in (self.m_real.M_rownnz, self.m_real.M_rowadr, self.m_real.M_colind)]
    S.M = rd(d.M)
    S.qfrc_smooth, S.qacc_smooth_in, S.qacc_warmstart = rd(d.qfrc_smooth), rd(d.qacc_smooth), rd(d.qacc_warmstart)
    S.nefc = rd(d.nefc)[0]
    S.dof_cdof, S.cdof_dof, S.ncdof = rd(d.dof_cdof), rd(d.cdof_dof), rd(d.ncdof)[0]
    if S.is_sparse:
      S.J_rownnz, S.J_rowadr, S.J_colind, S.J_sparse = rd(d.efc.J_rownnz)[:njmax], rd(d.efc.J_rowadr)[:njmax], rd(d.efc.J_colind), rd(d.efc.J)
      S.nnz = len(S.J_colind)
      S.J = None
    else:
      S.J = [row[:nv] for row in nest(rd(d.efc.J), d.efc.J.shape[1:])][:njmax]
    # 1. smooth solve in compact space
    solver.smooth_solve_compact(m, d)
    S.cM_smooth = nest(rd(d.cM), (nvp, nvp))
    S.crhs, S.cx, S.qacc_smooth_out = rd(d.crhs), rd(d.cx), rd(d.qacc_smooth)
    # 2. gather for the constraint solve (qacc_smooth as input again: arbitrary)
    self.havoc(d.qacc_smooth, "qacc_smooth")
    S.qacc_smooth_in = rd(d.qacc_smooth)
    solver._compact_gather(m, d)
    S.cM_solve = nest(rd(d.cM), (nvp, nvp)) if not S.is_sparse else None
    S.cJ = [row[:nvp] for row in nest(rd(d.cJ), d.cJ.shape[1:])][:njmax] if not S.is_sparse else None
    S.cqfrc_smooth, S.cqacc_smooth, S.cqacc_warmstart = rd(d.cqfrc_smooth), rd(d.cqacc_smooth), rd(d.cqacc_warmstart)
    # 3. the Newton solver leaves an arbitrary compact solution; scatter it
    self.havoc(d.cqacc, "cqacc")
    self.havoc(d.cqfrc_constraint, "cqfrc_constraint")
    S.cqacc, S.cqfrc_constraint = rd(d.cqacc), rd(d.cqfrc_constraint)
    solver._compact_scatter(m, d)
    S.qacc, S.qfrc_constraint = rd(d.qacc), rd(d.qfrc_constraint)
    # 4. kernels of the sparse-compact path, launched with the host code's own argument lists
    S.cJ_sparse = S.cJ_sparse0 = S.mulm_res = None
    if S.is_sparse:
      cJ = self.make("cJs", (1, njmax, nvp), float)
      S.cJ_sparse0 = [row for row in nest(rd(cJ), (njmax, nvp))]
      wp.launch(solver._gather_J_sparse, dim=(1, njmax), inputs=[d.nefc, d.dof_cdof, d.efc.J_rownnz, d.efc.J_rowadr, d.efc.J_colind, d.efc.J], outputs=[cJ])
      S.cJ_sparse = [row for row in nest(rd(cJ), (njmax, nvp))]
      res, vec, skip = self.make("mulm_res", (1, nvp), float), self.make("mulm_vec", (1, nvp), float), self.make("mulm_skip", (1,), bool)
      S.mulm_res0, S.mulm_vec, S.mulm_skip = rd(res), rd(vec), rd(skip)[0]
      ctx2 = pytypes.SimpleNamespace(compact_d_full=d, compact_m_full=m)
      m2 = dataclasses.replace(m, nv=nvp)
      self.uf(True)  # float products of this launch are the uninterpreted fmul (bilinear terms stay out of the solver)
      solver._mul_m_compact_aware(m2, d, ctx2, res, vec, skip)
      self.uf(False)
      S.mulm_res = rd(res)
    return S


def unit_gather(jac, ntree=3):
  def run(ctx):
    from mujoco_warp._src import solver, support

    c28.engine_workaround()
    mjm, m, d = build(jac, ntree)
    err = validate_M_layout(mjm, m)
    if err:
      ctx.error("reference-model validation: " + err)
    sym = {"d." + n for n in GS_IN} | {"d.cM", "d.crhs", "d.cx", "d.cqLD", "d.cJ", "d.cqfrc_smooth", "d.cqacc_smooth", "d.cqacc_warmstart", "d.cqacc", "d.cqfrc_constraint", "d.qacc", "d.qfrc_constraint", "d.efc.Ma", "d.cMa"}
    d2 = host.shim_dataclass(d, "d.", symbolic=lambda n: n in sym)
    nv, nvp = int(m.nv), int(d.nvmax_pad)
    ctx.bound(nworld=1, nv=nv, ntree=int(m.ntree), nvmax_pad=nvp, njmax=int(d.njmax), jacobian=jac, unroll=nv + 1, note="sparse J rows / M rows have <= nv entries (unwinding obligations proved)")
    cnt = [0]

    def havoc(arr, tag):
      c = arr.ref.cell
      c.d = [[z3.Const(f"{tag}!{k}!{i}", c.sort) for i in range(c.size)] for k in range(c.ncomp)]

    def make(name, shape, dtype):
      return host.sym_array(name, shape, {float: wp.float32, bool: wp.bool, int: wp.int32}[dtype])

    def rd(arr):
      if isinstance(arr, host.SymArr):
        return list(arr.ref.cell.d[0])
      return [x.item() for x in np.asarray(arr.numpy()).reshape(-1)]

    def on_launch(hr, kernel, dim, args):
      if kernel.key.startswith("_mul_m") and "compact" not in kernel.key:
        return "skip"  # support.mul_m of the full model at the end of _compact_scatter (Ma refresh): not part of the claim

    class HR(host.HostRun):
      def __enter__(self):
        r = super().__enter__()
        hr_ = self

        def launch_tiled(*a, **kw):
          kernel = a[0] if a else kw.get("kernel")
          hr_.events.append(host.Event("launch_tiled", kernel, kw.get("dim")))
          for o in kw.get("outputs") or []:
            havoc(o, f"tiled{cnt[0]}")
            cnt[0] += 1

        wp.launch_tiled = launch_tiled
        return r

    hrbox = []

    def uf(on):
      hrbox[0].interp_kw = {"float_uf": True} if on else {}

    g = GSRun(jac, m, d2, rd, make, havoc, uf)
    g.m_real = m
    with HR(mode="exec", unroll=nv + 1, on_launch=on_launch) as hr:
      hrbox.append(hr)
      S = g.run(View())
    for e in hr.events:
      if e.kind == "launch":
        ctx.encode(e.kernel)
    ctx.encode(solver.smooth_solve_compact, solver._compact_gather, solver._compact_scatter, solver._mul_m_compact_aware)
    ctx.assume("the blocked Cholesky factor/solve and the Newton solver are replaced by arbitrary results (cx, cqacc, cqfrc_constraint)", "M is the CSR lower triangle described by M_rownnz/M_rowadr/M_colind (validated against mujoco.mj_fullM)")
    pre = []
    for text, f in gs_pre(S):
      ctx.assume(text)
      pre.append(core.zbool(f))
    pre += [core.zbool(a) for a in hr.assumes]
    if jac == "sparse":
      pre.append(fmul_commutes())
      ctx.assume("_mul_m_sparse_compact: float multiplication is an uninterpreted commutative function (shared by kernel and reference)")
    sess = ctx.session(pre)
    ctx.reach(sess, "twin:pre-state", True)
    ctx.reach(sess, "twin:middle-dof-inactive", And(cmp("==", S.ncdof, 3), cmp("==", S.dof_cdof[2], -1), cmp("==", S.dof_cdof[3], 2)))
    ctx.reach(sess, "twin:identity-map", And(cmp("==", S.ncdof, nv), *[cmp("==", S.cdof_dof[j], j) for j in range(nv)]))
    ctx.reach(sess, "twin:permuted-map", And(cmp("==", S.ncdof, nv), cmp("==", S.cdof_dof[0], 1)))
    names = {"ncdof": S.ncdof, "nefc": S.nefc}
    for j in range(nv):
      names[f"dof_cdof{j}"] = S.dof_cdof[j]
    for ci in range(nv + 1):
      names[f"cdof_dof{ci}"] = S.cdof_dof[ci]
    darrs = host.arrays_of(d2)

    def rp(qn):
      def _rp(model):
        arrays = {}
        # inputs AND the pre-state of every compact scratch buffer (d.cJ, d.cM, ...: whatever an earlier solve with another
        # active set left there -- the code under test must not depend on it, so the replay plants the solver's values)
        for n in GS_IN + sorted(x[2:] for x in sym if x[2:] not in GS_IN):
          if n not in darrs:
            continue
          c = darrs[n].ref.cell
          if c.size and hasattr(c, "d0"):
            arrays["d." + n] = [float(kh.mval(model, x)) for x in c.d0[0]]
        return write_and_run(ctx, qn, {"kind": "gather", "jac": jac, "ntree": ntree, "arrays": arrays, "note": "scratch buffers (d.c*) hold the given contents before the call, as left by an earlier solve"})

      return _rp

    for qn, (goal, guard, what) in spec_gather(S).items():
      ctx.prove(sess, qn, goal, guard, names=names, replay=rp(qn), desc=f"{jac}: {what}")
    groups = {}
    for key, tid, o in hr.obl:
      groups.setdefault((o.kind, key), []).append(Implies(o.guard, o.strict if o.kind == "bounds" else o.cond))
    for (kind, key), obs in sorted(groups.items()):
      ctx.prove(sess, f"{kind}/{key}", And(*obs), True, names=names, replay=rp(f"{kind}/{key}"), desc=f"{jac}: a thread of {key} " + ("indexes out of range" if kind == "bounds" else "loops beyond the row length bound"))

  return (f"gather-scatter/{jac}/ntree{ntree}", run)


def real_gather(sp):
  jac = sp["jac"]
  mjm, m, d = build(jac, sp.get("ntree", 3))
  rng = np.random.default_rng(7)
  for n, vals in sp["arrays"].items():
    obj = d
    for part in n[2:].split("."):
      obj = getattr(obj, part)
    obj.assign(np.array(vals).astype(obj.numpy().dtype).reshape(obj.numpy().shape))
  # make the inertia positive definite enough for the real Cholesky to run (its result is read back, not predicted)

  def havoc(arr, tag):
    arr.assign(rng.uniform(-2, 2, size=arr.shape).astype(np.float32))

  def make(name, shape, dtype):
    if dtype is bool:
      return wp.array(np.zeros(shape, dtype=bool), dtype=bool)
    return wp.array(rng.uniform(-2, 2, size=shape).astype(np.float32), dtype=float)

  def rd(arr):
    return [x.item() for x in np.asarray(arr.numpy()).reshape(-1)]

  g = GSRun(jac, m, d, rd, make, havoc)
  g.m_real = m
  S = g.run(View())
  wp.synchronize()
  for text, f in gs_pre(S):
    if not conc(f):
      return False, f"replay input violates precondition: {text}"
  Q = spec_gather(S)
  goal, guard, what = Q[sp["query"]]
  if not conc(guard):
    return False, "guard false on the real run"
  return (not conc(goal)), f"{what}; maps dof_cdof {S.dof_cdof} cdof_dof {S.cdof_dof[: S.nv + 1]} ncdof {S.ncdof}"


VALID_XML = """<mujoco><worldbody>
<body pos="0 0 1"><joint type="hinge" axis="0 1 0"/><geom type="capsule" fromto="0 0 0 .4 0 0" size=".05"/>
  <body pos=".4 0 0"><joint type="hinge" axis="0 1 0"/><geom type="capsule" fromto="0 0 0 .3 0 0" size=".04"/>
    <body pos=".3 0 0"><joint type="slide" axis="1 0 1"/><geom size=".05"/></body></body></body>
<body pos="1 0 1"><freejoint/><geom type="box" size=".1 .2 .3"/></body></worldbody></mujoco>"""


def validate_M_layout(mjm_unused=None, m_unused=None):
  """full_M over mujoco_warp's (M_rownnz, M_rowadr, M_colind) and MuJoCo's CSR inertia reproduces mujoco.mj_fullM"""
  import mujoco

  import mujoco_warp as mjw

  mjm = mujoco.MjModel.from_xml_string(VALID_XML)
  m = mjw.put_model(mjm)
  mjd = mujoco.MjData(mjm)
  mjd.qpos[:3] = [0.3, -0.7, 0.1]
  mujoco.mj_forward(mjm, mjd)
  full = np.zeros((mjm.nv, mjm.nv))
  mujoco.mj_fullM(mjm, mjd, full)
  S = View()
  S.nv = mjm.nv
  S.M_rownnz, S.M_rowadr, S.M_colind = [[int(x) for x in a.numpy()] for a in (m.M_rownnz, m.M_rowadr, m.M_colind)]
  S.M = [float(x) for x in mjd.M]
  for i in range(mjm.nv):
    for j in range(mjm.nv):
      if abs(full_M(S, i, j) - full[i, j]) > 1e-9:
        return f"CSR reconstruction of M[{i},{j}] = {full_M(S, i, j)} but mj_fullM gives {full[i, j]}"
  if abs(full[0, 1]) < 1e-6 or abs(full[2, 0]) < 1e-6:
    return "validation model has no off-diagonal inertia"
  return None


# ------------------------------------------------------------------------------------------------ compact-aware solver kernels


def rel_specs():
  from mujoco_warp._src import solver, types

  return {
    "linesearch_jv_fused": lambda C: solver._linesearch_jv_fused_kernel(True, 4, 4, C),
    "solve_init_jaref": lambda C: solver._solve_init_jaref_kernel(True, 4, 4, C),
    "update_constraint_init_qfrc_constraint_sparse": lambda C: solver._update_constraint_init_qfrc_constraint_sparse(C),
    "update_gradient_init_h_sparse": lambda C: solver._update_gradient_init_h_sparse(C),
    "update_gradient_h_incremental_sparse": lambda C: solver._update_gradient_h_incremental_sparse(C),
    "JTDACJ_sparse": lambda C: solver._JTDACJ_sparse(C, types.ConeType.PYRAMIDAL, 3),
  }


def unit_compact_kernels(ctx):
  """the COMPACT=True closures of the sparse solver kernels (they read J / M through dof_cdof / cdof_dof) write exactly what
  their COMPACT=False twins write when the maps are the identity (every tree awake): one generic thread, symbolic sizes"""
  from checks import lib
  from wsym import replay as wreplay

  c28.engine_workaround()
  ctx.bound(unroll=3, shape_cap=6, note="sparse rows with <= 3 entries (unwinding assumption), array dims <= 6")
  ctx.assume("identity maps: every dof_cdof / cdof_dof entry read by the thread equals its index", "float multiplication is an uninterpreted commutative function shared by both kernels", "own accesses in bounds, loops within the unroll bound (assumed, K mode)")
  for name, B in rel_specs().items():
    try:
      kt1 = lib.kernel_thread(B(True), unroll=3, interp_kw={"float_uf": True})
      kt0 = lib.kernel_thread(B(False), unroll=3, interp_kw={"float_uf": True})
    except core.Unsupported as ex:
      ctx.notes.append(f"skipped (nothing claimed): {name}: {ex}")
      continue
    ctx.encode(B(True), B(False))
    ident = []
    for a in kt1.it.accesses:
      if a.cell.name in ("dof_cdof_in", "cdof_dof_in") and a.kind == "R":
        ident.append(core.zbool(Implies(a.guard, cmp("==", a.val, a.idx[-1]))))
    extra = []
    if name == "update_gradient_init_h_sparse":
      extra = [kt1.tid[1] < kt1.args["nv"], kt1.tid[2] < kt1.args["nv"]]
      ctx.assume("update_gradient_init_h_sparse: thread inside the nv x nv block (the padded tail differs by design: identity vs 0)")
    sess = ctx.session([fmul_commutes()] + kt1.bg + kt0.bg + ident + extra)
    ctx.reach(sess, f"twin:{name}", True)
    written = sorted({a.cell.name for kt in (kt1, kt0) for a in kt.it.accesses if a.kind.startswith(("W", "A"))})
    for lab in written:
      c1, c0 = kt1.cell(lab), kt0.cell(lab)

      def rp(model, name=name, kt1=kt1, lab=lab):
        conc_args = wreplay.concretize_args(model, kt1.kernel, kt1.args)
        t = kt1.tid if isinstance(kt1.tid, tuple) else (kt1.tid,)
        return write_and_run(ctx, f"compact-equals-plain/{name}/{lab}", {"kind": "rel", "builder": name, "label": lab, "args": conc_args, "tid": [int(kh.mval(model, x)) for x in t]})

      ctx.prove(sess, f"compact-equals-plain/{name}/{lab}", z3.And(*[c1.a[k] == c0.a[k] for k in range(c1.ncomp)]), True, replay=rp, desc=f"with identity maps the COMPACT variant of {name} writes {lab} differently from the plain sparse kernel")


def real_rel(sp):
  from wsym import replay as wreplay

  outs = []
  for C in (True, False):
    k = rel_specs()[sp["builder"]](C)
    st, ndim = wreplay.single_thread_kernel(k)
    vals, arrays = wreplay.build_arrays(json.loads(json.dumps(sp["args"])), kh.arg_specs(k))
    tid = list(sp["tid"])[:ndim] + [0] * max(0, ndim - len(sp["tid"]))
    wp.launch(st, dim=1, inputs=vals + [int(x) for x in tid], device="cpu")
    wp.synchronize()
    outs.append(np.asarray(arrays[sp["label"]].numpy(), dtype=float))
  same = bool(np.allclose(outs[0], outs[1], rtol=1e-4, atol=1e-5, equal_nan=True))
  return (not same), f"{sp['builder']} thread {sp['tid']}: {sp['label']} compact {outs[0].tolist()} vs plain {outs[1].tolist()}"


# ------------------------------------------------------------------------------------------------ replay plumbing


def write_and_run(ctx, qn, sp):
  d = os.path.join(report.VERIF, "replays", PID)
  os.makedirs(d, exist_ok=True)
  path = os.path.join(d, f"{ctx.unit.replace('/', '_')}.{qn.replace('/', '_')}.json")
  sp = dict(sp, property=PID, unit=ctx.unit, query=qn, how="cd /verif && PYTHONPATH=.deps:. python -m checks.c38 <this file>: builds the tiny model (checks.c28.xml), assigns the arrays, runs the real host functions and evaluates the reference")
  with open(path, "w") as f:
    json.dump(sp, f)
  is_obl = qn.startswith(("bounds/", "unwind/"))
  p = subprocess.run([sys.executable, "-m", "checks.c38", path] + (["--debug"] if is_obl else []), cwd=report.VERIF, env=dict(os.environ), capture_output=True, text=True, timeout=900)
  out = (p.stdout + p.stderr).strip()
  ok, text = False, f"replay subprocess rc={p.returncode}: {out[-300:]}"
  if p.returncode not in (0, 3):
    ok, text = True, f"the real host function crashed / aborted on inputs satisfying the preconditions (rc={p.returncode}): {out[-300:]}"
  for line in out.splitlines():
    if line.startswith("REPRODUCED: "):
      ok, text = True, line[len("REPRODUCED: ") :]
    elif line.startswith("NOT-REPRODUCED: "):
      ok, text = False, line[len("NOT-REPRODUCED: ") :]
  sp["result"] = text
  with open(path, "w") as f:
    json.dump(sp, f)
  return ok, path


def main(tier, seed, only=None):
  units = [unit_maps(3), unit_gather("dense"), unit_gather("sparse"), ("compact-kernels", unit_compact_kernels)]
  from checks import c06

  # compact-path Hessian assembly (tile kernel, block-collective interpreter): H = cM + sum_{live quadratic rows} D J^T J
  units.append(c06.unit_hessian(2, 2, 4, True))
  if tier == "thorough":
    units += [unit_maps(4), unit_gather("dense", 4), unit_gather("sparse", 4)]
  if only:
    units = [u for u in units if any(o in u[0] for o in only)]
  return report.run_check(PID, units, tier, seed)


if __name__ == "__main__":
  wp.config.quiet = True
  sp_ = json.load(open(sys.argv[1]))
  if "--debug" in sys.argv:
    wp.config.mode = "debug"
    wp.config.kernel_cache_dir = os.path.join(report.VERIF, ".wpcache", "replay_debug")
  ok_, text_ = {"maps": real_maps, "gather": real_gather, "rel": real_rel}[sp_["kind"]](sp_)
  if "--debug" in sys.argv:
    print("NOT-REPRODUCED: completed under the bounds-checked build")
    sys.exit(3)
  print(("REPRODUCED: " if ok_ else "NOT-REPRODUCED: ") + str(text_).replace("\n", " "))
  sys.exit(0 if ok_ else 3)
