"""Case splitting of a z3 formula over its if-then-else subterms (C30/C25 helper).

`leaves(formula, assumptions)` decides every ite condition that the (linear) path assumptions already imply or refute and
branches on the others, returning ite-free leaf formulas with their path conditions.  Each leaf is then decided by an
ordinary solver query, so the verdict stays a solver verdict; the splitting only keeps the nonlinear (polynomial identity)
part of a query free of Boolean structure.  Optionally real divisions `a / b` (b non-constant) are purified into fresh
variables q with q * b = a (given b != 0 from the path), identical division terms sharing one variable."""

import itertools

import z3


def _find_ite(e, seen):
  """an ite subterm whose condition contains no ite (innermost first)"""
  k = e.get_id()
  if k in seen:
    return None
  seen.add(k)
  if not z3.is_app(e):
    return None
  for c in e.children():
    r = _find_ite(c, seen)
    if r is not None:
      return r
  if e.decl().kind() == z3.Z3_OP_ITE:
    return e
  return None


def leaves(formula, assumptions, timeout_ms=5000, max_leaves=256):
  out = []
  s = z3.Solver()
  s.set("timeout", timeout_ms)
  for a in assumptions:
    s.add(a)

  def implied(c):
    s.push()
    s.add(z3.Not(c))
    r = s.check()
    s.pop()
    return r == z3.unsat

  def rec(f, path):
    while True:
      if len(out) > max_leaves:
        raise RuntimeError("too many leaves")
      f = z3.simplify(f)
      ite = _find_ite(f, set())
      if ite is None:
        out.append((list(path), f))
        return
      c, a, b = ite.children()
      if implied(c):
        f = z3.substitute(f, (ite, a))
        continue
      if implied(z3.Not(c)):
        f = z3.substitute(f, (ite, b))
        continue
      s.push()
      s.add(c)
      if s.check() != z3.unsat:
        rec(z3.substitute(f, (ite, a)), path + [c])
      s.pop()
      s.push()
      s.add(z3.Not(c))
      if s.check() != z3.unsat:
        rec(z3.substitute(f, (ite, b)), path + [z3.Not(c)])
      s.pop()
      return

  rec(formula, [])
  return out


_ctr = itertools.count()


def purify_div(f):
  """-> (f', side): every real division by a non-constant replaced by a fresh variable q; side = [(q, num, den)]"""
  cache = {}
  side = []

  def rec(x):
    k = x.get_id()
    if k in cache:
      return cache[k]
    if z3.is_app(x) and x.num_args():
      ch = [rec(c) for c in x.children()]
      if x.decl().kind() == z3.Z3_OP_DIV and not z3.is_rational_value(ch[1]):
        q = z3.Real(f"quot!{next(_ctr)}")
        side.append((q, ch[0], ch[1]))
        r = q
      else:
        r = x.decl()(*ch) if any(a.get_id() != b.get_id() for a, b in zip(ch, x.children())) else x
    else:
      r = x
    cache[k] = r
    return r

  return rec(f), side
