"""Geometry units shared by C20 (contacts are geometrically valid) and C04 (parity with MuJoCo, closed-form part).

Nonlinear real-arithmetic queries over the REAL wp.funcs make_frame / orthogonals (math.py) and plane_sphere, sphere_sphere,
closest_segment_point, sphere_capsule, plane_capsule (collision_primitive_core.py), executed through the thin wrapper
kernels of checks/wrap_c04.py.  z3's nonlinear solver needs help, so every unit is a small proof script:

  * `wp.normalize` is interpreted by its contract (fresh n, l with l >= 0, l*l = |x|^2, l > 0 => n*l = x and n.n = 1,
    l = 0 => n = 0); the redundant conjunct n.n = 1 is itself proved from the others (lemma/normalize) in the unit.
  * lemmas: intermediate facts proved by the solver (from a subset of the background = still valid) and then added to the
    session; a lemma that is not proved is simply not used (never assumed).
  * goals: the property statements.  `unsat` decides.  If z3 answers `unknown`, the same query is retried with the inputs
    pinned to a few rational points: a model found there is a model of the general query (it is replayed on the real
    compiled function); if none is found the goal is reported inconclusive (exit 2) - never as success.
"""

import ast
import itertools
import time

import numpy as np
import z3

from checks import lib
from wsym import core, kh
from wsym.core import And, Implies, Not, Or, Vec, arith, cmp, is_sym, ite

LOC = "checks.wrap_c04:"


# ------------------------------------------------------------------------------------------------ small vector algebra


def dot(u, v):
  return sum(x * y for x, y in zip(u, v))


def cross(u, v):
  return [u[1] * v[2] - u[2] * v[1], u[2] * v[0] - u[0] * v[2], u[0] * v[1] - u[1] * v[0]]


def veq(u, v):
  return z3.And(*[x == y for x, y in zip(u, v)])


def sub(u, v):
  return [x - y for x, y in zip(u, v)]


def add(u, v):
  return [x + y for x, y in zip(u, v)]


def scl(u, s):
  return [x * s for x in u]


def R(x):
  return core.to_z3(x, "real")


def Q(s):
  return z3.RealVal(s)


# ------------------------------------------------------------------------------------------------ interpreter + proof script


class GInterp(core.Interp):
  """Interp whose wp.normalize is the contract described in the module docstring (records the calls)."""

  def __init__(self, *a, abstract_dot=False, abstract_matvec=False, **k):
    super().__init__(*a, **k)
    self.abstract_matvec = abstract_matvec
    self.matvecs = []  # (component expressions, names): names == expressions (definitions), in program order
    self.nctr = itertools.count()
    self.norms = []  # (x components, l, n components)
    self.abstract_dot = abstract_dot
    self.dots = []  # (x, y, name) : name == x . y  (definition)

  def expr(self, fr, e):
    v = super().expr(fr, e)
    if self.abstract_matvec and isinstance(e, ast.BinOp) and isinstance(e.op, ast.MatMult) and isinstance(v, Vec) and len(v.shape) == 1 and any(is_sym(c) for c in v.c):
      k = len(self.matvecs)
      rhs = super().expr(fr, e.right)
      if not hasattr(self, "matvec_args"):
        self.matvec_args = []
      self.matvec_args.append([R(cc) for cc in rhs.c] if isinstance(rhs, Vec) else None)
      names = [z3.Real(f"mv!{k}_{i}") for i in range(len(v.c))]
      exprs = [R(c) for c in v.c]
      self.assumes += [nm == ex for nm, ex in zip(names, exprs)]
      self.matvecs.append((exprs, names))
      return Vec(names, v.shape, v.dt)
    return v

  def builtin(self, fr, key, args, e):
    if key == "dot" and self.abstract_dot and any(is_sym(c) for c in list(args[0].c) + list(args[1].c)):
      x, y = [R(c) for c in args[0].c], [R(c) for c in args[1].c]
      d = z3.Real(f"dot!{len(self.dots)}")
      self.assumes.append(d == dot(x, y))
      self.dots.append((x, y, d))
      return d
    if key == "normalize" and any(is_sym(c) for c in args[0].c):
      x = [R(c) for c in args[0].c]
      k = next(self.nctr)
      l = z3.Real(f"len!{k}")
      n = [z3.Real(f"nrm!{k}_{i}") for i in range(len(x))]
      self.assumes += [
        l >= 0,
        l * l == dot(x, x),
        z3.Implies(l > 0, z3.And(veq(scl(n, l), x), dot(n, n) == 1)),
        z3.Implies(l <= 0, z3.And(*[c == 0 for c in n])),
      ]
      self.norms.append((x, l, n))
      return Vec(n, args[0].shape, args[0].dt)
    return super().builtin(fr, key, args, e)


def lemma_normalize(ctx):
  """the redundant conjunct of the normalize contract follows from the others"""
  x = [z3.Real(f"x{i}") for i in range(3)]
  n = [z3.Real(f"n{i}") for i in range(3)]
  l = z3.Real("l")
  sess = ctx.session([l > 0, l * l == dot(x, x), veq(scl(n, l), x)])
  # (n.n) l^2 = x.x = l^2
  s1 = sess.prove("lemma/normalize/step", dot(n, n) * l * l == l * l)
  ctx._rec(s1)
  if s1.status == "unsat":
    sess.add(dot(n, n) * l * l == l * l)
  res = sess.prove("lemma/normalize", dot(n, n) == 1)
  ctx._rec(res)
  if res.status != "unsat":
    ctx.error(f"lemma/normalize (n.n = 1 for the quotient of a non-zero vector by its length) not proved: {res.status}")


class Proof:
  def __init__(self, ctx, bg, names, replay, prefix="", timeout_ms=None, pins=()):
    self.ctx, self.bg, self.names, self.replay, self.prefix, self.pins = ctx, list(bg), names, replay, prefix, list(pins)
    self.timeout_ms = timeout_ms or (15000 if ctx.tier == "quick" else 60000)
    self.full = ctx.session(self.bg, timeout_ms=self.timeout_ms)
    self.unproved = []
    self.facts = {}  # lemma name -> formula (proved)

  def assume(self, *facts):
    self.bg += list(facts)
    self.full.add(*facts)

  def name(self, label, expr):
    """fresh name for an expression (definition): lets later steps treat a polynomial as one scalar"""
    v = z3.Real(f"{self.prefix}{label}".replace("/", "_"))
    d = v == expr
    self.assume(d)
    self.facts["def:" + label] = d
    return v

  def _using(self, using):
    out = []
    for u in using:
      if isinstance(u, str):
        if u in self.facts:
          out.append(self.facts[u])
      else:
        out.append(u)
    return out

  def lemma(self, name, goal, using=None):
    """try to prove `goal`; if proved add it to the session.  using: facts (background members / names of earlier lemmas)
    that suffice - proving from a subset of true facts is sound and much faster"""
    short = name
    name = self.prefix + "lemma/" + name
    res = None
    broken = (using is None and len(self.unproved) >= 3) or (using is not None and any(isinstance(u, str) and u not in self.facts for u in using))
    if broken:
      # the proof script no longer matches the code (earlier steps failed): do not burn solver time, leave it to the goals
      self.unproved.append(name)
      self.ctx.log(f"lemma {name}: skipped (depends on unproved steps)")
      return False
    if using is not None:
      for tactic in ("qfnra-nlsat", None):
        small = kh.Session(self._using(using), timeout_ms=min(self.timeout_ms, 5000), tactic=tactic)
        res = small.prove(name, goal)
        if res.status == "unsat":
          break
    if res is None or res.status != "unsat":
      res = self.full.prove(name, goal)
    self.ctx.log(f"lemma {name}: {res.status} {res.secs:.2f}s")
    if res.status == "unsat":
      self.ctx._rec(res)
      self.full.add(goal)
      self.facts[short] = goal
      return True
    res.status = "unproved-lemma:" + res.status
    res.kind = "lemma"
    self.ctx._rec(res)
    self.unproved.append(name)
    return False

  def _decide(self, name, goal, guard, using):
    """-> ("unsat", None) | ("sat", [guards under which the full session has a model, pinned ones first]) | ("unknown", None)"""
    if using is not None and not any(isinstance(u, str) and u not in self.facts for u in using):
      for tactic in ("qfnra-nlsat", None):
        small = kh.Session(self._using(using), timeout_ms=min(self.timeout_ms, 5000), tactic=tactic)
        r, dt, m = small._check([guard, core.Not(goal)])
        self.ctx.log(f"goal {name} (from listed facts, {tactic or 'default'}): {r} {dt:.2f}s")
        if r == "unsat":
          self.ctx._rec(kh.QResult(name, "unsat", dt))
          return "unsat", None
    # concrete candidates first: with every input pinned, value propagation + equation solving decides the query at once
    cands = []
    for i, pin in enumerate(self.pins):
      ps = z3.Then("simplify", "propagate-values", "solve-eqs", "simplify", "smt").solver()
      ps.set("timeout", 3000)
      for f in self.full.s.assertions():
        ps.add(f)
      ps.add(core.zbool(guard), pin, core.zbool(core.Not(goal)))
      if str(ps.check()) == "sat":
        cands.append((z3.And(core.zbool(guard), pin), ps.model()))
        if len(cands) >= 3:
          break
    if cands:
      self.ctx.log(f"goal {name}: counterexample at {len(cands)} pinned input(s)")
      return "sat", cands
    if self.ctx.violations:
      # the unit already has a reproduced violation: do not spend the budget on further open goals
      self.ctx.notes.append(f"{name}: not decided (unit already has a reproduced violation)")
      return "skipped", None
    if self.unproved:
      self.full.s.set("timeout", 5000)
    r, dt, m = self.full._check([guard, core.Not(goal)])
    self.full.s.set("timeout", self.timeout_ms)
    self.ctx.log(f"goal {name}: {r} {dt:.2f}s")
    if r == "unsat":
      self.ctx._rec(kh.QResult(name, "unsat", dt))
      return "unsat", None
    if r == "sat":
      cands.append((guard, m))
    return ("sat", cands) if cands else ("unknown", None)

  def _report_sat(self, name, goal, cands, names, desc):
    """hand the counterexample to ctx.prove (known-finding matching, replay, bookkeeping) with the model already found;
    the replay tries the models of all candidates (pinned inputs give well-conditioned float32 replays) until one
    reproduces"""
    full = self.full

    class Canned:
      def prove(self_, qname, qgoal, qguard=True):
        if qname == name:
          return kh.QResult(qname, "sat", 0.0, cands[0][1])
        return full.prove(qname, qgoal, qguard)

    def multi(model):
      last = (False, "no model")
      for g, m in cands:
        last = self.replay(m)
        if last[0]:
          return last
      return last

    self.ctx.prove(Canned(), name, goal, cands[0][0], names=names, replay=multi, desc=desc)

  def _inconclusive(self, name, t0):
    self.ctx._rec(kh.QResult(name, "unknown", time.time() - t0))
    self.ctx.error(f"query {self.ctx.unit}:{name} inconclusive: unknown after {time.time() - t0:.1f}s (no model at the pinned inputs either); unproved lemmas: {self.unproved}")
    return False

  def goal(self, name, goal, guard=True, desc=None, extra_names=None, using=None):
    from wsym import report

    name = self.prefix + name
    names = dict(self.names, **(extra_names or {}))
    t0 = time.time()
    key = f"{self.ctx.unit}:{name}"
    kf = next((k for k in self.ctx.known if k["when"] and report._key_match(k["key"], key)), None)
    if kf is not None:
      # listed finding with a when-clause: everything outside the clause must still be proved (in general, not at a pin)
      try:
        w = eval(kf["when"], {"z3": z3, "And": z3.And, "Or": z3.Or, "Not": z3.Not}, dict(names))
      except Exception as ex:
        self.ctx.error(f"known-finding when-clause for {key} failed to evaluate: {ex}")
        return False
      st, g = self._decide(name + "#outside-known", goal, z3.And(core.zbool(guard), z3.Not(w)), using)
      if st == "skipped":
        return False
      if st == "unknown":
        return self._inconclusive(name + "#outside-known", t0)
      if st == "unsat":
        st_in, g_in = self._decide(name, goal, z3.And(core.zbool(guard), w), using)
        if st_in == "skipped":
          return False
        if st_in == "unknown":
          return self._inconclusive(name, t0)
        if st_in == "sat":
          q = self.ctx._rec(kh.QResult(name, "sat", time.time() - t0))
          q["known"] = True
          hit = f"KNOWN-FINDING: property={self.ctx.pid} {kf['key']} when [{kf['when']}] :: {kf['desc']}"
          if hit not in self.ctx.known_hits:
            self.ctx.known_hits.append(hit)
          return False
        return True
      self._report_sat(name, goal, g, names, desc)
      return False
    st, g = self._decide(name, goal, guard, using)
    if st == "unsat":
      return True
    if st == "skipped":
      return False
    if st == "sat":
      self._report_sat(name, goal, g, names, desc)
      return False
    return self._inconclusive(name, t0)


def pin_vec(v, vals):
  return z3.And(*[x == Q(str(y)) for x, y in zip(v, vals)])


def run_wrapper(name, shapes, interp=None, divmode="native", summaries=None):
  from checks import wrap_c04

  core.DIVMODE[0] = divmode
  gi = interp or GInterp(summaries=summaries)
  kt = lib.kernel_thread(getattr(wrap_c04, name), shapes=shapes, interp_kw={"interp": gi})
  core.DIVMODE[0] = "native"
  return kt, gi


def vec_arg(kt, label):
  return [R(c) for c in kt.args[label].c]


def out_vec(kt, label, i, n):
  return [R(kt.post(label, i, k=c)) for c in range(n)]


# ------------------------------------------------------------------------------------------------ replay goal functions


def _argv(spec, label):
  a = spec["args"][label]
  return np.array(a["vec"], dtype=np.float64) if "vec" in a else float(a["scalar"])


def _f32(x):
  return np.asarray(x, dtype=np.float32).astype(np.float64)


TOL = 2e-3


def _frame_report(F, what):
  F = np.asarray(F, dtype=np.float64).reshape(3, 3)
  G = F @ F.T
  msgs = []
  if np.abs(G - np.eye(3)).max() > TOL:
    msgs.append(f"{what} is not orthonormal: F F^T = {np.round(G, 4).tolist()}")
  elif np.abs(np.cross(F[0], F[1]) - F[2]).max() > TOL:
    msgs.append(f"{what} is not right-handed: z = {F[2].tolist()} but x cross y = {np.cross(F[0], F[1]).tolist()}")
  return msgs


def goal_make_frame(spec, pre, post):
  a = _f32(_argv(spec, "a"))
  F = post["frame_out"][0].astype(np.float64)
  msgs = _frame_report(F, f"make_frame({a.tolist()})")
  na = np.linalg.norm(a)
  if na > 0 and np.abs(F[0] - a / na).max() > TOL:
    msgs.append(f"first axis {F[0].tolist()} is not the normalised input {(a / na).tolist()}")
  return (not msgs), "; ".join(msgs) or f"make_frame({a.tolist()}) = {F.tolist()} ok"


def goal_plane_sphere(spec, pre, post):
  n, p, c, r = _f32(_argv(spec, "plane_normal")), _f32(_argv(spec, "plane_pos")), _f32(_argv(spec, "sphere_pos")), float(_f32(_argv(spec, "sphere_radius")))
  dist, pos = float(post["dist_out"][0]), post["pos_out"][0].astype(np.float64)
  wd = float(np.dot(c - p, n) - r)
  wp_ = c - n * (r + 0.5 * wd)
  scale = 1 + abs(wd) + np.abs(c).max() + np.abs(p).max() + abs(r)
  msgs = []
  if abs(dist - wd) > TOL * scale:
    msgs.append(f"dist {dist} but signed distance sphere surface - plane is {wd}")
  if np.abs(pos - wp_).max() > TOL * scale:
    msgs.append(f"pos {pos.tolist()} but the point midway between the surfaces is {wp_.tolist()}")
  return (not msgs), "plane_sphere: " + ("; ".join(msgs) or "ok")


def _sphere_pair_report(p1, r1, p2, r2, dist, pos, n, what):
  d = p2 - p1
  L = np.linalg.norm(d)
  scale = 1 + L + abs(r1) + abs(r2) + np.abs(p1).max()
  msgs = []
  if abs(np.dot(n, n) - 1) > TOL:
    msgs.append(f"normal {n.tolist()} is not unit")
  if L > 1e-6 * scale and np.abs(n - d / L).max() > TOL:
    msgs.append(f"normal {n.tolist()} does not point from the first to the second centre ({(d / L).tolist()})")
  if abs(dist - (L - r1 - r2)) > TOL * scale:
    msgs.append(f"dist {dist} but separation is {L - r1 - r2}")
  mid = 0.5 * ((p1 + n * r1) + (p2 - n * r2))
  if np.abs(pos - mid).max() > TOL * scale:
    msgs.append(f"pos {pos.tolist()} but midway point is {mid.tolist()}")
  return [what + ": " + m for m in msgs]


def goal_sphere_sphere(spec, pre, post):
  p1, r1, p2, r2 = _f32(_argv(spec, "pos1")), float(_f32(_argv(spec, "radius1"))), _f32(_argv(spec, "pos2")), float(_f32(_argv(spec, "radius2")))
  msgs = _sphere_pair_report(p1, r1, p2, r2, float(post["dist_out"][0]), post["pos_out"][0].astype(np.float64), post["normal_out"][0].astype(np.float64), "sphere_sphere")
  return (not msgs), "; ".join(msgs) or "sphere_sphere ok"


def _closest_exact(a, b, pt):
  ab = b - a
  den = float(np.dot(ab, ab))
  t = 0.0 if den == 0 else min(1.0, max(0.0, float(np.dot(pt - a, ab)) / den))
  return a + t * ab, t


def goal_closest(spec, pre, post):
  a, b, pt = _f32(_argv(spec, "a")), _f32(_argv(spec, "b")), _f32(_argv(spec, "pt"))
  x = post["out"][0].astype(np.float64)
  ab = b - a
  L2 = float(np.dot(ab, ab))
  scale = 1 + np.abs(a).max() + np.abs(b).max() + np.abs(pt).max()
  msgs = []
  # on the segment: x = a + t ab, 0 <= t <= 1
  t = float(np.dot(x - a, ab)) / L2 if L2 > 0 else 0.0
  if np.abs(a + t * ab - x).max() > TOL * scale or t < -TOL or t > 1 + TOL:
    msgs.append(f"returned point {x.tolist()} is not on the segment (t = {t})")
  rho = float(np.dot(pt - x, ab))
  bound = 1e-6 + TOL * 1e-3 * scale * scale
  if (t > TOL and rho < -bound) or (t < 1 - TOL and rho > bound):
    msgs.append(f"returned point {x.tolist()} (t = {t}) is not the closest point of the segment: (pt - x).ab = {rho}")
  return (not msgs), "closest_segment_point: " + ("; ".join(msgs) or "ok")


def goal_sphere_capsule(spec, pre, post):
  c, rs = _f32(_argv(spec, "sphere_pos")), float(_f32(_argv(spec, "sphere_radius")))
  cp, ax, rc, hl = _f32(_argv(spec, "capsule_pos")), _f32(_argv(spec, "capsule_axis")), float(_f32(_argv(spec, "capsule_radius"))), float(_f32(_argv(spec, "capsule_half_length")))
  x, _ = _closest_exact(cp - ax * hl, cp + ax * hl, c)
  msgs = _sphere_pair_report(c, rs, x, rc, float(post["dist_out"][0]), post["pos_out"][0].astype(np.float64), post["normal_out"][0].astype(np.float64), "sphere_capsule (capsule = sphere at the closest segment point)")
  return (not msgs), "; ".join(msgs) or "sphere_capsule ok"


def goal_plane_capsule(spec, pre, post):
  n, p = _f32(_argv(spec, "plane_normal")), _f32(_argv(spec, "plane_pos"))
  cp, ax, rc, hl = _f32(_argv(spec, "capsule_pos")), _f32(_argv(spec, "capsule_axis")), float(_f32(_argv(spec, "capsule_radius"))), float(_f32(_argv(spec, "capsule_half_length")))
  F = post["frame_out"][0].astype(np.float64)
  msgs = _frame_report(F, "plane_capsule contact frame")
  if np.abs(F[0] - n).max() > TOL:
    msgs.append(f"first axis {F[0].tolist()} is not the plane normal {n.tolist()}")
  proj = ax - n * np.dot(n, ax)
  if np.linalg.norm(proj) >= 0.5 and np.abs(F[1] - proj / np.linalg.norm(proj)).max() > TOL:
    msgs.append(f"second axis {F[1].tolist()} is not the capsule axis projected on the plane {(proj / np.linalg.norm(proj)).tolist()}")
  scale = 1 + np.abs(cp).max() + np.abs(p).max() + abs(hl) + abs(rc)
  for i, sgn in enumerate((1.0, -1.0)):
    e = cp + sgn * ax * hl
    wd = float(np.dot(e - p, n) - rc)
    wpos = e - n * (rc + 0.5 * wd)
    if abs(float(post["dist_out"][0][i]) - wd) > TOL * scale:
      msgs.append(f"dist[{i}] {float(post['dist_out'][0][i])} but end-cap separation is {wd}")
    if np.abs(post["pos_out"][i].astype(np.float64) - wpos).max() > TOL * scale:
      msgs.append(f"pos[{i}] {post['pos_out'][i].tolist()} but midway point is {wpos.tolist()}")
  return (not msgs), "plane_capsule: " + ("; ".join(msgs) or "ok")


# ------------------------------------------------------------------------------------------------ validation of the statements on mujoco


def validate_geometry(seed, n=40):
  """the geometric statements proved below hold for the contacts MuJoCo itself reports (so they do not over-demand)"""
  import mujoco

  rng = np.random.default_rng(seed + 7)
  bad = []
  ncap = [0]
  nreg = {}
  nbox = {}

  def contacts(xml):
    m = mujoco.MjModel.from_xml_string(xml)
    d = mujoco.MjData(m)
    mujoco.mj_kinematics(m, d)
    mujoco.mj_collision(m, d)
    return m, d

  def rq():
    q = rng.normal(size=4)
    return " ".join(str(x) for x in q / np.linalg.norm(q))

  for _ in range(n):
    r1, r2, hl = rng.uniform(0.05, 0.3, 3)
    p2 = rng.uniform(-0.25, 0.25, 3)
    # sphere - sphere
    m, d = contacts(f'<mujoco><worldbody><geom size="{r1}" margin="1"/><body pos="{p2[0]} {p2[1]} {p2[2]}"><freejoint/><geom size="{r2}"/></body></worldbody></mujoco>')
    for c in d.contact:
      bad += _sphere_pair_report(np.zeros(3), r1, p2, r2, c.dist, c.pos, c.frame[:3], "mujoco sphere-sphere")
      bad += _frame_report(c.frame, "mujoco sphere-sphere frame")
    # sphere - capsule
    m, d = contacts(f'<mujoco><worldbody><geom type="capsule" size="{r1} {hl}" quat="{rq()}" margin="1"/><body pos="{p2[0]} {p2[1]} {p2[2]}"><freejoint/><geom size="{r2}"/></body></worldbody></mujoco>')
    for c in d.contact:
      ax = d.geom_xmat[0].reshape(3, 3)[:, 2]
      x, _ = _closest_exact(-ax * hl, ax * hl, p2)
      bad += _sphere_pair_report(p2, r2, x, r1, c.dist, c.pos, c.frame[:3], "mujoco sphere-capsule")
    # capsule - capsule (generic pose: single contact at the closest points of the two axis segments; both end caps occur)
    hl2 = rng.uniform(0.02, 0.6)
    m, d = contacts(f'<mujoco><worldbody><geom type="capsule" size="{r1} {hl}" quat="{rq()}" margin="2"/><body pos="{p2[0]} {p2[1]} {p2[2]}" quat="{rq()}"><freejoint/><geom type="capsule" size="{r2} {hl2}"/></body></worldbody></mujoco>')
    if d.ncon == 1:
      c = d.contact[0]
      a1v, a2v = d.geom_xmat[0].reshape(3, 3)[:, 2] * hl, d.geom_xmat[1].reshape(3, 3)[:, 2] * hl2
      dd, t1, t2 = seg_closest_np(d.geom_xpos[0], a1v, d.geom_xpos[1], a2v)
      ncap[0] += int(abs(t1) == 1) + int(abs(t2) == 1)
      bad += _sphere_pair_report(d.geom_xpos[0] + t1 * a1v, r1, d.geom_xpos[1] + t2 * a2v, r2, c.dist, c.pos, c.frame[:3], "mujoco capsule-capsule")
    # sphere - cylinder: closed-form reference (all regimes occur: the sphere centre is drawn around and inside the cylinder)
    for _k in range(3):
      pc = rng.uniform(-0.45, 0.45, 3)
      m, d = contacts(f'<mujoco><worldbody><geom type="cylinder" size="{r1} {hl}" quat="{rq()}" margin="2"/><body pos="{pc[0]} {pc[1]} {pc[2]}"><freejoint/><geom size="{r2}"/></body></worldbody></mujoco>')
      reg, wd, wn, wpos = cyl_reference(d.geom_xpos[1], r2, d.geom_xpos[0], d.geom_xmat[0].reshape(3, 3)[:, 2], r1, hl)
      nreg[reg + ("+" if (d.geom_xpos[1] - d.geom_xpos[0]) @ d.geom_xmat[0].reshape(3, 3)[:, 2] > 0 else "-")] = 1
      if d.ncon != 1:
        bad.append(f"mujoco sphere-cylinder: {d.ncon} contacts")
        continue
      cc = d.contact[0]
      if abs(cc.dist - wd) > 1e-6 or np.abs(cc.frame[:3] - wn).max() > 1e-5 or np.abs(cc.pos - wpos).max() > 1e-6:
        bad.append(f"mujoco sphere-cylinder ({reg}) contact dist {cc.dist} n {cc.frame[:3].tolist()} differs from the closed-form reference dist {wd} n {wn.tolist()}")
    # sphere - box: closed-form reference (centre outside near faces / edges / corners, and inside)
    for _k in range(3):
      bsz = rng.uniform(0.05, 0.3, 3)
      pc = rng.uniform(-0.4, 0.4, 3) * (0.4 if _k == 2 else 1.0)
      m, d = contacts(f'<mujoco><worldbody><geom type="box" size="{bsz[0]} {bsz[1]} {bsz[2]}" quat="{rq()}" margin="2"/><body pos="{pc[0]} {pc[1]} {pc[2]}"><freejoint/><geom size="{r2}"/></body></worldbody></mujoco>')
      reg, wd, wn, wpos = box_reference(d.geom_xpos[1], r2, d.geom_xpos[0], d.geom_xmat[0].reshape(3, 3), bsz)
      nbox[reg] = 1
      if d.ncon != 1:
        bad.append(f"mujoco sphere-box: {d.ncon} contacts")
        continue
      cc = d.contact[0]
      if abs(cc.dist - wd) > 1e-6 or np.abs(cc.frame[:3] - wn).max() > 1e-5 or np.abs(cc.pos - wpos).max() > 1e-6:
        bad.append(f"mujoco sphere-box ({reg}) contact dist {cc.dist} n {cc.frame[:3].tolist()} differs from the closed-form reference dist {wd} n {wn.tolist()}")
    # plane - ellipsoid: closed-form support point
    es = rng.uniform(0.05, 0.3, 3)
    m, d = contacts(f'<mujoco><worldbody><geom type="plane" size="5 5 .1" quat="{rq()}" margin="2"/><body pos="{p2[0]} {p2[1]} {p2[2]}" quat="{rq()}"><freejoint/><geom type="ellipsoid" size="{es[0]} {es[1]} {es[2]}"/></body></worldbody></mujoco>')
    if d.ncon == 1:
      wd, wpos = ellipsoid_reference(d.geom_xmat[0].reshape(3, 3)[:, 2], d.geom_xpos[0], d.geom_xpos[1], d.geom_xmat[1].reshape(3, 3), es)
      cc = d.contact[0]
      if abs(cc.dist - wd) > 1e-6 or np.abs(cc.pos - wpos).max() > 1e-6:
        bad.append(f"mujoco plane-ellipsoid contact dist {cc.dist} pos {cc.pos.tolist()} differs from the closed-form reference {wd} {wpos.tolist()}")
    else:
      bad.append(f"mujoco plane-ellipsoid: {d.ncon} contacts")
    # plane - cylinder (generic tilt, and standing upright on the tilted plane = the degenerate branch)
    for upright in (False, True):
      pq_ = rq()
      cq_ = pq_ if upright else rq()
      m0, d0 = contacts(f'<mujoco><worldbody><geom type="plane" size="5 5 .1" quat="{pq_}"/></worldbody></mujoco>')
      nn_ = d0.geom_xmat[0].reshape(3, 3)[:, 2]
      cc_ = nn_ * (hl * 0.9 if upright else 0.05) + (0 if upright else 1) * rng.uniform(-0.05, 0.05, 3)
      m, d = contacts(f'<mujoco><worldbody><geom type="plane" size="5 5 .1" quat="{pq_}" margin="1"/><body pos="{cc_[0]} {cc_[1]} {cc_[2]}" quat="{cq_}"><freejoint/><geom type="cylinder" size="{r1} {hl}"/></body></worldbody></mujoco>')
      if d.ncon:
        bad += plane_cylinder_report(nn_, d.geom_xpos[0], d.geom_xpos[1], d.geom_xmat[1].reshape(3, 3)[:, 2], r1, hl, [float(x.dist) for x in d.contact], [np.array(x.pos) for x in d.contact], "mujoco plane-cylinder" + (" (upright)" if upright else ""))
      else:
        bad.append("mujoco plane-cylinder: no contact in the validation scene")
    # plane - box: every MuJoCo contact is one of the 8 corner candidates
    bs = rng.uniform(0.05, 0.3, 3)
    m, d = contacts(f'<mujoco><worldbody><geom type="plane" size="5 5 .1" quat="{rq()}" margin="1"/><body pos="{p2[0]} {p2[1]} {p2[2]}" quat="{rq()}"><freejoint/><geom type="box" size="{bs[0]} {bs[1]} {bs[2]}"/></body></worldbody></mujoco>')
    nb, Rb = d.geom_xmat[0].reshape(3, 3)[:, 2], d.geom_xmat[1].reshape(3, 3)
    for c in d.contact:
      okc = False
      for i in range(8):
        corner = d.geom_xpos[1] + Rb @ np.array([bs[0] if i & 1 else -bs[0], bs[1] if i & 2 else -bs[1], bs[2] if i & 4 else -bs[2]])
        wd = float(np.dot(corner - d.geom_xpos[0], nb))
        okc |= abs(c.dist - wd) < 1e-6 and np.abs(c.pos - (corner - 0.5 * nb * wd)).max() < 1e-6
      if not okc or np.abs(c.frame[:3] - nb).max() > 1e-6:
        bad.append(f"mujoco plane-box contact (dist {c.dist}) is not a box-corner contact")
    # plane - sphere / plane - capsule on a tilted plane
    pq = rq()
    m, d = contacts(f'<mujoco><worldbody><geom type="plane" size="5 5 .1" quat="{pq}" margin="1"/><body pos="{p2[0]} {p2[1]} {p2[2]}"><freejoint/><geom size="{r2}"/></body></worldbody></mujoco>')
    for c in d.contact:
      nrm = d.geom_xmat[0].reshape(3, 3)[:, 2]
      wd = float(np.dot(p2, nrm) - r2)
      if abs(c.dist - wd) > 1e-6 or np.abs(c.pos - (p2 - nrm * (r2 + 0.5 * wd))).max() > 1e-6 or np.abs(c.frame[:3] - nrm).max() > 1e-6:
        bad.append(f"mujoco plane-sphere contact differs from the closed form: dist {c.dist} vs {wd}")
      bad += _frame_report(c.frame, "mujoco plane-sphere frame")
    m, d = contacts(f'<mujoco><worldbody><geom type="plane" size="5 5 .1" quat="{pq}" margin="1"/><body pos="{p2[0]} {p2[1]} {p2[2]}" quat="{rq()}"><freejoint/><geom type="capsule" size="{r2} {hl}"/></body></worldbody></mujoco>')
    nrm = d.geom_xmat[0].reshape(3, 3)[:, 2]
    ax = d.geom_xmat[1].reshape(3, 3)[:, 2]
    ends = [p2 + ax * hl, p2 - ax * hl]
    for c in d.contact:
      bad += _frame_report(c.frame, "mujoco plane-capsule frame")
      wds = [float(np.dot(e, nrm) - r2) for e in ends]
      k = int(np.argmin([abs(c.dist - w) for w in wds]))
      if abs(c.dist - wds[k]) > 1e-6 or np.abs(c.pos - (ends[k] - nrm * (r2 + 0.5 * wds[k]))).max() > 1e-6:
        bad.append(f"mujoco plane-capsule contact differs from the closed form: dist {c.dist} vs {wds}")
      proj = ax - nrm * np.dot(nrm, ax)
      if np.linalg.norm(proj) > 1e-3 and np.abs(np.cross(c.frame[3:6], proj)).max() > 1e-5:
        bad.append("mujoco plane-capsule second frame axis is not along the projected capsule axis")
  if n >= 40 and len(nbox) < 2:
    bad.append(f"sphere-box validation only hit regimes {sorted(nbox)}")
  if n >= 40 and len(nreg) < 6:
    bad.append(f"sphere-cylinder validation only hit regimes {sorted(nreg)}")
  if n >= 20 and ncap[0] == 0:
    bad.append("capsule-capsule validation never hit an end-cap case")
  return bad


# ------------------------------------------------------------------------------------------------ units

PIN3 = [(1, 2, 2), (2, -1, 2), (0, 3, 4), (0, 0, -1), (3, 4, 0), (-2, 6, 3), (0, 1, 0), (6, -2, 3)]


def unit_make_frame(ctx):
  from mujoco_warp._src import math as mjmath

  ctx.encode(mjmath.make_frame, mjmath.orthogonals)
  ctx.bound(note="no loops; input vector symbolic (any non-zero real vector)")
  ctx.assume("input normal is not the zero vector", "floats are reals; sqrt / normalize by their defining equations")
  lemma_normalize(ctx)
  kt, gi = run_wrapper("k_make_frame", {"frame_out": [1]})
  a = vec_arg(kt, "a")
  F = out_vec(kt, "frame_out", 0, 9)
  x, y, z = F[0:3], F[3:6], F[6:9]
  nz = z3.Or(*[c != 0 for c in a])
  rp = lib.make_replay(ctx, kt, LOC + "k_make_frame", "make_frame", "goal", goal="checks.geom_c20:goal_make_frame")
  names = {"a0": a[0], "a1": a[1], "a2": a[2]}
  pins = [pin_vec(a, p) for p in PIN3]
  sess = ctx.session(kt.bg + [nz])
  ctx.reach(sess, "twin:nonzero-input", pins[0])
  cases = [("Y", None), ("Z", None)]
  have = len(gi.norms) == 2
  for case, _ in cases:
    if have:
      (x0, l0, n0), (x1, l1, n1) = gi.norms
      iny = z3.And(n0[1] > Q("-1/2"), n0[1] < Q("1/2"))
      cc = iny if case == "Y" else z3.Not(iny)
      e = n0[1] if case == "Y" else n0[2]
    else:
      cc = (a[1] * a[1] * 3 < a[0] * a[0] + a[2] * a[2]) if case == "Y" else z3.Not(a[1] * a[1] * 3 < a[0] * a[0] + a[2] * a[2])
    P = Proof(ctx, kt.bg + [nz, cc], names, rp, prefix=f"{case}/", pins=pins)
    ctx.reach(P.full, f"twin:case-{case}", pins[0] if case == "Z" else pins[3])
    if have:
      P.lemma("len0>0", l0 > 0)
      P.lemma("x.x=1", dot(n0, n0) == 1)
      P.lemma("e^2<1", e * e < 1)
      P.lemma("|y1|^2", l1 * l1 == 1 - e * e)
      P.lemma("len1>0", l1 > 0)
      P.lemma("x.y1=0", dot(n0, x1) == 0)
      P.lemma("y*len1=y1", veq(scl(n1, l1), x1))
      P.lemma("x.y*len1=0", dot(n0, n1) * l1 == 0, using=["y*len1=y1", "x.y1=0"])
      P.lemma("x.y=0", dot(n0, n1) == 0)
      P.lemma("y.y=1", dot(n1, n1) == 1)
      P.lemma("y-is-n1", veq(y, n1))
      P.lemma("x-is-n0", veq(x, n0))
      P.lemma("z-is-n0xn1", veq(z, cross(n0, n1)))
      P.lemma("lagrange", dot(cross(n0, n1), cross(n0, n1)) == dot(n0, n0) * dot(n1, n1) - dot(n0, n1) * dot(n0, n1), using=[])
      P.lemma("|n0xn1|=1", dot(cross(n0, n1), cross(n0, n1)) == 1, using=["x.x=1", "y.y=1", "x.y=0"])
      P.lemma("z.z=|n0xn1|^2", dot(z, z) == dot(cross(n0, n1), cross(n0, n1)), using=["z-is-n0xn1"])
      P.lemma("x-cross-a", veq(cross(n0, a), [0, 0, 0]), using=[veq(scl(n0, l0), a)])
      P.lemma("x.a", dot(n0, a) == l0 * dot(n0, n0), using=[veq(scl(n0, l0), a)])
    P.goal("frame/x-unit", dot(x, x) == 1, desc="make_frame: first axis is not a unit vector")
    P.goal("frame/x-along-input", z3.And(veq(cross(x, a), [0, 0, 0]), dot(x, a) > 0), using=["x-is-n0", "x-cross-a", "x.a", "len0>0", "x.x=1"], desc="make_frame: first axis is not the direction of the given normal")
    P.goal("frame/y-unit", dot(y, y) == 1, desc="make_frame: second axis is not a unit vector")
    P.goal("frame/x-perp-y", dot(x, y) == 0, desc="make_frame: second axis is not orthogonal to the normal")
    P.goal("frame/right-handed", veq(z, cross(x, y)), desc="make_frame: third axis is not x cross y")
    P.goal("frame/z-unit", dot(z, z) == 1, using=["z.z=|n0xn1|^2", "|n0xn1|=1"], desc="make_frame: third axis is not a unit vector")
    P.goal("frame/z-perp", z3.And(dot(x, z) == 0, dot(y, z) == 0), using=["z-is-n0xn1", "x-is-n0", "y-is-n1"], desc="make_frame: third axis is not orthogonal to the others")


def unit_plane_sphere(ctx):
  from mujoco_warp._src import collision_primitive_core as cpc

  ctx.encode(cpc.plane_sphere)
  ctx.bound(note="no loops; all inputs symbolic")
  ctx.assume("plane normal is a unit vector (third column of a rotation matrix)", "floats are reals")
  kt, gi = run_wrapper("k_plane_sphere", {"dist_out": [1], "pos_out": [1]})
  n, p, c, r = vec_arg(kt, "plane_normal"), vec_arg(kt, "plane_pos"), vec_arg(kt, "sphere_pos"), R(kt.args["sphere_radius"])
  dist, pos = R(kt.post("dist_out", 0)), out_vec(kt, "pos_out", 0, 3)
  rp = lib.make_replay(ctx, kt, LOC + "k_plane_sphere", "plane_sphere", "goal", goal="checks.geom_c20:goal_plane_sphere")
  pins = [z3.And(pin_vec(n, nn), pin_vec(p, (0, 0, 0)), pin_vec(c, cc), r == Q(rr)) for nn, cc, rr in [((0, 0, 1), (1, 2, "1/2"), "1"), (("3/5", 0, "4/5"), (1, -1, 2), "1/4"), ((0, 1, 0), (0, "1/10", 3), "1/5")]]
  P = Proof(ctx, kt.bg + [dot(n, n) == 1], {"radius": r, "dist": dist}, rp, pins=pins)
  ctx.reach(P.full, "twin:unit-normal", True)
  P.goal("dist/signed-distance", dist == dot(sub(c, p), n) - r, desc="plane_sphere: dist is not the signed distance between the sphere surface and the plane")
  s = sub(c, scl(n, r))  # sphere surface point nearest to the plane
  q = sub(s, scl(n, dist))  # its foot point
  P.lemma("foot-on-plane-expand", dot(sub(q, p), n) == dot(sub(c, p), n) - (r + dist) * dot(n, n), using=[])
  P.goal("pos/foot-point-on-plane", dot(sub(q, p), n) == 0, desc="plane_sphere: the point at distance dist below the sphere along the normal is not on the plane")
  P.goal("pos/midway", veq(scl(pos, 2), add(s, q)), desc="plane_sphere: pos is not midway between the sphere surface and the plane")


def _sphere_pair_goals(P, p1, r1, p2, r2, dist, pos, n, what):
  d = sub(p2, p1)
  L = dist + r1 + r2
  nzc = z3.Or(*[c != 0 for c in d])
  P.lemma("L>=0", L >= 0)
  P.lemma("L^2", L * L == dot(d, d))
  P.lemma("L>0", z3.Implies(nzc, L > 0))
  P.lemma("nL=d", z3.Implies(nzc, veq(scl(n, L), d)))
  P.lemma("n.n*L^2", z3.Implies(nzc, dot(n, n) * L * L == L * L))
  P.lemma("n.n=1", z3.Implies(nzc, dot(n, n) == 1))
  P.lemma("nL=d-always", veq(scl(n, L), d), using=["nL=d", "L^2", "L>=0"])
  P.goal("normal/unit", dot(n, n) == 1, desc=f"{what}: normal is not a unit vector")
  P.goal("normal/times-distance", veq(scl(n, L), d), using=["nL=d-always"], desc=f"{what}: normal times centre distance is not the vector from the first centre to the second")
  P.goal("normal/from-1-to-2", z3.And(veq(cross(n, d), [0, 0, 0]), dot(n, d) > 0), nzc, desc=f"{what}: normal does not point from the first geom's centre to the second's")
  P.goal("dist/separation", z3.And(L >= 0, L * L == dot(d, d)), desc=f"{what}: dist + r1 + r2 is not the distance between the centres")
  P.goal("pos/midway", veq(scl(pos, 2), add(add(p1, scl(n, r1)), sub(p2, scl(n, r2)))), desc=f"{what}: pos is not midway between the two surface points along the normal")


def unit_sphere_sphere(ctx):
  from mujoco_warp._src import collision_primitive_core as cpc

  ctx.encode(cpc.sphere_sphere)
  ctx.bound(note="no loops; all inputs symbolic (incl. coincident centres)")
  ctx.assume("floats are reals; length / division by their defining equations")
  kt, gi = run_wrapper("k_sphere_sphere", {"dist_out": [1], "pos_out": [1], "normal_out": [1]}, divmode="poly")
  p1, r1, p2, r2 = vec_arg(kt, "pos1"), R(kt.args["radius1"]), vec_arg(kt, "pos2"), R(kt.args["radius2"])
  dist, pos, n = R(kt.post("dist_out", 0)), out_vec(kt, "pos_out", 0, 3), out_vec(kt, "normal_out", 0, 3)
  rp = lib.make_replay(ctx, kt, LOC + "k_sphere_sphere", "sphere_sphere", "goal", goal="checks.geom_c20:goal_sphere_sphere")
  pins = [z3.And(pin_vec(p1, a), pin_vec(p2, b), r1 == Q(x), r2 == Q(y)) for a, b, x, y in [((0, 0, 0), (1, 2, 2), "1", "3/2"), ((1, 1, 1), (1, 4, 5), "2", "1/2"), ((0, 0, 0), (0, 0, 0), "1", "1/2"), ((2, 0, -1), (-4, 3, 1), "1/4", "1/3")]]
  P = Proof(ctx, kt.bg, {"r1": r1, "r2": r2, "dist": dist}, rp, pins=pins)
  ctx.reach(P.full, "twin:distinct-centres", z3.Or(*[c != 0 for c in sub(p2, p1)]))
  _sphere_pair_goals(P, p1, r1, p2, r2, dist, pos, n, "sphere_sphere")
  P.goal("normal/coincident-centres", veq(n, [1, 0, 0]), z3.And(*[c == 0 for c in sub(p2, p1)]), desc="sphere_sphere: coincident centres do not give MuJoCo's default normal (1,0,0)")


EPS = "1/1000000"


def unit_closest(ctx):
  from mujoco_warp._src import math as mjmath

  ctx.encode(mjmath.closest_segment_point)
  ctx.bound(note="no loops; segment end points and query point symbolic")
  ctx.assume("floats are reals")
  ctx.notes.append(
    "closest_segment_point divides by |ab|^2 + 1e-6: the returned point is the exact closest point only up to that regulariser; proved: it is on the segment and the optimality residual (pt - x).(b - a) is in [0, 1e-6] (<= 0 at the a end, >= 0 at the b end). For segments shorter than ~3 mm the parameter is off by more than 10 % (|ab|^2 / (|ab|^2 + 1e-6))"
  )
  kt, gi = run_wrapper("k_closest_segment_point", {"out": [1]})
  a, b, pt = vec_arg(kt, "a"), vec_arg(kt, "b"), vec_arg(kt, "pt")
  x = out_vec(kt, "out", 0, 3)
  ab = sub(b, a)
  L2, dt = dot(ab, ab), dot(sub(pt, a), ab)
  u, t = z3.Real("u_ref"), z3.Real("t_ref")
  wit = [u == dt / (L2 + Q(EPS)), t == z3.If(u < 0, 0, z3.If(u > 1, 1, u))]
  rp = lib.make_replay(ctx, kt, LOC + "k_closest_segment_point", "closest", "goal", goal="checks.geom_c20:goal_closest")
  pins = [z3.And(pin_vec(a, p), pin_vec(b, q), pin_vec(pt, s)) for p, q, s in [((0, 0, 0), (1, 0, 0), ("1/2", 1, 0)), ((0, 0, 0), (0, 0, 2), (1, 1, 5)), ((1, 1, 1), (2, 3, 1), (0, 0, 0)), ((0, 0, 0), ("1/1000", 0, 0), ("1/2000", "1/100", 0))]]
  P = Proof(ctx, kt.bg + wit, {"t": t}, rp, pins=pins)
  ctx.reach(P.full, "twin:interior", z3.And(t > 0, t < 1))
  P.lemma("den>0", L2 + Q(EPS) > 0, using=[])
  P.lemma("L2>=0", L2 >= 0, using=[])
  P.lemma("u*den", u * (L2 + Q(EPS)) == dt, using=[wit[0], "den>0"])
  P.goal("on-segment", z3.And(t >= 0, t <= 1, veq(x, add(a, scl(ab, t)))), desc="closest_segment_point: result is not a + t (b - a) with t = clamp((pt-a).(b-a) / (|b-a|^2 + 1e-6), 0, 1)")
  rho = dot(sub(pt, add(a, scl(ab, t))), ab)
  P.lemma("rho", rho == dt - t * L2, using=[])
  P.lemma("interior-rho", z3.Implies(z3.And(u >= 0, u <= 1), rho == u * Q(EPS)), using=["rho", "u*den", wit[1]])
  P.lemma("end-b-rho", z3.Implies(u >= 1, rho >= 0), using=["rho", "u*den", wit[1], "L2>=0"])
  P.lemma("end-a-rho", z3.Implies(u <= 0, rho <= 0), using=["rho", "u*den", wit[1], "L2>=0", "den>0"])
  P.goal("optimal/interior-residual", z3.And(rho >= 0, rho <= Q(EPS)), z3.And(t > 0, t < 1), using=["interior-rho", wit[1]], desc="closest_segment_point: interior result is not (within the 1e-6 regulariser) the foot of the perpendicular")
  P.goal("optimal/end-a", rho <= 0, t == 0, using=["end-a-rho", wit[1]], desc="closest_segment_point: returns end a although a point further along the segment is closer")
  P.goal("optimal/end-b", rho >= 0, t == 1, using=["end-b-rho", wit[1]], desc="closest_segment_point: returns end b although an interior point is closer")


def unit_sphere_capsule(ctx):
  from mujoco_warp._src import collision_primitive_core as cpc
  from mujoco_warp._src import math as mjmath

  ctx.encode(cpc.sphere_capsule, cpc.sphere_sphere)
  ctx.bound(note="no loops; closest_segment_point replaced by its contract (proved in unit 'closest'): a point a + t (b - a), 0 <= t <= 1")
  ctx.assume("floats are reals")
  calls = []

  def summary(it, fr, args):
    k = len(calls)
    t = z3.Real(f"tseg!{k}")
    xs = [z3.Real(f"xseg!{k}_{i}") for i in range(3)]
    a_, b_, p_ = [[R(c) for c in v.c] for v in args]
    it.assumes += [t >= 0, t <= 1, veq(xs, add(a_, scl(sub(b_, a_), t)))]
    calls.append((a_, b_, p_, xs, t))
    return Vec(xs, (3,), "f")

  kt, gi = run_wrapper("k_sphere_capsule", {"dist_out": [1], "pos_out": [1], "normal_out": [1]}, divmode="poly", summaries={mjmath.closest_segment_point.key: summary})
  c, rs = vec_arg(kt, "sphere_pos"), R(kt.args["sphere_radius"])
  cp, ax, rc, hl = vec_arg(kt, "capsule_pos"), vec_arg(kt, "capsule_axis"), R(kt.args["capsule_radius"]), R(kt.args["capsule_half_length"])
  dist, pos, n = R(kt.post("dist_out", 0)), out_vec(kt, "pos_out", 0, 3), out_vec(kt, "normal_out", 0, 3)
  rp = lib.make_replay(ctx, kt, LOC + "k_sphere_capsule", "sphere_capsule", "goal", goal="checks.geom_c20:goal_sphere_capsule")
  pins = [z3.And(pin_vec(c, a), pin_vec(cp, b), pin_vec(ax, d), rs == Q(x), rc == Q(y), hl == Q(h)) for a, b, d, x, y, h in [((1, 2, "-1/2"), (0, 0, 0), (0, 0, 1), "1", "1/2", "1"), ((1, 2, -2), (0, 0, 0), (0, 0, 1), "1", "1/4", "1"), ((1, 2, 2), (0, 0, 0), (0, 0, 1), "1", "1/2", "1"), ((0, 3, 0), (1, 0, 0), (1, 0, 0), "1/2", "1/2", "2"), ((1, 1, 5), (0, 0, 0), (0, "3/5", "4/5"), "1", "1", "1/2")]]
  P = Proof(ctx, kt.bg, {"sphere_radius": rs, "capsule_radius": rc, "half_length": hl, "dist": dist}, rp, pins=pins)
  ctx.reach(P.full, "twin:reachable", True)
  if len(calls) != 1:
    ctx.error(f"sphere_capsule calls closest_segment_point {len(calls)} times (expected once): harness does not apply")
    return
  a_, b_, p_, xs, t = calls[0]
  P.goal("segment/end-points", z3.And(veq(a_, sub(cp, scl(ax, hl))), veq(b_, add(cp, scl(ax, hl)))), desc="sphere_capsule: the capsule segment is not centre -/+ axis * half_length")
  P.goal("segment/query-point", veq(p_, c), desc="sphere_capsule: the closest segment point is not taken w.r.t. the sphere centre")
  _sphere_pair_goals(P, c, rs, xs, rc, dist, pos, n, "sphere_capsule (sphere vs sphere of the capsule radius at the segment point)")


def goal_nwn(spec, pre, post):
  x = _f32(_argv(spec, "x"))
  n, l = post["n_out"][0].astype(np.float64), float(post["norm_out"][0])
  L = float(np.linalg.norm(x))
  msgs = []
  if abs(l - L) > TOL * (1 + L):
    msgs.append(f"norm {l} but |x| = {L}")
  if L > 1e-6 and np.abs(n - x / L).max() > TOL:
    msgs.append(f"direction {n.tolist()} but x/|x| = {(x / L).tolist()}")
  return (not msgs), "normalize_with_norm: " + ("; ".join(msgs) or "ok")


def nwn_contract(x, n, l):
  return [l >= 0, l * l == dot(x, x), z3.Implies(l > 0, veq(scl(n, l), x)), z3.Implies(l > 0, dot(n, n) == 1), z3.Implies(l <= 0, veq(n, x))]


def prove_nwn_contract(ctx):
  """the contract used for normalize_with_norm in plane_capsule holds for the real function"""
  kt, gi = run_wrapper("k_normalize_with_norm", {"n_out": [1], "norm_out": [1]}, divmode="poly")
  x = vec_arg(kt, "x")
  n, l = out_vec(kt, "n_out", 0, 3), R(kt.post("norm_out", 0))
  rp = lib.make_replay(ctx, kt, LOC + "k_normalize_with_norm", "normalize_with_norm", "goal", goal="checks.geom_c20:goal_nwn")
  P = Proof(ctx, kt.bg, {"x0": x[0], "x1": x[1], "x2": x[2]}, rp, prefix="normalize_with_norm/", pins=[pin_vec(x, p) for p in PIN3[:4]] + [pin_vec(x, (0, 0, 0))])
  c = nwn_contract(x, n, l)
  ok = P.goal("norm", z3.And(c[0], c[1]), desc="normalize_with_norm: returned norm is not |x|")
  ok &= P.goal("direction", c[2], desc="normalize_with_norm: returned vector times norm is not x")
  P.lemma("n.n*l^2", z3.Implies(l > 0, dot(n, n) * l * l == l * l), using=[c[1], c[2]])
  ok &= P.goal("unit", c[3], using=["n.n*l^2"], desc="normalize_with_norm: returned vector is not unit")
  ok &= P.goal("zero", c[4], desc="normalize_with_norm: zero input is not returned unchanged")
  return ok


def unit_nwn(ctx):
  from mujoco_warp._src import math as mjmath

  ctx.encode(mjmath.normalize_with_norm)
  ctx.bound(note="no loops; input vector symbolic")
  ctx.assume("floats are reals")
  kt0, _ = run_wrapper("k_normalize_with_norm", {"n_out": [1], "norm_out": [1]}, divmode="poly")
  ctx.reach(ctx.session(kt0.bg), "twin:reachable", True)
  prove_nwn_contract(ctx)


def unit_plane_capsule(only_regime):
  def run(ctx):
    _unit_plane_capsule(ctx, only_regime)

  return run


def _unit_plane_capsule(ctx, only_regime):
  from mujoco_warp._src import collision_primitive_core as cpc
  from mujoco_warp._src import math as mjmath

  ctx.encode(cpc.plane_capsule, cpc.plane_sphere, mjmath.normalize_with_norm)
  ctx.bound(regime=only_regime, note="no loops; all inputs symbolic; normalize_with_norm is used through its contract, which unit geometry/normalize_with_norm proves for the real function; one unit per regime (projected capsule axis long / short with default axis e_y / e_z)")
  ctx.assume("plane normal and capsule axis are unit vectors (columns of rotation matrices)", "floats are reals")
  calls = []

  def summary(it, fr, args):
    k = len(calls)
    xv = [R(c) for c in args[0].c]
    l = z3.Real(f"nwn_len!{k}")
    n = [z3.Real(f"nwn!{k}_{i}") for i in range(3)]
    it.assumes += nwn_contract(xv, n, l)
    calls.append((xv, n, l))
    return (Vec(n, (3,), "f"), l)

  kt, gi = run_wrapper("k_plane_capsule", {"dist_out": [1], "pos_out": [2], "frame_out": [1]}, summaries={mjmath.normalize_with_norm.key: summary})
  n, p = vec_arg(kt, "plane_normal"), vec_arg(kt, "plane_pos")
  cp, ax, rc, hl = vec_arg(kt, "capsule_pos"), vec_arg(kt, "capsule_axis"), R(kt.args["capsule_radius"]), R(kt.args["capsule_half_length"])
  F = out_vec(kt, "frame_out", 0, 9)
  x, y, z = F[0:3], F[3:6], F[6:9]
  rp = lib.make_replay(ctx, kt, LOC + "k_plane_capsule", "plane_capsule", "goal", goal="checks.geom_c20:goal_plane_capsule")
  na = dot(n, ax)
  bsq = 1 - na * na  # squared norm of the capsule axis projected on the plane (unit n, axis)
  proj = sub(ax, scl(n, na))
  names = {"bnorm_sq": bsq, "n0": n[0], "n1": n[1], "n2": n[2], "axis0": ax[0], "axis1": ax[1], "axis2": ax[2]}
  pinv = [((0, 0, 1), (1, 0, 0)), (("3/5", 0, "4/5"), (0, 1, 0)), (("2/7", "3/7", "6/7"), ("3/7", "-6/7", "2/7")), ((0, 0, 1), (0, 0, 1)), (("2/7", "3/7", "6/7"), ("2/7", "3/7", "6/7")), ((0, "4/5", "3/5"), (0, "3/5", "4/5"))]
  pins = [z3.And(pin_vec(n, a), pin_vec(ax, b), pin_vec(p, (0, 0, 0)), pin_vec(cp, (0, "1/2", 1)), rc == Q("1/4"), hl == Q("1/2")) for a, b in pinv]
  unit = [dot(n, n) == 1, dot(ax, ax) == 1]
  base = kt.bg + unit
  big = bsq >= Q("1/4")
  iny = z3.And(n[1] > Q("-1/2"), n[1] < Q("1/2"))
  regimes = (("aligned", big, pins[0]), ("fallback-y", z3.And(z3.Not(big), iny), pins[3]), ("fallback-z", z3.And(z3.Not(big), z3.Not(iny)), pins[5]))
  for regime, cond, twin in regimes:
    if regime != only_regime:
      continue
    P = Proof(ctx, base + [cond], names, rp, prefix=f"{regime}/", pins=pins)
    ctx.reach(P.full, f"twin:{regime}-regime", twin)
    P.goal("frame/x-is-plane-normal", veq(x, n), desc="plane_capsule: first frame axis is not the plane normal")
    if len(calls) == 1 and regime == "aligned":
      xv, nn, l = calls[0]
      P.lemma("arg-is-proj", veq(xv, proj))
      P.lemma("|proj|^2", dot(proj, proj) == bsq, using=unit)
      P.lemma("n.proj=0", dot(n, proj) == 0, using=unit)
      P.lemma("l^2", l * l == bsq, using=["arg-is-proj", "|proj|^2", l * l == dot(xv, xv)])
      P.lemma("l>=1/2", l >= Q("1/2"), using=["l^2", l >= 0, cond])
      P.lemma("nn*l=proj", veq(scl(nn, l), proj), using=["arg-is-proj", "l>=1/2", z3.Implies(l > 0, veq(scl(nn, l), xv))])
      P.lemma("nn.nn=1", dot(nn, nn) == 1, using=["l>=1/2", z3.Implies(l > 0, dot(nn, nn) == 1)])
      P.lemma("y-is-nn", veq(y, nn))
      P.lemma("x-is-n", veq(x, n))
      P.lemma("(n.nn)*l=0", dot(n, nn) * l == 0, using=["nn*l=proj", "n.proj=0"])
      P.lemma("n.nn=0", dot(n, nn) == 0, using=["(n.nn)*l=0", "l>=1/2"])
      P.lemma("y.y=1", dot(y, y) == 1, using=["y-is-nn", "nn.nn=1"])
      P.lemma("x.y=0", dot(x, y) == 0, using=["y-is-nn", "x-is-n", "n.nn=0"])
      P.lemma("y*l=proj", veq(scl(y, l), proj), using=["y-is-nn", "nn*l=proj"])
      pj = [z3.Real(f"proj_{i}") for i in range(3)]  # names for the projected axis (definitions)
      P.assume(veq(pj, proj))
      P.lemma("y*l=pj", veq(scl(y, l), pj), using=["y*l=proj", veq(pj, proj)])
    if len(calls) == 1 and regime.startswith("fallback"):
      # short projected axis: the second axis is a default direction (e_y if |n1| < 1/2 else e_z), made orthogonal to the
      # plane normal and normalised (wp.normalize through its proved contract)
      xv, nn, l = calls[0]
      b0 = [0, 1, 0] if regime == "fallback-y" else [0, 0, 1]
      e = n[1] if regime == "fallback-y" else n[2]
      P.lemma("arg-is-proj", veq(xv, proj))
      P.lemma("|proj|^2", dot(proj, proj) == bsq, using=unit)
      P.lemma("l^2", l * l == bsq, using=["arg-is-proj", "|proj|^2", l * l == dot(xv, xv)])
      P.lemma("l<1/2", l < Q("1/2"), using=["l^2", l >= 0, cond])
      P.lemma("x-is-n", veq(x, n))
      if gi.norms:
        xn, ln, nrm = gi.norms[-1]
        arg = sub(b0, scl(n, e))
        P.lemma("normalize-arg", veq(xn, arg))
        P.lemma("|arg|^2", dot(arg, arg) == 1 - e * e, using=unit)
        P.lemma("e^2<=3/4", e * e <= Q("3/4"), using=unit + [cond])
        P.lemma("xn.xn", dot(xn, xn) == 1 - e * e, using=unit)
        P.lemma("xn.xn'", dot(xn, xn) == dot(arg, arg), using=["normalize-arg"])
        P.lemma("len^2", ln * ln == 1 - e * e, using=["xn.xn", "xn.xn'", "|arg|^2", ln * ln == dot(xn, xn)])
        P.lemma("len>0", ln > 0, using=["len^2", "e^2<=3/4", ln >= 0])
        P.lemma("nrm*len=arg", veq(scl(nrm, ln), arg), using=["normalize-arg", "len>0", z3.Implies(ln > 0, z3.And(veq(scl(nrm, ln), xn), dot(nrm, nrm) == 1))])
        P.lemma("nrm.nrm=1", dot(nrm, nrm) == 1, using=["len>0", z3.Implies(ln > 0, z3.And(veq(scl(nrm, ln), xn), dot(nrm, nrm) == 1))])
        P.lemma("n.arg=0", dot(n, arg) == 0, using=unit)
        P.lemma("(n.nrm)*len=0", dot(n, nrm) * ln == 0, using=["nrm*len=arg", "n.arg=0"])
        P.lemma("n.nrm=0", dot(n, nrm) == 0, using=["(n.nrm)*len=0", "len>0"])
        P.lemma("y-is-nrm", veq(y, nrm))
        P.lemma("y.y=1", dot(y, y) == 1, using=["y-is-nrm", "nrm.nrm=1"])
        P.lemma("x.y=0", dot(x, y) == 0, using=["y-is-nrm", "x-is-n", "n.nrm=0"])
    ortho = z3.And(dot(y, y) == 1, dot(x, y) == 0, veq(z, cross(x, y)))
    P.lemma("z=x cross y", veq(z, cross(x, y)))
    P.goal("frame/orthonormal", ortho, using=["y.y=1", "x.y=0", "z=x cross y"], desc="plane_capsule: contact frame is not orthonormal / right-handed (second axis not unit or not orthogonal to the plane normal)")
    if regime == "aligned":
      P.goal("frame/y-along-capsule", z3.And(veq(cross(y, pj), [0, 0, 0]), dot(y, pj) > 0), using=["y*l=pj", "y.y=1", "l>=1/2"], desc="plane_capsule: second frame axis is not the capsule axis projected on the plane (MuJoCo aligns the frame with the capsule)")
    for i, sgn in enumerate((1, -1)):
      e = add(cp, scl(ax, hl * sgn))
      dist = R(kt.post("dist_out", 0, k=i))
      pos = out_vec(kt, "pos_out", i, 3)
      P.goal(f"dist{i}/signed-distance", dist == dot(sub(e, p), n) - rc, desc=f"plane_capsule: dist[{i}] is not the signed distance of end cap {i} to the plane")
      s_ = sub(e, scl(n, rc))
      q = sub(s_, scl(n, dist))
      P.lemma(f"foot{i}", dot(sub(q, p), n) == dot(sub(e, p), n) - (rc + dist) * dot(n, n), using=[])
      P.goal(f"pos{i}/foot-point-on-plane", dot(sub(q, p), n) == 0, desc=f"plane_capsule: foot point of contact {i} is not on the plane")
      P.goal(f"pos{i}/midway", veq(scl(pos, 2), add(s_, q)), desc=f"plane_capsule: pos[{i}] is not midway between the end cap surface and the plane")


# ------------------------------------------------------------------------------------------------ capsule_capsule

MINVAL = "1/1000000000000000"


def free_vars(t, acc=None, seen=None):
  acc = set() if acc is None else acc
  seen = set() if seen is None else seen
  stack = [t]
  while stack:
    x = stack.pop()
    if x.get_id() in seen:
      continue
    seen.add(x.get_id())
    if z3.is_const(x) and x.decl().kind() == z3.Z3_OP_UNINTERPRETED:
      acc.add(x.decl().name())
    stack.extend(x.children())
  return acc


def seg_closest_np(c1, a1, c2, a2):
  """closest points of segments c1 + x1 a1, c2 + x2 a2, x in [-1,1]: all KKT candidates of the convex quadratic"""
  dif = c1 - c2
  ma, mb, mc, u, v = a1 @ a1, -(a1 @ a2), a2 @ a2, -(a1 @ dif), a2 @ dif
  det = ma * mc - mb * mb
  cands = []
  if abs(det) > 1e-12 * max(ma * mc, 1e-30):
    cands.append(((mc * u - mb * v) / det, (ma * v - mb * u) / det))
  for x1 in (-1.0, 1.0):
    cands.append((x1, float(np.clip((v - mb * x1) / mc, -1, 1)) if mc > 0 else 0.0))
  for x2 in (-1.0, 1.0):
    cands.append((float(np.clip((u - mb * x2) / ma, -1, 1)) if ma > 0 else 0.0, x2))
  best = None
  for x1, x2 in cands:
    if abs(x1) <= 1 + 1e-9 and abs(x2) <= 1 + 1e-9:
      d = float(np.linalg.norm(dif + x1 * a1 - x2 * a2))
      if best is None or d < best[0]:
        best = (d, x1, x2)
  return best


def goal_capsule_capsule(spec, pre, post):
  c1, ax1, r1, h1 = _f32(_argv(spec, "cap1_pos")), _f32(_argv(spec, "cap1_axis")), float(_f32(_argv(spec, "cap1_radius"))), float(_f32(_argv(spec, "cap1_half_length")))
  c2, ax2, r2, h2 = _f32(_argv(spec, "cap2_pos")), _f32(_argv(spec, "cap2_axis")), float(_f32(_argv(spec, "cap2_radius"))), float(_f32(_argv(spec, "cap2_half_length")))
  margin = float(_f32(_argv(spec, "margin")))
  a1, a2 = ax1 * h1, ax2 * h2
  det = (a1 @ a1) * (a2 @ a2) - (a1 @ a2) ** 2
  dists = post["dist_out"][0].astype(np.float64)
  msgs = []
  scale = 1 + np.abs(c1).max() + np.abs(c2).max() + h1 + h2 + abs(r1) + abs(r2)
  if det >= 1e-6 * (a1 @ a1) * (a2 @ a2):  # clearly non-parallel: one contact at the closest points
    d, x1, x2 = seg_closest_np(c1, a1, c2, a2)
    p1, p2 = c1 + x1 * a1, c2 + x2 * a2
    want = d - r1 - r2
    if want <= margin - 1e-4 * scale:
      if not np.isfinite(dists[0]):
        msgs.append(f"no contact although the capsules are within margin (separation {want}, margin {margin})")
      else:
        msgs += _sphere_pair_report(p1, r1, p2, r2, float(dists[0]), post["pos_out"][0].astype(np.float64), post["normal_out"][0].astype(np.float64), f"capsule_capsule (closest segment points x1={x1:.4f}, x2={x2:.4f})")
    elif want > margin + 1e-4 * scale and np.isfinite(dists[0]):
      msgs.append(f"contact with dist {dists[0]} although separation {want} > margin {margin}")
    if np.isfinite(dists[1]):
      msgs.append("second contact for non-parallel capsules")
  elif det < 1e-15 * 0.5:  # parallel branch: every contact is (an end of one segment, closest point of the other)
    cands = []
    for s_ in (1.0, -1.0):
      e1 = c1 + s_ * a1
      cands.append((e1, _closest_exact(c2 - a2, c2 + a2, e1)[0]))
    for s_ in (1.0, -1.0):
      e2 = c2 + s_ * a2
      cands.append((_closest_exact(c1 - a1, c1 + a1, e2)[0], e2))
    for k in range(2):
      if not np.isfinite(dists[k]):
        continue
      reps = [_sphere_pair_report(p1, r1, p2, r2, float(dists[k]), post["pos_out"][k].astype(np.float64), post["normal_out"][k].astype(np.float64), "") for p1, p2 in cands]
      if all(reps):
        msgs.append(f"parallel capsules: contact {k} (dist {dists[k]}) is not (segment end, closest point of the other segment): {min(reps, key=len)[:2]}")
  return (not msgs), "; ".join(msgs[:3]) or "capsule_capsule ok"


def pair_contract(p1, r1, p2, r2, d, pos, n):
  """what unit sphere_sphere proves about sphere_sphere(p1, r1, p2, r2) -> (d, pos, n)"""
  dv = sub(p2, p1)
  L = d + r1 + r2
  nz = z3.Or(*[c != 0 for c in dv])
  return [dot(n, n) == 1, L >= 0, L * L == dot(dv, dv), veq(scl(pos, 2), add(add(p1, scl(n, r1)), sub(p2, scl(n, r2)))), z3.Implies(nz, z3.And(veq(cross(n, dv), [0, 0, 0]), dot(n, dv) > 0)), veq(scl(n, L), dv)]


def kkt(x, g):
  """x in [-1,1] minimises a convex quadratic along its coordinate: interior with zero derivative or at a bound with the
  derivative pointing outward"""
  return z3.And(x >= -1, x <= 1, z3.Or(g == 0, z3.And(x == 1, g <= 0), z3.And(x == -1, g >= 0)))


def unit_capsule_capsule(ctx):
  from mujoco_warp._src import collision_primitive_core as cpc

  ctx.encode(cpc.capsule_capsule)
  ctx.bound(note="no loops; all poses / sizes / margin symbolic; sphere_sphere used through the statements proved in unit sphere_sphere; wp.dot results named (definitions); wp.inf is a symbolic constant")
  ctx.assume("capsule axes are unit vectors, half lengths > 0", "floats are reals")
  ctx.notes.append(
    "capsule_capsule: non-parallel branch (|det| >= 1e-15): the contact is at the closest points of the two axis segments (KKT of the convex quadratic in both segment parameters), normal / dist / pos as for a sphere pair; parallel branch: each of the up to two contacts is (an end point of one segment, the closest point of the other segment to it) - MuJoCo's multi-contact rule, not the global closest pair"
  )
  INF = z3.Real("wp_inf")
  _rv = core.rv

  def rv_inf(x):
    if isinstance(x, float) and x == float("inf"):
      return INF
    return _rv(x)

  calls = []

  def summary(it, fr, args):
    k = len(calls)
    d = z3.Real(f"ss_dist!{k}")
    pos = [z3.Real(f"ss_pos!{k}_{i}") for i in range(3)]
    n = [z3.Real(f"ss_n!{k}_{i}") for i in range(3)]
    p1, r1_, p2, r2_ = [R(c) for c in args[0].c], R(args[1]), [R(c) for c in args[2].c], R(args[3])
    it.assumes += pair_contract(p1, r1_, p2, r2_, d, pos, n)
    env = {kk: fr.env.get(kk) for kk in ("x1", "x2", "ma", "mb", "mc", "u", "v", "det")}
    calls.append({"guard": it.active(fr), "p1": p1, "r1": r1_, "p2": p2, "r2": r2_, "d": d, "pos": pos, "n": n, "env": env})
    return (d, Vec(pos, (3,), "f"), Vec(n, (3,), "f"))

  core.rv = rv_inf
  try:
    gi = GInterp(summaries={cpc.sphere_sphere.key: summary}, abstract_dot=True)
    kt, gi = run_wrapper("k_capsule_capsule", {"dist_out": [1], "pos_out": [2], "normal_out": [2]}, interp=gi, divmode="poly")
  finally:
    core.rv = _rv
  c1, ax1, r1, h1 = vec_arg(kt, "cap1_pos"), vec_arg(kt, "cap1_axis"), R(kt.args["cap1_radius"]), R(kt.args["cap1_half_length"])
  c2, ax2, r2, h2 = vec_arg(kt, "cap2_pos"), vec_arg(kt, "cap2_axis"), R(kt.args["cap2_radius"]), R(kt.args["cap2_half_length"])
  margin = R(kt.args["margin"])
  dist = [R(kt.post("dist_out", 0, k=i)) for i in range(2)]
  pos = [out_vec(kt, "pos_out", i, 3) for i in range(2)]
  nrm = [out_vec(kt, "normal_out", i, 3) for i in range(2)]
  rp = lib.make_replay(ctx, kt, LOC + "k_capsule_capsule", "capsule_capsule", "goal", goal="checks.geom_c20:goal_capsule_capsule")
  a1, a2 = scl(ax1, h1), scl(ax2, h2)
  dif = sub(c1, c2)
  # reference scalars of the quadratic f(x1, x2) = |dif + x1 a1 - x2 a2|^2 (names with defining equations)
  MA, MB, MC, U, V = z3.Reals("ref_ma ref_mb ref_mc ref_u ref_v")
  defs = [MA == dot(a1, a1), MB == -dot(a1, a2), MC == dot(a2, a2), U == -dot(a1, dif), V == dot(a2, dif)]
  pre = [dot(ax1, ax1) == 1, dot(ax2, ax2) == 1, h1 > 0, h2 > 0]
  DET = MA * MC - MB * MB
  inputs = free_vars(z3.And(*[x == 0 for x in c1 + ax1 + c2 + ax2] + [r1 == 0, r2 == 0, h1 == 0, h2 == 0, margin == 0]))
  scalar_facts = [f for f in (core.zbool(x) for x in kt.bg) if not (free_vars(f) & inputs)]

  def pin(c1v, ax1v, h1v, c2v, ax2v, h2v, r1v="1/4", r2v="1/2", mg="10"):
    return z3.And(pin_vec(c1, c1v), pin_vec(ax1, ax1v), h1 == Q(h1v), pin_vec(c2, c2v), pin_vec(ax2, ax2v), h2 == Q(h2v), r1 == Q(r1v), r2 == Q(r2v), margin == Q(mg))

  X, Y, Z = (1, 0, 0), (0, 1, 0), (0, 0, 1)
  D1 = ("3/5", "4/5", 0)
  pins_np = [pin((0, 0, 0), X, "1", (0, 0, 1), Y, "1"), pin((1, 1, 0), D1, "1", (0, 0, 2), X, "3")]
  # skew axes (a1.a2 != 0) with the second capsule placed all around the first: every clamp combination at both ends
  for ax2v, h2v in ((D1, "1"), (("3/5", "-4/5", 0), "1/2"), (("-4/5", "3/5", 0), "2")):
    for cx in (-3, -1, 0, 1, 3):
      for cy in (-3, 0, 3):
        if (cx, cy) != (0, 0):
          pins_np.append(pin((0, 0, 0), X, "1", (cx, cy, 1), ax2v, h2v))
  pins_par = [pin((0, 0, 0), X, "1", (0, 0, 1), X, "1"), pin((0, 0, 0), X, "1", (3, 0, 1), X, "1"), pin((0, 0, 0), X, "2", ("1/2", 0, 1), X, "1/2"), pin((0, 0, 0), Z, "1", (0, 1, -3), Z, "1")]
  names = {"r1": r1, "r2": r2, "half_length1": h1, "half_length2": h2, "margin": margin, "ref_det": DET}
  if len(calls) != 5:
    ctx.error(f"capsule_capsule calls sphere_sphere {len(calls)} times (expected 1 + 4): harness does not apply")
    return
  base = kt.bg + pre + defs
  nonpar = DET >= Q(MINVAL)
  # ---------------------------------------------------------------- non-parallel branch
  C = calls[0]
  P = Proof(ctx, base + [nonpar], names, rp, prefix="nonparallel/", pins=pins_np)
  ctx.reach(P.full, "twin:nonparallel", pins_np[3])
  e = C["env"]
  x1, x2 = R(e["x1"]), R(e["x2"])
  P.lemma("cauchy-schwarz", DET == dot(cross(a1, a2), cross(a1, a2)), using=defs)
  P.lemma("ma>0", MA > 0, using=defs + pre)
  P.lemma("mc>0", MC > 0, using=defs + pre)
  link = []
  for nm, ref in (("ma", MA), ("mb", MB), ("mc", MC), ("u", U), ("v", V)):
    if P.lemma(f"code-{nm}", R(e[nm]) == ref):
      link.append(f"code-{nm}")
  P.lemma("code-det", R(e["det"]) == DET, using=link + [])
  P.goal("branch-taken", C["guard"], using=["code-det", nonpar], desc="capsule_capsule: non-parallel axes (det >= 1e-15) do not take the single-contact branch")
  P.lemma("guard", C["guard"], using=["code-det", nonpar])
  sc = scalar_facts + [nonpar, "ma>0", "mc>0", "code-det", "guard"] + link
  P.goal("radii", z3.And(C["r1"] == r1, C["r2"] == r2), using=[], desc="capsule_capsule: the sphere test does not use the two capsule radii")
  P.goal("point1-on-segment1", veq(C["p1"], add(c1, scl(a1, x1))), using=[], desc="capsule_capsule: first contact point is not centre1 + x1 * axis1 * half_length1")
  P.goal("point2-on-segment2", veq(C["p2"], add(c2, scl(a2, x2))), using=[], desc="capsule_capsule: second contact point is not centre2 + x2 * axis2 * half_length2")
  g1 = MA * x1 + MB * x2 - U  # (1/2) df/dx1
  g2 = MB * x1 + MC * x2 - V  # (1/2) df/dx2
  P.goal("closest/x1-optimal", kkt(x1, g1), using=sc, desc="capsule_capsule: the point on capsule 1's axis segment is not the closest one (KKT in x1 fails: interior with non-zero derivative, outside [-1,1], or at an end although moving inward gets closer)")
  P.goal("closest/x2-optimal", kkt(x2, g2), using=sc, desc="capsule_capsule: the point on capsule 2's axis segment is not the closest one (KKT in x2 fails)")
  rec = C["d"] <= margin
  P.goal("output/contact0", z3.And(dist[0] == C["d"], veq(pos[0], C["pos"]), veq(nrm[0], C["n"])), rec, using=["guard"], desc="capsule_capsule: contact 0 is not the sphere-pair result (normal, dist, midway pos) at the two closest points")
  P.goal("output/contact0-absent", dist[0] == INF, z3.Not(rec), using=["guard"], desc="capsule_capsule: a contact is returned although dist > margin")
  P.goal("output/no-second-contact", dist[1] == INF, using=["guard"], desc="capsule_capsule: non-parallel capsules return a second contact")
  # ---------------------------------------------------------------- parallel branch
  P2 = Proof(ctx, base + [z3.Not(nonpar)], names, rp, prefix="parallel/", pins=pins_par)
  ctx.reach(P2.full, "twin:parallel", pins_par[0])
  P2.lemma("ma>0", MA > 0, using=defs + pre)
  P2.lemma("mc>0", MC > 0, using=defs + pre)
  P2.lemma("cauchy-schwarz", DET >= 0, using=[P.facts["cauchy-schwarz"]] if "cauchy-schwarz" in P.facts else None)
  e = calls[1]["env"]
  link = []
  for nm, ref in (("ma", MA), ("mb", MB), ("mc", MC), ("u", U), ("v", V)):
    if P2.lemma(f"code-{nm}", R(e[nm]) == ref):
      link.append(f"code-{nm}")
  P2.lemma("code-det", R(e["det"]) == DET, using=link + [])
  P2.lemma("not-nonparallel-branch", z3.Not(core.zbool(calls[0]["guard"])), using=["code-det", z3.Not(nonpar), "cauchy-schwarz"])
  sc2 = scalar_facts + ["ma>0", "mc>0"] + link
  spec_ = [(1, "x1", 1), (2, "x1", -1), (3, "x2", 1), (4, "x2", -1)]
  valid = []
  for j, fixed, sgn in spec_:
    Cj = calls[j]
    if fixed == "x1":
      xv = R(Cj["env"]["x2"])
      pt1, pt2 = add(c1, scl(a1, sgn)), add(c2, scl(a2, xv))
      opt = kkt(xv, MB * sgn + MC * xv - V)
    else:
      xv = R(Cj["env"]["x1"])
      pt1, pt2 = add(c1, scl(a1, xv)), add(c2, scl(a2, sgn))
      opt = kkt(xv, MA * xv + MB * sgn - U)
    g = core.zbool(Cj["guard"])
    P2.goal(f"candidate{j}/points", z3.And(veq(Cj["p1"], pt1), veq(Cj["p2"], pt2), Cj["r1"] == r1, Cj["r2"] == r2), g, using=[], desc=f"capsule_capsule (parallel): candidate {j} is not (segment end, point of the other segment) with the capsule radii")
    P2.goal(f"candidate{j}/closest-to-end", opt, g, using=sc2 + [g], desc=f"capsule_capsule (parallel): candidate {j}'s point on the other segment is not the closest one to the segment end")
    valid.append((g, Cj))
  for k in range(2):
    alts = [z3.And(g, Cj["d"] <= margin, dist[k] == Cj["d"], veq(pos[k], Cj["pos"]), veq(nrm[k], Cj["n"])) for g, Cj in valid]
    P2.goal(f"output/contact{k}", z3.Or(dist[k] == INF, *alts), using=["not-nonparallel-branch"], desc=f"capsule_capsule (parallel): contact {k} is neither absent nor one of the four end-point candidates within margin")
  g, Cj = valid[0]
  P2.goal("output/first-candidate-kept", z3.And(dist[0] == Cj["d"], veq(pos[0], Cj["pos"]), veq(nrm[0], Cj["n"])), z3.And(g, Cj["d"] <= margin), using=["not-nonparallel-branch"], desc="capsule_capsule (parallel): the first end-point candidate within margin is not returned as contact 0")


# ------------------------------------------------------------------------------------------------ plane_box


def goal_plane_box(spec, pre, post):
  n, p = _f32(_argv(spec, "plane_normal")), _f32(_argv(spec, "plane_pos"))
  bp, Rm, sz = _f32(_argv(spec, "box_pos")), _f32(_argv(spec, "box_rot")).reshape(3, 3), _f32(_argv(spec, "box_size"))
  msgs = []
  scale = 1 + np.abs(bp).max() + np.abs(p).max() + np.abs(Rm).max() * np.abs(sz).max()
  if np.abs(post["normal_out"][0].astype(np.float64) - n).max() > TOL:
    msgs.append(f"normal {post['normal_out'][0].tolist()} is not the plane normal")
  for i in range(8):
    loc = np.array([sz[0] if i & 1 else -sz[0], sz[1] if i & 2 else -sz[1], sz[2] if i & 4 else -sz[2]])
    corner = bp + Rm @ loc
    wd = float(np.dot(corner - p, n))
    if abs(float(post["dist_out"][i]) - wd) > TOL * scale:
      msgs.append(f"dist[{i}] {float(post['dist_out'][i])} but corner {corner.tolist()} is {wd} from the plane")
    if np.abs(post["pos_out"][i].astype(np.float64) - (corner - 0.5 * n * wd)).max() > TOL * scale:
      msgs.append(f"pos[{i}] {post['pos_out'][i].tolist()} is not midway between corner {corner.tolist()} and the plane")
  return (not msgs), "plane_box: " + ("; ".join(msgs[:3]) or "ok")


def unit_plane_box(ctx):
  from mujoco_warp._src import collision_primitive_core as cpc

  ctx.encode(cpc.plane_box)
  ctx.bound(note="8 corners (concrete loop); plane, box pose (any 3x3 matrix) and half sizes symbolic")
  ctx.assume("plane normal is a unit vector", "floats are reals")
  ctx.notes.append("plane_box returns all 8 corner candidates; which (up to 4) are recorded is decided by the caller (outside)")
  kt, gi = run_wrapper("k_plane_box", {"dist_out": [8], "pos_out": [8], "normal_out": [1]})
  n, p, bp, sz = vec_arg(kt, "plane_normal"), vec_arg(kt, "plane_pos"), vec_arg(kt, "box_pos"), vec_arg(kt, "box_size")
  Rm = [R(c) for c in kt.args["box_rot"].c]
  rp = lib.make_replay(ctx, kt, LOC + "k_plane_box", "plane_box", "goal", goal="checks.geom_c20:goal_plane_box")
  pins = [z3.And(pin_vec(n, nn), pin_vec(p, (0, 0, 0)), pin_vec(bp, (1, 2, 3)), pin_vec(sz, (1, 2, "1/2")), pin_vec(Rm, rr)) for nn, rr in [((0, 0, 1), (1, 0, 0, 0, 1, 0, 0, 0, 1)), (("3/5", 0, "4/5"), (0, -1, 0, 1, 0, 0, 0, 0, 1)), ((0, 1, 0), ("3/5", "-4/5", 0, "4/5", "3/5", 0, 0, 0, 1))]]
  P = Proof(ctx, kt.bg + [dot(n, n) == 1], {}, rp, pins=pins)
  ctx.reach(P.full, "twin:unit-normal", pins[1])
  P.goal("normal", veq(out_vec(kt, "normal_out", 0, 3), n), desc="plane_box: returned normal is not the plane normal")
  for i in range(8):
    loc = [sz[0] if i & 1 else -sz[0], sz[1] if i & 2 else -sz[1], sz[2] if i & 4 else -sz[2]]
    corner = [bp[r] + sum(Rm[3 * r + c] * loc[c] for c in range(3)) for r in range(3)]
    dist = R(kt.post("dist_out", i))
    pos = out_vec(kt, "pos_out", i, 3)
    P.goal(f"corner{i}/dist", dist == dot(sub(corner, p), n), desc=f"plane_box: dist[{i}] is not the signed distance of box corner {i} to the plane")
    foot = sub(corner, scl(n, dist))
    P.lemma(f"foot{i}", dot(sub(foot, p), n) == dot(sub(corner, p), n) - dist * dot(n, n), using=[])
    P.goal(f"corner{i}/foot-on-plane", dot(sub(foot, p), n) == 0, desc=f"plane_box: the point at distance dist[{i}] below corner {i} is not on the plane")
    P.goal(f"corner{i}/pos-midway", veq(scl(pos, 2), add(corner, foot)), desc=f"plane_box: pos[{i}] is not midway between corner {i} and the plane")


# ------------------------------------------------------------------------------------------------ sphere_cylinder


def cyl_reference(c, rs, p, a, Rc, h):
  """closed-form reference: sphere (centre c, radius rs) vs solid cylinder (centre p, unit axis a, radius Rc, half height h).
  With x = (c-p).a and rho = |(c-p) - a x| the signed distance sd of c to the cylinder, the nearest surface point q and the
  contact normal (from the sphere towards the cylinder; for a centre inside: towards the axis / the far cap) are
    side wall  (|x| < h and (rho >= Rc or h-|x| >= Rc-rho)):  sd = rho - Rc,          n = -u            (u = radial unit vector)
    cap        (rho < Rc and (|x| >= h or h-|x| < Rc-rho)):   sd = |x| - h,           n = -sign(x) a
    rim        (|x| >= h and rho >= Rc):                      sd = |(|x|-h, rho-Rc)|, n = (q - c)/sd,  q = p + sign(x) h a + Rc u
  dist = sd - rs,  pos = c + n (rs + dist/2)  (midway between the sphere surface point c + n rs and q = c + n sd).
  -> (regime, dist, n, pos)"""
  v = c - p
  x = float(v @ a)
  pp = v - a * x
  rho = float(np.linalg.norm(pp))
  u = pp / rho if rho > 0 else np.zeros(3)
  sg = 1.0 if x > 0 else -1.0
  if abs(x) < h and (rho >= Rc or h - abs(x) >= Rc - rho):
    reg, sd, n = "side", rho - Rc, -u
  elif rho < Rc:
    reg, sd, n = "cap", abs(x) - h, -sg * a
  else:
    q = p + sg * h * a + Rc * u
    sd = float(np.linalg.norm(q - c))
    reg, n = "rim", (q - c) / sd if sd > 0 else -u
  dist = sd - rs
  return reg, dist, n, c + n * (rs + 0.5 * dist)


def goal_sphere_cylinder(spec, pre, post):
  c, rs = _f32(_argv(spec, "sphere_pos")), float(_f32(_argv(spec, "sphere_radius")))
  p, a, Rc, h = _f32(_argv(spec, "cylinder_pos")), _f32(_argv(spec, "cylinder_axis")), float(_f32(_argv(spec, "cylinder_radius"))), float(_f32(_argv(spec, "cylinder_half_height")))
  reg, wd, wn, wpos = cyl_reference(c, rs, p, a, Rc, h)
  dist, pos, n = float(post["dist_out"][0]), post["pos_out"][0].astype(np.float64), post["normal_out"][0].astype(np.float64)
  scale = 1 + np.abs(c - p).max() + abs(rs) + abs(Rc) + abs(h)
  msgs = []
  if abs(dist - wd) > TOL * scale:
    msgs.append(f"dist {dist} but the separation of sphere and cylinder is {wd}")
  if np.abs(n - wn).max() > TOL and np.linalg.norm(wn) > 0.5:
    msgs.append(f"normal {n.tolist()} but the direction from the sphere to the nearest cylinder point is {wn.tolist()}")
  if np.abs(pos - wpos).max() > TOL * scale and np.linalg.norm(wn) > 0.5:
    msgs.append(f"pos {pos.tolist()} but the midway point is {wpos.tolist()}")
  return (not msgs), f"sphere_cylinder ({reg} regime, axial coordinate {float((c - p) @ a):.4f}): " + ("; ".join(msgs) or "ok")


def unit_sphere_cylinder(group):
  def run(ctx):
    _unit_sphere_cylinder(ctx, group)

  return run


def _unit_sphere_cylinder(ctx, group):
  from mujoco_warp._src import collision_primitive_core as cpc

  ctx.encode(cpc.sphere_cylinder)
  ctx.bound(group=group, note="no loops; all inputs symbolic, the sign of the axial coordinate included; regimes: side wall (centre radially outside / inside), caps +/- (outside / inside), rims +/-; sphere_sphere and plane_sphere are used through the statements proved in their own units; wp.dot results named (definitions)")
  ctx.assume("cylinder axis is a unit vector, radius > 0, half height > 0", "floats are reals", "reference: closed form stated in geom_c20.cyl_reference")
  calls = []

  def mk(kind):
    def summary(it, fr, args):
      k = len(calls)
      d = z3.Real(f"res_dist!{k}")
      pos = [z3.Real(f"res_pos!{k}_{i}") for i in range(3)]
      if kind == "ss":
        n = [z3.Real(f"res_n!{k}_{i}") for i in range(3)]
        p1, r1_, p2, r2_ = [R(c) for c in args[0].c], R(args[1]), [R(c) for c in args[2].c], R(args[3])
        facts = pair_contract(p1, r1_, p2, r2_, d, pos, n)
        calls.append({"kind": kind, "guard": it.active(fr), "p1": p1, "r1": r1_, "p2": p2, "r2": r2_, "d": d, "pos": pos, "n": n, "facts": facts})
        it.assumes += facts
        return (d, Vec(pos, (3,), "f"), Vec(n, (3,), "f"))
      nrm, pp_, cc, rr = [R(c) for c in args[0].c], [R(c) for c in args[1].c], [R(c) for c in args[2].c], R(args[3])
      # what unit plane_sphere proves: dist = signed distance, pos midway between sphere surface point and its foot point
      facts = [d == dot(sub(cc, pp_), nrm) - rr, veq(scl(pos, 2), sub(scl(cc, 2), scl(nrm, 2 * rr + d)))]
      calls.append({"kind": kind, "guard": it.active(fr), "nrm": nrm, "pp": pp_, "c": cc, "r": rr, "d": d, "pos": pos, "facts": facts})
      it.assumes += facts
      return (d, Vec(pos, (3,), "f"))

    return summary

  gi = GInterp(summaries={cpc.sphere_sphere.key: mk("ss"), cpc.plane_sphere.key: mk("ps")}, abstract_dot=True)
  kt, gi = run_wrapper("k_sphere_cylinder", {"dist_out": [1], "pos_out": [1], "normal_out": [1]}, interp=gi, divmode="poly")
  c, rs = vec_arg(kt, "sphere_pos"), R(kt.args["sphere_radius"])
  p, a, Rc, h = vec_arg(kt, "cylinder_pos"), vec_arg(kt, "cylinder_axis"), R(kt.args["cylinder_radius"]), R(kt.args["cylinder_half_height"])
  dist, pos, n = R(kt.post("dist_out", 0)), out_vec(kt, "pos_out", 0, 3), out_vec(kt, "normal_out", 0, 3)
  rp = lib.make_replay(ctx, kt, LOC + "k_sphere_cylinder", "sphere_cylinder", "goal", goal="checks.geom_c20:goal_sphere_cylinder")
  kinds = [cl["kind"] for cl in calls]
  if kinds != ["ss", "ps", "ss"] or len(gi.dots) != 2:
    ctx.error(f"sphere_cylinder structure changed (calls {kinds}, {len(gi.dots)} dot products): harness does not apply")
    return
  # reference scalars (definitions): axial coordinate, radial vector, radial distance
  v = sub(c, p)
  xr, rho = z3.Real("ref_x"), z3.Real("ref_rho")
  pp = sub(v, scl(a, xr))
  defs = [xr == dot(v, a), rho >= 0, rho * rho == dot(pp, pp)]
  pre = [dot(a, a) == 1, Rc > 0, h > 0]
  absx = z3.If(xr >= 0, xr, -xr)
  allv = free_vars(z3.And(*[core.zbool(b) for b in kt.bg]))
  sq = [z3.Real(nm) for nm in sorted(allv) if nm.startswith("sqrt!")]
  dv = [z3.Real(nm) for nm in sorted(allv) if nm.startswith("div!")]
  inputs = free_vars(z3.And(*[t == 0 for t in c + p + a]))
  scalar_facts = [f for f in (core.zbool(t) for t in kt.bg) if not (free_vars(f) & inputs)]
  d0, d1 = gi.dots[0][2], gi.dots[1][2]

  def pin(cv, av=(0, 0, 1), Rv="1", hv="1", rsv="1/2", pv=(0, 0, 0)):
    return z3.And(pin_vec(c, cv), pin_vec(a, av), pin_vec(p, pv), Rc == Q(Rv), h == Q(hv), rs == Q(rsv))

  A2 = ("2/7", "3/7", "6/7")
  pins = [pin(cv) for cv in [(3, 0, "1/2"), (0, 4, "-1/2"), ("1/4", 0, "1/8"), (0, "3/4", "-1/8"), ("1/4", 0, "7/8"), (0, "1/4", "-7/8"), ("1/2", 0, 3), (0, "-1/2", -3), (3, 4, 2), (3, 4, -2), (0, 5, -4), (4, 0, 13)]]
  pins += [pin(cv, Rv="1/2", hv="3/2", rsv="1/4") for cv in [(3, 4, 2), (3, 4, -2), (0, 5, "-7/4"), (3, 0, "1/2"), (0, "1/4", "-5/4"), (0, "1/4", -3), ("3/10", "4/10", 1), (0, "1/8", "11/8")]]
  pins += [pin(cv, av=A2, Rv="1/2", hv="2", pv=(1, 0, -1)) for cv in [(3, 1, 0), (1, 0, -1), (2, 2, 3), (0, -2, -5), (-1, 3, -4), (3, 0, -7), ("8/7", "2/7", "-3/7")]]
  inside = z3.And(absx < h, rho < Rc)
  capnear = h - absx < Rc - rho
  REG = {
    "side/outside": (z3.And(absx < h, rho >= Rc), "side", 0),
    "side/inside": (z3.And(inside, z3.Not(capnear)), "side", 0),
    "cap+/inside": (z3.And(inside, capnear, xr > 0), "cap", 1),
    "cap-/inside": (z3.And(inside, capnear, xr <= 0), "cap", -1),
    "cap+/outside": (z3.And(xr >= h, rho < Rc), "cap", 1),
    "cap-/outside": (z3.And(xr <= -h, rho < Rc), "cap", -1),
    "rim+": (z3.And(xr >= h, rho >= Rc), "rim", 1),
    "rim-": (z3.And(xr <= -h, rho >= Rc), "rim", -1),
  }
  names = {"axial_x": xr, "radial_rho": rho, "cyl_radius": Rc, "half_height": h, "sphere_radius": rs}
  base = kt.bg + defs + pre
  cover = ctx.session(defs + pre)
  ctx.prove(cover, "regimes-cover-all-poses", z3.Or(*[r[0] for r in REG.values()]), names=names, replay=lambda m: (False, "no replay: statement about the case split"), desc="harness: the regime case split does not cover every pose")
  for rname, (cond, kind, sg) in REG.items():
    if not rname.startswith(group):
      continue
    P = Proof(ctx, base + [cond], names, rp, prefix=f"{rname}/", pins=pins)
    tw = next((pn for pn in pins if str(kh.Session(defs + pre + [cond, pn], timeout_ms=3000).reach("t").status) == "sat"), None)
    ctx.reach(P.full, "twin:regime-reachable", tw if tw is not None else True)
    # link the code's scalars to the reference
    P.lemma("x", d0 == xr, using=[d0 == dot(gi.dots[0][0], gi.dots[0][1]), defs[0]])
    P.lemma("psq", d1 == rho * rho, using=["x", d1 == dot(gi.dots[1][0], gi.dots[1][1]), defs[2]])
    P.lemma("psq>=0", d1 >= 0, using=["psq"])
    for sv in sq:
      P.lemma(f"{sv}=rho", sv == rho, using=["psq", "psq>=0", defs[1], z3.Implies(d1 >= 0, z3.And(sv >= 0, sv * sv == d1))])
    sqn = [f"{sv}=rho" for sv in sq]
    P.lemma("rho<R-iff", (rho < Rc) == (d1 < Rc * Rc), using=["psq", defs[1], pre[1]])
    sc = scalar_facts + ["x", "psq", "rho<R-iff", cond, defs[1]] + pre + sqn
    call = calls[{"side": 0, "cap": 1, "rim": 2}[kind]]
    P.goal("branch", call["guard"], using=sc, desc=f"sphere_cylinder: a pose in the {rname} regime is not handled by the {kind} branch")
    P.lemma("guard", call["guard"], using=sc)
    others = [cl for cl in calls if cl is not call]
    P.lemma("not-others", z3.And(*[z3.Not(core.zbool(cl["guard"])) for cl in others]), using=sc)
    L = dist + rs  # = signed distance sd of the sphere centre to the cylinder
    if kind == "side":
      P.goal("output", z3.And(dist == call["d"], veq(pos, call["pos"]), veq(n, call["n"])), using=["guard", "not-others"], desc="sphere_cylinder (side): outputs are not the sphere-pair result")
      P.lemma("out", z3.And(dist == call["d"], veq(pos, call["pos"]), veq(n, call["n"])), using=["guard", "not-others"])
      P.goal("args", z3.And(veq(call["p1"], c), call["r1"] == rs, call["r2"] == Rc, veq(call["p2"], add(p, scl(a, xr)))), using=["x"], desc="sphere_cylinder (side): the sphere test is not (sphere, point of the axis at the sphere's axial coordinate with the cylinder radius)")
      P.lemma("args", z3.And(veq(call["p1"], c), call["r1"] == rs, call["r2"] == Rc, veq(call["p2"], add(p, scl(a, xr)))), using=["x"])
      dvec = sub(call["p2"], call["p1"])
      P.lemma("dv=-pp", veq(dvec, scl(pp, -1)), using=["args"])
      P.lemma("|dv|^2", dot(dvec, dvec) == rho * rho, using=["dv=-pp", defs[2]])
      Lc = call["d"] + call["r1"] + call["r2"]
      P.lemma("L=rho", Lc == rho, using=["|dv|^2", defs[1], call["facts"][1], call["facts"][2]])
      P.goal("dist/separation", dist == rho - Rc - rs, using=["out", "args", "L=rho"], desc="sphere_cylinder (side wall): dist is not (radial distance - cylinder radius - sphere radius)")
      P.goal("normal/unit", dot(n, n) == 1, using=["out", call["facts"][0]], desc="sphere_cylinder (side wall): normal is not unit")
      P.lemma("n*rho", veq(scl(call["n"], rho), scl(pp, -1)), using=["L=rho", "dv=-pp", call["facts"][5]])
      P.goal("normal/towards-axis", veq(scl(n, rho), scl(pp, -1)), using=["out", "n*rho"], desc="sphere_cylinder (side wall): normal is not the inward radial direction (from the sphere towards the cylinder axis)")
      P.lemma("p2=c+n*rho", veq(call["p2"], add(c, scl(call["n"], rho))), using=["args", "L=rho", call["facts"][5]])
      P.goal("pos/midway", veq(scl(pos, 2), add(scl(c, 2), scl(n, rs + rho - Rc))), using=["out", "args", "p2=c+n*rho", call["facts"][3]], desc="sphere_cylinder (side wall): pos is not midway between the sphere surface and the wall point")
    elif kind == "cap":
      outf = z3.And(dist == call["d"], veq(pos, call["pos"]), veq(n, scl(call["nrm"], -1)))
      P.goal("output", outf, using=["guard", "not-others"], desc="sphere_cylinder (cap): outputs are not the plane-sphere result with the flipped plane normal")
      P.lemma("out", outf, using=["guard", "not-others"])
      argf = z3.And(veq(call["nrm"], scl(a, sg)), veq(call["pp"], add(p, scl(a, sg * h))), veq(call["c"], c), call["r"] == rs)
      P.goal("args", argf, using=sc, desc=f"sphere_cylinder (cap {'+' if sg > 0 else '-'}): the plane test is not against the cap plane on the side of the sphere (normal {'+' if sg > 0 else '-'}axis through centre {'+' if sg > 0 else '-'} half height * axis)")
      P.lemma("args", argf, using=sc)
      P.lemma("d-expand", dot(sub(c, add(p, scl(a, sg * h))), scl(a, sg)) == sg * dot(v, a) - h * dot(a, a), using=[])
      P.goal("dist/separation", dist == sg * xr - h - rs, using=["out", "args", "d-expand", call["facts"][0], defs[0], pre[0]], desc="sphere_cylinder (cap): dist is not (|axial coordinate| - half height - sphere radius)")
      P.lemma("dist", dist == sg * xr - h - rs, using=["out", "args", "d-expand", call["facts"][0], defs[0], pre[0]])
      P.goal("normal/into-cap", veq(n, scl(a, -sg)), using=["out", "args"], desc="sphere_cylinder (cap): normal is not the axis direction pointing from the sphere into the cylinder")
      P.goal("normal/unit", dot(n, n) == 1, using=["out", "args", pre[0]], desc="sphere_cylinder (cap): normal is not unit")
      P.goal("pos/midway", veq(scl(pos, 2), add(scl(c, 2), scl(n, rs + sg * xr - h))), using=["out", "args", "dist", call["facts"][1]], desc="sphere_cylinder (cap): pos is not midway between the sphere surface and the cap")
    else:
      e, f = sg * xr - h, rho - Rc
      P.goal("output", z3.And(dist == call["d"], veq(pos, call["pos"]), veq(n, call["n"])), using=["guard", "not-others"], desc="sphere_cylinder (rim): outputs are not the sphere-pair result")
      P.lemma("out", z3.And(dist == call["d"], veq(pos, call["pos"]), veq(n, call["n"])), using=["guard", "not-others"])
      if len(dv) != 1:
        ctx.error("sphere_cylinder rim: expected exactly one division")
        return
      inv = dv[0]
      P.lemma("rho>0", rho > 0, using=[cond, pre[1]])
      P.lemma("inv*rho=1", inv * rho == 1, using=scalar_facts + sqn + ["rho>0"])
      rim = add(add(p, scl(a, sg * h)), scl(pp, Rc * inv))
      argf = z3.And(veq(call["p1"], c), call["r1"] == rs, call["r2"] == 0, veq(call["p2"], rim))
      P.goal("args", argf, using=sc + ["x"], desc=f"sphere_cylinder (rim {'+' if sg > 0 else '-'}): the sphere test is not against the rim point centre {'+' if sg > 0 else '-'} half height * axis + radius * radial direction (zero radius)")
      P.lemma("args", argf, using=sc + ["x"])
      dvec = sub(call["p2"], call["p1"])
      form = sub(scl(a, -sg * e), scl(pp, 1 - Rc * inv))
      P.lemma("dv-form", veq(dvec, form), using=["args", defs[0]])
      P.lemma("a.pp=0", dot(a, pp) == 0, using=[defs[0], pre[0]])
      P.lemma("rho*(1-R*inv)", rho * (1 - Rc * inv) == f, using=["inv*rho=1"])
      P.lemma("pp.pp*(1-R*inv)^2", dot(pp, pp) * (1 - Rc * inv) * (1 - Rc * inv) == f * f, using=["rho*(1-R*inv)", defs[2]])
      P.lemma("|form|^2-expand", dot(form, form) == e * e * dot(a, a) + 2 * sg * e * (1 - Rc * inv) * dot(a, pp) + dot(pp, pp) * (1 - Rc * inv) * (1 - Rc * inv), using=[])
      P.lemma("|dv|^2", dot(dvec, dvec) == e * e + f * f, using=["dv-form", "|form|^2-expand", "a.pp=0", "pp.pp*(1-R*inv)^2", pre[0]])
      Lc = call["d"] + call["r1"] + call["r2"]
      P.goal("dist/separation", z3.And(L >= 0, L * L == e * e + f * f), using=["out", "args", "|dv|^2", call["facts"][1], call["facts"][2]], desc="sphere_cylinder (rim): dist + sphere radius is not the distance of the sphere centre to the rim circle, sqrt((|x|-h)^2 + (rho-R)^2)")
      P.goal("normal/unit", dot(n, n) == 1, using=["out", call["facts"][0]], desc="sphere_cylinder (rim): normal is not unit")
      P.lemma("n*L", veq(scl(call["n"], Lc), form), using=["dv-form", call["facts"][5]])
      P.lemma("n*L*rho", veq(scl(call["n"], Lc * rho), sub(scl(a, -sg * e * rho), scl(pp, f))), using=["n*L", "rho*(1-R*inv)"])
      P.goal("normal/towards-rim", veq(scl(n, L * rho), sub(scl(a, -sg * e * rho), scl(pp, f))), using=["out", "args", "n*L*rho"], desc="sphere_cylinder (rim): normal is not the direction from the sphere centre to the nearest rim point")
      P.lemma("p2=c+n*L", veq(call["p2"], add(c, scl(call["n"], Lc))), using=["args", call["facts"][5]])
      P.goal("pos/midway", veq(scl(pos, 2), add(scl(c, 2), scl(n, rs + L))), using=["out", "args", "p2=c+n*L", call["facts"][3]], desc="sphere_cylinder (rim): pos is not midway between the sphere surface and the rim point")


# ------------------------------------------------------------------------------------------------ sphere_box


def box_reference(c, rs, p, Rm, sz):
  """closed-form reference: sphere vs box (centre p, rotation Rm, half sizes sz).  In box coordinates x = Rm^T (c - p):
  outside: q = clip(x, -sz, sz) is the nearest box point, sd = |q - x|, n = (q - x)/sd; inside: the nearest face (first of
  +/-x, +/-y, +/-z in the code's order -x,+x,-y,+y,-z,+z attaining the minimum) at distance m: sd = -m, n = inward normal
  of that face seen from the sphere (= -(outward face normal)).  dist = sd - rs, pos = x + n (rs + dist/2); normal and pos
  are rotated / translated back to the world frame.  -> (regime, dist, n_world, pos_world)"""
  x = Rm.T @ (c - p)
  q = np.clip(x, -sz, sz)
  sd = float(np.linalg.norm(q - x))
  if sd > 1e-15:
    reg, n = "outside", (q - x) / sd
  else:
    fd = [abs((1.0 if i % 2 else -1.0) * sz[i // 2] - x[i // 2]) for i in range(6)]
    k = int(np.argmin(fd))
    reg, sd = "inside", -fd[k]
    n = np.zeros(3)
    n[k // 2] = -1.0 if k % 2 else 1.0
  dist = sd - rs
  return reg, dist, Rm @ n, p + Rm @ (x + n * (rs + 0.5 * dist))


def goal_sphere_box(spec, pre, post):
  c, rs = _f32(_argv(spec, "sphere_pos")), float(_f32(_argv(spec, "sphere_radius")))
  p, Rm, sz = _f32(_argv(spec, "box_pos")), _f32(_argv(spec, "box_rot")).reshape(3, 3), _f32(_argv(spec, "box_size"))
  reg, wd, wn, wpos = box_reference(c, rs, p, Rm, sz)
  dist, pos, n = float(post["dist_out"][0]), post["pos_out"][0].astype(np.float64), post["normal_out"][0].astype(np.float64)
  scale = 1 + np.abs(c - p).max() + abs(rs) + np.abs(sz).max()
  msgs = []
  if abs(dist - wd) > TOL * scale:
    msgs.append(f"dist {dist} but the separation of sphere and box is {wd}")
  if np.abs(n - wn).max() > TOL:
    msgs.append(f"normal {n.tolist()} but the direction from the sphere to the nearest box point / face is {wn.tolist()}")
  if np.abs(pos - wpos).max() > TOL * scale:
    msgs.append(f"pos {pos.tolist()} but the midway point is {wpos.tolist()}")
  return (not msgs), f"sphere_box ({reg}): " + ("; ".join(msgs) or "ok")


def matvec(M, v):
  return [sum(M[3 * r + k] * v[k] for k in range(3)) for r in range(3)]


def matTvec(M, v):
  return [sum(M[3 * k + r] * v[k] for k in range(3)) for r in range(3)]


def unit_sphere_box(ctx):
  from mujoco_warp._src import collision_primitive_core as cpc
  from mujoco_warp._src import math as mjmath

  ctx.encode(cpc.sphere_box)
  ctx.bound(note="6 faces (concrete loop); all inputs symbolic; matrix-vector products are named (definitions) so that the proof works in box coordinates x = R^T (c - p); normalize_with_norm through its contract (unit geometry/normalize_with_norm)")
  ctx.assume("box half sizes > 0; the box rotation is orthonormal (only used for the world-frame unit-normal statement)", "inside regime: the sphere centre is inside the box (the 1e-15 sliver outside the box that the code also treats as inside is outside the claim)", "floats are reals", "reference: closed form stated in geom_c20.box_reference")
  calls = []

  def summary(it, fr, args):
    xv = [R(cc) for cc in args[0].c]
    l = z3.Real(f"nwn_len!{len(calls)}")
    nn = [z3.Real(f"nwn!{len(calls)}_{i}") for i in range(3)]
    facts = nwn_contract(xv, nn, l)
    it.assumes += facts
    calls.append({"x": xv, "n": nn, "l": l, "facts": facts, "center": [R(cc) for cc in fr.env["center"].c], "clamped": [R(cc) for cc in fr.env["clamped"].c]})
    return (Vec(nn, (3,), "f"), l)

  gi = GInterp(summaries={mjmath.normalize_with_norm.key: summary}, abstract_matvec=True)
  kt, gi = run_wrapper("k_sphere_box", {"dist_out": [1], "pos_out": [1], "normal_out": [1]}, interp=gi)
  c, rs, p, sz = vec_arg(kt, "sphere_pos"), R(kt.args["sphere_radius"]), vec_arg(kt, "box_pos"), vec_arg(kt, "box_size")
  Rm = [R(t) for t in kt.args["box_rot"].c]
  dist, pos, n = R(kt.post("dist_out", 0)), out_vec(kt, "pos_out", 0, 3), out_vec(kt, "normal_out", 0, 3)
  rp = lib.make_replay(ctx, kt, LOC + "k_sphere_box", "sphere_box", "goal", goal="checks.geom_c20:goal_sphere_box")
  if len(calls) != 1 or len(gi.matvecs) != 4:
    ctx.error(f"sphere_box structure changed ({len(calls)} normalize calls, {len(gi.matvecs)} matrix-vector products): harness does not apply")
    return
  C = calls[0]
  x, q, l, nd = C["center"], C["clamped"], C["l"], C["n"]
  (ex_center, _), (ex_nin, nm_nin), (ex_nout, nm_nout), (ex_pos, nm_pos) = gi.matvecs
  pre = [t > 0 for t in sz]
  ortho = [dot([Rm[3 * k + i] for k in range(3)], [Rm[3 * k + j] for k in range(3)]) == (1 if i == j else 0) for i in range(3) for j in range(i, 3)]
  rots = [(1, 0, 0, 0, 1, 0, 0, 0, 1), ("3/5", "-4/5", 0, "4/5", "3/5", 0, 0, 0, 1), (0, 0, 1, 1, 0, 0, 0, 1, 0)]

  def pin(cv, rot=rots[0], szv=(1, 2, "1/2"), rsv="1/4", pv=(0, 0, 0)):
    return z3.And(pin_vec(c, cv), pin_vec(Rm, rot), pin_vec(sz, szv), pin_vec(p, pv), rs == Q(rsv))

  pins = [pin(cv) for cv in [(3, 0, 0), (-3, 0, 0), (0, 5, "1/4"), (0, -5, "1/4"), (0, 1, 2), (0, 1, -2), (4, 6, "1/2"), (-4, 2, -2), (4, -5, 1), ("1/2", 0, 0), ("-3/4", 1, 0), (0, "7/4", "1/8"), (0, "-7/4", 0), (0, 0, "3/8"), ("1/4", 1, "-3/8")]]
  pins += [pin(cv, rot=rots[1], pv=(1, -1, 2)) for cv in [(5, 2, 2), (1, 4, 2), (-4, -1, 3), (1, "-1/2", 2), ("8/5", "-1/5", 2), (1, -1, "9/4"), (1, -1, -1)]]
  pins += [pin(cv, rot=rots[2]) for cv in [(3, 1, 1), (0, 0, 4), ("1/4", "1/2", "1/4"), (0, "-3/4", 0)]]
  names = {"sphere_radius": rs, "norm_clamped_minus_center": l}
  base = kt.bg + pre
  # the vector normalised by the code is (clamped - center), center = R^T (c - p), clamped = clip(center)
  P0 = Proof(ctx, base, names, rp, prefix="setup/", pins=pins)
  ctx.reach(P0.full, "twin:reachable", pins[0])
  P0.goal("center-is-box-coordinates", veq(ex_center, matTvec(Rm, sub(c, p))), using=[], desc="sphere_box: the sphere centre is not transformed to box coordinates with R^T (c - p)")
  P0.goal("clamped-is-projection", z3.And(*[z3.And(q[i] >= -sz[i], q[i] <= sz[i], z3.Or(q[i] == x[i], z3.And(q[i] == sz[i], x[i] >= sz[i]), z3.And(q[i] == -sz[i], x[i] <= -sz[i]))) for i in range(3)]), using=pre, desc="sphere_box: 'clamped' is not the nearest point of the box to the sphere centre (per-coordinate projection onto [-size, size])")
  P0.goal("normalised-vector", veq(C["x"], sub(q, x)), using=[], desc="sphere_box: the normalised vector is not (nearest box point - sphere centre)")
  P0.goal("world-normal-rotation", veq(ex_nout, matvec(Rm, nd)), using=[], desc="sphere_box: the world normal is not R * (local direction)")
  MINV = Q(MINVAL)
  # ---------------------------------------------------------------- outside
  P = Proof(ctx, base + [l > MINV], names, rp, prefix="outside/", pins=pins)
  ctx.reach(P.full, "twin:outside", pins[0])
  outn = veq(n, nm_nout)
  P.goal("output/normal", outn, desc="sphere_box (outside): world normal is not R * normalised (nearest point - centre)")
  P.lemma("out-n", outn)
  P.goal("dist/separation", dist == l - rs, desc="sphere_box (outside): dist is not |nearest box point - sphere centre| - radius")
  P.goal("length", z3.And(l >= 0, l * l == dot(sub(q, x), sub(q, x))), desc="sphere_box (outside): the normalisation length is not |nearest box point - sphere centre|")
  # local pos (argument of the last R @ pos): midway between the box point q and the sphere surface point x + dir * rs
  P.goal("normal/local-direction", z3.And(veq(scl(nd, l), sub(q, x)), dot(nd, nd) == 1), desc="sphere_box (outside): the local direction is not the unit vector from the sphere centre to the nearest box point")
  P.goal("pos/world", veq(pos, add(p, nm_pos)), desc="sphere_box: world position is not box_pos + R * local position")
  lp = local_pos_arg(gi)
  P.goal("pos/local-midway", veq(scl(lp, 2), add(add(q, x), scl(nd, rs))), desc="sphere_box (outside): local pos is not midway between the nearest box point and the sphere surface point")
  P.lemma("nd.nd", dot(nd, nd) == 1)
  P.lemma("defs-nout", veq(nm_nout, matvec(Rm, nd)))
  rotation_preserves_norm(P, Rm, nd, ortho)
  P.goal("normal/unit", dot(n, n) == 1, guard=z3.And(*ortho), using=["out-n", "defs-nout", "nd.nd", "|Rv|=|v|"], desc="sphere_box (outside): world normal is not a unit vector (orthonormal box rotation)")
  # ---------------------------------------------------------------- inside
  P2 = Proof(ctx, base + [l == 0], names, rp, prefix="inside/", pins=pins)
  ctx.reach(P2.full, "twin:inside", pins[9])
  P2.lemma("arg", veq(C["x"], sub(q, x)), using=[])
  P2.lemma("q=x", veq(q, x), using=["arg", C["facts"][1], l == 0])
  fd = [(sz[j // 2] - x[j // 2]) if j % 2 else (sz[j // 2] + x[j // 2]) for j in range(6)]  # distances to the faces -x,+x,-y,+y,-z,+z (>= 0 inside)
  m = -(dist + rs)  # claimed distance to the nearest face
  P2.goal("dist/nearest-face", z3.And(*[m <= f for f in fd], z3.Or(*[m == f for f in fd])), desc="sphere_box (inside): -(dist + radius) is not the distance to the nearest face")
  P2.goal("output/normal", veq(n, nm_nin), desc="sphere_box (inside): world normal is not R * (face direction)")
  near = nearest_arg(gi)
  alts = []
  for j in range(6):
    ej = [0, 0, 0]
    ej[j // 2] = -1 if j % 2 else 1
    alts.append(z3.And(m == fd[j], veq(near, ej)))
  P2.goal("normal/local-face-direction", z3.Or(*alts), desc="sphere_box (inside): the local normal is not the inward direction of a nearest face (+axis for the -face, -axis for the +face)")
  P2.goal("normal/world-rotation", veq(ex_nin, matvec(Rm, near)), using=[], desc="sphere_box (inside): world normal is not R * (face direction)")
  P2.lemma("out-n", veq(n, nm_nin))
  P2.lemma("defs-nin", veq(nm_nin, matvec(Rm, near)))
  P2.lemma("face-direction", z3.Or(*alts))
  P2.lemma("near.near", dot(near, near) == 1, using=["face-direction"])
  rotation_preserves_norm(P2, Rm, near, ortho)
  P2.goal("normal/unit", dot(n, n) == 1, guard=z3.And(*ortho), using=["out-n", "defs-nin", "near.near", "|Rv|=|v|"], desc="sphere_box (inside): world normal is not a unit vector (orthonormal box rotation)")
  P2.goal("pos/world", veq(pos, add(p, nm_pos)), desc="sphere_box: world position is not box_pos + R * local position")
  P2.goal("pos/local-midway", veq(scl(lp, 2), add(scl(x, 2), scl(near, rs - m))), desc="sphere_box (inside): local pos is not midway between the sphere surface point and the nearest face point")


def rotation_preserves_norm(P, Rm, v, ortho):
  """lemma '|Rv|=|v|' (under the orthonormality facts): |R v|^2 = sum_ij v_i v_j (R^T R)_ij with (R^T R)_ij named"""
  g = {}
  gdefs = []
  for i in range(3):
    for j in range(3):
      g[(i, j)] = z3.Real(f"gram_{i}{j}")
      gdefs.append(g[(i, j)] == dot([Rm[3 * k + i] for k in range(3)], [Rm[3 * k + j] for k in range(3)]))
  P.assume(*gdefs)  # definitions of fresh names
  Rv = matvec(Rm, v)
  P.lemma("|Rv|^2-expand", dot(Rv, Rv) == sum(v[i] * v[j] * g[(i, j)] for i in range(3) for j in range(3)), using=gdefs)
  P.lemma("gram=I", z3.Implies(z3.And(*ortho), z3.And(*[g[(i, j)] == (1 if i == j else 0) for i in range(3) for j in range(3)])), using=gdefs)
  P.lemma("|Rv|=|v|", z3.Implies(z3.And(*ortho), dot(Rv, Rv) == dot(v, v)), using=["|Rv|^2-expand", "gram=I"])


def _mv_arg(gi, k):
  """argument vector v of the k-th named product M @ v: recovered from the recorded call (GInterp.matvec_args)"""
  return gi.matvec_args[k]


def local_pos_arg(gi):
  return _mv_arg(gi, 3)


def nearest_arg(gi):
  return _mv_arg(gi, 1)


# ------------------------------------------------------------------------------------------------ plane_ellipsoid


def ellipsoid_reference(n, pp, c, Rm, sz):
  """closed-form reference: the point of the ellipsoid {c + Rm y : sum (y_i/sz_i)^2 <= 1} lowest along the plane normal n is
  y* = -S^2 w / |S w| with w = Rm^T n, S = diag(sz); dist = n.(c + Rm y* - pp) = n.(c - pp) - |S w|; pos midway between that
  point and its foot point on the plane.  -> (dist, pos)"""
  w = Rm.T @ n
  t = sz * w
  L = float(np.linalg.norm(t))
  y = -sz * t / L
  P = c + Rm @ y
  dist = float(n @ (P - pp))
  return dist, P - 0.5 * dist * n


def goal_plane_ellipsoid(spec, pre, post):
  n, pp = _f32(_argv(spec, "plane_normal")), _f32(_argv(spec, "plane_pos"))
  c, Rm, sz = _f32(_argv(spec, "ellipsoid_pos")), _f32(_argv(spec, "ellipsoid_rot")).reshape(3, 3), _f32(_argv(spec, "ellipsoid_size"))
  wd, wpos = ellipsoid_reference(n, pp, c, Rm, sz)
  dist, pos, nn = float(post["dist_out"][0]), post["pos_out"][0].astype(np.float64), post["normal_out"][0].astype(np.float64)
  scale = 1 + np.abs(c - pp).max() + np.abs(sz).max()
  msgs = []
  if abs(dist - wd) > TOL * scale:
    msgs.append(f"dist {dist} but the lowest ellipsoid point is {wd} above the plane")
  if np.abs(pos - wpos).max() > TOL * scale:
    msgs.append(f"pos {pos.tolist()} but the midway point is {wpos.tolist()}")
  if np.abs(nn - n).max() > TOL:
    msgs.append("normal is not the plane normal")
  return (not msgs), "plane_ellipsoid: " + ("; ".join(msgs) or "ok")


def unit_plane_ellipsoid(ctx):
  from mujoco_warp._src import collision_primitive_core as cpc

  ctx.encode(cpc.plane_ellipsoid)
  ctx.bound(note="no loops; all inputs symbolic; matrix-vector products named (definitions); wp.normalize through its contract")
  ctx.assume("plane normal is a unit vector, ellipsoid radii > 0, the ellipsoid rotation is orthonormal", "floats are reals", "reference: closed form stated in geom_c20.ellipsoid_reference")
  lemma_normalize(ctx)
  gi = GInterp(abstract_matvec=True)
  kt, gi = run_wrapper("k_plane_ellipsoid", {"dist_out": [1], "pos_out": [1], "normal_out": [1]}, interp=gi)
  n, pp, c, sz = vec_arg(kt, "plane_normal"), vec_arg(kt, "plane_pos"), vec_arg(kt, "ellipsoid_pos"), vec_arg(kt, "ellipsoid_size")
  Rm = [R(t) for t in kt.args["ellipsoid_rot"].c]
  dist, pos, nout = R(kt.post("dist_out", 0)), out_vec(kt, "pos_out", 0, 3), out_vec(kt, "normal_out", 0, 3)
  rp = lib.make_replay(ctx, kt, LOC + "k_plane_ellipsoid", "plane_ellipsoid", "goal", goal="checks.geom_c20:goal_plane_ellipsoid")
  if len(gi.matvecs) != 2 or len(gi.norms) != 1:
    ctx.error(f"plane_ellipsoid structure changed ({len(gi.matvecs)} matrix-vector products, {len(gi.norms)} normalize calls): harness does not apply")
    return
  (ex_w, w), (ex_Ry, Ry) = gi.matvecs
  y = gi.matvec_args[1]  # local support point (argument of R @ .)
  tx, L, u = gi.norms[0]  # normalize(t): t = w * size
  rowsI = [dot(Rm[3 * i : 3 * i + 3], Rm[3 * j : 3 * j + 3]) == (1 if i == j else 0) for i in range(3) for j in range(i, 3)]  # R R^T = I
  pre = [dot(n, n) == 1] + [t > 0 for t in sz] + rowsI
  rots = [(1, 0, 0, 0, 1, 0, 0, 0, 1), ("3/5", "-4/5", 0, "4/5", "3/5", 0, 0, 0, 1), (0, 0, 1, 1, 0, 0, 0, 1, 0)]
  pins = [z3.And(pin_vec(n, nv), pin_vec(pp, (0, 0, 0)), pin_vec(c, (1, 2, 3)), pin_vec(Rm, rot), pin_vec(sz, sv)) for nv, rot, sv in [((0, 0, 1), rots[0], (1, 2, "1/2")), (("3/5", 0, "4/5"), rots[1], (1, 1, 2)), ((0, 1, 0), rots[2], (3, 1, 2)), (("2/7", "3/7", "6/7"), rots[1], (1, 2, 3))]]
  P = Proof(ctx, kt.bg + pre, {"len_scaled_normal": L}, rp, pins=pins)
  ctx.reach(P.full, "twin:reachable", pins[0])
  P.goal("normal", veq(nout, n), desc="plane_ellipsoid: returned normal is not the plane normal")
  P.goal("local-normal", veq(ex_w, matTvec(Rm, n)), using=[], desc="plane_ellipsoid: the plane normal is not brought to ellipsoid coordinates with R^T n")
  P.goal("scaled-normal", veq(tx, [w[i] * sz[i] for i in range(3)]), using=[], desc="plane_ellipsoid: the normalised vector is not size * (R^T n)")
  P.lemma("t", veq(tx, [w[i] * sz[i] for i in range(3)]), using=[])
  # |w| = |n| = 1 (R R^T = I): w != 0, hence L > 0
  wdefs = [w[i] == ex_w[i] for i in range(3)]
  RT = [Rm[3 * k + r] for r in range(3) for k in range(3)]  # transposed matrix (row major)
  colsI_of_RT = rowsI  # columns of R^T are the rows of R
  rotation_preserves_norm(P, RT, n, colsI_of_RT)
  P.lemma("w-is-RTn", veq(w, matvec(RT, n)), using=wdefs + [])
  P.lemma("w.w=1", dot(w, w) == 1, using=["w-is-RTn", "|Rv|=|v|", pre[0]] + rowsI)
  P.lemma("L^2", L * L == sum(w[i] * w[i] * sz[i] * sz[i] for i in range(3)), using=["t", L * L == dot(tx, tx)])
  P.lemma("L>0", L > 0, using=["L^2", "w.w=1", L >= 0] + pre[1:4])
  P.lemma("u*L=t", veq(scl(u, L), [w[i] * sz[i] for i in range(3)]), using=["t", "L>0", z3.Implies(L > 0, z3.And(veq(scl(u, L), tx), dot(u, u) == 1))])
  P.lemma("u.u=1", dot(u, u) == 1, using=["L>0", z3.Implies(L > 0, z3.And(veq(scl(u, L), tx), dot(u, u) == 1))])
  P.goal("support-point/local", veq(y, [-u[i] * sz[i] for i in range(3)]), using=[], desc="plane_ellipsoid: the local support point is not -size * normalised(size * R^T n)")
  P.lemma("y", veq(y, [-u[i] * sz[i] for i in range(3)]), using=[])
  # on the surface: sum (y_i / size_i)^2 = 1, written without division as y_i = -u_i size_i with |u| = 1
  P.goal("support-point/on-surface", z3.And(veq(y, [-u[i] * sz[i] for i in range(3)]), dot(u, u) == 1), using=["y", "u.u=1"], desc="plane_ellipsoid: the support point is not on the ellipsoid surface")
  # lowest point: the outward surface normal there (gradient y_i / size_i^2) is anti-parallel to the plane normal:  L * y_i = -size_i^2 * w_i
  P.goal("support-point/lowest", z3.And(L > 0, veq(scl(y, L), [-sz[i] * sz[i] * w[i] for i in range(3)])), using=["y", "u*L=t", "L>0"], desc="plane_ellipsoid: the surface normal at the support point is not opposite to the plane normal (not the lowest point)")
  Pw = add(c, Ry)
  P.goal("support-point/world", veq(ex_Ry, matvec(Rm, y)), using=[], desc="plane_ellipsoid: the world support point is not centre + R * local point")
  P.goal("dist/signed-distance", dist == dot(n, sub(Pw, pp)), desc="plane_ellipsoid: dist is not the signed distance of the support point to the plane")
  P.goal("pos/midway", veq(scl(pos, 2), sub(scl(Pw, 2), scl(n, dist))), desc="plane_ellipsoid: pos is not midway between the support point and its foot point on the plane")


# ------------------------------------------------------------------------------------------------ plane_cylinder

import math as _math

S3 = Q(str(__import__("fractions").Fraction(repr(_math.sqrt(3.0)))))  # the float constant wp.sqrt(3.0) of the code


def plane_cylinder_report(n, pp, c, a, Rc, h, dists, poss, what, degenerate_ok=True):
  """statements for plane-cylinder contacts (dist_i, pos_i): the claimed surface point Q_i = pos_i + n dist_i / 2 lies on a rim
  of the cylinder (axial coordinate +/- h, radial distance Rc), dist_i is its signed distance to the plane, and the smallest
  dist is the closed-form lowest point  n.(c - pp) - h |n.a| - Rc sqrt(1 - (n.a)^2)"""
  msgs = []
  scale = 1 + np.abs(c - pp).max() + Rc + h
  for i, (d, ps) in enumerate(zip(dists, poss)):
    Qi = ps + n * d / 2
    if abs(d - float(n @ (Qi - pp))) > TOL * scale:
      msgs.append(f"{what}: dist[{i}] {d} is not the signed distance of the claimed surface point")
    ax = float((Qi - c) @ a)
    rad = float(np.linalg.norm(Qi - c - a * ax))
    if abs(abs(ax) - h) > TOL * scale or abs(rad - Rc) > TOL * scale:
      msgs.append(f"{what}: contact {i} point {Qi.tolist()} is not on a rim of the cylinder (axial {ax} vs +/-{h}, radial {rad} vs {Rc})")
  if len(dists):
    na = float(n @ a)
    low = float(n @ (c - pp)) - h * abs(na) - Rc * _math.sqrt(max(0.0, 1 - na * na))
    if abs(min(dists) - low) > TOL * scale:
      msgs.append(f"{what}: deepest contact {min(dists)} but the lowest cylinder point is {low} from the plane")
  return msgs


def goal_plane_cylinder(spec, pre, post):
  n, pp = _f32(_argv(spec, "plane_normal")), _f32(_argv(spec, "plane_pos"))
  c, a, Rc, h = _f32(_argv(spec, "cylinder_center")), _f32(_argv(spec, "cylinder_axis")), float(_f32(_argv(spec, "cylinder_radius"))), float(_f32(_argv(spec, "cylinder_half_height")))
  dists = [float(x) for x in post["dist_out"][:4]]
  poss = [post["pos_out"][i].astype(np.float64) for i in range(4)]
  msgs = plane_cylinder_report(n, pp, c, a, Rc, h, dists, poss, "plane_cylinder")
  # order of the four contacts: 1 = lowest point (cap facing the plane), 2 = same direction on the far cap, 3 / 4 on the near cap
  na = float(n @ a)
  scale = 1 + np.abs(c - pp).max() + Rc + h
  low = float(n @ (c - pp)) - h * abs(na) - Rc * _math.sqrt(max(0.0, 1 - na * na))
  if abs(dists[0] - low) > TOL * scale:
    msgs.append(f"plane_cylinder: contact 1 (dist {dists[0]}) is not the lowest point of the cylinder ({low})")
  if abs(na) > 1e-3:
    near = -1.0 if na > 0 else 1.0  # sign of the axial coordinate of the cap facing the plane
    for i, want in ((0, near), (1, -near), (2, near), (3, near)):
      ax = float((poss[i] + n * dists[i] / 2 - c) @ a)
      if ax * want < 0:
        msgs.append(f"plane_cylinder: contact {i + 1} is on the {'far' if want == near else 'near'} cap (axial coordinate {ax})")
  if np.abs(post["normal_out"][0].astype(np.float64) - n).max() > TOL:
    msgs.append("normal is not the plane normal")
  return (not msgs), "; ".join(msgs[:3]) or "plane_cylinder ok"


class _CylInterp(GInterp):
  """remembers plane_cylinder's locals at the wp.normalize call (vec, scaled axis, ... are final there)"""

  def builtin(self, fr, key, args, e):
    if key == "normalize":
      self.snap = dict(fr.env)
    return super().builtin(fr, key, args, e)


def unit_plane_cylinder(regime):
  def run(ctx):
    _unit_plane_cylinder(ctx, regime)

  return run


def _unit_plane_cylinder(ctx, regime):
  from mujoco_warp._src import collision_primitive_core as cpc

  ctx.encode(cpc.plane_cylinder)
  ctx.bound(regime=regime, note="no loops; all inputs symbolic; wp.dot results named (definitions), wp.normalize through its contract; regimes: projected normal long (|n x a|^2 >= 1e-12) with the axis pointing away from / towards the plane, and degenerate (axis parallel to the plane normal)")
  ctx.assume("plane normal and cylinder axis are unit vectors, radius > 0, half height > 0", "floats are reals; wp.sqrt(3.0) is the float constant the code uses (contacts 3, 4 are on the rim up to |sqrt3^2 - 3| < 1e-15)", "reference: statements of geom_c20.plane_cylinder_report")
  gi = _CylInterp(abstract_dot=True)
  kt, gi = run_wrapper("k_plane_cylinder", {"dist_out": [4], "pos_out": [4], "normal_out": [1]}, interp=gi, divmode="poly")
  n, pp, c, a = vec_arg(kt, "plane_normal"), vec_arg(kt, "plane_pos"), vec_arg(kt, "cylinder_center"), vec_arg(kt, "cylinder_axis")
  xax = vec_arg(kt, "cylinder_xaxis")
  Rc, h = R(kt.args["cylinder_radius"]), R(kt.args["cylinder_half_height"])
  dist = [R(kt.post("dist_out", i)) for i in range(4)]
  pos = [out_vec(kt, "pos_out", i, 3) for i in range(4)]
  rp = lib.make_replay(ctx, kt, LOC + "k_plane_cylinder", "plane_cylinder", "goal", goal="checks.geom_c20:goal_plane_cylinder")
  if len(gi.dots) != 4 or len(gi.norms) != 1 or not hasattr(gi, "snap"):
    ctx.error(f"plane_cylinder structure changed ({len(gi.dots)} dot products, {len(gi.norms)} normalize calls): harness does not apply")
    return
  vc = [R(t) for t in gi.snap["vec"].c]  # the code's radial vector
  d_na, d_dist0, d_len2, d_prjvec = [d[2] for d in gi.dots]
  allv = free_vars(z3.And(*[core.zbool(b) for b in kt.bg]))
  sq = [z3.Real(nm) for nm in sorted(allv) if nm.startswith("sqrt!")]
  dv = [z3.Real(nm) for nm in sorted(allv) if nm.startswith("div!")]
  xn, Lx, u = gi.norms[0]
  pre = [dot(n, n) == 1, dot(a, a) == 1, Rc > 0, h > 0, dot(xax, xax) == 1, dot(xax, a) == 0]
  NA, D0, LEN = z3.Reals("ref_n_dot_a ref_dist0 ref_len")
  defs = [NA == dot(n, a), D0 == dot(sub(c, pp), n), LEN >= 0, LEN * LEN == 1 - NA * NA]
  names = {"n_dot_axis": NA, "len_projected": LEN, "radius": Rc, "half_height": h, "n0": n[0], "n1": n[1], "n2": n[2], "axis0": a[0], "axis1": a[1], "axis2": a[2]}
  inputs_all = n + pp + c + a + xax

  def pin(nv, av, xv, cv=(0, 0, 1), Rv="1/2", hv="1"):
    return z3.And(pin_vec(n, nv), pin_vec(a, av), pin_vec(xax, xv), pin_vec(c, cv), pin_vec(pp, (0, 0, 0)), Rc == Q(Rv), h == Q(hv))

  N2, N3 = ("2/7", "3/7", "6/7"), ("3/7", "-6/7", "2/7")
  E1, E2 = (1, 0, 0), (0, 1, 0)
  pins = [pin((0, 0, 1), E1, E2), pin((0, 0, 1), ("3/5", 0, "4/5"), E2), pin((0, 0, 1), ("3/5", 0, "-4/5"), E2), pin(N2, N3, N2), pin(("3/5", 0, "4/5"), E2, E1), pin(("3/5", 0, "4/5"), (0, 0, 1), E1), pin(("3/5", 0, "4/5"), (0, 0, -1), E2),
          pin((0, 0, 1), (0, 0, 1), E1), pin((0, 0, 1), (0, 0, -1), E2), pin(N2, N2, N3), pin(("3/5", 0, "4/5"), ("3/5", 0, "4/5"), E2), pin(("3/5", 0, "4/5"), ("-3/5", 0, "-4/5"), ("4/5", 0, "-3/5")), pin(("3/5", "4/5", 0), ("-3/5", "-4/5", 0), (0, 0, 1))]
  base = kt.bg + pre + defs
  nondeg = LEN * LEN >= Q("1/1000000000000")
  cases = [("axis-away", z3.And(nondeg, NA <= 0), 1), ("axis-towards", z3.And(nondeg, NA > 0), -1)] if regime == "nondegenerate" else [("degenerate/axis-away", z3.And(z3.Not(nondeg), NA <= 0), 1), ("degenerate/axis-towards", z3.And(z3.Not(nondeg), NA > 0), -1)]
  for cname, cond, sg in cases:
    P = Proof(ctx, base + [cond], names, rp, prefix=f"{cname}/", pins=pins)
    tw = next((pn for pn in pins if str(kh.Session(defs + pre + [cond, pn], timeout_ms=3000).reach("t").status) == "sat"), None)
    ctx.reach(P.full, "twin:regime-reachable", tw if tw is not None else True)
    ap = scl(a, sg)  # axis pointing towards the plane side (n . ap <= 0)
    PR = NA * sg  # n . ap  (<= 0)
    P.goal("normal", veq(out_vec(kt, "normal_out", 0, 3), n), desc="plane_cylinder: returned normal is not the plane normal")
    P.lemma("na", d_na == NA, using=[d_na == dot(gi.dots[0][0], gi.dots[0][1]), defs[0]])
    P.lemma("dist0", d_dist0 == D0, using=[d_dist0 == dot(gi.dots[1][0], gi.dots[1][1]), defs[1]])
    v0 = sub(scl(ap, PR), n)
    AA, NN = P.name("aa", dot(a, a)), P.name("nn", dot(n, n))
    P.lemma("aa=1", AA == 1, using=["def:aa", pre[1]])
    P.lemma("nn=1", NN == 1, using=["def:nn", pre[0]])
    P.lemma("len2-arg", z3.And(veq(gi.dots[2][0], v0), veq(gi.dots[2][1], v0)), using=["na", cond])
    P.lemma("len2-dot", dot(gi.dots[2][0], gi.dots[2][1]) == dot(v0, v0), using=["len2-arg"])
    P.lemma("|v0|^2", dot(v0, v0) == PR * PR * AA - 2 * PR * sg * NA + NN, using=["def:aa", "def:nn", defs[0]])
    P.lemma("|v0|^2=len^2", dot(v0, v0) == LEN * LEN, using=["|v0|^2", "aa=1", "nn=1", defs[3]])
    P.lemma("len2", d_len2 == LEN * LEN, using=["len2-dot", "|v0|^2=len^2", d_len2 == dot(gi.dots[2][0], gi.dots[2][1])])
    facts_sqrt = [z3.Implies(d_len2 >= 0, z3.And(sv >= 0, sv * sv == d_len2)) for sv in sq]
    for sv in sq:
      P.lemma(f"{sv}=len", sv == LEN, using=["len2", defs[2], defs[3]] + facts_sqrt)
    sqn = [f"{sv}=len" for sv in sq]
    inputs = free_vars(z3.And(*[t == 0 for t in inputs_all]))
    scalar_facts = [f for f in (core.zbool(t) for t in kt.bg) if not (free_vars(f) & inputs)]
    Q_ = [add(pos[i], scl(n, dist[i] / 2)) for i in range(4)]  # claimed surface points
    cap = [add(c, scl(ap, h)), sub(c, scl(ap, h)), add(c, scl(ap, h)), add(c, scl(ap, h))]  # centre of the cap each contact belongs to
    if regime == "nondegenerate":
      if len(dv) != 1:
        ctx.error("plane_cylinder: expected exactly one division")
        return
      inv = dv[0]
      P.lemma("len>0", LEN > 0, using=[cond, defs[2]])
      P.lemma("inv*len=R", inv * LEN == Rc, using=scalar_facts + sqn + ["len>0"])
      P.lemma("vec", veq(vc, scl(v0, inv)), using=["len2", "na", cond])
      P.lemma("vec*len", veq(scl(vc, LEN), scl(v0, Rc)), using=["vec", "inv*len=R"])
      P.goal("radial-vector", veq(scl(vc, LEN), scl(v0, Rc)), using=["vec*len"], desc="plane_cylinder: the radial vector is not radius * normalised(axis (n.axis) - n)")
      P.lemma("v0.ap-expand", dot(v0, ap) == PR * AA - sg * NA, using=["def:aa", defs[0]])
      P.lemma("v0.ap=0", dot(v0, ap) == 0, using=["v0.ap-expand", "aa=1"])
      P.lemma("v0.n-expand", dot(v0, n) == sg * PR * NA - NN, using=["def:nn", defs[0]])
      P.lemma("v0.n", dot(v0, n) == -(LEN * LEN), using=["v0.n-expand", "nn=1", defs[3]])
      VAP, VN, VV = P.name("vec_ap", dot(vc, ap)), P.name("vec_n", dot(vc, n)), P.name("vec_vec", dot(vc, vc))
      P.lemma("vec.ap*len", VAP * LEN == Rc * dot(v0, ap), using=["vec*len", "def:vec_ap"])
      P.lemma("vec.ap=0", VAP == 0, using=["vec.ap*len", "v0.ap=0", "len>0"])
      P.lemma("vec.n*len", VN * LEN == Rc * dot(v0, n), using=["vec*len", "def:vec_n"])
      P.lemma("vec.n", VN == -(Rc * LEN), using=["vec.n*len", "v0.n", "len>0"])
      P.lemma("|vec|^2*len^2", VV * LEN * LEN == Rc * Rc * dot(v0, v0), using=["vec*len", "def:vec_vec"])
      P.lemma("|vec|=R", VV == Rc * Rc, using=["|vec|^2*len^2", "|v0|^2=len^2", "len>0"])
    else:
      # axis parallel to the plane normal: the radial direction is the cylinder's own x-axis (unit, perpendicular to the axis)
      P.lemma("vec", veq(vc, scl(xax, Rc)), using=["len2", cond])
      VAP, VN, VV = P.name("vec_ap", dot(vc, ap)), P.name("vec_n", dot(vc, n)), P.name("vec_vec", dot(vc, vc))
      XX_, XA_ = P.name("xax_xax", dot(xax, xax)), P.name("xax_a", dot(xax, a))
      P.lemma("|vec|^2-expand", VV == Rc * Rc * XX_, using=["vec", "def:vec_vec", "def:xax_xax"])
      P.lemma("|vec|=R", VV == Rc * Rc, using=["|vec|^2-expand", "def:xax_xax", pre[4]])
      P.lemma("vec.ap-expand", VAP == Rc * sg * XA_, using=["vec", "def:vec_ap", "def:xax_a"])
      P.lemma("vec.ap=0", VAP == 0, using=["vec.ap-expand", "def:xax_a", pre[5]])
    P.lemma("prjvec-arg", z3.And(veq(gi.dots[3][0], vc), veq(gi.dots[3][1], n)))
    P.lemma("prjvec", d_prjvec == VN, using=["prjvec-arg", d_prjvec == dot(gi.dots[3][0], gi.dots[3][1]), "def:vec_n"])
    # contacts 1, 2: rim points of the two caps in the radial direction vec
    for i, sgn_cap in ((0, 1), (1, -1)):
      P.goal(f"contact{i + 1}/point", veq(Q_[i], add(add(c, vc), scl(ap, sgn_cap * h))), desc=f"plane_cylinder: contact {i + 1} is not centre + radial vector {'+' if sgn_cap > 0 else '-'} half height * axis (pos = that point - n dist / 2)")
      P.lemma(f"Q{i + 1}", veq(Q_[i], add(add(c, vc), scl(ap, sgn_cap * h))))
      P.lemma(f"Q{i + 1}.n", dot(n, sub(Q_[i], pp)) == D0 + VN + sgn_cap * h * PR, using=[f"Q{i + 1}", "def:vec_n", defs[0], defs[1]])
      P.lemma(f"dist{i + 1}-code", dist[i] == D0 + sgn_cap * h * PR + VN, using=["dist0", "na", "prjvec", cond])
      P.goal(f"contact{i + 1}/dist", dist[i] == dot(n, sub(Q_[i], pp)), using=[f"Q{i + 1}.n", f"dist{i + 1}-code"], desc=f"plane_cylinder: dist[{i}] is not the signed distance of the claimed surface point to the plane")
      rad = sub(Q_[i], cap[i])
      P.lemma(f"rad{i + 1}", veq(rad, vc), using=[f"Q{i + 1}"])
      P.lemma(f"rad{i + 1}-dots", z3.And(dot(rad, ap) == VAP, dot(rad, rad) == VV), using=[f"rad{i + 1}", "def:vec_ap", "def:vec_vec"])
      P.goal(f"contact{i + 1}/on-rim", z3.And(dot(rad, ap) == 0, dot(rad, rad) == Rc * Rc), using=[f"rad{i + 1}-dots", "vec.ap=0", "|vec|=R"], desc=f"plane_cylinder: contact {i + 1} is not on the rim of its cap (radial vector not perpendicular to the axis or not of length radius)")
    if regime == "nondegenerate":
      P.goal("contact1/lowest-point", dist[0] == D0 + h * PR - Rc * LEN, using=["dist1-code", "vec.n"], desc="plane_cylinder: contact 1 is not the lowest point of the cylinder: n.(c - p) - h |n.a| - R sqrt(1 - (n.a)^2)")
    if True:
      # contacts 3, 4: on the lower rim, 120 degrees on either side of contact 1
      v1 = scl(u, Rc * S3 / 2)
      xa = cross(vc, scl(ap, h))
      P.lemma("cross-arg", veq(xn, xa))
      APAP = P.name("ap_ap", dot(ap, ap))
      P.lemma("apap=1", APAP == 1, using=["def:ap_ap", pre[1]])
      XX, CC = P.name("xn_xn", dot(xn, xn)), P.name("xa_xa", dot(xa, xa))
      P.lemma("lagrange", CC == VV * h * h * APAP - h * h * VAP * VAP, using=["def:xa_xa", "def:vec_vec", "def:ap_ap", "def:vec_ap"])
      P.lemma("|cross|^2", CC == Rc * Rc * h * h, using=["lagrange", "|vec|=R", "vec.ap=0", "apap=1"])
      P.lemma("xn.xn", XX == CC, using=["cross-arg", "def:xn_xn", "def:xa_xa"])
      P.lemma("Lx^2-def", Lx * Lx == XX, using=[Lx * Lx == dot(xn, xn), "def:xn_xn"])
      P.lemma("Lx^2", Lx * Lx == Rc * Rc * h * h, using=["|cross|^2", "xn.xn", "Lx^2-def"])
      P.lemma("Lx>0", Lx > 0, using=["Lx^2", Lx >= 0] + pre[2:])
      ufacts = z3.Implies(Lx > 0, z3.And(veq(scl(u, Lx), xn), dot(u, u) == 1))
      P.lemma("u*Lx=xn", veq(scl(u, Lx), xn), using=["Lx>0", ufacts])
      P.lemma("u*Lx", veq(scl(u, Lx), xa), using=["u*Lx=xn", "cross-arg"])
      UU, UV, UA, UN = P.name("u_u", dot(u, u)), P.name("u_vec", dot(u, vc)), P.name("u_ap", dot(u, ap)), P.name("u_n", dot(u, n))
      P.lemma("u.u=1", UU == 1, using=["Lx>0", ufacts, "def:u_u"])
      P.lemma("cross.vec", dot(xa, vc) == 0, using=[])
      P.lemma("cross.ap", dot(xa, ap) == 0, using=[])
      P.lemma("u.vec*Lx", UV * Lx == dot(xa, vc), using=["u*Lx", "def:u_vec"])
      P.lemma("u.vec=0", UV == 0, using=["u.vec*Lx", "cross.vec", "Lx>0"])
      P.lemma("u.ap*Lx", UA * Lx == dot(xa, ap), using=["u*Lx", "def:u_ap"])
      P.lemma("u.ap=0", UA == 0, using=["u.ap*Lx", "cross.ap", "Lx>0"])
      if regime == "nondegenerate":
        # (vec x ap).n * len = R ((ap PR - n) x ap).n = -R (n x ap).n = 0
        xl = cross(scl(v0, Rc), scl(ap, h))
        P.lemma("cross0.n", dot(xl, n) == 0, using=[])
        P.lemma("cross*len", veq(scl(xa, LEN), xl), using=["vec*len"])
        P.lemma("u.n*Lx*len", UN * Lx * LEN == dot(xl, n), using=["u*Lx", "cross*len", "def:u_n"])
        P.lemma("u.n=0", UN == 0, using=["u.n*Lx*len", "cross0.n", "Lx>0", "len>0"])
      for i, sgn1 in ((2, 1), (3, -1)):
        pt = add(sub(add(c, scl(v1, sgn1)), scl(vc, Q("1/2"))), scl(ap, h))
        P.goal(f"contact{i + 1}/point", veq(Q_[i], pt), desc=f"plane_cylinder: contact {i + 1} is not centre {'+' if sgn1 > 0 else '-'} side vector - radial vector / 2 + half height * axis")
        P.lemma(f"Q{i + 1}", veq(Q_[i], pt))
        P.lemma(f"Q{i + 1}.n", dot(n, sub(Q_[i], pp)) == D0 + sgn1 * Rc * S3 / 2 * UN - VN / 2 + h * PR, using=[f"Q{i + 1}", "def:u_n", "def:vec_n", defs[0], defs[1]])
        P.lemma(f"dist{i + 1}-code", dist[i] == D0 + h * PR - VN / 2, using=["dist0", "na", "prjvec", cond])
        if regime == "nondegenerate":  # (axis parallel to n: the side vector is perpendicular to n only up to the 1e-6 tolerance of the branch)
          P.goal(f"contact{i + 1}/dist", dist[i] == dot(n, sub(Q_[i], pp)), using=[f"Q{i + 1}.n", f"dist{i + 1}-code", "u.n=0"], desc=f"plane_cylinder: dist[{i}] is not the signed distance of the claimed surface point to the plane")
        rad = sub(Q_[i], cap[i])
        P.lemma(f"rad{i + 1}", veq(rad, sub(scl(v1, sgn1), scl(vc, Q("1/2")))), using=[f"Q{i + 1}"])
        P.lemma(f"rad{i + 1}-dots", z3.And(dot(rad, rad) == Rc * Rc * S3 * S3 / 4 * UU - sgn1 * Rc * S3 / 2 * UV + VV / 4, dot(rad, ap) == sgn1 * Rc * S3 / 2 * UA - VAP / 2), using=[f"rad{i + 1}", "def:u_u", "def:u_vec", "def:vec_vec", "def:u_ap", "def:vec_ap"])
        P.goal(f"contact{i + 1}/on-rim", z3.And(dot(rad, ap) == 0, 4 * dot(rad, rad) == Rc * Rc * (S3 * S3 + 1)), using=[f"rad{i + 1}-dots", "u.u=1", "u.vec=0", "u.ap=0", "vec.ap=0", "|vec|=R"], desc=f"plane_cylinder: contact {i + 1} is not on the lower rim (radial vector not perpendicular to the axis or not of length radius)")


def unit_validate(ctx):
  bad = validate_geometry(ctx.seed, 60 if ctx.tier == "quick" else 300)
  for b in bad[:5]:
    ctx.error("geometric statement does not hold for MuJoCo's own contacts (statement over-demands): " + b)
  sess = ctx.session([])
  ctx.reach(sess, "twin:validation-ran", True)
  ctx.notes.append("the geometric statements (unit normal from geom1 to geom2, dist = separation, pos midway, orthonormal frame) were checked on MuJoCo's own contacts for random sphere-sphere, sphere-capsule, plane-sphere, plane-capsule poses")


def units(include_frame=True):
  u = [("geometry/validate-statements-on-mujoco", unit_validate)]
  if include_frame:
    u.append(("geometry/make_frame", unit_make_frame))
  u += [
    ("geometry/plane_sphere", unit_plane_sphere),
    ("geometry/sphere_sphere", unit_sphere_sphere),
    ("geometry/closest_segment_point", unit_closest),
    ("geometry/sphere_capsule", unit_sphere_capsule),
    ("geometry/normalize_with_norm", unit_nwn),
    ("geometry/plane_capsule/aligned", unit_plane_capsule("aligned")),
    ("geometry/plane_capsule/fallback-y", unit_plane_capsule("fallback-y")),
    ("geometry/plane_capsule/fallback-z", unit_plane_capsule("fallback-z")),
    ("geometry/capsule_capsule", unit_capsule_capsule),
    ("geometry/plane_box", unit_plane_box),
    ("geometry/sphere_box", unit_sphere_box),
    ("geometry/plane_ellipsoid", unit_plane_ellipsoid),
    ("geometry/plane_cylinder/nondegenerate", unit_plane_cylinder("nondegenerate")),
    ("geometry/plane_cylinder/degenerate", unit_plane_cylinder("degenerate")),
    ("geometry/sphere_cylinder/side", unit_sphere_cylinder("side")),
    ("geometry/sphere_cylinder/cap", unit_sphere_cylinder("cap")),
    ("geometry/sphere_cylinder/rim", unit_sphere_cylinder("rim")),
  ]
  return u
