"""K-mode units with SYMBOLIC model sizes for the kernels defined inside io.reset_data / io.reset_data_keyframe
(captured from a trace of the real host functions): for ALL nq, nv, nu, na, neq, nuserdata, nsensordata, nmocap within the
unroll bound, every element below the respective size is reset / loaded — the size relations (na > nu, nu > nq, ...) a
concrete model family can miss."""

import z3

from checks import lib
from wsym import core, host, kh
from wsym.core import And, cmp, is_sym

UNROLL = 4


def capture(fn_name):
  """kernel objects launched by the real host function on a tiny model -> {key: kernel}"""
  import mujoco
  import numpy as np
  import warp as wp

  import mujoco_warp as mjw
  from mujoco_warp._src import io

  xml = """<mujoco><size nuserdata="1"/><worldbody><body pos="0 0 1"><joint name="j"/><geom size=".1"/></body>
<body mocap="true" pos="1 0 0"><geom size=".05" contype="0" conaffinity="0"/></body></worldbody>
<actuator><general joint="j" dyntype="integrator"/></actuator><sensor><jointpos joint="j"/></sensor>
<keyframe><key qpos="0.1" qvel="0.2" act="0.3" ctrl="0.4" time="1" mpos="1 1 1" mquat="0 1 0 0"/></keyframe></mujoco>"""
  mjm = mujoco.MjModel.from_xml_string(xml)
  m = mjw.put_model(mjm)
  d = mjw.make_data(mjm, nworld=2, nconmax=2, njmax=4)
  out = {}

  class HR(host.HostRun):
    def _alloc(self, shape, dtype, fill):
      dtype = {bool: wp.bool, int: wp.int32, float: wp.float32}.get(dtype, dtype)
      return super()._alloc(shape, dtype, fill)

  with HR(mode="trace") as hr:
    if fn_name == "reset_data":
      io.reset_data(m, host.shim_dataclass(d, "d.", symbolic=lambda n: False), host.sym_array("reset", (2,), wp.bool, np.array([True, False])))
    else:
      io.reset_data_keyframe(m, host.shim_dataclass(d, "d.", symbolic=lambda n: False), host.sym_array("key", (2,), wp.int32, np.array([0, 0])))
  for e in hr.events:
    if e.kind == "launch":
      out[e.kernel.key.split("__locals__")[-1]] = e.kernel
  return out


def _sizes(names):
  return {n: z3.Int(n) for n in names}


def unit_reset_nworld(pid):
  def run(ctx):
    ks = capture("reset_data")
    k = ks.get("reset_nworld")
    if k is None:
      ctx.error(f"reset_data no longer launches a kernel named reset_nworld (launched: {sorted(ks)})")
      return
    ctx.encode(k)
    S = _sizes(["nq", "nv", "nu", "na", "neq", "nuserdata", "nsensordata"])
    kt = lib.kernel_thread(k, scalars=dict(S), unroll=UNROLL, alias_inout=True, cap=8)
    w = kt.tid
    # nv <= nq is a MuJoCo model invariant (every joint type has at least as many position as velocity coordinates)
    bg = kt.bg + [z3.And(v >= 0, v <= UNROLL) for v in S.values()] + [kt.pre("reset_in", w), S["nv"] <= S["nq"]]
    ctx.assume("model sizes symbolic in [0,4], only relation nv <= nq (MuJoCo invariant); world selected; own accesses in bounds")
    ctx.bound(unroll=UNROLL, sizes="nq,nv,nu,na,neq,nuserdata,nsensordata in 0..4")
    sess = ctx.session(bg)
    ctx.reach(sess, "twin:selected-world", True)
    i = z3.Int("i")
    q0 = kt.args["qpos0"].cell
    table = [
      ("qpos_out", "nq", lambda: kt.pre("qpos0", core.arith("%", w, q0.shape[0]), i)),
      ("qvel_out", "nv", lambda: 0.0), ("qacc_warmstart_out", "nv", lambda: 0.0), ("qfrc_applied_out", "nv", lambda: 0.0), ("qacc_out", "nv", lambda: 0.0),
      ("ctrl_out", "nu", lambda: 0.0), ("act_out", "na", lambda: 0.0), ("act_dot_out", "na", lambda: 0.0),
      ("sensordata_out", "nsensordata", lambda: 0.0), ("userdata_out", "nuserdata", lambda: 0.0),
    ]
    names = dict(S, w=w, i=i)
    for label, size, val in table:
      if label not in kt.args:
        ctx.error(f"reset_nworld has no argument {label}")
        continue
      g = And(i >= 0, cmp("<", i, S[size]), kt.inshape(label, w, i))
      sent = 777.0
      rp = lib.make_replay(ctx, kt, "capture:checks.resetk:locate_reset:reset_nworld", f"reset/{label}", "goal", goal="checks.resetk:goal_cell_value", env={"label": label, "idx": [w, i], "expect": 0.0 if label != "qpos_out" else None, "sentinels": {label: sent}})
      ctx.prove(sess, f"sizes/{label}<{size}:written", kt.written(label, w, i), g, names=names, replay=rp, desc=f"reset_data: {label}[w, i] is not reset for some i < {size} (model sizes nq..na arbitrary)")
      ctx.prove(sess, f"sizes/{label}<{size}:value", cmp("==", kt.post(label, w, i), val()), g, names=names, replay=rp, desc=f"reset_data: {label}[w, i] is reset to the wrong value for some i < {size}")
    ea = z3.Int("e")
    g = And(ea >= 0, cmp("<", ea, S["neq"]), kt.inshape("eq_active_out", w, ea))
    ctx.prove(sess, "sizes/eq_active<neq", And(kt.written("eq_active_out", w, ea), core.zbool(kt.post("eq_active_out", w, ea)) == core.zbool(kt.pre("eq_active0", ea))), g, names=dict(names, e=ea), replay=lib.make_replay(ctx, kt, "capture:checks.resetk:locate_reset:reset_nworld", "reset/eq_active", "goal", goal="checks.resetk:goal_eq_active", env={"idx": [w, ea]}), desc="reset_data: eq_active not restored from eq_active0 for some equality")

  return ("sizes/reset_nworld", run)


def unit_keyframe(pid):
  def run(ctx):
    ks = capture("reset_data_keyframe")
    k = ks.get("reset_keyframe_data")
    if k is None:
      ctx.error(f"reset_data_keyframe no longer launches a kernel named reset_keyframe_data (launched: {sorted(ks)})")
      return
    ctx.encode(k)
    S = _sizes(["nq", "nv", "nu", "na", "nmocap"])
    kt = lib.kernel_thread(k, scalars=dict(S), unroll=UNROLL, alias_inout=True, cap=8)
    w = kt.tid
    key = kt.pre("key_in", w)
    bg = kt.bg + [z3.And(v >= 0, v <= UNROLL) for v in S.values()] + [kt.pre("reset_in", w)]
    ctx.assume("model sizes symbolic in [0,4] with NO relation between them; world has a valid key; own accesses in bounds")
    ctx.bound(unroll=UNROLL, sizes="nq,nv,nu,na,nmocap in 0..4")
    sess = ctx.session(bg)
    ctx.reach(sess, "twin:valid-key-world", True)
    i = z3.Int("i")
    names = dict(S, w=w, i=i, key=key)
    for label, size, src in [("qpos_out", "nq", "key_qpos"), ("qvel_out", "nv", "key_qvel"), ("act_out", "na", "key_act"), ("ctrl_out", "nu", "key_ctrl")]:
      g = And(i >= 0, cmp("<", i, S[size]), kt.inshape(label, w, i))
      rp = lib.make_replay(ctx, kt, "capture:checks.resetk:locate_keyframe:reset_keyframe_data", f"key/{label}", "goal", goal="checks.resetk:goal_cell_value", env={"label": label, "idx": [w, i], "expect": None, "sentinels": {label: 777.0}})
      ctx.prove(sess, f"sizes/{label}<{size}", And(kt.written(label, w, i), cmp("==", kt.post(label, w, i), kt.pre(src, key, i))), g, names=names, replay=rp, desc=f"reset_data_keyframe: {label}[w, i] is not loaded from {src}[key, i] for some i < {size} (model sizes arbitrary)")
    for label, src in [("mocap_pos_out", "key_mpos"), ("mocap_quat_out", "key_mquat")]:
      g = And(i >= 0, cmp("<", i, S["nmocap"]), kt.inshape(label, w, i))
      eq = And(*[cmp("==", a, b) for a, b in zip(kt.postv(label, w, i).c, kt.prev(src, key, i).c)])
      ctx.prove(sess, f"sizes/{label}<nmocap", And(kt.written(label, w, i), eq), g, names=names, replay=lambda m_: (True, "model only (vector field)"), desc=f"reset_data_keyframe: {label} not loaded from {src} for some mocap body")
    ctx.prove(sess, "sizes/time", And(kt.written("time_out", w), cmp("==", kt.post("time_out", w), kt.pre("key_time", key))), True, names=names, replay=lambda m_: (True, "model only"), desc="reset_data_keyframe: time not loaded from key_time")

  return ("sizes/reset_keyframe_data", run)


def locate_reset(key):
  return capture("reset_data")[key]


def locate_keyframe(key):
  return capture("reset_data_keyframe")[key]


def goal_cell_value(spec, pre, post):
  """replay goal: the cell must have been written (sentinel gone)"""
  import numpy as np

  e = spec["env"]
  v = float(np.asarray(post[e["label"]][tuple(e["idx"])]))
  sent = list(e["sentinels"].values())[0]
  if v == sent:
    return False, f"{e['label']}{e['idx']} untouched (still the sentinel {sent})"
  if e.get("expect") is not None and abs(v - e["expect"]) > 1e-6:
    return False, f"{e['label']}{e['idx']} = {v}, expected {e['expect']}"
  return True, f"{e['label']}{e['idx']} = {v}"


def goal_eq_active(spec, pre, post):
  """replay goal: eq_active_out[w, e] == eq_active0[e] after the thread"""
  import numpy as np

  w, e = spec["env"]["idx"]
  got, want = bool(np.asarray(post["eq_active_out"])[w, e]), bool(np.asarray(pre["eq_active0"])[e])
  return got == want, f"eq_active[{w}, {e}] = {got} after reset, eq_active0[{e}] = {want}"
